import GoblVerif.Model.Codec
import GoblVerif.Model.GoStrings
import GoblVerif.Model.GoJson
import GoblVerif.Generated.CodecSrc
import GoblVerif.Proofs.Codec
import GoblVerif.Proofs.GoSem

namespace GoblVerif.CodecSrc
open GoblVerif GoblVerif.Codec GoblVerif.GoStr GoblVerif.GoSem

theorem hasPrefix_minus (s : Text) : GoStr.hasPrefix s ['-'] = hasPrefixMinus s := by
  cases s with
  | nil => rfl
  | cons c r =>
    by_cases h : c = '-'
    · subst h; simp [GoStr.hasPrefix, hasPrefixMinus, List.isPrefixOf]
    · have h' : ('-' == c) = false := by simp [Ne.symm h]
      simp only [GoStr.hasPrefix, hasPrefixMinus, List.isPrefixOf, h', Bool.false_and]
      split
      · rename_i heq; injection heq with h1 _; exact absurd h1 h
      · rfl

theorem split_dot (s : Text) : GoStrings.split s ['.'] = splitOn '.' s := by
  unfold GoStrings.split
  induction s with
  | nil => rfl
  | cons c cs ih =>
    by_cases h : c = '.'
    · subst h; simp [GoStrings.splitGo, splitOn, List.isPrefixOf, ih]
    · have h' : ('.' == c) = false := by simp [Ne.symm h]
      simp only [GoStrings.splitGo, splitOn, List.isPrefixOf, h', h, ih, Bool.false_and, if_false, Bool.false_eq_true]
      cases splitOn '.' cs <;> rfl

theorem trimPrefix_minus (s : Text) : GoStrings.trimPrefix s ['-'] = trimPrefixMinus s := by
  cases s with
  | nil => rfl
  | cons c r =>
    by_cases h : c = '-'
    · subst h; simp [GoStrings.trimPrefix, trimPrefixMinus, List.isPrefixOf]
    · have h' : ('-' == c) = false := by simp [Ne.symm h]
      simp only [GoStrings.trimPrefix, trimPrefixMinus, List.isPrefixOf, h', Bool.false_and, if_false, Bool.false_eq_true]
      split
      · rename_i heq; injection heq with h1 _; exact absurd h1 h
      · rfl

theorem isDig_eq (c : Char) : GoStr.isDig c = isDigitC c := by
  simp [GoStr.isDig, isDigitC]

theorem digitsVal_eq (s : Text) : GoStr.digitsVal s = natOfDigits s := by
  unfold GoStr.digitsVal natOfDigits
  congr 1
  funext n c
  simp [digitVal, Nat.mul_comm]

theorem atoiU_eq (s : Text) : GoStr.atoiU s = if isDigits s = true then some (natOfDigits s) else none := by
  unfold GoStr.atoiU isDigits
  have : s.all GoStr.isDig = s.all isDigitC := by congr 1; funext c; exact isDig_eq c
  rw [this, digitsVal_eq]

/-- `strconv.ParseInt(s, 10, 64)` in the vocabulary of the model -/
def goParseInt (s : Text) : Int × Option Str :=
  match parseInt64 s with
  | .ok v => (v, none)
  | .error .syntax => (0, some GoStr.errSyntax)
  | .error .range => (if hasPrefixMinus s = true then minInt64 else maxInt64, some GoStrings.errRange)

theorem parseInt_eq (s : Text) : GoStrings.parseInt s = goParseInt s := by
  cases s with
  | nil => rfl
  | cons c r =>
    by_cases hm : c = '-'
    · subst hm
      simp only [GoStrings.parseInt, GoStrings.isNeg, GoStrings.afterSign, goParseInt, parseInt64, atoiU_eq, hasPrefixMinus]
      by_cases hd : isDigits r = true
      · by_cases hr : natOfDigits r > 9223372036854775808 <;> simp [hd, hr, minInt64]
      · simp [hd]
    by_cases hp : c = '+'
    · subst hp
      simp only [GoStrings.parseInt, GoStrings.isNeg, GoStrings.afterSign, goParseInt, parseInt64, atoiU_eq]
      by_cases hd : isDigits r = true
      · by_cases hr : natOfDigits r ≥ 9223372036854775808 <;> simp [hd, hr, maxInt64, hasPrefixMinus]
      · simp [hd]
    · have h1 : (c == '-') = false := by simp [hm]
      have h2 : (c == '+') = false := by simp [hp]
      have e1 : GoStrings.isNeg (c :: r) = false := by
        unfold GoStrings.isNeg
        split
        · rename_i heq; injection heq with h _; exact absurd h hm
        · rfl
      have e2 : GoStrings.afterSign (c :: r) = c :: r := by
        unfold GoStrings.afterSign
        split
        · rename_i heq; injection heq with h _; exact absurd h hm
        · rename_i heq; injection heq with h _; exact absurd h hp
        · rfl
      have e3 : hasPrefixMinus (c :: r) = false := by
        unfold hasPrefixMinus
        split
        · rename_i heq; injection heq with h _; exact absurd h hm
        · rfl
      simp only [GoStrings.parseInt, goParseInt, parseInt64, atoiU_eq, e1, e2, e3, h1, h2]
      by_cases hd : isDigits (c :: r) = true
      · by_cases hr : natOfDigits (c :: r) ≥ 9223372036854775808 <;> simp [hd, hr, maxInt64]
      · simp [hd]

end GoblVerif.CodecSrc
