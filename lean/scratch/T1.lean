import GoblVerif.Proofs.CalcErrorMore

namespace GoblVerif
open GoblVerif.Spec GoblVerif.Calc
namespace Calc

/-! ## the tax summary under the precise rule, prices not including tax -/

theorem list_sum_diff_le' {α : Type} (xs : List α) (f g B : α → ℚ)
    (h : ∀ x ∈ xs, |f x - g x| ≤ B x) : |(xs.map f).sum - (xs.map g).sum| ≤ (xs.map B).sum := by
  induction xs with
  | nil => simp
  | cons x xs ih =>
    have h1 := h x (by simp)
    have h2 := ih (fun y hy => h y (by simp [hy]))
    simp only [List.map_cons, List.sum_cons]
    have : f x + (xs.map f).sum - (g x + (xs.map g).sum) = (f x - g x) + ((xs.map f).sum - (xs.map g).sum) := by ring
    rw [this]
    refine le_trans (abs_add_le _ _) ?_
    linarith

theorem sum_map_mul_const {α : Type} (xs : List α) (f : α → ℕ) (h : ℚ) :
    (xs.map (fun x => ((f x : ℕ) : ℚ) * h)).sum = (((xs.map f).sum : ℕ) : ℚ) * h := by
  induction xs with
  | nil => simp
  | cons x xs ih => simp only [List.map_cons, List.sum_cons, ih]; push_cast; ring

theorem amtEq_toRat (a b : Amount) (h : amtEq a b = true) : a.toRat = b.toRat := by
  unfold amtEq at h
  simp only at h
  generalize he : (if b.exp > a.exp then b.exp else a.exp) = e at h
  have hv : (up a e).value = (up b e).value := by simpa using h
  have hx : (up a e).exp = (up b e).exp := by
    rw [up_exp, up_exp]; split at he <;> omega
  rw [← up_toRat a e, ← up_toRat b e]
  unfold Amount.toRat
  rw [hv, hx]

theorem rtMatches_percent (rt : RateTotal) (cb : Combo) (h : rtMatches rt cb = true) :
    (rt.percent = none ∧ cb.percent = none) ∨
    ∃ p q, rt.percent = some p ∧ cb.percent = some q ∧ p.amount.toRat = q.amount.toRat := by
  unfold rtMatches at h
  split at h
  · simp at h
  · split at h
    · simp at h
    · cases hp : rt.percent with
      | none =>
        cases hq : cb.percent with
        | none => exact Or.inl ⟨rfl, rfl⟩
        | some q => simp [hp, hq] at h
      | some p =>
        cases hq : cb.percent with
        | none => simp [hp, hq] at h
        | some q =>
          simp only [hp, hq, Bool.and_eq_true] at h
          exact Or.inr ⟨p, q, rfl, rfl, amtEq_toRat _ _ h.2⟩

/-- a tax combo of the covered class: not retained, no surcharge, exempt or a percentage of at
most 100 % in magnitude -/
def ComboOk (cb : Combo) : Prop :=
  cb.retained = false ∧ cb.surcharge = none ∧ ∀ p, cb.percent = some p → |p.amount.toRat| ≤ 1

def comboQ (t : ℚ) (cb : Combo) : ℚ :=
  match cb.percent with
  | some p => t * p.amount.toRat
  | none => 0

/-- the exact tax of a row with total `t` (prices not including tax), as `Spec.C01.exactQ` has it -/
def rowQ (t : ℚ) (taxes : List Combo) : ℚ := (Spec.C01.rowTaxQ none t taxes).1

theorem rowQ_eq (t : ℚ) (taxes : List Combo) (h : ∀ cb ∈ taxes, ComboOk cb) :
    rowQ t taxes = (taxes.map (comboQ t)).sum := by
  unfold rowQ Spec.C01.rowTaxQ
  simp only
  congr 1
  apply List.map_congr_left
  intro cb hcb
  obtain ⟨hr, hs, _⟩ := h cb hcb
  unfold comboQ
  cases hp : cb.percent with
  | none => rfl
  | some p => simp [hr, hs, Spec.C01.pq]

theorem comboQ_diff (T t : ℚ) (cb : Combo) (h : ComboOk cb) : |comboQ T cb - comboQ t cb| ≤ |T - t| := by
  unfold comboQ
  cases hp : cb.percent with
  | none => simp
  | some p =>
    simp only
    have hle := h.2.2 p hp
    have e : T * p.amount.toRat - t * p.amount.toRat = (T - t) * p.amount.toRat := by ring
    rw [e, abs_mul]
    calc |T - t| * |p.amount.toRat| ≤ |T - t| * 1 := mul_le_mul_of_nonneg_left hle (abs_nonneg _)
      _ = |T - t| := mul_one _

theorem rowQ_diff (T t : ℚ) (taxes : List Combo) (h : ∀ cb ∈ taxes, ComboOk cb) :
    |rowQ T taxes - rowQ t taxes| ≤ (taxes.length : ℚ) * |T - t| := by
  rw [rowQ_eq T taxes h, rowQ_eq t taxes h]
  exact list_sum_diff_le taxes (comboQ T) (comboQ t) _ (fun cb hcb => comboQ_diff T t cb (h cb hcb))

def rateQ (rt : RateTotal) : ℚ :=
  match rt.percent with
  | some p => rt.base.toRat * p.amount.toRat
  | none => 0

def ratesQ (rts : List RateTotal) : ℚ := (rts.map rateQ).sum
def catsQ (cats : List CatTotal) : ℚ := (cats.map (fun ct => ratesQ ct.rates)).sum

/-- every group has no surcharge and a base between the working precision and `E` -/
def RatesInv (c E : ℕ) (rts : List RateTotal) : Prop :=
  ∀ rt ∈ rts, rt.surcharge = none ∧ c + 2 ≤ rt.base.exp ∧ rt.base.exp ≤ E

theorem base_step_precise (base t : Amount) :
    (add exactOps (mrp .precise base t) t).toRat = base.toRat + t.toRat ∧
    (add exactOps (mrp .precise base t) t).exp = max base.exp t.exp := by
  refine ⟨?_, step_exp_precise .precise (by decide) base t⟩
  have := (base_step .precise 0 base t (fun h => by cases h)).1
  simpa [contrib] using this

theorem addToRates_w (c E : ℕ) (cb : Combo) (t : Amount) (rts : List RateTotal)
    (hcb : cb.surcharge = none) (ht1 : c + 2 ≤ t.exp) (ht2 : t.exp ≤ E) (hinv : RatesInv c E rts) :
    ratesQ (addToRates exactOps .precise c cb t rts) = ratesQ rts + comboQ t.toRat cb ∧
    RatesInv c E (addToRates exactOps .precise c cb t rts) := by
  induction rts with
  | nil =>
    obtain ⟨b1, b2⟩ := base_step_precise ⟨0, c⟩ t
    simp only [addToRates, newRate, ratesQ, List.map_cons, List.map_nil, List.sum_cons, List.sum_nil]
    refine ⟨?_, ?_⟩
    · simp only [rateQ, comboQ, b1]
      cases cb.percent <;> simp [Amount.toRat]
    · intro rt hrt
      simp only [List.mem_singleton] at hrt
      subst hrt
      simp only [hcb, Option.map_none, b2, true_and]
      omega
  | cons rt rts ih =>
    have hinv' : RatesInv c E rts := fun x hx => hinv x (by simp [hx])
    obtain ⟨hs, he1, he2⟩ := hinv rt (by simp)
    simp only [addToRates]
    split
    · rename_i hm
      obtain ⟨b1, b2⟩ := base_step_precise rt.base t
      refine ⟨?_, ?_⟩
      · simp only [ratesQ, List.map_cons, List.sum_cons]
        have : rateQ { rt with base := add exactOps (mrp .precise rt.base t) t } = rateQ rt + comboQ t.toRat cb := by
          rcases rtMatches_percent rt cb hm with ⟨h1, h2⟩ | ⟨p, q, h1, h2, h3⟩
          · simp [rateQ, comboQ, h1, h2]
          · simp only [rateQ, comboQ, h1, h2, b1, h3]; ring
        rw [this]; ring
      · intro x hx
        simp only [List.mem_cons] at hx
        rcases hx with rfl | hx
        · simp only [hs, b2, true_and]; omega
        · exact hinv' x hx
    · obtain ⟨i1, i2⟩ := ih hinv'
      refine ⟨?_, ?_⟩
      · simp only [ratesQ, List.map_cons, List.sum_cons] at i1 ⊢
        rw [i1]; ring
      · intro x hx
        simp only [List.mem_cons] at hx
        rcases hx with rfl | hx
        · exact hinv x (by simp)
        · exact i2 x hx

def CatsInv (c E : ℕ) (cats : List CatTotal) : Prop :=
  ∀ ct ∈ cats, ct.retained = false ∧ RatesInv c E ct.rates

theorem addToCats_w (c E : ℕ) (cb : Combo) (t : Amount) (cats : List CatTotal)
    (hcb : ComboOk cb) (ht1 : c + 2 ≤ t.exp) (ht2 : t.exp ≤ E) (hinv : CatsInv c E cats) :
    catsQ (addToCats exactOps .precise c cb t cats) = catsQ cats + comboQ t.toRat cb ∧
    CatsInv c E (addToCats exactOps .precise c cb t cats) := by
  induction cats with
  | nil =>
    obtain ⟨h1, h2⟩ := addToRates_w c E cb t [] hcb.2.1 ht1 ht2 (fun _ h => by simp at h)
    simp only [addToCats, catsQ, List.map_cons, List.map_nil, List.sum_cons, List.sum_nil]
    refine ⟨?_, ?_⟩
    · rw [h1]; simp [ratesQ]
    · intro ct hct
      simp only [List.mem_singleton] at hct
      subst hct
      exact ⟨hcb.1, h2⟩
  | cons ct cts ih =>
    have hinv' : CatsInv c E cts := fun x hx => hinv x (by simp [hx])
    simp only [addToCats]
    split
    · obtain ⟨h1, h2⟩ := addToRates_w c E cb t ct.rates hcb.2.1 ht1 ht2 (hinv ct (by simp)).2
      refine ⟨?_, ?_⟩
      · simp only [catsQ, List.map_cons, List.sum_cons, h1]; ring
      · intro x hx
        simp only [List.mem_cons] at hx
        rcases hx with rfl | hx
        · exact ⟨(hinv ct (by simp)).1, h2⟩
        · exact hinv' x hx
    · obtain ⟨i1, i2⟩ := ih hinv'
      refine ⟨?_, ?_⟩
      · simp only [catsQ, List.map_cons, List.sum_cons] at i1 ⊢
        rw [i1]; ring
      · intro x hx
        simp only [List.mem_cons] at hx
        rcases hx with rfl | hx
        · exact hinv x (by simp)
        · exact i2 x hx

theorem foldCombos_w (c E : ℕ) (t : Amount) (cbs : List Combo) (cats : List CatTotal)
    (hcb : ∀ cb ∈ cbs, ComboOk cb) (ht1 : c + 2 ≤ t.exp) (ht2 : t.exp ≤ E) (hinv : CatsInv c E cats) :
    catsQ (cbs.foldl (fun cats cb => addToCats exactOps .precise c cb t cats) cats) =
      catsQ cats + (cbs.map (comboQ t.toRat)).sum ∧
    CatsInv c E (cbs.foldl (fun cats cb => addToCats exactOps .precise c cb t cats) cats) := by
  induction cbs generalizing cats with
  | nil => simp [hinv]
  | cons cb cbs ih =>
    obtain ⟨h1, h2⟩ := addToCats_w c E cb t cats (hcb cb (by simp)) ht1 ht2 hinv
    obtain ⟨i1, i2⟩ := ih (addToCats exactOps .precise c cb t cats) (fun x hx => hcb x (by simp [hx])) h2
    refine ⟨?_, i2⟩
    rw [List.foldl_cons, i1, h1]
    simp only [List.map_cons, List.sum_cons]
    ring

/-- a row of the covered class: combos of the class, total between the working precision and `E` -/
def RowOk (c E : ℕ) (rw : Row) : Prop :=
  (∀ cb ∈ rw.taxes, ComboOk cb) ∧ c + 2 ≤ rw.total.exp ∧ rw.total.exp ≤ E

theorem baseRateTotals_w (c E : ℕ) (rows : List Row) (cats : List CatTotal)
    (hrows : ∀ rw ∈ rows, RowOk c E rw) (hinv : CatsInv c E cats) :
    catsQ (rows.foldl (fun cats rw => rw.taxes.foldl (fun cats cb => addToCats exactOps .precise c cb rw.total cats) cats) cats) =
      catsQ cats + (rows.map (fun rw => rowQ rw.total.toRat rw.taxes)).sum ∧
    CatsInv c E (rows.foldl (fun cats rw => rw.taxes.foldl (fun cats cb => addToCats exactOps .precise c cb rw.total cats) cats) cats) := by
  induction rows generalizing cats with
  | nil => simp [hinv]
  | cons rw rows ih =>
    obtain ⟨hc, h1, h2⟩ := hrows rw (by simp)
    obtain ⟨f1, f2⟩ := foldCombos_w c E rw.total rw.taxes cats hc h1 h2 hinv
    obtain ⟨i1, i2⟩ := ih _ (fun x hx => hrows x (by simp [hx])) f2
    refine ⟨?_, i2⟩
    rw [List.foldl_cons, i1, f1]
    simp only [List.map_cons, List.sum_cons]
    rw [rowQ_eq _ _ hc]
    ring

/-! ### amounts of the groups, categories and the tax sum -/

theorem rateAmounts_percent (rt : RateTotal) (c : ℕ) : (rateAmounts exactOps rt c).percent = rt.percent := by
  unfold rateAmounts; split <;> simp_all

theorem rateAmounts_surcharge_none (rt : RateTotal) (c : ℕ) (h : rt.surcharge = none) :
    (rateAmounts exactOps rt c).surcharge = none := by
  unfold rateAmounts; split <;> simp [h]

theorem rateAmounts_err (rt : RateTotal) (c E : ℕ) (h1 : c + 2 ≤ rt.base.exp) (h2 : rt.base.exp ≤ E) (hc : c ≤ E) :
    (rateAmounts exactOps rt c).amount.exp ≤ E ∧
    |taxedAmount .precise c (rateAmounts exactOps rt c) - rateQ rt| ≤ halfUlp (c + 2) := by
  unfold taxedAmount rateQ
  rw [rateAmounts_percent]
  cases hp : rt.percent with
  | none =>
    refine ⟨?_, by simp [halfUlp_nonneg]⟩
    simp [rateAmounts, hp, hc]
  | some p =>
    have hv : (rateAmounts exactOps rt c).amount = rt.base.mulX p.amount := by
      simp [rateAmounts, hp, pctOf]
    simp only [contrib, hv, mulX_exp]
    exact ⟨h2, le_trans (mulX_err rt.base p.amount) (halfUlp_mono _ _ h1)⟩

theorem surchargeFold_none (r : Rule) (c : ℕ) (rates : List RateTotal) (h : ∀ rt ∈ rates, rt.surcharge = none) :
    rates.foldl (fun (s : Option Amount) rt =>
      match rt.percent, rt.surcharge with
      | some _, some (_, sa) =>
        let x := s.getD ⟨0, c⟩
        some (add exactOps (mrp r x sa) sa)
      | _, _ => s) none = none := by
  induction rates with
  | nil => rfl
  | cons rt rates ih =>
    rw [List.foldl_cons]
    have hs := h rt (by simp)
    have : (match rt.percent, rt.surcharge with
      | some _, some (_, sa) =>
        let x := (none : Option Amount).getD ⟨0, c⟩
        some (add exactOps (mrp r x sa) sa)
      | _, _ => (none : Option Amount)) = none := by
      rw [hs]; cases rt.percent <;> rfl
    rw [this]
    exact ih (fun x hx => h x (by simp [hx]))

theorem amountFold_exp_le (E : ℕ) (rates : List RateTotal) (z : Amount) (hz : z.exp ≤ E)
    (h : ∀ rt ∈ rates, rt.amount.exp ≤ E) :
    (rates.foldl (fun a rt =>
        match rt.percent with
        | none => a
        | some _ => add exactOps (mrp .precise a rt.amount) rt.amount) z).exp ≤ E := by
  induction rates generalizing z with
  | nil => simpa
  | cons rt rates ih =>
    rw [List.foldl_cons]
    apply ih _ _ (fun x hx => h x (by simp [hx]))
    cases rt.percent with
    | none => exact hz
    | some p =>
      simp only
      rw [step_exp_precise .precise (by decide)]
      have := h rt (by simp)
      omega

/-- one category: no surcharge, not retained, amount not finer than `E`, within one half-unit per
group of Σ base × percentage -/
theorem catAmounts_w (c E : ℕ) (ct : CatTotal) (hr : ct.retained = false) (hinv : RatesInv c E ct.rates) (hc : c ≤ E) :
    (catAmounts exactOps .precise c ct).retained = false ∧
    (catAmounts exactOps .precise c ct).surcharge = none ∧
    (catAmounts exactOps .precise c ct).amount.exp ≤ E ∧
    (catAmounts exactOps .precise c ct).rates.length = ct.rates.length ∧
    |(catAmounts exactOps .precise c ct).amount.toRat - ratesQ ct.rates| ≤ (ct.rates.length : ℚ) * halfUlp (c + 2) := by
  refine ⟨hr, ?_, ?_, ?_, ?_⟩
  · simp only [catAmounts]
    apply surchargeFold_none
    intro rt hrt
    simp only [List.mem_map] at hrt
    obtain ⟨x, hx, rfl⟩ := hrt
    exact rateAmounts_surcharge_none x c (hinv x hx).1
  · simp only [catAmounts]
    apply amountFold_exp_le E _ _ hc
    intro rt hrt
    simp only [List.mem_map] at hrt
    obtain ⟨x, hx, rfl⟩ := hrt
    exact (rateAmounts_err x c E (hinv x hx).2.1 (hinv x hx).2.2 hc).1
  · simp [catAmounts]
  · rw [catAmounts_amount]
    have hrates : (catAmounts exactOps .precise c ct).rates = ct.rates.map (rateAmounts exactOps · c) := rfl
    rw [hrates, List.map_map]
    unfold ratesQ
    exact list_sum_diff_le ct.rates _ rateQ _
      (fun x hx => (rateAmounts_err x c E (hinv x hx).2.1 (hinv x hx).2.2 hc).2)

theorem finalSum_exp_le (c E : ℕ) (cats : List CatTotal) (hc : c ≤ E)
    (h : ∀ ct ∈ cats, ct.surcharge = none ∧ ct.amount.exp ≤ E) :
    (finalSum exactOps .precise c cats).exp ≤ E := by
  unfold finalSum
  have key : ∀ (cats : List CatTotal) (z : Amount), z.exp ≤ E →
      (∀ ct ∈ cats, ct.surcharge = none ∧ ct.amount.exp ≤ E) →
      (cats.foldl (fun s ct =>
        let s1 := mrp .precise s ct.amount
        if ct.retained then
          let s2 := sub exactOps s1 ct.amount
          match ct.surcharge with | some x => sub exactOps s2 x | none => s2
        else
          let s2 := add exactOps s1 ct.amount
          match ct.surcharge with | some x => add exactOps s2 x | none => s2) z).exp ≤ E := by
    intro cats
    induction cats with
    | nil => intro z hz _; simpa
    | cons ct cts ih =>
      intro z hz h
      rw [List.foldl_cons]
      apply ih _ _ (fun x hx => h x (by simp [hx]))
      obtain ⟨hs, he⟩ := h ct (by simp)
      simp only [hs, mrp]
      split <;> simp only [sub_exp, add_exp, up_exp] <;> omega
  exact key cats ⟨0, c⟩ hc h

/-- number of rate groups of a tax summary -/
def groupsOf (cats : List CatTotal) : ℕ := (cats.map (·.rates.length)).sum

theorem cats_w (c E : ℕ) (cats : List CatTotal) (hinv : CatsInv c E cats) (hc : c ≤ E) :
    (finalSum exactOps .precise c (cats.map (catAmounts exactOps .precise c))).exp ≤ E ∧
    groupsOf (cats.map (catAmounts exactOps .precise c)) = groupsOf cats ∧
    |(finalSum exactOps .precise c (cats.map (catAmounts exactOps .precise c))).toRat - catsQ cats| ≤
      (groupsOf cats : ℚ) * halfUlp (c + 2) := by
  have hall : ∀ ct ∈ cats.map (catAmounts exactOps .precise c), ct.surcharge = none ∧ ct.amount.exp ≤ E := by
    intro ct hct
    simp only [List.mem_map] at hct
    obtain ⟨x, hx, rfl⟩ := hct
    obtain ⟨_, h2, h3, _, _⟩ := catAmounts_w c E x (hinv x hx).1 (hinv x hx).2 hc
    exact ⟨h2, h3⟩
  refine ⟨finalSum_exp_le c E _ hc hall, ?_, ?_⟩
  · unfold groupsOf
    rw [List.map_map]
    congr 1
    apply List.map_congr_left
    intro x hx
    exact (catAmounts_w c E x (hinv x hx).1 (hinv x hx).2 hc).2.2.2.1
  · rw [finalSum_toRat .precise (by decide) c _ (fun ct hct s hs => by rw [(hall ct hct).1] at hs; cases hs)]
    rw [List.map_map]
    unfold catsQ groupsOf
    have hB : ∀ x ∈ cats, |(catSignedQ ∘ catAmounts exactOps .precise c) x - ratesQ x.rates| ≤
        ((x.rates.length : ℕ) : ℚ) * halfUlp (c + 2) := by
      intro x hx
      obtain ⟨h1, h2, _, _, h5⟩ := catAmounts_w c E x (hinv x hx).1 (hinv x hx).2 hc
      have : catSignedQ (catAmounts exactOps .precise c x) = (catAmounts exactOps .precise c x).amount.toRat := by
        unfold catSignedQ
        simp [h1, h2]
      simp only [Function.comp]
      rw [this]
      exact h5
    have := list_sum_diff_le' cats _ (fun x => ratesQ x.rates) (fun x => ((x.rates.length : ℕ) : ℚ) * halfUlp (c + 2)) hB
    exact le_trans this (le_of_eq (sum_map_mul_const cats (·.rates.length) _))

end Calc
end GoblVerif
