import GoblVerif.Generated.BillCalcSrc
import GoblVerif.Proofs.GoSemList
open GoblVerif GoblVerif.Calc GoblVerif.GoSem GoblVerif.Generated

example (o : Ops) (sub : String → Nat) (ds : List BillCalcSrc.LineDiscount) (sum total : Amount) (cur rr : String) :
    BillCalcSrc.calculateLineDiscounts o sub ds sum total cur rr = (total, ds) := by
  unfold BillCalcSrc.calculateLineDiscounts
  simp only [forIn_list_id, pure_bind, bind_pure_comp]
  simp only [Id.run, id_pure]
  trace_state
  sorry

example (o : Ops) (sub : String → Nat) (ls : List BillCalcSrc.Line) (cur : String) :
    BillCalcSrc.calculateLineSum o sub ls cur = ⟨0,0⟩ := by
  unfold BillCalcSrc.calculateLineSum
  simp only [forIn_list_id, pure_bind]
  simp only [Id.run, id_pure]
  trace_state
  sorry
