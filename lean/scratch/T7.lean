import GoblVerif.Proofs.BillCalcSrc
namespace GoblVerif.Proofs.BillCalcSrc
open GoblVerif GoblVerif.Calc GoblVerif.CalcSrc GoblVerif.GoSem GoblVerif.Generated

/-! ## presentation rounding of lines -/

/-- a Go sub-line as the model's record; `fI` converts the item (the model's item also carries the subunits of its currency) -/
def toSubLine (fI : BillCalcSrc.Item → Item) (sl : BillCalcSrc.SubLine) : SubLine :=
  { qty := sl.Quantity, item := sl.Item.map fI, discounts := sl.Discounts.map toAdj, charges := sl.Charges,
    sum := sl.Sum, total := sl.Total }

/-- a Go line as the model's record (`Substituted` has no counterpart in the model: no effect on any total) -/
def toLine (fI : BillCalcSrc.Item → Item) (l : BillCalcSrc.Line) : Line :=
  { qty := l.Quantity, item := l.Item.map fI, discounts := l.Discounts.map toAdj, charges := l.Charges,
    breakdown := l.Breakdown.map (toSubLine fI), taxes := l.Taxes, sum := l.Sum, total := l.Total }

theorem LineDiscount_round_eq (o : Ops) (sub : String → Nat) (d : BillCalcSrc.LineDiscount) (e : Nat) :
    toAdj (BillCalcSrc.LineDiscount_round o sub d e) = roundAdj o e (toAdj d) := by
  simp [BillCalcSrc.LineDiscount_round, Id.run, id_pure, toAdj, roundAdj]

theorem LineCharge_round_eq (o : Ops) (sub : String → Nat) (c : LineAdj) (e : Nat) :
    BillCalcSrc.LineCharge_round o sub c e = roundAdj o e c := by
  simp [BillCalcSrc.LineCharge_round, Id.run, id_pure, roundAdj]

theorem SubLine_round_eq' (o : Ops) (sub : String → Nat) (sl : BillCalcSrc.SubLine) (e : Nat) :
    BillCalcSrc.SubLine_round o sub sl e = { sl with Sum := sl.Sum.map (down o · e), Total := sl.Total.map (down o · e) } := by
  obtain ⟨q, it, sm, ds, cs, tt⟩ := sl
  cases sm <;> cases tt <;> simp [BillCalcSrc.SubLine_round, Id.run, id_pure]

theorem SubLine_round_eq (o : Ops) (sub : String → Nat) (fI : BillCalcSrc.Item → Item) (sl : BillCalcSrc.SubLine) (e : Nat) :
    toSubLine fI (BillCalcSrc.SubLine_round o sub sl e) = roundSubLine o e (toSubLine fI sl) := by
  rw [SubLine_round_eq']; rfl

theorem determineSubLinePrecision_model (o : Ops) (sub : String → Nat) (fI : BillCalcSrc.Item → Item)
    (hfI : ∀ it, (fI it).price = it.Price) (sls : List BillCalcSrc.SubLine) :
    BillCalcSrc.determineSubLinePrecision o sub sls = subLinePrecision (sls.map (toSubLine fI)) := by
  rw [determineSubLinePrecision_eq]
  unfold subLinePrecision
  rw [List.foldl_map]
  congr 1
  funext e sl
  obtain ⟨q, it, sm, ds, cs, tt⟩ := sl
  cases it with
  | none => simp [priceOf, toSubLine]
  | some it =>
    have := hfI it
    obtain ⟨cur, pr⟩ := it
    cases pr <;> simp_all [priceOf, toSubLine]

theorem forList_map' {α β : Type} (f : α → β) (l : List α) (acc : List β) :
    forList (fun x s => ForInStep.yield (s ++ [f x])) l acc = acc ++ l.map f :=
  forList_map _ f (fun _ _ => rfl) l acc

theorem Line_round_eq' (o : Ops) (sub : String → Nat) (l : BillCalcSrc.Line) :
    BillCalcSrc.Line_round o sub l =
      (match l.Item.bind (·.Price) with
       | none => l
       | some p =>
         { l with Sum := l.Sum.map (down o · p.exp), Total := l.Total.map (down o · p.exp),
                  Discounts := l.Discounts.map (BillCalcSrc.LineDiscount_round o sub · p.exp),
                  Charges := l.Charges.map (roundAdj o p.exp),
                  Breakdown := l.Breakdown.map (BillCalcSrc.SubLine_round o sub · p.exp),
                  Substituted := l.Substituted.map (BillCalcSrc.SubLine_round o sub · p.exp) }) := by
  unfold BillCalcSrc.Line_round
  simp only [forIn_list_id, pure_bind, bind_pure_comp]
  simp only [Id.run, id_pure, forList_map', List.nil_append]
  obtain ⟨q, it, bd, sm, ds, cs, tx, tt, sb⟩ := l
  cases it with
  | none => simp
  | some it =>
    obtain ⟨cur, pr⟩ := it
    cases pr with
    | none => simp
    | some p =>
      cases sm <;> cases tt <;> simp [LineCharge_round_eq] <;> rfl

theorem Line_round_eq (o : Ops) (sub : String → Nat) (fI : BillCalcSrc.Item → Item)
    (hfI : ∀ it, (fI it).price = it.Price) (l : BillCalcSrc.Line) :
    toLine fI (BillCalcSrc.Line_round o sub l) = roundLine o (toLine fI l) := by
  rw [Line_round_eq']
  obtain ⟨q, it, bd, sm, ds, cs, tx, tt, sb⟩ := l
  cases it with
  | none => rfl
  | some it =>
    have h := hfI it
    obtain ⟨cur, pr⟩ := it
    cases pr with
    | none => simp only [toLine, roundLine, Option.map_some, h]; simp
    | some p =>
      simp only [toLine, roundLine, Option.map_some, h, Option.bind_some, List.map_map]
      congr 1
      apply List.map_congr_left; intro d _; exact SubLine_round_eq o sub fI d p.exp

theorem roundLines_eq' (o : Ops) (sub : String → Nat) (ls : List BillCalcSrc.Line) :
    BillCalcSrc.roundLines o sub ls = ls.map (BillCalcSrc.Line_round o sub) := by
  unfold BillCalcSrc.roundLines
  simp only [forIn_list_id, pure_bind]
  simp only [Id.run, id_pure, forList_map', List.nil_append]

theorem roundLines_eq (o : Ops) (sub : String → Nat) (fI : BillCalcSrc.Item → Item)
    (hfI : ∀ it, (fI it).price = it.Price) (ls : List BillCalcSrc.Line) :
    (BillCalcSrc.roundLines o sub ls).map (toLine fI) = (ls.map (toLine fI)).map (roundLine o) := by
  rw [roundLines_eq', List.map_map, List.map_map]
  apply List.map_congr_left; intro l _; exact Line_round_eq o sub fI hfI l

end GoblVerif.Proofs.BillCalcSrc
