import GoblVerif.Proofs.CodecSrc
import GoblVerif.Generated.CodecSrc
namespace GoblVerif.Props.C06.Src
open GoblVerif GoblVerif.Codec GoblVerif.GoStr GoblVerif.GoSem GoblVerif.Generated GoblVerif.CodecTie

theorem src_intPow (base : Int) (e : Nat) : CodecSrc.intPow base e = base ^ e := by
  unfold CodecSrc.intPow
  simp only [Id.run]
  rw [forIn_range_fuel _ (fun _ _ => rfl)]
  simp only [bind, pure]
  rw [forFuel_countdown _ (fun o => o * base) (by intro s; simp [Id.run]) (by intro k s; simp [Id.run])]
  simp [iter_mul_int]

theorem src_String (a : Amount) (he : a.exp ≤ 18 ∨ 1000 < a.exp)
    (hlo : minInt64 ≤ a.value) (hhi : a.value ≤ maxInt64) :
    CodecSrc.Amount_String a = amountToString a := by
  obtain ⟨v, e⟩ := a
  simp only at he hlo hhi
  unfold CodecSrc.Amount_String
  simp only [Id.run, itoa_eq, fmtPad0_eq, src_intPow]
  by_cases h0 : e = 0
  · subst h0; simp [amountToString, id_pure]
  by_cases h1 : e > 1000
  · simp [amountToString, h0, h1, id_pure]
  have he' : e ≤ 18 := by omega
  rw [amountToString_nowrap v e (by omega) he' hlo hhi]
  by_cases hneg : v < 0 <;> simp [h0, h1, hneg, id_pure]

theorem src_MinimalString (a : Amount) (he : a.exp ≤ 18 ∨ 1000 < a.exp)
    (hlo : minInt64 ≤ a.value) (hhi : a.value ≤ maxInt64) :
    CodecSrc.Amount_MinimalString a = amountMinimalString a := by
  unfold CodecSrc.Amount_MinimalString amountMinimalString
  simp only [Id.run, src_String a he hlo hhi, contains_dot, trimRight_zeros, trimSuffix_dot]
  by_cases h : (amountToString a).contains '.' = true <;> simp [h, id_pure]

end GoblVerif.Props.C06.Src
