import GoblVerif.Proofs.BillCalcSrc
namespace GoblVerif.Proofs.BillCalcSrc
open GoblVerif GoblVerif.Calc GoblVerif.CalcSrc GoblVerif.GoSem GoblVerif.Generated

theorem CalculateDues_eq (o : Ops) (sub : String → Nat) (t : PayCalcSrc.Terms) (zero sum : Amount) :
    PayCalcSrc.Terms_CalculateDues o sub (some t) zero sum =
      some { t with DueDates := t.DueDates.map (calcDue o zero.exp sum) } := by
  unfold PayCalcSrc.Terms_CalculateDues
  simp only [forIn_list_id, pure_bind]
  simp only [Id.run, id_pure]
  rw [forList_map _ (calcDue o zero.exp sum)]
  · simp
  · intro x s
    obtain ⟨pc, am⟩ := x
    cases pc with
    | none => simp [calcDue]
    | some p => cases hz : pctIsZero p <;> simp [calcDue, hz]

theorem CalculateDues_none (o : Ops) (sub : String → Nat) (zero sum : Amount) :
    PayCalcSrc.Terms_CalculateDues o sub none zero sum = none := by
  simp [PayCalcSrc.Terms_CalculateDues, Id.run, id_pure]

/-- the price exponent `determineSubLinePrecision` looks at -/
def priceOf (sl : BillCalcSrc.SubLine) : Option Amount := sl.Item.bind (·.Price)

theorem determineSubLinePrecision_eq (o : Ops) (sub : String → Nat) (sls : List BillCalcSrc.SubLine) :
    BillCalcSrc.determineSubLinePrecision o sub sls =
      sls.foldl (fun e sl => match priceOf sl with | some p => if p.exp > e then p.exp else e | none => e) 0 := by
  unfold BillCalcSrc.determineSubLinePrecision
  simp only [forIn_list_id, pure_bind]
  simp only [Id.run, id_pure]
  rw [← forList_fold]
  congr 1
  funext sl e
  obtain ⟨q, it, sm, ds, cs, tt⟩ := sl
  cases it with
  | none => simp [priceOf]
  | some it =>
    obtain ⟨cur, pr⟩ := it
    cases pr with
    | none => simp [priceOf]
    | some p => by_cases h : p.exp > e <;> simp [priceOf, h]

end GoblVerif.Proofs.BillCalcSrc
