import GoblVerif.Proofs.CodecSrc
import GoblVerif.Generated.CodecSrc
namespace GoblVerif.CodecTie
open GoblVerif GoblVerif.Codec GoblVerif.GoStr GoblVerif.GoSem

theorem ofBytes_toBytes (s : Text) : GoStrings.ofBytes (GoStrings.toBytes s) = s := by
  unfold GoStrings.ofBytes GoStrings.toBytes
  rw [List.map_map]
  conv => rhs; rw [← List.map_id s]
  congr 1
  funext c
  simp [Char.ofNat_toNat]

theorem toBytes_length (s : Text) : (GoStrings.toBytes s).length = s.length := by
  simp [GoStrings.toBytes]

theorem toNat_eq_34 (c : Char) : c.toNat = 34 ↔ c = '"' := by
  constructor
  · intro h
    have : Char.ofNat c.toNat = c := Char.ofNat_toNat c
    rw [h] at this; rw [← this]
  · intro h; subst h; rfl

/-- `jsonText` in the result shape of the translation -/
def jsonTextGo : Except Err (Text × Bool) → Text × Bool × Option Str
  | .ok (t, null) => (t, null, none)
  | .error _ => ([], false, some GoJson.errJson)

/-- the wrappers: the receiver keeps its value on an error -/
def toGoU {α : Type} (cur : α) : Except Err α → Option Str × α
  | .ok a => (none, a)
  | .error e => (GoStr.errNew (errFormat e), cur)

def toGoP : Except Err Pct → Pct × Option Str
  | .ok p => (p, none)
  | .error e => (⟨⟨0, 0⟩⟩, GoStr.errNew (errFormat e))

theorem jsonText_error (value : Text) (e : Err) (h : Codec.jsonText value = .error e) : e = .json := by
  unfold Codec.jsonText at h
  split at h
  · split at h
    · injection h with h; exact h.symm
    · cases h
  · cases h

theorem errJson_eq : GoStr.errNew (errFormat .json) = some GoJson.errJson := by decide

theorem toGo_snd_isSome (r : Except Err Amount) : (toGo r).2.isSome = true ↔ ∃ e, r = .error e := by
  cases r <;> simp [toGo, GoStr.errNew]

end GoblVerif.CodecTie

namespace GoblVerif.Props.C06.Src
open GoblVerif GoblVerif.Codec GoblVerif.GoStr GoblVerif.GoSem GoblVerif.Generated GoblVerif.CodecTie

theorem src_AmountFromString (val : Text) : CodecSrc.AmountFromString val = toGo (amountFromString val) := by
  sorry

theorem src_jsonText (value : Text) :
    CodecSrc.jsonText (GoStrings.toBytes value) = jsonTextGo (Codec.jsonText value) := by
  unfold CodecSrc.jsonText Codec.jsonText
  simp only [Id.run, ofBytes_toBytes, toBytes_length]
  cases value with
  | nil => simp [jsonTextGo, nullText, id_pure]
  | cons c r =>
    have i0 : (GoStrings.toBytes (c :: r))[Int.toNat 0]! = c.toNat := rfl
    simp only [i0, toNat_eq_34, List.head?_cons]
    by_cases hq : c = '"'
    · subst hq
      simp only [GoJson.unmarshalString, ofBytes_toBytes]
      cases hd : jsonDecodeString ('"' :: r) with
      | none => simp [jsonTextGo, id_pure]
      | some t => simp [jsonTextGo, id_pure]
    · have : (some c == some '"') = false := by simp [hq]
      simp [hq, this, jsonTextGo, id_pure, nullText, beq_eq_decide]

theorem src_UnmarshalText (cur : Amount) (value : Text) :
    CodecSrc.Amount_UnmarshalText cur (GoStrings.toBytes value) = toGoU cur (amountUnmarshalText cur value) := by
  unfold CodecSrc.Amount_UnmarshalText amountUnmarshalText
  simp only [Id.run, ofBytes_toBytes, src_AmountFromString]
  by_cases hn : value = nullText
  · subst hn; simp [toGoU, nullText, id_pure]
  · have : ¬ value = ['n', 'u', 'l', 'l'] := hn
    simp only [this, hn, if_false]
    generalize amountFromString value = x
    cases x <;> simp [toGo, toGoU, GoStr.errNew, id_pure]

theorem src_UnmarshalJSON (cur : Amount) (value : Text) :
    CodecSrc.Amount_UnmarshalJSON cur (GoStrings.toBytes value) = toGoU cur (amountUnmarshalJSON cur value) := by
  unfold CodecSrc.Amount_UnmarshalJSON amountUnmarshalJSON
  simp only [Id.run, src_jsonText, src_AmountFromString]
  cases hj : Codec.jsonText value with
  | error e => 
    have he := jsonText_error value e hj
    subst he
    simp [jsonTextGo, toGoU, id_pure, errJson_eq]
  | ok p =>
    obtain ⟨t, null⟩ := p
    simp only [jsonTextGo]
    cases null
    · obtain ⟨x, hx⟩ : ∃ x, amountFromString t = x := ⟨_, rfl⟩
      simp only [hx]
      cases x <;> simp [toGo, toGoU, GoStr.errNew, id_pure]
    · simp [toGoU, id_pure]

end GoblVerif.Props.C06.Src
