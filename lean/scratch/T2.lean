import GoblVerif.Proofs.BillCalcSrc
namespace GoblVerif.Proofs.BillCalcSrc
open GoblVerif GoblVerif.Calc GoblVerif.CalcSrc GoblVerif.GoSem GoblVerif.Generated

theorem forList_accum (o : Ops) {α : Type} (f : α → Amount) (l : List α) (s : Amount) :
    forList (fun x s => ForInStep.yield (add o (matchPrecision s (f x)) (f x))) l s = (l.map f).foldl (accum o) s := by
  induction l generalizing s with
  | nil => rfl
  | cons a l ih => simp only [forList, ih, List.map_cons, List.foldl_cons]; rfl

theorem length_zero_iff {α : Type} (l : List α) : ((l.length : Int) = 0) ↔ l.isEmpty = true := by
  cases l with
  | nil => simp
  | cons a l => simp; omega

theorem calculateDiscountSum_eq (o : Ops) (sub : String → Nat) (ds : List DocAdj) (cur : String) :
    BillCalcSrc.calculateDiscountSum o sub ds cur = adjSum o (sub cur) ds := by
  unfold BillCalcSrc.calculateDiscountSum adjSum
  simp only [forIn_list_id, bind_pure_comp]
  simp only [Id.run, id_pure, length_zero_iff, forList_accum o (fun x : DocAdj => x.amount)]
  rfl

theorem calculateChargeSum_eq (o : Ops) (sub : String → Nat) (ds : List DocAdj) (cur : String) :
    BillCalcSrc.calculateChargeSum o sub ds cur = adjSum o (sub cur) ds := by
  unfold BillCalcSrc.calculateChargeSum adjSum
  simp only [forIn_list_id, bind_pure_comp]
  simp only [Id.run, id_pure, length_zero_iff, forList_accum o (fun x : DocAdj => x.amount)]
  rfl

/-! ## document discounts and charges -/

theorem calculateDiscounts_eq (o : Ops) (sub : String → Nat) (ds : List DocAdj) (cur : String) (sum : Amount) (rr : String) :
    BillCalcSrc.calculateDiscounts o sub ds cur sum rr = ds.map (docAdj o (ruleOf rr) (sub cur) sum) := by
  unfold BillCalcSrc.calculateDiscounts
  simp only [forIn_list_id, bind_pure_comp, pure_bind]
  simp only [Id.run, id_pure, length_zero_iff]
  split
  · rename_i h; cases ds <;> simp_all
  · rw [forList_map_zipIdx _ (docAdj o (ruleOf rr) (sub cur) sum)]
    · simp
    · intro x s
      obtain ⟨⟨pc, b, am, tx⟩, i⟩ := x
      cases pc with
      | none => simp [docAdj, applyRoundingRule]
      | some p =>
        cases hz : pctIsZero p <;> cases b <;> simp [docAdj, applyRoundingRule, hz, E]

end GoblVerif.Proofs.BillCalcSrc
