import GoblVerif.Model.Codec
import GoblVerif.Generated.CodecSrc
import GoblVerif.Proofs.Codec
import GoblVerif.Proofs.GoSem

namespace GoblVerif.CodecSrc
open GoblVerif GoblVerif.Codec GoblVerif.GoStr GoblVerif.GoSem GoblVerif.Generated

theorem byteAt_lt (s : Text) (j : Nat) (h : j < s.length) : byteAt s j = s[j].toNat := by
  simp [byteAt, List.getD_eq_getElem?_getD, h]

/-- the digit scan of `isDigits`: `for i := 0; i < len(s); i++ { if s[i] < '0' || s[i] > '9' { return r0 } }` -/
def digitScanStep (s : Text) (r0 : Bool) (b : Option Bool × Int) : ForInStep (Option Bool × Int) :=
  if ¬ b.2 < (s.length : Int) then .done (none, b.2)
  else if byteAt s b.2.toNat < 48 ∨ byteAt s b.2.toNat > 57 then .done (some r0, b.2)
  else .yield (none, b.2 + 1)

theorem forFuel_digitScan (s : Text) (r0 : Bool) :
    ∀ (k j : Nat), j + k = s.length →
      (forFuel (digitScanStep s r0) k (none, (j : Int))).1 = (if (s.drop j).all isDigitC = true then none else some r0) ∧
      ((forFuel (digitScanStep s r0) k (none, (j : Int))).1 = none →
        (forFuel (digitScanStep s r0) k (none, (j : Int))).2 = (s.length : Int))
  | 0, j, h => by
    have : s.drop j = [] := List.drop_eq_nil_of_le (by omega)
    have hj : j = s.length := by omega
    simp [forFuel, this, hj]
  | k + 1, j, h => by
    have hj : j < s.length := by omega
    have hd : s.drop j = s[j] :: s.drop (j + 1) := (List.drop_eq_getElem_cons hj)
    have hlt : ((j : Int) < (s.length : Int)) := by exact_mod_cast hj
    simp only [forFuel, digitScanStep, hlt, not_true_eq_false, if_false, Int.toNat_natCast, byteAt_lt s j hj, hd, List.all_cons]
    by_cases hb : s[j].toNat < 48 ∨ s[j].toNat > 57
    · have : isDigitC s[j] = false := by simp [isDigitC]; omega
      simp [hb, this]
    · have : isDigitC s[j] = true := by simp [isDigitC]; omega
      simp only [hb, if_false, this, Bool.true_and]
      have := forFuel_digitScan s r0 k (j + 1) (by omega)
      simpa [digitScanStep] using this

theorem forFuel_congr {β : Type} (g g' : β → ForInStep β) (h : ∀ b, g b = g' b) (n : Nat) (init : β) :
    forFuel g n init = forFuel g' n init := by
  have : g = g' := funext h
  rw [this]

theorem forFuel_digitScan0 (s : Text) (r0 : Bool) (g : Option Bool × Int → ForInStep (Option Bool × Int))
    (hg : ∀ b, g b = digitScanStep s r0 b) :
    (forFuel g s.length (none, 0)).1 = (if s.all isDigitC = true then none else some r0) ∧
    ((forFuel g s.length (none, 0)).1 = none → (forFuel g s.length (none, 0)).2 = (s.length : Int)) := by
  have : g = digitScanStep s r0 := funext hg
  subst this
  have key := forFuel_digitScan s r0 s.length 0 (by simp)
  simpa using key

theorem src_isDigits (s : Text) : CodecSrc.isDigits s = Codec.isDigits s := by
  unfold CodecSrc.isDigits
  simp only [Id.run]
  by_cases h0 : (s.length : Int) = 0
  · have : s = [] := by
      cases s with
      | nil => rfl
      | cons c r => simp at h0; omega
    subst this; rfl
  · simp only [h0, if_false]
    rw [forIn_range_fuel _ (fun _ _ => rfl)]
    simp only [bind, pure]
    rw [(forFuel_digitScan0 s false _ (by intro b; simp only [digitScanStep, Id.run])).1]
    have hne : s.isEmpty = false := by
      cases s with
      | nil => simp at h0
      | cons c r => rfl
    unfold Codec.isDigits
    simp only [hne, Bool.not_false, Bool.true_and]
    by_cases ha : s.all isDigitC = true <;> simp [ha]

theorem isDigits_fuel_suffices (s : Text) : CodecSrc.isDigits_fuelOK s = true := by
  unfold CodecSrc.isDigits_fuelOK
  simp only [Id.run]
  by_cases h0 : (s.length : Int) = 0
  · simp [h0, id_pure]
  · simp only [h0, if_false]
    rw [forIn_range_fuel _ (fun _ _ => rfl)]
    simp only [bind, pure]
    rw [forFuel_congr _ (digitScanStep s true) (by intro b; simp only [digitScanStep, Id.run])]
    obtain ⟨k1, k2⟩ := forFuel_digitScan0 s true (digitScanStep s true) (fun _ => rfl)
    by_cases ha : s.all isDigitC = true
    · simp only [ha, if_true] at k1
      rw [k1, k2 k1]
      simp
    · simp only [ha] at k1
      rw [k1]
      rfl

end GoblVerif.CodecSrc
