import GoblVerif.Proofs.CalcErrorMore

namespace GoblVerif
open GoblVerif.Spec GoblVerif.Calc
namespace Calc

/-! ### `taxTotal` as a whole -/

theorem prepareRow_id (c E : ℕ) (rw : Row) (h : RowOk c E rw) : prepareRow c rw = rw := by
  unfold prepareRow
  split
  · rfl
  · rw [up_self _ _ (by simp only [Calc.E]; exact h.2.1)]

theorem rescaleX_zero (a : Amount) (c : ℕ) (h : a.value = 0) : (a.rescaleX c).toRat = 0 := by
  have ha : a.toRat = 0 := by unfold Amount.toRat; rw [h]; simp
  have hv := rescaleX_value a c
  rw [ha] at hv
  have : roundTo c 0 = 0 := by
    unfold roundTo
    have := roundHalfAway_int 0
    simpa using this
  unfold Amount.toRat
  rw [hv, this]; simp

theorem precise_roundTax (c : ℕ) (cats : List CatTotal) (fs : Amount) :
    (roundTax exactOps c cats fs).precise.toRat = fs.toRat ∧
    (roundTax exactOps c cats fs).precise.exp ≤ max fs.exp c ∧
    groupsOf (roundTax exactOps c cats fs).cats = groupsOf cats := by
  refine ⟨?_, ?_, ?_⟩
  · unfold TaxTotal.precise roundTax
    simp only
    split
    · rfl
    · rename_i h
      have hz : fs.value = 0 := by simpa using h
      rw [exact_rescale, rescaleX_zero fs c hz]
      unfold Amount.toRat; rw [hz]; simp
  · unfold TaxTotal.precise roundTax
    simp only
    split
    · omega
    · rw [exact_rescale, rescaleX_exp]; omega
  · unfold groupsOf roundTax
    simp [List.map_map, Function.comp_def]

/-- **the working tax** (precise rule, prices not including tax, rows of the class): not finer
than `E`, and within one half-unit per rate group of Σ rows' exact tax on the *working* row totals -/
theorem taxTotal_w (c E : ℕ) (rows : List Row) (tx : TaxTotal) (hrows : ∀ rw ∈ rows, RowOk c E rw) (hc : c ≤ E)
    (h : taxTotal exactOps .precise c none rows = .ok tx) :
    tx.precise.exp ≤ E ∧
    |tx.precise.toRat - (rows.map (fun rw => rowQ rw.total.toRat rw.taxes)).sum| ≤
      (groupsOf tx.cats : ℚ) * halfUlp (c + 2) := by
  unfold taxTotal at h
  simp only at h
  injection h with h
  have hmap : rows.map (prepareRow c) = rows := by
    conv_rhs => rw [← List.map_id rows]
    exact List.map_congr_left (fun rw hrw => prepareRow_id c E rw (hrows rw hrw))
  rw [hmap] at h
  obtain ⟨b1, b2⟩ := baseRateTotals_w c E rows [] hrows (fun _ hx => by simp at hx)
  have hb : baseRateTotals exactOps .precise c rows =
      rows.foldl (fun cats rw => rw.taxes.foldl (fun cats cb => addToCats exactOps .precise c cb rw.total cats) cats) [] := rfl
  rw [← hb] at b1 b2
  obtain ⟨c1, c2, c3⟩ := cats_w c E _ b2 hc
  obtain ⟨p1, p2, p3⟩ := precise_roundTax c ((baseRateTotals exactOps .precise c rows).map (catAmounts exactOps .precise c))
    (finalSum exactOps .precise c ((baseRateTotals exactOps .precise c rows).map (catAmounts exactOps .precise c)))
  rw [h] at p1 p2 p3
  refine ⟨by omega, ?_⟩
  rw [p1, p3, c2]
  rw [b1] at c3
  simpa [catsQ] using c3

/-! ### the tax of a document of the class -/

theorem neg_toRat (a : Amount) : (neg a).toRat = -a.toRat := by
  unfold neg Amount.toRat
  push_cast
  ring

theorem docAdj_taxes (r : Rule) (c : ℕ) (sum : Amount) (x : DocAdj) :
    (docAdj exactOps r c sum x).taxes = x.taxes := by
  unfold docAdj
  simp only
  split
  · split
    · rfl
    · split <;> rfl
  · rfl

/-- step 2's document class: `DocA`, prices not including tax, every tax combo (on lines and on
document discounts / charges) ordinary: not retained, no surcharge, exempt or a percentage ≤ 100 % -/
structure DocT (d : Doc) : Prop where
  base : DocA d
  inc : d.includes = none
  lineTaxes : ∀ l ∈ d.lines, ∀ cb ∈ l.taxes, ComboOk cb
  discTaxes : ∀ x ∈ d.discounts, ∀ cb ∈ x.taxes, ComboOk cb
  chTaxes : ∀ x ∈ d.charges, ∀ cb ∈ x.taxes, ComboOk cb

/-- error carried into the tax by the line totals: weight of the line × number of its combos -/
def linesTaxW (ls : List Line) : ℕ := (ls.map (fun l => lineW l * l.taxes.length)).sum
/-- … and by the document discounts / charges: (own rounding + weight of the sum) × combos -/
def adjTaxW (W : ℕ) (xs : List DocAdj) : ℕ := (xs.map (fun x => (1 + W) * x.taxes.length)).sum
/-- weight of the tax: one rounding per rate group (`G` groups) plus the carried errors -/
def taxW (d : Doc) (G : ℕ) : ℕ :=
  G + linesTaxW d.lines + adjTaxW (sumW d.lines) d.discounts + adjTaxW (sumW d.lines) d.charges

theorem exactQ_tax (d : Doc) (h : d.includes = none) :
    (Spec.C01.exactQ d).tax =
      (d.lines.filterMap (fun l => (Spec.C01.lineTotalQ d.cur d.rates l).map (fun t => rowQ t l.taxes))).sum
      + (d.discounts.map (fun x => rowQ (-(Spec.C01.docAdjQ (Spec.C01.exactQ d).sum x)) x.taxes)).sum
      + (d.charges.map (fun x => rowQ (Spec.C01.docAdjQ (Spec.C01.exactQ d).sum x) x.taxes)).sum := by
  simp only [Spec.C01.exactQ, h, rowQ, List.map_append, List.sum_append, List.map_map, List.filterMap_map,
    List.map_filterMap, Function.comp_def, Option.map_map]

theorem rows_sum (lines : List Line) (discounts charges : List DocAdj) :
    ((taxRows lines discounts charges).map (fun rw => rowQ rw.total.toRat rw.taxes)).sum =
      (lines.filterMap (fun l => l.total.map (fun t => rowQ t.toRat l.taxes))).sum
      + (discounts.map (fun x => rowQ (neg x.amount).toRat x.taxes)).sum
      + (charges.map (fun x => rowQ x.amount.toRat x.taxes)).sum := by
  simp only [taxRows, List.map_append, List.sum_append, List.map_map, List.map_filterMap,
    Function.comp_def, Option.map_map]

theorem rel_rows (cur : String) (c : ℕ) (rates : List XRate) (ls ls' : List Line)
    (h : List.Forall₂ (LineRel cur rates c) ls ls') (htx : ∀ l ∈ ls, ∀ cb ∈ l.taxes, ComboOk cb) :
    |(ls'.filterMap (fun l => l.total.map (fun t => rowQ t.toRat l.taxes))).sum
      - (ls.filterMap (fun l => (Spec.C01.lineTotalQ cur rates l).map (fun t => rowQ t l.taxes))).sum| ≤
      (linesTaxW ls : ℚ) * halfUlp (c + 2) := by
  induction h with
  | nil => simp [linesTaxW]
  | @cons l l' ls ls' hl _ ih =>
    obtain ⟨t, q, ht, htax, _, hq, herr⟩ := hl
    have ih' := ih (fun x hx => htx x (by simp [hx]))
    simp only [List.filterMap_cons, ht, hq, Option.map_some, List.sum_cons, linesTaxW, List.map_cons, htax]
    have hr := rowQ_diff t.toRat q l.taxes (htx l (by simp))
    set A := (ls'.filterMap (fun l => l.total.map (fun t => rowQ t.toRat l.taxes))).sum
    set B := (ls.filterMap (fun l => (Spec.C01.lineTotalQ cur rates l).map (fun t => rowQ t l.taxes))).sum
    have e : rowQ t.toRat l.taxes + A - (rowQ q l.taxes + B) = (rowQ t.toRat l.taxes - rowQ q l.taxes) + (A - B) := by ring
    rw [e]
    refine le_trans (abs_add_le _ _) ?_
    unfold linesTaxW at ih'
    have hk : (0 : ℚ) ≤ (l.taxes.length : ℚ) := by positivity
    have := mul_le_mul_of_nonneg_left herr hk
    push_cast
    nlinarith

theorem rel_mem (cur : String) (c : ℕ) (rates : List XRate) (ls ls' : List Line)
    (h : List.Forall₂ (LineRel cur rates c) ls ls') : ∀ l' ∈ ls', ∃ l ∈ ls, LineRel cur rates c l l' := by
  induction h with
  | nil => intro l' hl'; simp at hl'
  | @cons l l' ls ls' hl _ ih =>
    intro x hx
    simp only [List.mem_cons] at hx
    rcases hx with rfl | hx
    · exact ⟨l, by simp, hl⟩
    · obtain ⟨y, hy, hr⟩ := ih x hx
      exact ⟨y, by simp [hy], hr⟩

/-- one document discount / charge against its exact value -/
theorem docAdj_err (c : ℕ) (sum : Amount) (S W : ℚ) (x : DocAdj) (hx : PctOnly x) (hs : c + 2 ≤ sum.exp)
    (hS : |sum.toRat - S| ≤ W * halfUlp (c + 2)) :
    |(docAdj exactOps .precise c sum x).amount.toRat - Spec.C01.docAdjQ S x| ≤ (1 + W) * halfUlp (c + 2) := by
  rw [docAdjQ_pct S x hx]
  have h1 := (docAdj_pct c sum x hx (by omega)).2
  have hh := halfUlp_mono _ _ hs
  obtain ⟨p, hp, _, _, hle⟩ := hx
  have hq : |pctQ x| ≤ 1 := by simpa [pctQ, hp] using hle
  have e : (docAdj exactOps .precise c sum x).amount.toRat - S * pctQ x =
      ((docAdj exactOps .precise c sum x).amount.toRat - sum.toRat * pctQ x) + (sum.toRat - S) * pctQ x := by ring
  rw [e]
  refine le_trans (abs_add_le _ _) ?_
  have h2 : |(sum.toRat - S) * pctQ x| ≤ |sum.toRat - S| := by
    rw [abs_mul]
    calc |sum.toRat - S| * |pctQ x| ≤ |sum.toRat - S| * 1 := mul_le_mul_of_nonneg_left hq (abs_nonneg _)
      _ = |sum.toRat - S| := mul_one _
  linarith

theorem adjRows_err (c : ℕ) (sum : Amount) (S : ℚ) (W : ℕ) (xs : List DocAdj) (sgn : Bool)
    (hx : ∀ x ∈ xs, PctOnly x) (htx : ∀ x ∈ xs, ∀ cb ∈ x.taxes, ComboOk cb) (hs : c + 2 ≤ sum.exp)
    (hS : |sum.toRat - S| ≤ (W : ℚ) * halfUlp (c + 2)) :
    |((xs.map (docAdj exactOps .precise c sum)).map
        (fun x => rowQ (if sgn then (neg x.amount).toRat else x.amount.toRat) x.taxes)).sum
      - (xs.map (fun x => rowQ (if sgn then -(Spec.C01.docAdjQ S x) else Spec.C01.docAdjQ S x) x.taxes)).sum| ≤
      (adjTaxW W xs : ℚ) * halfUlp (c + 2) := by
  rw [List.map_map]
  have hB : ∀ x ∈ xs, |((fun x => rowQ (if sgn then (neg x.amount).toRat else x.amount.toRat) x.taxes) ∘
        docAdj exactOps .precise c sum) x
      - rowQ (if sgn then -(Spec.C01.docAdjQ S x) else Spec.C01.docAdjQ S x) x.taxes| ≤
      (((1 + W) * x.taxes.length : ℕ) : ℚ) * halfUlp (c + 2) := by
    intro x hxm
    simp only [Function.comp, docAdj_taxes]
    have h1 := docAdj_err c sum S W x (hx x hxm) hs hS
    have hk : (0 : ℚ) ≤ (x.taxes.length : ℚ) := by positivity
    cases sgn with
    | true =>
      simp only [if_true, neg_toRat]
      have hr := rowQ_diff (-(docAdj exactOps .precise c sum x).amount.toRat) (-(Spec.C01.docAdjQ S x)) x.taxes (htx x hxm)
      have e : -(docAdj exactOps .precise c sum x).amount.toRat - -(Spec.C01.docAdjQ S x) =
          -((docAdj exactOps .precise c sum x).amount.toRat - Spec.C01.docAdjQ S x) := by ring
      rw [e, abs_neg] at hr
      have := mul_le_mul_of_nonneg_left h1 hk
      push_cast
      nlinarith
    | false =>
      simp only [Bool.false_eq_true, if_false]
      have hr := rowQ_diff (docAdj exactOps .precise c sum x).amount.toRat (Spec.C01.docAdjQ S x) x.taxes (htx x hxm)
      have := mul_le_mul_of_nonneg_left h1 hk
      push_cast
      nlinarith
  have := list_sum_diff_le' xs _ _ _ hB
  refine le_trans this (le_of_eq ?_)
  unfold adjTaxW
  exact sum_map_mul_const xs (fun x => (1 + W) * x.taxes.length) _

theorem doc_tax_w (d : Doc) (p : Pre) (tx : TaxTotal) (hd : DocT d) (hpre : pre exactOps d = .ok p)
    (htx : taxTotal exactOps d.rule d.c d.includes p.rows = .ok tx) :
    tx.precise.exp ≤ p.sum.exp ∧
    |tx.precise.toRat - (Spec.C01.exactQ d).tax| ≤ (taxW d (groupsOf tx.cats) : ℚ) * halfUlp (d.c + 2) := by
  obtain ⟨hrel, hsum, hsexp, hS, hdis, hch, hrows, _, _⟩ := pre_spec d p hd.base hpre
  rw [hd.base.rule, hd.inc, hrows] at htx
  have hcs : d.c ≤ p.sum.exp := by omega
  have hrowsOk : ∀ rw ∈ taxRows p.lines p.discounts p.charges, RowOk d.c p.sum.exp rw := by
    intro rw hrw
    simp only [taxRows, List.mem_append, List.mem_filterMap, List.mem_map] at hrw
    rcases hrw with (⟨l', hl', hrw⟩ | ⟨x, hx, rfl⟩) | ⟨x, hx, rfl⟩
    · obtain ⟨l, hl, t, q, ht, htax, hte, _, _⟩ := rel_mem d.cur d.c d.rates _ _ hrel l' hl'
      rw [ht] at hrw
      simp only [Option.map_some, Option.some.injEq] at hrw
      subst hrw
      refine ⟨by simp only [htax]; exact hd.lineTaxes l hl, hte, ?_⟩
      rw [hsum]
      unfold lineSum
      exact foldl_accum_exp_ge_mem _ ⟨0, d.c⟩ t (List.mem_filterMap.mpr ⟨l', hl', ht⟩)
    · rw [hdis] at hx
      simp only [List.mem_map] at hx
      obtain ⟨x0, hx0, rfl⟩ := hx
      have he := (docAdj_pct d.c p.sum x0 (hd.base.discounts x0 hx0) hcs).1
      refine ⟨by simp only [docAdj_taxes]; exact hd.discTaxes x0 hx0, ?_, ?_⟩ <;> simp only [neg_exp, he] <;> omega
    · rw [hch] at hx
      simp only [List.mem_map] at hx
      obtain ⟨x0, hx0, rfl⟩ := hx
      have he := (docAdj_pct d.c p.sum x0 (hd.base.charges x0 hx0) hcs).1
      refine ⟨by simp only [docAdj_taxes]; exact hd.chTaxes x0 hx0, ?_, ?_⟩ <;> simp only [he] <;> omega
  obtain ⟨t1, t2⟩ := taxTotal_w d.c p.sum.exp _ tx hrowsOk hcs htx
  refine ⟨t1, ?_⟩
  rw [rows_sum] at t2
  rw [exactQ_tax d hd.inc]
  have l1 := rel_rows d.cur d.c d.rates _ _ hrel hd.lineTaxes
  have l2 := adjRows_err d.c p.sum (Spec.C01.exactQ d).sum (sumW d.lines) d.discounts true
    hd.base.discounts hd.discTaxes hsexp hS
  have l3 := adjRows_err d.c p.sum (Spec.C01.exactQ d).sum (sumW d.lines) d.charges false
    hd.base.charges hd.chTaxes hsexp hS
  rw [← hdis] at l2
  rw [← hch] at l3
  simp only [if_true, Bool.false_eq_true, if_false] at l2 l3
  set A := (p.lines.filterMap (fun l => l.total.map (fun t => rowQ t.toRat l.taxes))).sum
  set A' := (d.lines.filterMap (fun l => (Spec.C01.lineTotalQ d.cur d.rates l).map (fun t => rowQ t l.taxes))).sum
  set B := (p.discounts.map (fun x => rowQ (neg x.amount).toRat x.taxes)).sum
  set B' := (d.discounts.map (fun x => rowQ (-(Spec.C01.docAdjQ (Spec.C01.exactQ d).sum x)) x.taxes)).sum
  set C := (p.charges.map (fun x => rowQ x.amount.toRat x.taxes)).sum
  set C' := (d.charges.map (fun x => rowQ (Spec.C01.docAdjQ (Spec.C01.exactQ d).sum x) x.taxes)).sum
  have e : tx.precise.toRat - (A' + B' + C') = (tx.precise.toRat - (A + B + C)) + (A - A') + (B - B') + (C - C') := by ring
  rw [e]
  have a1 := abs_add_le ((tx.precise.toRat - (A + B + C)) + (A - A') + (B - B')) (C - C')
  have a2 := abs_add_le ((tx.precise.toRat - (A + B + C)) + (A - A')) (B - B')
  have a3 := abs_add_le (tx.precise.toRat - (A + B + C)) (A - A')
  unfold taxW
  push_cast
  linarith

/-! ## payable, advances, due -/

/-- an advance of the covered class: a percentage of the total with tax of at most 100 %, or a
fixed amount with at most currency + 2 decimals -/
def AdvOk (c : ℕ) (a : Advance) : Prop :=
  (∃ p, a.percent = some p ∧ |p.amount.toRat| ≤ 1) ∨ (a.percent = none ∧ a.amount.exp ≤ c + 2)

/-- the exact amount of one advance, as `Spec.C01.exactQ` has it -/
def advQ (T : ℚ) (a : Advance) : ℚ :=
  match a.percent with
  | some p => T * Spec.C01.pq p
  | none => a.amount.toRat

theorem calcAdvance_ok (c : ℕ) (twt : Amount) (a : Advance) (ha : AdvOk c a) (htw : c + 2 ≤ twt.exp) (T : ℚ) :
    (calcAdvance exactOps c twt a).amount.exp ≤ twt.exp ∧
    |(calcAdvance exactOps c twt a).amount.toRat - advQ T a| ≤ |twt.toRat - T| + halfUlp twt.exp := by
  rcases ha with ⟨p, hp, hle⟩ | ⟨hp, he⟩
  · have hval : (calcAdvance exactOps c twt a).amount = twt.mulX p.amount := by
      simp only [calcAdvance, hp, pctOf, exact_mul]
      exact up_self _ c (by rw [mulX_exp]; omega)
    rw [hval]
    refine ⟨le_of_eq rfl, ?_⟩
    simp only [advQ, hp, Spec.C01.pq]
    have h1 := mulX_err twt p.amount
    have e : (twt.mulX p.amount).toRat - T * p.amount.toRat =
        ((twt.mulX p.amount).toRat - twt.toRat * p.amount.toRat) + (twt.toRat - T) * p.amount.toRat := by ring
    rw [e]
    refine le_trans (abs_add_le _ _) ?_
    have h2 : |(twt.toRat - T) * p.amount.toRat| ≤ |twt.toRat - T| := by
      rw [abs_mul]
      calc |twt.toRat - T| * |p.amount.toRat| ≤ |twt.toRat - T| * 1 :=
            mul_le_mul_of_nonneg_left hle (abs_nonneg _)
        _ = |twt.toRat - T| := mul_one _
    linarith
  · have hval : (calcAdvance exactOps c twt a).amount = up a.amount c := by
      simp only [calcAdvance, hp]
    rw [hval, up_toRat, up_exp]
    refine ⟨by omega, ?_⟩
    simp only [advQ, hp, sub_self, abs_zero]
    have := halfUlp_nonneg twt.exp
    have := abs_nonneg (twt.toRat - T)
    linarith

theorem advanceTotal_w (c E : ℕ) (advs : List Advance) (hc : c ≤ E) (h : ∀ a ∈ advs, a.amount.exp ≤ E) :
    (∀ s, advanceTotal exactOps c advs = some s → s.exp ≤ E) ∧
    optQ (advanceTotal exactOps c advs) = (advs.map (·.amount.toRat)).sum := by
  constructor
  · intro s hs
    unfold advanceTotal at hs
    split at hs
    · simp at hs
    · injection hs with hs
      rw [← hs]
      apply foldl_accum_exp_le _ _ _ hc
      intro y hy
      simp only [List.mem_map] at hy
      obtain ⟨a, ha, rfl⟩ := hy
      exact h a ha
  · unfold optQ advanceTotal
    split
    · rename_i he
      have : advs = [] := by simpa using he
      simp [this]
    · simp only [Option.map_some, Option.getD_some]
      rw [foldl_accum_toRat]
      simp [Amount.toRat, List.map_map, Function.comp_def]

theorem exactQ_advances (d : Doc) :
    (Spec.C01.exactQ d).advances =
      if d.hasPayment then (d.advances.map (advQ (Spec.C01.exactQ d).totalWithTax)).sum else 0 := rfl

theorem exactQ_twt (d : Doc) :
    (Spec.C01.exactQ d).totalWithTax = (Spec.C01.exactQ d).total + (Spec.C01.exactQ d).tax := rfl

theorem exactQ_payable (d : Doc) :
    (Spec.C01.exactQ d).payable = (Spec.C01.exactQ d).totalWithTax +
      (match d.rounding with | some x => x.toRat | none => 0) := rfl

theorem exactQ_due (d : Doc) :
    (Spec.C01.exactQ d).due = (Spec.C01.exactQ d).payable - (Spec.C01.exactQ d).advances := rfl

theorem rawTotals_fields (d : Doc) (p : Pre) (tx : TaxTotal) (hinc : d.includes = none) :
    (rawTotals exactOps d p tx).sum = p.sum ∧ (rawTotals exactOps d p tx).discount = p.dsum ∧
    (rawTotals exactOps d p tx).charge = p.csum ∧ (rawTotals exactOps d p tx).taxIncluded = none ∧
    (rawTotals exactOps d p tx).total = p.total2 ∧
    (rawTotals exactOps d p tx).tax = tx.precise ∧
    (rawTotals exactOps d p tx).totalWithTax = add exactOps p.total2 tx.precise ∧
    (rawTotals exactOps d p tx).payable =
      (match d.rounding with
       | some x => add exactOps (add exactOps p.total2 tx.precise) x
       | none => add exactOps p.total2 tx.precise) ∧
    (rawTotals exactOps d p tx).advances =
      (if d.hasPayment then
        advanceTotal exactOps d.c (d.advances.map (calcAdvance exactOps d.c (add exactOps p.total2 tx.precise)))
       else none) ∧
    (rawTotals exactOps d p tx).due =
      (rawTotals exactOps d p tx).advances.map (fun x => sub exactOps (rawTotals exactOps d p tx).payable x) := by
  simp [rawTotals, taxIncluded, hinc]
  cases d.rounding <;> rfl

end Calc
end GoblVerif
