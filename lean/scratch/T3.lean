import GoblVerif.Proofs.BillCalcSrc
namespace GoblVerif.Proofs.BillCalcSrc
open GoblVerif GoblVerif.Calc GoblVerif.CalcSrc GoblVerif.GoSem GoblVerif.Generated

/-! ## line discounts and charges -/

/-- a Go `LineDiscount` as the model's row (a discount has neither rate nor quantity) -/
def toAdj (d : BillCalcSrc.LineDiscount) : LineAdj := ⟨d.Percent, d.Base, d.Amount, none, none⟩
def ofAdj (a : LineAdj) : BillCalcSrc.LineDiscount := ⟨a.base, a.percent, a.amount⟩

theorem ofAdj_toAdj (d : BillCalcSrc.LineDiscount) : ofAdj (toAdj d) = d := rfl

theorem toAdj_ofAdj_step (o : Ops) (r : Rule) (c : Nat) (sum t : Amount) (d : BillCalcSrc.LineDiscount) :
    toAdj (ofAdj (lineDiscountStep o r c sum t (toAdj d)).1) = (lineDiscountStep o r c sum t (toAdj d)).1 := by
  obtain ⟨b, p, a⟩ := d
  simp only [lineDiscountStep, adjUp, adjPct, toAdj, ofAdj]
  cases p with
  | none => rfl
  | some p => cases hz : pctIsZero p <;> cases b <;> simp [hz]

theorem effRun_lineDiscounts (o : Ops) (r : Rule) (c : Nat) (sum : Amount) (ds : List BillCalcSrc.LineDiscount) (t : Amount) :
    let e := effRun (fun s x => (lineDiscountStep o r c sum s (toAdj x)).2)
      (fun s x => ofAdj (lineDiscountStep o r c sum s (toAdj x)).1) ds t
    (e.2.map toAdj, e.1) = lineDiscounts o r c sum (ds.map toAdj) t := by
  induction ds generalizing t with
  | nil => rfl
  | cons d ds ih =>
    simp only [effRun, List.map_cons, lineDiscounts, toAdj_ofAdj_step]
    have := ih (lineDiscountStep o r c sum t (toAdj d)).2
    simp only at this
    rw [← this]

theorem calculateLineDiscounts_eq (o : Ops) (sub : String → Nat) (ds : List BillCalcSrc.LineDiscount)
    (sum total : Amount) (cur rr : String) :
    let r := BillCalcSrc.calculateLineDiscounts o sub ds sum total cur rr
    (r.2.map toAdj, r.1) = lineDiscounts o (ruleOf rr) (sub cur) sum (ds.map toAdj) total := by
  unfold BillCalcSrc.calculateLineDiscounts
  simp only [forIn_list_id, pure_bind, bind_pure_comp]
  simp only [Id.run, id_pure]
  rw [forList_effect _ (fun s x => (lineDiscountStep o (ruleOf rr) (sub cur) sum s (toAdj x)).2)
      (fun s x => ofAdj (lineDiscountStep o (ruleOf rr) (sub cur) sum s (toAdj x)).1)]
  · simpa using effRun_lineDiscounts o (ruleOf rr) (sub cur) sum ds total
  · intro x s
    obtain ⟨b, p, a⟩ := x
    cases p with
    | none => simp [lineDiscountStep, adjUp, adjPct, toAdj, ofAdj]
    | some p =>
      cases hz : pctIsZero p <;> cases b <;>
        simp [lineDiscountStep, adjUp, adjPct, toAdj, ofAdj, hz, applyRoundingRule, E]

end GoblVerif.Proofs.BillCalcSrc
