import GoblVerif.Proofs.CalcErrorMore

namespace GoblVerif
open GoblVerif.Spec GoblVerif.Calc
namespace Calc

/-! ## all working totals of a document of the full class -/

/-- the document class of `calc_eq_spec`: `DocT`, an externally supplied `totals.rounding` not finer
than the working precision, advances of the class `AdvOk` -/
structure DocC (d : Doc) : Prop where
  tax : DocT d
  rounding : ∀ x, d.rounding = some x → x.exp ≤ d.c + 2
  advances : ∀ a ∈ d.advances, AdvOk d.c a

/-- weight of the discount / charge total: per row its own rounding plus the weight of the sum -/
def adjW (W k : ℕ) : ℕ := k * (1 + W)
/-- weight of total-with-tax and payable -/
def twtW (d : Doc) (G : ℕ) : ℕ := totalW d + taxW d G
/-- weight of the advances total: per advance one rounding plus the weight of total-with-tax -/
def advW (d : Doc) (G : ℕ) : ℕ := d.advances.length * (1 + twtW d G)
/-- weight of the amount due -/
def dueW (d : Doc) (G : ℕ) : ℕ := twtW d G + advW d G

theorem adjTotal_err (sumR S P D kd W h : ℚ) (hS : |sumR - S| ≤ W * h) (hD : |D - sumR * P| ≤ kd * h)
    (hP : |P| ≤ kd) (hh : 0 ≤ h) (hW : 0 ≤ W) : |D - S * P| ≤ kd * (1 + W) * h := by
  have e : D - S * P = (D - sumR * P) + (sumR - S) * P := by ring
  rw [e]
  refine le_trans (abs_add_le _ _) ?_
  have : |(sumR - S) * P| ≤ (W * h) * kd := by
    rw [abs_mul]
    exact mul_le_mul hS hP (abs_nonneg _) (by positivity)
  nlinarith

theorem working_tax (d : Doc) (p : Pre) (tx : TaxTotal) (hd : DocT d) (hpre : pre exactOps d = .ok p)
    (htx : taxTotal exactOps d.rule d.c d.includes p.rows = .ok tx) :
    (d.c + 2 ≤ p.sum.exp ∧ p.total2.exp = p.sum.exp ∧ (add exactOps p.total2 tx.precise).exp = p.sum.exp) ∧
    |(rawTotals exactOps d p tx).sum.toRat - (Spec.C01.exactQ d).sum| ≤
      (sumW d.lines : ℚ) * halfUlp (d.c + 2) ∧
    |optQ (rawTotals exactOps d p tx).discount - (Spec.C01.exactQ d).discount| ≤
      (adjW (sumW d.lines) d.discounts.length : ℚ) * halfUlp (d.c + 2) ∧
    |optQ (rawTotals exactOps d p tx).charge - (Spec.C01.exactQ d).charge| ≤
      (adjW (sumW d.lines) d.charges.length : ℚ) * halfUlp (d.c + 2) ∧
    |(rawTotals exactOps d p tx).total.toRat - (Spec.C01.exactQ d).total| ≤
      (totalW d : ℚ) * halfUlp (d.c + 2) ∧
    |(rawTotals exactOps d p tx).tax.toRat - (Spec.C01.exactQ d).tax| ≤
      (taxW d (groupsOf tx.cats) : ℚ) * halfUlp (d.c + 2) ∧
    |(rawTotals exactOps d p tx).totalWithTax.toRat - (Spec.C01.exactQ d).totalWithTax| ≤
      (twtW d (groupsOf tx.cats) : ℚ) * halfUlp (d.c + 2) := by
  have hA := hd.base
  have hinc := hd.inc
  obtain ⟨_, _, _, _, _, _, hds, hcs, _, _⟩ := pre_ok d p hpre
  obtain ⟨hrel, hsum, hsexp, hS, hdis, hch, hrows, te, hb⟩ := pre_spec d p hA hpre
  obtain ⟨x1, x2⟩ := doc_tax_w d p tx hd hpre htx
  obtain ⟨f1, f2, f3, _, f5, f6, f7, f8, f9, f10⟩ := rawTotals_fields d p tx hinc
  have h0 := halfUlp_nonneg (d.c + 2)
  have hcs' : d.c ≤ p.sum.exp := by omega
  have hh : halfUlp p.sum.exp ≤ halfUlp (d.c + 2) := halfUlp_mono _ _ hsexp
  -- discount and charge totals
  have hkd : (0 : ℚ) ≤ (d.discounts.length : ℚ) := by positivity
  have hkc : (0 : ℚ) ≤ (d.charges.length : ℚ) := by positivity
  have hdq := (adjSum_pct d.c p.sum d.discounts hA.discounts hcs').2
  have hcq := (adjSum_pct d.c p.sum d.charges hA.charges hcs').2
  rw [← hdis, ← hds] at hdq
  rw [← hch, ← hcs] at hcq
  have hD : |optQ p.dsum - (Spec.C01.exactQ d).discount| ≤ (adjW (sumW d.lines) d.discounts.length : ℚ) * halfUlp (d.c + 2) := by
    rw [exactQ_discount, docAdjQ_sum_pct _ _ hA.discounts]
    have := adjTotal_err p.sum.toRat (Spec.C01.exactQ d).sum (d.discounts.map pctQ).sum (optQ p.dsum)
      d.discounts.length (sumW d.lines) (halfUlp (d.c + 2)) hS
      (le_trans hdq (mul_le_mul_of_nonneg_left hh hkd)) (pctQ_sum_abs _ hA.discounts) h0 (by positivity)
    refine le_trans this (le_of_eq ?_)
    unfold adjW; push_cast; ring
  have hC : |optQ p.csum - (Spec.C01.exactQ d).charge| ≤ (adjW (sumW d.lines) d.charges.length : ℚ) * halfUlp (d.c + 2) := by
    rw [exactQ_charge, docAdjQ_sum_pct _ _ hA.charges]
    have := adjTotal_err p.sum.toRat (Spec.C01.exactQ d).sum (d.charges.map pctQ).sum (optQ p.csum)
      d.charges.length (sumW d.lines) (halfUlp (d.c + 2)) hS
      (le_trans hcq (mul_le_mul_of_nonneg_left hh hkc)) (pctQ_sum_abs _ hA.charges) h0 (by positivity)
    refine le_trans this (le_of_eq ?_)
    unfold adjW; push_cast; ring
  -- total
  have hT : |p.total2.toRat - (Spec.C01.exactQ d).total| ≤ (totalW d : ℚ) * halfUlp (d.c + 2) := by
    rw [exactQ_total, exactQ_inc_none d hinc, sub_zero]; exact hb
  -- total with tax
  set twt := add exactOps p.total2 tx.precise with htwt
  have htwe : twt.exp = p.sum.exp := by rw [htwt, add_exp]; exact te
  have htwq : twt.toRat = p.total2.toRat + tx.precise.toRat := add_toRat _ _ (by rw [te]; exact x1)
  have hTW : |twt.toRat - (Spec.C01.exactQ d).totalWithTax| ≤ (twtW d (groupsOf tx.cats) : ℚ) * halfUlp (d.c + 2) := by
    rw [htwq, exactQ_twt]
    have e : p.total2.toRat + tx.precise.toRat - ((Spec.C01.exactQ d).total + (Spec.C01.exactQ d).tax) =
        (p.total2.toRat - (Spec.C01.exactQ d).total) + (tx.precise.toRat - (Spec.C01.exactQ d).tax) := by ring
    rw [e]
    refine le_trans (abs_add_le _ _) ?_
    unfold twtW; push_cast; linarith
  exact ⟨⟨hsexp, te, htwe⟩, by rw [f1]; exact hS, by rw [f2]; exact hD, by rw [f3]; exact hC, by rw [f5]; exact hT,
    by rw [f6]; exact x2, by rw [f7]; exact hTW⟩

theorem working_spec (d : Doc) (p : Pre) (tx : TaxTotal) (hd : DocC d) (hpre : pre exactOps d = .ok p)
    (htx : taxTotal exactOps d.rule d.c d.includes p.rows = .ok tx) :
    |(rawTotals exactOps d p tx).sum.toRat - (Spec.C01.exactQ d).sum| ≤
      (sumW d.lines : ℚ) * halfUlp (d.c + 2) ∧
    |optQ (rawTotals exactOps d p tx).discount - (Spec.C01.exactQ d).discount| ≤
      (adjW (sumW d.lines) d.discounts.length : ℚ) * halfUlp (d.c + 2) ∧
    |optQ (rawTotals exactOps d p tx).charge - (Spec.C01.exactQ d).charge| ≤
      (adjW (sumW d.lines) d.charges.length : ℚ) * halfUlp (d.c + 2) ∧
    |(rawTotals exactOps d p tx).total.toRat - (Spec.C01.exactQ d).total| ≤
      (totalW d : ℚ) * halfUlp (d.c + 2) ∧
    |(rawTotals exactOps d p tx).tax.toRat - (Spec.C01.exactQ d).tax| ≤
      (taxW d (groupsOf tx.cats) : ℚ) * halfUlp (d.c + 2) ∧
    |(rawTotals exactOps d p tx).totalWithTax.toRat - (Spec.C01.exactQ d).totalWithTax| ≤
      (twtW d (groupsOf tx.cats) : ℚ) * halfUlp (d.c + 2) ∧
    |(rawTotals exactOps d p tx).payable.toRat - (Spec.C01.exactQ d).payable| ≤
      (twtW d (groupsOf tx.cats) : ℚ) * halfUlp (d.c + 2) ∧
    |optQ (rawTotals exactOps d p tx).advances - (Spec.C01.exactQ d).advances| ≤
      (advW d (groupsOf tx.cats) : ℚ) * halfUlp (d.c + 2) ∧
    (∀ y, (rawTotals exactOps d p tx).due = some y →
      |y.toRat - (Spec.C01.exactQ d).due| ≤ (dueW d (groupsOf tx.cats) : ℚ) * halfUlp (d.c + 2)) := by
  obtain ⟨⟨hsexp, te, htwe'⟩, w1, w2, w3, w4, w5, hTW'⟩ := working_tax d p tx hd.tax hpre htx
  have hinc := hd.tax.inc
  obtain ⟨f1, f2, f3, _, f5, f6, f7, f8, f9, f10⟩ := rawTotals_fields d p tx hinc
  have h0 := halfUlp_nonneg (d.c + 2)
  have hh : halfUlp p.sum.exp ≤ halfUlp (d.c + 2) := halfUlp_mono _ _ hsexp
  set twt := add exactOps p.total2 tx.precise with htwt
  have htwe : twt.exp = p.sum.exp := htwe'
  have hTW : |twt.toRat - (Spec.C01.exactQ d).totalWithTax| ≤ (twtW d (groupsOf tx.cats) : ℚ) * halfUlp (d.c + 2) := by
    rw [← f7]; exact hTW'
  -- payable
  have hPe : (rawTotals exactOps d p tx).payable.exp = p.sum.exp ∧
      |(rawTotals exactOps d p tx).payable.toRat - (Spec.C01.exactQ d).payable| ≤
        (twtW d (groupsOf tx.cats) : ℚ) * halfUlp (d.c + 2) := by
    rw [f8, exactQ_payable]
    cases hr : d.rounding with
    | none => simp only [add_zero]; exact ⟨htwe, hTW⟩
    | some x =>
      simp only [add_exp]
      refine ⟨te, ?_⟩
      rw [add_toRat _ _ (by rw [htwe]; have := hd.rounding x hr; omega)]
      have e : twt.toRat + x.toRat - ((Spec.C01.exactQ d).totalWithTax + x.toRat) =
          twt.toRat - (Spec.C01.exactQ d).totalWithTax := by ring
      rw [e]; exact hTW
  -- advances
  have hAe : (∀ s, (rawTotals exactOps d p tx).advances = some s → s.exp ≤ p.sum.exp) ∧
      |optQ (rawTotals exactOps d p tx).advances - (Spec.C01.exactQ d).advances| ≤
        (advW d (groupsOf tx.cats) : ℚ) * halfUlp (d.c + 2) := by
    rw [f9, exactQ_advances]
    cases hp : d.hasPayment with
    | false =>
      simp only [Bool.false_eq_true, if_false]
      refine ⟨fun s hs => (by cases hs), ?_⟩
      simp only [optQ, Option.map_none, Option.getD_none, sub_self, abs_zero]
      positivity
    | true =>
      simp only [if_true]
      have hok : ∀ a ∈ d.advances.map (calcAdvance exactOps d.c twt), a.amount.exp ≤ twt.exp := by
        intro a ha
        simp only [List.mem_map] at ha
        obtain ⟨a0, ha0, rfl⟩ := ha
        exact (calcAdvance_ok d.c twt a0 (hd.advances a0 ha0) (by omega) 0).1
      obtain ⟨a1, a2⟩ := advanceTotal_w d.c twt.exp _ (by omega) hok
      refine ⟨fun s hs => (by rw [← htwe]; exact a1 s hs), ?_⟩
      rw [a2, List.map_map]
      have hB : ∀ a ∈ d.advances, |((fun a => a.amount.toRat) ∘ calcAdvance exactOps d.c twt) a
          - advQ (Spec.C01.exactQ d).totalWithTax a| ≤ (1 + (twtW d (groupsOf tx.cats) : ℚ)) * halfUlp (d.c + 2) := by
        intro a ha
        have := (calcAdvance_ok d.c twt a (hd.advances a ha) (by omega) (Spec.C01.exactQ d).totalWithTax).2
        have hh2 : halfUlp twt.exp ≤ halfUlp (d.c + 2) := by rw [htwe]; exact hh
        simp only [Function.comp]
        linarith
      refine le_trans (list_sum_diff_le d.advances _ _ _ hB) (le_of_eq ?_)
      unfold advW; push_cast; ring
  refine ⟨w1, w2, w3, w4, w5, hTW', hPe.2, hAe.2, ?_⟩
  intro y hy
  rw [f10] at hy
  cases ha : (rawTotals exactOps d p tx).advances with
  | none => rw [ha] at hy; cases hy
  | some s =>
    rw [ha] at hy
    simp only [Option.map_some, Option.some.injEq] at hy
    subst hy
    rw [sub_toRat _ _ (by rw [hPe.1]; exact hAe.1 s ha), exactQ_due]
    have h2 := hAe.2
    rw [ha] at h2
    simp only [optQ, Option.map_some, Option.getD_some] at h2
    have e : (rawTotals exactOps d p tx).payable.toRat - s.toRat -
        ((Spec.C01.exactQ d).payable - (Spec.C01.exactQ d).advances) =
        ((rawTotals exactOps d p tx).payable.toRat - (Spec.C01.exactQ d).payable) -
        (s.toRat - (Spec.C01.exactQ d).advances) := by ring
    rw [e]
    refine le_trans (abs_sub _ _) ?_
    have := hPe.2
    unfold dueW; push_cast; linarith

/-- number of rate groups of the tax summary shown with the totals -/
def groupsT (t : Totals) : ℕ :=
  match t.taxes with
  | some tx => groupsOf tx.cats
  | none => 0

theorem groupsT_round (d : Doc) (p : Pre) (tx : TaxTotal) :
    groupsT (roundTotals exactOps d.c (rawTotals exactOps d p tx)) = groupsOf tx.cats := by
  unfold groupsT
  simp only [roundTotals, rawTotals]
  split
  · rename_i tx' h
    split at h
    · cases h
    · injection h with h; rw [h]
  · rename_i h
    split at h
    · rename_i he
      have : tx.cats = [] := by simpa using he
      rw [this]; rfl
    · cases h

/-- the presented figure for a working amount -/
theorem presents_rescale (c : ℕ) (a : Amount) : Spec.C01.presents c (a.rescaleX c) a.toRat :=
  ⟨rescaleX_exp a c, rescaleX_value a c⟩

end Calc
end GoblVerif
