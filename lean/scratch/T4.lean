import GoblVerif.Proofs.BillCalcSrc
namespace GoblVerif.Proofs.BillCalcSrc
open GoblVerif GoblVerif.Calc GoblVerif.CalcSrc GoblVerif.GoSem GoblVerif.Generated

theorem effRun_lineCharges (o : Ops) (r : Rule) (c : Nat) (q sum : Amount) (cs : List LineAdj) (t : Amount) :
    let e := effRun (fun s x => (lineChargeStep o r c q sum s x).2) (fun s x => (lineChargeStep o r c q sum s x).1) cs t
    (e.2, e.1) = lineCharges o r c q sum cs t := by
  induction cs generalizing t with
  | nil => rfl
  | cons d ds ih =>
    simp only [effRun, lineCharges]
    have := ih (lineChargeStep o r c q sum t d).2
    simp only at this
    rw [← this]

theorem calculateLineCharges_eq (o : Ops) (sub : String → Nat) (cs : List LineAdj)
    (q sum total : Amount) (cur rr : String) :
    let r := BillCalcSrc.calculateLineCharges o sub cs q sum total cur rr
    (r.2, r.1) = lineCharges o (ruleOf rr) (sub cur) q sum cs total := by
  unfold BillCalcSrc.calculateLineCharges
  simp only [forIn_list_id, pure_bind, bind_pure_comp]
  simp only [Id.run, id_pure]
  rw [forList_effect _ (fun s x => (lineChargeStep o (ruleOf rr) (sub cur) q sum s x).2)
      (fun s x => (lineChargeStep o (ruleOf rr) (sub cur) q sum s x).1)]
  · simpa using effRun_lineCharges o (ruleOf rr) (sub cur) q sum cs total
  · intro x s
    obtain ⟨p, b, a, rt, qt⟩ := x
    cases p with
    | none => cases rt <;> cases qt <;> simp [lineChargeStep, adjUp, adjPct, adjRate]
    | some p =>
      cases hz : pctIsZero p <;> cases b <;> cases rt <;> cases qt <;>
        simp [lineChargeStep, adjUp, adjPct, adjRate, hz, applyRoundingRule, E]

end GoblVerif.Proofs.BillCalcSrc
