import GoblVerif.Proofs.CodecSrc
import GoblVerif.Generated.CodecSrc
namespace GoblVerif.CodecTie
open GoblVerif GoblVerif.Codec GoblVerif.GoStr GoblVerif.GoSem

theorem ofNat48 (d : Nat) (h : d < 10) : Char.ofNat (48 + d) = digitChar d := by
  interval_cases d <;> rfl

theorem natDigits_eq (f : Nat) : ∀ (n : Nat) (acc : Text), n ≤ f →
    GoStr.natDigits (f + 1) n acc = natToDigitsF f n ++ acc := by
  induction f with
  | zero =>
    intro n acc h
    have : n = 0 := by omega
    subst this
    simp [GoStr.natDigits, natToDigitsF, ofNat48 0 (by omega)]
  | succ f ih =>
    intro n acc h
    rw [GoStr.natDigits, natToDigitsF]
    by_cases h10 : n < 10
    · have : n / 10 = 0 := by omega
      have hm : n % 10 = n := by omega
      simp [h10, this, hm, ofNat48 n h10]
    · have : ¬ n / 10 = 0 := by omega
      simp only [this, h10, if_false]
      rw [ih (n / 10) _ (by omega), ofNat48 (n % 10) (by omega)]
      simp

theorem itoa_eq (v : Int) : GoStr.itoa v = fmtInt v := by
  unfold GoStr.itoa fmtInt natToDigits
  by_cases h : v < 0
  · simp only [h, if_true]; rw [natDigits_eq _ _ _ (le_refl _)]; simp
  · simp only [h, if_false]
    have : v.toNat = v.natAbs := by omega
    rw [this, natDigits_eq _ _ _ (le_refl _)]; simp

theorem fmtPad0_eq (w : Nat) (v : Int) : GoStrings.fmtPad0 w v = fmtIntPad0 w v := by
  unfold GoStrings.fmtPad0 fmtIntPad0 padZeros natToDigits
  simp only [natDigits_eq _ _ _ (le_refl _), List.append_nil]

theorem contains_dot (s : Text) : GoStrings.contains s ['.'] = s.contains '.' := by
  induction s with
  | nil => rfl
  | cons c r ih =>
    simp only [GoStrings.contains, ih, List.isPrefixOf, List.contains_cons]
    by_cases h : c = '.'
    · subst h; simp
    · have : ('.' == c) = false := by simp [Ne.symm h]
      simp [this]

theorem trimRight_zeros (s : Text) : GoStrings.trimRight s ['0'] = trimRightZeros s := by
  unfold GoStrings.trimRight trimRightZeros
  congr 2
  funext c
  by_cases h : c = '0' <;> simp [h]

theorem trimSuffix_dot (s : Text) : GoStrings.trimSuffix s ['.'] = trimSuffixDot s := by
  unfold GoStrings.trimSuffix trimSuffixDot
  rcases List.eq_nil_or_concat s with h | ⟨t, c, h⟩
  · subst h; rfl
  · subst h
    by_cases hc : c = '.'
    · subst hc; simp [List.isSuffixOf]
    · simp [hc]
      exact fun e => hc e.symm

/-- `Amount.String` with a decimal point on unbounded integers: for 1 ≤ exp ≤ 18 and an int64
    value the wrapped negations of the model are the plain ones -/
theorem amountToString_nowrap (v : Int) (e : Nat) (he0 : 0 < e) (he : e ≤ 18)
    (hlo : minInt64 ≤ v) (hhi : v ≤ maxInt64) :
    amountToString ⟨v, e⟩ =
      (if v < 0 then ['-'] else []) ++ fmtInt (if v < 0 then -(Int.tdiv v (10 ^ e)) else Int.tdiv v (10 ^ e)) ++
        '.' :: fmtIntPad0 e (if v < 0 then -(Int.tmod v (10 ^ e)) else Int.tmod v (10 ^ e)) := by
  unfold amountToString
  have h0 : ¬ e = 0 := by omega
  have h1 : ¬ e > 1000 := by omega
  simp only [h0, h1, if_false, intPow10 e he]
  unfold minInt64 at hlo
  unfold maxInt64 at hhi
  by_cases hneg : v < 0
  · simp only [hneg, decide_true, if_true]
    have hp : (10 : Int) ≤ 10 ^ e := by
      calc (10 : Int) = 10 ^ 1 := by norm_num
        _ ≤ 10 ^ e := pow_le_pow_right₀ (by norm_num) he0
    have h18 := pow10_le_18 e he
    have hpp : (0 : Int) < 10 ^ e := by positivity
    have hq : -922337203685477580 ≤ Int.tdiv v (10 ^ e) ∧ Int.tdiv v (10 ^ e) ≤ 0 := by
      have hv : v = -((-v).toNat : Int) := by omega
      rw [hv, Int.neg_tdiv, Int.tdiv_eq_ediv_of_nonneg (by positivity)]
      have h1 : (0 : Int) ≤ ((-v).toNat : Int) / 10 ^ e := Int.ediv_nonneg (by positivity) (by positivity)
      have h2 : ((-v).toNat : Int) / 10 ^ e * 10 ^ e ≤ ((-v).toNat : Int) := Int.ediv_mul_le _ (by positivity)
      have h3 : ((-v).toNat : Int) / 10 ^ e * 10 ≤ ((-v).toNat : Int) / 10 ^ e * 10 ^ e :=
        Int.mul_le_mul_of_nonneg_left hp h1
      omega
    have hr : -1000000000000000000 ≤ Int.tmod v (10 ^ e) ∧ Int.tmod v (10 ^ e) ≤ 0 := by
      have hv : v = -((-v).toNat : Int) := by omega
      rw [hv, Int.neg_tmod, Int.tmod_eq_emod_of_nonneg (by positivity)]
      have h1 : (0 : Int) ≤ ((-v).toNat : Int) % 10 ^ e := Int.emod_nonneg _ (by positivity)
      have h2 : ((-v).toNat : Int) % 10 ^ e < 10 ^ e := Int.emod_lt_of_pos _ hpp
      omega
    rw [wrap64_id _ (by unfold minInt64; omega) (by unfold maxInt64; omega)]
    rw [wrap64_id _ (by unfold minInt64; omega) (by unfold maxInt64; omega)]
  · simp [hneg]

end GoblVerif.CodecTie
