import GoblVerif.Proofs.CodecSrc
import GoblVerif.Generated.CodecSrc
namespace GoblVerif.CodecTie
open GoblVerif GoblVerif.Codec GoblVerif.GoStr GoblVerif.GoSem

def toGoP : Except Err Pct → Pct × Option Str
  | .ok p => (p, none)
  | .error e => (⟨⟨0, 0⟩⟩, GoStr.errNew (errFormat e))

def toGoU {α : Type} (cur : α) : Except Err α → Option Str × α
  | .ok a => (none, a)
  | .error e => (GoStr.errNew (errFormat e), cur)

/-- `str[l-1:] == "%"` is `getLast? = some '%'`, `str[:l-1]` is `dropLast` -/
theorem drop_last_eq (s : Text) (c : Char) (hne : s ≠ []) :
    (List.drop (Int.toNat ((s.length : Int) - 1)) s = [c]) ↔ s.getLast? = some c := by
  rcases List.eq_nil_or_concat s with h | ⟨t, d, h⟩
  · exact absurd h hne
  · subst h
    have : Int.toNat (((t.concat d).length : Int) - 1) = t.length := by simp
    rw [this]
    simp

theorem take_last_eq (s : Text) : List.take (Int.toNat ((s.length : Int) - 1)) s = s.dropLast := by
  have : Int.toNat ((s.length : Int) - 1) = s.length - 1 := by omega
  rw [this, List.dropLast_eq_take]

end GoblVerif.CodecTie

namespace GoblVerif.Props.C06.Src
open GoblVerif GoblVerif.Codec GoblVerif.GoStr GoblVerif.GoSem GoblVerif.Generated GoblVerif.CodecTie

theorem src_AmountFromString (val : Text) : CodecSrc.AmountFromString val = toGo (amountFromString val) := by
  sorry

theorem src_intPow (base : Int) (e : Nat) : CodecSrc.intPow base e = base ^ e := by
  sorry

theorem src_PercentageFromAmount (a : Amount) : CodecSrc.PercentageFromAmount a = Pct.ofAmount a := rfl

theorem src_PercentageFromString (str : Text) :
    CodecSrc.PercentageFromString str = toGoP (percentageFromString str) := by
  unfold CodecSrc.PercentageFromString percentageFromString
  simp only [Id.run, src_AmountFromString, src_PercentageFromAmount, take_last_eq]
  by_cases h0 : str = []
  · subst h0; simp [toGoP, id_pure]
  have hl : ¬ ((str.length : Int) = 0) := by
    cases str with
    | nil => exact absurd rfl h0
    | cons c r => simp; omega
  have he : str.isEmpty = false := by cases str <;> simp_all
  simp only [hl, if_false, he, drop_last_eq str '%' h0, Bool.false_eq_true]
  by_cases hp : str.getLast? = some '%'
  · have hb : (str.getLast? == some '%') = true := by simp [hp]
    simp only [hp, hb, if_true]
    obtain ⟨x, hx⟩ : ∃ x, amountFromString str.dropLast = x := ⟨_, rfl⟩
    simp only [hx]
    cases x <;> simp [hx, toGo, toGoP, GoStr.errNew, id_pure]
  · have hb : (str.getLast? == some '%') = false := by simp [hp]
    simp only [hp, hb, if_false, Bool.false_eq_true]
    obtain ⟨x, hx⟩ : ∃ x, amountFromString str = x := ⟨_, rfl⟩
    simp only [hx]
    cases x <;> simp [hx, toGo, toGoP, GoStr.errNew, id_pure]

theorem src_Rescale (a : Amount) (e : Nat) : CodecSrc.Amount_Rescale a e = a.rescale e := by
  unfold CodecSrc.Amount_Rescale Amount.rescale
  simp only [src_intPow]
  rfl

theorem src_RescaleUp (a : Amount) (e : Nat) : CodecSrc.Amount_RescaleUp a e = a.rescaleUp e := by
  unfold CodecSrc.Amount_RescaleUp Amount.rescaleUp
  simp only [src_Rescale]
  rfl

theorem src_Percentage_Amount (p : Pct) : CodecSrc.Percentage_Amount p = p.toAmount := by
  unfold CodecSrc.Percentage_Amount Pct.toAmount
  simp only [src_RescaleUp]
  rfl

end GoblVerif.Props.C06.Src
