import GoblVerif.Proofs.BillCalcSrc
namespace GoblVerif.Proofs.BillCalcSrc
open GoblVerif GoblVerif.Calc GoblVerif.CalcSrc GoblVerif.GoSem GoblVerif.Generated

/-! ## totals -/

theorem Totals_round_eq (o : Ops) (sub : String → Nat) (t : Totals) (zero : Amount) :
    BillCalcSrc.Totals_round o sub t zero = roundTotals o zero.exp t := by
  obtain ⟨s, d, c, ti, tot, txs, tx, twt, rd, pay, adv, due⟩ := t
  cases d <;> cases c <;> cases ti <;> cases adv <;> cases due <;>
    simp [BillCalcSrc.Totals_round, roundTotals, Id.run, id_pure]

theorem Totals_reset_eq (o : Ops) (sub : String → Nat) (t : Totals) (zero : Amount) :
    BillCalcSrc.Totals_reset o sub t zero =
      { sum := zero, discount := none, charge := none, taxIncluded := none, total := zero, taxes := none, tax := zero,
        totalWithTax := zero, rounding := t.rounding, payable := zero, advances := none, due := none } := by
  simp [BillCalcSrc.Totals_reset, Id.run, id_pure]

/-! ## document discount / charge presentation -/

theorem Discount_round_eq (o : Ops) (sub : String → Nat) (m : DocAdj) (cur : String) :
    BillCalcSrc.Discount_round o sub m cur = roundDocAdj o (sub cur) m := by
  obtain ⟨p, b, a, tx⟩ := m
  cases b with
  | none => simp [BillCalcSrc.Discount_round, roundDocAdj, Id.run, id_pure]
  | some b =>
    by_cases h : b.exp > sub cur <;> simp [BillCalcSrc.Discount_round, roundDocAdj, Id.run, id_pure, h]

theorem Charge_round_eq (o : Ops) (sub : String → Nat) (m : DocAdj) (cur : String) :
    BillCalcSrc.Charge_round o sub m cur = roundDocAdj o (sub cur) m := by
  obtain ⟨p, b, a, tx⟩ := m
  cases b with
  | none => simp [BillCalcSrc.Charge_round, roundDocAdj, Id.run, id_pure]
  | some b =>
    by_cases h : b.exp > sub cur <;> simp [BillCalcSrc.Charge_round, roundDocAdj, Id.run, id_pure, h]

theorem roundDiscounts_eq (o : Ops) (sub : String → Nat) (ds : List DocAdj) (cur : String) :
    BillCalcSrc.roundDiscounts o sub ds cur = ds.map (roundDocAdj o (sub cur)) := by
  unfold BillCalcSrc.roundDiscounts
  simp only [forIn_list_id, pure_bind]
  simp only [Id.run, id_pure]
  rw [forList_map _ (roundDocAdj o (sub cur))]
  · simp
  · intro x s; simp [Discount_round_eq]

theorem roundCharges_eq (o : Ops) (sub : String → Nat) (ds : List DocAdj) (cur : String) :
    BillCalcSrc.roundCharges o sub ds cur = ds.map (roundDocAdj o (sub cur)) := by
  unfold BillCalcSrc.roundCharges
  simp only [forIn_list_id, pure_bind]
  simp only [Id.run, id_pure]
  rw [forList_map _ (roundDocAdj o (sub cur))]
  · simp
  · intro x s; simp [Charge_round_eq]

/-! ## advances and due dates -/

theorem Advance_CalculateFrom_eq (o : Ops) (sub : String → Nat) (a : Advance) (twt : Amount) :
    PayCalcSrc.Advance_CalculateFrom o sub a twt =
      (match a.percent with | some p => { a with amount := pctOf o p twt } | none => a) := by
  obtain ⟨p, am⟩ := a
  cases p <;> simp [PayCalcSrc.Advance_CalculateFrom, Id.run, id_pure]

theorem calculateAdvances_eq (o : Ops) (sub : String → Nat) (p : BillCalcSrc.PaymentDetails) (zero twt : Amount) :
    BillCalcSrc.PaymentDetails_calculateAdvances o sub p zero twt =
      { p with Advances := p.Advances.map (calcAdvance o zero.exp twt) } := by
  unfold BillCalcSrc.PaymentDetails_calculateAdvances
  simp only [forIn_list_id, pure_bind]
  simp only [Id.run, id_pure]
  rw [forList_map _ (calcAdvance o zero.exp twt)]
  · simp
  · intro x s
    obtain ⟨pc, am⟩ := x
    cases pc <;> simp [Advance_CalculateFrom_eq, calcAdvance, matchPrecision]

theorem effRun_indep {α β σ : Type} (g : σ → α → σ) (f : α → β) (l : List α) (s : σ) :
    effRun g (fun _ x => f x) l s = (l.foldl g s, l.map f) := by
  induction l generalizing s with
  | nil => rfl
  | cons a l ih => simp [effRun, ih]

theorem totalAdvance_eq (o : Ops) (sub : String → Nat) (p : BillCalcSrc.PaymentDetails) (zero : Amount) :
    BillCalcSrc.PaymentDetails_totalAdvance o sub (some p) zero =
      (if p.Advances.isEmpty then (none, some p) else
        (some ((p.Advances.map (·.amount)).foldl (accum o) zero),
         some { p with Advances := p.Advances.map (fun a => { a with amount := o.rescale a.amount zero.exp }) })) := by
  unfold BillCalcSrc.PaymentDetails_totalAdvance
  simp only [forIn_list_id, pure_bind, bind_pure_comp]
  simp only [Id.run, id_pure, length_zero_iff]
  rw [forList_effect _ (fun s (x : Advance) => accum o s x.amount)
      (fun _ (x : Advance) => ({ x with amount := o.rescale x.amount zero.exp } : Advance))]
  · rw [effRun_indep]
    simp only [List.foldl_map, some_get!, Option.isNone_some, Bool.false_eq_true, false_or, List.nil_append]
    by_cases h : p.Advances.isEmpty = true
    · simp only [h, if_true]
    · simp only [h, if_false]; rfl
  · intro x s; rfl

theorem totalAdvance_none (o : Ops) (sub : String → Nat) (zero : Amount) :
    BillCalcSrc.PaymentDetails_totalAdvance o sub none zero = (none, none) := by
  simp [BillCalcSrc.PaymentDetails_totalAdvance, Id.run, id_pure]

end GoblVerif.Proofs.BillCalcSrc
