import GoblVerif.Proofs.CodecSrc
import GoblVerif.Generated.CodecSrc
namespace GoblVerif.Props.C06.Src
open GoblVerif GoblVerif.Codec GoblVerif.GoStr GoblVerif.GoSem GoblVerif.Generated GoblVerif.CodecTie

theorem src_isDigits (s : Text) : CodecSrc.isDigits s = Codec.isDigits s := by
  unfold CodecSrc.isDigits
  simp only [Id.run]
  by_cases h0 : (s.length : Int) = 0
  · have : s = [] := by
      cases s with
      | nil => rfl
      | cons c r => simp at h0; omega
    subst this; rfl
  · simp only [h0, if_false]
    rw [forIn_range_fuel _ (fun _ _ => rfl)]
    simp only [bind, pure]
    rw [(forFuel_digitScan0 s false _ (by intro b; simp only [digitScanStep, Id.run])).1]
    have hne : s.isEmpty = false := by
      cases s with
      | nil => simp at h0
      | cons c r => rfl
    unfold Codec.isDigits
    simp only [hne, Bool.not_false, Bool.true_and]
    by_cases ha : s.all isDigitC = true <;> simp [ha]


theorem isDigits_fuel_suffices (s : Text) : CodecSrc.isDigits_fuelOK s = true := by
  unfold CodecSrc.isDigits_fuelOK
  simp only [Id.run]
  by_cases h0 : (s.length : Int) = 0
  · simp [h0, id_pure]
  · simp only [h0, if_false]
    rw [forIn_range_fuel _ (fun _ _ => rfl)]
    simp only [bind, pure]
    rw [forFuel_congr _ (digitScanStep s true) (by intro b; simp only [digitScanStep, Id.run])]
    obtain ⟨k1, k2⟩ := forFuel_digitScan0 s true (digitScanStep s true) (fun _ => rfl)
    by_cases ha : s.all isDigitC = true
    · simp only [ha, if_true] at k1
      rw [k1, k2 k1]
      simp
    · simp only [ha] at k1
      rw [k1]
      rfl



theorem src_intPow (base : Int) (e : Nat) : CodecSrc.intPow base e = base ^ e := by
  unfold CodecSrc.intPow
  simp only [Id.run]
  rw [forIn_range_fuel _ (fun _ _ => rfl)]
  simp only [bind, pure]
  rw [forFuel_countdown _ (fun o => o * base) (by intro s; simp [Id.run]) (by intro k s; simp [Id.run])]
  simp [iter_mul_int]


theorem src_AmountFromString (val : Text) : CodecSrc.AmountFromString val = toGo (amountFromString val) := by
  unfold CodecSrc.AmountFromString amountFromString
  simp only [Id.run, hasPrefix_minus, split_dot, parseInt_eq, trimPrefix_minus, src_isDigits, src_intPow]
  have hh := hasPrefixMinus_split_head val
  match hs : splitOn '.' val with
  | [] => exact absurd hs (splitOn_ne_nil '.' val)
  | [x0] =>
    have i0 : ([x0] : List Text)[Int.toNat 0]! = x0 := rfl
    simp only [i0, List.length_singleton]
    rw [← parts1_eq]
    simp [id_pure]
  | [x0, x1] =>
    have i0 : ([x0, x1] : List Text)[Int.toNat 0]! = x0 := rfl
    have i1 : ([x0, x1] : List Text)[Int.toNat 1]! = x1 := rfl
    have hn : hasPrefixMinus val = hasPrefixMinus x0 := by rw [← hh, hs]; rfl
    simp only [i0, i1, hn]
    rw [← parts2_eq]
    simp [id_pure]
  | x0 :: x1 :: x2 :: r =>
    have : ((x0 :: x1 :: x2 :: r).length : Int) > 2 := by simp; omega
    have h2 : (x0 :: x1 :: x2 :: r).length > 2 := by simp
    simp only [this, if_true, parseParts, h2, toGo, errFormat]
    rfl


end GoblVerif.Props.C06.Src
