-- root of the library: every property module (and through them models, specs, proofs)
import GoblVerif.Props.C05
