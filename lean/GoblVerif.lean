-- root of the library: every property module (and through them models, specs, proofs)
import GoblVerif.Props.C01
import GoblVerif.Props.C02
import GoblVerif.Props.C03
import GoblVerif.Props.C04
import GoblVerif.Props.C05
import GoblVerif.Props.C06
import GoblVerif.Props.C07
import GoblVerif.Props.C08
import GoblVerif.Props.C09
import GoblVerif.Props.C10
import GoblVerif.Props.C12
import GoblVerif.Props.C17
import GoblVerif.Props.C18
import GoblVerif.Props.C19
import GoblVerif.Props.C20
