/-
  Driver for C10.
    run <uuid> <actions…>
        → per action "outcome|nsigs" where outcome is the *table's* entry
          `specOutcome (abs s) op` (checked in the driver against the concrete
          step function; a difference prints MODEL-SPEC-MISMATCH), then
          "S <nstamps> <nlinks> <digestOk> <containsAll>"
-/
import GoblVerif.Model.Envelope
import GoblVerif.Spec.C10
import Driver.EnvProto

namespace Driver.C10
open GoblVerif GoblVerif.Spec.C10 Driver Driver.EnvProto

def runOps : Env → List Action → List String → Option (Env × List String)
  | e, [], acc => some (e, acc.reverse)
  | e, .op op :: as, acc =>
    let (e', o) := Env.step H e op
    let so := specOutcome (abs H e) op
    if so != o then none
    else runOps e' as (s!"{so.str}|{e'.sigs.length}" :: acc)
  | _, .tamper _ :: _, _ => none

def b01 (b : Bool) : String := if b then "1" else "0"

def handle (toks : List String) : String :=
  match toks with
  | "run" :: u :: rest =>
    match unhexStr u, pActions (rest.length + 1) rest with
    | some uuid, some acts =>
      match runOps (emptyEnv uuid) acts [] with
      | some (e, outs) =>
        let a := abs H e
        "ok " ++ " ".intercalate outs ++
          s!" S {e.head.stamps.length} {e.head.links.length} {b01 a.digestOk} {b01 a.containsAll}"
      | none => "MODEL-SPEC-MISMATCH"
    | _, _ => "bad-args"
  | _ => "bad-op"

end Driver.C10
