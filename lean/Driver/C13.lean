/-
  Driver for C13.
    v <CC> <hex code>
        → ok <m> <s> <f>    m = model of Go validation (1 = accepted), s = national
                            specification (format ∧ check; empty code accepted),
                            f = national format alone
    n <CC> <hex country> <hex code> <hex Go output code>
        → ok <hex country'> <hex code'> <k>   model of Identity.Normalize and the
                            "keeps the identifying digits" oracle on Go's output
        → undef             code outside the model's character domain
-/
import GoblVerif.Model.TaxId
import GoblVerif.Model.Normalize
import GoblVerif.Spec.C13
import GoblVerif.Generated.TaxIdFacts
import Driver.Proto

namespace Driver.C13
open GoblVerif GoblVerif.TaxId Driver

structure Regime where
  go : Str → Bool
  format : Str → Bool
  check : Str → Bool

def regimeOf (cc : String) : Option Regime :=
  match cc with
  | "AE" => some ⟨AE.goValid, Spec.TaxId.AE.format, Spec.TaxId.AE.check⟩
  | "AT" => some ⟨AT.goValid, Spec.TaxId.AT.format, Spec.TaxId.AT.check⟩
  | "BE" => some ⟨BE.goValid, Spec.TaxId.BE.format, Spec.TaxId.BE.check⟩
  | "BR" => some ⟨BR.goValid, Spec.TaxId.BR.format, Spec.TaxId.BR.check⟩
  | "CH" => some ⟨CH.goValid, Spec.TaxId.CH.format, Spec.TaxId.CH.check⟩
  | "CO" => some ⟨CO.goValid, Spec.TaxId.CO.format, Spec.TaxId.CO.check⟩
  | "DE" => some ⟨DE.goValid, Spec.TaxId.DE.format, Spec.TaxId.DE.check⟩
  | "ES" => some ⟨ES.goValid, Spec.TaxId.ES.format, Spec.TaxId.ES.check⟩
  | "FR" => some ⟨FR.goValid, Spec.TaxId.FR.format, Spec.TaxId.FR.check⟩
  | "GB" => some ⟨GB.goValid, Spec.TaxId.GB.format, Spec.TaxId.GB.check⟩
  | "EL" => some ⟨GR.goValid, Spec.TaxId.GR.format, Spec.TaxId.GR.check⟩
  | "IN" => some ⟨IN.goValid, Spec.TaxId.IN.format, Spec.TaxId.IN.check⟩
  | "IT" => some ⟨IT.goValid, Spec.TaxId.IT.format, Spec.TaxId.IT.check⟩
  | "MX" => some ⟨MX.goValid, Spec.TaxId.MX.format, Spec.TaxId.MX.check⟩
  | "NL" => some ⟨NL.goValid, Spec.TaxId.NL.format, Spec.TaxId.NL.check⟩
  | "PL" => some ⟨PL.goValid, Spec.TaxId.PL.format, Spec.TaxId.PL.check⟩
  | "PT" => some ⟨PT.goValid, Spec.TaxId.PT.format, Spec.TaxId.PT.check⟩
  | _ => none

def b (x : Bool) : String := if x then "1" else "0"

def handle (toks : List String) : String :=
  match toks with
  | ["v", cc, h] =>
    match regimeOf cc, unhexStr h with
    | some r, some str =>
      let s := str.toList
      s!"ok {b (accepts r.go s)} {b (accepts (fun s => r.format s && r.check s) s)} {b (r.format s)}"
    | none, _ => "bad-regime"
    | _, none => "undef"
  | ["n", cc, hc, h, hg] =>
    match regimeOf cc, unhexStr hc, unhexStr h, unhexStr hg with
    | some _, some country, some str, some gout =>
      let s := str.toList
      let dom := if cc == "MX" then Norm.inDomainMX s else Norm.inDomain s
      if !dom then "undef" else
      let (c', s') := Norm.normalize cc country.toList s (Generated.TaxId.normalizerRegistered.contains cc)
      let keeps := if cc == "FR" then Spec.TaxId.keepsDigitsSuffix s gout.toList else Spec.TaxId.keepsDigits s gout.toList
      s!"ok {hexStr (String.ofList c')} {hexStr (String.ofList s')} {b keeps}"
    | none, _, _, _ => "bad-regime"
    | _, _, _, _ => "undef"
  | _ => "bad-arity"

end Driver.C13
