/-
  Driver for C13.
    v <CC> <hex code>
        → ok <m> <s> <f>    m = model of Go validation (1 = accepted), s = national
                            specification (format ∧ check; empty code accepted),
                            f = national format alone
    n <CC> <hex country> <hex code> <hex Go output code>
        → ok <hex country'> <hex code'> <k>   model of Identity.Normalize and the
                            "keeps the identifying digits" oracle on Go's output
        → undef             code outside the model's character domain
    c <CC> <hex pattern>
        → ok 1 . .          the national SPECIFICATION accepts the pattern as it stands
        → ok 0 <singles> <pairs>   otherwise: the codes the specification accepts among the
                            pattern with one position replaced by a character of [0-9A-Z]
                            (singles) and the pattern with two adjacent positions replaced by
                            digits (pairs): comma separated hex, "." for none, at most 400
                            each.  This is how the harness obtains the control characters of
                            a chosen number part from the spec.
-/
import GoblVerif.Model.TaxId
import GoblVerif.Model.Normalize
import GoblVerif.Spec.C13
import GoblVerif.Generated.TaxIdFacts
import Driver.Proto

namespace Driver.C13
open GoblVerif GoblVerif.TaxId Driver

structure Regime where
  go : Str → Bool
  format : Str → Bool
  check : Str → Bool

def regimeOf (cc : String) : Option Regime :=
  match cc with
  | "AE" => some ⟨AE.goValid, Spec.TaxId.AE.format, Spec.TaxId.AE.check⟩
  | "AT" => some ⟨AT.goValid, Spec.TaxId.AT.format, Spec.TaxId.AT.check⟩
  | "BE" => some ⟨BE.goValid, Spec.TaxId.BE.format, Spec.TaxId.BE.check⟩
  | "BR" => some ⟨BR.goValid, Spec.TaxId.BR.format, Spec.TaxId.BR.check⟩
  | "CH" => some ⟨CH.goValid, Spec.TaxId.CH.format, Spec.TaxId.CH.check⟩
  | "CO" => some ⟨CO.goValid, Spec.TaxId.CO.format, Spec.TaxId.CO.check⟩
  | "DE" => some ⟨DE.goValid, Spec.TaxId.DE.format, Spec.TaxId.DE.check⟩
  | "ES" => some ⟨ES.goValid, Spec.TaxId.ES.format, Spec.TaxId.ES.check⟩
  | "FR" => some ⟨FR.goValid, Spec.TaxId.FR.format, Spec.TaxId.FR.check⟩
  | "GB" => some ⟨GB.goValid, Spec.TaxId.GB.format, Spec.TaxId.GB.check⟩
  | "EL" => some ⟨GR.goValid, Spec.TaxId.GR.format, Spec.TaxId.GR.check⟩
  | "IN" => some ⟨IN.goValid, Spec.TaxId.IN.format, Spec.TaxId.IN.check⟩
  | "IT" => some ⟨IT.goValid, Spec.TaxId.IT.format, Spec.TaxId.IT.check⟩
  | "MX" => some ⟨MX.goValid, Spec.TaxId.MX.format, Spec.TaxId.MX.check⟩
  | "NL" => some ⟨NL.goValid, Spec.TaxId.NL.format, Spec.TaxId.NL.check⟩
  | "PL" => some ⟨PL.goValid, Spec.TaxId.PL.format, Spec.TaxId.PL.check⟩
  | "PT" => some ⟨PT.goValid, Spec.TaxId.PT.format, Spec.TaxId.PT.check⟩
  | _ => none

def b (x : Bool) : String := if x then "1" else "0"

def alnum : List Char := "0123456789ABCDEFGHIJKLMNOPQRSTUVWXYZ".toList
def decDigits : List Char := "0123456789".toList

/-- the pattern with one position replaced by a character of `[0-9A-Z]`, accepted by `valid` -/
def singles (valid : Str → Bool) (s : Str) : List Str :=
  (List.range s.length).flatMap fun i => alnum.filterMap fun c =>
    let t := s.set i c
    if t != s && valid t then some t else none

/-- the pattern with two adjacent positions replaced by digits, both changed, accepted by `valid` -/
def pairs (valid : Str → Bool) (s : Str) : List Str :=
  (List.range (s.length - 1)).flatMap fun i => decDigits.flatMap fun a => decDigits.filterMap fun d =>
    let t := (s.set i a).set (i + 1) d
    if s[i]? != some a && s[i + 1]? != some d && valid t then some t else none

def hexList (l : List Str) : String :=
  if l.isEmpty then "." else ",".intercalate (l.map fun t => hexStr (String.ofList t))

def handle (toks : List String) : String :=
  match toks with
  | ["c", cc, h] =>
    match regimeOf cc, unhexStr h with
    | some r, some str =>
      let s := str.toList
      let valid := fun t => r.format t && r.check t
      -- a pattern the specification accepts as it stands is complete: nothing to search for
      if valid s then "ok 1 . ." else
      s!"ok 0 {hexList ((singles valid s).take 400)} {hexList ((pairs valid s).take 400)}"
    | none, _ => "bad-regime"
    | _, none => "undef"
  | ["v", cc, h] =>
    match regimeOf cc, unhexStr h with
    | some r, some str =>
      let s := str.toList
      s!"ok {b (accepts r.go s)} {b (accepts (fun s => r.format s && r.check s) s)} {b (r.format s)}"
    | none, _ => "bad-regime"
    | _, none => "undef"
  | ["n", cc, hc, h, hg] =>
    match regimeOf cc, unhexStr hc, unhexStr h, unhexStr hg with
    | some _, some country, some str, some gout =>
      let s := str.toList
      let dom := if cc == "MX" then Norm.inDomainMX s else Norm.inDomain s
      if !dom then "undef" else
      let (c', s') := Norm.normalize cc country.toList s (Generated.TaxId.normalizerRegistered.contains cc)
      let keeps := if cc == "FR" then Spec.TaxId.keepsDigitsSuffix s gout.toList else Spec.TaxId.keepsDigits s gout.toList
      s!"ok {hexStr (String.ofList c')} {hexStr (String.ofList s')} {b keeps}"
    | none, _, _, _ => "bad-regime"
    | _, _, _, _ => "undef"
  | _ => "bad-arity"

end Driver.C13
