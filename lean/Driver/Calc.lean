/-
  Token-stream codec for Calc documents and the canonical text of a
  calculation result (mirrored by harness/internal/calcproto).
-/
import GoblVerif.Model.Calc
import Driver.Proto

namespace Driver.Calc
open GoblVerif GoblVerif.Calc Driver

abbrev P (α : Type) := List String → Option (α × List String)

def pTok : P String
  | [] => none
  | t :: ts => some (t, ts)

def pNat : P Nat := fun ts => do
  let (t, ts) ← pTok ts
  let n ← t.toNat?
  pure (n, ts)

def parseAmount (t : String) : Option Amount :=
  match t.splitOn ":" with
  | [v, e] => do
    let v ← v.toInt?
    let e ← e.toNat?
    pure ⟨v, e⟩
  | _ => none

def pAmount : P Amount := fun ts => do
  let (t, ts) ← pTok ts
  let a ← parseAmount t
  pure (a, ts)

def pOptAmount : P (Option Amount) := fun ts => do
  let (t, ts) ← pTok ts
  if t == "-" then pure (none, ts) else
  let a ← parseAmount t
  pure (some a, ts)

def pOptPct : P (Option Pct) := fun ts => do
  let (a, ts) ← pOptAmount ts
  pure (a.map Pct.mk, ts)

def pStr : P String := fun ts => do
  let (t, ts) ← pTok ts
  let s ← unhexStr t
  pure (s, ts)

def pBool : P Bool := fun ts => do
  let (t, ts) ← pTok ts
  pure (t == "1", ts)

/-- parse `n` items -/
def pMany {α : Type} (p : P α) : Nat → P (List α)
  | 0, ts => some ([], ts)
  | n + 1, ts => do
    let (x, ts) ← p ts
    let (xs, ts) ← pMany p n ts
    pure (x :: xs, ts)

def pList {α : Type} (p : P α) : P (List α) := fun ts => do
  let (n, ts) ← pNat ts
  pMany p n ts

def pCombo : P Combo := fun ts => do
  let (cat, ts) ← pStr ts
  let (country, ts) ← pStr ts
  let (key, ts) ← pStr ts
  let (percent, ts) ← pOptPct ts
  let (surcharge, ts) ← pOptPct ts
  let (ext, ts) ← pStr ts
  let (retained, ts) ← pBool ts
  pure ({ cat, country, key, percent, surcharge, ext, retained }, ts)

def pLineAdj : P LineAdj := fun ts => do
  let (percent, ts) ← pOptPct ts
  let (base, ts) ← pOptAmount ts
  let (amount, ts) ← pAmount ts
  let (rate, ts) ← pOptAmount ts
  let (quantity, ts) ← pOptAmount ts
  pure ({ percent, base, amount, rate, quantity }, ts)

def pAlt : P (String × Amount) := fun ts => do
  let (c, ts) ← pStr ts
  let (a, ts) ← pAmount ts
  pure ((c, a), ts)

def pItem : P (Option Item) := fun ts => do
  let (t, ts) ← pTok ts
  if t == "N" then pure (none, ts) else
  let (price, ts) ← pOptAmount ts
  let (cur, ts) ← pStr ts
  let (sub, ts) ← pNat ts
  let (alts, ts) ← pList pAlt ts
  pure (some { price, cur, sub, alts }, ts)

def pSubLine : P SubLine := fun ts => do
  let (qty, ts) ← pAmount ts
  let (item, ts) ← pItem ts
  let (discounts, ts) ← pList pLineAdj ts
  let (charges, ts) ← pList pLineAdj ts
  pure ({ qty, item, discounts, charges }, ts)

def pLine : P Line := fun ts => do
  let (qty, ts) ← pAmount ts
  let (item, ts) ← pItem ts
  let (discounts, ts) ← pList pLineAdj ts
  let (charges, ts) ← pList pLineAdj ts
  let (breakdown, ts) ← pList pSubLine ts
  let (taxes, ts) ← pList pCombo ts
  pure ({ qty, item, discounts, charges, breakdown, taxes }, ts)

def pDocAdj : P DocAdj := fun ts => do
  let (percent, ts) ← pOptPct ts
  let (base, ts) ← pOptAmount ts
  let (amount, ts) ← pAmount ts
  let (taxes, ts) ← pList pCombo ts
  pure ({ percent, base, amount, taxes }, ts)

def pXRate : P XRate := fun ts => do
  let (f, ts) ← pStr ts
  let (t, ts) ← pStr ts
  let (toSub, ts) ← pNat ts
  let (amount, ts) ← pAmount ts
  pure ({ «from» := f, to := t, toSub, amount }, ts)

def pAdvance : P Advance := fun ts => do
  let (percent, ts) ← pOptPct ts
  let (amount, ts) ← pAmount ts
  pure ({ percent, amount }, ts)

def pDue : P Due := fun ts => do
  let (percent, ts) ← pOptPct ts
  let (amount, ts) ← pAmount ts
  pure ({ percent, amount }, ts)

def pRule : P Rule := fun ts => do
  let (t, ts) ← pTok ts
  match t with
  | "precise" => pure (.precise, ts)
  | "currency" => pure (.currency, ts)
  | _ => pure (.other, ts)

def pDoc : P Doc := fun ts => do
  let (cur, ts) ← pStr ts
  let (c, ts) ← pNat ts
  let (rule, ts) ← pRule ts
  let (inc, ts) ← pStr ts
  let (lines, ts) ← pList pLine ts
  let (discounts, ts) ← pList pDocAdj ts
  let (charges, ts) ← pList pDocAdj ts
  let (rates, ts) ← pList pXRate ts
  let (rounding, ts) ← pOptAmount ts
  let (hasPayment, ts) ← pBool ts
  let (advances, ts) ← pList pAdvance ts
  let (dues, ts) ← pList pDue ts
  pure ({ cur, c, rule, includes := if inc == "" then none else some inc, lines, discounts, charges, rates,
          rounding, hasPayment, advances, dues }, ts)

/-! ### printing -/

def sA (a : Amount) : String := s!"{a.value}:{a.exp}"
def sO (a : Option Amount) : String := match a with | some a => sA a | none => "-"
def sP (p : Option Pct) : String := match p with | some p => sA p.amount | none => "-"

def sAdjs (tag : String) (ds : List LineAdj) : List String :=
  ds.flatMap fun d => [tag, sO d.base, sA d.amount]

def sItemPrice (it : Option Item) : List String :=
  match it with
  | none => ["N"]
  | some it => ["I", hexStr it.cur, sO it.price, toString it.alts.length]

def sSub (sl : SubLine) : List String :=
  ["s"] ++ sItemPrice sl.item ++ [sO sl.sum, sO sl.total] ++ sAdjs "d" sl.discounts ++ sAdjs "c" sl.charges

def sLine (l : Line) : List String :=
  ["l"] ++ sItemPrice l.item ++ [sO l.sum, sO l.total] ++ sAdjs "d" l.discounts ++ sAdjs "c" l.charges
    ++ l.breakdown.flatMap sSub

def sRate (rt : RateTotal) : List String :=
  ["r", hexStr rt.key, hexStr rt.country, hexStr rt.ext, sA rt.base, sP rt.percent,
   (match rt.surcharge with | some (p, a) => s!"{sA p.amount}/{sA a}" | none => "-"), sA rt.amount]

def sCat (ct : CatTotal) : List String :=
  ["k", hexStr ct.code, (if ct.retained then "1" else "0"), sA ct.amount, sO ct.surcharge] ++ ct.rates.flatMap sRate

def sTotals (t : Option Totals) : List String :=
  match t with
  | none => ["T", "none"]
  | some t =>
    ["T", sA t.sum, sO t.discount, sO t.charge, sO t.taxIncluded, sA t.total, sA t.tax, sA t.totalWithTax,
     sO t.rounding, sA t.payable, sO t.advances, sO t.due] ++
    (match t.taxes with
     | none => ["X", "none"]
     | some x => ["X", sA x.sum] ++ x.cats.flatMap sCat)

def sOut (o : Out) : String :=
  " ".intercalate (
    o.lines.flatMap sLine ++
    o.discounts.flatMap (fun d => ["D", sA d.amount]) ++
    o.charges.flatMap (fun d => ["C", sA d.amount]) ++
    o.advances.flatMap (fun a => ["A", sA a.amount]) ++
    o.dues.flatMap (fun a => ["U", sA a.amount]) ++
    sTotals o.totals)

def sErr : CalcErr → String
  | .noExchangeRate => "err no-exchange-rate"
  | .retainedIncluded => "err retained-included"

def sResult (r : Except CalcErr Out) : String :=
  match r with
  | .ok o => "ok " ++ sOut o
  | .error e => sErr e

/-- a run of 19 or more digits: some value is (close to) outside int64 -/
def hasLongDigitRun (s : String) : Bool :=
  let rec go : List Char → Nat → Bool
    | [], n => n ≥ 19
    | c :: cs, n => if c.isDigit then go cs (n + 1) else (n ≥ 19 || go cs 0)
  go s.toList 0

/-- every `value` in a result stays inside int64 (the Go code would wrap otherwise) -/
def outText (d : Doc) : String × Bool :=
  let x := sResult (calculate exactOps d)
  let f := sResult (calculate floatOps d)
  (x, x == f && !hasLongDigitRun x)

end Driver.Calc
