/-
  Driver for C14: the error the command line prints (Model/Panics `cliPresent`
  = cli.WrapError) and its judgement by the specification (Spec/C14).

    present plain <msg>                          the error was a plain Go error with that text
    present encoding <msg>                       … one of encoding/json's refusals
    present lib <key> <fields 0|1> <msg>         … a *gobl.Error
    present structured <code> <key> <fields 0|1> <msg>   … a *cli.Error
        → ok <code> <key> <fields 0|1> <msg> <members ,-joined> <structured 0|1> <usage 0|1> <encoding 0|1>
    judge <code> <key> <fields 0|1> <msg>        an error object as observed
        → ok <structured 0|1> <usage 0|1> <encoding 0|1>
    members                                      → ok <allowed members ,-joined>
  strings are hex (Driver.Proto)
-/
import GoblVerif.Model.Panics
import GoblVerif.Generated.ErrorFacts
import Driver.Proto

namespace Driver.C14
open GoblVerif.Panics GoblVerif.Spec.C14 GoblVerif.Generated.Errors Driver

def b (x : Bool) : String := if x then "1" else "0"

def unb (s : String) : Option Bool := if s == "1" then some true else if s == "0" then some false else none

def verdicts (s : Shown) : String :=
  s!"{b (structured documentedKeys s)} {b (usageShape s)} {b (encodingShape s)}"

def showPresented (e : CliErrIn) : String :=
  let p := cliPresent e
  s!"ok {p.code} {hexStr p.key} {b p.fields} {hexStr p.message} {",".intercalate p.members} {verdicts p.shown}"

def handle (toks : List String) : String :=
  match toks with
  | ["present", "plain", m] =>
    match unhexStr m with
    | some m => showPresented (.plain m)
    | none => "bad-request"
  | ["present", "encoding", m] =>
    match unhexStr m with
    | some m => showPresented (.encoding m)
    | none => "bad-request"
  | ["present", "lib", k, f, m] =>
    match unhexStr k, unb f, unhexStr m with
    | some k, some f, some m => showPresented (.lib k f m)
    | _, _, _ => "bad-request"
  | ["present", "structured", c, k, f, m] =>
    match parseNat? c, unhexStr k, unb f, unhexStr m with
    | some c, some k, some f, some m => showPresented (.structured ⟨c, k, f, m⟩)
    | _, _, _, _ => "bad-request"
  | ["judge", c, k, f, m] =>
    match parseNat? c, unhexStr k, unb f, unhexStr m with
    | some c, some k, some f, some m => s!"ok {verdicts ⟨c, k, f, m⟩}"
    | _, _, _, _ => "bad-request"
  | ["members"] => s!"ok {",".intercalate allowedMembers}"
  | _ => "bad-request"

end Driver.C14
