/-
  Driver for C16: the model of Envelope.Correct / Replicate with the
  correction definitions regenerated from /repo.

  correct <regime|-> <nAddons> <addon>* <uuid> <type> <series> <code> <issueDate> <hasTotals 0|1>
          <optType> <optIssueDate|~> <optSeries> <optReason> <optCopyTax 0|1>
          <nExt> (<k> <v>)* <nStamps> (<provider> <value>)* <nHeadStamps> (<provider> <value>)*
          <today> <freshHead> <freshDoc> <isInvoice 0|1>
     (all strings hex; `-` empty)
  →  err <class> [<hex k>]
   | ok <headUuid> <nSigs> <nHeadStamps> <docUuid> <code> <type> <series> <issueDate>
        <preUuid> <preType> <preSeries> <preCode> <preIssueDate> <preReason> <preTax 0|1>
        <nExt> (<k> <v>)* <nStamps> (<provider> <value>)*

  replicate <uuid> <type> <series> <code> <issueDate> <valueDate|~> <opDate|~> <today> <freshHead> <freshDoc> <isInvoice 0|1>
  →  ok <headUuid> <nSigs> <nHeadStamps> <docUuid> <code> <issueDate> <valueDate|~> <opDate|~> <type> <series>

  def <regime|-> <nAddons> <addon>*   →  ok <types…> | <extensions…> | <reasonRequired> | <stamps…> | <copyTax>
-/
import GoblVerif.Model.Correct
import GoblVerif.Generated.CorrectionFacts
import Driver.Proto

namespace Driver.C16
open GoblVerif.Correct GoblVerif.Generated Driver

def rowToDef (r : Corrections.Row) : CorrectionDef :=
  { types := r.types, extensions := r.extensions, reasonRequired := r.reasonRequired, stamps := r.stamps, copyTax := r.copyTax }

def defFor (regime : String) (addons : List String) : CorrectionDef :=
  correctionDef ((Corrections.regimes.lookup regime).map rowToDef)
    (addons.map fun a => (Corrections.addons.lookup a).map rowToDef)

def takeStrs : Nat → List String → Option (List String × List String)
  | 0, rest => some ([], rest)
  | n + 1, a :: rest => do
    let s ← unhexStr a
    let (xs, r) ← takeStrs n rest
    pure (s :: xs, r)
  | _, [] => none

def takePairs : Nat → List String → Option (List (String × String) × List String)
  | 0, rest => some ([], rest)
  | n + 1, a :: b :: rest => do
    let x ← unhexStr a
    let y ← unhexStr b
    let (xs, r) ← takePairs n rest
    pure ((x, y) :: xs, r)
  | _, _ => none

def countedStrs : List String → Option (List String × List String)
  | n :: rest => do takeStrs (← parseNat? n) rest
  | [] => none

def countedPairs : List String → Option (List (String × String) × List String)
  | n :: rest => do takePairs (← parseNat? n) rest
  | [] => none

def optStr (s : String) : Option (Option String) :=
  if s == "~" then some none else (unhexStr s).map some

def hx (s : String) : String := hexStr s
def showOpt : Option String → String
  | none => "~"
  | some s => hx s

def showPairs (ps : List (String × String)) : String :=
  s!"{ps.length}" ++ String.join (ps.map fun (k, v) => s!" {hx k} {hx v}")

def showErr : Err → String
  | .notCorrectable => "err not-correctable"
  | .missingType => "err missing-type"
  | .noCode => "err no-code"
  | .missingStamp k => s!"err missing-stamp {hx k}"
  | .typeNotAllowed => "err type-not-allowed"
  | .reasonRequired => "err reason-required"
  | .calculation => "err calculation"

def bit (b : Bool) : String := if b then "1" else "0"

def handleCorrect (toks : List String) : Option String := do
  match toks with
  | regime :: rest =>
    let regime ← unhexStr regime
    let (addons, rest) ← countedStrs rest
    match rest with
    | u :: t :: s :: c :: d :: ht :: ot :: od :: os :: orr :: oc :: rest =>
      let u ← unhexStr u; let t ← unhexStr t; let s ← unhexStr s; let c ← unhexStr c; let d ← unhexStr d
      let ot ← unhexStr ot; let od ← optStr od; let os ← unhexStr os; let orr ← unhexStr orr
      let (ext, rest) ← countedPairs rest
      let (stamps, rest) ← countedPairs rest
      let (hstamps, rest) ← countedPairs rest
      match rest with
      | [today, fh, fd, isInv] =>
        let today ← unhexStr today; let fh ← unhexStr fh; let fd ← unhexStr fd
        let inv : Invoice Unit :=
          { uuid := u, type := t, series := s, code := c, issueDate := d, valueDate := none, operationDate := none,
            preceding := [], totalsTax := if ht == "1" then some "T" else none, content := () }
        let e : Envelope Unit :=
          { headUuid := "src-head", headStamps := hstamps.map fun (p, v) => ⟨p, v⟩,
            doc := if isInv == "1" then some inv else none, sigs := [] }
        let o : Options :=
          { type := ot, issueDate := od, series := os, stamps := stamps.map fun (p, v) => ⟨p, v⟩,
            reason := orr, ext := ext, copyTax := oc == "1" }
        let cd := defFor regime addons
        match e.correct some cd o today fh fd with
        | .error err => pure (showErr err)
        | .ok e' =>
          match e'.doc with
          | some doc =>
            match doc.preceding with
            | [pre] =>
              pure (s!"ok {hx e'.headUuid} {e'.sigs.length} {e'.headStamps.length} {hx doc.uuid} {hx doc.code} {hx doc.type} {hx doc.series} {hx doc.issueDate} " ++
                s!"{hx pre.uuid} {hx pre.type} {hx pre.series} {hx pre.code} {hx pre.issueDate} {hx pre.reason} {bit pre.tax.isSome} " ++
                showPairs pre.ext ++ " " ++ showPairs (pre.stamps.map fun st => (st.provider, st.value)))
            | _ => pure "bad-preceding"
          | none => pure "bad-doc"
      | _ => none
    | _ => none
  | [] => none

def handleReplicate (toks : List String) : Option String := do
  match toks with
  | [u, t, s, c, d, vd, od, today, fh, fd, isInv] =>
    let u ← unhexStr u; let t ← unhexStr t; let s ← unhexStr s; let c ← unhexStr c; let d ← unhexStr d
    let vd ← optStr vd; let od ← optStr od
    let today ← unhexStr today; let fh ← unhexStr fh; let fd ← unhexStr fd
    let inv : Invoice Unit :=
      { uuid := u, type := t, series := s, code := c, issueDate := d, valueDate := vd, operationDate := od,
        preceding := [], totalsTax := none, content := () }
    let e : Envelope Unit := { headUuid := "src-head", headStamps := [⟨"x", "y"⟩], doc := if isInv == "1" then some inv else none, sigs := ["s"] }
    match e.replicate some today fh fd with
    | .error err => pure (showErr err)
    | .ok e' =>
      match e'.doc with
      | some doc =>
        pure s!"ok {hx e'.headUuid} {e'.sigs.length} {e'.headStamps.length} {hx doc.uuid} {hx doc.code} {hx doc.issueDate} {showOpt doc.valueDate} {showOpt doc.operationDate} {hx doc.type} {hx doc.series}"
      | none => pure "bad-doc"
  | _ => none

def handleDef (toks : List String) : Option String := do
  match toks with
  | regime :: rest =>
    let regime ← unhexStr regime
    let (addons, _) ← countedStrs rest
    let cd := defFor regime addons
    pure s!"ok {" ".intercalate (cd.types.map hx)} | {" ".intercalate (cd.extensions.map hx)} | {bit cd.reasonRequired} | {" ".intercalate (cd.stamps.map hx)} | {bit cd.copyTax}"
  | [] => none

def handle (toks : List String) : String :=
  match toks with
  | "correct" :: rest => (handleCorrect rest).getD "bad-args"
  | "replicate" :: rest => (handleReplicate rest).getD "bad-args"
  | "def" :: rest => (handleDef rest).getD "bad-args"
  | _ => "bad-op"

end Driver.C16
