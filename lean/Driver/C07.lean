/-
  Driver for C07.  Requests:

    canon <J>            → `ok m <hex|!> s <hex|!>`   m = model of the Go code (C14n.canon),
                                                      s = README text of the content (Spec), `!` = refused
                           `undef` when a float leaf does not carry well-formed digits
    norm <J>             → `ok <J>`                   the content (null members dropped, sorted)
    read <eof> <hex text> <toks…>
                         → `ok <hex> dv <0|1> enc <0|1>` | `err dv … enc …` | `nil dv … enc …`
                           CanonicalJSON of the model on a text (its bytes) and the raw token
                           stream json.Decoder yields for it; dv = the stream is one the decoder
                           model allows, enc = checkEncoding accepts the text
    enc <hex text>       → `ok <0|1> <0|1>`           utf8Valid, surrogatesPaired of the bytes
    atom <hex text>      → `ok <J> <hex rest>` | `none`   Spec.decodeAtom

  J in prefix notation:  n | t | f | i <int> | d <0|1> <digits> <exp> | s <hex> |
                         a <count> J… | o <count> (<hexkey> J)…
  raw tokens:            { } [ ] and n t f | i <int> | d … | s <hex> | v (number beyond float64: tokenToValue fails)
-/
import GoblVerif.Model.C14n
import GoblVerif.Spec.C07
import Driver.Proto

namespace Driver.C07
open GoblVerif GoblVerif.C14n Driver

def strOfHex (h : String) : Option Str := (unhexStr h).map (fun s => s.toList.map Char.toNat)

def digitsOf (s : String) : Option (List Nat) :=
  s.toList.mapM (fun c => if '0' ≤ c && c ≤ '9' then some (c.toNat - 48) else none)

mutual
partial def parseJ : List String → Option (J × List String)
  | "n" :: r => some (.null, r)
  | "t" :: r => some (.bool true, r)
  | "f" :: r => some (.bool false, r)
  | "i" :: x :: r => (parseInt? x).map (fun i => (.int i, r))
  | "d" :: sg :: ds :: e :: r =>
    match digitsOf ds, parseInt? e with
    | some ds, some e => some (.flt (sg == "1") ds e, r)
    | _, _ => none
  | "s" :: h :: r => (strOfHex h).map (fun s => (.str s, r))
  | "a" :: n :: r =>
    match parseNat? n with
    | none => none
    | some n => (parseElems n r []).map (fun p => (.arr (JL.ofList p.1), p.2))
  | "o" :: n :: r =>
    match parseNat? n with
    | none => none
    | some n => (parseMembers n r []).map (fun p => (.obj (KL.ofList p.1), p.2))
  | _ => none
partial def parseElems (k : Nat) (r : List String) (acc : List J) : Option (List J × List String) :=
  if k == 0 then some (acc.reverse, r) else
  match parseJ r with
  | none => none
  | some (v, r') => parseElems (k - 1) r' (v :: acc)
partial def parseMembers (k : Nat) (r : List String) (acc : List (Str × J)) :
    Option (List (Str × J) × List String) :=
  if k == 0 then some (acc.reverse, r) else
  match r with
  | h :: r1 =>
    match strOfHex h, parseJ r1 with
    | some key, some (v, r') => parseMembers (k - 1) r' ((key, v) :: acc)
    | _, _ => none
  | [] => none
end

def utf8Hex (s : Str) : String := hexBytes (utf8s s)

def showDigits (ds : List Nat) : String := String.ofList (ds.map (fun d => Char.ofNat (48 + d)))

partial def showJ : J → String
  | .atom .null => "n"
  | .atom (.bool true) => "t"
  | .atom (.bool false) => "f"
  | .atom (.int i) => s!"i {i}"
  | .atom (.flt n ds e) => s!"d {if n then 1 else 0} {showDigits ds} {e}"
  | .atom (.str s) => s!"s {utf8Hex s}"
  | .arr xs => " ".intercalate (s!"a {xs.toList.length}" :: xs.toList.map showJ)
  | .obj kvs => " ".intercalate (s!"o {kvs.toList.length}" :: kvs.toList.map (fun p => s!"{utf8Hex p.1} {showJ p.2}"))

def parseToks : List String → Option (List RTok)
  | [] => some []
  | "{" :: r => (parseToks r).map (.lbrace :: ·)
  | "}" :: r => (parseToks r).map (.rbrace :: ·)
  | "[" :: r => (parseToks r).map (.lbrack :: ·)
  | "]" :: r => (parseToks r).map (.rbrack :: ·)
  | "n" :: r => (parseToks r).map (.lit .null :: ·)
  | "t" :: r => (parseToks r).map (.lit (.bool true) :: ·)
  | "f" :: r => (parseToks r).map (.lit (.bool false) :: ·)
  | "v" :: r => (parseToks r).map (.lit .over :: ·)
  | "i" :: x :: r =>
    match parseInt? x, parseToks r with
    | some i, some ts => some (.lit (.int i) :: ts)
    | _, _ => none
  | "d" :: sg :: ds :: e :: r =>
    match digitsOf ds, parseInt? e, parseToks r with
    | some ds, some e, some ts => some (.lit (.flt (sg == "1") ds e) :: ts)
    | _, _, _ => none
  | "s" :: h :: r =>
    match strOfHex h, parseToks r with
    | some s, some ts => some (.lit (.str s) :: ts)
    | _, _ => none
  | _ => none

def optHex (o : Option Bytes) : String :=
  match o with
  | none => "!"
  | some b => hexBytes b

/-- the specification side: README text of the content, UTF-8 encoded; refused iff a surviving string
    is not a sequence of Unicode scalar values (never the case for what the line protocol can carry) -/
def specCanon (v : J) : Option Bytes :=
  let n := Spec.C07.norm v
  if Spec.C07.cleanJ n then some (utf8s (Spec.C07.text n)) else none

def handle (toks : List String) : String :=
  match toks with
  | "canon" :: r =>
    match parseJ r with
    | some (v, []) =>
      if !v.wf then "undef" else
      s!"ok m {optHex (canon v)} s {optHex (specCanon v)}"
    | _ => "bad-args"
  | "norm" :: r =>
    match parseJ r with
    | some (v, []) => s!"ok {showJ (Spec.C07.norm v)}"
    | _ => "bad-args"
  | "read" :: e :: h :: r =>
    match unhexBytes h, parseToks r with
    | some raw, some ts =>
      let g := ts.map cook
      let dv := if decValid g then 1 else 0
      let enc := if checkEncoding raw then 1 else 0
      match canonText raw ts (e == "1") with
      | .ok cs => s!"ok {hexBytes (utf8s cs)} dv {dv} enc {enc}"
      | .err => s!"err dv {dv} enc {enc}"
      | .nilval => s!"nil dv {dv} enc {enc}"
    | _, _ => "bad-args"
  | ["enc", h] =>
    match unhexBytes h with
    | some raw => s!"ok {if utf8Valid raw then 1 else 0} {if surrogatesPaired 0 raw then 1 else 0}"
    | none => "bad-args"
  | ["atom", h] =>
    match unhexBytes h with
    | some bs =>
      match Spec.C07.decodeAtom bs with
      | some (a, rest) => s!"ok {showJ (.atom a)} {hexBytes rest}"
      | none => "none"
    | none => "bad-args"
  | _ => "bad-op"

end Driver.C07
