/-
  Parsing / rendering of envelope histories for the C09 and C10 drivers
  (core Lean only).  Strings are hex-encoded, "-" is the empty string.

  action tokens:
    ins <content> <calcOk> <valid> <needsCode> <hasCode> | calc | edit <c> | tcode <c>
    sign <k> | signbad | unsign | stamp <p> <v> | altstamp <v> | link <k> <u> | tag <t>
    meta <k> <v> | notes <s> | validate | verify <n> <k>* | rt <0|1|2>
    tuuid <u> | tdigval <v> | tdigalg <a> | tstampval <i> <v> | tdropstamp <i> | trawstamp <p> <v>
    tlinkurl <i> <u> | tdroplink <i> | trawlink <k> <u> | ttag <i> <t> | tdroptag <i> | tdropmeta <k>
    tsigs <n> (<signer> HEADER)*
  HEADER := <uuid> <0|1> [<alg> <val>] <ns> (<prv> <val>)* <nl> (<key> <url>)* <nt> <tag>* <nm> (<k> <v>)* <notes>
-/
import GoblVerif.Model.Envelope
import Driver.Proto

namespace Driver.EnvProto
open GoblVerif Driver

abbrev P (α : Type) := List String → Option (α × List String)

def pStr : P String
  | t :: ts => (unhexStr t).map (·, ts)
  | [] => none

def pNat : P Nat
  | t :: ts => t.toNat?.map (·, ts)
  | [] => none

def pBool : P Bool
  | "1" :: ts => some (true, ts)
  | "0" :: ts => some (false, ts)
  | _ => none

def pMany {α} (p : P α) : Nat → P (List α)
  | 0, ts => some ([], ts)
  | n + 1, ts => do
    let (x, ts) ← p ts
    let (xs, ts) ← pMany p n ts
    pure (x :: xs, ts)

def pCounted {α} (p : P α) : P (List α) := fun ts => do
  let (n, ts) ← pNat ts
  pMany p n ts

def pPair : P (String × String) := fun ts => do
  let (a, ts) ← pStr ts
  let (b, ts) ← pStr ts
  pure ((a, b), ts)

def pHeader : P Header := fun ts => do
  let (uuid, ts) ← pStr ts
  let (hasDig, ts) ← pBool ts
  let (dig, ts) ← (if hasDig then do
      let ((a, v), ts) ← pPair ts
      pure (some (⟨a, v⟩ : Digest), ts)
    else pure (none, ts) : Option (Option Digest × List String))
  let (stamps, ts) ← pCounted pPair ts
  let (links, ts) ← pCounted pPair ts
  let (tags, ts) ← pCounted pStr ts
  let (metas, ts) ← pCounted pPair ts
  let (notes, ts) ← pStr ts
  pure ({ uuid := uuid, dig := dig, stamps := stamps.map (fun p => ⟨p.1, p.2⟩),
          links := links.map (fun p => { key := p.1, url := p.2 }), tags := tags, metas := metas,
          notes := notes }, ts)

def pSig : P Sig := fun ts => do
  let (k, ts) ← pNat ts
  let (h, ts) ← pHeader ts
  pure (⟨k, h⟩, ts)

def pAction : P Action
  | "ins" :: ts => do
    let (c, ts) ← pNat ts
    let (a, ts) ← pBool ts
    let (b, ts) ← pBool ts
    let (n, ts) ← pBool ts
    let (h, ts) ← pBool ts
    pure (.op (.insert ⟨c, a, b, n, h⟩), ts)
  | "calc" :: ts => some (.op .calculate, ts)
  | "edit" :: ts => do let (c, ts) ← pNat ts; pure (.op (.editDoc c), ts)
  | "tcode" :: ts => do let (c, ts) ← pNat ts; pure (.op (.toggleCode c), ts)
  | "sign" :: ts => do let (k, ts) ← pNat ts; pure (.op (.sign k), ts)
  | "signbad" :: ts => some (.op .signBadKey, ts)
  | "unsign" :: ts => some (.op .unsign, ts)
  | "stamp" :: ts => do let ((p, v), ts) ← pPair ts; pure (.op (.addStamp p v), ts)
  | "altstamp" :: ts => do let (v, ts) ← pStr ts; pure (.op (.alterStamp v), ts)
  | "link" :: ts => do let ((k, u), ts) ← pPair ts; pure (.op (.addLink k u), ts)
  | "tag" :: ts => do let (t, ts) ← pStr ts; pure (.op (.addTag t), ts)
  | "meta" :: ts => do let ((k, v), ts) ← pPair ts; pure (.op (.setMeta k v), ts)
  | "notes" :: ts => do let (s, ts) ← pStr ts; pure (.op (.setNotes s), ts)
  | "validate" :: ts => some (.op .validate, ts)
  | "verify" :: ts => do let (ks, ts) ← pCounted pNat ts; pure (.op (.verify ks), ts)
  | "rt" :: ts => do
    let (n, ts) ← pNat ts
    pure (.op (.roundtrip (match n with | 0 => .none | 1 => .empty | _ => .null)), ts)
  | "tuuid" :: ts => do let (u, ts) ← pStr ts; pure (.tamper (.setUUID u), ts)
  | "tdigval" :: ts => do let (v, ts) ← pStr ts; pure (.tamper (.setDigVal v), ts)
  | "tdigalg" :: ts => do let (v, ts) ← pStr ts; pure (.tamper (.setDigAlg v), ts)
  | "tstampval" :: ts => do let (i, ts) ← pNat ts; let (v, ts) ← pStr ts; pure (.tamper (.setStampVal i v), ts)
  | "tdropstamp" :: ts => do let (i, ts) ← pNat ts; pure (.tamper (.dropStamp i), ts)
  | "trawstamp" :: ts => do let ((p, v), ts) ← pPair ts; pure (.tamper (.rawAddStamp p v), ts)
  | "tlinkurl" :: ts => do let (i, ts) ← pNat ts; let (v, ts) ← pStr ts; pure (.tamper (.setLinkURL i v), ts)
  | "tdroplink" :: ts => do let (i, ts) ← pNat ts; pure (.tamper (.dropLink i), ts)
  | "trawlink" :: ts => do let ((k, u), ts) ← pPair ts; pure (.tamper (.rawAddLink k u), ts)
  | "ttag" :: ts => do let (i, ts) ← pNat ts; let (v, ts) ← pStr ts; pure (.tamper (.setTag i v), ts)
  | "tdroptag" :: ts => do let (i, ts) ← pNat ts; pure (.tamper (.dropTag i), ts)
  | "tdropmeta" :: ts => do let (k, ts) ← pStr ts; pure (.tamper (.dropMeta k), ts)
  | "tsigs" :: ts => do let (ss, ts) ← pCounted pSig ts; pure (.tamper (.setSigs ss), ts)
  | _ => none

/-- parse actions until the tokens run out; `fuel` bounds the loop structurally -/
def pActions : Nat → List String → Option (List Action)
  | _, [] => some []
  | 0, _ => none
  | fuel + 1, ts => do
    let (a, ts) ← pAction ts
    let rest ← pActions fuel ts
    pure (a :: rest)

/-! rendering -/

def insertSorted (kv : String × String) : List (String × String) → List (String × String)
  | [] => [kv]
  | x :: xs => if kv.1 < x.1 then kv :: x :: xs else x :: insertSorted kv xs

def sortMeta (m : Meta) : Meta := m.foldl (fun acc kv => insertSorted kv acc) []

/-- canonical text of a header (meta sorted by key, like the harness does for the Go map) -/
def showHeader (h : Header) : String :=
  let dig := match h.dig with
    | some d => s!"1 {hexStr d.alg} {hexStr d.val}"
    | none => "0"
  let stamps := " ".intercalate (h.stamps.map fun s => s!"{hexStr s.prv} {hexStr s.val}")
  let links := " ".intercalate (h.links.map fun l => s!"{hexStr l.key} {hexStr l.url}")
  let tags := " ".intercalate (h.tags.map hexStr)
  let metas := " ".intercalate ((sortMeta h.metas).map fun kv => s!"{hexStr kv.1} {hexStr kv.2}")
  let parts := [hexStr h.uuid, dig, toString h.stamps.length, stamps, toString h.links.length, links,
    toString h.tags.length, tags, toString h.metas.length, metas, hexStr h.notes]
  " ".intercalate (parts.filter (· ≠ ""))

def showVerify : VerifyOut → String
  | .ok => "ok"
  | .unsigned => "unsigned"
  | .failed vs => "f:" ++ ",".intercalate (vs.map SigVerdict.str)

def showCli : CliOut → String
  | .ok => "ok"
  | .invalid o => "inv:" ++ o.str
  | .keyRequired => "keyreq"
  | .unsigned => "unsigned"
  | .keyMismatch => "keymismatch"
  | .headerMismatch => "headermismatch"

/-- the driver's digest function: content id `n` ↦ "c<n>" (injective) -/
def H (n : Nat) : String := "c" ++ toString n

end Driver.EnvProto
