/-
  Driver for C11.  Requests (tokens after the property tag):

    val <idhex> <json…>     validate the instance against the published schema with that `$id`
                            → `ok` | `reject <kw> <pathhex>` | `broken <whyhex>`
    pat <pathex> <strhex>   JSON-Schema pattern (search semantics) → `m 0|1` | `nocompile`
    fmt <name> <strhex>     format assertion → `m 0|1` | `unknown`
    amt <value> <exp>       text of Amount.String (model)     → `t <hex>`
    pct <value> <exp>       text of Percentage.String (model) → `t <hex>`
    date <y> <m> <d>        civil.Date text and validity      → `t <hex> v 0|1`
    uuid <hex of 16 bytes>  UUID text                          → `t <hex>`
    norm <hex>              cbc.NormalizeCode (model)          → `t <hex>`
    static                  the three per-file checks of Props/C11, evaluated on the compiled
                            data → `files <n> bad <k> <pathhex:check>…`

  JSON instances come in prefix notation: `n`, `t`, `f`, `d <mantissa> <exp10>`,
  `s <hex>`, `a <count> …`, `o <count> (<keyhex> <value>)…`.
-/
import GoblVerif.Model.Schema
import GoblVerif.Model.SchemaLeaves
import GoblVerif.Generated.Schemas
import Driver.Proto

namespace Driver.C11
open GoblVerif GoblVerif.Schema GoblVerif.Regex GoblVerif.Leaves Driver

mutual
def parseJ : Nat → List String → Option (JVal × List String)
  | 0, _ => none
  | f + 1, toks =>
    match toks with
    | "n" :: r => some (.null, r)
    | "t" :: r => some (.bool true, r)
    | "f" :: r => some (.bool false, r)
    | "d" :: m :: e :: r =>
      match parseInt? m, parseInt? e with
      | some m, some e => some (.num m e, r)
      | _, _ => none
    | "s" :: h :: r => (unhexStr h).map fun s => (.str (NStr.ofString s), r)
    | "a" :: n :: r => match parseNat? n with
      | some n => (parseArr f n r []).map fun (xs, r') => (.arr xs, r')
      | none => none
    | "o" :: n :: r => match parseNat? n with
      | some n => (parseObj f n r []).map fun (kvs, r') => (.obj kvs, r')
      | none => none
    | _ => none

def parseArr : Nat → Nat → List String → List JVal → Option (List JVal × List String)
  | 0, _, _, _ => none
  | _ + 1, 0, r, acc => some (acc.reverse, r)
  | f + 1, n + 1, r, acc =>
    match parseJ f r with
    | some (v, r') => parseArr f n r' (v :: acc)
    | none => none

def parseObj : Nat → Nat → List String → List (NStr × JVal) → Option (List (NStr × JVal) × List String)
  | 0, _, _, _ => none
  | _ + 1, 0, r, acc => some (acc.reverse, r)
  | f + 1, n + 1, r, acc =>
    match r with
    | k :: r1 =>
      match unhexStr k, parseJ f r1 with
      | some k, some (v, r') => parseObj f n r' ((NStr.ofString k, v) :: acc)
      | _, _ => none
    | [] => none
end

def registry : Registry := registryOf Generated.Schemas.files

def showRes : Res → String
  | .ok => "ok"
  | .reject kw path => s!"reject {kw.toString} {hexStr path.toString}"
  | .broken why => s!"broken {hexStr why.toString}"

def hexCodes (cs : List Nat) : String := hexStr (text cs)

def staticReport : String :=
  let reg := registry
  let bad := Generated.Schemas.files.flatMap fun f =>
    (if wellTyped walkFuel f.2 then [] else [hexStr (f.1.toString ++ ":keywords_well_typed")]) ++
    (if refsOk reg f.2 then [] else [hexStr (f.1.toString ++ ":refs_resolve")]) ++
    (if patternsOk f.2 then [] else [hexStr (f.1.toString ++ ":patterns_compile")]) ++
    (if formatsOk f.2 then [] else [hexStr (f.1.toString ++ ":formats_known")])
  s!"files {Generated.Schemas.files.length} bad {bad.length} {" ".intercalate bad}"

def handle (toks : List String) : String :=
  match toks with
  | "val" :: id :: rest =>
    match unhexStr id, parseJ (rest.length + 1) rest with
    | some id, some (v, []) => showRes (validateById registry (NStr.ofString id) v)
    | _, _ => "bad-args"
  | ["pat", p, s] =>
    match unhexStr p, unhexStr s with
    | some p, some s => match patternOk (NStr.ofString p) (NStr.ofString s) with
      | some b => s!"m {if b then 1 else 0}"
      | none => "nocompile"
    | _, _ => "bad-args"
  | ["fmt", name, s] =>
    match unhexStr s with
    | some s => match formatOk (NStr.ofString name) (NStr.ofString s) with
      | some b => s!"m {if b then 1 else 0}"
      | none => "unknown"
    | none => "bad-args"
  | ["amt", v, e] =>
    match parseInt? v, parseNat? e with
    | some v, some e => s!"t {hexCodes (amountCodes ⟨v, e⟩)}"
    | _, _ => "bad-args"
  | ["pct", v, e] =>
    match parseInt? v, parseNat? e with
    | some v, some e => s!"t {hexCodes (pctCodes ⟨⟨v, e⟩⟩)}"
    | _, _ => "bad-args"
  | ["date", y, m, d] =>
    match parseNat? y, parseNat? m, parseNat? d with
    | some y, some m, some d => s!"t {hexCodes (dateCodes y m d)} v {if dateValid y m d then 1 else 0}"
    | _, _, _ => "bad-args"
  | ["uuid", h] =>
    match unhexBytes h with
    | some bs => s!"t {hexCodes (uuidCodes bs)}"
    | none => "bad-args"
  | ["norm", h] =>
    match unhexStr h with
    | some s => s!"t {hexCodes (normalizeCode (codes s))}"
    | none => "bad-args"
  | ["static"] => staticReport
  | _ => "bad-arity"

end Driver.C11
