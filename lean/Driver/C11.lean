/-
  Driver for C11.  Requests (tokens after the property tag):

    val <idhex> <json…>     validate the instance against the published schema with that `$id`
                            → `ok` | `reject <kw> <pathhex>` | `broken <whyhex>`
    pat <pathex> <strhex>   JSON-Schema pattern (search semantics) → `m 0|1` | `nocompile`
    fmt <name> <strhex>     format assertion → `m 0|1` | `unknown`
    amt <value> <exp>       text of Amount.String (model)     → `t <hex>`
    pct <value> <exp>       text of Percentage.String (model) → `t <hex>`
    date <y> <m> <d>        civil.Date text and validity      → `t <hex> v 0|1`
    uuid <hex of 16 bytes>  UUID text                          → `t <hex>`
    norm <hex>              cbc.NormalizeCode (model)          → `t <hex>`
    vcode <hex>             cbc.Code.Validate / Required + Validate (models) → `v 0|1 0|1`
    vkey <hex>              cbc.Key.Validate (model)                    → `v 0|1`
    vid <hex>               identity code: generic rules / Mexican rule → `v 0|1 0|1`
    vext <n> (<keyhex> <valhex> <def>)…
                            tax.Extensions.Validate (model)             → `v 0|1`
    vtot <n> (<codehex> <m> (<keyhex> <countryhex> <k> (<keyhex> <valhex> <def>)…)…)…
                            (*tax.Total).Validate (model)               → `v 0|1`
                            <def> = `u` (key not defined) | `d <j> <codehex>… <p>` with the
                            definition's codes and p = `-` (no pattern) | `0` | `1` (what Go's
                            regexp says about this value: the pattern language of definitions
                            is not modelled)
    static                  the three per-file checks of Props/C11, evaluated on the compiled
                            data → `files <n> bad <k> <pathhex:check>…`

  JSON instances come in prefix notation: `n`, `t`, `f`, `d <mantissa> <exp10>`,
  `s <hex>`, `a <count> …`, `o <count> (<keyhex> <value>)…`.
-/
import GoblVerif.Model.Schema
import GoblVerif.Model.SchemaLeaves
import GoblVerif.Generated.Schemas
import GoblVerif.Generated.SchemaFacts
import Driver.Proto

namespace Driver.C11
open GoblVerif GoblVerif.Schema GoblVerif.Regex GoblVerif.Leaves Driver

mutual
def parseJ : Nat → List String → Option (JVal × List String)
  | 0, _ => none
  | f + 1, toks =>
    match toks with
    | "n" :: r => some (.null, r)
    | "t" :: r => some (.bool true, r)
    | "f" :: r => some (.bool false, r)
    | "d" :: m :: e :: r =>
      match parseInt? m, parseInt? e with
      | some m, some e => some (.num m e, r)
      | _, _ => none
    | "s" :: h :: r => (unhexStr h).map fun s => (.str (NStr.ofString s), r)
    | "a" :: n :: r => match parseNat? n with
      | some n => (parseArr f n r []).map fun (xs, r') => (.arr xs, r')
      | none => none
    | "o" :: n :: r => match parseNat? n with
      | some n => (parseObj f n r []).map fun (kvs, r') => (.obj kvs, r')
      | none => none
    | _ => none

def parseArr : Nat → Nat → List String → List JVal → Option (List JVal × List String)
  | 0, _, _, _ => none
  | _ + 1, 0, r, acc => some (acc.reverse, r)
  | f + 1, n + 1, r, acc =>
    match parseJ f r with
    | some (v, r') => parseArr f n r' (v :: acc)
    | none => none

def parseObj : Nat → Nat → List String → List (NStr × JVal) → Option (List (NStr × JVal) × List String)
  | 0, _, _, _ => none
  | _ + 1, 0, r, acc => some (acc.reverse, r)
  | f + 1, n + 1, r, acc =>
    match r with
    | k :: r1 =>
      match unhexStr k, parseJ f r1 with
      | some k, some (v, r') => parseObj f n r' ((NStr.ofString k, v) :: acc)
      | _, _ => none
    | [] => none
end

def registry : Registry := registryOf Generated.Schemas.files

def showRes : Res → String
  | .ok => "ok"
  | .reject kw path => s!"reject {kw.toString} {hexStr path.toString}"
  | .broken why => s!"broken {hexStr why.toString}"

def hexCodes (cs : List Nat) : String := hexStr (text cs)

def staticReport : String :=
  let reg := registry
  let bad := Generated.Schemas.files.flatMap fun f =>
    (if wellTyped walkFuel f.2 then [] else [hexStr (f.1.toString ++ ":keywords_well_typed")]) ++
    (if refsOk reg f.2 then [] else [hexStr (f.1.toString ++ ":refs_resolve")]) ++
    (if patternsOk f.2 then [] else [hexStr (f.1.toString ++ ":patterns_compile")]) ++
    (if formatsOk f.2 then [] else [hexStr (f.1.toString ++ ":formats_known")])
  s!"files {Generated.Schemas.files.length} bad {bad.length} {" ".intercalate bad}"

/-! the validator models: argument parsing -/

def b01 (b : Bool) : String := if b then "1" else "0"

def hexCodes? (h : String) : Option (List Nat) := (unhexStr h).map codes

def parseCodesN : Nat → List String → List (List Nat) → Option (List (List Nat) × List String)
  | 0, r, acc => some (acc.reverse, r)
  | n + 1, h :: r, acc => match hexCodes? h with
    | some c => parseCodesN n r (c :: acc)
    | none => none
  | _ + 1, [], _ => none

/-- `<def>`: `u` | `d <j> <codehex>… <p>` -/
def parseDef : List String → Option (Option ExtKeyDef × List String)
  | "u" :: r => some (none, r)
  | "d" :: j :: r =>
    match parseNat? j with
    | none => none
    | some j => match parseCodesN j r [] with
      | some (cs, "-" :: r') => some (some ⟨cs, none⟩, r')
      | some (cs, "0" :: r') => some (some ⟨cs, some fun _ => false⟩, r')
      | some (cs, "1" :: r') => some (some ⟨cs, some fun _ => true⟩, r')
      | _ => none
  | _ => none

/-- extension members with the definition of each key: (key, value, definition) -/
def parseExt : Nat → List String → List (List Nat × List Nat × Option ExtKeyDef) →
    Option (List (List Nat × List Nat × Option ExtKeyDef) × List String)
  | 0, r, acc => some (acc.reverse, r)
  | n + 1, k :: v :: r, acc =>
    match hexCodes? k, hexCodes? v, parseDef r with
    | some k, some v, some (d, r') => parseExt n r' ((k, v, d) :: acc)
    | _, _, _ => none
  | _ + 1, _, _ => none

/-- `Extensions.Validate` with the definitions attached to the members (a Go map has each key once) -/
def extModel (ms : List (List Nat × List Nat × Option ExtKeyDef)) : Bool :=
  ms.all (fun m => keyValidate m.1) && ms.all (fun m => extValueValidate m.2.2 m.2.1)

structure RateIn where
  key : List Nat
  country : List Nat
  ext : List (List Nat × List Nat × Option ExtKeyDef)

def parseRates : Nat → List String → List RateIn → Option (List RateIn × List String)
  | 0, r, acc => some (acc.reverse, r)
  | n + 1, k :: c :: m :: r, acc =>
    match hexCodes? k, hexCodes? c, parseNat? m with
    | some k, some c, some m => match parseExt m r [] with
      | some (ext, r') => parseRates n r' (⟨k, c, ext⟩ :: acc)
      | none => none
    | _, _, _ => none
  | _ + 1, _, _ => none

def parseCats : Nat → List String → List (List Nat × List RateIn) → Option (List (List Nat × List RateIn) × List String)
  | 0, r, acc => some (acc.reverse, r)
  | n + 1, c :: m :: r, acc =>
    match hexCodes? c, parseNat? m with
    | some c, some m => match parseRates m r [] with
      | some (rates, r') => parseCats n r' ((c, rates) :: acc)
      | none => none
    | _, _ => none
  | _ + 1, _, _ => none

def taxCountries : List (List Nat) := Generated.SchemaFacts.goTaxCountries.map NStr.toCodes

/-- `(*tax.Total).Validate`: the definitions travel with the members, so the lookup function of
    `Leaves.totalValidate` is instantiated per rate -/
def totalModel (cats : List (List Nat × List RateIn)) : Bool :=
  cats.all fun ct =>
    requiredCode ct.1 && !ct.2.isEmpty &&
    ct.2.all fun rt => keyValidate rt.key && taxCountryValidate taxCountries rt.country && extModel rt.ext

def handle (toks : List String) : String :=
  match toks with
  | "val" :: id :: rest =>
    match unhexStr id, parseJ (rest.length + 1) rest with
    | some id, some (v, []) => showRes (validateById registry (NStr.ofString id) v)
    | _, _ => "bad-args"
  | ["pat", p, s] =>
    match unhexStr p, unhexStr s with
    | some p, some s => match patternOk (NStr.ofString p) (NStr.ofString s) with
      | some b => s!"m {if b then 1 else 0}"
      | none => "nocompile"
    | _, _ => "bad-args"
  | ["fmt", name, s] =>
    match unhexStr s with
    | some s => match formatOk (NStr.ofString name) (NStr.ofString s) with
      | some b => s!"m {if b then 1 else 0}"
      | none => "unknown"
    | none => "bad-args"
  | ["amt", v, e] =>
    match parseInt? v, parseNat? e with
    | some v, some e => s!"t {hexCodes (amountCodes ⟨v, e⟩)}"
    | _, _ => "bad-args"
  | ["pct", v, e] =>
    match parseInt? v, parseNat? e with
    | some v, some e => s!"t {hexCodes (pctCodes ⟨⟨v, e⟩⟩)}"
    | _, _ => "bad-args"
  | ["date", y, m, d] =>
    match parseNat? y, parseNat? m, parseNat? d with
    | some y, some m, some d => s!"t {hexCodes (dateCodes y m d)} v {if dateValid y m d then 1 else 0}"
    | _, _, _ => "bad-args"
  | ["uuid", h] =>
    match unhexBytes h with
    | some bs => s!"t {hexCodes (uuidCodes bs)}"
    | none => "bad-args"
  | ["norm", h] =>
    match unhexStr h with
    | some s => s!"t {hexCodes (normalizeCode (codes s))}"
    | none => "bad-args"
  | ["vcode", h] =>
    match hexCodes? h with
    | some s => s!"v {b01 (codeValidate s)} {b01 (requiredCode s)}"
    | none => "bad-args"
  | ["vkey", h] =>
    match hexCodes? h with
    | some s => s!"v {b01 (keyValidate s)}"
    | none => "bad-args"
  | ["vid", h] =>
    match hexCodes? h with
    | some s => s!"v {b01 (identityCodeGeneric s)} {b01 (mxNational s)}"
    | none => "bad-args"
  | "vext" :: n :: rest =>
    match parseNat? n with
    | some n => match parseExt n rest [] with
      | some (ms, []) => s!"v {b01 (extModel ms)}"
      | _ => "bad-args"
    | none => "bad-args"
  | "vtot" :: n :: rest =>
    match parseNat? n with
    | some n => match parseCats n rest [] with
      | some (cats, []) => s!"v {b01 (totalModel cats)}"
      | _ => "bad-args"
    | none => "bad-args"
  | ["static"] => staticReport
  | _ => "bad-arity"

end Driver.C11
