/-
  Driver for the calculation family (C01, C02, C03, C04, C17 share it):
  `calc <doc tokens>` → `<agree 0|1> <canonical result>` where the result is the
  exact-ops model output and `agree` says whether the float-ops model gives
  the same text (0 = outside the magnitude domain of C05: skipped by the
  harness).
-/
import Driver.Calc
import GoblVerif.Spec.C01

namespace Driver.C01
open GoblVerif GoblVerif.Calc Driver Driver.Calc

def handle (toks : List String) : String :=
  match toks with
  | "calc" :: rest =>
    match pDoc rest with
    | some (d, []) =>
      let (x, agree) := outText d
      s!"{if agree then 1 else 0} {x}"
    | some (_, _) => "bad-trailing"
    | none => "bad-doc"
  | "exactq" :: rest =>
    match pDoc rest with
    | some (d, []) =>
      let q := GoblVerif.Spec.C01.exactQ d
      let r (x : Rat) : String := s!"{x.num}/{x.den}"
      s!"ok {r q.sum} {r q.discount} {r q.charge} {r q.taxIncluded} {r q.total} {r q.tax} {r q.totalWithTax} {r q.payable} {r q.advances} {r q.due}"
    | some (_, _) => "bad-trailing"
    | none => "bad-doc"
  | "class" :: rest =>
    -- is the document in the class of Props.C01.calc_eq_spec, and its largest weight (Spec/C01.lean)
    match pDoc rest with
    | some (d, []) =>
      -- 1: class of calc_eq_spec (no included tax); 2: class of calc_eq_spec_included only
      -- (inDocI, weight docWeightI: prices including one tax category)
      -- 4th field: the tight weight docWeightQ (a rational, decided_class_bound_tight) when inDocI
      let tight : String :=
        if GoblVerif.Calc.Err.inDocI d then
          let q := GoblVerif.Calc.Err.docWeightQ d
          s!"{q.num}/{q.den}"
        else "-"
      if GoblVerif.Calc.Err.inDocC d then s!"ok 1 {GoblVerif.Calc.Err.docWeight d} {tight}"
      else if GoblVerif.Calc.Err.inDocI d then s!"ok 2 {GoblVerif.Calc.Err.docWeightI d} {tight}"
      else "ok 0 0 -"
    | some (_, _) => "bad-trailing"
    | none => "bad-doc"
  | "taxrows" :: rest =>
    -- the exact values and weights of Props.C01.tax_rows_decided for the rows of the tax summary:
    -- per category `k <hex code> <first with that code 0|1> <exact amount> <exact surcharge> <weight> <#groups>`
    -- followed per rate group by `g <exact base> <Wb>`
    match pDoc rest with
    | some (d, []) =>
      if !GoblVerif.Calc.Err.inDocI d then "ok 0" else
      match calculate exactOps d with
      | .ok out =>
        match out.totals with
        | some t =>
          match t.taxes with
          | some tx =>
            let r (x : Rat) : String := s!"{x.num}/{x.den}"
            let cats := tx.cats.map fun ct =>
              let first := tx.cats.find? (fun x => x.code == ct.code) == some ct
              let W := ct.rates.length + GoblVerif.Calc.Err.rowsWL (GoblVerif.Calc.Err.kN (some ct.code)) d.includes d
              let groups := ct.rates.map fun rt =>
                let key := GoblVerif.Spec.C02.keyOfRate rt
                let Wb := GoblVerif.Calc.Err.rowsWL (GoblVerif.Calc.Err.gN ct.code key) d.includes d
                s!" g {r (GoblVerif.Spec.C01.groupBaseQ d ct.code key)} {Wb}"
              s!" k {hexStr ct.code} {if first then 1 else 0} {r (GoblVerif.Spec.C01.catAmountQ d ct.code)} {r (GoblVerif.Spec.C01.catSurchargeQ d ct.code)} {W} {ct.rates.length}" ++ String.join groups
            s!"ok 1 {tx.cats.length}" ++ String.join cats
          | none => "ok 0"
        | none => "ok 0"
      | .error _ => "ok 0"
    | some (_, _) => "bad-trailing"
    | none => "bad-doc"
  | _ => "bad-op"

end Driver.C01
