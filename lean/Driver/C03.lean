/-
  Driver for C03: `readd <c> <encoded output>` evaluates the executable oracle
  `Spec.C03.readdOk` (the statement of C03, proved of the model by
  `Props.C03.currency_rule_readds`) on a calculated document as the real code
  presents it.  Answer: `1`, or `0 <failing clauses>`.
-/
import Driver.CalcOut
import GoblVerif.Spec.C03

namespace Driver.C03
open GoblVerif GoblVerif.Calc GoblVerif.Spec.C03 Driver Driver.Calc Driver.CalcOut

/-- which clauses of `readdOk` fail (diagnostics only; the verdict is `readdOk`) -/
def explain (c : Nat) (out : Out) : List String :=
  let ls := (out.lines.zipIdx.filter (fun (l, _) => !lineOk c l)).map (fun (_, i) => s!"line{i}")
  let ts := match out.totals with
    | none => []
    | some t =>
      (if decide (t.sum.toRat = qsum (out.lines.filterMap (·.total))) then [] else ["sum"]) ++
      (if rowsSumOk t.discount (out.discounts.map (·.amount)) then [] else ["discount"]) ++
      (if rowsSumOk t.charge (out.charges.map (·.amount)) then [] else ["charge"]) ++
      (if decide (t.total.toRat = t.sum.toRat - q0 t.discount + q0 t.charge - q0 t.taxIncluded) then [] else ["total"]) ++
      (if taxesOk c t then [] else ["taxes"]) ++
      (if decide (t.totalWithTax.toRat = t.total.toRat + t.tax.toRat) then [] else ["total_with_tax"]) ++
      (if decide (t.payable.toRat = t.totalWithTax.toRat + q0 t.rounding) then [] else ["payable"]) ++
      (if rowsSumOk t.advances (out.advances.map (·.amount)) then [] else ["advances"]) ++
      (if (match t.due with
           | some x => decide (x.toRat = t.payable.toRat - q0 t.advances)
           | none => t.advances.isNone) then [] else ["due"]) ++
      (if out.advances.all (advanceOk c t.totalWithTax) then [] else ["advance-rows"]) ++
      (if out.dues.all (dueOk c t.payable) then [] else ["due-dates"])
  let r := ls ++ ts
  if r.isEmpty then ["decimals"] else r

def handle (toks : List String) : String :=
  match toks with
  | "readd" :: cs :: rest =>
    match cs.toNat?, pOut rest with
    | some c, some (out, []) =>
      if readdOk c out then "1" else "0 " ++ " ".intercalate (explain c out)
    | _, some (_, _) => "bad-trailing"
    | _, none => "bad-out"
  | _ => "bad-op"

end Driver.C03
