/-
  Driver for C15: the trace acceptor `Bulk.validTrace` on observed bulk
  response streams.

  request:  trace <cap> <tail: eof | bad> <tailIdHex> <n> (<reqIdHex> <payloadHex>){n}
                  <m> (<reqIdHex> <seq> <payloadHex | ~> <final 0|1> <err 0|1>){m}
            (payload = the harness's canonical digest of the payload-or-error;
             `~` = no payload; the expected one is that of the standalone operation)
            itrace <cap> <ending: eof | cut | readerr> <k> (<o | b> <reqIdHex> <payloadHex | ->){k}
                   <m> (…observed responses as above…){m}
            the RAW input (Model/BulkInput.lean): every value of the stream in order — `o` a
            complete request, `b` a value the decode fails on with the request id it leaves —
            also the values after the first failure, and how the bytes end; the driver runs
            `Bulk.parse` itself, so the number of complete requests and the tail are the model's
  response: ok accept | ok reject <first reason>    (reasons are diagnostics only;
            the verdict is `validTrace`, proved in Props/C15.lean to accept exactly
            the traces of the dispatcher model)
-/
import GoblVerif.Model.Bulk
import GoblVerif.Model.BulkInput
import Driver.Proto

namespace Driver.C15
open GoblVerif.Bulk Driver

abbrev R := Resp String

def parseReqs : Nat → List String → Option (List (Req String) × List String)
  | 0, rest => some ([], rest)
  | n + 1, a :: b :: rest => do
    let id ← unhexStr a
    let p ← unhexStr b
    let (rs, rest') ← parseReqs n rest
    pure (⟨id, p⟩ :: rs, rest')
  | _, _ => none

def parseBool : String → Option Bool
  | "0" => some false
  | "1" => some true
  | _ => none

def parseResps : Nat → List String → Option (List R × List String)
  | 0, rest => some ([], rest)
  | n + 1, a :: s :: p :: f :: e :: rest => do
    let id ← unhexStr a
    let seq ← parseNat? s
    let pl ← if p == "~" then some none else (unhexStr p).map some
    let fin ← parseBool f
    let err ← parseBool e
    let (rs, rest') ← parseResps n rest
    pure (⟨id, seq, pl, fin, err⟩ :: rs, rest')
  | _, _ => none

def parseItems : Nat → List String → Option (List (Item String) × List String)
  | 0, rest => some ([], rest)
  | n + 1, k :: a :: b :: rest => do
    let id ← unhexStr a
    let (is, rest') ← parseItems n rest
    if k == "o" then
      let p ← unhexStr b
      pure (.ok ⟨id, p⟩ :: is, rest')
    else if k == "b" then pure (.broken id :: is, rest')
    else none
  | _, _ => none

def parseEnding : String → Option Ending
  | "eof" => some .eof
  | "cut" => some .cut
  | "readerr" => some .readError
  | _ => none

/-- diagnostics for a rejected trace (not part of the verdict) -/
def reason (c : Cfg String String) (obs : List R) : String :=
  let n := c.reqs.length
  let finals := obs.filter (·.isFinal)
  let body := obs.filter (fun r => !r.isFinal)
  if finals.length == 0 then "no-final-marker"
  else if finals.length > 1 then "several-final-markers"
  else if (obs.getLast?.map (·.isFinal)) != some true then "final-marker-not-last"
  else if finals.any (fun r => r.seq != n + 1) then s!"final-seq-not-n+1"
  else if finals.any (fun r => r != finalResp c) then "final-marker-members"
  else if body.any (fun r => r.seq == 0 || r.seq > n) then "seq-out-of-range"
  else if (List.range n).any (fun i => (body.filter (·.seq == i + 1)).length > 1) then "duplicate-reply"
  else if (List.range n).any (fun i => (body.filter (·.seq == i + 1)).length == 0) then "missing-reply"
  else if body.any (fun r => (expected c)[r.seq - 1]?.map (·.reqId) != some r.reqId) then "req-id-not-own"
  else if body.any (fun r => (expected c)[r.seq - 1]?.map (·.payload) != some r.payload) then "payload-differs-from-standalone"
  else "other"

def handle (toks : List String) : String :=
  match toks with
  | "trace" :: cap :: tail :: tid :: n :: rest =>
    match parseNat? cap, unhexStr tid, parseNat? n with
    | some cap, some tid, some n =>
      match parseReqs n rest with
      | some (reqs, m :: rest') =>
        match parseNat? m with
        | some m =>
          match parseResps m rest' with
          | some (obs, []) =>
            let t : Option Tail := if tail == "eof" then some .eof else if tail == "bad" then some (.bad tid) else none
            match t with
            | some t =>
              let c : Cfg String String := { reqs := reqs, tail := t, f := fun r => r.body, cap := cap }
              if validTrace c obs then "ok accept" else s!"ok reject {reason c obs}"
            | none => "bad-tail"
          | _ => "bad-resps"
        | none => "bad-m"
      | _ => "bad-reqs"
    | _, _, _ => "bad-args"
  | "itrace" :: cap :: ending :: k :: rest =>
    match parseNat? cap, parseEnding ending, parseNat? k with
    | some cap, some e, some k =>
      match parseItems k rest with
      | some (items, m :: rest') =>
        match parseNat? m with
        | some m =>
          match parseResps m rest' with
          | some (obs, []) =>
            let c : Cfg String String := Cfg.ofInput items e (fun r => r.body) cap
            if validTrace c obs then "ok accept" else s!"ok reject {reason c obs}"
          | _ => "bad-resps"
        | none => "bad-m"
      | _ => "bad-items"
    | _, _, _ => "bad-args"
  | _ => "bad-op"

end Driver.C15
