/-
  gobl_model: line-protocol driver for the executable models.
  One request per line: `<case-id> <PROP> <tokens…>`; one response per line:
  `<case-id> <response>`.
-/
import Driver.C05
import Driver.C01
import Driver.C12
import Driver.C18
import Driver.C19
import Driver.C07
import Driver.C08
import Driver.C06
import Driver.C20
import Driver.C09
import Driver.C10
import Driver.C13
import Driver.C15
import Driver.C16
import Driver.C11
import Driver.C14
import Driver.C04
import Driver.C03
import Driver.C02
import Driver.C17

open Driver

def dispatch (prop : String) (toks : List String) : String :=
  match prop with
  | "C05" => Driver.C05.handle toks
  | "C01" => Driver.C01.handle toks
  | "C12" => Driver.C12.handle toks
  | "C18" => Driver.C18.handle toks
  | "C19" => Driver.C19.handle toks
  | "C07" => Driver.C07.handle toks
  | "C08" => Driver.C08.handle toks
  | "C06" => Driver.C06.handle toks
  | "C20" => Driver.C20.handle toks
  | "C09" => Driver.C09.handle toks
  | "C10" => Driver.C10.handle toks
  | "C13" => Driver.C13.handle toks
  | "C15" => Driver.C15.handle toks
  | "C16" => Driver.C16.handle toks
  | "C11" => Driver.C11.handle toks
  | "C14" => Driver.C14.handle toks
  | "C04" => Driver.C04.handle toks
  | "C03" => Driver.C03.handle toks
  | "C02" => Driver.C02.handle toks
  | "C17" => Driver.C17.handle toks
  | _ => "bad-prop"

partial def loop (hin hout : IO.FS.Stream) : IO Unit := do
  let line ← hin.getLine
  if line.isEmpty then return ()
  let toks := (line.trimAscii.toString.splitOn " ").filter (· ≠ "")
  match toks with
  | id :: prop :: rest => hout.putStrLn s!"{id} {dispatch prop rest}"
  | _ => hout.putStrLn "? bad-line"
  loop hin hout

def main : IO Unit := do
  let hin ← IO.getStdin
  let hout ← IO.getStdout
  loop hin hout
  hout.flush
