/-
  Driver for C02: `summary <document tokens> <encoded output>` evaluates the
  executable oracle `Spec.C02.summaryOk` (the statement of C02, proved of the
  model by `Props.C02.tax_summary_spec`) on the input document and the
  calculated document as the real code presents it.  Answer: `1`, or
  `0 <failing clauses>`.
-/
import Driver.CalcOut
import GoblVerif.Spec.C02

namespace Driver.C02
open GoblVerif GoblVerif.Calc GoblVerif.Spec.C02 Driver Driver.Calc Driver.CalcOut

/-- which clauses of `summaryOk` fail (diagnostics only; the verdict is `summaryOk`) -/
def explain (d : Doc) (out : Out) : List String :=
  match pre exactOps d, out.totals with
  | .error _, _ => ["model-refuses-the-document"]
  | .ok p, none => if p.rows.isEmpty then [] else ["no-totals"]
  | .ok p, some t =>
    let cs := contributions d.rule d.c d.includes p.rows
    let cats := catsOf t
    (if partitionOk cs cats then [] else ["partition"]) ++
    (cats.filter (fun ct => !catOk d.c cs ct)).map (fun ct => "category:" ++ ct.code) ++
    (if taxSumOk d.c ((cats.map (catTaxQ d.c cs)).sum : Rat) t then [] else ["tax-sum"]) ++
    (if includedOk d.includes cats t then [] else ["tax_included"]) ++
    (if onlyIncludedOk d.c d.includes cats p.total2 t then [] else ["included-only-total_with_tax"])

def handle (toks : List String) : String :=
  match toks with
  | "summary" :: rest =>
    match pDoc rest with
    | some (d, rest2) =>
      match pOut rest2 with
      | some (out, []) =>
        if summaryOk d out then "1" else "0 " ++ " ".intercalate (explain d out)
      | some (_, _) => "bad-trailing"
      | none => "bad-out"
    | none => "bad-doc"
  | _ => "bad-op"

end Driver.C02
