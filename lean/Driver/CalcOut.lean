/-
  Token-stream codec for a *calculated* document (`Calc.Out`) as the real
  `Invoice.Calculate` presents it (mirrored by
  harness/internal/calcproto/outenc.go `EncodeOut`): the input of the executable
  property oracles `Spec.C03.readdOk` and `Spec.C02.summaryOk` when they judge
  the Go output.

    out    := <n> line* <n> amount* <n> amount* <n> (optpct amount)* <n> (optpct amount)* totals
    line   := item optamount optamount <n> amount* <n> amount* <n> sub*
    sub    := optamount optamount <n> amount* <n> amount*
    item   := N | I optamount
    totals := - | T sum optdisc optcharge opttaxincl total tax twt optrounding payable optadv optdue taxes
    taxes  := - | X sum <n> cat*
    cat    := hexcode 0|1 amount optsurcharge <n> rate*
    rate   := hexkey hexcountry hexext base optpct (- | pct amount) amount
-/
import Driver.Calc

namespace Driver.CalcOut
open GoblVerif GoblVerif.Calc Driver Driver.Calc

def pAdjAmount : P LineAdj := fun ts => do
  let (amount, ts) ← pAmount ts
  pure ({ percent := none, base := none, amount, rate := none, quantity := none }, ts)

def pOutItem : P (Option Item) := fun ts => do
  let (t, ts) ← pTok ts
  if t == "N" then pure (none, ts) else
  let (price, ts) ← pOptAmount ts
  pure (some { price, cur := "", sub := 0, alts := [] }, ts)

def pOutSub : P SubLine := fun ts => do
  let (sum, ts) ← pOptAmount ts
  let (total, ts) ← pOptAmount ts
  let (discounts, ts) ← pList pAdjAmount ts
  let (charges, ts) ← pList pAdjAmount ts
  pure ({ qty := ⟨0, 0⟩, item := none, discounts, charges, sum, total }, ts)

def pOutLine : P Line := fun ts => do
  let (item, ts) ← pOutItem ts
  let (sum, ts) ← pOptAmount ts
  let (total, ts) ← pOptAmount ts
  let (discounts, ts) ← pList pAdjAmount ts
  let (charges, ts) ← pList pAdjAmount ts
  let (breakdown, ts) ← pList pOutSub ts
  pure ({ qty := ⟨0, 0⟩, item, discounts, charges, breakdown, taxes := [], sum, total }, ts)

def pOutDocAdj : P DocAdj := fun ts => do
  let (amount, ts) ← pAmount ts
  pure ({ percent := none, base := none, amount, taxes := [] }, ts)

def pOutRate : P RateTotal := fun ts => do
  let (key, ts) ← pStr ts
  let (country, ts) ← pStr ts
  let (ext, ts) ← pStr ts
  let (base, ts) ← pAmount ts
  let (percent, ts) ← pOptPct ts
  let (sp, ts) ← pOptPct ts
  let (surcharge, ts) ← (match sp with
    | none => some (none, ts)
    | some sp => do
      let (sa, ts) ← pAmount ts
      pure (some (sp, sa), ts))
  let (amount, ts) ← pAmount ts
  pure ({ key, country, ext, base, percent, surcharge, amount }, ts)

def pOutCat : P CatTotal := fun ts => do
  let (code, ts) ← pStr ts
  let (retained, ts) ← pBool ts
  let (amount, ts) ← pAmount ts
  let (surcharge, ts) ← pOptAmount ts
  let (rates, ts) ← pList pOutRate ts
  pure ({ code, retained, rates, amount, surcharge, precise := amount }, ts)

def pOutTaxes : P (Option TaxTotal) := fun ts => do
  let (t, ts) ← pTok ts
  if t == "-" then pure (none, ts) else
  let (sum, ts) ← pAmount ts
  let (cats, ts) ← pList pOutCat ts
  pure (some { cats, sum, preciseSum := sum }, ts)

def pOutTotals : P (Option Totals) := fun ts => do
  let (t, ts) ← pTok ts
  if t == "-" then pure (none, ts) else
  let (sum, ts) ← pAmount ts
  let (discount, ts) ← pOptAmount ts
  let (charge, ts) ← pOptAmount ts
  let (taxIncluded, ts) ← pOptAmount ts
  let (total, ts) ← pAmount ts
  let (tax, ts) ← pAmount ts
  let (totalWithTax, ts) ← pAmount ts
  let (rounding, ts) ← pOptAmount ts
  let (payable, ts) ← pAmount ts
  let (advances, ts) ← pOptAmount ts
  let (due, ts) ← pOptAmount ts
  let (taxes, ts) ← pOutTaxes ts
  pure (some { sum, discount, charge, taxIncluded, total, taxes, tax, totalWithTax, rounding, payable, advances, due }, ts)

def pOut : P Out := fun ts => do
  let (lines, ts) ← pList pOutLine ts
  let (discounts, ts) ← pList pOutDocAdj ts
  let (charges, ts) ← pList pOutDocAdj ts
  let (advances, ts) ← pList pAdvance ts
  let (dues, ts) ← pList pDue ts
  let (totals, ts) ← pOutTotals ts
  pure ({ lines, discounts, charges, advances, dues, totals }, ts)

end Driver.CalcOut
