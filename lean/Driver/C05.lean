/-
  Driver for C05: for each request, print the faithful model result (m …),
  the independent rational specification (s …) and whether the request lies
  in the property's magnitude domain (d 0|1).
-/
import GoblVerif.Model.Num
import GoblVerif.Spec.C05
import Driver.Proto

namespace Driver.C05
open GoblVerif GoblVerif.Spec Driver

def small? (i : Int) : Bool := i.natAbs < 2 ^ 52
def lt53 (i : Int) : Bool := i.natAbs < 2 ^ 53

def showA (a : Amount) : String := s!"{a.value} {a.exp}"

/-- value of `q` rounded to `e` decimals, as an Amount -/
def specAt (e : Nat) (q : Rat) : Amount := ⟨roundTo e q, e⟩

def allI64 (as : List Amount) : Bool := as.all (fun a => inI64 a.value)

def reply (m : List Amount) (s : List Amount) (d : Bool) (inter : List Int := []) : String :=
  if allI64 m && inter.all inI64 then
    s!"ok m {" ".intercalate (m.map showA)} s {" ".intercalate (s.map showA)} d {if d then 1 else 0}"
  else "undef"

def replyI (m : Int) (s : Int) : String := s!"ok m {m} s {s} d 1"

/-- domain of a (down-)rescale of `a` to `e` -/
def domRescale (a : Amount) (e : Nat) : Bool :=
  if a.exp > e then small? a.value && a.exp - e ≤ 18 else true

def specRescale (a : Amount) (e : Nat) : Amount := specAt e a.toRat

def specAdd (a b : Amount) : Amount := ⟨a.value + roundTo a.exp b.toRat, a.exp⟩
def specSub (a b : Amount) : Amount := ⟨a.value - roundTo a.exp b.toRat, a.exp⟩

def handle (toks : List String) : String :=
  match toks with
  | [op, v1, e1, v2, e2, n] =>
    match parseInt? v1, parseNat? e1, parseInt? v2, parseNat? e2, parseInt? n with
    | some v1, some e1, some v2, some e2, some n =>
      let a : Amount := ⟨v1, e1⟩
      let b : Amount := ⟨v2, e2⟩
      let p : Pct := ⟨b⟩
      let k := n.toNat
      if e1 > 18 || e2 > 18 || k > 18 && op != "split" && op != "threshold" then "undef" else
      match op with
      | "add" => reply [a.add b] [specAdd a b] (domRescale b a.exp) [b.value * pow10 (a.exp - b.exp)]
      | "sub" => reply [a.sub b] [specSub a b] (domRescale b a.exp) [b.value * pow10 (a.exp - b.exp)]
      | "mul" => reply [a.multiply b] [specAt a.exp (a.toRat * b.toRat)] (small? (a.value * b.value))
      | "div" =>
        if b.value == 0 then "undef" else
        reply [a.divide b] [specAt a.exp (a.toRat / b.toRat)]
          (small? (a.value * pow10 b.exp) && lt53 b.value) [a.value * pow10 b.exp]
      | "rescale" => reply [a.rescale k] [specRescale a k] (domRescale a k) [a.value * pow10 (k - a.exp)]
      | "rescaleUp" => reply [a.rescaleUp k] [if k > a.exp then specRescale a k else a] true [a.value * pow10 (k - a.exp)]
      | "rescaleDown" => reply [a.rescaleDown k] [if k < a.exp then specRescale a k else a] (domRescale a k)
      | "rescaleRange" =>
        -- minimum = e2, maximum = k
        let u := if e2 > a.exp then specRescale a e2 else a
        reply [a.rescaleRange e2 k] [if k < u.exp then specRescale u k else u]
          (domRescale u k) [a.value * pow10 (e2 - a.exp)]
      | "matchPrecision" => reply [a.matchPrecision b] [if b.exp > a.exp then specRescale a b.exp else a] true
          [a.value * pow10 (b.exp - a.exp)]
      | "upscale" => if a.exp + k > 18 then "undef" else
          reply [a.upscale k] [specRescale a (a.exp + k)] true [a.value * pow10 k]
      | "downscale" => reply [a.downscale k] [specRescale a (a.exp - k)] (domRescale a (a.exp - k))
      | "compare" =>
          if inI64 (a.value * pow10 (b.exp - a.exp)) && inI64 (b.value * pow10 (a.exp - b.exp))
          then replyI (a.compare b) (Spec.cmp a.toRat b.toRat) else "undef"
      | "equals" =>
          if inI64 (a.value * pow10 (b.exp - a.exp)) && inI64 (b.value * pow10 (a.exp - b.exp))
          then replyI (if a.equals b then 1 else 0) (if a.toRat = b.toRat then 1 else 0) else "undef"
      | "split" =>
        if n < 1 then "undef" else
        let (q, r) := a.split n
        let sq := specAt a.exp (a.toRat / (n : Rat))
        -- remainder specified by the property: parts add back to the original
        let sr : Amount := ⟨a.value - (n - 1) * sq.value, a.exp⟩
        reply [q, r] [sq, sr] (small? a.value && lt53 n && small? (sq.value * (n - 1)))
      | "negate" => reply [a.negate] [⟨-a.value, a.exp⟩] true
      | "abs" => reply [a.abs] [⟨(a.value.natAbs : Int), a.exp⟩] true
      | "remove" =>
        let f := p.factor
        if f.value == 0 then "undef" else
        reply [a.remove p] [specAt a.exp (a.toRat / (1 + b.toRat))]
          (small? (a.value * pow10 b.exp) && lt53 f.value) [a.value * pow10 b.exp, f.value]
      | "pctOf" => reply [p.of a] [specAt a.exp (a.toRat * b.toRat)] (small? (a.value * b.value))
      | "pctFrom" =>
        let f := p.factor
        if f.value == 0 then "undef" else
        reply [p.from a] [⟨a.value - roundTo a.exp (a.toRat / (1 + b.toRat)), a.exp⟩]
          (small? (a.value * pow10 b.exp) && lt53 f.value) [a.value * pow10 b.exp, f.value]
      | "pctFactor" => reply [p.factor] [specAt b.exp (1 + b.toRat)] true
      -- the two conversions only move the decimal point: exact for every value; the one
      -- int64 product is `RescaleUp(2)` of a percentage with fewer than two decimals
      | "pctFromAmount" => reply [(Pct.ofAmount a).amount] [⟨a.value, a.exp + 2⟩] true
      | "pctAmount" =>
          reply [(Pct.toAmount ⟨a⟩)] [specAt (a.exp - 2) (a.toRat * 100)] true [a.value * pow10 (2 - a.exp)]
      | "pctRescale" => reply [(Pct.rescale ⟨a⟩ k).amount] [specRescale a k] (domRescale a k) [a.value * pow10 (k - a.exp)]
      | "threshold" =>
          -- a = threshold, b = value, n = operator
          if inI64 (a.value * pow10 (b.exp - a.exp)) && inI64 (b.value * pow10 (a.exp - b.exp)) then
            let s : Bool := match k with
              | 0 => decide (b.toRat > a.toRat)
              | 1 => decide (b.toRat ≥ a.toRat)
              | 2 => decide (b.toRat < a.toRat)
              | 3 => decide (b.toRat ≤ a.toRat)
              | _ => decide (b.toRat ≠ a.toRat)
            replyI (if thresholdCompare k a b then 1 else 0) (if s then 1 else 0)
          else "undef"
      | _ => "bad-op"
    | _, _, _, _, _ => "bad-args"
  | _ => "bad-arity"

end Driver.C05
