/-
  Driver for C19 (b): evaluates the coherence specification over the
  regenerated published definitions.

    list                       → ok <n> (<file> <stale 0|1> <country> <currency> <timezone> <knownGapSchemas…count>)* | addons <n> <key>*
    issues regime <file>       → ok <n> (<kind> <where> <ref> <known 0|1>)*
    issues addon <key>         → ok <n> (<kind> <where> <ref> 0)*
    patterns regime <file>     → ok <n> (<key> <code> <pattern>)*
    patterns addon <key>       → ok <n> (<key> <code> <pattern>)*
-/
import GoblVerif.Spec.C19
import GoblVerif.Generated.Defs
import Driver.Proto

namespace Driver.C19
open GoblVerif.Refs GoblVerif.Spec.C19 GoblVerif.Generated.Defs Driver

def b (x : Bool) : String := if x then "1" else "0"

def showIssues (is : List (Issue × Bool)) : String :=
  s!"ok {is.length}" ++ String.join (is.map fun (i, k) => s!" {hexStr i.kind} {hexStr i.at_} {hexStr i.ref} {b k}")

def showPatterns (ps : List (String × String × String)) : String :=
  s!"ok {ps.length}" ++ String.join (ps.map fun (k, c, p) => s!" {hexStr k} {hexStr c} {hexStr p}")

def handle (toks : List String) : String :=
  match toks with
  | ["list"] =>
    s!"ok {defs.regimes.length}" ++
    String.join (defs.regimes.map fun r => s!" {hexStr r.file} {b r.stale} {hexStr r.country} {hexStr r.currency} {hexStr r.timeZone}") ++
    s!" addons {defs.addons.length}" ++ String.join (defs.addons.map fun a => s!" {hexStr a.key}")
  | ["issues", "regime", f] =>
    match (unhexStr f).bind fun f => defs.regimes.find? (·.file == f) with
    | none => "err unknown"
    | some r => showIssues ((regimeIssues defs r).map fun i => (i, knownTagGap r i))
  | ["issues", "addon", k] =>
    match (unhexStr k).bind fun k => defs.addonFor k with
    | none => "err unknown"
    | some a => showIssues ((addonIssues defs a).map fun i => (i, false))
  | ["patterns", "regime", f] =>
    match (unhexStr f).bind fun f => defs.regimes.find? (·.file == f) with
    | none => "err unknown"
    | some r => showPatterns (regimePatternRefs defs r)
  | ["patterns", "addon", k] =>
    match (unhexStr k).bind fun k => defs.addonFor k with
    | none => "err unknown"
    | some a => showPatterns (addonPatternRefs defs a)
  | _ => "bad-request"

end Driver.C19
