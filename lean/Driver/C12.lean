/-
  Driver for C12.  Requests (strings hex-encoded, lists with explicit counts):

    val   <src> <country> <cat> <rate> <y> <m> <d> <tags> <ext>
    combo <src> <country> <cat> <rate> <override 0|1> <pct|-> <sur|-> <y> <m> <d> <tags> <ext>
    raw   <y> <m> <d> <tags> <ext> <n> { <tags> <ext> <since|-> <pct> <sur|-> }*n

  <src>   reg | json : which regenerated table set (in-code registry / data/regimes/*.json)
  <tags>  <k> <hex>*k          <ext>  <k> (<hex> <hex>)*k
  <since> y-m-d                <pct>  value:exp

  `val`/`raw` answer   ok key <hex> exempt <0|1> n <rows> m <row|none> s <row|none> amb <0|1> desc <0|1> tie <0|1> real <0|1>
     m = the model of RateDef.Value, s = the specification `inForce`
     row = <since|-> <pct> <sur|->
  `combo` answers      ok <pct|-> <sur|-> <ext>   |   err category|rate|date|regime
-/
import GoblVerif.Model.Rates
import GoblVerif.Spec.C12
import GoblVerif.Generated.RateTables
import Driver.Proto

namespace Driver.C12
open GoblVerif.Rates GoblVerif.Spec.C12 Driver

abbrev P (α : Type) := List String → Option (α × List String)

def pStr : P String
  | t :: rest => (unhexStr t).map (·, rest)
  | [] => none

def pNat : P Nat
  | t :: rest => t.toNat?.map (·, rest)
  | [] => none

def pMany {α : Type} (p : P α) : Nat → P (List α)
  | 0, ts => some ([], ts)
  | n + 1, ts => do
    let (x, ts) ← p ts
    let (xs, ts) ← pMany p n ts
    pure (x :: xs, ts)

def pList {α : Type} (p : P α) : P (List α) := fun ts => do
  let (n, ts) ← pNat ts
  pMany p n ts

def pPair : P (String × String) := fun ts => do
  let (k, ts) ← pStr ts
  let (v, ts) ← pStr ts
  pure ((k, v), ts)

def pDate : P Date := fun ts => do
  let (y, ts) ← pNat ts
  let (m, ts) ← pNat ts
  let (d, ts) ← pNat ts
  pure (⟨y, m, d⟩, ts)

def parsePct (s : String) : Option Pct :=
  match s.splitOn ":" with
  | [v, e] => do pure ((← v.toInt?), (← e.toNat?))
  | _ => none

def pPctOpt : P (Option Pct)
  | "-" :: rest => some (none, rest)
  | t :: rest => (parsePct t).map (fun p => (some p, rest))
  | [] => none

def pSinceOpt : P (Option Date)
  | "-" :: rest => some (none, rest)
  | t :: rest =>
    match t.splitOn "-" with
    | [y, m, d] => do pure (some ⟨← y.toNat?, ← m.toNat?, ← d.toNat?⟩, rest)
    | _ => none
  | [] => none

def pRow : P RateValue := fun ts => do
  let (tags, ts) ← pList pStr ts
  let (ext, ts) ← pList pPair ts
  let (since, ts) ← pSinceOpt ts
  let (pct, ts) ← pPctOpt ts
  let (sur, ts) ← pPctOpt ts
  pure ({ tags, ext, since, percent := pct.getD (0, 0), surcharge := sur, disabled := false }, ts)

def showPct (p : Pct) : String := s!"{p.1}:{p.2}"
def showPctOpt : Option Pct → String
  | none => "-"
  | some p => showPct p
def showSince : Option Date → String
  | none => "-"
  | some d => s!"{d.y}-{d.m}-{d.d}"
def showRow : Option RateValue → String
  | none => "none"
  | some v => s!"{showSince v.since} {showPct v.percent} {showPctOpt v.surcharge}"
def showExt (e : Ext) : String :=
  s!"{e.length}" ++ String.join (e.map fun kv => s!" {hexStr kv.1} {hexStr kv.2}")
def b (x : Bool) : String := if x then "1" else "0"

def tablesOf (src : String) : Option (List RegimeTable) :=
  if src == "reg" then some GoblVerif.Generated.Rates.registry
  else if src == "json" then some GoblVerif.Generated.Rates.json
  else none

def answer (key : String) (exempt : Bool) (vals : List RateValue) (d : Date) (tags : List String) (ext : Ext) : String :=
  s!"ok key {hexStr key} exempt {b exempt} n {vals.length} m {showRow (value vals d tags ext)} s {showRow (inForce vals d tags ext)} amb {b (ambiguous vals d tags ext)} desc {b (descendingFor vals tags ext)} tie {b (qualifiedTie vals)} real {b (vals.all sinceReal)}"

def handleVal (ts : List String) : Option String := do
  let (src, ts) ← (match ts with | t :: r => some (t, r) | [] => none)
  let regs ← tablesOf src
  let (country, ts) ← pStr ts
  let (cat, ts) ← pStr ts
  let (rate, ts) ← pStr ts
  let (d, ts) ← pDate ts
  let (tags, ts) ← pList pStr ts
  let (ext, _) ← pList pPair ts
  match regimeFor regs country with
  | none => pure "err regime"
  | some r =>
    match categoryDef r.categories cat with
    | none => pure "err category"
    | some c =>
      match rateDef c.rates rate with
      | none => pure "err rate"
      | some rd => pure (answer rd.key rd.exempt rd.values d tags ext)

def handleCombo (ts : List String) : Option String := do
  let (src, ts) ← (match ts with | t :: r => some (t, r) | [] => none)
  let regs ← tablesOf src
  let (country, ts) ← pStr ts
  let (cat, ts) ← pStr ts
  let (rate, ts) ← pStr ts
  let (ovr, ts) ← pNat ts
  let (pct, ts) ← pPctOpt ts
  let (sur, ts) ← pPctOpt ts
  let (d, ts) ← pDate ts
  let (tags, ts) ← pList pStr ts
  let (ext, _) ← pList pPair ts
  match regimeFor regs country with
  | none => pure "err regime"
  | some r =>
    let c : Combo := { category := cat, country := if ovr == 1 then country else "", rate, percent := pct, surcharge := sur, ext }
    match calculateForRegime r c tags d with
    | .error .invalidCategory => pure "err category"
    | .error .invalidRate => pure "err rate"
    | .error .invalidDate => pure "err date"
    | .ok c' => pure s!"ok {showPctOpt c'.percent} {showPctOpt c'.surcharge} {showExt c'.ext}"

def handleRaw (ts : List String) : Option String := do
  let (d, ts) ← pDate ts
  let (tags, ts) ← pList pStr ts
  let (ext, ts) ← pList pPair ts
  let (rows, _) ← pList pRow ts
  pure (answer "" false rows d tags ext)

def handle (toks : List String) : String :=
  match toks with
  | "val" :: rest => (handleVal rest).getD "bad-request"
  | "combo" :: rest => (handleCombo rest).getD "bad-request"
  | "raw" :: rest => (handleRaw rest).getD "bad-request"
  | _ => "bad-request"

end Driver.C12
