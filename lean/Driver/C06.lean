/-
  Driver for C06.  Requests (texts hex-encoded byte strings, "-" = empty):

    afs  <text> <gok> <gv> <ge>            AmountFromString
    utx  <text> <cv> <ce> <gok> <gv> <ge>  (*Amount).UnmarshalText, receiver cv:ce
    ujs  <text> <cv> <ce> <gok> <gv> <ge>  (*Amount).UnmarshalJSON
    str  <v> <e> <gotext>                  Amount.String
    min  <v> <e> <gotext>                  Amount.MinimalString
    pfs  <text> <gok> <gv> <ge>            PercentageFromString
    putx / pujs                            as utx / ujs for Percentage
    pstr <v> <e> <gotext>                  Percentage.String

    prim <name> <args…>                    one primitive of Model/GoStrings.lean / GoJson.lean
                                           (the trusted base of Generated/CodecSrc.lean), see `prim`

  <gok> <gv> <ge> is what the Go code returned (accepted?, value, exponent).
  Response: `m <model result> pat <b> fits <b> dom <b> P <b>` where
  `P` is the specification oracle of Spec/C06 evaluated on the Go result,
  `pat`/`fits` the recogniser and the 64-bit condition on the input text, and
  `dom` says whether the request lies in the model's exact domain (always 1
  for amounts and for reading percentages — the conversions only move the
  decimal point; for writing a percentage: at most 20 decimals and the percent
  figure `value·10^(2−exp)` is an int64, which `RescaleUp(2)` does not check).
  The model part is `undef` where that product would overflow in Go.
-/
import GoblVerif.Model.Codec
import GoblVerif.Model.GoStrings
import GoblVerif.Model.GoJson
import GoblVerif.Spec.C06
import Driver.Proto

namespace Driver.C06
open GoblVerif GoblVerif.Codec GoblVerif.Spec.C06 Driver

def bytesToText (bs : List Nat) : Text := bs.map Char.ofNat
def textToBytes (t : Text) : List Nat := t.map Char.toNat

def unhexText (s : String) : Option Text := (unhexBytes s).map bytesToText
def hexText (t : Text) : String := hexBytes (textToBytes t)

def b01 (b : Bool) : String := if b then "1" else "0"

def showRes (r : Except Err Amount) : String :=
  match r with
  | .ok a => if inI64 a.value then s!"ok {a.value} {a.exp}" else "undef"
  | .error e => s!"err {e.name}"

def tail (pat fits dom p : Bool) : String :=
  s!" pat {b01 pat} fits {b01 fits} dom {b01 dom} P {b01 p}"

/-- the percentage result of the model -/
def showPct (r : Except Err Pct) : String :=
  match r with
  | .error e => s!"err {e.name}"
  | .ok p => if inI64 p.amount.value then s!"ok {p.amount.value} {p.amount.exp}" else "undef"

/-- exact domain of Percentage.String: the percent figure fits an int64 -/
def pctWriteDom (p : Pct) : Bool := p.amount.exp ≤ 20 && inI64 (p.amount.value * 10 ^ (2 - p.amount.exp))

def parse3 (gok gv ge : String) : Option (Bool × Amount) :=
  match parseNat? gok, parseInt? gv, parseNat? ge with
  | some k, some v, some e => some (k == 1, ⟨v, e⟩)
  | _, _, _ => none

/-- the primitives the translated codec rests on, evaluated for the harness to compare
    with the real Go functions (`prims` family).  Texts hex-encoded, "-" = empty.
      pint s            strconv.ParseInt(s, 10, 64)   → `<value> <ok|syntax|range>`
      split s sep       strings.Split                 → the parts, hex, joined by `,`
      hasp / tpre / tsuf / tright / cont  s x         HasPrefix / TrimPrefix / TrimSuffix / TrimRight / Contains
      itoa v            Sprintf("%d", v)
      pad0 w v          Sprintf("%0*d", w, v)
      json data old     err := json.Unmarshal(data, &text) with text = old → `<text> <ok|err>` -/
def prim (toks : List String) : String :=
  let b (x : Bool) := if x then "1" else "0"
  match toks with
  | ["pint", s] =>
    match unhexText s with
    | some s =>
      let r := GoStrings.parseInt s
      let k := match r.2 with
        | none => "ok"
        | some e => if e == GoStrings.errRange then "range" else "syntax"
      s!"{r.1} {k}"
    | none => "bad-args"
  | ["itoa", v] =>
    match parseInt? v with
    | some v => hexText (GoStr.itoa v)
    | none => "bad-args"
  | ["pad0", w, v] =>
    match parseNat? w, parseInt? v with
    | some w, some v => hexText (GoStrings.fmtPad0 w v)
    | _, _ => "bad-args"
  | [op, s, x] =>
    match unhexText s, unhexText x with
    | some s, some x =>
      match op with
      | "split" => ",".intercalate ((GoStrings.split s x).map hexText)
      | "hasp" => b (GoStr.hasPrefix s x)
      | "tpre" => hexText (GoStrings.trimPrefix s x)
      | "tsuf" => hexText (GoStrings.trimSuffix s x)
      | "tright" => hexText (GoStrings.trimRight s x)
      | "cont" => b (GoStrings.contains s x)
      | "json" =>
        let r := GoJson.unmarshalString (textToBytes s) x
        s!"{hexText r.1} {if r.2.isNone then "ok" else "err"}"
      | _ => "bad-op"
    | _, _ => "bad-args"
  | _ => "bad-arity"

def handle (toks : List String) : String :=
  match toks with
  | "prim" :: rest => prim rest
  | ["afs", t, gok, gv, ge] =>
    match unhexText t, parse3 gok gv ge with
    | some s, some (acc, ga) =>
      s!"m {showRes (amountFromString s)}" ++ tail (isAmountText s) (fits64 s) true (readOracle s acc ga)
    | _, _ => "bad-args"
  | [op, t, cv, ce, gok, gv, ge] =>
    match unhexText t, parseInt? cv, parseNat? ce, parse3 gok gv ge with
    | some s, some cv, some ce, some (acc, ga) =>
      let cur : Amount := ⟨cv, ce⟩
      match op with
      | "utx" => s!"m {showRes (amountUnmarshalText cur s)}" ++ tail (isAmountText s) (fits64 s) true (readOracle s acc ga)
      | "ujs" => s!"m {showRes (amountUnmarshalJSON cur s)}" ++ tail (isAmountText s) (fits64 s) true (readOracle s acc ga)
      | "putx" =>
        let r := pctUnmarshalText ⟨cur⟩ s
        s!"m {showPct r}" ++ tail (isPercentageText s) (fits64 s.dropLast) true (pctReadOracle s acc ⟨ga⟩)
      | "pujs" =>
        let r := pctUnmarshalJSON ⟨cur⟩ s
        s!"m {showPct r}" ++ tail (isPercentageText s) (fits64 s.dropLast) true (pctReadOracle s acc ⟨ga⟩)
      | _ => "bad-op"
    | _, _, _, _ => "bad-args"
  | ["pfs", t, gok, gv, ge] =>
    match unhexText t, parse3 gok gv ge with
    | some s, some (acc, ga) =>
      s!"m {showPct (percentageFromString s)}" ++
        tail (isPercentageText s) (fits64 s.dropLast) true (pctReadOracle s acc ⟨ga⟩)
    | _, _ => "bad-args"
  | [op, v, e, gt] =>
    match parseInt? v, parseNat? e, unhexText gt with
    | some v, some e, some g =>
      let a : Amount := ⟨v, e⟩
      if !inI64 v then "undef" else
      match op with
      | "str" => if e > 18 then "undef" else
          s!"m {hexText (amountToString a)}" ++ tail (isAmountText g) (fits64 g) true (writeOracle a g)
      | "min" => if e > 18 then "undef" else
          s!"m {hexText (amountMinimalString a)}" ++
            tail (isAmountText g) (fits64 g) true (isAmountText g && decimalValue g == a.toRat)
      | "pstr" =>
          let p : Pct := ⟨a⟩
          let m := if !pctWriteDom p then "undef" else hexText (pctToString p)
          s!"m {m}" ++ tail (isPercentageText g) (fits64 g.dropLast) (pctWriteDom p) (pctWriteOracle p g)
      | _ => "bad-op"
    | _, _, _ => "bad-args"
  | _ => "bad-arity"

end Driver.C06
