/-
  Driver for C06.  Requests (texts hex-encoded byte strings, "-" = empty):

    afs  <text> <gok> <gv> <ge>            AmountFromString
    utx  <text> <cv> <ce> <gok> <gv> <ge>  (*Amount).UnmarshalText, receiver cv:ce
    ujs  <text> <cv> <ce> <gok> <gv> <ge>  (*Amount).UnmarshalJSON
    str  <v> <e> <gotext>                  Amount.String
    min  <v> <e> <gotext>                  Amount.MinimalString
    pfs  <text> <gok> <gv> <ge>            PercentageFromString
    putx / pujs                            as utx / ujs for Percentage
    pstr <v> <e> <gotext>                  Percentage.String

  <gok> <gv> <ge> is what the Go code returned (accepted?, value, exponent).
  Response: `m <model result> pat <b> fits <b> dom <b> P <b>` where
  `P` is the specification oracle of Spec/C06 evaluated on the Go result,
  `pat`/`fits` the recogniser and the 64-bit condition on the input text, and
  `dom` says whether the request lies in the model's exact domain (always 1
  for amounts; for percentages: the float detour is exact and no int64
  overflows).  The model part is `undef` where an int64 intermediate would
  overflow in Go (not modelled for the float operations).
-/
import GoblVerif.Model.Codec
import GoblVerif.Spec.C06
import Driver.Proto

namespace Driver.C06
open GoblVerif GoblVerif.Codec GoblVerif.Spec.C06 Driver

def bytesToText (bs : List Nat) : Text := bs.map Char.ofNat
def textToBytes (t : Text) : List Nat := t.map Char.toNat

def unhexText (s : String) : Option Text := (unhexBytes s).map bytesToText
def hexText (t : Text) : String := hexBytes (textToBytes t)

def b01 (b : Bool) : String := if b then "1" else "0"

def showRes (r : Except Err Amount) : String :=
  match r with
  | .ok a => if inI64 a.value then s!"ok {a.value} {a.exp}" else "undef"
  | .error e => s!"err {e.name}"

def tail (pat fits dom p : Bool) : String :=
  s!" pat {b01 pat} fits {b01 fits} dom {b01 dom} P {b01 p}"

def small? (i : Int) : Bool := i.natAbs < 2 ^ 52

/-- the percentage result of the model, `undef` when Go's int64 would overflow
    on the way (`Rescale(exp+2)` multiplies by 100 without a check) -/
def showPct (body : Text) (r : Except Err Pct) : String :=
  match r with
  | .error e => s!"err {e.name}"
  | .ok p =>
    match amountFromString body with
    | .ok a => if inI64 (a.value * 100) && inI64 p.amount.value then s!"ok {p.amount.value} {p.amount.exp}" else "undef"
    | .error _ => s!"ok {p.amount.value} {p.amount.exp}"

/-- body of a percentage text as the parser sees it -/
def pctBody (s : Text) : Text := if s.getLast? == some '%' then s.dropLast else s

/-- exact domain of PercentageFromString on `s` -/
def pctReadDom (s : Text) : Bool :=
  match amountFromString (pctBody s) with
  | .ok a => small? (a.value * 100)
  | .error _ => true

/-- exact domain of Percentage.String -/
def pctWriteDom (p : Pct) : Bool := small? (p.amount.value * 10000) && p.amount.exp ≤ 20

def parse3 (gok gv ge : String) : Option (Bool × Amount) :=
  match parseNat? gok, parseInt? gv, parseNat? ge with
  | some k, some v, some e => some (k == 1, ⟨v, e⟩)
  | _, _, _ => none

def handle (toks : List String) : String :=
  match toks with
  | ["afs", t, gok, gv, ge] =>
    match unhexText t, parse3 gok gv ge with
    | some s, some (acc, ga) =>
      s!"m {showRes (amountFromString s)}" ++ tail (isAmountText s) (fits64 s) true (readOracle s acc ga)
    | _, _ => "bad-args"
  | [op, t, cv, ce, gok, gv, ge] =>
    match unhexText t, parseInt? cv, parseNat? ce, parse3 gok gv ge with
    | some s, some cv, some ce, some (acc, ga) =>
      let cur : Amount := ⟨cv, ce⟩
      match op with
      | "utx" => s!"m {showRes (amountUnmarshalText cur s)}" ++ tail (isAmountText s) (fits64 s) true (readOracle s acc ga)
      | "ujs" => s!"m {showRes (amountUnmarshalJSON cur s)}" ++ tail (isAmountText s) (fits64 s) true (readOracle s acc ga)
      | "putx" =>
        let r := pctUnmarshalText ⟨cur⟩ s
        let m := if s = nullText then showRes (.ok cur) else showPct (pctBody s) r
        s!"m {m}" ++ tail (isPercentageText s) (fits64 s.dropLast) (pctReadDom s) (pctReadOracle s acc ⟨ga⟩)
      | "pujs" =>
        -- the text PercentageFromString sees (none: null literal, syntax error or empty string)
        let u : Option Text := match jsonText s with
          | .ok (t, false) => if t.isEmpty then none else some t
          | _ => none
        let r := pctUnmarshalJSON ⟨cur⟩ s
        let m := match u, r with
          | some t, _ => showPct (pctBody t) r
          | none, .ok p => showRes (.ok p.amount)
          | none, .error e => s!"err {e.name}"
        s!"m {m}" ++ tail (isPercentageText s) (fits64 s.dropLast) ((u.map pctReadDom).getD true) (pctReadOracle s acc ⟨ga⟩)
      | _ => "bad-op"
    | _, _, _, _ => "bad-args"
  | ["pfs", t, gok, gv, ge] =>
    match unhexText t, parse3 gok gv ge with
    | some s, some (acc, ga) =>
      s!"m {showPct (pctBody s) (percentageFromString s)}" ++
        tail (isPercentageText s) (fits64 s.dropLast) (pctReadDom s) (pctReadOracle s acc ⟨ga⟩)
    | _, _ => "bad-args"
  | [op, v, e, gt] =>
    match parseInt? v, parseNat? e, unhexText gt with
    | some v, some e, some g =>
      let a : Amount := ⟨v, e⟩
      if !inI64 v then "undef" else
      match op with
      | "str" => if e > 18 then "undef" else
          s!"m {hexText (amountToString a)}" ++ tail (isAmountText g) (fits64 g) true (writeOracle a g)
      | "min" => if e > 18 then "undef" else
          s!"m {hexText (amountMinimalString a)}" ++
            tail (isAmountText g) (fits64 g) true (isAmountText g && decimalValue g == a.toRat)
      | "pstr" =>
          let p : Pct := ⟨a⟩
          let am := p.toAmount
          let m := if e > 20 || !inI64 (v * 100) || !inI64 am.value then "undef" else hexText (pctToString p)
          s!"m {m}" ++ tail (isPercentageText g) (fits64 g.dropLast) (pctWriteDom p) (pctWriteOracle p g)
      | _ => "bad-op"
    | _, _, _ => "bad-args"
  | _ => "bad-arity"

end Driver.C06
