/-
  Driver for C17's third clause (`Invoice.RemoveIncludedTaxes`):

  `rm <doc tokens>`  → `<agree 0|1> <result>`: `Calc.calculateThenRemove` on the encoded document:
      `Calculate`, then `RemoveIncludedTaxes` with the totals present (for a document without supplied
      rounding this is `Calc.removeIncludedDoc`, whose "no totals yet" branch does the one calculation:
      `Props.C17.calculate_then_remove`);
  `rm2 <doc tokens>` → the same after a `Calculate` whose totals were dropped (`inv.Totals = nil`), so
      that the real code takes its "no totals yet" branch as well (`Calc.removeIncludedRecalc`).

  The result is `ok <canonical output> P <prices_include, hex or ->` or `err …`; `agree` says whether the
  float-ops model gives the same text (0 = outside the magnitude domain of C05: skipped by the harness).
-/
import Driver.Calc
import GoblVerif.Model.CalcRemove

namespace Driver.C17
open GoblVerif GoblVerif.Calc Driver Driver.Calc

def sRemErr : RemErr → String
  | .calc e => sErr e
  | .nilTotals => "err nil-totals"

def sMem (r : Except RemErr Mem) : String :=
  match r with
  | .ok m => "ok " ++ sOut m.out ++ " P " ++ (match m.doc.includes with | some k => hexStr k | none => "-")
  | .error e => sRemErr e

def both (f : Ops → Except RemErr Mem) : String :=
  let x := sMem (f exactOps)
  let y := sMem (f floatOps)
  let agree := x == y && !hasLongDigitRun x
  s!"{if agree then 1 else 0} {x}"

def handle (toks : List String) : String :=
  match toks with
  | "rm" :: rest =>
    match pDoc rest with
    | some (d, []) => both (fun o => calculateThenRemove o d)
    | some (_, _) => "bad-trailing"
    | none => "bad-doc"
  | "rm2" :: rest =>
    match pDoc rest with
    | some (d, []) => both (fun o => removeIncludedRecalc o d)
    | some (_, _) => "bad-trailing"
    | none => "bad-doc"
  | _ => "bad-op"

end Driver.C17
