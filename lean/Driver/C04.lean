/-
  Driver for C04 (the customer-rates part; the amounts of C04 go through the
  C01 driver).  Request (strings hex-encoded, "-" = empty):

    cr <saft 0|1> <tagged 0|1> <customer|none> <lines> <discounts> <charges>
       <lines>  = <n> { <k> { <cat> <country> <rate> <pt-region> <pt-saft-tax-rate> }*k }*n

  regime PT, with (1) or without (0) the pt-saft-v1 addon.  Answer:

    ok <customer|none> first <combo>* second <combo>* alt <combo>*

  the customer's country after normalisation, then every combo of lines,
  discounts and charges in document order after ONE `Calculate` (`pass`, the
  code as it is), after TWO (`pass` of `pass`), and what one `Calculate` would
  give under the alternative order of a possible repair (`passAlt`; by
  `repair_is_todays_explicit_country` also what the code gives for the document
  with the customer's country written on every combo);
  <combo> = <country>,<pt-region>,<pt-saft-tax-rate>  (hex each).
-/
import GoblVerif.Model.CustomerRates
import Driver.Proto

namespace Driver.C04
open GoblVerif.CustomerRates Driver

abbrev P (α : Type) := List String → Option (α × List String)

def pStr : P String
  | t :: rest => (unhexStr t).map (·, rest)
  | [] => none

def pNat : P Nat
  | t :: rest => t.toNat?.map (·, rest)
  | [] => none

def pMany {α : Type} (p : P α) : Nat → P (List α)
  | 0, ts => some ([], ts)
  | n + 1, ts => do
    let (x, ts) ← p ts
    let (xs, ts) ← pMany p n ts
    pure (x :: xs, ts)

def pList {α : Type} (p : P α) : P (List α) := fun ts => do
  let (n, ts) ← pNat ts
  pMany p n ts

def pCombo : P Combo := fun ts => do
  let (cat, ts) ← pStr ts
  let (country, ts) ← pStr ts
  let (rate, ts) ← pStr ts
  let (region, ts) ← pStr ts
  let (taxRate, ts) ← pStr ts
  pure (⟨cat, country, rate, fun x => if x = "pt-region" then region else if x = "pt-saft-tax-rate" then taxRate else ""⟩, ts)

def pCustomer : P (Option String)
  | "none" :: rest => some (none, rest)
  | ts => do
    let (c, ts) ← pStr ts
    pure (some c, ts)

def showCombo (t : Combo) : String :=
  hexStr t.country ++ "," ++ hexStr (t.ext "pt-region") ++ "," ++ hexStr (t.ext "pt-saft-tax-rate")

def showDoc (d : Doc) : String :=
  " ".intercalate ((d.lines ++ d.discounts ++ d.charges).flatten.map showCombo)

def handleCr (ts : List String) : Option String := do
  let (saft, ts) ← pNat ts
  let (tagged, ts) ← pNat ts
  let (customer, ts) ← pCustomer ts
  let (lines, ts) ← pList (pList pCombo) ts
  let (discounts, ts) ← pList (pList pCombo) ts
  let (charges, ts) ← pList (pList pCombo) ts
  if !ts.isEmpty then none
  let d : Doc := ⟨tagged == 1, customer, lines, discounts, charges⟩
  let n := ptNorms (saft == 1)
  let k := comboCalculate "PT"
  let first := pass n k d
  let second := pass n k first
  let alt := passAlt n k d
  let cust := match first.customer with
    | some c => hexStr c
    | none => "none"
  pure s!"ok {cust} first {showDoc first} second {showDoc second} alt {showDoc alt}"

def handle (toks : List String) : String :=
  match toks with
  | "cr" :: rest => (handleCr rest).getD "bad-request"
  | _ => "bad-request"

end Driver.C04
