/-
  Driver for C18: judges single reference items, taken by the harness from a
  document GOBL has calculated and declared valid, against the PUBLISHED
  definitions (Generated/Defs.lean).  Strings hex-encoded, "-" = empty.

    regime   <code>
    addon    <key>
    combo    <docRegime> <cat> <country> <rate>
    includes <docRegime> <cat>                           `tax.prices_include`
    ext      <key> <value> <pattern> <matched 0|1>     pattern as the harness read it from data/**;
                                                        matched = Go regexp verdict for that pattern
    tag      <docRegime> <schema> <tag> <n> <addon>*n
    currency <code>
    country  <code>
    meanskey <required 0|1> <key>                       payment.instructions.key (1), advances[*].key (0)
    notekey  <key>
    termskey <key>

  Answer: `ok <resolves 0|1> <model-validates 0|1>` — the specification
  (Spec/C18.lean) and the model of the code's rule (Model/Refs.lean).
-/
import GoblVerif.Spec.C18
import GoblVerif.Generated.Defs
import Driver.Proto

namespace Driver.C18
open GoblVerif.Refs GoblVerif.Spec.C18 GoblVerif.Generated.Defs Driver

def b (x : Bool) : String := if x then "1" else "0"
def ans (r m : Bool) : String := s!"ok {b r} {b m}"

def handle (toks : List String) : String :=
  match toks.map unhexStr with
  | [some "regime", some code] => ans (regimeResolvesB defs code) (validateRegime defs code)
  | [some "addon", some key] => ans (addonResolvesB defs key) (validateAddons defs [key])
  | [some "combo", some docRegime, some cat, some country, some rate] =>
    let c : Combo := ⟨cat, country, rate, []⟩
    ans (comboResolvesB defs docRegime c) (validateCombo defs (fun _ _ => true) (defs.regimeFor docRegime) c)
  | [some "includes", some docRegime, some cat] =>
    ans (includesResolvesB defs docRegime cat) (validatePricesInclude (defs.regimeFor docRegime) cat)
  | [some "ext", some key, some value, some pattern, some matched] =>
    match defs.extDef key with
    | none => ans false false
    | some kd =>
      if kd.pattern != pattern then "err pattern-mismatch" else
      let pm : PatternMatch := fun _ _ => matched == "1"
      ans (extPairResolvesB defs pm (key, value)) (validateExtPair defs pm (key, value))
  | some "tag" :: some docRegime :: some schema :: some tag :: some _n :: addons =>
    let as := addons.filterMap fun a => a.bind defs.addonFor
    let r := defs.regimeFor docRegime
    ans (tagResolvesB r as schema tag) (validateDocTags r as schema [tag])
  | [some "currency", some code] => ans (defs.currencies.contains code) (validateCodes defs [code] [])
  | [some "country", some code] => ans (defs.countries.contains code) (validateCodes defs [] [code])
  | [some "meanskey", some req, some key] =>
    ans (meansKeyResolvesB keySets key) (validateMeansKey keySets (req == "1") key)
  | [some "notekey", some key] => ans ((KeySets.get keySets "org/note").contains key) (validateNoteKey keySets key)
  | [some "termskey", some key] => ans ((KeySets.get keySets "pay/terms").contains key) (validateTermsKey keySets key)
  | _ => "bad-request"

end Driver.C18
