/-
  Line protocol helpers shared by all property drivers (core Lean only).
-/
namespace Driver

def parseInt? (s : String) : Option Int := s.toInt?
def parseNat? (s : String) : Option Nat := s.toNat?

def inI64 (i : Int) : Bool := -(2:Int)^63 ≤ i && i < (2:Int)^63

def hexVal (c : Char) : Option Nat :=
  if '0' ≤ c && c ≤ '9' then some (c.toNat - '0'.toNat)
  else if 'a' ≤ c && c ≤ 'f' then some (c.toNat - 'a'.toNat + 10)
  else if 'A' ≤ c && c ≤ 'F' then some (c.toNat - 'A'.toNat + 10)
  else none

/-- decode a hex string into bytes; "-" denotes the empty string -/
def unhexBytes (s : String) : Option (List Nat) :=
  if s == "-" then some [] else
  let rec go : List Char → List Nat → Option (List Nat)
    | [], acc => some acc.reverse
    | [_], _ => none
    | a :: b :: rest, acc =>
      match hexVal a, hexVal b with
      | some x, some y => go rest ((x * 16 + y) :: acc)
      | _, _ => none
  go s.toList []

def hexDigit (n : Nat) : Char :=
  if n < 10 then Char.ofNat ('0'.toNat + n) else Char.ofNat ('a'.toNat + n - 10)

def hexBytes (bs : List Nat) : String :=
  if bs.isEmpty then "-" else
  String.ofList (bs.flatMap fun b => [hexDigit (b / 16), hexDigit (b % 16)])

/-- hex of the UTF-8 encoding of a string -/
def hexStr (s : String) : String := hexBytes (s.toUTF8.toList.map (·.toNat))

def unhexStr (s : String) : Option String := do
  let bs ← unhexBytes s
  String.fromUTF8? (ByteArray.mk (bs.map (·.toUInt8)).toArray)

end Driver
