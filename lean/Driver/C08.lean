/-
  Driver for C08.  Request:

    doc <J>   → `ok <hex canonical bytes>` | `err` | `undef`

  The harness applies real SHA-256 to the bytes (the model's abstract `Hash.H`)
  and compares with gobl's Envelope.Digest; whether two documents have the
  same content is decided by comparing the canonical bytes (C07.canon_injective).
-/
import Driver.C07

namespace Driver.C08
open GoblVerif GoblVerif.C14n Driver

def handle (toks : List String) : String :=
  match toks with
  | "doc" :: r =>
    match Driver.C07.parseJ r with
    | some (v, []) =>
      if !v.wf then "undef" else
      match canon v with
      | some b => s!"ok {hexBytes b}"
      | none => "err"
    | _ => "bad-args"
  | _ => "bad-op"

end Driver.C08
