/-
  Driver for C08.  Requests:

    doc <J>   → `ok <hex canonical bytes>` | `err` | `undef`

    edit <op> <n> <step>×n <args…> <J doc>
              → `ok <p> <c> <hex canonical bytes of the edited document>`
                | `nopath` | `err` | `undef` | `bad-args`
      a step is `k <hexkey>` (into that member) or `x <index>` (into that element); the edit is
      applied by `Spec.C08.applyOp` (the functions of Model/JsonEdit.lean) at the end of the path:
        set <J v'>               the value replaced by v'                         (J.set)
        ins <pos> <hexkey> <J v> the object gets the member key : v before pos    (KL.insertAt)
        del <hexkey>             the object loses its member key                  (KL.erase)
        swap <i> <j>             the array's elements i and j are exchanged       (JL.swap)
      p = the oracle's verdict (1 = the content changes; proved right: `edit_verdict_sound`): set — the new value has
          another content (`edit_at_path_content_iff`); ins — the value is not null
          (`add_member_content_iff`); del — the value was not null (`remove_member_content_iff`);
          swap — the two elements have different contents (`swap_elements_content_iff`);
      c = whether the canonical bytes of the edited document differ from those of the document
          (1 = they differ).  `nopath`: the path (or member, or element) does not exist.

  The harness applies real SHA-256 to the bytes (the model's abstract `Hash.H`)
  and compares with gobl's Envelope.Digest / dsig.NewSHA256Digest; whether two documents have the
  same content is decided by comparing the canonical bytes (C07.canon_injective).
-/
import Driver.C07
import GoblVerif.Spec.C08

namespace Driver.C08
open GoblVerif GoblVerif.C14n GoblVerif.Edit GoblVerif.Spec.C08 Driver

def parsePath : Nat → List String → Option (Path × List String)
  | 0, r => some ([], r)
  | n + 1, "k" :: h :: r =>
    match Driver.C07.strOfHex h, parsePath n r with
    | some k, some (p, r') => some (.key k :: p, r')
    | _, _ => none
  | n + 1, "x" :: i :: r =>
    match parseNat? i, parsePath n r with
    | some i, some (p, r') => some (.idx i :: p, r')
    | _, _ => none
  | _, _ => none

def answer (d : J) (r : Option (J × Bool)) : String :=
  match r with
  | none => "nopath"
  | some (d', predicted) =>
    if !d.wf || !d'.wf then "undef" else
    match canon d, canon d' with
    | some b, some b' => s!"ok {if predicted then 1 else 0} {if b == b' then 0 else 1} {hexBytes b'}"
    | _, _ => "err"

def handleEdit (op : String) (p : Path) (r : List String) : String :=
  match op, r with
  | "set", r =>
    match Driver.C07.parseJ r with
    | some (v', r') =>
      match Driver.C07.parseJ r' with
      | some (d, []) => answer d (applyOp (.set v') p d)
      | _ => "bad-args"
    | none => "bad-args"
  | "ins", n :: h :: r =>
    match parseNat? n, Driver.C07.strOfHex h, Driver.C07.parseJ r with
    | some n, some k, some (v, r') =>
      match Driver.C07.parseJ r' with
      | some (d, []) => answer d (applyOp (.ins n k v) p d)
      | _ => "bad-args"
    | _, _, _ => "bad-args"
  | "del", h :: r =>
    match Driver.C07.strOfHex h, Driver.C07.parseJ r with
    | some k, some (d, []) => answer d (applyOp (.del k) p d)
    | _, _ => "bad-args"
  | "swap", i :: j :: r =>
    match parseNat? i, parseNat? j, Driver.C07.parseJ r with
    | some i, some j, some (d, []) => answer d (applyOp (.swap i j) p d)
    | _, _, _ => "bad-args"
  | _, _ => "bad-op"

def handle (toks : List String) : String :=
  match toks with
  | "doc" :: r =>
    match Driver.C07.parseJ r with
    | some (v, []) =>
      if !v.wf then "undef" else
      match canon v with
      | some b => s!"ok {hexBytes b}"
      | none => "err"
    | _ => "bad-args"
  | "edit" :: op :: n :: r =>
    match parseNat? n with
    | some n =>
      match parsePath n r with
      | some (p, r') => handleEdit op p r'
      | none => "bad-args"
    | none => "bad-args"
  | _ => "bad-op"

end Driver.C08
