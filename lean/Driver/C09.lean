/-
  Driver for C09.
    hist <uuid> <actions…>
        → per action "outcome|nsigs|V[k1]|V[k2]|V[]|V[k2,k1]|C(k1)|C(k2)|C(none)" and finally "H <header>"
          (V = model of Envelope.Verify, C = model of cli.Verify; keys are 1 and 2)
    spec HEADER <nsigs> (<signer> HEADER)* <nq> (<nk> <k>*)*
        → "ok b…": for each key set the verdict the property asks for (Spec/C09.lean),
          followed by "c b…": the model's `contains` for each signature
-/
import GoblVerif.Model.Envelope
import GoblVerif.Spec.C09
import GoblVerif.Spec.C10
import Driver.EnvProto

namespace Driver.C09
open GoblVerif Driver Driver.EnvProto

def showStep (e : Env) (o : Outcome) : String :=
  "|".intercalate [o.str, toString e.sigs.length,
    showVerify (e.verify [1]), showVerify (e.verify [2]), showVerify (e.verify []), showVerify (e.verify [2, 1]),
    showCli (Env.cliVerify H e (some 1)), showCli (Env.cliVerify H e (some 2)), showCli (Env.cliVerify H e none)]

def runHist : Env → List Action → List String → Env × List String
  | e, [], acc => (e, acc.reverse)
  | e, a :: as, acc =>
    let (e', o) := Env.act H e a
    runHist e' as (showStep e' o :: acc)

def b01 (b : Bool) : String := if b then "1" else "0"

def handle (toks : List String) : String :=
  match toks with
  | "hist" :: u :: rest =>
    match unhexStr u, pActions (rest.length + 1) rest with
    | some uuid, some acts =>
      let (e, outs) := runHist (Spec.C10.emptyEnv uuid) acts []
      "ok " ++ " ".intercalate outs ++ " H " ++ showHeader e.head
    | _, _ => "bad-args"
  | "spec" :: rest =>
    match (do
      let (h, ts) ← pHeader rest
      let (sigs, ts) ← pCounted pSig ts
      let (qs, ts) ← pCounted (pCounted pNat) ts
      if ts.isEmpty then pure (h, sigs, qs) else none : Option (Header × List Sig × List (List Nat))) with
    | some (h, sigs, qs) =>
      "ok " ++ " ".intercalate (qs.map fun ks => b01 (Spec.C09.expected h sigs ks))
        ++ " c " ++ " ".intercalate (sigs.map fun s => b01 (h.contains s.payload))
    | none => "bad-args"
  | _ => "bad-op"

end Driver.C09
