/-
  Driver for C20.  Amounts are `v:e` tokens, optional values `-`, strings hex.

    <RT>  := R <key> <country> <n> {<k> <v>}^n <base> <percent|-> <spct|-> <samount|-> <amount>
    <CT>  := C <code> <retained 0|1> <amount> <surcharge|-> <amountP> <n> <RT>^n
    <T>   := T <sum> <sumP> <n> <CT>^n          |  N   (nil *tax.Total, payments only)
    <GO>  := <T> | panic

  Requests
    merge  <T> <T> <GO>     t1.Merge(t2); Go result appended
    negate <T> <T>          t.Negate(); Go result appended
    zero   <T> <GO>         t.Merge(t.Negate()); Go result appended
    comm   <T> <T> <GO> <GO>  both orders; Go results appended
    matches <RT> <RT>       RateTotal.Matches
    calc   <e> <rr 0|1> <T> Total.Calculate
    pay    <cur> <curExp> <rr> <total> <nr> {<from> <to> <amount> <toExp>}^nr
           <nl> {L <cur|-> <debit|-> <credit|-> (- | D <valid 0|1> <docExp> <T|N>)}^nl
  Responses
    merge:   m <T> dom <uniform? e|-> wf <b> dup <b> P <b>
    negate:  m <T> P <b>
    zero:    m <T> dup <b> P <b>
    comm:    dom <e|-> dup <b> P <b>
    matches: m <b> s <b>
    calc:    m <T>
    pay:     m (ok <n> <lineTotals…> <total> <T|N> | err <kind> | undef) s <specTotal|->
  `undef` (in place of <T>) when an intermediate leaves int64 (not modelled).
  The model of `Merge` is total: a `panic` of the Go code is never predicted, `P` is
  0 for it.  `wf` (no exempt group carries a surcharge) is only reported for the
  input distribution.
-/
import GoblVerif.Model.Payment
import GoblVerif.Spec.C20
import Driver.Proto

namespace Driver.C20
open GoblVerif GoblVerif.Merge GoblVerif.Payment GoblVerif.Spec.C20 Driver

abbrev P (α : Type) := List String → Option (α × List String)

def pAmount : P Amount
  | tok :: rest =>
    match tok.splitOn ":" with
    | [v, e] => match parseInt? v, parseNat? e with
      | some v, some e => some (⟨v, e⟩, rest)
      | _, _ => none
    | _ => none
  | [] => none

def pOptAmount : P (Option Amount)
  | "-" :: rest => some (none, rest)
  | toks => (pAmount toks).map fun (a, r) => (some a, r)

def pStr : P String
  | tok :: rest => (unhexStr tok).map fun s => (s, rest)
  | [] => none

def pNat : P Nat
  | tok :: rest => (parseNat? tok).map fun n => (n, rest)
  | [] => none

def pMany {α : Type} (p : P α) : Nat → P (List α)
  | 0, toks => some ([], toks)
  | n + 1, toks => do
    let (x, r) ← p toks
    let (xs, r') ← pMany p n r
    pure (x :: xs, r')

def pPair : P (String × String) := fun toks => do
  let (k, r) ← pStr toks
  let (v, r) ← pStr r
  pure ((k, v), r)

def pRate : P RateTotal
  | "R" :: toks => do
    let (key, r) ← pStr toks
    let (country, r) ← pStr r
    let (n, r) ← pNat r
    let (ext, r) ← pMany pPair n r
    let (base, r) ← pAmount r
    let (pct, r) ← pOptAmount r
    let (sp, r) ← pOptAmount r
    let (sa, r) ← pOptAmount r
    let (amount, r) ← pAmount r
    let sur : Option Surcharge := match sp, sa with
      | some p, some a => some ⟨⟨p⟩, a⟩
      | _, _ => none
    pure ({ key, country, ext, base, percent := pct.map Pct.mk, surcharge := sur, amount }, r)
  | _ => none

def pCat : P CategoryTotal
  | "C" :: toks => do
    let (code, r) ← pStr toks
    let (ret, r) ← pNat r
    let (amount, r) ← pAmount r
    let (sur, r) ← pOptAmount r
    let (amountP, r) ← pAmount r
    let (n, r) ← pNat r
    let (rates, r) ← pMany pRate n r
    pure ({ code, retained := ret == 1, rates, amount, surcharge := sur, amountP }, r)
  | _ => none

def pTotal : P Total
  | "T" :: toks => do
    let (sum, r) ← pAmount toks
    let (sumP, r) ← pAmount r
    let (n, r) ← pNat r
    let (cats, r) ← pMany pCat n r
    pure ({ categories := cats, sum, sumP }, r)
  | _ => none

def pOptTotal : P (Option Total)
  | "N" :: rest => some (none, rest)
  | toks => (pTotal toks).map fun (t, r) => (some t, r)

/-- Go result: a total or `panic` -/
def pGo : P (Option Total)
  | "panic" :: rest => some (none, rest)
  | toks => (pTotal toks).map fun (t, r) => (some t, r)

/-! printing -/

def sA (a : Amount) : String := s!"{a.value}:{a.exp}"
def sOA : Option Amount → String | none => "-" | some a => sA a

def sRate (r : RateTotal) : String :=
  let ext := " ".intercalate (r.ext.map fun (k, v) => s!"{hexStr k} {hexStr v}")
  let sp := match r.surcharge with | none => "- -" | some s => s!"{sA s.percent.amount} {sA s.amount}"
  s!"R {hexStr r.key} {hexStr r.country} {r.ext.length}{if r.ext.isEmpty then "" else " " ++ ext} {sA r.base} {sOA (r.percent.map (·.amount))} {sp} {sA r.amount}"

def sCat (c : CategoryTotal) : String :=
  let rs := " ".intercalate (c.rates.map sRate)
  s!"C {hexStr c.code} {if c.retained then 1 else 0} {sA c.amount} {sOA c.surcharge} {sA c.amountP} {c.rates.length}{if c.rates.isEmpty then "" else " " ++ rs}"

def sTotal (t : Total) : String :=
  let cs := " ".intercalate (t.categories.map sCat)
  s!"T {sA t.sum} {sA t.sumP} {t.categories.length}{if t.categories.isEmpty then "" else " " ++ cs}"

def sOptTotal : Option Total → String | none => "N" | some t => sTotal t

def b01 (b : Bool) : String := if b then "1" else "0"

/-! int64 range of everything in a total -/

def okA (a : Amount) : Bool := inI64 a.value
def okRate (r : RateTotal) : Bool := okA r.base && okA r.amount && (match r.surcharge with | none => true | some s => okA s.amount)
def okCat (c : CategoryTotal) : Bool := okA c.amount && okA c.amountP && (match c.surcharge with | none => true | some s => okA s) && c.rates.all okRate
def okTotal (t : Total) : Bool := okA t.sum && okA t.sumP && t.categories.all okCat

/-- the common precision of a summary, if it has one -/
def uniformExp (t : Total) : Option Nat := if uniform t.sum.exp t then some t.sum.exp else none

def commonExp (a b : Total) : Option Nat :=
  match uniformExp a, uniformExp b with
  | some e, some f => if e == f then some e else none
  | _, _ => none

def sDom : Option Nat → String | none => "-" | some e => toString e

/-- mixed precisions make `Amount.Add` go through `Rescale`, which may overflow int64 when scaling up -/
def scaleSafe (t : Total) : Bool :=
  okTotal t

def handleMerge (a b : Total) (g : Option Total) : String :=
  let r := a.merge b
  let m := if okTotal r then sTotal r else "undef"
  let dom := commonExp a b
  let p := match dom, g with
    | some e, some out => mergeOracle e a b out
    | some _, none => false
    | none, _ => true
  s!"m {m} dom {sDom dom} wf {b01 (wellFormed a && wellFormed b)} dup {b01 (!(noDuplicates a && noDuplicates b))} P {b01 p}"

def handle (toks : List String) : String :=
  match toks with
  | "merge" :: rest =>
    match pTotal rest with
    | some (a, r) => match pTotal r with
      | some (b, r) => match pGo r with
        | some (g, []) => handleMerge a b g
        | _ => "bad-args"
      | none => "bad-args"
    | none => "bad-args"
  | "negate" :: rest =>
    match pTotal rest with
    | some (a, r) => match pTotal r with
      | some (g, []) =>
        let m := a.negate
        s!"m {if okTotal m then sTotal m else "undef"} P {b01 (isNegationOf a g)}"
      | _ => "bad-args"
    | none => "bad-args"
  | "zero" :: rest =>
    match pTotal rest with
    | some (a, r) => match pGo r with
      | some (g, []) =>
        let n := a.negate
        let r := a.merge n
        let m := if okTotal r && okTotal n then sTotal r else "undef"
        let p := match g with | some out => allZero out | none => false
        s!"m {m} dup {b01 (!noDuplicates a)} P {b01 p}"
      | _ => "bad-args"
    | none => "bad-args"
  | "comm" :: rest =>
    match pTotal rest with
    | some (a, r) => match pTotal r with
      | some (b, r) => match pGo r with
        | some (g1, r) => match pGo r with
          | some (g2, []) =>
            let dom := commonExp a b
            let p := match g1, g2 with
              | some x, some y => sameUpToOrder x y
              | _, _ => false
            s!"dom {sDom dom} dup {b01 (!(noDuplicates a && noDuplicates b))} P {b01 p}"
          | _ => "bad-args"
        | none => "bad-args"
      | none => "bad-args"
    | none => "bad-args"
  | "matches" :: rest =>
    match pRate rest with
    | some (a, r) => match pRate r with
      | some (b, []) => s!"m {b01 (a.matches b)} s {b01 (sameGroup a b)}"
      | _ => "bad-args"
    | none => "bad-args"
  | "calc" :: e :: rr :: rest =>
    match parseNat? e, parseNat? rr, pTotal rest with
    | some e, some rr, some (t, []) =>
      let m := t.calculate e (rr == 1)
      s!"m {if okTotal m then sTotal m else "undef"}"
    | _, _, _ => "bad-args"
  | "pay" :: rest => (do
      let (cur, r) ← pStr rest
      let (curExp, r) ← pNat r
      let (rr, r) ← pNat r
      let (total, r) ← pAmount r
      let (nr, r) ← pNat r
      let pRateX : P ExchangeRate := fun toks => do
        let (f, r) ← pStr toks
        let (t, r) ← pStr r
        let (a, r) ← pAmount r
        let (te, r) ← pNat r
        pure ({ «from» := f, to := t, amount := a, toExp := te }, r)
      let (rates, r) ← pMany pRateX nr r
      let (nl, r) ← pNat r
      let pLine : P PaymentLine := fun toks =>
        match toks with
        | "L" :: toks => do
          let (c, r) ← pStr toks
          let (d, r) ← pOptAmount r
          let (cr, r) ← pOptAmount r
          match r with
          | "-" :: r => pure ({ currency := c, debit := d, credit := cr, document := none }, r)
          | "D" :: r => do
            let (v, r) ← pNat r
            let (de, r) ← pNat r
            let (t, r) ← pOptTotal r
            pure ({ currency := c, debit := d, credit := cr, document := some { docValid := v == 1, docExp := de, tax := t } }, r)
          | _ => none
        | _ => none
      let (lines, r) ← pMany pLine nl r
      if !r.isEmpty then none else
      let p : Payment := { currency := cur, curExp, roundingCurrency := rr == 1, rates, lines, total }
      -- specification: Σ convertSpec(debit) − convertSpec(credit), single exact rounding per amount
      let rateOf (l : PaymentLine) : Option Rat :=
        if l.currency == "" || l.currency == cur || (l.debit.isNone && l.credit.isNone) then some 1
        else (rates.find? (fun (r : ExchangeRate) => r.from == l.currency && r.to == cur)).map (fun (r : ExchangeRate) => r.amount.toRat)
      let side (q : Rat) (x : Option Amount) : Int := match x with | none => 0 | some a => (convertSpec q curExp a).value
      let specLines : Option (List (Int × Int)) := lines.mapM fun l => (rateOf l).map fun q => (side q l.debit, side q l.credit)
      let spec := match specLines with
        | none => "-"
        | some ls => if ls.isEmpty then "-" else sA ⟨totalOf ls, curExp⟩
      match p.calculate with
      | .error .noRate => pure s!"m err noRate s {spec}"
      | .error .docCurrency => pure s!"m err docCurrency s {spec}"
      | .ok res =>
        let okT := match res.tax with | none => true | some t => okTotal t
        if res.lineTotals.all okA && okA res.total && okT then
          pure s!"m ok {res.lineTotals.length} {" ".intercalate (res.lineTotals.map sA)}{if res.lineTotals.isEmpty then "" else " "}{sA res.total} {sOptTotal res.tax} s {spec}"
        else pure s!"m undef s {spec}").getD "bad-args"
  | _ => "bad-op"

end Driver.C20
