/-
  C14: three places of the envelope API where the input controls a pointer
  that the code used to dereference, modelled with every pointer explicit:

    * `Envelope.verifySignature` / `Header.Contains`   (/repo envelope.go, head/header.go)
        - `e.Head` may be nil (`"head": null` parses);
        - an element of `stamps` / `links` read from a JSON `null` is a nil
          pointer, in the envelope's own header (when the envelope was read
          with `json.Unmarshal`: `gobl.Parse` refuses it) and in the header a
          signature signs (the JWS payload: never seen by `gobl.Parse`);
    * `Envelope.Sign` / `dsig.PrivateKey.Validate`      (envelope.go, dsig/key.go)
        - the key may be nil, or hold no key material (`jwk == nil`);
    * `bill.calculateOrgDocumentRefs`                   (bill/calculator.go)
        - an entry of `preceding` may be nil, its currency may be unknown
          (`Code.Def() == nil`).

  For each there is the function as it is now (guarded; /repo ce09676,
  f6bf443, d87a85b, 888d657, ea38065, 17c3526) and the function as it was at
  87b8cf5 (`…Old`), which panics: the counter-examples of Props/C14 are stated
  about the latter.  The harness families `signed-*`, `sigpayload:`,
  `schema-add2:` and `nilarg` (harness/props/c14) exercise exactly these
  inputs on the real code.

  Core Lean only.
-/
import GoblVerif.Model.Panics

namespace GoblVerif.Panics

/-! ### Header.Contains -/

/-- what `Contains` compares of a stamp (provider, value) or a link (key, url) -/
abbrev Entry := String × String

/-- a header as far as pointers matter; `none` in a list is a JSON `null` in the array -/
structure PHeader where
  uuid : String
  dig : Option String
  stamps : List (Option Entry)
  links : List (Option Entry)
deriving DecidableEq, Repr

def containsSite : String := "head.(*Header).Contains"

/-- the inner loop: `for _, s := range h.Stamps { if s.Provider == s2.Provider && s.Value == s2.Value {…} }`;
    `s` (an element of the receiver's list) is dereferenced first, then `s2` -/
def entryIn (s2 : Option Entry) : List (Option Entry) → Outcome Bool
  | [] => .ok false
  | none :: _ => .panic containsSite
  | some s :: rest =>
    match s2 with
    | none => .panic containsSite
    | some t => if s = t then .ok true else entryIn s2 rest

/-- the outer loop: `for _, s2 := range h2.Stamps { …; if !match { return false } }` -/
def allIn (own : List (Option Entry)) : List (Option Entry) → Outcome Bool
  | [] => .ok true
  | s2 :: rest =>
    match entryIn s2 own with
    | .ok true => allIn own rest
    | .ok false => .ok false
    | .err k => .err k
    | .panic s => .panic s

/-- `h2.Digest != nil && (h.Digest == nil || h.Digest.String() != h2.Digest.String())` -/
def digMismatch (h h2 : PHeader) : Bool :=
  match h2.dig with
  | none => false
  | some d => h.dig != some d

/-- stamps, then links, then the rest -/
def bothIn (rest : Bool) (a b : Outcome Bool) : Outcome Bool :=
  match a with
  | .ok true =>
    match b with
    | .ok true => .ok rest
    | o => o
  | o => o

/-- `h.Contains(h2)` for non-nil `h`, `h2`.  Tags, meta and notes hold no
    pointers: whether they are contained is the datum `rest`. -/
def containsP (rest : Bool) (h h2 : PHeader) : Outcome Bool :=
  if h.uuid != h2.uuid || digMismatch h h2 then .ok false
  else bothIn rest (allIn h.stamps h2.stamps) (allIn h.links h2.links)

/-- `schema.CheckNullElements(h) != nil` for a header -/
def hasNullEntries (h : PHeader) : Bool := h.stamps.any (·.isNone) || h.links.any (·.isNone)

/-! ### Envelope.verifySignature -/

/-- a signature as `verifySignature` sees it: the JWS payload read into a
    header (`none`: the signature entry is nil or empty, or the payload is not
    a header), and for each of the keys given whether the JWS verifies under it -/
structure PSig where
  payload : Option PHeader
  verifiesUnder : List Bool
deriving DecidableEq, Repr

inductive VerdictP
  | ok | mismatch | badPayload | noKey
deriving DecidableEq, Repr

def verdictOf : Outcome Bool → Outcome VerdictP
  | .ok true => .ok .ok
  | .ok false => .ok .mismatch
  | .err k => .err k
  | .panic s => .panic s

/-- what follows `UnsafePayload` / a successful `VerifyPayload`: the null check
    of the signed header, then `Contains` -/
def afterPayload (rest : Bool) (h p : PHeader) : Outcome VerdictP :=
  if hasNullEntries p then .ok .badPayload else verdictOf (containsP rest h p)

/-- `Envelope.verifySignature` as it is now -/
def verifySignatureP (rest : Bool) (head : Option PHeader) (sig : PSig) : Outcome VerdictP :=
  match head with
  | none => .ok .mismatch                               -- `e.Head == nil`
  | some h =>
    if hasNullEntries h then .ok .mismatch              -- `schema.CheckNullElements(e.Head) != nil`
    else if sig.verifiesUnder.isEmpty then              -- `len(keys) == 0`
      match sig.payload with
      | none => .ok .badPayload
      | some p => afterPayload rest h p
    else if sig.verifiesUnder.any id then               -- the first key under which `VerifyPayload` succeeds
      match sig.payload with
      | none => .ok .noKey                              -- `VerifyPayload` fails for every key: `continue`
      | some p => afterPayload rest h p
    else .ok .noKey

/-- `Envelope.verifySignature` as it was at 87b8cf5: no guard.  `e.Head.Contains(h)`
    on a nil `e.Head` calls the method, whose first statement reads `h.UUID`. -/
def verifySignatureOld (rest : Bool) (head : Option PHeader) (sig : PSig) : Outcome VerdictP :=
  let decide (p : PHeader) : Outcome VerdictP :=
    match head with
    | none => .panic containsSite
    | some h => verdictOf (containsP rest h p)
  if sig.verifiesUnder.isEmpty then
    match sig.payload with
    | none => .ok .badPayload
    | some p => decide p
  else if sig.verifiesUnder.any id then
    match sig.payload with
    | none => .ok .noKey
    | some p => decide p
  else .ok .noKey

/-! ### Envelope.Sign -/

/-- the private key handed to `Sign`: a nil pointer, a key without key
    material (`jwk == nil`), or a key (`valid`: whether the rest of `Validate` accepts it) -/
inductive PKey
  | nil | empty | key (valid : Bool)
deriving DecidableEq, Repr

def keyValidateSite : String := "dsig.(*PrivateKey).Validate"

/-- `(*PrivateKey).Validate() == nil` as it is now: `k == nil || k.jwk == nil` → "key not set" -/
def keyValid : PKey → Outcome Bool
  | .nil => .ok false
  | .empty => .ok false
  | .key v => .ok v

/-- at 87b8cf5: `k.jwk == nil` on a nil `k` -/
def keyValidOld : PKey → Outcome Bool
  | .nil => .panic keyValidateSite
  | .empty => .ok false
  | .key v => .ok v

/-- `Envelope.Sign(key)`: header required; `key.Sign(e.Head)` → `NewSignature` →
    `key.Validate()`; then `Validate` of the envelope (`validAfter`) -/
def signWith (kv : PKey → Outcome Bool) (headPresent : Bool) (k : PKey) (validAfter : Bool) : Outcome Unit :=
  if !headPresent then .err "validation"
  else
    match kv k with
    | .panic s => .panic s
    | .err e => .err e
    | .ok false => .err "signature"
    | .ok true => if validAfter then .ok () else .err "validation"

def signP := signWith keyValid
def signOld := signWith keyValidOld

/-! ### bill.calculateOrgDocumentRefs -/

/-- a preceding document reference: its currency ("" = none) and whether it carries a tax summary -/
structure PRef where
  currency : String
  hasTax : Bool
deriving DecidableEq, Repr

def zeroSite : String := "currency.(*Def).Zero"
def refsSite : String := "bill.calculateOrgDocumentRefs"

/-- the currency a reference is calculated in: its own, else the document's -/
def PRef.effective (docCur : String) (r : PRef) : String := if r.currency = "" then docCur else r.currency

/-- as it is now: nil entries skipped, every reference falls back to the
    DOCUMENT's currency, an unknown currency is an error (surfaced by
    `Envelope.calculate` under the key `calculation`) -/
def calcRefs (known : String → Bool) (docCur : String) : List (Option PRef) → Outcome Unit
  | [] => .ok ()
  | none :: rest => calcRefs known docCur rest
  | some r :: rest => if known (r.effective docCur) then calcRefs known docCur rest else .err "calculation"

/-- at 87b8cf5: `drs.Currency` on a nil entry; the currency of a reference
    stays in force for the following ones; `drs.Calculate(cur, rr)` reaches
    `cur.Def().Zero()` when the reference has a tax summary -/
def calcRefsOld (known : String → Bool) : String → List (Option PRef) → Outcome Unit
  | _, [] => .ok ()
  | _, none :: _ => .panic refsSite
  | cur, some r :: rest =>
    let cur' := if r.currency = "" then cur else r.currency
    if r.hasTax && !known cur' then .panic zeroSite else calcRefsOld known cur' rest

end GoblVerif.Panics
