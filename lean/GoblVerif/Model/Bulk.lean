/-
  Model of the bulk dispatcher, /repo/internal/cli/bulk.go `Bulk`:

      dec := json.NewDecoder(opts.In)
      resCh := make(chan *BulkResponse, 1)
      wg := &sync.WaitGroup{}
      go func() {                                   -- the READER
        var seq int64
        defer close(resCh)
        for {
          seq := atomic.AddInt64(&seq, 1)
          var req BulkRequest
          err := dec.Decode(&req)
          if err != nil {                           -- EOF *or* a decode error: same path
            wg.Wait()
            res := &BulkResponse{ReqID: req.ReqID, SeqID: seq, IsFinal: true}
            if err != io.EOF { res.Error = wrapError(422, err) }
            resCh <- res
            return
          }
          wg.Add(1)
          go func() {                               -- a WORKER
            resCh <- processRequest(ctx, req, seq, opts)
            wg.Done()
          }()
        }
      }()
      return resCh            -- the CONSUMER (cmd/gobl bulk, serve POST /bulk) ranges over it

  It is a labelled transition system.  The input is abstracted as the list of
  requests that decode successfully followed by a `Tail` (clean EOF, or a
  decode failure with whatever request id the partial decode left in `req`):
  nothing after the first failure is ever read, so this loses nothing.  A
  worker is the closure `(req, seq)`; `f` is `processRequest` seen as a
  function of the request (its result does not depend on `seq` apart from the
  `SeqID` member, and the model sets that member itself).  The channel is a
  FIFO buffer of capacity `cap` (1 in the code) plus the list `out` of what
  the single consumer has received so far.

  Core Lean only.
-/
namespace GoblVerif.Bulk

/-- one decoded `BulkRequest`: its opaque request id and everything else -/
structure Req (α : Type) where
  reqId : String
  body : α
deriving Repr

/-- one `BulkResponse` -/
structure Resp (β : Type) where
  reqId : String
  seq : Nat
  /-- payload-or-error of `processRequest`; `none` on the final marker -/
  payload : Option β
  isFinal : Bool
  /-- the final marker carries a decode error (input did not end cleanly) -/
  err : Bool
deriving DecidableEq, Repr

/-- how the request stream ends: clean EOF, or a value that fails to decode
    (`partialId` = the `req_id` the failed decode left behind, usually "") -/
inductive Tail
  | eof
  | bad (partialId : String)
deriving DecidableEq, Repr

def Tail.reqId : Tail → String
  | .eof => ""
  | .bad s => s

def Tail.isErr : Tail → Bool
  | .eof => false
  | .bad _ => true

/-- static parameters of one run -/
structure Cfg (α β : Type) where
  reqs : List (Req α)
  tail : Tail
  f : Req α → β
  cap : Nat

inductive RPhase
  | reading   -- in the decode loop
  | waiting   -- decode returned an error / EOF: blocked in wg.Wait()
  | closed    -- final marker sent, channel closed, reader returned
deriving DecidableEq, Repr

/-- a worker goroutine that has not yet sent: the closure (req, seq) -/
abbrev Worker (α : Type) := Req α × Nat

structure State (α β : Type) where
  /-- input not yet decoded -/
  pending : List (Req α)
  /-- number of successful decodes so far (the `seq` counter minus the
      increment of the iteration in progress) -/
  next : Nat
  /-- workers spawned that have not yet sent their response -/
  running : List (Worker α)
  /-- workers that have sent but not yet called `wg.Done()` -/
  sent : Nat
  phase : RPhase
  /-- channel buffer, oldest first -/
  buf : List (Resp β)
  /-- what the consumer has received, oldest first -/
  out : List (Resp β)

variable {α β : Type}

/-- the response worker `(req, seq)` sends: the request's own id and seq, `f req` -/
def respOf (c : Cfg α β) (w : Worker α) : Resp β :=
  { reqId := w.1.reqId, seq := w.2, payload := some (c.f w.1), isFinal := false, err := false }

/-- the final marker sent when `n` requests were decoded before the end -/
def finalOf (c : Cfg α β) (n : Nat) : Resp β :=
  { reqId := c.tail.reqId, seq := n + 1, payload := none, isFinal := true, err := c.tail.isErr }

/-- the workers the reader creates for requests `rs` when the first gets seq `k` -/
def workersFrom : Nat → List (Req α) → List (Worker α)
  | _, [] => []
  | k, r :: rs => (r, k) :: workersFrom (k + 1) rs

/-- the responses owed to requests `rs` when the first has position `k` -/
def expectedFrom (c : Cfg α β) (k : Nat) (rs : List (Req α)) : List (Resp β) :=
  (workersFrom k rs).map (respOf c)

/-- SPEC side: request i (1-based) is owed exactly (req_idᵢ, i, f reqᵢ) -/
def expected (c : Cfg α β) : List (Resp β) := expectedFrom c 1 c.reqs

/-- the single final marker owed: seq n+1 -/
def finalResp (c : Cfg α β) : Resp β := finalOf c c.reqs.length

def init (c : Cfg α β) : State α β :=
  { pending := c.reqs, next := 0, running := [], sent := 0, phase := .reading, buf := [], out := [] }

/-- the atomic steps; a schedule is a list of these -/
inductive Label
  | read            -- reader: Decode succeeds, wg.Add(1), spawn worker
  | stop            -- reader: Decode fails (EOF or error); reader enters wg.Wait()
  | send (k : Nat)  -- the k-th running worker computes and sends on resCh
  | done            -- a worker that has sent calls wg.Done()
  | final           -- reader: wg.Wait() returned; send final marker; close
  | recv            -- consumer receives the oldest buffered response
deriving DecidableEq, Repr

/-- one step; `none` when the step is not enabled in `s` -/
def step (c : Cfg α β) (s : State α β) : Label → Option (State α β)
  | .read =>
    match s.phase, s.pending with
    | .reading, r :: rest =>
      some { s with pending := rest, next := s.next + 1, running := s.running ++ [(r, s.next + 1)] }
    | _, _ => none
  | .stop =>
    match s.phase, s.pending with
    | .reading, [] => some { s with phase := .waiting }
    | _, _ => none
  | .send k =>
    match s.running[k]? with
    | some w =>
      if s.buf.length < c.cap then
        some { s with running := s.running.eraseIdx k, sent := s.sent + 1, buf := s.buf ++ [respOf c w] }
      else none
    | none => none
  | .done =>
    match s.sent with
    | n + 1 => some { s with sent := n }
    | 0 => none
  | .final =>
    match s.phase, s.running, s.sent with
    | .waiting, [], 0 =>
      if s.buf.length < c.cap then
        some { s with phase := .closed, buf := s.buf ++ [finalOf c s.next] }
      else none
    | _, _, _ => none
  | .recv =>
    match s.buf with
    | r :: rest => some { s with buf := rest, out := s.out ++ [r] }
    | [] => none

/-- run a schedule; `none` if some choice was not enabled -/
def exec (c : Cfg α β) (s : State α β) : List Label → Option (State α β)
  | [] => some s
  | l :: ls => match step c s l with
    | some s' => exec c s' ls
    | none => none

/-- the consumer's `range` loop ends: channel closed and drained -/
def terminated (s : State α β) : Bool :=
  s.phase == .closed && s.buf.isEmpty

/-- reachable from the initial state by some schedule -/
def Reachable (c : Cfg α β) (s : State α β) : Prop :=
  ∃ sched, exec c (init c) sched = some s

/-- everything sent so far, in channel order -/
def State.stream (s : State α β) : List (Resp β) := s.out ++ s.buf

/-- steps left: each step lowers it by exactly one -/
def State.measure (s : State α β) : Nat :=
  4 * s.pending.length + 3 * s.running.length + s.sent + s.buf.length +
    (match s.phase with | .reading => 3 | .waiting => 2 | .closed => 0)

/-! ## the decidable trace acceptor -/

/-- `obs` is an admissible response stream for the run `c`: the last element
    is the final marker with seq n+1, what precedes it is a permutation of
    the owed responses -/
def validTrace [DecidableEq β] (c : Cfg α β) (obs : List (Resp β)) : Bool :=
  match obs.getLast? with
  | none => false
  | some l => decide (l = finalResp c) && obs.dropLast.isPerm (expected c)

/-- the canonical schedule producing the body `body` then the marker
    (used for the soundness direction): which running worker owns response r -/
def ownerIdx [DecidableEq β] (c : Cfg α β) (ws : List (Worker α)) (r : Resp β) : Nat :=
  ws.findIdx (fun w => decide (respOf c w = r))

end GoblVerif.Bulk
