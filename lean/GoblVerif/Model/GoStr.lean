/-
  GoStr: the string primitives of Go that the go2lean translator refers to when
  a configuration switches strings on (harness/cmd/extract/go2lean_string.go).
  Core Lean only.  Part of the trusted base of Generated/TaxIdSrc.lean.

  REPRESENTATION.  A Go `string` (and every named string type mapped onto it,
  e.g. `cbc.Code`) is the `List Char` of its BYTES: the i-th element is
  `Char.ofNat b` for the i-th byte `b`.  This is the representation of
  Model/TaxId.lean (`Str`).

  ASSUMPTION "ASCII" (stated in the header of every generated file that uses
  strings).  Go indexes and slices bytes but `for _, r := range s`, `[]rune(s)`
  and `string(r)` work on runes (UTF-8 sequences).  The translation iterates the
  list, i.e. BYTES.  It is faithful for `s[i]`, `len(s)`, `s[a:b]`, `==`, `+`
  on every string, and for `range s`, `[]rune(s)`, `string(r)`, `string(b)` on
  strings all of whose bytes are below 0x80 (then byte = rune = character).
  The tax-identity checkers run after an ASCII format gate.

  PARTIALITY.  Go panics on `s[i]` with `i ≥ len(s)` and on `s[a:b]` with
  `a > b` or `b > len(s)`; here `byteAt` yields 0 and `slice` clamps.  Callers
  prove or assume the bounds (the format gates fix the lengths).

  ERRORS.  `error` is `Option Str` (nil = none, otherwise the message text,
  for `fmt.Errorf` the format text): only nil-ness is meant to be observed.
-/
namespace GoblVerif.GoStr

abbrev Str := List Char

/-- `s[i]` (a byte) -/
def byteAt (s : Str) (i : Nat) : Nat := (s.getD i (Char.ofNat 0)).toNat

/-- the rune that `range s` / `[]rune(s)` yields for one element (ASCII) -/
def runeOf (c : Char) : Int := (c.toNat : Int)

/-- `string(r)` for a rune `r` (ASCII) -/
def ofRune (r : Int) : Str := [Char.ofNat r.toNat]

/-- `string(b)` for a byte `b` (ASCII) -/
def ofByte (b : Nat) : Str := [Char.ofNat b]

/-- `[]rune(s)` (ASCII) -/
def runes (s : Str) : List Int := s.map runeOf

/-- `s[a:b]` -/
def slice (s : Str) (a b : Nat) : Str := (s.take b).drop a

/-- `unicode.IsDigit(r)` restricted to ASCII: `'0' ≤ r ≤ '9'` (outside ASCII
    Go also accepts the other decimal digits of category Nd) -/
def isDigitRune (r : Int) : Bool := decide (48 ≤ r ∧ r ≤ 57)

def isDig (c : Char) : Bool := decide (48 ≤ c.toNat ∧ c.toNat ≤ 57)

/-- value of a string of decimal digits -/
def digitsVal (s : Str) : Nat := s.foldl (fun n c => n * 10 + (c.toNat - 48)) 0

def errSyntax : Str := ['i', 'n', 'v', 'a', 'l', 'i', 'd', ' ', 's', 'y', 'n', 't', 'a', 'x']

/-- the unsigned part of `strconv.Atoi` -/
def atoiU (s : Str) : Option Nat :=
  if !s.isEmpty && s.all isDig then some (digitsVal s) else none

/-- `strconv.Atoi(s)` and `strconv.ParseInt(s, 10, 64)`: an optional sign, then
    one or more ASCII digits; anything else is a syntax error with value 0.
    Range errors (more than 18 digits) are NOT modelled: outside the domain. -/
def atoi (s : Str) : Int × Option Str :=
  match s with
  | '-' :: t => match atoiU t with
    | some n => (-(n : Int), none)
    | none => (0, some errSyntax)
  | '+' :: t => match atoiU t with
    | some n => ((n : Int), none)
    | none => (0, some errSyntax)
  | _ => match atoiU s with
    | some n => ((n : Int), none)
    | none => (0, some errSyntax)

/-- decimal digits of a natural number, most significant first (fuel = the number itself + 1) -/
def natDigits : Nat → Nat → Str → Str
  | 0, _, acc => acc
  | f + 1, n, acc =>
    let acc := Char.ofNat (48 + n % 10) :: acc
    if n / 10 = 0 then acc else natDigits f (n / 10) acc

/-- `strconv.Itoa(i)`, `strconv.FormatInt(i, 10)`, `%d` -/
def itoa (i : Int) : Str :=
  if i < 0 then '-' :: natDigits (i.natAbs + 1) i.natAbs [] else natDigits (i.toNat + 1) i.toNat []

/-- `fmt.Sprintf("%02d", i)`: at least two characters, padded with zeros (the sign counts) -/
def fmt02d (i : Int) : Str :=
  let d := itoa i
  if 0 ≤ i ∧ d.length < 2 then '0' :: d else d

/-- `errors.New(m)`; `fmt.Errorf(f, …)` with the format text for `m` (never nil) -/
def errNew (m : String) : Option Str := some m.toList

/-- `strings.HasPrefix(s, p)` -/
def hasPrefix (s p : Str) : Bool := p.isPrefixOf s

/-- `strings.Index(s, sub)`: byte offset of the first occurrence, `-1` when absent -/
def index : Str → Str → Int
  | [], sub => if sub.isEmpty then 0 else -1
  | c :: cs, sub =>
    if sub.isPrefixOf (c :: cs) then 0
    else match index cs sub with
      | .negSucc _ => -1
      | .ofNat k => (k : Int) + 1

/-- lookup in a map literal (the keys of a Go map literal are distinct): zero value when absent -/
def mapGet {κ ν : Type} [BEq κ] (m : List (κ × ν)) (k : κ) (zero : ν) : ν :=
  match m.lookup k with
  | some v => v
  | none => zero

/-- `v, ok := m[k]` -/
def mapGet2 {κ ν : Type} [BEq κ] (m : List (κ × ν)) (k : κ) (zero : ν) : ν × Bool :=
  match m.lookup k with
  | some v => (v, true)
  | none => (zero, false)

end GoblVerif.GoStr
