/-
  TaxIdRe: the DECLARED PRIMITIVE behind `(*regexp.Regexp).MatchString` in
  Generated/TaxIdSrc.lean.  Core Lean only.

  The go2lean translator does not interpret regular expressions.  A compiled
  regexp is translated to its pattern TEXT, and `re.MatchString(s)` to
  `reMatch pattern s`.  `reMatch` is a table: each pattern text that occurs in
  /repo/regimes/*/tax_identity.go is given the matcher that Model/TaxId.lean
  states for it (`matchSeq` over single-character classes).  That a table
  entry says what Go's regexp engine does for that text is TRUSTED — it is the
  same trust Model/TaxId.lean already asks for its `fmt` functions (the texts
  are pinned by Generated/TaxIdFacts, the behaviour is sampled by the
  differential run of the C13 harness).  A text that is not in the table matches
  nothing and has `reKnown = false`; Props/C13 proves `reKnown` for every
  pattern the regimes compile, so a changed pattern breaks that theorem.

  Strings are `List Char` as everywhere in Model/TaxId.lean.  The MX patterns
  contain `Ñ`: the model reads it as ONE character, a Go string holds it as two
  bytes; the two readings agree on what they accept once the string is decoded,
  which is how the harness feeds the model.
-/
import GoblVerif.Model.TaxId

namespace GoblVerif.TaxId.Re

def table : List (String × (Str → Bool)) := [
  ("^\\d{15}$", AE.regime),
  ("^U\\d{8}$", AT.fmt),
  ("^0?\\d{9}$", BE.fmt),
  ("^E\\d{9}$", CH.fmt),
  ("^[1-9]\\d{8}$", DE.fmt),
  ("^(?P<number>[0-9]{8})(?P<check>[TRWAGMYFPDXBNJZSQVHLCKE])$", ES.nationalRe),
  ("^(?P<type>[XYZ])(?P<number>[0-9]{7})(?P<check>[TRWAGMYFPDXBNJZSQVHLCKE])$", ES.foreignRe),
  ("^(?P<type>[KLM])(?P<number>[0-9]{7})(?P<check>[0-9JABCDEFGHI])$", ES.otherRe),
  ("^(?P<type>[ABCDEFGHJNPQRSUVW])(?P<number>[0-9]{7})(?P<check>[0-9JABCDEFGHI])$", ES.orgRe),
  ("^\\d{11}$", FR.vatRe),
  ("^\\d{9}$", FR.sirenRe),
  ("^\\d{12}$", matchSeq (rep 12 isDig)),
  ("^GD\\d{3}$", matchSeq (isCh 'G' :: isCh 'D' :: rep 3 isDig)),
  ("^HA\\d{3}$", matchSeq (isCh 'H' :: isCh 'A' :: rep 3 isDig)),
  ("^[0-9]{2}[A-Z]{5}[0-9]{4}[A-Z]{1}[1-9A-Z]{1}Z[0-9A-Z]{1}$", IN.fmt),
  ("^([A-ZÑ\\&]{4})([0-9]{6})([A-Z0-9]{3})$", MX.personRe),
  ("^([A-ZÑ\\&]{3})([0-9]{6})([A-Z0-9]{3})$", MX.companyRe),
  ("^[1-9]((\\d[1-9])|([1-9]\\d))\\d{7}$", PL.fmt)]

/-- `regexp.MustCompile(pattern).MatchString(s)` for the patterns of the table -/
def reMatch (pattern : String) (s : Str) : Bool :=
  match table.lookup pattern with
  | some f => f s
  | none => false

/-- the pattern text has an entry -/
def reKnown (pattern : String) : Bool := (table.lookup pattern).isSome

end GoblVerif.TaxId.Re
