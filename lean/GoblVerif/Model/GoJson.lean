/-
  GoJson: `json.Unmarshal(data, &text)` for a `text` of Go type `string`, the
  one call of `encoding/json` inside the text codec of /repo/num (`jsonText` of
  amount.go).  Generated/CodecSrc.lean refers to it as an OUT-ARGUMENT
  primitive (go2lean_codec.go): the result is the pair (new value of `text`,
  error).  Core Lean only.  Trusted; compared with the real `json.Unmarshal`
  by the `prims` family of harness/props/c06 (and, through `jsonText`, by the
  JSON token families of the differential run).

  DOMAIN: `data` starts with a double quote (the call site is guarded by
  `len(value) > 0 && value[0] == '"'`).  Then Go checks the whole of `data`
  with the scanner first (one string literal, white space after it) and
  reports a syntax error WITHOUT touching `text`; otherwise it stores the
  decoded string.  The decoding itself (escapes, surrogate pairs, U+FFFD for
  ill-formed UTF-8) is `Codec.jsonDecodeString` of Model/Codec.lean.  For data
  that does not start with a quote (`null`, numbers, …: never passed) this
  definition reports an error, which is NOT what Go does for `null`.
-/
import GoblVerif.Model.Codec
import GoblVerif.Model.GoStrings

namespace GoblVerif.GoJson
open GoblVerif.GoStr

def errJson : Str := ['i', 'n', 'v', 'a', 'l', 'i', 'd', ' ', 'J', 'S', 'O', 'N']

/-- `err := json.Unmarshal(data, &text)`: (`text` afterwards, `err`) -/
def unmarshalString (data : List Nat) (text : Str) : Str × Option Str :=
  match Codec.jsonDecodeString (GoStrings.ofBytes data) with
  | some t => (t, none)
  | none => (text, some errJson)

end GoblVerif.GoJson
