/-
  Model of /repo/head: `Header`, `Stamp`, `Link`, and the containment
  relation `Header.Contains` (head/header.go), written field by field from the
  Go code as it is now.  Core Lean only.

  Representation choices (stated, because they decide what the theorems mean):
  * `uuid.UUID` is a Go string and `UUID.String()` is the identity, so the
    identifier is a `String`;
  * `*dsig.Digest` is `Option Digest`; Go compares `Digest.String()`, i.e. the
    text `alg;val` (`Digest.str`);
  * `cbc.Meta` (a Go map) is an association list; a Go map has distinct keys,
    which is the well-formedness predicate `Header.WF` used where it matters;
  * slices of pointers (`[]*Stamp`, `[]*Link`) are lists of values: nil
    entries make the Go code panic and are outside the model.
-/
namespace GoblVerif

structure Digest where
  alg : String
  val : String
deriving DecidableEq, Repr, Inhabited

/-- `Digest.String()`: `fmt.Sprintf("%s;%s", alg, val)` -/
def Digest.str (d : Digest) : String := d.alg ++ ";" ++ d.val

structure Stamp where
  prv : String
  val : String
deriving DecidableEq, Repr, Inhabited

structure Link where
  key : String
  title : String := ""
  description : String := ""
  mime : String := ""
  url : String
deriving DecidableEq, Repr, Inhabited

abbrev Meta := List (String × String)

structure Header where
  uuid : String
  dig : Option Digest
  stamps : List Stamp
  links : List Link
  tags : List String
  metas : Meta
  notes : String
deriving DecidableEq, Repr, Inhabited

/-- the names of the Go struct fields the model's `contains` looks at, in the
    order of the Go function; pinned against the regenerated list -/
def containsFields : List String := ["UUID", "Digest", "Stamps", "Links", "Tags", "Meta", "Notes"]
/-- components of a stamp / link compared by `Contains` -/
def stampCompared : List String := ["Provider", "Value"]
def linkCompared : List String := ["Key", "URL"]

/-- a Go map has distinct keys -/
def Header.WF (h : Header) : Prop := (h.metas.map Prod.fst).Nodup

instance (h : Header) : Decidable h.WF := by unfold Header.WF; infer_instance

/-- `if h2.Digest != nil && h.Digest.String() != h2.Digest.String() { return false }`
    (since fix 290095d Go answers false for a nil `h.Digest`, as the model does
    — the harness never verifies an envelope whose own digest is nil, the
    panic belongs to C14) -/
def digContains (d d2 : Option Digest) : Bool :=
  match d2 with
  | none => true
  | some x2 =>
    match d with
    | some x => x.str == x2.str
    | none => false

def stampMatch (s s2 : Stamp) : Bool := s.prv == s2.prv && s.val == s2.val
def linkMatch (l l2 : Link) : Bool := l.key == l2.key && l.url == l2.url

/-- `v, ok := h.Meta[k2]; if !ok || v != v2 { return false }` -/
def metaMatch (m : Meta) (kv : String × String) : Bool := m.lookup kv.1 == some kv.2

/-- `func (h *Header) Contains(h2 *Header) bool` -/
def Header.contains (h h2 : Header) : Bool :=
  h.uuid == h2.uuid
  && digContains h.dig h2.dig
  && h2.stamps.all (fun s2 => h.stamps.any (fun s => stampMatch s s2))
  && h2.links.all (fun l2 => h.links.any (fun l => linkMatch l l2))
  && h2.tags.all (fun t2 => h.tags.any (fun t => t == t2))
  && h2.metas.all (fun kv => metaMatch h.metas kv)
  && (h2.notes == "" || h2.notes == h.notes)

/-! ## header mutations (head/stamps.go, head/link.go, plain field updates) -/

/-- `head.AddStamp`: replace the first stamp with the same provider in place, else append -/
def addStampL : List Stamp → Stamp → List Stamp
  | [], s => [s]
  | x :: xs, s => if x.prv == s.prv then s :: xs else x :: addStampL xs s

/-- `head.AppendLink`: replace the first link with the same key in place, else append -/
def addLinkL : List Link → Link → List Link
  | [], l => [l]
  | x :: xs, l => if x.key == l.key then l :: xs else x :: addLinkL xs l

/-- `h.Meta[k] = v` -/
def metaSet : Meta → String → String → Meta
  | [], k, v => [(k, v)]
  | x :: xs, k, v => if x.1 == k then (k, v) :: xs else x :: metaSet xs k v

def Header.addStamp (h : Header) (s : Stamp) : Header := { h with stamps := addStampL h.stamps s }
def Header.addLink (h : Header) (l : Link) : Header := { h with links := addLinkL h.links l }
def Header.addTag (h : Header) (t : String) : Header := { h with tags := h.tags ++ [t] }
def Header.setMeta (h : Header) (k v : String) : Header := { h with metas := metaSet h.metas k v }
def Header.setNotes (h : Header) (s : String) : Header := { h with notes := s }

/-- `DetectDuplicateStamps` / `DetectDuplicateLinks`: some key occurs twice -/
def dupKeys : List String → Bool
  | [] => false
  | k :: ks => ks.contains k || dupKeys ks

end GoblVerif

namespace GoblVerif.WrittenAgainst
/-! The Go text the header model was written against (head/header.go,
    stamps.go, link.go).  `Props/C09.lean` and `Props/C10.lean` pin the facts
    regenerated from /repo on every run to these. -/

def containsConds : List String :=
  ["h.UUID.String() != h2.UUID.String()",
   "h2.Digest != nil && (h.Digest == nil || h.Digest.String() != h2.Digest.String())",
   "s.Provider == s2.Provider && s.Value == s2.Value", "!match",
   "l.Key == l2.Key && l.URL == l2.URL", "!match",
   "t == t2", "!match",
   "!ok || v != v2",
   "h2.Notes != \"\" && h2.Notes != h.Notes"]
def containsRanges : List String :=
  ["h2.Stamps", "h.Stamps", "h2.Links", "h.Links", "h2.Tags", "h.Tags", "h2.Meta"]
def containsReturns : List String :=
  ["false", "false", "false", "false", "false", "false", "false", "true"]
def addStampConds : List String := ["in == nil", "v != nil && v.Provider == s.Provider"]
def addStampReturns : List String := ["[]*Stamp{s}", "in", "append(in, s)"]
def appendLinkConds : List String := ["l == nil", "v != nil && v.Key == l.Key"]
def appendLinkReturns : List String := ["list", "list", "append(list, l)"]
def copyInPlaceStamp : List String := ["*v = *s"]
def copyInPlaceLink : List String := ["*v = *l"]
def headerValidated : List String := ["UUID", "Digest", "Stamps", "Links"]
def rulesStamps : List String :=
  ["validation.When( !internal.IsSigned(ctx), validation.Empty, )", "validation.By(noNullEntries)",
   "DetectDuplicateStamps"]
/- `noNullEntries` (/repo f5b3b23) refuses a JSON null inside stamps / links: lists of the model
   hold entries only, so the rule never fires on a state the model can be in. -/
def rulesLinks : List String := ["validation.By(noNullEntries)", "DetectDuplicateLinks"]
def rulesDigest : List String := ["validation.Required"]
def stampInConds : List String := ["r != nil && s.Provider == r.Provider"]
def dupStampConds : List String := ["!ok", "v == nil", "v.In(set)"]
def dupLinkConds : List String := ["!ok || len(values) == 0", "v == nil", "l := LinkByKey(set, v.Key); l != nil"]

end GoblVerif.WrittenAgainst
