/-
  Payment: model of

    currency/exchange_rate.go   ExchangeRate.Convert, MatchExchangeRate, Convert
    bill/payment_line.go        PaymentLine.calculate
    org/document_ref.go         DocumentRef.Calculate
    bill/payment.go             Payment.calculate (the loop over the lines)

  with the faithful operations of Model/Num.lean (`Multiply` and `Rescale` go
  through float64).  The currency table is not modelled: the harness resolves
  every currency code it uses and passes the number of subunit digits
  (`cur.Def().Zero().Exp()`) along with the code (`toExp`, `curExp`, `docExp`),
  and whether a document's currency is defined (`docValid`).  Core Lean only.
-/
import GoblVerif.Model.Merge

namespace GoblVerif.Payment
open GoblVerif GoblVerif.Merge

/-- `currency.ExchangeRate`; `toExp` = `er.To.Def().Zero().Exp()` -/
structure ExchangeRate where
  «from» : String
  to     : String
  amount : Amount
  toExp  : Nat
deriving Repr, Inhabited

/-- `ExchangeRate.Convert` (as repaired by 6f2aa78): the product is rounded once,
    by `Multiply`, at the destination currency's precision `exp`.  An amount finer
    than `exp` hands its extra decimals to the rate (`MakeAmount(rate.Value(),
    rate.Exp()+extra)`, `MakeAmount(amount.Value(), exp)`: same product, divisor
    `10^(rate.exp+extra)`), a coarser one is raised first (`RescaleUp(exp)`,
    integer scaling). -/
def ExchangeRate.convert (er : ExchangeRate) (amount : Amount) : Amount :=
  let exp := er.toExp
  if amount.exp > exp then
    let extra := amount.exp - exp
    let rate : Amount := ⟨er.amount.value, er.amount.exp + extra⟩
    let amount : Amount := ⟨amount.value, exp⟩
    (amount.rescaleUp exp).multiply rate
  else
    (amount.rescaleUp exp).multiply er.amount

/-- `currency.MatchExchangeRate` -/
def matchExchangeRate (rates : List ExchangeRate) (frm to : String) : Option ExchangeRate :=
  if frm == to then none else rates.find? (fun r => r.from == frm && r.to == to)

/-- `currency.Convert` -/
def convert (rates : List ExchangeRate) (frm to : String) (amount : Amount) : Option Amount :=
  if frm == to then some amount else
  match matchExchangeRate rates frm to with
  | some r => some (r.convert amount)
  | none => none

/-- `org.DocumentRef` as far as `Payment.calculate` looks at it: the currency the
    tax summary is recalculated in (own currency or the payment's), resolved -/
structure DocumentRef where
  docValid : Bool      -- cur.Def() != nil
  docExp   : Nat       -- subunit digits of that currency
  tax      : Option Total
deriving Repr, Inhabited

structure PaymentLine where
  currency : String            -- "" when absent
  debit    : Option Amount
  credit   : Option Amount
  document : Option DocumentRef
deriving Repr, Inhabited

structure Payment where
  currency : String
  curExp   : Nat               -- pmt.Currency.Def().Zero().Exp()
  roundingCurrency : Bool      -- r.GetRoundingRule() == "currency"
  rates    : List ExchangeRate
  lines    : List PaymentLine
  total    : Amount            -- value before the calculation (overwritten: see `Payment.calculate`)
deriving Repr, Inhabited

inductive CalcError where
  | noRate        -- "no exchange rate found"
  | docCurrency   -- invalid document currency
deriving DecidableEq, Repr

/-- one side (debit or credit) of `PaymentLine.calculate` -/
def lineSide (pl : PaymentLine) (cur : String) (rates : List ExchangeRate) (x : Option Amount) :
    Except CalcError (Option Amount) :=
  match x with
  | none => .ok none
  | some d =>
    if pl.currency != "" then
      match convert rates pl.currency cur d with
      | none => .error .noRate
      | some a => .ok (some a)
    else .ok (some d)

/-- `PaymentLine.calculate`: the line total (note: the result of
    `pl.Total.MatchPrecision(a)` is discarded in the Go code, so the total keeps
    the currency's precision and `Add` rounds finer operands) -/
def PaymentLine.calculate (pl : PaymentLine) (cur : String) (curExp : Nat) (rates : List ExchangeRate) :
    Except CalcError Amount := do
  let total : Amount := ⟨0, curExp⟩
  let d ← lineSide pl cur rates pl.debit
  let total := match d with | some a => total.add a | none => total
  let c ← lineSide pl cur rates pl.credit
  let total := match c with | some a => total.sub a | none => total
  return total

/-- `DocumentRef.Calculate` followed by `Tax.Clone()` -/
def DocumentRef.calculated (dr : DocumentRef) (currency : Bool) : Option Total :=
  dr.tax.map fun t => (t.calculate dr.docExp currency).clone

structure Result where
  lineTotals : List Amount
  tax        : Option Total
  total      : Amount
deriving Repr, Inhabited

/-- loop state of `Payment.calculate`: line totals so far, `tt`, `total` -/
structure LoopState where
  lineTotals : List Amount
  tt         : Option Total
  total      : Option Amount
deriving Repr, Inhabited

def stepLine (p : Payment) (st : LoopState) (l : PaymentLine) : Except CalcError LoopState := do
  let lt ← l.calculate p.currency p.curExp p.rates
  let tt ←
    match l.document with
    | none => pure st.tt
    | some dr =>
      if !dr.docValid then throw .docCurrency else
      match dr.calculated p.roundingCurrency with
      | none => pure st.tt
      | some t =>
        match st.tt with
        | none => pure (some t)
        | some acc => pure (some (acc.merge t))
  let total := match st.total with | none => lt | some acc => acc.add lt
  return { lineTotals := st.lineTotals ++ [lt], tt := tt, total := some total }

def runLines (p : Payment) : List PaymentLine → LoopState → Except CalcError LoopState
  | [], st => .ok st
  | l :: ls, st => match stepLine p st l with
    | .error e => .error e
    | .ok st' => runLines p ls st'

/-- `num.AmountZero` -/
def amountZero : Amount := ⟨0, 0⟩

/-- `Payment.calculate` (after the currency has been determined): the total is the
    sum of the line totals, `num.AmountZero` when there is no line (fix 99b2945;
    whatever total the payment carried before is not looked at) -/
def Payment.calculate (p : Payment) : Except CalcError Result :=
  match runLines p p.lines ⟨[], none, none⟩ with
  | .error e => .error e
  | .ok st => .ok { lineTotals := st.lineTotals, tax := st.tt, total := st.total.getD amountZero }

end GoblVerif.Payment
