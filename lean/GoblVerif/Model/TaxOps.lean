/-
  TaxOps: the `num` primitives that the translated tax-summary code of
  Generated/TaxTotalsSrc.lean (go2lean over /repo/tax/totals.go) is written
  against, as a class, and the two readings the property files use:

  * `faithfulOps` — the faithful operations of Model/Num.lean (float detour
    included), the ones Model/Merge.lean is written with (C20);
  * `calcOps o`   — the operations of Model/Calc.lean over its rounding
    primitives `o : Calc.Ops` (C02; `exactOps` for the theorems, `floatOps` for
    the driver).

  The generated module declares `variable [NumOps]`: every translated
  definition takes the instance, so one translation serves both models.  What a
  method of num.Amount / num.Percentage *means* is therefore not decided by
  the translation but by the instance a theorem names; C05 ties the faithful
  reading to /repo/num.

  `Combo` and `TaxLine` are the two Go structs (tax.Combo, tax.taxLine) that no
  hand-written model represents field by field.  Core Lean only.
-/
import GoblVerif.Model.Merge
import GoblVerif.Model.Calc

namespace GoblVerif.TaxTotals

/-- the methods of num.Amount / num.Percentage that /repo/tax/totals.go calls -/
class NumOps where
  /-- `Amount.Add` -/
  add : Amount → Amount → Amount
  /-- `Amount.Subtract` -/
  sub : Amount → Amount → Amount
  /-- `Amount.Negate` -/
  negate : Amount → Amount
  /-- `Amount.Rescale` -/
  rescale : Amount → Nat → Amount
  /-- `Amount.RescaleUp` -/
  rescaleUp : Amount → Nat → Amount
  /-- `Amount.MatchPrecision` -/
  matchPrecision : Amount → Amount → Amount
  /-- `Amount.IsZero` -/
  isZero : Amount → Bool
  /-- `Amount.Remove` -/
  remove : Amount → Pct → Amount
  /-- `Percentage.Of` -/
  pctOf : Pct → Amount → Amount
  /-- `Percentage.Equals` -/
  pctEquals : Pct → Pct → Bool

/-- Model/Num.lean's faithful operations (what Model/Merge.lean uses) -/
@[reducible] def faithfulOps : NumOps where
  add := Amount.add
  sub := Amount.sub
  negate := Amount.negate
  rescale := Amount.rescale
  rescaleUp := Amount.rescaleUp
  matchPrecision := Amount.matchPrecision
  isZero := fun a => a.value == 0
  remove := Amount.remove
  pctOf := Pct.of
  pctEquals := Pct.equals

/-- Model/Calc.lean's operations over the rounding primitives `o` -/
@[reducible] def calcOps (o : Calc.Ops) : NumOps where
  add := Calc.add o
  sub := Calc.sub o
  negate := Calc.neg
  rescale := o.rescale
  rescaleUp := Calc.up
  matchPrecision := fun a b => Calc.up a b.exp
  isZero := fun a => a.value == 0
  remove := Calc.remove o
  pctOf := Calc.pctOf o
  pctEquals := Calc.pctEq

/-- `tax.Combo` (prepared: percent, surcharge and the retained flag are set) -/
structure Combo where
  category  : String
  country   : String
  rate      : String
  percent   : Option Pct
  surcharge : Option Pct
  ext       : List (String × String)
  retained  : Bool
deriving DecidableEq, Repr, Inhabited

/-- `cal.Date`: opaque here (only handed on to the rate resolution, which is C12's) -/
abbrev CalDate := String

/-- `tax.taxLine`: what `mapTaxLines` keeps of a `TaxableLine` (`GetTotal`, `GetTaxes`) -/
structure TaxLine where
  total : Amount
  taxes : List Combo
deriving DecidableEq, Repr, Inhabited

/-- `tax.TotalCalculator` (the currency is kept as its code; `zero` is the unexported field) -/
structure Calculator where
  country  : String
  rounding : String
  currency : String
  tags     : List String
  date     : CalDate
  lines    : List TaxLine
  includes : String
  zero     : Amount
deriving Repr, Inhabited

end GoblVerif.TaxTotals
