/-
  Model of correcting and replicating (C16):

    /repo/tax/corrections.go      CorrectionDefinition.Merge, CorrectionSet.Def
    /repo/bill/invoice_correct.go prepareCorrectionOptions, Invoice.Correct,
                                  correctionDef, validatePrecedingData
    /repo/bill/invoice_replicate.go Invoice.Replicate
    /repo/schema/object.go        Object.Clone / Correct / Replicate / Calculate (uuid)
    /repo/envelope.go             Envelope.Correct, Envelope.Replicate, Envelop, NewEnvelope

  Strings model cbc.Key / cbc.Code / uuid / dates ("" = zero value).  The
  business content of an invoice (parties, lines, totals …) is an opaque value
  of type `κ`.  `Calculate` is a parameter `calcF : Invoice κ → Option (Invoice κ)`
  (`none` = calculation error): what the theorems need from it is stated as
  the hypothesis `CalcKeeps`.  Fresh identifiers (uuid.V7) and today's date
  (cal.Today) are inputs.

  Core Lean only.
-/
namespace GoblVerif.Correct

/-- tax.CorrectionDefinition (for the invoice schema) -/
structure CorrectionDef where
  types : List String := []
  extensions : List String := []
  reasonRequired : Bool := false
  stamps : List String := []
  copyTax : Bool := false
deriving DecidableEq, Repr

/-- CorrectionDefinition.Merge (both for the same schema) -/
def CorrectionDef.merge (cd other : CorrectionDef) : CorrectionDef :=
  { types := cd.types ++ other.types
    extensions := cd.extensions ++ other.extensions
    reasonRequired := cd.reasonRequired || other.reasonRequired
    stamps := cd.stamps ++ other.stamps
    copyTax := cd.copyTax || other.copyTax }

/-- `cd.Merge(x.Corrections.Def(schema))` where the set may have no entry -/
def CorrectionDef.mergeOpt (cd : CorrectionDef) : Option CorrectionDef → CorrectionDef
  | none => cd
  | some o => cd.merge o

/-- Invoice.correctionDef: empty definition ⊕ regime ⊕ addons in order -/
def correctionDef (regime : Option CorrectionDef) (addons : List (Option CorrectionDef)) : CorrectionDef :=
  addons.foldl CorrectionDef.mergeOpt (({} : CorrectionDef).mergeOpt regime)

/-- head.Stamp -/
structure Stamp where
  provider : String
  value : String
deriving DecidableEq, Repr

/-- bill.CorrectionOptions after prepareCorrectionOptions has applied the
    option functions, appended the header stamps and overlaid the raw JSON -/
structure Options where
  type : String := ""
  issueDate : Option String := none
  series : String := ""
  stamps : List Stamp := []
  reason : String := ""
  ext : List (String × String) := []
  copyTax : Bool := false
deriving DecidableEq, Repr

/-- org.DocumentRef (members the property names) -/
structure DocRef where
  uuid : String
  type : String
  series : String
  code : String
  issueDate : String
  reason : String
  ext : List (String × String)
  stamps : List Stamp
  /-- copy of the source's tax totals (opaque) when requested -/
  tax : Option String
deriving DecidableEq, Repr

structure Invoice (κ : Type) where
  uuid : String
  type : String
  series : String
  code : String
  issueDate : String
  valueDate : Option String
  operationDate : Option String
  preceding : List DocRef
  /-- Totals.Taxes, opaque; none when the invoice has no totals -/
  totalsTax : Option String
  content : κ
deriving DecidableEq

/-- the same invoice with another identifier -/
def Invoice.withUuid {κ : Type} (u : String) (inv : Invoice κ) : Invoice κ :=
  ⟨u, inv.type, inv.series, inv.code, inv.issueDate, inv.valueDate, inv.operationDate, inv.preceding,
   inv.totalsTax, inv.content⟩

inductive Err
  | notCorrectable          -- "document cannot be corrected"
  | missingType             -- "missing correction type"
  | noCode                  -- "cannot correct an invoice without a code"
  | missingStamp (k : String)
  | typeNotAllowed          -- "invalid correction type: …"
  | reasonRequired          -- "missing corrective reason"
  | calculation             -- Calculate failed
deriving DecidableEq, Repr

/-- the stamp loop of validatePrecedingData: for every required provider, in
    order, the first stamp of the options with that provider; the first
    missing one is the error -/
def collectStamps (have_ : List Stamp) : List String → Except Err (List Stamp)
  | [] => .ok []
  | k :: ks =>
    match have_.find? (fun s => s.provider == k) with
    | none => .error (.missingStamp k)
    | some s =>
      match collectStamps have_ ks with
      | .ok rest => .ok (s :: rest)
      | .error e => .error e

variable {κ : Type}

/-- Invoice.Correct up to (not including) its final Calculate.
    Order of refusals as in the code: missing type, no code, missing stamp,
    type not allowed, reason required. -/
def Invoice.correctCore (cd : CorrectionDef) (o : Options) (today : String) (inv : Invoice κ) :
    Except Err (Invoice κ) :=
  if o.type = "" then .error .missingType
  else if inv.code = "" then .error .noCode
  else
    match collectStamps o.stamps cd.stamps with
    | .error e => .error e
    | .ok stamps =>
      if cd.types ≠ [] ∧ o.type ∉ cd.types then .error .typeNotAllowed
      else if cd.reasonRequired = true ∧ o.reason = "" then .error .reasonRequired
      else
        let pre : DocRef :=
          { uuid := inv.uuid, type := inv.type, series := inv.series, code := inv.code,
            issueDate := inv.issueDate, reason := o.reason, ext := o.ext, stamps := stamps,
            tax := if o.copyTax then inv.totalsTax else none }
        .ok { inv with
              uuid := "", type := o.type,
              series := if o.series = "" then inv.series else o.series,
              code := "",
              issueDate := o.issueDate.getD today,
              preceding := [pre] }

/-- Invoice.Correct = correctCore then Calculate -/
def Invoice.correct (calcF : Invoice κ → Option (Invoice κ)) (cd : CorrectionDef) (o : Options)
    (today : String) (inv : Invoice κ) : Except Err (Invoice κ) :=
  match inv.correctCore cd o today with
  | .error e => .error e
  | .ok r => match calcF r with
    | some r' => .ok r'
    | none => .error .calculation

/-- Invoice.Replicate -/
def Invoice.replicate (today : String) (inv : Invoice κ) : Invoice κ :=
  ⟨"", inv.type, inv.series, "", today, none, none, inv.preceding, inv.totalsTax, inv.content⟩

/-- gobl.Envelope (members the property names); `doc = none` models a
    document that is not an invoice (not Correctable / not Replicable) -/
structure Envelope (κ : Type) where
  headUuid : String
  headStamps : List Stamp
  doc : Option (Invoice κ)
  sigs : List String
deriving DecidableEq

/-- schema.Object.Calculate: give the payload a uuid when it has none, then Calculate -/
def objCalculate (calcF : Invoice κ → Option (Invoice κ)) (fresh : String) (inv : Invoice κ) :
    Option (Invoice κ) :=
  calcF (if inv.uuid = "" then inv.withUuid fresh else inv)

/-- gobl.Envelop: NewEnvelope (new header with a fresh uuid, no stamps, no
    signatures) + Insert (calculate) -/
def envelop (calcF : Invoice κ → Option (Invoice κ)) (freshHead freshDoc : String) (inv : Invoice κ) :
    Except Err (Envelope κ) :=
  match objCalculate calcF freshDoc inv with
  | some d => .ok { headUuid := freshHead, headStamps := [], doc := some d, sigs := [] }
  | none => .error .calculation

/-- Envelope.Correct: the header stamps are appended to the options' stamps
    (head.WithHead + prepareCorrectionOptions), the document is cloned,
    corrected and put in a completely new envelope.  The source is an
    argument and is not returned: in this functional model it cannot change
    (the harness compares the real source before and after). -/
def Envelope.correct (calcF : Invoice κ → Option (Invoice κ)) (cd : CorrectionDef) (o : Options)
    (today freshHead freshDoc : String) (e : Envelope κ) : Except Err (Envelope κ) :=
  match e.doc with
  | none => .error .notCorrectable
  | some inv =>
    match inv.correct calcF cd { o with stamps := o.stamps ++ e.headStamps } today with
    | .error err => .error err
    | .ok nd => envelop calcF freshHead freshDoc nd

/-- Envelope.Replicate (for an invoice document) -/
def Envelope.replicate (calcF : Invoice κ → Option (Invoice κ)) (today freshHead freshDoc : String)
    (e : Envelope κ) : Except Err (Envelope κ) :=
  match e.doc with
  | none => .error .notCorrectable   -- other document kinds are not modelled
  | some inv =>
    -- Object.Replicate: payload.Replicate(), then a uuid if none
    envelop calcF freshHead freshDoc ((inv.replicate today).withUuid freshDoc)

/-- the refusal, if any -/
def errOf {α : Type} : Except Err α → Option Err
  | .error e => some e
  | .ok _ => none

/-- the identifying part of a preceding row: everything but `ext` and `tax`
    (normalisers may move an extension from the row to the document level —
    es-verifactu-v1 does — and recalculate the copied totals) -/
def DocRef.ident (r : DocRef) : String × String × String × String × String × String × List Stamp :=
  (r.uuid, r.type, r.series, r.code, r.issueDate, r.reason, r.stamps)

/-- what the theorems need from Calculate: it keeps identification members
    and the identifying part of the preceding rows -/
structure CalcKeeps (calcF : Invoice κ → Option (Invoice κ)) : Prop where
  keeps : ∀ i j, calcF i = some j →
    j.uuid = i.uuid ∧ j.type = i.type ∧ j.series = i.series ∧ j.code = i.code ∧
    j.issueDate = i.issueDate ∧ j.preceding.map DocRef.ident = i.preceding.map DocRef.ident ∧
    j.valueDate = i.valueDate ∧ j.operationDate = i.operationDate

end GoblVerif.Correct
