/-
  Model of the digest part of /repo/envelope.go, /repo/dsig/digest.go and
  sha256.go (C08).  Core Lean only.

  Go                                   model
  -----------------------------------  ---------------------------------------
  json.Marshal(e.Document)             `doc : J` (the document as GOBL re-serialises it)
  c14n.CanonicalJSON                   `C14n.canon`
  dsig.NewSHA256Digest                 `sha256Digest` with an abstract hash `Hash.H`
  Envelope.Digest                      `digest`
  Digest.Equals                        `Dig.equals` (algorithm and value)
  Envelope.verifyDigest                `verifyDigest`
  Envelope.ValidateWithContext         `validate` (structural validation abstracted as `docValid`)
  Envelope.calculate                   `calculate` (the document's own Calculate abstracted as `docCalc`)

  The hash is a structure field `H` together with `inj`, the statement that it
  is injective on the byte strings it is applied to: SHA-256 collision
  resistance enters every theorem as an explicit hypothesis, not as an axiom.
-/
import GoblVerif.Model.C14n

namespace GoblVerif.Digest
open GoblVerif GoblVerif.C14n

/-- an abstract hash with the collision-freeness assumption as a field -/
structure Hash where
  H : Bytes → Bytes
  inj : ∀ a b, H a = H b → a = b

/-- dsig.Digest -/
structure Dig where
  alg : String
  val : Bytes
deriving DecidableEq, Repr

/-- dsig.DigestSHA256 -/
def algSHA256 : String := "sha256"

/-- the parts of an envelope the digest logic looks at: `head.dig` and `doc` -/
structure Env where
  dig : Option Dig
  doc : J

inductive Verdict where
  | ok
  | validation      -- a validation error raised before the digest is looked at
  | internal        -- Envelope.Digest failed ("canonical JSON error")
  | digest          -- ErrDigest ("mismatch" / "algorithm mismatch")
deriving DecidableEq, Repr

/-- dsig.NewSHA256Digest -/
def sha256Digest (h : Hash) (data : Bytes) : Dig := ⟨algSHA256, h.H data⟩

/-- Envelope.Digest: canonical JSON of the document, hashed; `none` = ErrInternal -/
def digest (h : Hash) (d : J) : Option Dig := (canon d).map (sha256Digest h)

/-- Digest.Equals: "algorithm mismatch" or "mismatch" -/
def Dig.equals (d1 d2 : Dig) : Bool := d1.alg == d2.alg && d1.val == d2.val

/-- Envelope.verifyDigest (`d1` present: the header validation requires it) -/
def verifyDigest (h : Hash) (d1 : Dig) (doc : J) : Verdict :=
  match digest h doc with
  | none => .internal
  | some d2 => if d1.equals d2 then .ok else .digest

/-- Envelope.ValidateWithContext: structural validation first (header requires `dig`;
    the document's own validation is the parameter `docValid`), then verifyDigest -/
def validate (h : Hash) (docValid : J → Bool) (e : Env) : Verdict :=
  match e.dig with
  | none => .validation
  | some d1 => if docValid e.doc then verifyDigest h d1 e.doc else .validation

/-- Envelope.calculate: the document recalculates itself (`docCalc`), then the digest is refreshed -/
def calculate (h : Hash) (docCalc : J → Option J) (e : Env) : Option Env :=
  match docCalc e.doc with
  | none => none
  | some d => match digest h d with
    | none => none
    | some dg => some { dig := some dg, doc := d }

end GoblVerif.Digest
