/-
  Regex: a small regular-expression engine, sufficient for the patterns that
  occur in /repo/data/schemas (`pattern`, `patternProperties` keys).

  * `RE` — regular expressions over code points (classes as range lists);
  * `RE.matchL` — Brzozowski-derivative matcher (total, structural);
  * `compile` — parser for the ECMA-262 subset used by the schemas:
    anchors `^ … $` (only around the whole pattern), classes `[a-z0-9-+]`,
    `[^…]`, ranges, escapes (`\- \. \/ \: \d \w \s …`), groups `( )`, `(?: )`,
    quantifiers `? + * {m} {m,} {m,n}`, alternation `|`, `.`.
    Anything else (back-references, look-around, lazy quantifiers, inner
    anchors, named groups, unicode escapes) makes `compile` answer `none`, so
    that a pattern outside the subset breaks `patterns_compile` instead of
    being mis-read.
  * JSON-Schema `pattern` is an un-anchored search: a pattern that lacks `^`
    (`$`) is padded with "any character"* on that side.

  Core Lean only.  Correctness of `matchL` against the inductive semantics
  `Matches` is proved in Proofs/Regex.lean.
-/
namespace GoblVerif.Regex

/-- character class: inclusive code-point ranges, possibly negated -/
structure CClass where
  ranges : List (Nat × Nat)
  neg : Bool
deriving DecidableEq, Repr, Inhabited

def CClass.mem (k : CClass) (c : Nat) : Bool :=
  (k.ranges.any fun r => r.1 ≤ c && c ≤ r.2) != k.neg

inductive RE where
  | empty
  | eps
  | cls (k : CClass)
  | cat (a b : RE)
  | alt (a b : RE)
  | star (a : RE)
deriving DecidableEq, Repr, Inhabited

namespace RE

def nullable : RE → Bool
  | empty => false
  | eps => true
  | cls _ => false
  | cat a b => nullable a && nullable b
  | alt a b => nullable a || nullable b
  | star _ => true

/-- smart constructors: keep derivatives small (no change of language) -/
def mkCat (a b : RE) : RE :=
  if a = empty then empty else if b = empty then empty
  else if a = eps then b else cat a b

def mkAlt (a b : RE) : RE :=
  if a = empty then b else if b = empty then a
  else if a = b then a else alt a b

def deriv (c : Nat) : RE → RE
  | empty => empty
  | eps => empty
  | cls k => if k.mem c then eps else empty
  | cat a b => if nullable a then mkAlt (mkCat (deriv c a) b) (deriv c b) else mkCat (deriv c a) b
  | alt a b => mkAlt (deriv c a) (deriv c b)
  | star a => mkCat (deriv c a) (star a)

/-- whole-string match -/
def matchL (r : RE) : List Nat → Bool
  | [] => nullable r
  | c :: cs => matchL (deriv c r) cs

/-- `r` repeated `n` times -/
def pow (r : RE) : Nat → RE
  | 0 => eps
  | n + 1 => cat r (pow r n)

def opt (r : RE) : RE := alt eps r
def plus (r : RE) : RE := cat r (star r)

/-- between `m` and `m + k` repetitions -/
def rep (r : RE) (m : Nat) : Nat → RE
  | 0 => pow r m
  | k + 1 => cat (rep r m k) (opt r)

end RE

def codes (s : String) : List Nat := s.toList.map Char.toNat

/-- does the (whole) string match -/
def RE.matchStr (r : RE) (s : String) : Bool := r.matchL (codes s)

/-! ## parser -/

def anyChar : CClass := ⟨[], true⟩
/-- `.`: anything but a line terminator -/
def dotClass : CClass := ⟨[(10, 10), (13, 13), (0x2028, 0x2029)], true⟩
def digitR : List (Nat × Nat) := [(48, 57)]
def wordR : List (Nat × Nat) := [(48, 57), (65, 90), (95, 95), (97, 122)]
def spaceR : List (Nat × Nat) :=
  [(9, 13), (32, 32), (160, 160), (0x1680, 0x1680), (0x2000, 0x200a), (0x2028, 0x2029), (0x202f, 0x202f),
   (0x205f, 0x205f), (0x3000, 0x3000), (0xfeff, 0xfeff)]

def isAlnum (c : Nat) : Bool := (48 ≤ c && c ≤ 57) || (65 ≤ c && c ≤ 90) || (97 ≤ c && c ≤ 122)

/-- an escape outside or inside a class: a set of ranges and "negated" -/
def escape (c : Nat) : Option (List (Nat × Nat) × Bool) :=
  if c = 100 then some (digitR, false)        -- \d
  else if c = 68 then some (digitR, true)     -- \D
  else if c = 119 then some (wordR, false)    -- \w
  else if c = 87 then some (wordR, true)      -- \W
  else if c = 115 then some (spaceR, false)   -- \s
  else if c = 83 then some (spaceR, true)     -- \S
  else if c = 110 then some ([(10, 10)], false) -- \n
  else if c = 114 then some ([(13, 13)], false) -- \r
  else if c = 116 then some ([(9, 9)], false)   -- \t
  else if isAlnum c then none                   -- \b \B \1 \u \x \p … : outside the subset
  else if c < 128 then some ([(c, c)], false)   -- identity escape of punctuation
  else none

/-- one class atom: a single code point, or a class escape -/
def classAtom : List Nat → Option ((List (Nat × Nat) × Bool) × List Nat)
  | 92 :: c :: rest => (escape c).map (·, rest)
  | 92 :: [] => none
  | c :: rest => some (([(c, c)], false), rest)
  | [] => none

def single? (a : List (Nat × Nat) × Bool) : Option Nat :=
  match a with
  | ([(lo, hi)], false) => if lo = hi then some lo else none
  | _ => none

/-- items of a class up to the closing `]`; negated escapes inside a class are outside the subset -/
def classItems : Nat → List Nat → List (Nat × Nat) → Option (List (Nat × Nat) × List Nat)
  | 0, _, _ => none
  | _ + 1, [], _ => none
  | _ + 1, 93 :: rest, acc => some (acc, rest)
  | f + 1, inp, acc =>
    match classAtom inp with
    | none => none
    | some (a, rest) =>
      if a.2 then none else
      match rest with
      | 45 :: 93 :: _ => classItems f (rest.drop 1) (acc ++ a.1 ++ [(45, 45)])   -- trailing '-'
      | 45 :: rest' =>
        match single? a, classAtom rest' with
        | some lo, some (b, rest'') =>
          match single? b with
          | some hi => if lo ≤ hi then classItems f rest'' (acc ++ [(lo, hi)]) else none
          | none => none
        | _, _ => none
      | _ => classItems f rest (acc ++ a.1)

def parseClass (inp : List Nat) : Option (CClass × List Nat) :=
  let (neg, inp) := match inp with
    | 94 :: r => (true, r)
    | r => (false, r)
  -- a leading ']' is not treated as a literal (outside the subset)
  (classItems (inp.length + 1) inp []).map fun (rs, rest) => (⟨rs, neg⟩, rest)

def digits? : List Nat → Nat → Bool → Option (Nat × List Nat)
  | c :: rest, acc, seen =>
    if 48 ≤ c && c ≤ 57 then (if acc > 100000 then none else digits? rest (acc * 10 + (c - 48)) true)
    else if seen then some (acc, c :: rest) else none
  | [], acc, seen => if seen then some (acc, []) else none

/-- `{m}`, `{m,}`, `{m,n}` after the opening brace -/
def parseBraces (r : RE) (inp : List Nat) : Option (RE × List Nat) :=
  match digits? inp 0 false with
  | none => none
  | some (m, rest) =>
    if m > 1000 then none else
    match rest with
    | 125 :: rest' => some (RE.pow r m, rest')
    | 44 :: 125 :: rest' => some (RE.cat (RE.pow r m) (RE.star r), rest')
    | 44 :: rest' =>
      match digits? rest' 0 false with
      | some (n, 125 :: rest'') => if m ≤ n && n ≤ 1000 then some (RE.rep r m (n - m), rest'') else none
      | _ => none
    | _ => none

/-- quantifiers following an atom (a lazy `?` after a quantifier is outside the subset) -/
def parseQuant : Nat → RE → List Nat → Option (RE × List Nat)
  | 0, _, _ => none
  | f + 1, r, inp =>
    let lazy? (rest : List Nat) : Bool := match rest with | 63 :: _ => true | _ => false
    match inp with
    | 42 :: rest => if lazy? rest then none else parseQuant f (RE.star r) rest
    | 43 :: rest => if lazy? rest then none else parseQuant f (RE.plus r) rest
    | 63 :: rest => if lazy? rest then none else parseQuant f (RE.opt r) rest
    | 123 :: rest =>
      match parseBraces r rest with
      | some (r', rest') => if lazy? rest' then none else parseQuant f r' rest'
      | none => none
    | _ => some (r, inp)

mutual
/-- alternation: stops at `)` or end of input -/
def parseAlt : Nat → List Nat → Option (RE × List Nat)
  | 0, _ => none
  | f + 1, inp =>
    match parseCat f inp RE.eps with
    | none => none
    | some (a, 124 :: rest) =>
      match parseAlt f rest with
      | some (b, rest') => some (RE.alt a b, rest')
      | none => none
    | some (a, rest) => some (a, rest)

/-- concatenation of quantified atoms -/
def parseCat : Nat → List Nat → RE → Option (RE × List Nat)
  | 0, _, _ => none
  | f + 1, inp, acc =>
    match inp with
    | [] => some (acc, [])
    | 124 :: _ => some (acc, inp)
    | 41 :: _ => some (acc, inp)
    | _ =>
      match parseAtom f inp with
      | none => none
      | some (a, rest) =>
        match parseQuant (rest.length + 1) a rest with
        | none => none
        | some (q, rest') => parseCat f rest' (if acc = RE.eps then q else RE.cat acc q)

def parseAtom : Nat → List Nat → Option (RE × List Nat)
  | 0, _ => none
  | f + 1, inp =>
    match inp with
    | [] => none
    | 40 :: 63 :: 58 :: rest =>            -- (?: … )
      match parseAlt f rest with
      | some (r, 41 :: rest') => some (r, rest')
      | _ => none
    | 40 :: 63 :: _ => none                -- look-around, named groups: outside the subset
    | 40 :: rest =>
      match parseAlt f rest with
      | some (r, 41 :: rest') => some (r, rest')
      | _ => none
    | 91 :: rest => (parseClass rest).map fun (k, rest') => (RE.cls k, rest')
    | 92 :: c :: rest => (escape c).map fun (rs, neg) => (RE.cls ⟨rs, neg⟩, rest)
    | 92 :: [] => none
    | 46 :: rest => some (RE.cls dotClass, rest)
    | c :: rest =>
      -- bare metacharacters are outside the subset: ^ $ * + ? ) ] { } |
      if c = 94 || c = 36 || c = 42 || c = 43 || c = 63 || c = 41 || c = 93 || c = 123 || c = 125 || c = 124
      then none else some (RE.cls ⟨[(c, c)], false⟩, rest)
end

/-- is there a `|` outside every group and class? -/
def topLevelBar : List Nat → Nat → Bool → Bool
  | [], _, _ => false
  | 92 :: _ :: rest, d, inC => topLevelBar rest d inC
  | 91 :: rest, d, false => topLevelBar rest d true
  | 93 :: rest, d, true => topLevelBar rest d false
  | 40 :: rest, d, false => topLevelBar rest (d + 1) false
  | 41 :: rest, d, false => topLevelBar rest (d - 1) false
  | 124 :: rest, d, false => d = 0 || topLevelBar rest d false
  | _ :: rest, d, inC => topLevelBar rest d inC

/-- number of backslashes at the end of the (reversed) list -/
def trailingBackslashes : List Nat → Nat
  | 92 :: rest => trailingBackslashes rest + 1
  | _ => 0

/-- compile a JSON-Schema pattern to a whole-string matcher (search semantics) -/
def compileL (p : List Nat) : Option RE :=
  let (anchS, p1) := match p with
    | 94 :: r => (true, r)
    | r => (false, r)
  let rev := p1.reverse
  let (anchE, body) := match rev with
    | 36 :: r => if trailingBackslashes r % 2 = 0 then (true, r.reverse) else (false, p1)
    | _ => (false, p1)
  if (anchS || anchE) && topLevelBar body 0 false then none else
  match parseAlt (body.length + 2) body with
  | some (r, []) =>
    let r := if anchS then r else RE.cat (RE.star (RE.cls anyChar)) r
    some (if anchE then r else RE.cat r (RE.star (RE.cls anyChar)))
  | _ => none

def compile (p : String) : Option RE := compileL (codes p)

/-- JSON-Schema `pattern`: `none` when the pattern is outside the subset -/
def patternMatches (p s : String) : Option Bool := (compile p).map (·.matchStr s)

end GoblVerif.Regex
