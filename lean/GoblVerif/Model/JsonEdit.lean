/-
  A small edit calculus on JSON values (C08).  Core Lean only.

  The property names the edits of a document: "a value altered, a member added
  or removed, array elements reordered".  These are the functions that perform
  them on a `J`, addressed by a *path* of member names and array indices.

    KL.get? k / JL.get? i / J.get? p     the value of a member / an element / at a path
    KL.set k v' / JL.set i v' / J.set p v'   the value replaced (everything else untouched)
    KL.insertAt n k v                    a new member `k : v` put in front of position n
    KL.erase k                           the member named k removed
    JL.swap i j                          two elements exchanged

  A member name addresses the *first* member with that name (what the harness's
  `at` does); documents that come out of `json.Marshal` never repeat a name.
  Every function is total: an address that does not exist leaves the value as
  it is (`get?` answers `none`; the theorems are stated for addresses that do
  exist).
-/
import GoblVerif.Model.Json

namespace GoblVerif.Edit
open GoblVerif

/-- one step of a path: into the member named `k`, or into the element with index `i` -/
inductive Step where
  | key (k : Str)
  | idx (i : Nat)
deriving DecidableEq, Repr

abbrev Path := List Step

/-! ## members of an object -/

/-- the value of the first member named `k` -/
def KL.get? (k : Str) : KL → Option J
  | .nil => none
  | .cons k' v r => if k' = k then some v else KL.get? k r

/-- the value of the first member named `k` replaced by `v'` -/
def KL.set (k : Str) (v' : J) : KL → KL
  | .nil => .nil
  | .cons k' v r => if k' = k then .cons k' v' r else .cons k' v (KL.set k v' r)

/-- the first member named `k` removed -/
def KL.erase (k : Str) : KL → KL
  | .nil => .nil
  | .cons k' v r => if k' = k then r else .cons k' v (KL.erase k r)

/-- a new member `k : v` in front of position `n` (at the end when the object has fewer members) -/
def KL.insertAt : Nat → Str → J → KL → KL
  | 0, k, v, kvs => .cons k v kvs
  | _ + 1, k, v, .nil => .cons k v .nil
  | n + 1, k, v, .cons k' v' r => .cons k' v' (KL.insertAt n k v r)

/-! ## elements of an array -/

def JL.get? : Nat → JL → Option J
  | _, .nil => none
  | 0, .cons x _ => some x
  | i + 1, .cons _ xs => JL.get? i xs

def JL.set : Nat → J → JL → JL
  | _, _, .nil => .nil
  | 0, v', .cons _ xs => .cons v' xs
  | i + 1, v', .cons x xs => .cons x (JL.set i v' xs)

/-- elements `i` and `j` exchanged (nothing happens when one of them does not exist) -/
def JL.swap (i j : Nat) (xs : JL) : JL :=
  match JL.get? i xs, JL.get? j xs with
  | some a, some b => JL.set j a (JL.set i b xs)
  | _, _ => xs

/-! ## values at a path -/

/-- the value at a path -/
def J.get? : Path → J → Option J
  | [], v => some v
  | .key k :: p, .obj kvs =>
    match KL.get? k kvs with
    | some v => J.get? p v
    | none => none
  | .idx i :: p, .arr xs =>
    match JL.get? i xs with
    | some v => J.get? p v
    | none => none
  | _ :: _, _ => none

/-- `J.set p v' d`: the document `d` with the value at `p` replaced by `v'` -/
def J.set : Path → J → J → J
  | [], v', _ => v'
  | .key k :: p, v', .obj kvs =>
    match KL.get? k kvs with
    | some v => .obj (KL.set k (J.set p v' v) kvs)
    | none => .obj kvs
  | .idx i :: p, v', .arr xs =>
    match JL.get? i xs with
    | some v => .arr (JL.set i (J.set p v' v) xs)
    | none => .arr xs
  | _ :: _, _, d => d

/-- member names along the path are not repeated inside their object (true of every
    document `json.Marshal` writes): the path then addresses *the* member of that name -/
def J.distinctAlong : Path → J → Bool
  | [], _ => true
  | .key k :: p, .obj kvs =>
    ((kvs.toList.filter (fun q => q.1 = k)).length == 1) &&
      (match KL.get? k kvs with
       | some v => J.distinctAlong p v
       | none => false)
  | .idx i :: p, .arr xs =>
    match JL.get? i xs with
    | some v => J.distinctAlong p v
    | none => false
  | _ :: _, _ => false

end GoblVerif.Edit
