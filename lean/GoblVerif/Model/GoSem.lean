/-
  GoSem: the few semantic primitives of Go that the go2lean translator
  (harness/cmd/extract/go2lean*.go) refers to and that are not already in
  Model/Float53.lean.  Core Lean only.  Part of the trusted base of every
  `Generated/*Src.lean` file.
-/
import GoblVerif.Model.Float53

namespace GoblVerif.GoSem

/-- `int64(f)` for a float64 `f`: truncation toward zero (the result for values
    outside the int64 range is implementation-defined in Go: outside the domain) -/
def truncToInt (q : Rat) : Int :=
  if 0 ≤ q then q.floor else - ((-q).floor)

end GoblVerif.GoSem
