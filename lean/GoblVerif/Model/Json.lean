/-
  JSON values as GOBL's canonicaliser sees them (core Lean only).

  * a string is a list of Unicode scalar values (`Str`); Go strings that come
    out of `encoding/json` are always valid UTF-8, so this loses nothing;
  * an integer is an `Int` (c14n.Integer is the int64 that `json.Number.Int64`
    accepted: an integer literal inside the int64 range);
  * a float is what `strconv` makes of the float64: sign, the shortest decimal
    digits `d0 d1 …` and the decimal exponent of `d0.d1… × 10^e10`;
  * `J`, `JL`, `KL` are declared *mutually* (not nested through `List`) so that
    structural recursion and mutual structural induction work.
-/
namespace GoblVerif

/-- a JSON string: Unicode scalar values -/
abbrev Str := List Nat
/-- code points of a text (before UTF-8 encoding) -/
abbrev Chars := List Nat
/-- bytes -/
abbrev Bytes := List Nat

/-- leaves of a JSON value -/
inductive Atom where
  | null
  | bool (b : Bool)
  | int (i : Int)
  | flt (neg : Bool) (ds : List Nat) (e10 : Int)
  | str (s : Str)
deriving DecidableEq, Repr

mutual
inductive J where
  | atom (a : Atom)
  | arr (xs : JL)
  | obj (kvs : KL)
inductive JL where
  | nil
  | cons (x : J) (xs : JL)
inductive KL where
  | nil
  | cons (k : Str) (v : J) (rest : KL)
end

namespace J
@[match_pattern] abbrev null : J := .atom .null
@[match_pattern] abbrev bool (b : Bool) : J := .atom (.bool b)
@[match_pattern] abbrev int (i : Int) : J := .atom (.int i)
@[match_pattern] abbrev flt (neg : Bool) (ds : List Nat) (e : Int) : J := .atom (.flt neg ds e)
@[match_pattern] abbrev str (s : Str) : J := .atom (.str s)

def isNull : J → Bool
  | .atom .null => true
  | _ => false
end J

def JL.toList : JL → List J
  | .nil => []
  | .cons x xs => x :: xs.toList

def JL.ofList : List J → JL
  | [] => .nil
  | x :: xs => .cons x (JL.ofList xs)

def KL.toList : KL → List (Str × J)
  | .nil => []
  | .cons k v r => (k, v) :: r.toList

def KL.ofList : List (Str × J) → KL
  | [] => .nil
  | (k, v) :: r => .cons k v (KL.ofList r)

theorem JL.ofList_toList : ∀ xs : JL, JL.ofList xs.toList = xs
  | .nil => rfl
  | .cons x xs => by simp [JL.toList, JL.ofList, JL.ofList_toList xs]

theorem JL.toList_ofList : ∀ xs : List J, (JL.ofList xs).toList = xs
  | [] => rfl
  | x :: xs => by simp [JL.toList, JL.ofList, JL.toList_ofList xs]

theorem KL.ofList_toList : ∀ xs : KL, KL.ofList xs.toList = xs
  | .nil => rfl
  | .cons k v r => by simp [KL.toList, KL.ofList, KL.ofList_toList r]

theorem KL.toList_ofList : ∀ xs : List (Str × J), (KL.ofList xs).toList = xs
  | [] => rfl
  | (k, v) :: xs => by simp [KL.toList, KL.ofList, KL.toList_ofList xs]

/- Boolean equality by mutual structural recursion -/
mutual
def J.beq : J → J → Bool
  | .atom a, .atom b => a == b
  | .arr xs, .arr ys => JL.beq xs ys
  | .obj xs, .obj ys => KL.beq xs ys
  | _, _ => false
def JL.beq : JL → JL → Bool
  | .nil, .nil => true
  | .cons x xs, .cons y ys => J.beq x y && JL.beq xs ys
  | _, _ => false
def KL.beq : KL → KL → Bool
  | .nil, .nil => true
  | .cons k v r, .cons k' v' r' => k == k' && J.beq v v' && KL.beq r r'
  | _, _ => false
end

/-- well-formed shortest digits of a finite float64 as `strconv` yields them:
    at least one digit, decimal digits only, no trailing zero after the first digit -/
def wfDigits : List Nat → Bool
  | [] => false
  | [d] => d < 10
  | d :: rest => d < 10 && rest.all (· < 10) && rest.getLast? != some 0

/-- strconv's shortest digits of a finite float64: well-formed, and the leading
    digit is zero only for the number zero itself (`0E+00`) -/
def wfFloat (ds : List Nat) (e : Int) : Bool :=
  wfDigits ds && (ds.headD 0 != 0 || (ds == [0] && e == 0))

def Atom.wf : Atom → Bool
  | .flt _ ds _ => wfDigits ds
  | _ => true

/- every float leaf carries well-formed digits -/
mutual
def J.wf : J → Bool
  | .atom a => a.wf
  | .arr xs => JL.wf xs
  | .obj kvs => KL.wf kvs
def JL.wf : JL → Bool
  | .nil => true
  | .cons x xs => J.wf x && JL.wf xs
def KL.wf : KL → Bool
  | .nil => true
  | .cons _ v r => J.wf v && KL.wf r
end

/-- Go's `<` on strings: byte-wise on UTF-8, which on valid UTF-8 is the
    lexicographic order of the code points (trusted, sampled by the harness) -/
def ltS : Str → Str → Bool
  | [], [] => false
  | [], _ :: _ => true
  | _ :: _, [] => false
  | a :: as, b :: bs => a < b || (a == b && ltS as bs)

/-! ## decimal notation (what `strconv.FormatInt(_, 10)` writes) -/

def natDigitsAux : Nat → Nat → Chars → Chars
  | 0, _, acc => acc
  | f + 1, n, acc =>
    if n < 10 then (48 + n) :: acc else natDigitsAux f (n / 10) ((48 + n % 10) :: acc)

/-- decimal digits of a natural number, most significant first, no leading zeros -/
def natDigits (n : Nat) : Chars := natDigitsAux (n + 1) n []

/-- `strconv.FormatInt(i, 10)` -/
def formatInt (i : Int) : Chars :=
  if i < 0 then 0x2D :: natDigits i.natAbs else natDigits i.natAbs

/-! ## sorting members by key -/

/-- insert before the first element whose key is not smaller (keeps equal keys in input order) -/
def insSorted {α : Type} (k : Str) (v : α) : List (Str × α) → List (Str × α)
  | [] => [(k, v)]
  | (k', v') :: r => if ltS k' k then (k', v') :: insSorted k v r else (k, v) :: (k', v') :: r

/-- a stable sort by key (`sort.SliceStable` with `Key[i] < Key[j]`) -/
def sortL {α : Type} : List (Str × α) → List (Str × α)
  | [] => []
  | (k, v) :: r => insSorted k v (sortL r)

def sortK (kvs : KL) : KL := KL.ofList (sortL kvs.toList)

/- sort the members of every object of a value -/
mutual
def sortJ : J → J
  | .atom a => .atom a
  | .arr xs => .arr (sortJL xs)
  | .obj kvs => .obj (sortK (sortJK kvs))
def sortJL : JL → JL
  | .nil => .nil
  | .cons x xs => .cons (sortJ x) (sortJL xs)
def sortJK : KL → KL
  | .nil => .nil
  | .cons k v r => .cons k (sortJ v) (sortJK r)
end

/-- UTF-8 encoding of one scalar value -/
def utf8 (c : Nat) : Bytes :=
  if c < 0x80 then [c]
  else if c < 0x800 then [0xC0 + c / 64, 0x80 + c % 64]
  else if c < 0x10000 then [0xE0 + c / 4096, 0x80 + c / 64 % 64, 0x80 + c % 64]
  else [0xF0 + c / 262144, 0x80 + c / 4096 % 64, 0x80 + c / 64 % 64, 0x80 + c % 64]

/-- UTF-8 encoding of a text -/
def utf8s (cs : Chars) : Bytes := cs.flatMap utf8

/-- a Unicode scalar value: below 0x110000 and not a surrogate -/
def isScalar (c : Nat) : Bool := c < 0x110000 && !(0xD800 ≤ c && c < 0xE000)

end GoblVerif
