/-
  The DECLARED PRIMITIVES of Generated/EnvelopeSrc.lean (the translation of
  /repo/envelope.go by go2lean, configured in harness/cmd/extract/envelopesrc.go).

  The translator stops at every call that leaves the decision logic of
  envelope.go: cryptography, digest computation, struct validation, document
  calculation, uuid generation, error wrapping.  Each of them is a function
  here, and what it says IS TRUSTED (it is the idealisation of
  Model/Envelope.lean, restated call by call; the call shapes that justify them
  stay pinned by Generated/EnvelopeFacts, HeaderFacts, ErrorFacts):

  * `Err`              an `error`: a `*gobl.Error` is its key (the cause is dropped:
                       the property observes the class only), `validation.Errors`
                       is `fields`, anything else is `plain msg`;
  * `withCause`        `(*Error).WithCause`: a cause that is a `*Error` wins;
  * `wrapError`        `gobl.wrapError`: `*Error` kept, `validation.Errors` →
                       validation, anything else → internal (the
                       unknown-schema case is not modelled);
  * `Obj`              a `*schema.Object` as the envelope code sees it: is its
                       payload nil (`IsEmpty`), the facts the model keeps of the
                       payload (`Doc`), and the RESULT of `Envelope.Digest()`
                       over it (SHA-256 of the canonical JSON: it enters as data,
                       so every theorem holds for every digest function);
  * `validateStruct`   `validation.ValidateStructWithContext(ctx, e, Schema
                       required, Head required, Document required, Signatures
                       each required)`: the rules are declarative (pinned by
                       `Envelope.envelopeValidatedFields`, `rules_Signatures`,
                       `Head.rules_*`, `invoice_rules_Code`), their meaning is
                       `headBad` / `Doc.validIn` of the model;
  * `keySign`          `(*dsig.PrivateKey).Sign(head)`: an ideal signature
                       (signer, payload); a key without material fails;
  * `sigPayload`, `sigVerifyPayload`   `(*dsig.Signature).UnsafePayload(h)`,
                       `.VerifyPayload(k, h)`: h receives the signed header; the
                       latter fails unless `jwsValid`; a nil signature fails;
  * `checkNull`        `schema.CheckNullElements(h)`: nil — the Lean `Header` has
                       no null entries (the slice types are in `nonNilElems`);
  * `objCalculate`     `(*schema.Object).Calculate()`: its verdict only (the model's
                       document is the canonical content AFTER calculation);
  * `newObject`        `schema.NewObject(doc)` for a `doc` that is not already a
                       `*schema.Object`: its result is carried by the `AnyDoc`;
  * `freshUUID`        `uuid.V7()`: an opaque constant;
  * `newHeader`        `head.NewHeader()`.

  Core Lean only.
-/
import GoblVerif.Model.Envelope

namespace GoblVerif.EnvSrc

/-- a Go `error` value of envelope.go -/
inductive Err
  | gobl (key : String)
  | fields
  | plain (msg : String)
deriving DecidableEq, Repr, Inhabited

/-- `*schema.Object` -/
structure Obj where
  empty : Bool
  doc : Doc
  digest : Digest
deriving DecidableEq, Repr, Inhabited

/-- Go `type Envelope struct` (the generated file checks the field list) -/
structure Envelope where
  Schema : String
  Head : Option Header
  Document : Option Obj
  Signatures : List (Option Sig)
deriving DecidableEq, Repr, Inhabited

/-- the `doc interface{}` argument of `Insert` -/
inductive AnyDoc
  | nil
  | obj (o : Option Obj)                        -- dynamic type *schema.Object
  | other (res : Option Obj) (err : Option Err) -- any other dynamic type, with what schema.NewObject makes of it
deriving DecidableEq, Repr, Inhabited

def AnyDoc.isNil : AnyDoc → Bool
  | .nil => true
  | _ => false

/-- `d, ok := doc.(*schema.Object)` -/
def AnyDoc.asObj : AnyDoc → Option Obj × Bool
  | .obj o => (o, true)
  | _ => (none, false)

def newObject : AnyDoc → Option Obj × Option Err
  | .other r e => (r, e)
  | .obj o => (o, none)
  | .nil => (none, some (.plain "nil"))

/-- `validation.Errors` converted to `error` (Go converts implicitly) -/
instance : Coe (List (String × Option Err)) (Option Err) := ⟨fun _ => some .fields⟩

def withCause (e cause : Option Err) : Option Err :=
  match cause with
  | some (.gobl k) => some (.gobl k)
  | _ => e

def wrapError : Option Err → Option Err
  | none => none
  | some (.gobl k) => some (.gobl k)
  | some .fields => some (.gobl "validation")
  | some (.plain _) => some (.gobl "internal")

def errNew (msg : String) : Option Err := some (.plain msg)

/-- SHA-256 of the canonical JSON of `null` (a nil document) -/
def nullDigest : Digest := ⟨"sha256", "74234e98afe7498fb5daf1f36ac2d78acc339464f950703b8c019892f982b90b"⟩

def digestPrim (e : Option Envelope) : Option Digest × Option Err :=
  match e with
  | some e =>
    match e.Document with
    | some o => (some o.digest, none)
    | none => (some nullDigest, none)
  | none => (none, none)

/-- `(*dsig.Digest).Equals` (a nil digest panics in Go; `default` here) -/
def digestEquals (d1 d2 : Option Digest) : Option Err :=
  if d1.get!.alg ≠ d2.get!.alg then some (.plain "algorithm mismatch")
  else if d1.get!.val ≠ d2.get!.val then some (.plain "mismatch")
  else none

def validateStruct (signedCtx : Bool) (e : Option Envelope) : Option Err :=
  match e with
  | none => some .fields
  | some e =>
    match e.Head, e.Document with
    | some h, some o =>
      if e.Schema = "" ∨ o.empty = true ∨ headBad h signedCtx = true ∨ o.doc.validIn signedCtx = false
          ∨ e.Signatures.any (·.isNone) = true then some .fields
      else none
    | _, _ => some .fields

def keySign (k : Option Key) (h : Option Header) : Option Sig × Option Err :=
  match k, h with
  | some k, some h => (some ⟨k, h⟩, none)
  | _, _ => (none, some (.plain "sign"))

/-- `sig.UnsafePayload(h)`: (error, the header written to h) -/
def sigPayload (s : Option Sig) : Option Err × Header :=
  match s with
  | some s => (none, s.payload)
  | none => (some (.plain "payload"), default)

/-- `sig.VerifyPayload(k, h)` -/
def sigVerifyPayload (s : Option Sig) (k : Option Key) : Option Err × Header :=
  match s, k with
  | some s, some k => if jwsValid k s then (none, s.payload) else (some (.plain "verify"), default)
  | _, _ => (some (.plain "verify"), default)

def checkNull (_h : Option Header) : Option Err := none

def objIsEmpty (o : Option Obj) : Bool := o.get!.empty

def objCalculate (o : Option Obj) : Option Err :=
  if o.get!.doc.calcOk then none else some (.plain "calculate")

def uuidIsZero (u : Option String) : Bool :=
  match u with
  | none => true
  | some u => u == "" || u == "00000000-0000-0000-0000-000000000000"

opaque freshUUID : String

/-- `schema.GOBL.Add("envelope")` -/
def envelopeSchemaId : String := "https://gobl.org/draft-0/envelope"

def newHeader : Option Header :=
  some { uuid := freshUUID, dig := none, stamps := [], links := [], tags := [], metas := [], notes := "" }

/-- the outcome class of an error (`Outcome` of the model) -/
def outcomeOf : Option Err → Outcome
  | none => .ok
  | some (.gobl "no-document") => .noDocument
  | some (.gobl "calculation") => .calculation
  | some (.gobl "validation") => .validation
  | some (.gobl "digest") => .digest
  | some (.gobl "signature") => .signature
  | some (.gobl "marshal") => .marshal
  | some _ => .skip

end GoblVerif.EnvSrc
