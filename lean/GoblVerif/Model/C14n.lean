/-
  Model of /repo/c14n as it is now (after the five `fix:` commits: null-first
  comma, negative floats, empty/truncated/trailing input rejected, a number
  beyond 64 bits rejected, encoding checked on the raw text and U+FFFD
  accepted), function by function.  Core Lean only; executable.

  Go                                 model
  ---------------------------------  -----------------------------------------
  utf8.Valid (trusted, modelled)     `utf8Valid` (the byte ranges of RFC 3629)
  escapedUnit                        `escapedUnit`
  utf16.IsSurrogate / DecodeRune     `isSurrogate`, `pairOK`
  checkEncoding                      `checkEncoding` = `utf8Valid` and `surrogatesPaired`
  json.Decoder.Token (trusted)       a list of `GTok` followed by io.EOF or a
                                     decoder error (`eof : Bool`)
  tokenToValue                       `tokenToValue`
  handleNextToken/Object/Array/Attr  `hNext/hObj/hArr/hAttr` (fuel = recursion depth)
  UnmarshalJSON                      `unmarshal`
  Object.Sort                        `sortK` (stable insertion sort by `ltS`)
  encodeString + safeSet + hex       `encodeString` with the *extracted* tables
  Integer/Float/Bool/Null/String     `marshalAtom`
  Array/Object/Attribute.MarshalJSON `marshalJ/marshalL/marshalK`, `attrJoin`
  CanonicalJSON                      `canonText` (raw bytes + the decoder's tokens → text),
                                     `canonTokens` (tokens → text), `canon` (value → bytes)

  Texts are lists of code points (`Chars`); bytes are obtained by `utf8s` at
  the very end.  encodeString walks bytes in Go; on a valid UTF-8 string that
  is the same as walking scalar values, copying every non-ASCII one.  A Go
  string that is *not* valid UTF-8 is represented by a `Str` with an element
  that is no Unicode scalar value (a surrogate, or a number ≥ 0x110000): the
  bytes `utf8` writes for such an element are bytes `utf8.DecodeRuneInString`
  answers `(RuneError, 1)` for, and that is the one case encodeString refuses.
  `json.Decoder` never yields such a string.
-/
import GoblVerif.Model.Json
import GoblVerif.Generated.C14nFacts

namespace GoblVerif.C14n
open GoblVerif

/-! ## tables (extracted from tables.go / models.go on every run) -/

/-- `safeSet[b]` -/
def safe (b : Nat) : Bool := Generated.C14n.safeSet.getD b false
/-- `hex[n]` -/
def hexAt (n : Nat) : Nat := Generated.C14n.hex.getD n 63
/-- the byte written after `\` by the `switch b` of encodeString, if `b` has a case -/
def shortEscape (b : Nat) : Option Nat := (Generated.C14n.shortEscapes.find? (·.1 == b)).map (·.2)
/-- utf8.RuneSelf -/
def runeSelf : Nat := Generated.C14n.runeSelf
/-! ## encodeString -/

/-- what follows the backslash for an unsafe ASCII byte (`b>>4`, `b&0xF` on a byte < 0x80) -/
def escapeAscii (b : Nat) : Chars :=
  match shortEscape b with
  | some w => [w]
  | none => [0x75, 0x30, 0x30, hexAt (b / 16), hexAt (b % 16)]

/-- the loop of encodeString over the runes of `s`; `none` = UnsupportedValueError.
    `utf8.DecodeRuneInString` answers `(RuneError, 1)` exactly where the bytes are not
    the encoding of a scalar value (element `c` with `isScalar c = false`, see the
    header); U+FFFD itself is decoded with size 3 and copied like any other character. -/
def encodeRunes : Str → Option Chars
  | [] => some []
  | c :: cs =>
    if c < runeSelf then
      if safe c then (encodeRunes cs).map (c :: ·)
      else (encodeRunes cs).map (fun r => 0x5C :: (escapeAscii c ++ r))
    else if !isScalar c then none       -- `c == utf8.RuneError && size == 1`
    else (encodeRunes cs).map (c :: ·)

def encodeString (s : Str) : Option Chars :=
  (encodeRunes s).map (fun b => 0x22 :: (b ++ [0x22]))

/-! ## numbers -/

/-- exponent digits of strconv's %e: at least two -/
def pad2 (n : Nat) : Chars := if n < 10 then [48, 48 + n] else natDigits n

/-- `strconv.AppendFloat(nil, f, 'E', -1, 64)` for a finite `f` whose shortest
    digits are `ds` and whose decimal exponent is `e` (format trusted):
    `[-]d[.ddd]E±xx` -/
def strconvE (neg : Bool) (ds : List Nat) (e : Int) : Chars :=
  (if neg then [0x2D] else []) ++
  (match ds with
   | [] => []
   | [d] => [48 + d]
   | d :: rest => (48 + d) :: 0x2E :: rest.map (48 + ·)) ++
  0x45 :: (if e < 0 then 0x2D else 0x2B) :: pad2 e.natAbs

/-- "When decimal place is missing, add it after the first digit, taking into
    account a possible leading minus sign" -/
def insertPoint : Chars → Chars
  | 0x2D :: d :: rest =>
    if rest.head? == some 0x2E then 0x2D :: d :: rest else 0x2D :: d :: 0x2E :: 0x30 :: rest
  | d :: rest =>
    if rest.head? == some 0x2E then d :: rest else d :: 0x2E :: 0x30 :: rest
  | [] => []

/-- `i := bytes.IndexByte(num, 'E')`; returns `(num[:i+1], num[i+1:])` -/
def splitAtE : Chars → Chars × Chars
  | [] => ([], [])
  | c :: cs => if c == 0x45 then ([c], cs) else ((c :: (splitAtE cs).1), (splitAtE cs).2)

/-- the `for i, v := range exp` loop computing `j` and `k` -/
def scanExp : Chars → (i len j k : Nat) → Nat × Nat
  | [], _, _, j, k => (j, k)
  | v :: vs, i, len, j, k =>
    if v == 0x2D || v == 0x2B then scanExp vs (i + 1) len 1 k
    else if v == 0x30 && i + 1 < len then scanExp vs (i + 1) len j (i + 1)
    else (j, k)

/-- "Remove + in exponent", "Remove excess exponential 0s" -/
def expHacks (exp : Chars) : Chars :=
  let exp := if exp.head? == some 0x2B then exp.drop 1 else exp
  let jk := scanExp exp 0 exp.length 0 0
  if jk.2 != 0 then exp.take jk.1 ++ exp.drop jk.2 else exp

/-- the body of Float.MarshalJSON after the strconv call -/
def floatHacks (raw : Chars) : Chars :=
  let parts := splitAtE (insertPoint raw)
  parts.1 ++ expHacks parts.2

/-- Float.MarshalJSON -/
def marshalFloat (neg : Bool) (ds : List Nat) (e : Int) : Chars := floatHacks (strconvE neg ds e)

/-- String/Integer/Float/Bool/Null .MarshalJSON -/
def marshalAtom : Atom → Option Chars
  | .null => some [0x6E, 0x75, 0x6C, 0x6C]
  | .bool true => some [0x74, 0x72, 0x75, 0x65]
  | .bool false => some [0x66, 0x61, 0x6C, 0x73, 0x65]
  | .int i => some (formatInt i)
  | .flt neg ds e => some (marshalFloat neg ds e)
  | .str s => encodeString s

/-! ## Object.Sort is `sortK`; what handleObject builds is `sortJ` (Model/Json.lean) -/

/-! ## MarshalJSON of Attribute, Object, Array -/

/-- Attribute.MarshalJSON: empty when the value is Null, else key `:` value -/
def attrJoin (isNull : Bool) (key val : Option Chars) : Option Chars :=
  if isNull then some [] else
  match key, val with
  | some k, some v => some (k ++ 0x3A :: v)
  | _, _ => none

mutual
def marshalJ : J → Option Chars
  | .atom a => marshalAtom a
  | .arr xs => (marshalL true xs).map (fun b => 0x5B :: (b ++ [0x5D]))
  | .obj kvs => (marshalK true kvs).map (fun b => 0x7B :: (b ++ [0x7D]))
/-- the loop of Array.MarshalJSON; `first` is `i == 0` -/
def marshalL : Bool → JL → Option Chars
  | _, .nil => some []
  | first, .cons x xs =>
    match marshalJ x, marshalL false xs with
    | some d, some r => some ((if first then d else 0x2C :: d) ++ r)
    | _, _ => none
/-- the loop of Object.MarshalJSON with its `first` flag -/
def marshalK : Bool → KL → Option Chars
  | _, .nil => some []
  | first, .cons k v r =>
    match attrJoin v.isNull (encodeString k) (marshalJ v) with
    | none => none
    | some a =>
      if a.isEmpty then marshalK first r      -- "as per spec, skip empty attributes"
      else (marshalK false r).map (fun rest => (if first then a else 0x2C :: a) ++ rest)
end

/-! ## the token-level reader -/

/-- a non-delimiter token of `json.Decoder.Token` (with UseNumber); a number is
    given with the verdicts of `n.Int64()` / `n.Float64()`: an int64, else the
    shortest digits of its float64, else `over` (neither call accepts it:
    magnitude beyond float64) -/
inductive Lit where
  | str (s : Str)
  | int (i : Int)
  | flt (neg : Bool) (ds : List Nat) (e10 : Int)
  | over
  | bool (b : Bool)
  | null
deriving DecidableEq, Repr

/-- tokenToValue (a switch on the token's type); `none` = the error returned for a
    number that is neither Int64 nor Float64 ("cannot be represented in 64 bits").
    The `default:` branch (a token of another type: also an error) cannot be reached
    with what `json.Decoder.Token` yields, so `Lit` has no constructor for it. -/
def tokenToValue : Lit → Option Atom
  | .str s => some (.str s)
  | .int i => some (.int i)
  | .flt n ds e => some (.flt n ds e)
  | .bool b => some (.bool b)
  | .over => none
  | .null => some .null

/-- the raw token stream -/
inductive RTok where
  | lbrace | rbrace | lbrack | rbrack
  | lit (l : Lit)
deriving DecidableEq, Repr

/-- the token stream with tokenToValue applied to every non-delimiter (handleNextToken does
    this on the spot; it is pointwise, so it is done up front here): `val a` where
    tokenToValue returned the value `a`, `bad` where it returned an error -/
inductive GTok where
  | lbrace | rbrace | lbrack | rbrack
  | val (a : Atom)
  | bad
deriving DecidableEq, Repr

def cook : RTok → GTok
  | .lbrace => .lbrace
  | .rbrace => .rbrace
  | .lbrack => .lbrack
  | .rbrack => .rbrack
  | .lit l => match tokenToValue l with
    | some a => .val a
    | none => .bad

/-- result of handleNextToken & co.: an error, Go's `(nil, nil)` ("no more
    left"), a value, or a tree that contains a nil Canonicalable -/
inductive R (α : Type) where
  | err
  | done (rest : List GTok)
  | ok (x : α) (rest : List GTok)
  | nilval

mutual
/-- handleNextToken; an exhausted list is io.EOF (→ io.ErrUnexpectedEOF) or the decoder's error -/
def hNext : Nat → List GTok → R J
  | 0, _ => .err
  | _ + 1, [] => .err
  | f + 1, t :: ts =>
    match t with
    | .lbrace => hObj f ts []
    | .lbrack => hArr f ts []
    | .rbrace | .rbrack => .done ts
    | .val a => .ok (.atom a) ts
    | .bad => .err                    -- `return tokenToValue(t)` with its error
/-- handleObject (attributes accumulated in reverse) -/
def hObj : Nat → List GTok → List (Str × J) → R J
  | 0, _, _ => .err
  | f + 1, ts, acc =>
    match hAttr f ts with
    | .err => .err
    | .nilval => .nilval
    | .done rest => .ok (.obj (sortK (KL.ofList acc.reverse))) rest
    | .ok a rest => hObj f rest (a :: acc)
/-- handleArray -/
def hArr : Nat → List GTok → List J → R J
  | 0, _, _ => .err
  | f + 1, ts, acc =>
    match hNext f ts with
    | .err => .err
    | .nilval => .nilval
    | .done rest => .ok (.arr (JL.ofList acc.reverse)) rest
    | .ok v rest => hArr f rest (v :: acc)
/-- handleAttribute -/
def hAttr : Nat → List GTok → R (Str × J)
  | 0, _ => .err
  | f + 1, ts =>
    match hNext f ts with
    | .err => .err
    | .nilval => .nilval
    | .done rest => .done rest
    | .ok (.atom (.str k)) rest =>
      match hNext f rest with
      | .err => .err
      | .nilval => .nilval
      | .done _ => .nilval            -- a.Value = nil, err = nil: a nil value inside the tree
      | .ok v rest' => .ok (k, v) rest'
    | .ok _ _ => .err                 -- "item key must be a string"
end

inductive Outcome (α : Type) where
  | ok (x : α)
  | err
  | nilval
deriving Repr

/-- UnmarshalJSON on the token stream `ts` that ends with io.EOF (`eof`) or a decoder error -/
def unmarshal (ts : List GTok) (eof : Bool) : Outcome J :=
  match hNext (2 * ts.length + 4) ts with
  | .err => .err
  | .nilval => .nilval
  | .done _ => .err                     -- res == nil: "unexpected end of JSON input"
  | .ok v rest => if rest.isEmpty && eof then .ok v else .err

/-- CanonicalJSON from the token stream, as code points -/
def canonTokens (ts : List GTok) (eof : Bool) : Outcome Chars :=
  match unmarshal ts eof with
  | .ok t => match marshalJ t with
    | some cs => .ok cs
    | none => .err
  | .err => .err
  | .nilval => .nilval

/-- CanonicalJSON from the raw token stream -/
def canonRaw (ts : List RTok) (eof : Bool) : Outcome Chars := canonTokens (ts.map cook) eof

/-! ## checkEncoding: the raw text, before the decoder sees it -/

/-- a UTF-8 continuation byte -/
def isCont (b : Nat) : Bool := 0x80 ≤ b && b ≤ 0xBF

/-- lowest second byte after the lead byte `b0` (utf8.Valid's accept ranges: no overlong forms) -/
def secondLo (b0 : Nat) : Nat := if b0 == 0xE0 then 0xA0 else if b0 == 0xF0 then 0x90 else 0x80
/-- highest second byte after the lead byte `b0` (no surrogates, nothing above U+10FFFF) -/
def secondHi (b0 : Nat) : Nat := if b0 == 0xED then 0x9F else if b0 == 0xF4 then 0x8F else 0xBF

/-- `utf8.Valid` (standard library, modelled by the table of RFC 3629 §4) -/
def utf8Valid : Bytes → Bool
  | [] => true
  | b0 :: rest =>
    if b0 < 0x80 then utf8Valid rest
    else if 0xC2 ≤ b0 && b0 ≤ 0xDF then
      match rest with
      | b1 :: r => isCont b1 && utf8Valid r
      | _ => false
    else if 0xE0 ≤ b0 && b0 ≤ 0xEF then
      match rest with
      | b1 :: b2 :: r => secondLo b0 ≤ b1 && b1 ≤ secondHi b0 && isCont b2 && utf8Valid r
      | _ => false
    else if 0xF0 ≤ b0 && b0 ≤ 0xF4 then
      match rest with
      | b1 :: b2 :: b3 :: r => secondLo b0 ≤ b1 && b1 ≤ secondHi b0 && isCont b2 && isCont b3 && utf8Valid r
      | _ => false
    else false

/-- the `switch` of escapedUnit on one byte: the value of a hexadecimal digit -/
def hexDigit (c : Nat) : Option Nat :=
  if 0x30 ≤ c && c ≤ 0x39 then some (c - 0x30)
  else if 0x61 ≤ c && c ≤ 0x66 then some (c - 0x61 + 10)
  else if 0x41 ≤ c && c ≤ 0x46 then some (c - 0x41 + 10)
  else none

/-- escapedUnit: the UTF-16 code unit of the `\uXXXX` escape the bytes start with; `none` = -1 -/
def escapedUnit : Bytes → Option Nat
  | 0x5C :: 0x75 :: a :: b :: c :: d :: _ =>
    match hexDigit a, hexDigit b, hexDigit c, hexDigit d with
    | some a, some b, some c, some d => some (((a * 16 + b) * 16 + c) * 16 + d)
    | _, _, _, _ => none
  | _ => none

/-- utf16.IsSurrogate (of -1: false) -/
def isSurrogate : Option Nat → Bool
  | some r => 0xD800 ≤ r && r < 0xE000
  | none => false

/-- `utf16.DecodeRune(r1, r2) != unicode.ReplacementChar`: a high surrogate followed by a low one -/
def pairOK : Option Nat → Option Nat → Bool
  | some r1, some r2 => 0xD800 ≤ r1 && r1 < 0xDC00 && 0xDC00 ≤ r2 && r2 < 0xE000
  | _, _ => false

/-- the `for i` loop of checkEncoding.  `skip` is the number of bytes the loop index has been
    moved beyond the current one (`i++`, `i += 6`), so the recursion is structural:
    at a backslash the escaped byte is skipped; if the backslash starts the escape of a
    surrogate, the next escape must be its low half (else: error), and it is skipped too. -/
def surrogatesPaired : Nat → Bytes → Bool
  | _, [] => true
  | skip + 1, _ :: rest => surrogatesPaired skip rest
  | 0, b :: rest =>
    if b != 0x5C then surrogatesPaired 0 rest
    else
      let r := escapedUnit (b :: rest)
      if !isSurrogate r then surrogatesPaired 1 rest
      else if !pairOK r (escapedUnit (rest.drop 5)) then false
      else surrogatesPaired 7 rest

/-- checkEncoding: `true` = nil error -/
def checkEncoding (raw : Bytes) : Bool := utf8Valid raw && surrogatesPaired 0 raw

/-- CanonicalJSON on the text `raw`, for which `json.Decoder.Token` (trusted) yields the raw
    tokens `ts` followed by io.EOF (`eof`) or by a decoder error: UnmarshalJSON reads the
    input, returns checkEncoding's error if there is one, and only then runs the decoder -/
def canonText (raw : Bytes) (ts : List RTok) (eof : Bool) : Outcome Chars :=
  if checkEncoding raw then canonRaw ts eof else .err

/-! ## what `json.Decoder.Token` guarantees about its stream (trusted, modelled)

The decoder keeps a stack of open containers and a state per container
(stream.go: tokenArrayStart/Value/Comma, tokenObjectStart/Key/Colon/Value/Comma).
Commas and colons are consumed silently, so at token granularity: inside an
array a value or `]` may come; inside an object a string key or `}`, and after
a key exactly one value; at top level values only (any number of them: the
decoder is a stream decoder).  Anything else is a SyntaxError, i.e. the end of
the token list with `eof = false`. -/

inductive Ctx where
  | arr | objKey | objVal
deriving DecidableEq, Repr

def valueAllowed : List Ctx → Bool
  | [] => true
  | .arr :: _ => true
  | .objVal :: _ => true
  | .objKey :: _ => false

/-- tokenValueEnd -/
def afterValue : List Ctx → List Ctx
  | .objVal :: s => .objKey :: s
  | s => s

def decStep (S : List Ctx) : GTok → Option (List Ctx)
  | .lbrack => if valueAllowed S then some (.arr :: S) else none
  | .lbrace => if valueAllowed S then some (.objKey :: S) else none
  | .rbrack => match S with
    | .arr :: S' => some (afterValue S')
    | _ => none
  | .rbrace => match S with
    | .objKey :: S' => some (afterValue S')
    | _ => none
  | .val a => match S, a with
    | .objKey :: S', .str _ => some (.objVal :: S')
    | _, _ => if valueAllowed S then some (afterValue S) else none
  | .bad => if valueAllowed S then some (afterValue S) else none   -- a number literal: a value, never a key

def decRun : List Ctx → List GTok → Option (List Ctx)
  | S, [] => some S
  | S, t :: ts => match decStep S t with
    | none => none
    | some S' => decRun S' ts

/-- `ts` is a token sequence the decoder can emit from the start of input -/
def decValid (ts : List GTok) : Bool := (decRun [] ts).isSome

/- the tokens the decoder yields for a value -/
mutual
def gtoks : J → List GTok
  | .atom a => [.val a]
  | .arr xs => .lbrack :: (gtoksL xs ++ [.rbrack])
  | .obj kvs => .lbrace :: (gtoksK kvs ++ [.rbrace])
def gtoksL : JL → List GTok
  | .nil => []
  | .cons x xs => gtoks x ++ gtoksL xs
def gtoksK : KL → List GTok
  | .nil => []
  | .cons k v r => .val (.str k) :: (gtoks v ++ gtoksK r)
end

/-- the literal the decoder yields for a leaf -/
def litOf : Atom → Lit
  | .null => .null
  | .bool b => .bool b
  | .int i => .int i
  | .flt n ds e => .flt n ds e
  | .str s => .str s

/- the raw tokens the decoder yields for a value (no number beyond float64 among them:
   such a number is not a value of `J`) -/
mutual
def rtoks : J → List RTok
  | .atom a => [.lit (litOf a)]
  | .arr xs => .lbrack :: (rtoksL xs ++ [.rbrack])
  | .obj kvs => .lbrace :: (rtoksK kvs ++ [.rbrace])
def rtoksL : JL → List RTok
  | .nil => []
  | .cons x xs => rtoks x ++ rtoksL xs
def rtoksK : KL → List RTok
  | .nil => []
  | .cons k v r => .lit (.str k) :: (rtoks v ++ rtoksK r)
end

/-! ## CanonicalJSON on a value -/

/-- canonical text (code points) of a JSON value; `none` = rejected -/
def canonChars (v : J) : Option Chars := marshalJ (sortJ v)

/-- canonical bytes -/
def canon (v : J) : Option Bytes := (canonChars v).map utf8s

end GoblVerif.C14n
