/-
  The INPUT side of the bulk dispatcher (/repo/internal/cli/bulk.go `Bulk`),
  one level below `Model/Bulk.lean`, and the CONTEXT the workers share.

  ## Input

  `Model/Bulk.lean` starts from "the requests that decode, then a `Tail`".
  Here the request stream is what the reader really meets: a list of values,
  each either a complete request or a value `dec.Decode(&req)` fails on, and
  the way the byte stream itself ends:

      for {
        seq := atomic.AddInt64(&seq, 1)
        var req BulkRequest
        err := dec.Decode(&req)
        if err != nil {                     -- ANY error: same branch
          wg.Wait()
          res := &BulkResponse{ReqID: req.ReqID, SeqID: seq, IsFinal: true}
          if err != io.EOF { res.Error = wrapError(422, err) }
          resCh <- res
          return
        }
        …spawn worker…
      }

  `json.Decoder.Decode` fails
    * with `io.EOF` when the input ends between values            → `Ending.eof`
    * with `io.ErrUnexpectedEOF` when it ends inside a value      → `Ending.cut`
    * with the reader's own error when the reader fails (between
      values or inside one)                                        → `Ending.readError`
    * with a `*json.SyntaxError` on a value that is not JSON       → `Item.broken ""`
    * with a `*json.UnmarshalTypeError` on a JSON value with a wrongly
      typed member; the members that did decode stay in `req`      → `Item.broken req_id`
  and in every case nothing further is read.  `parse` is that loop seen as a
  function: the complete requests before the first failure, and the `Tail`.

  ## Context

  A worker's operation reads its document through a reader that gives up
  when the context is cancelled, so its result is a function of the request
  AND of whether the context was cancelled by then: `CCfg.f : Req α → Bool → β`.
  In the code the context of every worker is the one the CALLER passed to
  `Bulk` (regenerated fact: no context is derived or cancelled inside `Bulk`),
  so the only cancellation is an action of the environment: label `cancel`.
  `cstep` is `Bulk.step` with the flag threaded through; a worker's result is
  fixed at the moment it sends (cancellation and sending are atomic steps, the
  schedule decides their order).

  Core Lean only.
-/
import GoblVerif.Model.Bulk

namespace GoblVerif.Bulk

variable {α β : Type}

/-! ## the input as the reader meets it -/

/-- one value of the request stream -/
inductive Item (α : Type)
  /-- a complete request that decodes -/
  | ok (r : Req α)
  /-- a complete value `Decode` fails on (not JSON, or a wrongly typed member);
      `partialId` is the `req_id` the failed decode left behind ("" for a
      syntax error: nothing was unmarshalled) -/
  | broken (partialId : String)
deriving Repr

/-- how the byte stream ends after the last complete value -/
inductive Ending
  /-- cleanly, between values (`io.EOF`) -/
  | eof
  /-- inside a value: the last request is cut short (`io.ErrUnexpectedEOF`) -/
  | cut
  /-- the reader fails with an error of its own, between values or inside one -/
  | readError
deriving DecidableEq, Repr

/-- what the end of the bytes means for the decode loop: only a clean end is
    not an error; a truncated request or a failing reader leave no request id -/
def Ending.tail : Ending → Tail
  | .eof => .eof
  | .cut => .bad ""
  | .readError => .bad ""

/-- the decode loop as a function: the requests read completely before the
    first failing `Decode`, and what that failure was -/
def parse : List (Item α) → Ending → List (Req α) × Tail
  | [], e => ([], e.tail)
  | .ok r :: rest, e => let p := parse rest e; (r :: p.1, p.2)
  | .broken id :: _, _ => ([], .bad id)

/-- the run of the dispatcher on a raw input -/
def Cfg.ofInput (items : List (Item α)) (e : Ending) (f : Req α → β) (cap : Nat) : Cfg α β :=
  { reqs := (parse items e).1, tail := (parse items e).2, f := f, cap := cap }

/-- the final marker owed when the input cannot be read beyond `n` complete
    requests: position n+1, final, no payload, error flag, the partial id -/
def unreadableMarker (n : Nat) (partialId : String) : Resp β :=
  { reqId := partialId, seq := n + 1, payload := none, isFinal := true, err := true }

/-! ## the context shared by the workers -/

/-- static parameters of a run whose workers read through a cancellable context -/
structure CCfg (α β : Type) where
  reqs : List (Req α)
  tail : Tail
  /-- result of a request, given whether the context was cancelled when the
      worker delivered it -/
  f : Req α → Bool → β
  cap : Nat

/-- the plain configuration when the flag has the value `b` -/
def CCfg.at (c : CCfg α β) (b : Bool) : Cfg α β :=
  { reqs := c.reqs, tail := c.tail, f := fun r => c.f r b, cap := c.cap }

structure CState (α β : Type) where
  base : State α β
  /-- the caller has cancelled the context it passed to `Bulk` -/
  cancelled : Bool

inductive CLabel
  /-- a step of the dispatcher itself -/
  | sys (l : Label)
  /-- the CALLER cancels its context (the only cancellation in the code) -/
  | cancel
deriving DecidableEq, Repr

def cinit (c : CCfg α β) : CState α β := { base := init (c.at false), cancelled := false }

def cstep (c : CCfg α β) (s : CState α β) : CLabel → Option (CState α β)
  | .cancel => some { s with cancelled := true }
  | .sys l =>
    match step (c.at s.cancelled) s.base l with
    | some b => some { s with base := b }
    | none => none

def cexec (c : CCfg α β) (s : CState α β) : List CLabel → Option (CState α β)
  | [] => some s
  | l :: ls => match cstep c s l with
    | some s' => cexec c s' ls
    | none => none

/-- the pairing part of a response: everything but what the payload says -/
def Resp.shape (r : Resp β) : Resp Unit :=
  { reqId := r.reqId, seq := r.seq, payload := r.payload.map (fun _ => ()), isFinal := r.isFinal, err := r.err }

/-- the configuration that only keeps track of pairing -/
def CCfg.shape (c : CCfg α β) : Cfg α Unit :=
  { reqs := c.reqs, tail := c.tail, f := fun _ => (), cap := c.cap }

def State.shape (s : State α β) : State α Unit :=
  { pending := s.pending, next := s.next, running := s.running, sent := s.sent, phase := s.phase,
    buf := s.buf.map Resp.shape, out := s.out.map Resp.shape }

end GoblVerif.Bulk
