/-
  Model of /repo/envelope.go (+ dsig/signature.go, internal/cli/verify.go) as
  the code is now (after the `fix:` commits 86a7536 and b7d9626).  Shared by
  C09 (verification verdicts) and C10 (life-cycle).  Core Lean only.

  Idealisations (trusted base, stated in the MANIFEST):
  * a JWS is the pair (signer, payload) and `jwsValid k s := s.signer = k`
    (ES256 unforgeability, go-jose);
  * the digest of a document is `H content` for a function `H` on the
    document's canonical content; injectivity of `H` (SHA-256 collision
    resistance + C07) is an explicit hypothesis wherever it is used;
  * the document is abstract: an identity of its canonical content, and the
    three facts the envelope code asks of it (can it be calculated, does it
    validate, does it carry a code / need one when signed);
  * entry-level header validity (non-empty stamp provider/value, link URL
    syntax, UUID timestamp, non-empty digest algorithm/value) is outside the
    model; the harness stays inside that domain.
-/
import GoblVerif.Model.Header

namespace GoblVerif

abbrev Key := Nat

/-- an ideal signature: who signed, and the header that was signed
    (`dsig.NewSignature(key, e.Head)`: payload = JSON of the header) -/
structure Sig where
  signer : Key
  payload : Header
deriving DecidableEq, Repr, Inhabited

/-- `jws.Verify(key)` succeeds exactly for the signer's key -/
def jwsValid (k : Key) (s : Sig) : Bool := s.signer == k

/-- abstract document (`schema.Object` with its payload) -/
structure Doc where
  /-- identity of the canonical content (what the digest is computed from) -/
  content : Nat
  /-- `Document.Calculate()` succeeds -/
  calcOk : Bool
  /-- the payload validates outside the signed context -/
  valid : Bool
  /-- bill.Invoice & co: `code` required when `internal.IsSigned(ctx)` -/
  needsCode : Bool
  hasCode : Bool
deriving DecidableEq, Repr, Inhabited

/-- `gobl.Envelope`; an entry `none` of `sigs` is a JSON `null` entry
    (`[]*dsig.Signature` with a nil pointer) -/
structure Env where
  head : Header
  doc : Option Doc
  sigs : List (Option Sig)
deriving DecidableEq, Repr, Inhabited

inductive Outcome
  | ok | skip | noDocument | calculation | validation | digest | signature
  | marshal | parse | unsigned | verifyFailed
deriving DecidableEq, Repr, Inhabited

def Outcome.str : Outcome → String
  | .ok => "ok" | .skip => "skip" | .noDocument => "no-document" | .calculation => "calculation"
  | .validation => "validation" | .digest => "digest" | .signature => "signature"
  | .marshal => "marshal" | .parse => "parse" | .unsigned => "unsigned" | .verifyFailed => "verify-failed"

section
variable (H : Nat → String)

/-- `Envelope.Digest()`: SHA-256 of the canonical JSON of the document -/
def digestOf (d : Doc) : Digest := ⟨"sha256", H d.content⟩

/-- `Envelope.Signed()` -/
def Env.signed (e : Env) : Bool := !e.sigs.isEmpty

/-- the header rules of `Header.ValidateWithContext` that the model covers:
    digest required; stamps must be empty unless signed; no duplicate stamp
    providers; no duplicate link keys -/
def headBad (h : Header) (signed : Bool) : Bool :=
  h.dig.isNone || (!signed && !h.stamps.isEmpty)
  || dupKeys (h.stamps.map (·.prv)) || dupKeys (h.links.map (·.key))

/-- payload validation; `bill.Invoice.ValidateWithContext`: code required when signed -/
def Doc.validIn (d : Doc) (signed : Bool) : Bool :=
  d.valid && (!(signed && d.needsCode) || d.hasCode)

/-- `Envelope.Validate`: struct validation (header, document in the signed
    context when there are signatures, every signature entry non-nil), then
    `verifyDigest` -/
def Env.validate (e : Env) : Outcome :=
  match e.doc with
  | none => .validation
  | some d =>
    if headBad e.head e.signed || !d.validIn e.signed || e.sigs.any (·.isNone) then .validation
    else if e.head.dig == some (digestOf H d) then .ok else .digest

/-- `Envelope.calculate`: document calculated, then the header digest refreshed -/
def Env.calculate (e : Env) : Env × Outcome :=
  match e.doc with
  | none => (e, .noDocument)
  | some d =>
    if d.calcOk then ({ e with head := { e.head with dig := some (digestOf H d) } }, .ok)
    else (e, .calculation)

/-- `Envelope.Insert`: the document is replaced first, then `calculate` -/
def Env.insert (e : Env) (d : Doc) : Env × Outcome :=
  Env.calculate H { e with doc := some d }

/-- `Envelope.Sign`: sign the header, append, validate, and on failure drop
    *all* signatures -/
def Env.sign (e : Env) (k : Key) : Env × Outcome :=
  let e' := { e with sigs := e.sigs ++ [some ⟨k, e.head⟩] }
  match Env.validate H e' with
  | .ok => (e', .ok)
  | o => ({ e with sigs := [] }, o)

/-- `Envelope.Unsign` -/
def Env.unsign (e : Env) : Env := { e with sigs := [] }

end

/-! ## verification -/

inductive SigVerdict
  | ok | mismatch | noKey | badPayload
deriving DecidableEq, Repr, Inhabited

def SigVerdict.str : SigVerdict → String
  | .ok => "ok" | .mismatch => "mismatch" | .noKey => "nokey" | .badPayload => "badpayload"

/-- `Envelope.verifySignature`: without keys only the content is compared
    (`UnsafePayload`); with keys the first key under which the JWS verifies
    decides (`continue` on a key mismatch, then `Contains`) -/
def verifySignature (h : Header) (s : Option Sig) (keys : List Key) : SigVerdict :=
  match s with
  | none => if keys.isEmpty then .badPayload else .noKey
  | some s =>
    if keys.isEmpty then (if h.contains s.payload then .ok else .mismatch)
    else
      match keys.find? (fun k => jwsValid k s) with
      | none => .noKey
      | some _ => if h.contains s.payload then .ok else .mismatch

inductive VerifyOut
  | ok | unsigned | failed (vs : List SigVerdict)
deriving DecidableEq, Repr, Inhabited

/-- `Envelope.Verify(keys...)` -/
def Env.verify (e : Env) (keys : List Key) : VerifyOut :=
  if e.sigs.isEmpty then .unsigned
  else
    let vs := e.sigs.map (fun s => verifySignature e.head s keys)
    if vs.all (· == .ok) then .ok else .failed vs

def VerifyOut.outcome : VerifyOut → Outcome
  | .ok => .ok | .unsigned => .unsigned | .failed _ => .verifyFailed

inductive CliOut
  | ok | invalid (o : Outcome) | keyRequired | unsigned | keyMismatch | headerMismatch
deriving DecidableEq, Repr, Inhabited

/-- the loop of `cli.Verify` over `env.Signatures` -/
def cliSigs (h : Header) (k : Key) : List (Option Sig) → CliOut
  | [] => .ok
  | none :: _ => .keyMismatch
  | some s :: rest =>
    if !jwsValid k s then .keyMismatch
    else if !h.contains s.payload then .headerMismatch
    else cliSigs h k rest

/-- `internal/cli.Verify` (the function behind `gobl verify`, the bulk
    `verify` action and `POST /verify`): unmarshal, `Validate`, key required,
    signed, then every signature must verify under the key and be contained -/
def Env.cliVerify (H : Nat → String) (e : Env) (key : Option Key) : CliOut :=
  match Env.validate H e with
  | .ok =>
    match key with
    | none => .keyRequired
    | some k => if e.sigs.isEmpty then .unsigned else cliSigs e.head k e.sigs
  | o => .invalid o

/-! ## operations (Appendix B alphabet) -/

inductive Inject
  | none | empty | null
deriving DecidableEq, Repr, Inhabited

/-- the envelope API operations of the life-cycle (C10) -/
inductive Op
  | insert (d : Doc)
  | calculate
  | editDoc (c : Nat)          -- a content edit; `c` identifies the new content
  | toggleCode (c : Nat)       -- set / clear the invoice code (also a content edit)
  | sign (k : Key)
  | signBadKey                 -- `Sign` with an invalid private key
  | unsign
  | addStamp (p v : String)    -- `Head.AddStamp`
  | alterStamp (v : String)    -- `Head.AddStamp` with the provider of the first stamp
  | addLink (k u : String)     -- `Head.AddLink`
  | addTag (t : String)
  | setMeta (k v : String)
  | setNotes (s : String)
  | validate
  | verify (ks : List Key)
  | roundtrip (inj : Inject)   -- json.Marshal ∘ json.Unmarshal, optionally with an injected `""` / `null` entry in "sigs"
deriving DecidableEq, Repr, Inhabited

def Env.setHead (e : Env) (h : Header) : Env := { e with head := h }

/-- one step: new state and outcome class -/
def Env.step (H : Nat → String) (e : Env) : Op → Env × Outcome
  | .insert d => Env.insert H e d
  | .calculate => Env.calculate H e
  | .editDoc c =>
    match e.doc with
    | none => (e, .skip)
    | some d => ({ e with doc := some { d with content := c } }, .ok)
  | .toggleCode c =>
    match e.doc with
    | none => (e, .skip)
    | some d => ({ e with doc := some { d with content := c, hasCode := !d.hasCode } }, .ok)
  | .sign k => Env.sign H e k
  | .signBadKey => (e, .signature)
  | .unsign => (e.unsign, .ok)
  | .addStamp p v => (e.setHead (e.head.addStamp ⟨p, v⟩), .ok)
  | .alterStamp v =>
    match e.head.stamps with
    | [] => (e, .skip)
    | s :: _ => (e.setHead (e.head.addStamp ⟨s.prv, v⟩), .ok)
  | .addLink k u => (e.setHead (e.head.addLink { key := k, url := u }), .ok)
  | .addTag t => (e.setHead (e.head.addTag t), .ok)
  | .setMeta k v => (e.setHead (e.head.setMeta k v), .ok)
  | .setNotes s => (e.setHead (e.head.setNotes s), .ok)
  | .validate => (e, Env.validate H e)
  | .verify ks => (e, (e.verify ks).outcome)
  | .roundtrip inj =>
    match e.doc with
    | none => (e, .marshal)          -- an empty `schema.Object` does not marshal
    | some _ =>
      match inj with
      | .none => (e, .ok)
      | .empty => (e, .parse)        -- `"sigs":[…,""]`: "dsig: empty signature"
      | .null => ({ e with sigs := e.sigs ++ [none] }, .ok)

/-- run a history, collecting the outcome of every step -/
def Env.run (H : Nat → String) : Env → List Op → Env × List Outcome
  | e, [] => (e, [])
  | e, op :: ops =>
    let (e1, o) := Env.step H e op
    let (e2, os) := Env.run H e1 ops
    (e2, o :: os)

/-- the state after a history -/
def Env.after (H : Nat → String) : Env → List Op → Env
  | e, [] => e
  | e, op :: ops => Env.after H (Env.step H e op).1 ops

/-! ## raw manipulations used by the C09 histories (not envelope API) -/

def modifyAt {α} (f : α → α) : Nat → List α → List α
  | _, [] => []
  | 0, x :: xs => f x :: xs
  | n + 1, x :: xs => x :: modifyAt f n xs

inductive Tamper
  | setUUID (u : String)
  | setDigVal (v : String)
  | setDigAlg (a : String)
  | setStampVal (i : Nat) (v : String)
  | dropStamp (i : Nat)
  | rawAddStamp (p v : String)
  | setLinkURL (i : Nat) (u : String)
  | dropLink (i : Nat)
  | rawAddLink (k u : String)
  | setTag (i : Nat) (t : String)
  | dropTag (i : Nat)
  | dropMeta (k : String)
  | setSigs (ss : List Sig)        -- replace the signature list (signatures made elsewhere)
deriving DecidableEq, Repr, Inhabited

def Header.tamper (h : Header) : Tamper → Header
  | .setUUID u => { h with uuid := u }
  | .setDigVal v => { h with dig := h.dig.map (fun d => { d with val := v }) }
  | .setDigAlg a => { h with dig := h.dig.map (fun d => { d with alg := a }) }
  | .setStampVal i v => { h with stamps := modifyAt (fun s => { s with val := v }) i h.stamps }
  | .dropStamp i => { h with stamps := h.stamps.eraseIdx i }
  | .rawAddStamp p v => { h with stamps := h.stamps ++ [⟨p, v⟩] }
  | .setLinkURL i u => { h with links := modifyAt (fun l => { l with url := u }) i h.links }
  | .dropLink i => { h with links := h.links.eraseIdx i }
  | .rawAddLink k u => { h with links := h.links ++ [{ key := k, url := u }] }
  | .setTag i t => { h with tags := modifyAt (fun _ => t) i h.tags }
  | .dropTag i => { h with tags := h.tags.eraseIdx i }
  | .dropMeta k => { h with metas := h.metas.filter (fun kv => kv.1 != k) }
  | .setSigs _ => h

def Env.tamper (e : Env) (t : Tamper) : Env :=
  match t with
  | .setSigs ss => { e with sigs := ss.map some }
  | t => { e with head := e.head.tamper t }

inductive Action
  | op (o : Op)
  | tamper (t : Tamper)
deriving Repr, Inhabited

def Env.act (H : Nat → String) (e : Env) : Action → Env × Outcome
  | .op o => Env.step H e o
  | .tamper t => (e.tamper t, .ok)

end GoblVerif

namespace GoblVerif.WrittenAgainst
/-! The Go text the envelope model was written against (envelope.go,
    internal/cli/verify.go, dsig/signature.go, dsig/digest.go,
    bill/invoice.go, internal/internal.go). -/

def verifyConds : List String :=
  ["len(e.Signatures) == 0", "err := e.verifySignature(s, keys...); err != nil", "len(ve) > 0"]
def verifyRanges : List String := ["e.Signatures"]
/- `e.Head == nil` and `schema.CheckNullElements(h)` (a signed header whose stamps or links hold a
   JSON null) guard states the model cannot be in: its envelope always has a header and a payload is a
   well-formed `Header`.  They answer "header mismatch" / "invalid signature payload" where the code
   dereferenced nil before (/repo ce09676, f6bf443, d87a85b: the envelope's own header with null
   entries; a8ec37f: a public key without key material is a key that matches nothing). -/
def verifySignatureConds : List String :=
  ["e.Head == nil || schema.CheckNullElements(e.Head) != nil", "len(keys) == 0", "err := sig.UnsafePayload(h); err != nil",
   "err := schema.CheckNullElements(h); err != nil", "!e.Head.Contains(h)",
   "err := sig.VerifyPayload(k, h); err != nil", "err := schema.CheckNullElements(h); err != nil",
   "e.Head.Contains(h)"]
def verifySignatureReturns : List String :=
  ["errors.New(\"header mismatch\")", "errors.New(\"invalid signature payload\")",
   "errors.New(\"invalid signature payload\")", "errors.New(\"header mismatch\")", "nil",
   "errors.New(\"invalid signature payload\")", "nil",
   "errors.New(\"header mismatch\")", "errors.New(\"no key match found\")"]
def verifySignatureRanges : List String := ["keys"]
def cliVerifyConds : List String :=
  ["err != nil", "err := jsonyaml.Unmarshal(body, env); err != nil", "err := env.Validate(); err != nil",
   "key == nil", "!env.Signed()", "err := sig.VerifyPayload(key, h); err != nil",
   "err := schema.CheckNullElements(h); err != nil", "!env.Head.Contains(h)"]
def cliVerifyRanges : List String := ["env.Signatures"]
def cliVerifyReturns : List String :=
  ["wrapError(StatusBadRequest, err)", "wrapError(StatusBadRequest, err)",
   "wrapError(StatusUnprocessableEntity, err)", "wrapErrorf(StatusBadRequest, \"public key required\")",
   "wrapErrorf(http.StatusUnprocessableEntity, \"envelope is not signed\")",
   "wrapError(http.StatusUnprocessableEntity, err)",
   "wrapErrorf(http.StatusUnprocessableEntity, \"invalid signature payload\")",
   "wrapErrorf(http.StatusUnprocessableEntity, \"header mismatch\")", "nil"]
def sigVerifyConds : List String := ["s == nil || s.jws == nil || key == nil || key.jwk == nil", "err != nil"]
def sigUnsafeConds : List String := ["s == nil || s.jws == nil"]
def sigUnmarshalConds : List String := ["err := json.Unmarshal(data, &str); err != nil", "len(str) == 0"]
def sigUnmarshalReturns : List String :=
  ["fmt.Errorf(\"dsig: %w\", err)", "errors.New(\"dsig: empty signature\")", "s.parse(str)"]
def digestStringReturns : List String := ["fmt.Sprintf(\"%s;%s\", string(d.Algorithm), d.Value)"]
def digestEqualsConds : List String := ["d.Algorithm != d2.Algorithm", "d.Value != d2.Value"]

def validateConds : List String := ["len(e.Signatures) > 0", "err != nil"]
def validateReturns : List String := ["wrapError(err)", "wrapError(e.verifyDigest())"]
def validatedFields : List String := ["Schema", "Head", "Document", "Signatures"]
def rulesSignatures : List String := ["validation.Each(validation.Required)"]
def verifyDigestReturns : List String := ["err", "ErrDigest.WithCause(err)", "nil"]
def signCalls : List String := ["WithReason", "Sign", "WithCause", "append", "Validate"]
def signAssigns : List String :=
  ["sig, err := key.Sign(e.Head)", "e.Signatures = append(e.Signatures, sig)", "err := e.Validate()",
   "e.Signatures = nil"]
def signReturns : List String :=
  ["ErrValidation.WithReason(\"header required\")", "ErrSignature.WithCause(err)", "err", "nil"]
def unsignAssigns : List String := ["e.Signatures = nil"]
def signedReturns : List String := ["len(e.Signatures) > 0"]
def insertCalls : List String := ["WithReason", "NewObject", "wrapError", "calculate", "wrapError"]
def insertReturns : List String :=
  ["ErrInternal.WithReason(\"missing head\")", "ErrNoDocument", "wrapError(err)", "wrapError(err)", "nil"]
def calculateConds : List String := ["e.Document == nil", "e.Document.IsEmpty()"]
def calculateReturns : List String := ["ErrNoDocument", "ErrNoDocument", "e.calculate()"]
def calcAssigns : List String :=
  ["e.Schema = EnvelopeSchema", "err := e.Document.Calculate()", "e.Head = head.NewHeader()",
   "e.Head.UUID = uuid.V7()", "e.Head.Digest, err = e.Digest()"]
def calcReturns : List String := ["ErrCalculation.WithCause(err)", "err", "nil"]
def invoiceCodeRule : List String :=
  ["validation.When( internal.IsSigned(ctx), validation.Required.Error(\"required to sign invoice\"), )"]
def isSignedReturns : List String := ["false", "ctx.Value(KeySigned) == true"]
def signedContextReturns : List String := ["context.WithValue(ctx, KeySigned, true)"]

end GoblVerif.WrittenAgainst
