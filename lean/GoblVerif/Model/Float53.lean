/-
  Float53: an executable model of the IEEE-754 binary64 operations that
  `num.Amount` goes through (`float64(int64)`, `*`, `/`, `math.Round`).

  Core Lean only (so that the driver links as a native executable).

  * `rnd53 q`   : round the rational `q` to the nearest number with a 53-bit
                  significand (ties to even, unbounded exponent: no overflow,
                  no subnormals -- the magnitudes that occur are < 2^128).
  * `goRound x` : Go's `math.Round` (half away from zero) on an exact value.
  * `rha n d`   : the *specification* rounding: n/d rounded half away from
                  zero, on integers, for d > 0.
-/
namespace GoblVerif

/-- round half away from zero of n/d, for d > 0 (integer specification) -/
def rha (n d : Int) : Int :=
  if 0 ≤ n then (2 * n + d) / (2 * d) else - ((2 * (-n) + d) / (2 * d))

/-- floor(log2 |q|) for q ≠ 0 -/
def ilog2 (q : Rat) : Int :=
  let n := q.num.natAbs
  let d := q.den
  let e0 : Int := (Nat.log2 n : Int) - (Nat.log2 d : Int)
  let a : Rat := if 0 ≤ q then q else -q
  if (2 : Rat) ^ e0 ≤ a then e0 else e0 - 1

/-- round to nearest integer, ties to even -/
def roundHalfEven (x : Rat) : Int :=
  let f := x.floor
  let r := x - f
  if r < 1/2 then f
  else if 1/2 < r then f + 1
  else if f % 2 = 0 then f else f + 1

/-- nearest binary64 (53-bit significand, ties to even, unbounded exponent) -/
def rnd53 (q : Rat) : Rat :=
  if q = 0 then 0 else
  let e := ilog2 q
  let u : Rat := (2 : Rat) ^ (e - 52)
  (roundHalfEven (q / u) : Rat) * u

/-- Go `math.Round`: half away from zero -/
def goRound (x : Rat) : Int :=
  if 0 ≤ x then (x + 1/2).floor else - ((-x + 1/2).floor)

/-- `float64(a) * float64(b)` -/
def fmul (a b : Rat) : Rat := rnd53 (a * b)
/-- `float64(a) / float64(b)`, b ≠ 0 -/
def fdiv (a b : Rat) : Rat := rnd53 (a / b)
/-- `float64(int64)` -/
def ofInt64 (i : Int) : Rat := rnd53 (i : Rat)

end GoblVerif
