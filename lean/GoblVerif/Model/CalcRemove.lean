/-
  CalcRemove: executable model of `Invoice.RemoveIncludedTaxes`
  (/repo/bill/invoice.go → bill/calculator.go `removeIncludedTaxes`,
  bill/line.go `removeLineIncludedTaxes`, `removeSubLinesIncludedTaxes`,
  `removeLineDiscountsIncludedTaxes`, `removeLineChargesIncludedTaxes`,
  bill/discounts.go `Discount.removeIncludedTaxes`, bill/charges.go
  `Charge.removeIncludedTaxes`), one Lean function per Go function, on top of
  `Calc.calculate` (Model/Calc.lean) and parametric in the same rounding
  primitives.

  The Go function works on the invoice *in memory*: `calculate` overwrites the
  rows with their calculated and presented (rounded) form and replaces the
  totals object, and `removeIncludedTaxes` calls it two or three times.  `Mem`
  is that state (rows and settings as a `Doc`, plus the `Totals` object if
  there is one); `calcMem` is one `calculate(doc)` on it.  What `calculate`
  reads from an existing totals object is its `Rounding` only
  (`Totals.reset` keeps it), which is what `Doc.rounding` stands for.

  Not modelled (as in Calc.lean): substituted sub-lines (no effect on any
  total).  Tax combos are prepared ones: `line.Taxes.Get(cat).Percent` is the
  percentage the first calculation resolved.

  Core Lean only.
-/
import GoblVerif.Model.Calc

namespace GoblVerif.Calc

/-- `defaultTaxRemovalAccuracy` (bill/invoice.go) -/
def removalAccuracy : Nat := 2

/-- an invoice in memory -/
structure Mem where
  /-- rows and settings; `doc.rounding` is not read: the rounding lives in `totals` -/
  doc : Doc
  /-- `inv.Totals` -/
  totals : Option Totals
deriving Repr, Inhabited

/-- why `removeIncludedTaxes` did not return normally -/
inductive RemErr
  | calc (e : CalcErr)   -- one of its `calculate` calls returned an error
  | nilTotals            -- `t.TotalWithTax` on a nil `doc.getTotals()` (a panic in Go; shown unreachable in Proofs/CalcRemove.lean)
deriving Repr, DecidableEq, Inhabited

/-- `new(Totals)`: every amount is the zero value `Amount{0, 0}` -/
def zeroTotals : Totals :=
  { sum := ⟨0, 0⟩, discount := none, charge := none, taxIncluded := none, total := ⟨0, 0⟩, taxes := none,
    tax := ⟨0, 0⟩, totalWithTax := ⟨0, 0⟩, rounding := none, payable := ⟨0, 0⟩, advances := none, due := none }

section
variable (o : Ops)

/-- the rows as `calculate` leaves them in memory (`rereadDoc` of Proofs/CalcFix.lean) -/
def stored (d : Doc) (out : Out) : Doc :=
  { d with lines := out.lines, discounts := out.discounts, charges := out.charges,
           advances := out.advances, dues := out.dues }

/-- one `calculate(doc)` on the invoice in memory: the rounding is taken from the totals object, the
rows are overwritten, the totals object is replaced (by nil when there is nothing to add up) -/
def calcMem (m : Mem) : Except CalcErr Mem :=
  let d : Doc := { m.doc with rounding := m.totals.bind (·.rounding) }
  match calculate o d with
  | .error e => .error e
  | .ok out => .ok { doc := stored d out, totals := out.totals }

/-- `Amount.Upscale` -/
def upscale (a : Amount) (n : Nat) : Amount := o.rescale a (a.exp + n)

/-- `x.Upscale(accuracy).Remove(percent)` -/
def removeAt (a : Amount) (p : Pct) : Amount := remove o (upscale o a removalAccuracy) p

/-- `removeLineDiscountsIncludedTaxes` / `removeLineChargesIncludedTaxes`, one row -/
def removeLineAdj (p : Pct) (d : LineAdj) : LineAdj := { d with amount := removeAt o d.amount p }

/-- `removeSubLinesIncludedTaxes`, one row -/
def removeSubLine (p : Pct) (sl : SubLine) : SubLine :=
  match sl.item with
  | none => sl
  | some it =>
    match it.price with
    | none => sl
    | some pr =>
      { sl with item := some { it with alts := [], price := some (removeAt o pr p) },
                discounts := sl.discounts.map (removeLineAdj o p),
                charges := sl.charges.map (removeLineAdj o p) }

/-- `removeLineIncludedTaxes` -/
def removeLineIncluded (k : String) (l : Line) : Line :=
  match l.taxes.find? (fun cb => cb.cat == k) with
  | none => l
  | some cb =>
    match cb.percent with
    | none => l
    | some p =>
      match l.item with
      | none => l
      | some it =>
        match it.price with
        | none => l
        | some pr =>
          { l with item := some { it with alts := [], price := some (removeAt o pr p) },
                   breakdown := l.breakdown.map (removeSubLine o p),
                   discounts := l.discounts.map (removeLineAdj o p),
                   charges := l.charges.map (removeLineAdj o p) }

/-- `Discount.removeIncludedTaxes` / `Charge.removeIncludedTaxes` -/
def removeAdjIncluded (k : String) (x : DocAdj) : DocAdj :=
  match x.taxes.find? (fun cb => cb.cat == k) with
  | none => x
  | some cb =>
    match cb.percent with
    | none => x
    | some p => { x with amount := removeAt o x.amount p }

/-- the document between the removal and the recalculation: a fresh totals object, every row with the
included tax taken out, `tax.prices_include` cleared -/
def removedMem (k : String) (m : Mem) : Mem :=
  { doc := { m.doc with lines := m.doc.lines.map (removeLineIncluded o k),
                        discounts := m.doc.discounts.map (removeAdjIncluded o k),
                        charges := m.doc.charges.map (removeAdjIncluded o k),
                        includes := none },
    totals := some zeroTotals }

/-- `removeIncludedTaxes` from `totalWithTax := doc.getTotals().TotalWithTax` on -/
def removeFrom (k : String) (m : Mem) (t : Totals) : Except RemErr Mem :=
  let totalWithTax := t.totalWithTax
  match calcMem o (removedMem o k m) with
  | .error e => .error (.calc e)
  | .ok m2 =>
    match m2.totals with
    | none => .error .nilTotals
    | some t2 =>
      if !(amtEq totalWithTax t2.totalWithTax) then
        let rnd := sub o totalWithTax t2.totalWithTax
        match calcMem o { m2 with totals := some { t2 with rounding := some rnd } } with
        | .error e => .error (.calc e)
        | .ok m3 => .ok m3
      else .ok m2

/-- `removeIncludedTaxes(doc)` -/
def removeIncludedMem (m : Mem) : Except RemErr Mem :=
  match m.doc.includes with
  | none => .ok m                                   -- `!canRemoveIncludedTaxes(doc)`
  | some k =>
    match m.totals with
    | some t => removeFrom o k m t
    | none =>
      -- totals are required to compare the result with
      match calcMem o m with
      | .error e => .error (.calc e)
      | .ok m1 =>
        match m1.totals with
        | none => .ok m1                            -- nothing to calculate
        | some t => removeFrom o k m1 t

/-- a `Doc` as an invoice in memory: no totals object, unless a rounding was supplied with one (then
that object holds nothing else: `&bill.Totals{Rounding: r}`) -/
def memOfDoc (d : Doc) : Mem :=
  { doc := d, totals := d.rounding.map (fun r => { zeroTotals with rounding := some r }) }

/-- what is left in memory, in the shape of a calculation result -/
def Mem.out (m : Mem) : Out :=
  { lines := m.doc.lines, discounts := m.doc.discounts, charges := m.doc.charges,
    advances := m.doc.advances, dues := m.doc.dues, totals := m.totals }

/-- `Invoice.RemoveIncludedTaxes` on a document that has not been calculated yet -/
def removeIncludedDoc (d : Doc) : Except RemErr Out :=
  (removeIncludedMem o (memOfDoc d)).map Mem.out

/-- `Invoice.Calculate` followed by `Invoice.RemoveIncludedTaxes` (what the harness runs): the totals
exist when the removal starts, a rounding supplied with the document is in them -/
def calculateThenRemove (d : Doc) : Except RemErr Mem :=
  match calcMem o (memOfDoc d) with
  | .error e => .error (.calc e)
  | .ok m => removeIncludedMem o m

/-- the same after a `Calculate` whose totals were then dropped (`inv.Totals = nil`): the rows are
the stored ones, `removeIncludedTaxes` takes its "no totals yet" branch and calculates again -/
def removeIncludedRecalc (d : Doc) : Except RemErr Mem :=
  match calcMem o (memOfDoc d) with
  | .error e => .error (.calc e)
  | .ok m => removeIncludedMem o { m with totals := none }

end

end GoblVerif.Calc
