/-
  Schema: JSON values, and a JSON-Schema (draft 2020-12) *consumer model* for
  exactly the keyword subset that the files under /repo/data/schemas use
  (plus the handful of standard assertion keywords a regenerated file is most
  likely to start using: enum, allOf, not, if/then/else, additionalProperties,
  min/max…).  Any keyword that is neither evaluated nor a known annotation
  makes the verdict `broken` — never silently ignored.

  * `JVal` — JSON values; numbers are `m · 10^e` (exact decimal); strings and
    object keys are `NStr` (numbers, see Model/NStr.lean — the kernel cannot
    compute with `String` at any useful speed);
  * `wellTyped` — each keyword's value has the JSON type the 2020-12
    meta-schema requires (the old `"enum": "advice"` fails here);
  * `refsOk` — every `$ref` resolves (same file `#/$defs/…`, or another file by
    `$id`), and `$id` appears at file roots only;
  * `patternsOk` — every `pattern` / `patternProperties` key compiles in
    Model/Regex;
  * `validate` — the validator, with `$ref` resolution across files by `$id`.

  All recursive functions run on fuel (structural on `Nat`) so that they are
  total and kernel-evaluable; running out of fuel is reported (`broken`/false),
  never taken for success.  Core Lean only.
-/
import GoblVerif.Model.Regex
import GoblVerif.Model.NStr

namespace GoblVerif.Schema
open GoblVerif.Regex

inductive JVal where
  | null
  | bool (b : Bool)
  | num (m : Int) (e : Int)
  | str (s : NStr)
  | arr (xs : List JVal)
  | obj (kvs : List (NStr × JVal))
deriving Repr, Inhabited

namespace JVal

def get? : JVal → NStr → Option JVal
  | obj kvs, k => kvs.lookup k
  | _, _ => none

def str? : JVal → Option NStr
  | str s => some s
  | _ => none

def isObj : JVal → Bool | obj _ => true | _ => false
def isArr : JVal → Bool | arr _ => true | _ => false
def isStr : JVal → Bool | str _ => true | _ => false
def isBool : JVal → Bool | bool _ => true | _ => false
def isNum : JVal → Bool | num _ _ => true | _ => false

end JVal

/-! ## numbers -/

def pow10 (n : Nat) : Int := (10 : Int) ^ n

/-- `m · 10^e` is an integer -/
def numIsInt (m e : Int) : Bool := e ≥ 0 || m % pow10 (-e).toNat == 0

/-- compare `m1·10^e1` with `m2·10^e2`: `-1`, `0`, `1` -/
def numCmp (m1 e1 m2 e2 : Int) : Int :=
  let mn := min e1 e2
  let a := m1 * pow10 (e1 - mn).toNat
  let b := m2 * pow10 (e2 - mn).toNat
  if a < b then -1 else if a = b then 0 else 1

/-- a non-negative integer value, as the meta-schema's `nonNegativeInteger` -/
def natOf? : JVal → Option Nat
  | .num m e => if numIsInt m e && m ≥ 0 then
      some (if e ≥ 0 then (m * pow10 e.toNat).toNat else (m / pow10 (-e).toNat).toNat) else none
  | _ => none

/-! ## JSON equality (objects unordered, numbers by value) -/

def jeq : Nat → JVal → JVal → Bool
  | 0, _, _ => false
  | _ + 1, .null, .null => true
  | _ + 1, .bool a, .bool b => a == b
  | _ + 1, .num m1 e1, .num m2 e2 => numCmp m1 e1 m2 e2 == 0
  | _ + 1, .str a, .str b => a == b
  | f + 1, .arr xs, .arr ys =>
    xs.length == ys.length && (xs.zip ys).all fun p => jeq f p.1 p.2
  | f + 1, .obj xs, .obj ys =>
    xs.length == ys.length &&
    xs.all fun kv => match ys.lookup kv.1 with
      | some v => jeq f kv.2 v
      | none => false
  | _ + 1, _, _ => false

def eqFuel : Nat := 64

/-! ## keyword tables -/

/-- the JSON type the draft 2020-12 meta-schema demands of a keyword's value -/
inductive KwType where
  | str | bool | nat | number | any
  | strArr        -- array of strings
  | anyArr        -- array (enum)
  | typeVal       -- type name or array of type names
  | schema        -- object or boolean
  | schemaArr     -- non-empty array of schemas
  | schemaMap     -- object whose values are schemas
  | patMap        -- object whose keys are patterns and values schemas
deriving DecidableEq, Repr

def typeNames : List NStr :=
  [s%"null", s%"boolean", s%"object", s%"array", s%"number", s%"string", s%"integer"]

/-- keywords of the 2020-12 vocabularies this model knows, with the type of their value.
    (`calculated`, `recommended` are GOBL's own annotation keywords.) -/
def kwTable : List (NStr × KwType) := [
  -- most frequent first (the table is searched linearly, also by the kernel)
  (s%"title", .str), (s%"const", .any), (s%"description", .str), (s%"$ref", .str), (s%"type", .typeVal),
  (s%"items", .schema), (s%"properties", .schemaMap), (s%"required", .strArr), (s%"$defs", .schemaMap),
  (s%"$schema", .str), (s%"$id", .str), (s%"calculated", .bool), (s%"format", .str),
  (s%"oneOf", .schemaArr), (s%"pattern", .str), (s%"recommended", .strArr), (s%"anyOf", .schemaArr),
  (s%"examples", .anyArr), (s%"patternProperties", .patMap),
  (s%"minLength", .nat), (s%"maxLength", .nat), (s%"contentEncoding", .str),
  (s%"$comment", .str), (s%"default", .any),
  (s%"deprecated", .bool), (s%"readOnly", .bool), (s%"writeOnly", .bool), (s%"contentMediaType", .str),
  (s%"enum", .anyArr), (s%"additionalProperties", .schema), (s%"allOf", .schemaArr),
  (s%"not", .schema), (s%"if", .schema), (s%"then", .schema), (s%"else", .schema),
  (s%"minItems", .nat), (s%"maxItems", .nat),
  (s%"minProperties", .nat), (s%"maxProperties", .nat),
  (s%"minimum", .number), (s%"maximum", .number),
  (s%"exclusiveMinimum", .number), (s%"exclusiveMaximum", .number)]

def kwType (k : NStr) : Option KwType := kwTable.lookup k

/-- keywords that carry no assertion (annotations, identifiers, definitions) -/
def annotationKeywords : List NStr :=
  [s%"$schema", s%"$id", s%"$comment", s%"$defs", s%"title", s%"description", s%"default", s%"examples",
   s%"deprecated", s%"readOnly", s%"writeOnly", s%"contentEncoding", s%"contentMediaType",
   s%"calculated", s%"recommended"]

/-- keywords the validator evaluates -/
def assertionKeywords : List NStr :=
  [s%"$ref", s%"type", s%"const", s%"enum", s%"properties", s%"patternProperties", s%"additionalProperties",
   s%"required", s%"items", s%"oneOf", s%"anyOf", s%"allOf", s%"not", s%"if", s%"then", s%"else",
   s%"pattern", s%"format", s%"minLength", s%"maxLength", s%"minItems", s%"maxItems",
   s%"minProperties", s%"maxProperties", s%"minimum", s%"maximum", s%"exclusiveMinimum", s%"exclusiveMaximum"]

/-- formats the validator asserts (any other `format` is `broken`) -/
def knownFormats : List NStr := [s%"date", s%"uuid", s%"uri"]

/-! ## walking a schema -/

/-- does every key of the list differ from the earlier ones? -/
def distinctKeys : List NStr → Bool
  | [] => true
  | k :: ks => !ks.contains k && distinctKeys ks

/-- the direct subschemas of a schema object, by keyword type -/
def subschemas (kvs : List (NStr × JVal)) : List JVal :=
  kvs.flatMap fun kv =>
    match kwType kv.1, kv.2 with
    | some .schema, v => [v]
    | some .schemaArr, .arr xs => xs
    | some .schemaMap, .obj m => m.map (·.2)
    | some .patMap, .obj m => m.map (·.2)
    | _, _ => []

def valueTyped (rec : JVal → Bool) (t : KwType) (v : JVal) : Bool :=
  match t, v with
  | .str, .str _ => true
  | .bool, .bool _ => true
  | .nat, v => (natOf? v).isSome
  | .number, .num _ _ => true
  | .any, _ => true
  | .strArr, .arr xs => xs.all JVal.isStr && distinctKeys (xs.filterMap JVal.str?)
  | .anyArr, .arr _ => true
  | .typeVal, .str s => typeNames.contains s
  | .typeVal, .arr xs => xs.all (fun x => match x with | .str s => typeNames.contains s | _ => false)
      && distinctKeys (xs.filterMap JVal.str?)
  | .schema, v => rec v
  | .schemaArr, .arr xs => !xs.isEmpty && xs.all rec
  | .schemaMap, .obj m => m.all fun kv => rec kv.2
  | .patMap, .obj m => m.all fun kv => rec kv.2
  | _, _ => false

/-- `keywords_well_typed`: the node is a boolean or an object whose members are all known
    keywords with a value of the right JSON type, recursively. -/
def wellTyped : Nat → JVal → Bool
  | 0, _ => false
  | _ + 1, .bool _ => true
  | f + 1, .obj kvs =>
    distinctKeys (kvs.map (·.1)) &&
    kvs.all fun kv => match kwType kv.1 with
      | some t => valueTyped (wellTyped f) t kv.2
      | none => false
  | _ + 1, _ => false

/-- all keywords used at schema positions -/
def keywordsOf : Nat → JVal → List NStr
  | 0, _ => [s%"<fuel>"]
  | f + 1, .obj kvs => kvs.map (·.1) ++ (subschemas kvs).flatMap (keywordsOf f)
  | _ + 1, _ => []

/-- all values of string keyword `k` (e.g. `$ref`, `pattern`, `format`) at schema positions -/
def stringsOf (k : NStr) : Nat → JVal → List NStr
  | 0, _ => [s%"<fuel>"]
  | f + 1, .obj kvs =>
    (kvs.filterMap fun kv => if kv.1 == k then kv.2.str? else none) ++ (subschemas kvs).flatMap (stringsOf k f)
  | _ + 1, _ => []

/-- all keys of `patternProperties` -/
def patternKeysOf : Nat → JVal → List NStr
  | 0, _ => [s%"<fuel>"]
  | f + 1, .obj kvs =>
    (kvs.flatMap fun kv => match kv.1 == s%"patternProperties", kv.2 with
      | true, .obj m => m.map (·.1)
      | _, _ => []) ++ (subschemas kvs).flatMap (patternKeysOf f)
  | _ + 1, _ => []

def walkFuel : Nat := 40

def dedup : List NStr → List NStr
  | [] => []
  | x :: xs => if xs.contains x then dedup xs else x :: dedup xs

/-! ## `$ref` resolution

  References are resolved by *enumerating the possible targets* and comparing
  whole strings (no parsing of the reference).  Supported forms — the only ones
  the published files use:

      #                       the resource root
      #/$defs/<name>          a definition of the same resource
      <$id>                   another file's root
      <$id>#  <$id>#/$defs/<name>

  Anything else (relative references, other JSON pointers, anchors) does not
  resolve, which breaks `refs_resolve`.  Definition names are compared
  literally: a name containing `/`, `~` or `%` would need JSON-pointer
  escaping and is outside the subset (the names are Go type identifiers; the
  `referencing` resolver of the python cross-check reads the same `$ref`s). -/

def defsOf (root : JVal) : List (NStr × JVal) :=
  match root.get? s%"$defs" with
  | some (.obj m) => m
  | _ => []

/-- targets inside `root`, addressed relative to the prefix `pre` ("" or the `$id`) -/
def resolveIn (root : JVal) (pre : NStr) (ref : NStr) : Option JVal :=
  if ref == pre +++ s%"#" then some root else
  (defsOf root).findSome? fun kv =>
    if ref == pre +++ s%"#/$defs/" +++ kv.1 then some kv.2 else none

/-- the registry: `$id` → file root -/
abbrev Registry := List (NStr × JVal)

/-- resolve `ref` seen in the resource `root`: the new resource root and the target -/
def resolveRef (reg : Registry) (root : JVal) (ref : NStr) : Option (JVal × JVal) :=
  match resolveIn root NStr.empty ref with
  | some t => some (root, t)
  | none =>
    match reg.lookup ref with
    | some r => some (r, r)
    | none => reg.findSome? fun ir => (resolveIn ir.2 ir.1 ref).map fun t => (ir.2, t)

/-- every `$ref` below `sch` resolves; `$id` only at the root (`top`) -/
def refsOkAt (reg : Registry) (root : JVal) : Nat → Bool → JVal → Bool
  | 0, _, _ => false
  | _ + 1, _, .bool _ => true
  | f + 1, top, .obj kvs =>
    (kvs.all fun kv =>
      if kv.1 == s%"$ref" then
        match kv.2 with
        | .str r => (resolveRef reg root r).isSome
        | _ => false
      else if kv.1 == s%"$id" then top
      else true) &&
    (subschemas kvs).all (refsOkAt reg root f false)
  | _ + 1, _, _ => false

def registryOf (files : List (NStr × JVal)) : Registry :=
  files.filterMap fun f => match f.2.get? s%"$id" with
    | some (.str id) => some (id, f.2)
    | _ => none

/-- `refs_resolve` for one file -/
def refsOk (reg : Registry) (file : JVal) : Bool := refsOkAt reg file walkFuel true file

/-- `patterns_compile` for one file -/
def patternsOk (file : JVal) : Bool :=
  (dedup (stringsOf s%"pattern" walkFuel file ++ patternKeysOf walkFuel file)).all fun p =>
    (compileL p.toCodes).isSome

/-- formats used by one file are asserted by the model -/
def formatsOk (file : JVal) : Bool :=
  (stringsOf s%"format" walkFuel file).all knownFormats.contains

/-! ## formats (on code points, like Model/Regex) -/

def isDigit (c : Nat) : Bool := 48 ≤ c && c ≤ 57
def digitVal (c : Nat) : Nat := c - 48

def isLeap (y : Nat) : Bool := (y % 4 == 0 && y % 100 != 0) || y % 400 == 0

def daysIn (y m : Nat) : Nat :=
  if m == 2 then (if isLeap y then 29 else 28)
  else if m == 4 || m == 6 || m == 9 || m == 11 then 30 else 31

def validYMD (y m d : Nat) : Bool := 1 ≤ m && m ≤ 12 && 1 ≤ d && d ≤ daysIn y m

/-- RFC 3339 `full-date`: `YYYY-MM-DD`, a day that exists -/
def isDateC : List Nat → Bool
  | [y1, y2, y3, y4, 45, m1, m2, 45, d1, d2] =>
    [y1, y2, y3, y4, m1, m2, d1, d2].all isDigit &&
    validYMD (digitVal y1 * 1000 + digitVal y2 * 100 + digitVal y3 * 10 + digitVal y4)
      (digitVal m1 * 10 + digitVal m2) (digitVal d1 * 10 + digitVal d2)
  | _ => false

def isHex (c : Nat) : Bool := isDigit c || (97 ≤ c && c ≤ 102) || (65 ≤ c && c ≤ 70)

def allHexN : Nat → List Nat → Option (List Nat)
  | 0, r => some r
  | n + 1, c :: r => if isHex c then allHexN n r else none
  | _ + 1, [] => none

/-- RFC 4122 textual form 8-4-4-4-12 -/
def isUuidC (s : List Nat) : Bool :=
  match allHexN 8 s with
  | some (45 :: r1) => match allHexN 4 r1 with
    | some (45 :: r2) => match allHexN 4 r2 with
      | some (45 :: r3) => match allHexN 4 r3 with
        | some (45 :: r4) => match allHexN 12 r4 with
          | some [] => true
          | _ => false
        | _ => false
      | _ => false
    | _ => false
  | _ => false

def isAlpha (c : Nat) : Bool := (97 ≤ c && c ≤ 122) || (65 ≤ c && c ≤ 90)

/-- characters RFC 3986 allows anywhere in a URI (unreserved, reserved, `%`) -/
def isUriChar (c : Nat) : Bool :=
  isAlpha c || isDigit c || (NStr.toCodes s%"-._~:/?#[]@!$&'()*+,;=%").contains c

def pctOk : List Nat → Bool
  | 37 :: a :: b :: r => isHex a && isHex b && pctOk r
  | 37 :: _ => false
  | _ :: r => pctOk r
  | [] => true

def schemeOk : List Nat → Bool
  | c :: r => isAlpha c && r.all fun x => isAlpha x || isDigit x || x == 43 || x == 45 || x == 46
  | [] => false

/-- RFC 3986 `URI` (with a scheme), to the extent the cross-check implementation checks it:
    `scheme ":"`, then only URI characters, every `%` followed by two hex digits. -/
def isUriC (s : List Nat) : Bool :=
  s.contains 58 && schemeOk (s.takeWhile (· != 58)) && s.all isUriChar && pctOk s

def formatOk (fmt : NStr) (s : NStr) : Option Bool :=
  if fmt == s%"date" then some (isDateC s.toCodes)
  else if fmt == s%"uuid" then some (isUuidC s.toCodes)
  else if fmt == s%"uri" then some (isUriC s.toCodes)
  else none

/-- JSON-Schema `pattern` (search semantics); `none` when the pattern is outside the subset -/
def patternOk (p s : NStr) : Option Bool := (compileL p.toCodes).map (·.matchL s.toCodes)

/-! ## the validator -/

inductive Res where
  | ok
  | reject (kw : NStr) (path : NStr)   -- the instance violates keyword `kw` at `path`
  | broken (why : NStr)               -- the schema cannot be evaluated (ill-typed, unresolved, unsupported, fuel)
deriving Repr, Inhabited, DecidableEq

def Res.isOk : Res → Bool | .ok => true | _ => false

/-- first non-ok result -/
def allOk {α} (xs : List α) (f : α → Res) : Res :=
  match xs with
  | [] => .ok
  | x :: rest => match f x with
    | .ok => allOk rest f
    | r => r

def firstBroken (rs : List Res) : Option Res :=
  rs.find? fun r => match r with | .broken _ => true | _ => false

def typeMatches (t : NStr) (v : JVal) : Option Bool :=
  if t == s%"null" then some (match v with | .null => true | _ => false)
  else if t == s%"boolean" then some v.isBool
  else if t == s%"object" then some v.isObj
  else if t == s%"array" then some v.isArr
  else if t == s%"string" then some v.isStr
  else if t == s%"number" then some v.isNum
  else if t == s%"integer" then some (match v with | .num m e => numIsInt m e | _ => false)
  else none

def check (b : Bool) (kw path : NStr) : Res := if b then .ok else .reject kw path

def sub (path key : NStr) : NStr := path +++ s%"/" +++ key

/-- numeric bound keywords: `cmp` is applied to `numCmp instance bound` -/
def boundKw (cmp : Int → Bool) (k : NStr) (v inst : JVal) (path : NStr) (illTyped : Res) : Res :=
  match v, inst with
  | .num m e, .num m' e' => check (cmp (numCmp m' e' m e)) k path
  | .num _ _, _ => .ok
  | _, _ => illTyped

/-- size keywords: `size inst` is `none` when the keyword does not apply to the instance -/
def sizeKw (ok : Nat → Nat → Bool) (size : JVal → Option Nat) (k : NStr) (v inst : JVal) (path : NStr)
    (illTyped : Res) : Res :=
  match natOf? v with
  | none => illTyped
  | some n => match size inst with
    | some sz => check (ok n sz) k path
    | none => .ok

def strLen : JVal → Option Nat | .str s => some s.len | _ => none
def arrLen : JVal → Option Nat | .arr xs => some xs.length | _ => none
def objLen : JVal → Option Nat | .obj m => some m.length | _ => none

/-- evaluate one keyword `kv` of the schema object `kvs` on `inst`.
    `rec root schema inst path` is the validator one fuel step down. -/
def evalKw (reg : Registry) (rec : JVal → JVal → JVal → NStr → Res)
    (root : JVal) (kvs : List (NStr × JVal)) (kv : NStr × JVal) (inst : JVal) (path : NStr) : Res :=
  let k := kv.1
  let v := kv.2
  let illTyped : Res := .broken (s%"keyword has a value of the wrong type: " +++ k)
  let badPattern (p : NStr) : Res := .broken (s%"pattern outside the supported subset: " +++ p)
  if annotationKeywords.contains k then .ok
  else if k == s%"$ref" then
    match v with
    | .str r => match resolveRef reg root r with
      | some (root', target) => rec root' target inst path
      | none => .broken (s%"unresolved $ref " +++ r)
    | _ => illTyped
  else if k == s%"type" then
    match v with
    | .str t => match typeMatches t inst with
      | some b => check b k path
      | none => illTyped
    | .arr ts =>
      let rs := ts.map fun t => match t with | .str t => typeMatches t inst | _ => none
      if rs.any Option.isNone then illTyped else check (rs.any (· == some true)) k path
    | _ => illTyped
  else if k == s%"const" then check (jeq eqFuel v inst) k path
  else if k == s%"enum" then
    match v with
    | .arr xs => check (xs.any fun x => jeq eqFuel x inst) k path
    | _ => illTyped
  else if k == s%"required" then
    match v, inst with
    | .arr names, .obj m =>
      if !names.all JVal.isStr then illTyped else
      allOk names fun n => match n with
        | .str s => check ((m.lookup s).isSome) k (sub path s)
        | _ => illTyped
    | .arr names, _ => if names.all JVal.isStr then .ok else illTyped
    | _, _ => illTyped
  else if k == s%"properties" then
    match v, inst with
    | .obj props, .obj m =>
      allOk m fun mv => match props.lookup mv.1 with
        | some s => rec root s mv.2 (sub path mv.1)
        | none => .ok
    | .obj _, _ => .ok
    | _, _ => illTyped
  else if k == s%"patternProperties" then
    match v, inst with
    | .obj pats, .obj m =>
      allOk pats fun ps => match compileL ps.1.toCodes with
        | none => badPattern ps.1
        | some re => allOk m fun mv =>
            if re.matchL mv.1.toCodes then rec root ps.2 mv.2 (sub path mv.1) else .ok
    | .obj pats, _ => allOk pats fun ps => if (compileL ps.1.toCodes).isSome then .ok else badPattern ps.1
    | _, _ => illTyped
  else if k == s%"additionalProperties" then
    match inst with
    | .obj m =>
      let props : List NStr := match kvs.lookup s%"properties" with
        | some (.obj p) => p.map fun q => q.1
        | _ => []
      let pats : List NStr := match kvs.lookup s%"patternProperties" with
        | some (.obj p) => p.map fun q => q.1
        | _ => []
      let res := pats.map fun p => compileL p.toCodes
      if res.any Option.isNone then .broken s%"pattern outside the supported subset" else
      allOk m fun mv =>
        if props.contains mv.1 || res.any (fun r => match r with | some re => re.matchL mv.1.toCodes | none => false)
        then .ok else rec root v mv.2 (sub path mv.1)
    | _ => .ok
  else if k == s%"items" then
    match inst with
    | .arr xs => allOk xs.zipIdx fun xi => rec root v xi.1 (sub path (NStr.ofNatDec xi.2))
    | _ => .ok
  else if k == s%"allOf" then
    match v with
    | .arr ss => allOk ss fun s => rec root s inst path
    | _ => illTyped
  else if k == s%"anyOf" then
    match v with
    | .arr ss =>
      let rs := ss.map fun s => rec root s inst path
      match firstBroken rs with
      | some b => b
      | none => check (rs.any Res.isOk) k path
    | _ => illTyped
  else if k == s%"oneOf" then
    match v with
    | .arr ss =>
      let rs := ss.map fun s => rec root s inst path
      match firstBroken rs with
      | some b => b
      | none => check ((rs.filter Res.isOk).length == 1) k path
    | _ => illTyped
  else if k == s%"not" then
    match rec root v inst path with
    | .ok => .reject k path
    | .reject _ _ => .ok
    | b => b
  else if k == s%"if" then
    match rec root v inst path with
    | .ok => (match kvs.lookup s%"then" with | some t => rec root t inst path | none => .ok)
    | .reject _ _ => (match kvs.lookup s%"else" with | some e => rec root e inst path | none => .ok)
    | b => b
  else if k == s%"then" || k == s%"else" then .ok
  else if k == s%"pattern" then
    match v, inst with
    | .str p, .str s => match patternOk p s with
      | some b => check b k path
      | none => badPattern p
    | .str p, _ => if (compileL p.toCodes).isSome then .ok else badPattern p
    | _, _ => illTyped
  else if k == s%"format" then
    match v, inst with
    | .str f, .str s => match formatOk f s with
      | some b => check b k path
      | none => .broken (s%"format not modelled: " +++ f)
    | .str f, _ => if knownFormats.contains f then .ok else .broken (s%"format not modelled: " +++ f)
    | _, _ => illTyped
  else if k == s%"minLength" then sizeKw (fun n sz => n ≤ sz) strLen k v inst path illTyped
  else if k == s%"maxLength" then sizeKw (fun n sz => sz ≤ n) strLen k v inst path illTyped
  else if k == s%"minItems" then sizeKw (fun n sz => n ≤ sz) arrLen k v inst path illTyped
  else if k == s%"maxItems" then sizeKw (fun n sz => sz ≤ n) arrLen k v inst path illTyped
  else if k == s%"minProperties" then sizeKw (fun n sz => n ≤ sz) objLen k v inst path illTyped
  else if k == s%"maxProperties" then sizeKw (fun n sz => sz ≤ n) objLen k v inst path illTyped
  else if k == s%"minimum" then boundKw (fun c => c ≥ 0) k v inst path illTyped
  else if k == s%"maximum" then boundKw (fun c => c ≤ 0) k v inst path illTyped
  else if k == s%"exclusiveMinimum" then boundKw (fun c => c > 0) k v inst path illTyped
  else if k == s%"exclusiveMaximum" then boundKw (fun c => c < 0) k v inst path illTyped
  else .broken (s%"keyword not modelled: " +++ k)

/-- validate `inst` against `sch`, a subschema of the resource `root` -/
def validate (reg : Registry) : Nat → JVal → JVal → JVal → NStr → Res
  | 0, _, _, _, _ => .broken s%"fuel"
  | f + 1, root, sch, inst, path =>
    match sch with
    | .bool true => .ok
    | .bool false => .reject s%"false" path
    | .obj kvs => allOk kvs fun kv => evalKw reg (validate reg f) root kvs kv inst path
    | _ => .broken s%"schema is neither an object nor a boolean"

def validateFuel : Nat := 400

/-- validate against the published schema with the given `$id` -/
def validateById (reg : Registry) (id : NStr) (inst : JVal) : Res :=
  match reg.lookup id with
  | some root => validate reg validateFuel root root inst NStr.empty
  | none => .broken (s%"no schema with $id " +++ id)

end GoblVerif.Schema
