/-
  NStr: strings as natural numbers.

  Lean 4.33's `String` is a UTF-8 byte array; the kernel has no fast path for
  it (one `String.toList` of a 30-character string costs ~0.2 s under
  `decide +kernel`, one equality ~1 ms).  The schema data is therefore carried
  as numbers, on which the kernel computes with GMP:

      code [c₁ … cₙ] = 1·B^n + c₁·B^(n-1) + … + cₙ          B = 2^24

  (code points, not bytes; the leading 1 keeps leading NULs and the length).
  In hexadecimal every code point is six digits: "type" = 0x1000074000079000070000065.

  `s%"text"` is the literal notation (expanded to the number when the model is
  elaborated).  Core Lean only.
-/
namespace GoblVerif

abbrev NStr := Nat

namespace NStr

def B : Nat := 0x1000000

def ofCodes (cs : List Nat) : NStr := cs.foldl (fun a c => a * B + c) 1

/-- number of code points -/
def len (s : NStr) : Nat := Nat.log2 s / 24

def toCodesF : Nat → Nat → List Nat → List Nat
  | 0, _, acc => acc
  | f + 1, n, acc => toCodesF f (n / B) (n % B :: acc)

def toCodes (s : NStr) : List Nat := toCodesF (len s) s []

/-- concatenation -/
def append (a b : NStr) : NStr :=
  let p := 2 ^ (24 * len b)
  a * p + (b - p)

instance : Inhabited NStr := ⟨1⟩

def empty : NStr := 1

def ofString (s : String) : NStr := ofCodes (s.toList.map Char.toNat)
def toString (s : NStr) : String := String.ofList ((toCodes s).map Char.ofNat)

/-- decimal numeral of `n` (array indices in instance paths) -/
def ofNatDecF : Nat → Nat → List Nat → List Nat
  | 0, n, acc => (48 + n % 10) :: acc
  | f + 1, n, acc => if n < 10 then (48 + n) :: acc else ofNatDecF f (n / 10) ((48 + n % 10) :: acc)

def ofNatDec (n : Nat) : NStr := ofCodes (ofNatDecF n n [])

end NStr

open Lean in
/-- `s%"text"`: the `NStr` of a string literal, computed at elaboration time -/
macro:max "s%" s:str : term =>
  return Syntax.mkNumLit (toString (NStr.ofCodes (s.getString.toList.map Char.toNat)))

infixl:65 " +++ " => NStr.append

example : s%"" = 1 ∧ s%"a" = 0x1000061 := by decide
example : s%"ab" +++ s%"cd" = s%"abcd" ∧ NStr.len s%"abcd" = 4 ∧ NStr.toCodes s%"abc" = [97, 98, 99] := by decide
example : NStr.ofNatDec 0 = s%"0" ∧ NStr.ofNatDec 1234 = s%"1234" := by decide

end GoblVerif
