/-
  Refs: the *published* definitions (data/regimes, data/addons, data/catalogues,
  data/currency, the schema list) as Lean data, and the model of the generic
  reference rules GOBL's validation applies (C18):

    inCategories      (*RegimeDef).InCategories        nil regime → Skip (!)
    inCategoryRates   (*RegimeDef).InCategoryRates     nil regime / unknown category → must be blank
    comboRegime       (*Combo).ValidateWithContext     per-combo country override
    validateExt       tax.Extensions.Validate          global registry lookup, allowed codes, pattern
    tagsIn            tax.TagsIn / supportedTags       regime ∪ active addons, per document type
                                                       (applied by bill.Invoice only: `validateDocTags`)
    pricesInclude     (*bill.Tax).ValidateWithContext  `prices_include` ∈ the document regime's categories
    validateTotal     tax.Total / CategoryTotal / RateTotal .Validate   code and rates required; country and `ext` of every rate of a stored summary
    addonRegistered   tax.AddonRegistered
    currencyKnown     currency.Code validation         code ∈ definitions
    hasValidKeyIn     cbc.HasValidKeyIn (hasKeyRule)   blank, or the base before the first `+` ∈ keys
    validateMeansKey  pay.Instructions / Advance .Key  HasValidKeyIn over the published means keys
    validateNoteKey   org.Note.Key                     validation.In over the published note keys
    validateTermsKey  pay.Terms.Key                    validation.In over the published term keys
    countryKnown      l10n code validation             code ∈ published code list

  Core Lean only.  `Generated/Defs.lean` (regenerated from /repo/data/** on every
  run) instantiates `Defs`.
-/
namespace GoblVerif.Refs

/-! ## the published definitions -/

structure ExtDef where
  key     : String
  codes   : List String      -- values[].code (empty = any code, or pattern-governed)
  pattern : String           -- "" = none
deriving DecidableEq, Repr, Inhabited

structure TagSet where
  schema : String
  keys   : List String
deriving DecidableEq, Repr, Inhabited

structure Scenario where
  tags    : List String
  types   : List String
  extKey  : String               -- filter: "" = none
  extCode : String
  ext     : List (String × String) -- extensions the scenario writes
deriving DecidableEq, Repr, Inhabited

structure ScenarioSet where
  schema : String
  list   : List Scenario
deriving DecidableEq, Repr, Inhabited

structure Correction where
  schema     : String
  types      : List String
  extensions : List String
  stamps     : List String
deriving DecidableEq, Repr, Inhabited

structure Rate where
  key       : String
  ext       : List (String × String)
  valueExts : List (List (String × String))
deriving DecidableEq, Repr, Inhabited

structure Category where
  code    : String
  extKeys : List String             -- `extensions`: keys usable with the category
  ext     : List (String × String)
  rates   : List Rate
deriving DecidableEq, Repr, Inhabited

structure Regime where
  file        : String
  stale       : Bool                -- no registered regime produces this file (see C19 known finding)
  country     : String
  alt         : List String
  zone        : String
  currency    : String
  timeZone    : String
  tags        : List TagSet
  extensions  : List ExtDef
  scenarios   : List ScenarioSet
  corrections : List Correction
  categories  : List Category
deriving DecidableEq, Repr, Inhabited

structure Addon where
  key         : String
  requires    : List String
  tags        : List TagSet
  extensions  : List ExtDef
  scenarios   : List ScenarioSet
  corrections : List Correction
deriving DecidableEq, Repr, Inhabited

structure Catalogue where
  key        : String
  extensions : List ExtDef
deriving DecidableEq, Repr, Inhabited

structure Defs where
  regimes      : List Regime
  addons       : List Addon
  catalogues   : List Catalogue
  currencies   : List String
  countries    : List String      -- l10n codes of the published schema (ISO + tax extras)
  schemas      : List String      -- "bill/invoice", …
  invoiceTypes : List String
deriving Repr, Inhabited

/-! ## lookups in the published definitions -/

def Defs.liveRegimes (d : Defs) : List Regime := d.regimes.filter (!·.stale)

/-- the regime that applies to a country code (main or alternative code) -/
def Defs.regimeFor (d : Defs) (country : String) : Option Regime :=
  d.liveRegimes.find? fun r => r.country == country || r.alt.any (· == country)

def Defs.addonFor (d : Defs) (key : String) : Option Addon :=
  d.addons.find? (·.key == key)

/-- every extension definition published by a regime, an addon or a catalogue -/
def Defs.allExtDefs (d : Defs) : List ExtDef :=
  d.liveRegimes.flatMap (·.extensions) ++ d.addons.flatMap (·.extensions) ++ d.catalogues.flatMap (·.extensions)

def Defs.extDef (d : Defs) (key : String) : Option ExtDef :=
  d.allExtDefs.find? (·.key == key)

def tagKeysFor (sets : List TagSet) (schema : String) : List String :=
  (sets.filter (·.schema == schema)).flatMap (·.keys)

def Category.rateKeys (c : Category) : List String := c.rates.map (·.key)

def Regime.category (r : Regime) (code : String) : Option Category :=
  r.categories.find? (·.code == code)

/-- `strings.Split(k, "+")` on characters (structural, so that `decide` can evaluate it) -/
def splitPlus : List Char → List Char → List (List Char)
  | [], cur => [cur.reverse]
  | c :: rest, cur => if c == '+' then cur.reverse :: splitPlus rest [] else splitPlus rest (c :: cur)

/-- `cbc.Key.Has`: one of the `+`-separated parts equals `ke` -/
def keyHas (k ke : String) : Bool := (splitPlus k.toList []).any (· == ke.toList)

/-- `cbc.Key.HasPrefix`: the part before the first `+` equals `ke` -/
def keyHasPrefix (k ke : String) : Bool := (splitPlus k.toList []).head?.getD [] == ke.toList

/-- `cbc.HasValidKeyIn(keys…)` (`hasKeyRule.Validate`): blank, or the BASE of the key (the
    part before the first `+`) is one of the keys -/
def hasValidKeyIn (keys : List String) (k : String) : Bool := k == "" || keys.any (keyHasPrefix k)

/-! ## key sets published in the schemas (`Generated.Defs.keySets`, read from
    data/schemas/pay/instructions.json, pay/advance.json, pay/terms.json, org/note.json:
    the `const` members of the `anyOf` / `oneOf` of the `key` property) -/

abbrev KeySets := List (String × List String)

def KeySets.get (ks : KeySets) (name : String) : List String := (ks.lookup name).getD []

/-- `pay.Instructions.Key` (`validation.Required, HasValidMeansKey`) and `pay.Advance.Key`
    (`HasValidMeansKey`): `HasValidKeyIn` over the payment means keys -/
def validateMeansKey (ks : KeySets) (required : Bool) (k : String) : Bool :=
  (!required || k != "") && hasValidKeyIn (ks.get "pay/means") k

/-- `org.Note.Key` (`validation.In(validNoteKeys()…)`; `In` passes an empty value) -/
def validateNoteKey (ks : KeySets) (k : String) : Bool := k == "" || (ks.get "org/note").contains k

/-- `pay.Terms.Key` (`validation.In(validTermKeys()…)`) -/
def validateTermsKey (ks : KeySets) (k : String) : Bool := k == "" || (ks.get "pay/terms").contains k

/-- reference positions the code leaves OPEN (key syntax only, no rule compares the value
    with a definition; the published schemas are open there too: a plain `$ref` to cbc/key or
    an `anyOf` ending in the key pattern): `org.Identity.key` / `type` (the regimes'
    `identities` are informational), `org.Inbox.key`, `org.Item.key`, `bill.Charge.key`,
    `bill.Discount.key`, `bill.LineCharge.key`, `bill.LineDiscount.key`, `org.Note.src`,
    `org.DocumentRef.type`, `head.Link.key`, `pay.Online.key`, `tax.Identity.type` -/
def openKeyPositions : List String :=
  ["org.Identity.key", "org.Identity.type", "org.Inbox.key", "org.Item.key", "bill.Charge.key", "bill.Discount.key",
   "bill.LineCharge.key", "bill.LineDiscount.key", "org.Note.src", "org.DocumentRef.type", "head.Link.key",
   "pay.Online.key", "tax.Identity.type"]

/-! ## the documents' reference positions -/

structure Combo where
  category : String
  country  : String              -- "" = none
  rate     : String              -- "" = none
  ext      : List (String × String)
deriving DecidableEq, Repr, Inhabited

/-- regex matching is not modelled: `pm pattern code` is supplied (Go's `regexp`
    in the harness); every statement below holds for any `pm` -/
abbrev PatternMatch := String → String → Bool

inductive Verdict where
  | ok
  | err (why : String)
deriving DecidableEq, Repr

def Verdict.isOk : Verdict → Bool
  | .ok => true
  | .err _ => false

/-! ## the validation rules, as the code has them -/

/-- `(*RegimeDef).InCategories`: with no regime definition the rule is `validation.Skip` -/
def inCategories (r : Option Regime) (cat : String) : Bool :=
  match r with
  | none => true
  | some r => r.categories.any (·.code == cat)

/-- `(*RegimeDef).InCategoryRates`: no regime or unknown category → the key must be blank;
    otherwise blank, or `key.Has(k)` for one of the category's rate keys -/
def inCategoryRates (r : Option Regime) (cat key : String) : Bool :=
  match r with
  | none => key == ""
  | some r =>
    match r.category cat with
    | none => key == ""
    | some c => key == "" || c.rateKeys.any (fun k => keyHas key k)

/-- the regime a combo is validated against: the country override's, else the document's -/
def comboRegime (d : Defs) (docRegime : Option Regime) (c : Combo) : Option Regime :=
  if c.country == "" then docRegime else d.regimeFor c.country

/-- one pair of `Extensions.Validate`: the key is defined, the value is present
    (`validation.Validate(ev, validation.Required)`; that it is a well-formed `cbc.Code` is C11's
    business: `Leaves.extValueValidate`), listed if there is a list, matched if there is a pattern -/
def validateExtPair (d : Defs) (pm : PatternMatch) (kv : String × String) : Bool :=
  match d.extDef kv.1 with
  | none => false
  | some kd =>
    kv.2 != "" &&
    (kd.codes.isEmpty || kd.codes.contains kv.2) &&
    (kd.pattern == "" || pm kd.pattern kv.2)

/-- `Extensions.Validate` (key and value syntax are C11's business) -/
def validateExt (d : Defs) (pm : PatternMatch) (ext : List (String × String)) : Bool :=
  ext.all (validateExtPair d pm)

/-- `(*Combo).ValidateWithContext`, the reference rules only -/
def validateCombo (d : Defs) (pm : PatternMatch) (docRegime : Option Regime) (c : Combo) : Bool :=
  let r := comboRegime d docRegime c
  c.category != "" && inCategories r c.category && inCategoryRates r c.category c.rate && validateExt d pm c.ext

/-- the document types that carry `$tags` (they embed `tax.Tags`) -/
def taggedSchemas : List String := ["bill/invoice", "bill/order", "bill/delivery", "bill/payment"]

/-- the document types whose `ValidateWithContext` compares `$tags` with
    `tax.TagsIn(supportedTags()…)`: bill.Invoice only.  Order and Payment have no rule for
    the field, Delivery validates the embedded `tax.Tags` struct, which has no rules of its
    own (`Generated/RefsFacts.lean` pins this for the four files) -/
def tagCheckedSchemas : List String := ["bill/invoice"]

/-- `(*Invoice).supportedTags`, for any document type: the regime's tag set for the
    document type merged with those of the addons in use -/
def supportedTags (docRegime : Option Regime) (addons : List Addon) (schema : String) : List String :=
  (match docRegime with | none => [] | some r => tagKeysFor r.tags schema) ++
  addons.flatMap (fun a => tagKeysFor a.tags schema)

/-- `tax.TagsIn(supportedTags…)` -/
def validateTags (docRegime : Option Regime) (addons : List Addon) (schema : String) (tags : List String) : Bool :=
  tags.all fun t => (supportedTags docRegime addons schema).contains t

/-- the `$tags` field as the four documents validate it: the `TagsIn` rule where it is
    applied (`tagCheckedSchemas`), nothing (beyond the key syntax, C11's business) elsewhere -/
def validateDocTags (docRegime : Option Regime) (addons : List Addon) (schema : String) (tags : List String) : Bool :=
  if tagCheckedSchemas.contains schema then validateTags docRegime addons schema tags else true

/-- `(*bill.Tax).ValidateWithContext`, the reference rule of `prices_include`: with the
    document's regime in the validation context the code is blank (`validation.In` passes
    an empty value) or one of the regime's categories (`RegimeDef.InCategories`); without a
    regime the rule is not added and only the code's syntax is checked (C11's business) -/
def validatePricesInclude (docRegime : Option Regime) (cat : String) : Bool :=
  match docRegime with
  | none => true
  | some r => cat == "" || r.categories.any (·.code == cat)

/-! ### stored tax summaries (`tax.Total` under `preceding[*].tax`, a payment's `tax`,
    `lines[*].document.tax`, and the calculated `totals.taxes`) -/

structure RateTotal where
  key     : String
  country : String
  ext     : List (String × String)
deriving DecidableEq, Repr, Inhabited

structure CategoryTotal where
  code  : String
  rates : List RateTotal
deriving DecidableEq, Repr, Inhabited

/-- `(*RateTotal).Validate`: `Field(&rt.Key)` (key syntax: C11's business), `Field(&rt.Country)`
    (a known country code, or none), `Field(&rt.Ext)` → `Extensions.Validate` -/
def validateRateTotal (d : Defs) (pm : PatternMatch) (rt : RateTotal) : Bool :=
  (rt.country == "" || d.countries.contains rt.country) && validateExt d pm rt.ext

/-- `(*CategoryTotal).Validate`: `Field(&ct.Code, Required)` (code syntax: C11's business),
    `Field(&ct.Rates, Required)`: at least one rate, and every rate -/
def validateCategoryTotal (d : Defs) (pm : PatternMatch) (ct : CategoryTotal) : Bool :=
  ct.code != "" && !ct.rates.isEmpty && ct.rates.all (validateRateTotal d pm)

/-- `(*Total).Validate`: every category (a nil total, i.e. no summary, is valid) -/
def validateTotal (d : Defs) (pm : PatternMatch) (cats : List CategoryTotal) : Bool :=
  cats.all (validateCategoryTotal d pm)

/-- `Addons.Validate`: each key `AddonRegistered` -/
def validateAddons (d : Defs) (keys : List String) : Bool :=
  keys.all fun k => (d.addonFor k).isSome

/-- currency and country codes: membership in the definitions -/
def validateCodes (d : Defs) (currencies countries : List String) : Bool :=
  currencies.all (d.currencies.contains ·) && countries.all (d.countries.contains ·)

/-- `tax.Regime.Validate`: an empty `$regime` is fine, a non-empty one must name a defined regime -/
def validateRegime (d : Defs) (code : String) : Bool := code == "" || (d.regimeFor code).isSome

end GoblVerif.Refs
