/-
  GoMath: `math.Mod` and `math.Floor` for the go2lean translation of the
  float64 detours in regimes/{at,be,ch}/tax_identity.go.  Core Lean only.
  Part of the trusted base of Generated/TaxIdSrc.lean.

  float64 values are rationals holding binary64 numbers (Model/Float53.lean).
  Both functions are EXACT in IEEE-754 arithmetic (the result is always
  representable), so no rounding appears.  NaN, ±Inf and −0 do not exist:
  `math.Mod(x, 0)` is NaN in Go and 0 here (outside the domain; the callers
  pass the constants 10, 11, 97).
-/
import GoblVerif.Model.GoSem

namespace GoblVerif.GoMath

/-- `math.Mod(x, y)`: the remainder of the division truncated toward zero (sign of `x`) -/
def fmod (x y : Rat) : Rat :=
  if y = 0 then 0 else x - y * ((GoblVerif.GoSem.truncToInt (x / y) : Int) : Rat)

/-- `math.Floor(x)` -/
def ffloor (x : Rat) : Rat := ((x.floor : Int) : Rat)

end GoblVerif.GoMath
