/-
  Rates: model of the rate-table lookup of /repo/tax (regime_def.go, combo.go)
  and of the tax-date choice of /repo/bill/calculator.go, as the code is NOW
  (after fix 8bba13c: a value applies on its start date itself).

  Core Lean only; every function mirrors one Go function:

    Date.before / after / isValid   cloud.google.com/go/civil Date.Before/After/IsValid
    hasAnyTag                        (*RateValueDef).hasAnyTag
    extContains                      tax.Extensions.Contains
    value                            (*RateDef).Value
    keyHas                           cbc.Key.Has
    rateDef                          (*CategoryDef).RateDef (exact key, then key.Has)
    categoryDef                      (*RegimeDef).CategoryDef
    prepareRate                      (*Combo).prepareRate
    taxDate                          bill/calculator.go calculate(): value date, else issue date
    checkRateValuesOrder             tax.checkRateValuesOrder
-/
namespace GoblVerif.Rates

/-! ## dates (civil.Date: three integers compared lexicographically) -/

structure Date where
  y : Nat
  m : Nat
  d : Nat
deriving DecidableEq, Repr, Inhabited

namespace Date

/-- `civil.Date.Before` -/
def before (a b : Date) : Bool :=
  if a.y ≠ b.y then decide (a.y < b.y)
  else if a.m ≠ b.m then decide (a.m < b.m)
  else decide (a.d < b.d)

/-- `civil.Date.After`: `d2.Before(d)` -/
def after (a b : Date) : Bool := b.before a

def isLeap (y : Nat) : Bool := (y % 4 == 0 && y % 100 != 0) || y % 400 == 0

def daysIn (y m : Nat) : Nat :=
  match m with
  | 1 | 3 | 5 | 7 | 8 | 10 | 12 => 31
  | 4 | 6 | 9 | 11 => 30
  | 2 => if isLeap y then 29 else 28
  | _ => 0

/-- `civil.Date.IsValid`: the date survives normalisation by `time.Date` -/
def isValid (a : Date) : Bool :=
  1 ≤ a.m && a.m ≤ 12 && 1 ≤ a.d && a.d ≤ daysIn a.y a.m

end Date

/-! ## tables -/

/-- a percentage as `num.Percentage` stores it: `value · 10^-exp` (0.21 = ⟨21, 2⟩) -/
abbrev Pct := Int × Nat

/-- `tax.Extensions`: a finite map, kept as an association list sorted by key -/
abbrev Ext := List (String × String)

structure RateValue where
  tags      : List String
  ext       : Ext
  since     : Option Date
  percent   : Pct
  surcharge : Option Pct
  disabled  : Bool
deriving DecidableEq, Repr, Inhabited

structure RateDef where
  key    : String
  exempt : Bool
  ext    : Ext
  values : List RateValue
deriving DecidableEq, Repr, Inhabited

structure CategoryDef where
  code     : String
  retained : Bool
  rates    : List RateDef
deriving DecidableEq, Repr, Inhabited

structure RegimeTable where
  country    : String
  alt        : List String
  zone       : String
  categories : List CategoryDef
deriving DecidableEq, Repr, Inhabited

/-! ## RateDef.Value -/

/-- `hasAnyTag`: some tag of the row is among the tags provided -/
def hasAnyTag (rowTags tags : List String) : Bool :=
  rowTags.any fun t => tags.any fun tag => t == tag

def extLookup (em : Ext) (k : String) : Option String :=
  match em with
  | [] => none
  | (k', v) :: rest => if k' == k then some v else extLookup rest k

/-- `Extensions.Contains`: an empty receiver contains nothing; otherwise every
    pair of `other` must be present with the same value -/
def extContains (em other : Ext) : Bool :=
  if em.isEmpty then false
  else other.all fun kv => extLookup em kv.1 == some kv.2

/-- the two qualifier tests of `RateDef.Value`, in the order of the code -/
def applicable (rv : RateValue) (tags : List String) (ext : Ext) : Bool :=
  (rv.tags.isEmpty || hasAnyTag rv.tags tags) && (rv.ext.isEmpty || extContains ext rv.ext)

/-- the date test of `RateDef.Value`:
    `rv.Since == nil || !rv.Since.IsValid() || !rv.Since.After(date.Date)` -/
def started (rv : RateValue) (date : Date) : Bool :=
  match rv.since with
  | none => true
  | some s => !s.isValid || !s.after date

/-- `(*RateDef).Value`: the first row, in table order, that passes the tag
    test, the extension test and the date test -/
def value (vals : List RateValue) (date : Date) (tags : List String) (ext : Ext) : Option RateValue :=
  match vals with
  | [] => none
  | rv :: rest =>
    if !rv.tags.isEmpty && !hasAnyTag rv.tags tags then value rest date tags ext
    else if !rv.ext.isEmpty && !extContains ext rv.ext then value rest date tags ext
    else if started rv date then some rv
    else value rest date tags ext

/-! ## lookups -/

/-- `cbc.Key.Has`: one of the `+`-separated parts equals `ke` -/
def keyHas (k ke : String) : Bool := (k.splitOn "+").any (· == ke)

/-- `(*CategoryDef).RateDef`: exact match first, then `key.Has(r.Key)` -/
def rateDef (rates : List RateDef) (key : String) : Option RateDef :=
  match rates.find? (fun r => r.key == key) with
  | some r => some r
  | none => rates.find? (fun r => keyHas key r.key)

/-- `(*RegimeDef).CategoryDef` -/
def categoryDef (cats : List CategoryDef) (code : String) : Option CategoryDef :=
  cats.find? (fun c => c.code == code)

/-- `tax.RegimeDefFor`: by country code or alternative country code -/
def regimeFor (regs : List RegimeTable) (country : String) : Option RegimeTable :=
  regs.find? (fun r => r.country == country || r.alt.any (· == country))

/-! ## Combo.prepareRate -/

structure Combo where
  category  : String
  country   : String      -- "" = the document's regime
  rate      : String      -- "" = no rate key
  percent   : Option Pct
  surcharge : Option Pct
  ext       : Ext
deriving DecidableEq, Repr, Inhabited

inductive PrepErr where
  | invalidCategory
  | invalidRate
  | invalidDate
deriving DecidableEq, Repr

/-- `c.Ext[k] = v` on the sorted association list -/
def extSet (em : Ext) (k v : String) : Ext :=
  match em with
  | [] => [(k, v)]
  | (k', v') :: rest =>
    if k' == k then (k, v) :: rest
    else if k < k' then (k, v) :: (k', v') :: rest
    else (k', v') :: extSet rest k v

def extMergeInto (em : Ext) (other : Ext) : Ext := other.foldl (fun acc kv => extSet acc kv.1 kv.2) em

/-- the rate's predefined extensions are copied onto the combo unless it carries a country override -/
def mergedExt (c : Combo) (rate : RateDef) : Ext :=
  if c.country == "" && !rate.ext.isEmpty then extMergeInto c.ext rate.ext else c.ext

/-- `(*Combo).prepareRate` -/
def prepareRate (cat : CategoryDef) (c : Combo) (tags : List String) (date : Date) : Except PrepErr Combo :=
  if c.rate == "" then .ok c else
  match rateDef cat.rates c.rate with
  | none => .error .invalidRate
  | some rate =>
    let c := { c with ext := mergedExt c rate }
    if rate.exempt then .ok { c with percent := none, surcharge := none }
    else if rate.values.isEmpty then .ok c
    else match value rate.values date tags c.ext with
      | none => .error .invalidDate
      | some v => .ok { c with percent := some v.percent, surcharge := v.surcharge }

/-- `(*Combo).calculateForRegime` (the `retained` flag is not part of C12) -/
def calculateForRegime (r : RegimeTable) (c : Combo) (tags : List String) (date : Date) : Except PrepErr Combo :=
  match categoryDef r.categories c.category with
  | none => .error .invalidCategory
  | some cat => prepareRate cat c tags date

/-- bill/calculator.go: the tax date is the value date when present, else the issue date -/
def taxDate (valueDate : Option Date) (issueDate : Date) : Date := valueDate.getD issueDate

/-! ## checkRateValuesOrder (what the code itself checks about a table) -/

/-- `checkRateValuesOrder`: rows with tags or extensions are skipped; among the
    others each valid date must be strictly before the previous valid one.
    `prev` is the `date` variable of the loop.  `none` = the nil dereference the
    Go code runs into when an undated row follows a validly dated one
    (`v.Since.IsValid()` on a nil `*cal.Date`); no shipped table does that. -/
def checkOrderFrom (prev : Option Date) (vals : List RateValue) : Option Bool :=
  match vals with
  | [] => some true
  | v :: rest =>
    if !v.tags.isEmpty || !v.ext.isEmpty then checkOrderFrom prev rest
    else
      match prev with
      | some p =>
        if p.isValid then
          match v.since with
          | none => none
          | some s => if s.isValid && !s.before p then some false else checkOrderFrom v.since rest
        else checkOrderFrom v.since rest
      | none => checkOrderFrom v.since rest

def checkRateValuesOrder (vals : List RateValue) : Option Bool := checkOrderFrom none vals

end GoblVerif.Rates
