/-
  Codec: model of the text codec of /repo/num (as the code is NOW, i.e. after
  fix 36384ed, after the fix that decodes quoted JSON values and after the four
  fixes of the int64 minimum and of the percentage conversions: `String` splits
  the value before changing the sign of the parts, `AmountFromString` parses
  the major part together with its sign, `PercentageFromAmount` and
  `Percentage.Amount` only move the decimal point):

    amount.go      AmountFromString, isDigits, intPow, String, MinimalString,
                   UnmarshalText, UnmarshalJSON, jsonText
    percentage.go  PercentageFromString, String, UnmarshalText, UnmarshalJSON
    strconv        ParseInt(_, 10, 64)   (modelled: sign, digits, range)
    fmt            Sprintf("%d"), Sprintf("%0*d")  (modelled)
    encoding/json  Unmarshal of one string token into a string (modelled:
                   scanner + unquoteBytes, `jsonDecodeString`)

  Texts are `List Char` in which **every element stands for one byte** of the
  Go string (the driver maps byte b to `Char.ofNat b`); the Go code only ever
  compares bytes with ASCII characters and takes byte lengths, so this is
  faithful for every byte string, valid UTF-8 or not.

  `int64` wrap-around is modelled (`wrap64`) wherever the Go code computes on
  `int64`: `intPow`, the `v*p + v2` / `v*p - v2` of the parser and the `-v1` /
  `-v2` of `String` (all unreachable inside the stated domain, which is what
  `Props/C06` proves).  Core Lean only.
-/
import GoblVerif.Model.Num

namespace GoblVerif.Codec

abbrev Text := List Char

def maxInt64 : Int := 9223372036854775807
def minInt64 : Int := -9223372036854775808

/-- two's complement wrap-around of an `int64` result -/
def wrap64 (i : Int) : Int :=
  (i + 9223372036854775808) % 18446744073709551616 - 9223372036854775808

/-! ### digits -/

def isDigitC (c : Char) : Bool := 48 ≤ c.toNat && c.toNat ≤ 57

/-- `isDigits` of amount.go: non-empty, ASCII digits only -/
def isDigits (s : Text) : Bool := !s.isEmpty && s.all isDigitC

def digitVal (c : Char) : Nat := c.toNat - 48

/-- value of a digit run, most significant digit first -/
def natOfDigits (s : Text) : Nat := s.foldl (fun n c => 10 * n + digitVal c) 0

def digitChar (d : Nat) : Char :=
  match d with
  | 0 => '0' | 1 => '1' | 2 => '2' | 3 => '3' | 4 => '4'
  | 5 => '5' | 6 => '6' | 7 => '7' | 8 => '8' | _ => '9'

/-- decimal digits of `n`, with fuel `f ≥ n` -/
def natToDigitsF : Nat → Nat → Text
  | 0, n => [digitChar (n % 10)]
  | f + 1, n => if n < 10 then [digitChar n] else natToDigitsF f (n / 10) ++ [digitChar (n % 10)]

/-- `%d` of a non-negative integer -/
def natToDigits (n : Nat) : Text := natToDigitsF n n

def padZeros (w : Nat) (s : Text) : Text := List.replicate (w - s.length) '0' ++ s

/-- `fmt.Sprintf("%d", v)` -/
def fmtInt (v : Int) : Text :=
  if v < 0 then '-' :: natToDigits v.natAbs else natToDigits v.natAbs

/-- `fmt.Sprintf("%0*d", w, v)`: zero padding to width `w`, the sign counts -/
def fmtIntPad0 (w : Nat) (v : Int) : Text :=
  if v < 0 then '-' :: padZeros (w - 1) (natToDigits v.natAbs) else padZeros w (natToDigits v.natAbs)

/-! ### strconv.ParseInt(s, 10, 64) -/

inductive NumError where
  | syntax | range
deriving DecidableEq, Repr

def parseInt64 (s : Text) : Except NumError Int :=
  match s with
  | [] => .error .syntax
  | c :: rest =>
    let neg := c == '-'
    let body := if c == '+' || c == '-' then rest else s
    if !isDigits body then .error .syntax else
    let un := natOfDigits body
    if neg then (if un > 9223372036854775808 then .error .range else .ok (-(un : Int)))
    else (if un ≥ 9223372036854775808 then .error .range else .ok (un : Int))

/-! ### strings.Split(s, ".") / HasPrefix / TrimPrefix -/

def splitOn (sep : Char) : Text → List Text
  | [] => [[]]
  | c :: cs =>
    if c = sep then [] :: splitOn sep cs
    else match splitOn sep cs with
      | [] => [[c]]
      | h :: t => (c :: h) :: t

def hasPrefixMinus : Text → Bool
  | '-' :: _ => true
  | _ => false

def trimPrefixMinus : Text → Text
  | '-' :: r => r
  | s => s

/-- `intPow(base, exp)` with `int64` wrap-around at every step -/
def intPow (base : Int) : Nat → Int
  | 0 => 1
  | e + 1 => wrap64 (intPow base e * base)

def maxAmountExp : Nat := 18

/-! ### AmountFromString -/

inductive Err where
  | separators   -- more than one '.'
  | major        -- ParseInt of the integer part failed
  | majorDigits  -- integer part not digits only
  | minor        -- ParseInt of the decimal part failed
  | minorDigits  -- decimal part not digits only
  | decimals     -- more than 18 decimals
  | range        -- combined value beyond int64
  | json         -- UnmarshalJSON: a quoted value that is not a valid JSON string
  | empty        -- Percentage.UnmarshalJSON: the empty JSON string
deriving DecidableEq, Repr

def Err.name : Err → String
  | .separators => "separators" | .major => "major" | .majorDigits => "majorDigits"
  | .minor => "minor" | .minorDigits => "minorDigits" | .decimals => "decimals" | .range => "range"
  | .json => "json" | .empty => "empty"

/-- `AmountFromString` after `strings.Split(val, ".")`: `n` is
    `strings.HasPrefix(val, "-")`, `x` the parts.  The major part is parsed
    together with its sign (`ParseInt` takes one), its digits are checked
    without it; the decimals are added to a non-negative and subtracted from a
    negative amount, each side with its own range check. -/
def parseParts (n : Bool) (x : List Text) : Except Err Amount :=
  if x.length > 2 then .error .separators else
  match x with
  | [] => .error .major  -- strings.Split never returns an empty slice
  | x0 :: rest =>
    match parseInt64 x0 with
    | .error _ => .error .major
    | .ok v =>
      if !isDigits (trimPrefixMinus x0) then .error .majorDigits else
      match rest with
      | [] => .ok ⟨v, 0⟩
      | x1 :: _ =>
        match parseInt64 x1 with
        | .error _ => .error .minor
        | .ok v2 =>
          if !isDigits x1 then .error .minorDigits else
          let e := x1.length
          if e > maxAmountExp then .error .decimals else
          let p := intPow 10 e
          if n then
            if v < Int.tdiv (wrap64 (minInt64 + v2)) p then .error .range else
            .ok ⟨wrap64 (wrap64 (v * p) - v2), e⟩
          else
            if v > Int.tdiv (wrap64 (maxInt64 - v2)) p then .error .range else
            .ok ⟨wrap64 (wrap64 (v * p) + v2), e⟩

/-- `AmountFromString` -/
def amountFromString (val : Text) : Except Err Amount :=
  parseParts (hasPrefixMinus val) (splitOn '.' val)

/-! ### Amount.String / MinimalString -/

/-- `Amount.String` (exponents above 1000 print "NA"; for 19 ≤ exp ≤ 1000 the
    Go code works with a wrapped `intPow` and may divide by zero: outside the
    property's domain, the driver answers `undef` there).  The value is split
    with Go's truncated `/` and `%` first, the sign of the two parts is changed
    afterwards. -/
def amountToString (a : Amount) : Text :=
  if a.exp = 0 then fmtInt a.value
  else if a.exp > 1000 then ['N', 'A']
  else
    let p := intPow 10 a.exp
    let neg := decide (a.value < 0)
    let v1 := Int.tdiv a.value p
    let v2 := Int.tmod a.value p
    (if neg then ['-'] else []) ++ fmtInt (if neg then wrap64 (-v1) else v1) ++
      '.' :: fmtIntPad0 a.exp (if neg then wrap64 (-v2) else v2)

def trimRightZeros (s : Text) : Text := (s.reverse.dropWhile (· == '0')).reverse

def trimSuffixDot (s : Text) : Text := if s.getLast? = some '.' then s.dropLast else s

/-- `Amount.MinimalString` -/
def amountMinimalString (a : Amount) : Text :=
  let s := amountToString a
  if !s.contains '.' then s else trimSuffixDot (trimRightZeros s)

/-! ### encoding/json: `json.Unmarshal(value, &text)` on a JSON string token

What `jsonText` of amount.go relies on: `checkValid` (the scanner: one string
literal, then only white space) followed by `unquoteBytes` (escapes resolved,
`\uXXXX` surrogate pairs combined, a lone surrogate and every byte that is not
part of a well-formed UTF-8 sequence replaced by U+FFFD).  Byte level, like
the rest of this file. -/

/-- `isSpace` of the scanner -/
def isJsonSpace (c : Char) : Bool := c == ' ' || c == '\t' || c == '\r' || c == '\n'

/-- one hexadecimal digit (`getu4`: 0-9, a-f, A-F) -/
def hexVal? (c : Char) : Option Nat :=
  let n := c.toNat
  if 48 ≤ n && n ≤ 57 then some (n - 48)
  else if 97 ≤ n && n ≤ 102 then some (n - 87)
  else if 65 ≤ n && n ≤ 70 then some (n - 55)
  else none

/-- `getu4`: the code unit of a leading `\uXXXX`, `none` for Go's -1 -/
def getu4 : Text → Option Nat
  | '\\' :: 'u' :: a :: b :: c :: d :: _ =>
    match hexVal? a, hexVal? b, hexVal? c, hexVal? d with
    | some a, some b, some c, some d => some (((a * 16 + b) * 16 + c) * 16 + d)
    | _, _, _, _ => none
  | _ => none

/-- the bytes U+FFFD is written with -/
def replacementBytes : Text := [Char.ofNat 0xEF, Char.ofNat 0xBF, Char.ofNat 0xBD]

/-- `utf8.EncodeRune` (surrogates and values beyond U+10FFFF give U+FFFD) -/
def utf8Encode (r : Nat) : Text :=
  if r < 0x80 then [Char.ofNat r]
  else if r < 0x800 then [Char.ofNat (0xC0 + r / 64), Char.ofNat (0x80 + r % 64)]
  else if (0xD800 ≤ r && r < 0xE000) || r > 0x10FFFF then replacementBytes
  else if r < 0x10000 then
    [Char.ofNat (0xE0 + r / 4096), Char.ofNat (0x80 + r / 64 % 64), Char.ofNat (0x80 + r % 64)]
  else
    [Char.ofNat (0xF0 + r / 262144), Char.ofNat (0x80 + r / 4096 % 64),
     Char.ofNat (0x80 + r / 64 % 64), Char.ofNat (0x80 + r % 64)]

def inRange (lo hi : Nat) (c : Char) : Bool := lo ≤ c.toNat && c.toNat ≤ hi

/-- size `utf8.DecodeRune` reports for a well-formed sequence at the head of `s`
    (first-byte table of unicode/utf8: no overlong forms, no surrogates, nothing
    above U+10FFFF); 0 where it reports `(RuneError, 1)` -/
def utf8SeqLen (s : Text) : Nat :=
  match s with
  | [] => 0
  | c0 :: rest =>
    let b := c0.toNat
    if b < 0x80 then 1
    else if 0xC2 ≤ b && b ≤ 0xDF then
      match rest with
      | c1 :: _ => if inRange 0x80 0xBF c1 then 2 else 0
      | _ => 0
    else if 0xE0 ≤ b && b ≤ 0xEF then
      match rest with
      | c1 :: c2 :: _ =>
        let lo := if b == 0xE0 then 0xA0 else 0x80
        let hi := if b == 0xED then 0x9F else 0xBF
        if inRange lo hi c1 && inRange 0x80 0xBF c2 then 3 else 0
      | _ => 0
    else if 0xF0 ≤ b && b ≤ 0xF4 then
      match rest with
      | c1 :: c2 :: c3 :: _ =>
        let lo := if b == 0xF0 then 0x90 else 0x80
        let hi := if b == 0xF4 then 0x8F else 0xBF
        if inRange lo hi c1 && inRange 0x80 0xBF c2 && inRange 0x80 0xBF c3 then 4 else 0
      | _ => 0
    else 0

/-- the byte a two-character escape stands for (`\'` is refused by the scanner) -/
def simpleEscape (e : Char) : Option Char :=
  if e == '"' || e == '\\' || e == '/' then some e
  else if e == 'b' then some (Char.ofNat 8)
  else if e == 'f' then some (Char.ofNat 12)
  else if e == 'n' then some (Char.ofNat 10)
  else if e == 'r' then some (Char.ofNat 13)
  else if e == 't' then some (Char.ofNat 9)
  else none

/-- the text after the opening quote: decoded content when it is the rest of one
    valid string literal followed by white space only.  Every step consumes at
    least one byte; the fuel is the number of steps allowed. -/
def jsonStringBody : Nat → Text → Option Text
  | 0, _ => none
  | f + 1, s =>
    match s with
    | [] => none
    | c :: rest =>
      if c == '"' then (if rest.all isJsonSpace then some [] else none)
      else if c == '\\' then
        match rest with
        | [] => none
        | e :: rest' =>
          if e == 'u' then
            match getu4 s with
            | none => none
            | some rr =>
              let after := s.drop 6
              if 0xD800 ≤ rr && rr < 0xE000 then
                -- utf16.DecodeRune(rr, getu4(after)): a valid pair is consumed as a whole
                match getu4 after with
                | some rr1 =>
                  if rr < 0xDC00 && 0xDC00 ≤ rr1 && rr1 < 0xE000 then
                    (jsonStringBody f (after.drop 6)).map
                      (utf8Encode ((rr - 0xD800) * 1024 + (rr1 - 0xDC00) + 0x10000) ++ ·)
                  else (jsonStringBody f after).map (replacementBytes ++ ·)
                | none => (jsonStringBody f after).map (replacementBytes ++ ·)
              else (jsonStringBody f after).map (utf8Encode rr ++ ·)
          else
            match simpleEscape e with
            | some d => (jsonStringBody f rest').map (d :: ·)
            | none => none
      else if c.toNat < 0x20 then none
      else if c.toNat < 0x80 then (jsonStringBody f rest).map (c :: ·)
      else
        let n := utf8SeqLen s
        if n == 0 then (jsonStringBody f rest).map (replacementBytes ++ ·)
        else (jsonStringBody f (s.drop n)).map (s.take n ++ ·)

/-- `json.Unmarshal(value, &text)` for a `value` that starts with a quote:
    `none` is the syntax error -/
def jsonDecodeString (value : Text) : Option Text :=
  match value with
  | '"' :: r => jsonStringBody (r.length + 1) r
  | _ => none

/-! ### UnmarshalText / UnmarshalJSON / jsonText -/

def nullText : Text := ['n', 'u', 'l', 'l']

/-- `(*Amount).UnmarshalText`; `cur` is the receiver's value before the call -/
def amountUnmarshalText (cur : Amount) (value : Text) : Except Err Amount :=
  if value = nullText then .ok cur else amountFromString value

/-- `jsonText`: the text to parse and whether the value is the literal `null`.
    A value that starts with a quote is decoded as a JSON string, anything else
    is taken as it is. -/
def jsonText (value : Text) : Except Err (Text × Bool) :=
  if value.head? == some '"' then
    match jsonDecodeString value with
    | none => .error .json
    | some t => .ok (t, false)
  else .ok (value, value == nullText)

/-- `(*Amount).UnmarshalJSON` (on the raw JSON token) -/
def amountUnmarshalJSON (cur : Amount) (value : Text) : Except Err Amount :=
  match jsonText value with
  | .error e => .error e
  | .ok (text, null) => if null then .ok cur else amountFromString text

/-! ### percentages -/

/-- `PercentageFromString` (`PercentageFromAmount` = `Pct.ofAmount` of Num.lean:
    the same digits with two more decimals) -/
def percentageFromString (str : Text) : Except Err Pct :=
  if str.isEmpty then .ok ⟨⟨0, 0⟩⟩ else
  let rescale := str.getLast? == some '%'
  let body := if rescale then str.dropLast else str
  match amountFromString body with
  | .error e => .error e
  | .ok a => .ok (if rescale then Pct.ofAmount a else ⟨a⟩)

/-- `Percentage.String` -/
def pctToString (p : Pct) : Text := amountToString p.toAmount ++ ['%']

def pctUnmarshalText (cur : Pct) (value : Text) : Except Err Pct :=
  if value = nullText then .ok cur else percentageFromString value

/-- `(*Percentage).UnmarshalJSON`: the empty JSON string is refused before
    `PercentageFromString` (which reads the empty text as 0%) sees it -/
def pctUnmarshalJSON (cur : Pct) (value : Text) : Except Err Pct :=
  match jsonText value with
  | .error e => .error e
  | .ok (text, null) =>
    if null then .ok cur
    else if text.isEmpty then .error .empty
    else percentageFromString text

end GoblVerif.Codec
