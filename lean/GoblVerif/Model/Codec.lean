/-
  Codec: model of the text codec of /repo/num (as the code is NOW, i.e. after
  fix 36384ed):

    amount.go      AmountFromString, isDigits, intPow, String, MinimalString,
                   UnmarshalText, UnmarshalJSON, unquote
    percentage.go  PercentageFromString, String, UnmarshalText, UnmarshalJSON
    strconv        ParseInt(_, 10, 64)   (modelled: sign, digits, range)
    fmt            Sprintf("%d"), Sprintf("%0*d")  (modelled)

  Texts are `List Char` in which **every element stands for one byte** of the
  Go string (the driver maps byte b to `Char.ofNat b`); the Go code only ever
  compares bytes with ASCII characters and takes byte lengths, so this is
  faithful for every byte string, valid UTF-8 or not.

  `int64` wrap-around is modelled (`wrap64`) wherever the Go code computes on
  `int64`: `intPow`, the `v*p + v2` of the parser (unreachable after the fix,
  which is what `Props/C06` proves), and `v = -v` / `v - v1*p` of `String`
  (reachable for the most negative value).  Core Lean only.
-/
import GoblVerif.Model.Num

namespace GoblVerif.Codec

abbrev Text := List Char

def maxInt64 : Int := 9223372036854775807
def minInt64 : Int := -9223372036854775808

/-- two's complement wrap-around of an `int64` result -/
def wrap64 (i : Int) : Int :=
  (i + 9223372036854775808) % 18446744073709551616 - 9223372036854775808

/-! ### digits -/

def isDigitC (c : Char) : Bool := 48 ≤ c.toNat && c.toNat ≤ 57

/-- `isDigits` of amount.go: non-empty, ASCII digits only -/
def isDigits (s : Text) : Bool := !s.isEmpty && s.all isDigitC

def digitVal (c : Char) : Nat := c.toNat - 48

/-- value of a digit run, most significant digit first -/
def natOfDigits (s : Text) : Nat := s.foldl (fun n c => 10 * n + digitVal c) 0

def digitChar (d : Nat) : Char :=
  match d with
  | 0 => '0' | 1 => '1' | 2 => '2' | 3 => '3' | 4 => '4'
  | 5 => '5' | 6 => '6' | 7 => '7' | 8 => '8' | _ => '9'

/-- decimal digits of `n`, with fuel `f ≥ n` -/
def natToDigitsF : Nat → Nat → Text
  | 0, n => [digitChar (n % 10)]
  | f + 1, n => if n < 10 then [digitChar n] else natToDigitsF f (n / 10) ++ [digitChar (n % 10)]

/-- `%d` of a non-negative integer -/
def natToDigits (n : Nat) : Text := natToDigitsF n n

def padZeros (w : Nat) (s : Text) : Text := List.replicate (w - s.length) '0' ++ s

/-- `fmt.Sprintf("%d", v)` -/
def fmtInt (v : Int) : Text :=
  if v < 0 then '-' :: natToDigits v.natAbs else natToDigits v.natAbs

/-- `fmt.Sprintf("%0*d", w, v)`: zero padding to width `w`, the sign counts -/
def fmtIntPad0 (w : Nat) (v : Int) : Text :=
  if v < 0 then '-' :: padZeros (w - 1) (natToDigits v.natAbs) else padZeros w (natToDigits v.natAbs)

/-! ### strconv.ParseInt(s, 10, 64) -/

inductive NumError where
  | syntax | range
deriving DecidableEq, Repr

def parseInt64 (s : Text) : Except NumError Int :=
  match s with
  | [] => .error .syntax
  | c :: rest =>
    let neg := c == '-'
    let body := if c == '+' || c == '-' then rest else s
    if !isDigits body then .error .syntax else
    let un := natOfDigits body
    if neg then (if un > 9223372036854775808 then .error .range else .ok (-(un : Int)))
    else (if un ≥ 9223372036854775808 then .error .range else .ok (un : Int))

/-! ### strings.Split(s, ".") / HasPrefix / TrimPrefix -/

def splitOn (sep : Char) : Text → List Text
  | [] => [[]]
  | c :: cs =>
    if c = sep then [] :: splitOn sep cs
    else match splitOn sep cs with
      | [] => [[c]]
      | h :: t => (c :: h) :: t

def hasPrefixMinus : Text → Bool
  | '-' :: _ => true
  | _ => false

def trimPrefixMinus : Text → Text
  | '-' :: r => r
  | s => s

/-- `intPow(base, exp)` with `int64` wrap-around at every step -/
def intPow (base : Int) : Nat → Int
  | 0 => 1
  | e + 1 => wrap64 (intPow base e * base)

def maxAmountExp : Nat := 18

/-! ### AmountFromString -/

inductive Err where
  | separators   -- more than one '.'
  | major        -- ParseInt of the integer part failed
  | majorDigits  -- integer part not digits only
  | minor        -- ParseInt of the decimal part failed
  | minorDigits  -- decimal part not digits only
  | decimals     -- more than 18 decimals
  | range        -- combined value beyond int64
deriving DecidableEq, Repr

def Err.name : Err → String
  | .separators => "separators" | .major => "major" | .majorDigits => "majorDigits"
  | .minor => "minor" | .minorDigits => "minorDigits" | .decimals => "decimals" | .range => "range"

/-- the unsigned part of `AmountFromString`: value and exponent of the text
    after the optional leading '-' -/
def parseUnsigned (u : Text) : Except Err (Int × Nat) :=
  let x := splitOn '.' u
  if x.length > 2 then .error .separators else
  match x with
  | [] => .error .major  -- strings.Split never returns an empty slice
  | x0 :: rest =>
    match parseInt64 x0 with
    | .error _ => .error .major
    | .ok v =>
      if !isDigits x0 then .error .majorDigits else
      match rest with
      | [] => .ok (v, 0)
      | x1 :: _ =>
        match parseInt64 x1 with
        | .error _ => .error .minor
        | .ok v2 =>
          if !isDigits x1 then .error .minorDigits else
          let e := x1.length
          if e > maxAmountExp then .error .decimals else
          let p := intPow 10 e
          if v > Int.tdiv (maxInt64 - v2) p then .error .range else
          .ok (wrap64 (wrap64 (v * p) + v2), e)

/-- `AmountFromString` -/
def amountFromString (val : Text) : Except Err Amount :=
  let n := hasPrefixMinus val
  match parseUnsigned (trimPrefixMinus val) with
  | .error e => .error e
  | .ok (v, e) => .ok ⟨if n then wrap64 (-v) else v, e⟩

/-! ### Amount.String / MinimalString -/

/-- `Amount.String` (exponents above 1000 print "NA"; for 19 ≤ exp ≤ 1000 the
    Go code works with a wrapped `intPow` and may divide by zero: outside the
    property's domain, the driver answers `undef` there) -/
def amountToString (a : Amount) : Text :=
  if a.exp = 0 then fmtInt a.value
  else if a.exp > 1000 then ['N', 'A']
  else
    let p := intPow 10 a.exp
    let neg := decide (a.value < 0)
    let v := if neg then wrap64 (-a.value) else a.value
    let v1 := Int.tdiv v p
    let v2 := wrap64 (v - wrap64 (v1 * p))
    (if neg then ['-'] else []) ++ fmtInt v1 ++ '.' :: fmtIntPad0 a.exp v2

def trimRightZeros (s : Text) : Text := (s.reverse.dropWhile (· == '0')).reverse

def trimSuffixDot (s : Text) : Text := if s.getLast? = some '.' then s.dropLast else s

/-- `Amount.MinimalString` -/
def amountMinimalString (a : Amount) : Text :=
  let s := amountToString a
  if !s.contains '.' then s else trimSuffixDot (trimRightZeros s)

/-! ### UnmarshalText / UnmarshalJSON / unquote -/

def nullText : Text := ['n', 'u', 'l', 'l']

/-- `unquote`: strips one pair of surrounding quotes when longer than 2 bytes -/
def unquote (value : Text) : Text :=
  if value.length > 2 && value.head? == some '"' && value.getLast? == some '"'
  then (value.drop 1).dropLast else value

/-- `(*Amount).UnmarshalText`; `cur` is the receiver's value before the call -/
def amountUnmarshalText (cur : Amount) (value : Text) : Except Err Amount :=
  if value = nullText then .ok cur else amountFromString value

/-- `(*Amount).UnmarshalJSON` (on the raw JSON token) -/
def amountUnmarshalJSON (cur : Amount) (value : Text) : Except Err Amount :=
  amountUnmarshalText cur (unquote value)

/-! ### percentages -/

/-- `PercentageFromString` (faithful: `PercentageFromAmount` goes through the
    float `Rescale`/`Divide` of Num.lean) -/
def percentageFromString (str : Text) : Except Err Pct :=
  if str.isEmpty then .ok ⟨⟨0, 0⟩⟩ else
  let rescale := str.getLast? == some '%'
  let body := if rescale then str.dropLast else str
  match amountFromString body with
  | .error e => .error e
  | .ok a => .ok (if rescale then Pct.ofAmount a else ⟨a⟩)

/-- `Percentage.String` -/
def pctToString (p : Pct) : Text := amountToString p.toAmount ++ ['%']

def pctUnmarshalText (cur : Pct) (value : Text) : Except Err Pct :=
  if value = nullText then .ok cur else percentageFromString value

def pctUnmarshalJSON (cur : Pct) (value : Text) : Except Err Pct :=
  pctUnmarshalText cur (unquote value)

end GoblVerif.Codec
