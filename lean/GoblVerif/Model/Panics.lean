/-
  C14: panics made explicit, for the few pieces of the project's models where
  the Go code dereferences something that the input controls.

  In Go a JSON `null` inside an array becomes a nil pointer in a slice; the
  first pointer-receiver method that reads a field of its receiver panics.
  Rows are therefore `Option ρ`, and the two loop shapes found in the code are
  modelled:

    for _, r := range rows { r.M() }                 -- `eachDeref`: M reads *r unguarded
    for _, r := range rows { if r == nil {continue}; r.M() }   -- `eachGuarded`

  Also the error wrapping of /repo/errors.go (`wrapError`) as a total
  function into the documented keys, and the stamp loop of
  bill.validatePrecedingData with possibly-nil option stamps
  (`row.Provider` on a nil row).

  Core Lean only.
-/
import GoblVerif.Model.Correct

namespace GoblVerif.Panics

/-- result of running a piece of Go code: a value, a returned error with its
    key, or a panic at a call site -/
inductive Outcome (α : Type)
  | ok (a : α)
  | err (key : String)
  | panic (site : String)
deriving DecidableEq, Repr

def Outcome.isPanic {α : Type} : Outcome α → Bool
  | .panic _ => true
  | _ => false

variable {ρ : Type}

/-- a loop that calls a dereferencing method on every element -/
def eachDeref (site : String) (f : ρ → ρ) : List (Option ρ) → Outcome (List (Option ρ))
  | [] => .ok []
  | none :: _ => .panic site
  | some r :: rest =>
    match eachDeref site f rest with
    | .ok rs => .ok (some (f r) :: rs)
    | .err k => .err k
    | .panic s => .panic s

/-- the guarded form: nil rows are skipped (kept as they are) -/
def eachGuarded (f : ρ → ρ) : List (Option ρ) → Outcome (List (Option ρ))
  | [] => .ok []
  | none :: rest =>
    match eachGuarded f rest with
    | .ok rs => .ok (none :: rs)
    | o => o
  | some r :: rest =>
    match eachGuarded f rest with
    | .ok rs => .ok (some (f r) :: rs)
    | o => o

/-- the guard of the partial theorem: no null rows -/
def NoNullRows (rows : List (Option ρ)) : Prop := ∀ r ∈ rows, r ≠ none

/-! ### error wrapping (/repo/errors.go) -/

/-- what `wrapError` distinguishes about its argument -/
inductive ErrKind
  | keyed (key : String)      -- already a *gobl.Error
  | unknownSchema             -- errors.Is(err, schema.ErrUnknownSchema)
  | validationErrors          -- validation.Errors
  | other                     -- anything else
deriving DecidableEq, Repr

/-- gobl.wrapError (for a non-nil error) -/
def wrapError : ErrKind → String
  | .keyed k => k
  | .unknownSchema => "unknown-schema"
  | .validationErrors => "validation"
  | .other => "internal"

/-! ### the stamp loop of validatePrecedingData with nil option stamps

    for _, k := range cd.Stamps {
      for _, row := range o.Stamps { if row.Provider == k {…} }   -- row may be nil: panic
-/
open GoblVerif.Correct in
def findStamp (site : String) (k : String) : List (Option Stamp) → Outcome (Option Stamp)
  | [] => .ok none
  | none :: _ => .panic site
  | some s :: rest => if s.provider = k then .ok (some s) else findStamp site k rest

open GoblVerif.Correct in
def collectStampsNil (site : String) (have_ : List (Option Stamp)) : List String → Outcome (List Stamp)
  | [] => .ok []
  | k :: ks =>
    match findStamp site k have_ with
    | .panic s => .panic s
    | .err e => .err e
    | .ok none => .err "internal"       -- "missing stamp: k", wrapped as internal
    | .ok (some s) =>
      match collectStampsNil site have_ ks with
      | .ok rest => .ok (s :: rest)
      | o => o

end GoblVerif.Panics
