/-
  C14: panics made explicit, for the few pieces of the project's models where
  the Go code dereferences something that the input controls.

  In Go a JSON `null` inside an array becomes a nil pointer in a slice; the
  first pointer-receiver method that reads a field of its receiver panics.
  Rows are therefore `Option ρ`, and the two loop shapes found in the code are
  modelled:

    for _, r := range rows { r.M() }                 -- `eachDeref`: M reads *r unguarded
    for _, r := range rows { if r == nil {continue}; r.M() }   -- `eachGuarded`

  Also the error wrapping of /repo/errors.go (`wrapError`) as a total
  function into the documented keys, the stamp loop of
  bill.validatePrecedingData with possibly-nil option stamps
  (`row.Provider` on a nil row), and how the command line presents the error
  that ended it (/repo/internal/cli/errors.go `wrapError`, `WrapError`,
  `isEncodingError`; /repo/cmd/gobl/main.go `printError` / `writeError`).

  Core Lean only.
-/
import GoblVerif.Model.Correct
import GoblVerif.Spec.C14

namespace GoblVerif.Panics

/-- result of running a piece of Go code: a value, a returned error with its
    key, or a panic at a call site -/
inductive Outcome (α : Type)
  | ok (a : α)
  | err (key : String)
  | panic (site : String)
deriving DecidableEq, Repr

def Outcome.isPanic {α : Type} : Outcome α → Bool
  | .panic _ => true
  | _ => false

variable {ρ : Type}

/-- a loop that calls a dereferencing method on every element -/
def eachDeref (site : String) (f : ρ → ρ) : List (Option ρ) → Outcome (List (Option ρ))
  | [] => .ok []
  | none :: _ => .panic site
  | some r :: rest =>
    match eachDeref site f rest with
    | .ok rs => .ok (some (f r) :: rs)
    | .err k => .err k
    | .panic s => .panic s

/-- the guarded form: nil rows are skipped (kept as they are) -/
def eachGuarded (f : ρ → ρ) : List (Option ρ) → Outcome (List (Option ρ))
  | [] => .ok []
  | none :: rest =>
    match eachGuarded f rest with
    | .ok rs => .ok (none :: rs)
    | o => o
  | some r :: rest =>
    match eachGuarded f rest with
    | .ok rs => .ok (some (f r) :: rs)
    | o => o

/-- the guard of the partial theorem: no null rows -/
def NoNullRows (rows : List (Option ρ)) : Prop := ∀ r ∈ rows, r ≠ none

/-! ### error wrapping (/repo/errors.go) -/

/-- what `wrapError` distinguishes about its argument -/
inductive ErrKind
  | keyed (key : String)      -- already a *gobl.Error
  | unknownSchema             -- errors.Is(err, schema.ErrUnknownSchema)
  | validationErrors          -- validation.Errors
  | other                     -- anything else
deriving DecidableEq, Repr

/-- gobl.wrapError (for a non-nil error) -/
def wrapError : ErrKind → String
  | .keyed k => k
  | .unknownSchema => "unknown-schema"
  | .validationErrors => "validation"
  | .other => "internal"

/-! ### the stamp loop of validatePrecedingData with nil option stamps

    for _, k := range cd.Stamps {
      for _, row := range o.Stamps { if row.Provider == k {…} }   -- row may be nil: panic
-/
open GoblVerif.Correct in
def findStamp (site : String) (k : String) : List (Option Stamp) → Outcome (Option Stamp)
  | [] => .ok none
  | none :: _ => .panic site
  | some s :: rest => if s.provider = k then .ok (some s) else findStamp site k rest

open GoblVerif.Correct in
def collectStampsNil (site : String) (have_ : List (Option Stamp)) : List String → Outcome (List Stamp)
  | [] => .ok []
  | k :: ks =>
    match findStamp site k have_ with
    | .panic s => .panic s
    | .err e => .err e
    | .ok none => .err "internal"       -- "missing stamp: k", wrapped as internal
    | .ok (some s) =>
      match collectStampsNil site have_ ks with
      | .ok rest => .ok (s :: rest)
      | o => o

/-! ### the error the command line prints

    cmd/gobl/main.go:   if err := run(); err != nil { printError(err); os.Exit(1) }
                        printError → writeError: enc.Encode(cli.WrapError(err))
    internal/cli/errors.go: type Error struct { Code; Key `omitempty`; Fields `omitempty`; Message `omitempty` }
-/

/-- cli.Error, the one structure errors are printed in; of `Fields` only
    whether there are any is kept -/
structure CliError where
  code : Nat
  key : String
  fields : Bool
  message : String
deriving DecidableEq, Repr

/-- what a command can hand to `main`, by what `errors.As` / the type switch find in it -/
inductive CliErrIn
  /-- a `*cli.Error` (directly or wrapped with `%w`): made by `cli.wrapError` -/
  | structured (e : CliError)
  /-- a `*gobl.Error`: its `Key()`, whether `Fields()` is non-nil, its `Message()` -/
  | lib (key : String) (fields : Bool) (message : String)
  /-- `*json.MarshalerError`, `*json.UnsupportedTypeError`, `*json.UnsupportedValueError`:
      the result of the command could not be encoded; `text` is `err.Error()` -/
  | encoding (text : String)
  /-- any other error (cobra's unknown command / flag, `*fs.PathError`, `errors.New`); `text` is `err.Error()` -/
  | plain (text : String)
deriving DecidableEq, Repr

def statusBadRequest : Nat := 400
def statusUnprocessableEntity : Nat := 422

/-- the key of `gobl.ErrMarshal` -/
def marshalKey : String := "marshal"

/-- cli.wrapError(code, err): a `*cli.Error` is returned as it is, a
    `*gobl.Error` gives key, fields and message, anything else its text as message -/
def cliWrapError (code : Nat) : CliErrIn → CliError
  | .structured e => e
  | .lib k f m => ⟨code, k, f, m⟩
  | .encoding t => ⟨code, "", false, t⟩
  | .plain t => ⟨code, "", false, t⟩

/-- cli.WrapError(err) for a non-nil error: what `printError` encodes.
    `gobl.ErrMarshal.WithCause(err)` is a `*gobl.Error` with key `marshal`, no
    field errors and `Message() = err.Error()`. -/
def cliPresent : CliErrIn → CliError
  | .structured e => e
  | .encoding t => cliWrapError statusUnprocessableEntity (.lib marshalKey false t)
  | e => cliWrapError statusBadRequest e

/-- the members of the JSON text of a `cli.Error` (`omitempty` on all but `code`) -/
def CliError.members (e : CliError) : List String :=
  ["code"] ++ (if e.key = "" then [] else ["key"]) ++ (if e.fields then ["fields"] else []) ++
    (if e.message = "" then [] else ["message"])

/-- the printed error as the specification sees it -/
def CliError.shown (e : CliError) : GoblVerif.Spec.C14.Shown := ⟨e.code, e.key, e.fields, e.message⟩

/-- what is assumed about the error handed to `main`: a `*cli.Error` is
    structured already (they are made by `cli.wrapError` with one of the status
    constants), a `*gobl.Error` carries one of the keys of `NewError`, and an
    error has a text (`errors.New("")` is not covered) -/
def CliErrIn.WellFormed (documented : List String) : CliErrIn → Prop
  | .structured e => GoblVerif.Spec.C14.structured documented e.shown = true
  | .lib k _ _ => k ∈ documented
  | .encoding t => t ≠ ""
  | .plain t => t ≠ ""

/-- the process exit status after an error (unchanged by the presentation) -/
def cliExitCode : Nat := 1

end GoblVerif.Panics
