/-
  RefsSrc (model side): the types and DECLARED PRIMITIVES that Generated/RefsSrc.lean
  (the translation of the leaf predicates of /repo/cbc and /repo/tax that implement the
  reference rules of C18) refers to.  Core Lean only.  Part of the trusted base of
  Generated/RefsSrc.lean; what each primitive stands for is stated here.

  STRINGS are `GoStr.Str` = the List Char of the bytes (Model/GoStr.lean).

  `split`, `splitN`: `strings.Split(s, sep)` / `strings.SplitN(s, sep, n)` for a NON-EMPTY
  separator (Go: "slices s into all substrings separated by sep"; the search goes from the
  left and continues after each separator).  For the empty separator Go explodes the string
  into UTF-8 sequences: not modelled (`sepOK`); the translated code passes `KeySeparator`,
  whose value ("+") is regenerated as `Cbc.KeySeparator` and pinned by Props/C18.

  `CDef` is `cbc.Definition` as far as the reference rules read it (key, code, values,
  pattern); `values` are definitions again.

  REGISTRIES.  `tax.ExtensionForKey`, `tax.AddonForKey` and `tax.Regimes().For` read
  package-level maps that are filled by `init` functions (RegisterExtension,
  RegisterAddonDef, RegisterRegimeDef) and not written afterwards.  They are translated as
  the three fields of `Registry`, an instance-implicit PARAMETER of every translated
  function that consults one of them: the theorems of Props/C18 (namespace Src) hold for any
  registry, and Props instantiates it with the published definitions (`Registry.ofDefs`).
  That the maps hold what `data/**` publishes is C19's business.
-/
import GoblVerif.Model.GoStr
import GoblVerif.Model.Refs

namespace GoblVerif.Refs.Src
open GoblVerif.GoStr

/-- `strings.Split` / `SplitN` on bytes: `skip` = bytes of a matched separator still to pass,
    `cur` = the current piece reversed, `more` = how many more cuts may be made -/
def splitAux (sep : Str) : Str → Nat → Str → Nat → List Str
  | [], _, cur, _ => [cur.reverse]
  | _ :: rest, skip + 1, cur, more => splitAux sep rest skip cur more
  | c :: rest, 0, cur, 0 => splitAux sep rest 0 (c :: cur) 0
  | c :: rest, 0, cur, more + 1 =>
    if sep.isPrefixOf (c :: rest) then cur.reverse :: splitAux sep rest (sep.length - 1) [] more
    else splitAux sep rest 0 (c :: cur) (more + 1)

/-- the separator is one the primitives model -/
def sepOK (sep : Str) : Bool := !sep.isEmpty

/-- `strings.Split(s, sep)`, `sep ≠ ""` (a string of n bytes has at most n separators) -/
def split (s sep : Str) : List Str := splitAux sep s 0 [] s.length

/-- `strings.SplitN(s, sep, n)`, `sep ≠ ""`: n > 0 at most n pieces, the last one the
    unsplit rest; n = 0 → nil; n < 0 → all pieces -/
def splitN (s sep : Str) (n : Int) : List Str :=
  if n = 0 then [] else if n < 0 then split s sep else splitAux sep s 0 [] (n.toNat - 1)

/-- `cbc.Definition`, the members the reference rules read -/
structure CDef where
  key     : Str
  code    : Str
  values  : List CDef
  pattern : Str

instance : Inhabited CDef := ⟨⟨[], [], [], []⟩⟩

/-- `tax.TagSet` -/
structure TagSetDef where
  schema : Str
  list   : List CDef

instance : Inhabited TagSetDef := ⟨⟨[], []⟩⟩

/-- `tax.Tags` -/
structure TagsVal where
  list : List Str
deriving Inhabited

/-- `tax.RateDef`, `tax.CategoryDef`, `tax.RegimeDef`: the members the reference rules read -/
structure RateD where
  key : Str
deriving Inhabited

structure CategoryD where
  code  : Str
  rates : List RateD
deriving Inhabited

structure RegimeD where
  categories : List CategoryD
deriving Inhabited

/-- `interface{}` / `any` as the validation rules of /repo/tax receive it: a SUM over the
    dynamic types the translated rules assert (`cbc.Key`, `[]cbc.Key`, `tax.Tags`,
    `tax.Extensions`), `other` = a value of any other dynamic type -/
inductive Dyn where
  | key (k : Str)
  | keys (l : List Str)
  | tags (t : TagsVal)
  | ext (e : List (Str × Str))
  | other
deriving Inhabited

/-- `v, ok := x.(cbc.Key)` -/
def Dyn.asKey : Dyn → Str × Bool
  | .key k => (k, true)
  | _ => ([], false)
/-- `v, ok := x.([]cbc.Key)` -/
def Dyn.asKeys : Dyn → List Str × Bool
  | .keys l => (l, true)
  | _ => ([], false)
/-- `v, ok := x.(tax.Tags)` -/
def Dyn.asTags : Dyn → TagsVal × Bool
  | .tags t => (t, true)
  | _ => (⟨[]⟩, false)
/-- `v, ok := x.(tax.Extensions)` -/
def Dyn.asExt : Dyn → List (Str × Str) × Bool
  | .ext e => (e, true)
  | _ => ([], false)

/-- a `validation.Errors` value returned as an `error`: an interface holding a map is never
    nil, whatever the map holds (the code returns it behind `len(err) > 0`) -/
def errorsAsError : Option Str := some "validation.Errors".toList

/-- the package-level registries of /repo/tax, read-only after `init` -/
class Registry where
  /-- `tax.ExtensionForKey(k)`: `extensionDefs.list[k]` -/
  extensionForKey : Str → Option CDef
  /-- `tax.AddonForKey(k) != nil`: `addons.list[k]` -/
  addonDefined : Str → Bool
  /-- `tax.Regimes().For(code) != nil`: `regimes.list[code]` (main and alternative codes) -/
  regimeDefined : Str → Bool

/-- `regexp.Compile(p)` never fails on the published patterns (`validRegexpPattern` is part
    of `cbc.Definition.Validate`); the compiled regexp is its pattern text -/
def reCompile (p : Str) : Str × Option Str := (p, none)

/-- `validation.Validate(ev, validation.Required)` on a `cbc.Code`: `Required` refuses the
    empty code; then `cbc.Code.Validate` runs (the code's SYNTAX: C11's business, taken as
    the parameter `syntaxOK`) -/
def requiredCode (syntaxOK : Str → Bool) (ev : Str) : Option Str :=
  if ev.isEmpty then some "cannot be blank".toList
  else if syntaxOK ev then none else some "invalid".toList

/-- `validation.Validate(ev, rules…)` on a `cbc.Code` with the rules given by their Go source
    text: only `[validation.Required]` is known (any other rule list: an error for every
    value, so that the equality with the model fails for it) -/
def validateCode (syntaxOK : Str → Bool) (ev : Str) (rules : List String) : Option Str :=
  if rules = ["validation.Required"] then requiredCode syntaxOK ev else some "unknown rules".toList

/-! ## the published definitions as what the translated code sees -/

def cdefOfCode (c : String) : CDef := ⟨[], c.toList, [], []⟩

def cdefOfExt (e : ExtDef) : CDef := ⟨e.key.toList, [], e.codes.map cdefOfCode, e.pattern.toList⟩

@[instance_reducible] def Registry.ofDefs (d : Defs) : Registry where
  extensionForKey k := (d.allExtDefs.find? (fun e => e.key.toList == k)).map cdefOfExt
  addonDefined k := d.addons.any (fun a => a.key.toList == k)
  regimeDefined c := d.liveRegimes.any (fun r => r.country.toList == c || r.alt.any (·.toList == c))

def regimeD (r : Regime) : RegimeD :=
  ⟨r.categories.map fun c => ⟨c.code.toList, c.rates.map fun rt => ⟨rt.key.toList⟩⟩⟩

end GoblVerif.Refs.Src
