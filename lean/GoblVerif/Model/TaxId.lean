/-
  TaxId: executable models of the tax-identity validators of /repo
  (tax/identity.go, regimes/*/tax_identity.go, regimes/{nl,pt}/tax_code.go,
  regimes/common/luhn.go).  Core Lean only.

  Conventions
  * A code is a `List Char` (`Str`).  Go indexes *bytes*; every regime
    validator except MX is only reached through `tax.Identity.Validate`
    after the generic gate `^[A-Z0-9]+$`, so inside the domain in which the
    regime function is consulted bytes and characters coincide.  `goValid`
    of every regime is `gate s && regime s` (MX: `regime s`, the gate is
    skipped by `IdentityCodeValidationIgnore`).
  * An empty code is "no code": every validator and the gate skip it;
    `accepts valid s = s.isEmpty || valid s` is what validation answers.
  * `cbc.Code.Validate` additionally limits a code to 32 bytes; every
    national format is at most 15 long, so the limit never decides.
  * `strconv.Atoi` / `ParseInt(_,10,64)` on a string over `[A-Z0-9]` of at
    most 18 characters fails exactly when a letter occurs (`atoi?`).
  * `float64` detours (AT, BE, CH): all values are non-negative integers
    below 10^8 < 2^53, `math.Mod` of such values is exact, `math.Floor(x/10)`
    for an integer 10 ≤ x ≤ 18 is 1; they are modelled on `Nat`.
  * `int` is 64 bit; the largest intermediate is NL's 17-digit IBAN-style
    number (< 2^63).  No overflow in any loop below.
  Each function names the Go function it mirrors.
-/
namespace GoblVerif.TaxId

abbrev Str := List Char

/-! ## shared helpers -/

/-- `[0-9]` / `\d` (Go's `\d` is ASCII only) -/
def isDig (c : Char) : Bool := decide (48 ≤ c.toNat ∧ c.toNat ≤ 57)
/-- `[A-Z]` -/
def isUp (c : Char) : Bool := decide (65 ≤ c.toNat ∧ c.toNat ≤ 90)
def isAZ09 (c : Char) : Bool := isDig c || isUp c
def isCh (x : Char) (c : Char) : Bool := c == x
def inSet (t : List Char) (c : Char) : Bool := t.contains c

/-- `int(c - '0')` for a digit character -/
def dval (c : Char) : Nat := c.toNat - 48
/-- `'0' + n` -/
def digitChar (n : Nat) : Char := Char.ofNat (48 + n)

/-- tax.IdentityCodePatternRegexp `^[A-Z0-9]+$` -/
def gate (s : Str) : Bool := !s.isEmpty && s.all isAZ09

/-- anchored match of a sequence of single-character classes (`^c1c2…cn$`) -/
def matchSeq : List (Char → Bool) → Str → Bool
  | [], [] => true
  | p :: ps, c :: cs => p c && matchSeq ps cs
  | _, _ => false

def rep (n : Nat) (p : Char → Bool) : List (Char → Bool) := List.replicate n p

def allDig (s : Str) : Bool := s.all isDig

/-- `strconv.Atoi(s)` (see header): `none` = error -/
def atoi? (s : Str) : Option Nat :=
  if !s.isEmpty && allDig s then some (s.foldl (fun n c => n * 10 + dval c) 0) else none
/-- `n, _ := strconv.Atoi(s)` -/
def atoi0 (s : Str) : Nat := (atoi? s).getD 0

/-- index of a character in a table (`strings.Index` with a one-character needle) -/
def indexOf? (c : Char) : List Char → Option Nat
  | [] => none
  | x :: xs => if x == c then some 0 else (indexOf? c xs).map (· + 1)

/-- `for i, m := range ws { total += int(val[i+k]-'0') * m }` over the string from offset k -/
def wloop : List Nat → Str → Nat → Nat
  | m :: ms, c :: cs, acc => wloop ms cs (acc + dval c * m)
  | _, _, acc => acc

/-- what validation answers for a code given the non-empty-code validator -/
def accepts (valid : Str → Bool) (s : Str) : Bool := s.isEmpty || valid s

/-! ## regimes/common/luhn.go -/

/-- loop of `ComputeLuhnCheckDigit`, over the reversed number, with `pos` and `sum` -/
def luhnLoop : Str → Nat → Nat → Nat
  | [], _, sum => sum
  | c :: cs, pos, sum =>
    let digit := dval c
    let digit := if pos % 2 == 0 then (if digit * 2 > 9 then digit * 2 - 9 else digit * 2) else digit
    luhnLoop cs (pos + 1) (sum + digit)

/-- `common.ComputeLuhnCheckDigit` (a one-character string) -/
def luhnCheckDigit (number : Str) : Str :=
  [digitChar ((10 - (luhnLoop number.reverse 0 0) % 10) % 10)]

/-! ## AE — regimes/ae/tax_identity.go -/
namespace AE
def regime (s : Str) : Bool := matchSeq (rep 15 isDig) s        -- `^\d{15}$`
def goValid (s : Str) : Bool := gate s && regime s
end AE

/-! ## AT — regimes/at/tax_identity.go -/
namespace AT
def multipliers : List Nat := [1, 2, 1, 2, 1, 2, 1]
def fmt (s : Str) : Bool := matchSeq (isCh 'U' :: rep 8 isDig) s   -- `^U\d{8}$`
/-- loop of `commercialCheck` (val[i+1]) -/
def loop : List Nat → Str → Nat → Nat
  | m :: ms, c :: cs, total =>
    let x := dval c * m
    loop ms cs (if x > 9 then total + (x / 10 + x % 10) else total + x)
  | _, _, total => total
def commercialCheck (s : Str) : Bool :=
  let total := loop multipliers (s.drop 1) 0
  let total := 10 - (total + 4) % 10
  let total := if total == 10 then 0 else total
  dval (s.getD 8 '0') == total
def regime (s : Str) : Bool := fmt s && commercialCheck s
def goValid (s : Str) : Bool := gate s && regime s
end AT

/-! ## BE — regimes/be/tax_identity.go -/
namespace BE
def fmt (s : Str) : Bool :=                                        -- `^0?\d{9}$`
  matchSeq (rep 9 isDig) s || matchSeq (isCh '0' :: rep 9 isDig) s
def commercialCheck (s : Str) : Bool :=
  let val := if s.length == 9 then '0' :: s else s
  if dval (val.getD 1 '0') == 0 then false else
  let num := atoi0 (val.take 8)
  let chk := 97 - num % 97
  let last := atoi0 ((val.drop 8).take 2)
  last == chk
def regime (s : Str) : Bool := fmt s && commercialCheck s
def goValid (s : Str) : Bool := gate s && regime s
end BE

/-! ## BR — regimes/br/tax_identity.go -/
namespace BR
def weights1 : List Nat := [5, 4, 3, 2, 9, 8, 7, 6, 5, 4, 3, 2]
def weights2 : List Nat := [6, 5, 4, 3, 2, 9, 8, 7, 6, 5, 4, 3, 2]
/-- the summing loop of `verifyDigit`; `none` = "must contain only digits" -/
def sumLoop : List Nat → Str → Nat → Option Nat
  | [], _, sum => some sum
  | _ :: _, [], _ => none          -- index out of range cannot happen (length 14 checked before)
  | w :: ws, c :: cs, sum =>
    match atoi? [c] with
    | none => none
    | some digit => sumLoop ws cs (sum + digit * w)
def verifyDigit (cnpj : Str) (weights : List Nat) (position : Nat) : Bool :=
  match sumLoop weights cnpj 0 with
  | none => false
  | some sum =>
    let remainder := sum % 11
    let expected := if remainder < 2 then 0 else 11 - remainder
    match atoi? [cnpj.getD position ' '] with
    | none => false
    | some actual => actual == expected
def regime (s : Str) : Bool :=
  if s.length != 14 then false else verifyDigit s weights1 12 && verifyDigit s weights2 13
def goValid (s : Str) : Bool := gate s && regime s
end BR

/-! ## CH — regimes/ch/tax_identity.go -/
namespace CH
def multipliers : List Nat := [5, 4, 3, 2, 7, 6, 5, 4]
def fmt (s : Str) : Bool := matchSeq (isCh 'E' :: rep 9 isDig) s   -- `^E\d{9}$`
def commercialCheck (s : Str) : Bool :=
  let total := wloop multipliers (s.drop 1) 0
  let total := 11 - total % 11
  if total == 10 then false else
  let total := if total == 11 then 0 else total
  dval (s.getD 9 '0') == total
def regime (s : Str) : Bool := fmt s && commercialCheck s
def goValid (s : Str) : Bool := gate s && regime s
end CH

/-! ## CO — regimes/co/tax_identity.go -/
namespace CO
def nitMultipliers : List Nat := [3, 7, 13, 17, 19, 23, 29, 37, 41, 43, 47, 53, 59, 67, 71]
/-- loop of `validateDigits`: `sum += int(v-48) * nitMultipliers[l-i-1]` -/
def sumLoop (l : Nat) : Str → Nat → Nat → Nat
  | [], _, sum => sum
  | v :: vs, i, sum => sumLoop l vs (i + 1) (sum + dval v * nitMultipliers.getD (l - i - 1) 0)
def validateDigits (code check : Str) : Bool :=
  match atoi? check with
  | none => false
  | some ck =>
    let sum := sumLoop code.length code 0 0
    let sum := sum % 11
    let sum := if sum ≥ 2 then 11 - sum else sum
    sum == ck
def regime (s : Str) : Bool :=
  if !allDig s then false else
  let l := s.length
  if l > 10 then false else
  if l < 9 then false else
  validateDigits (s.take (l - 1)) (s.drop (l - 1))
def goValid (s : Str) : Bool := gate s && regime s
end CO

/-! ## DE — regimes/de/tax_identity.go -/
namespace DE
def fmt (s : Str) : Bool := matchSeq ((fun c => decide (49 ≤ c.toNat ∧ c.toNat ≤ 57)) :: rep 8 isDig) s  -- `^[1-9]\d{8}$`
/-- loop of `validateTaxCodeChecksum` over the first eight characters; state `p`; `none` = "invalid digit" -/
def loop : Nat → Str → Nat → Option Nat
  | 0, _, p => some p
  | _ + 1, [], _ => none
  | k + 1, c :: cs, p =>
    match atoi? [c] with
    | none => none
    | some digit =>
      let sum := (digit + p) % 10
      let sum := if sum == 0 then 10 else sum
      loop k cs ((2 * sum) % 11)
def validateTaxCodeChecksum (s : Str) : Bool :=
  match loop 8 s 10 with
  | none => false
  | some p =>
    let cd := if 11 - p == 10 then 0 else 11 - p
    match atoi? [s.getD 8 ' '] with
    | none => false
    | some ecd => cd == ecd
def regime (s : Str) : Bool := fmt s && validateTaxCodeChecksum s
def goValid (s : Str) : Bool := gate s && regime s
end DE

/-! ## ES — regimes/es/tax_identity.go -/
namespace ES
def checkLetters : List Char :=
  ['T','R','W','A','G','M','Y','F','P','D','X','B','N','J','Z','S','Q','V','H','L','C','K','E']
def foreignTypeLetters : List Char := ['X','Y','Z']
def otherTypeLetters : List Char := ['K','L','M']
def orgTypeLetters : List Char := ['A','B','C','D','E','F','G','H','J','N','P','Q','R','S','U','V','W']
def orgCheckLetters : List Char := ['J','A','B','C','D','E','F','G','H','I']
def orgCheckCls (c : Char) : Bool := isDig c || inSet orgCheckLetters c     -- `[0-9JABCDEFGHI]`

def nationalRe (s : Str) : Bool := matchSeq (rep 8 isDig ++ [inSet checkLetters]) s
def foreignRe (s : Str) : Bool := matchSeq (inSet foreignTypeLetters :: rep 7 isDig ++ [inSet checkLetters]) s
def otherRe (s : Str) : Bool := matchSeq (inSet otherTypeLetters :: rep 7 isDig ++ [orgCheckCls]) s
def orgRe (s : Str) : Bool := matchSeq (inSet orgTypeLetters :: rep 7 isDig ++ [orgCheckCls]) s

/-- `verifyNationalCode` (groups: number = s[0:8], check = s[8]) -/
def verifyNational (s : Str) : Bool :=
  let number := s.take 8
  let check := s.getD 8 ' '
  if number == List.replicate 8 '0' then false else
  let n := atoi0 number
  checkLetters.getD (n % 23) ' ' == check
/-- `verifyForeignCode` (type = s[0], number = s[1:8], check = s[8]) -/
def verifyForeign (s : Str) : Bool :=
  let ti := (indexOf? (s.getD 0 ' ') foreignTypeLetters).getD 0
  let fs := digitChar ti :: (s.drop 1).take 7          -- strconv.Itoa(ti) + number
  let ci := atoi0 fs
  checkLetters.getD (ci % 23) ' ' == s.getD 8 ' '
/-- the parity loop of `verifyOrgCodeMatches` -/
def orgLoop : List Nat → Nat → Nat → Nat → Nat × Nat
  | [], _, sumEven, sumOdd => (sumEven, sumOdd)
  | v :: vs, k, sumEven, sumOdd =>
    if k % 2 == 1 then orgLoop vs (k + 1) (sumEven + v) sumOdd
    else
      let v := v * 2
      let v := if v > 9 then v - 9 else v
      orgLoop vs (k + 1) sumEven (sumOdd + v)
/-- `verifyOrgCodeMatches` (number = s[1:8], check = s[8]) -/
def verifyOrgMatches (s : Str) : Bool :=
  let p := ((s.drop 1).take 7).map (fun v => atoi0 [v])
  let (sumEven, sumOdd) := orgLoop p 0 0 0
  let cdc := (10 - (sumEven + sumOdd) % 10) % 10
  let cds := s.getD 8 ' '
  let cdi := match indexOf? cds orgCheckLetters with
    | some i => i
    | none => atoi0 [cds]
  cdc == cdi
/-- `DetermineTaxCodeType` + `validateTaxCode` -/
def regime (s : Str) : Bool :=
  if orgRe s then verifyOrgMatches s
  else if nationalRe s then verifyNational s
  else if foreignRe s then verifyForeign s
  else if otherRe s then verifyOrgMatches s
  else false
def goValid (s : Str) : Bool := gate s && regime s
end ES

/-! ## FR — regimes/fr/tax_identity.go -/
namespace FR
def vatRe (s : Str) : Bool := matchSeq (rep 11 isDig) s     -- `^\d{11}$`
def sirenRe (s : Str) : Bool := matchSeq (rep 9 isDig) s    -- `^\d{9}$`
/-- `calculateVATCheckDigit`: `fmt.Sprintf("%02d", (total*100+12) % 97)` -/
def calculateVATCheckDigit (str : Str) : Str :=
  let total := atoi0 str
  let total := (total * 100 + 12) % 97
  [digitChar (total / 10), digitChar (total % 10)]
/-- `validateVATTaxCode` -/
def regime (s : Str) : Bool :=
  if !vatRe s then false else
  let siren := s.drop 2
  calculateVATCheckDigit siren == s.take 2
/-- `validateSIRENTaxCode` (used by the normaliser) -/
def sirenValid (s : Str) : Bool :=
  if !sirenRe s then false else
  luhnCheckDigit (s.take 8) == s.drop 8
def goValid (s : Str) : Bool := gate s && regime s
end FR

/-! ## GB — regimes/gb/tax_identity.go -/
namespace GB
def multipliers : List Nat := [8, 7, 6, 5, 4, 3, 2]
def fmt (s : Str) : Bool :=
  matchSeq (rep 9 isDig) s || matchSeq (rep 12 isDig) s ||
  matchSeq (isCh 'G' :: isCh 'D' :: rep 3 isDig) s || matchSeq (isCh 'H' :: isCh 'A' :: rep 3 isDig) s
/-- `for checkDigit > 0 { checkDigit -= 97 }` with fuel -/
def subLoop : Nat → Int → Int
  | 0, c => c
  | f + 1, c => if c > 0 then subLoop f (c - 97) else c
def commercialCheck (val : Str) : Bool :=
  if atoi0 val == 0 then false else
  let num := atoi0 (val.take 7)
  let sum := wloop multipliers val 0
  let checkDigit := subLoop (sum + 1) (sum : Int)
  let checkDigit : Int := if checkDigit < 0 then 0 - checkDigit else checkDigit
  let lastDigits : Int := atoi0 ((val.drop 7).take 2)
  if checkDigit == lastDigits && num < 9990001 && (num < 100000 || num > 999999) && (num < 9490001 || num > 9700000) then true else
  let checkDigit := if checkDigit ≥ 55 then checkDigit - 55 else checkDigit + 42
  if checkDigit == lastDigits && num > 1000000 then true else false
def regime (s : Str) : Bool :=
  if !fmt s then false else
  if s.take 2 == ['G', 'D'] then decide (atoi0 (s.drop 2) ≤ 499)
  else if s.take 2 == ['H', 'A'] then decide (atoi0 (s.drop 2) ≥ 500)
  else commercialCheck s
def goValid (s : Str) : Bool := gate s && regime s
end GB

/-! ## GR — regimes/gr/tax_identity.go -/
namespace GR
def fmt (s : Str) : Bool := matchSeq (rep 9 isDig) s       -- `^\d{9}$`
/-- `sum += digits[i] * (1 << uint(8-i))` for i < 8 -/
def sumLoop : Nat → List Nat → Nat → Nat → Nat
  | 0, _, _, sum => sum
  | _ + 1, [], _, sum => sum
  | k + 1, d :: ds, i, sum => sumLoop k ds (i + 1) (sum + d * 2 ^ (8 - i))
def hasValidChecksum (s : Str) : Bool :=
  if !allDig s then false else      -- strconv.Atoi(string(char)) per character
  let digits := s.map dval
  let sum := sumLoop 8 digits 0 0
  let checkDigit := sum % 11 % 10
  checkDigit == digits.getD 8 0
def regime (s : Str) : Bool := fmt s && hasValidChecksum s
def goValid (s : Str) : Bool := gate s && regime s
end GR

/-! ## IN — regimes/in/tax_identity.go -/
namespace IN
def cls19AZ (c : Char) : Bool := decide (49 ≤ c.toNat ∧ c.toNat ≤ 57) || isUp c
/-- `^[0-9]{2}[A-Z]{5}[0-9]{4}[A-Z]{1}[1-9A-Z]{1}Z[0-9A-Z]{1}$` -/
def fmt (s : Str) : Bool :=
  matchSeq (rep 2 isDig ++ rep 5 isUp ++ rep 4 isDig ++ [isUp, cls19AZ, isCh 'Z', isAZ09]) s
def charToValue (c : Char) : Nat := if isDig c then c.toNat - 48 else c.toNat - 65 + 10
def valueToChar (v : Nat) : Char := if v ≤ 9 then Char.ofNat (48 + v) else Char.ofNat (65 + v - 10)
def loop : Str → Nat → Nat → Nat
  | [], _, sum => sum
  | c :: cs, i, sum =>
    let value := charToValue c
    let multiplier := if i % 2 != 0 then 2 else 1
    let product := value * multiplier
    loop cs (i + 1) (sum + (product / 36 + product % 36))
def hasValidChecksum (s : Str) : Bool :=
  if s.length != 15 then false else
  let sum := loop (s.take 14) 0 0
  let remainder := sum % 36
  let calculated := (36 - remainder) % 36
  valueToChar calculated == s.getD 14 ' '
def regime (s : Str) : Bool := fmt s && hasValidChecksum s
def goValid (s : Str) : Bool := gate s && regime s
end IN

/-! ## IT — regimes/it/tax_identity.go -/
namespace IT
def regime (s : Str) : Bool :=
  if !allDig s then false else
  if s.length != 11 then false else
  luhnCheckDigit (s.take 10) == s.drop 10
def goValid (s : Str) : Bool := gate s && regime s
end IT

/-! ## MX — regimes/mx/tax_identity.go (no generic gate) -/
namespace MX
def letterCls (c : Char) : Bool := isUp c || c == 'Ñ' || c == '&'     -- `[A-ZÑ\&]`
def personRe (s : Str) : Bool := matchSeq (rep 4 letterCls ++ rep 6 isDig ++ rep 3 isAZ09) s
def companyRe (s : Str) : Bool := matchSeq (rep 3 letterCls ++ rep 6 isDig ++ rep 3 isAZ09) s
def regime (s : Str) : Bool := personRe s || companyRe s
def goValid (s : Str) : Bool := regime s
end MX

/-! ## NL — regimes/nl/tax_code.go -/
namespace NL
/-- loop of `mod11` -/
def mod11Loop : Nat → Nat → Nat → Nat → Nat
  | 0, _, _, sum => sum
  | k + 1, i, num, sum =>
    let num := num / 10
    mod11Loop k (i + 1) num (sum + (num % 10) * (i + 2))
/-- `mod11`: the check digit of the 11-test, `-1` for a remainder of 10 (no check digit exists) -/
def mod11 (num : Nat) : Int :=
  let sum := mod11Loop 8 0 num 0 % 11
  if sum > 9 then -1 else (sum : Int)
def mod97Val (c : Char) : Nat := if isDig c then c.toNat - 48 else c.toNat - 55
def mod97Loop : List Nat → Nat → Nat
  | [], r => r
  | c :: cs, r =>
    let r := r * 10
    let r := if c > 9 then r * 10 else r
    mod97Loop cs (r + c)
def checkMod97 (code : Str) : Bool := mod97Loop (code.map mod97Val) 0 % 97 == 1
def validateDigits (code check : Str) : Bool :=
  match atoi? code with
  | none => false
  | some num =>
    match atoi? check with
    | none => false
    | some _ =>
      let ck : Int := ((num % 10 : Nat) : Int)
      let sum := mod11 num
      !(sum != ck && !checkMod97 (['N', 'L'] ++ code ++ ['B'] ++ check))
def regime (s : Str) : Bool :=
  if s.length != 12 then false else
  if s.getD 9 ' ' != 'B' then false else
  validateDigits (s.take 9) ((s.drop 10).take 2)
def goValid (s : Str) : Bool := gate s && regime s
end NL

/-! ## PL — regimes/pl/tax_identity.go -/
namespace PL
def weights : List Nat := [6, 5, 7, 2, 3, 4, 5, 6, 7]
def d19 (c : Char) : Bool := decide (49 ≤ c.toNat ∧ c.toNat ≤ 57)
/-- `^[1-9]((\d[1-9])|([1-9]\d))\d{7}$` -/
def fmt (s : Str) : Bool :=
  matchSeq (d19 :: isDig :: d19 :: rep 7 isDig) s || matchSeq (d19 :: d19 :: isDig :: rep 7 isDig) s
def validateNIPChecksum (s : Str) : Bool :=
  if s.length != 10 then false else
  if !allDig s then false else          -- unicode.IsDigit / strconv.Atoi per character
  let checkSum := wloop weights s 0     -- `for i, digit := range digits[:9] { checkSum += digit * weights[i] }`
  let checkSum := checkSum % 11
  checkSum == dval (s.getD 9 '0')
def regime (s : Str) : Bool := fmt s && validateNIPChecksum s
def goValid (s : Str) : Bool := gate s && regime s
end PL

/-! ## PT — regimes/pt/tax_code.go -/
namespace PT
def validPrefixes : List Str :=
  [['1'], ['2'], ['3'], ['5'], ['6'], ['8'], ['4','5'], ['7','0'], ['7','1'], ['7','2'], ['7','4'], ['7','5'],
   ['7','7'], ['7','8'], ['7','9'], ['9','0'], ['9','1'], ['9','8'], ['9','9']]
/-- `for i := 1; i < 9; i++ { sum += v * (10 - i) }` -/
def sumLoop : Nat → Str → Nat → Nat → Nat
  | 0, _, _, sum => sum
  | _ + 1, [], _, sum => sum
  | k + 1, c :: cs, i, sum => sumLoop k cs (i + 1) (sum + dval c * (10 - i))
def regime (s : Str) : Bool :=
  if !allDig s then false else
  if s.length != 9 then false else
  if !validPrefixes.contains (s.take 1) && !validPrefixes.contains (s.take 2) then false else
  let sum := sumLoop 8 s 1 0
  let rmd := sum % 11
  let ckd := if rmd == 0 || rmd == 1 then 0 else 11 - rmd
  dval (s.getD 8 '0') == ckd
def goValid (s : Str) : Bool := gate s && regime s
end PT

end GoblVerif.TaxId
