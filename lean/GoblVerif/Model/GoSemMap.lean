/-
  GoSemMap: the one map operation the go2lean translator refers to that core
  Lean does not have.  A Go `map[K]V` is translated as an association list
  `List (K × V)` with distinct keys (see harness/cmd/extract/go2lean_map.go);
  reads are `List.lookup`, a write is `mapSet`.  Core Lean only.  Part of the
  trusted base of every `Generated/*Src.lean` file that writes to a map.
-/
namespace GoblVerif.GoSem

/-- `m[k] = v`: the value of an existing key is replaced where it stands, a new
    key is added at the end (which end does not matter: Go maps have no order) -/
def mapSet {α β : Type} [BEq α] : List (α × β) → α → β → List (α × β)
  | [], k, v => [(k, v)]
  | (k', v') :: rest, k, v => if k' == k then (k, v) :: rest else (k', v') :: mapSet rest k v

end GoblVerif.GoSem
