/-
  GoStrings: the primitives of Go's `strconv`, `strings` and `fmt` that the text
  codec of /repo/num calls, with Lean definitions of their DOCUMENTED behaviour
  on byte lists.  Generated/CodecSrc.lean (the go2lean translation of the
  codec, harness/cmd/extract/codecsrc.go + go2lean_codec.go) refers to them, so
  they are part of its trusted base.  Core Lean only.

  Each definition is compared with the real Go function on generated strings
  by the `prims` family of harness/props/c06 (driver request `prim`), so the
  behaviour assumed here is itself checked on every run.

  Representation as in Model/GoStr.lean: a Go `string` is the `List Char` of
  its BYTES; a `[]byte` is a `List Nat` of values below 256.

  Stated domains (outside them the Go function does something else):
    split      the separator is not empty (Go explodes the string into UTF-8
               sequences for an empty one);
    trimRight  the cutset holds ASCII bytes only (Go trims runes otherwise);
    fmtPad0    width ≤ 1 000 000 (fmt prints %!(BADWIDTH) beyond).
-/
import GoblVerif.Model.GoStr

namespace GoblVerif.GoStrings
open GoblVerif.GoStr

/-- the text of `strconv.ErrRange` -/
def errRange : Str :=
  ['v', 'a', 'l', 'u', 'e', ' ', 'o', 'u', 't', ' ', 'o', 'f', ' ', 'r', 'a', 'n', 'g', 'e']

/-- the text starts with a minus sign -/
def isNeg : Str → Bool
  | '-' :: _ => true
  | _ => false

/-- the text after an optional sign `+` or `-` -/
def afterSign : Str → Str
  | '-' :: t => t
  | '+' :: t => t
  | s => s

/-- `strconv.ParseInt(s, 10, 64)`: an optional sign `+` or `-`, then one or
    more ASCII digits (no underscores in base 10); anything else is a syntax
    error with value 0.  A value that does not fit a signed 64-bit integer is a
    range error and the result is the bound of its sign. -/
def parseInt (s : Str) : Int × Option Str :=
  match atoiU (afterSign s) with
  | none => (0, some errSyntax)
  | some n =>
    if isNeg s then
      if n > 9223372036854775808 then (-9223372036854775808, some errRange) else (-(n : Int), none)
    else
      if n ≥ 9223372036854775808 then (9223372036854775807, some errRange) else ((n : Int), none)

/-- `strings.Split(s, sep)` for a non-empty `sep`: the pieces between the
    non-overlapping occurrences of `sep`, found from the left; `skip` counts the
    bytes of an occurrence still to pass over. -/
def splitGo (sep : Str) : Str → Nat → List Str
  | [], _ => [[]]
  | _ :: cs, skip + 1 => splitGo sep cs skip
  | c :: cs, 0 =>
    if sep.isPrefixOf (c :: cs) then [] :: splitGo sep cs (sep.length - 1)
    else match splitGo sep cs 0 with
      | [] => [[c]]
      | h :: t => (c :: h) :: t

def split (s sep : Str) : List Str := splitGo sep s 0

/-- `strings.TrimPrefix(s, prefix)` -/
def trimPrefix (s p : Str) : Str := if p.isPrefixOf s then s.drop p.length else s

/-- `strings.TrimSuffix(s, suffix)` -/
def trimSuffix (s p : Str) : Str := if p.isSuffixOf s then s.take (s.length - p.length) else s

/-- `strings.Contains(s, substr)` -/
def contains : Str → Str → Bool
  | [], sub => sub.isEmpty
  | c :: cs, sub => sub.isPrefixOf (c :: cs) || contains cs sub

/-- `strings.TrimRight(s, cutset)` for an ASCII cutset: the trailing bytes that
    occur in the cutset are removed -/
def trimRight (s cutset : Str) : Str := (s.reverse.dropWhile (fun c => cutset.contains c)).reverse

/-- `fmt.Sprintf("%0*d", w, v)`: the decimal digits of `v` padded with zeros to
    `w` characters; the sign counts and comes before the zeros -/
def fmtPad0 (w : Nat) (v : Int) : Str :=
  let d := natDigits (v.natAbs + 1) v.natAbs []
  if v < 0 then '-' :: (List.replicate (w - 1 - d.length) '0' ++ d)
  else List.replicate (w - d.length) '0' ++ d

/-- `[]byte(s)` -/
def toBytes (s : Str) : List Nat := s.map Char.toNat

/-- `string(b)` for a `[]byte` -/
def ofBytes (b : List Nat) : Str := b.map Char.ofNat

end GoblVerif.GoStrings
