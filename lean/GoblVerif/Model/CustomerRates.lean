/-
  CustomerRates: the `customer-rates` tag and the order in which a billable
  document (bill.Invoice, bill.Order, bill.Delivery) is normalised and
  calculated — the part of /repo that decides which country a tax combo
  carries when the regime / addon normalisers look at it.

  Mirrors (function by function):
    bill/calculator.go   addCountryToTaxes, applyCustomerRates, calculate (the
                         customer-rates step and the per-combo step only)
    bill/invoice.go      Invoice.Normalize / Invoice.Calculate   (order.go and
    bill/order.go        delivery.go have the same order; pinned by
    bill/delivery.go     Generated/CustomerRatesFacts.lean)
    tax/combo.go         Combo.calculate (country of the regime is dropped)
    regimes/pt/tax_combo.go, addons/pt/saft/tax_combo.go  (the two shipped
                         normalisers that read the combo country, as the
                         concrete instance `ptNorms`)

  The normalisers are a parameter (`Norms`): what a regime or addon does to a
  party's tax country and to a combo.  Everything about amounts is left to
  Model/Calc.lean; a combo here is category, country, rate key, extensions.

  THE CODE AS IT IS: `normalize` runs the normalisers over the combos as they
  were written; the customer's country reaches the combos only afterwards,
  inside `calculate` (`pass`, `step`).  This is why the first calculation of a
  tagged document is not a fixpoint (known finding
  `c04.customerRatesThenCountryNormaliser`).

  NOT THE CODE: `normalizeAlt` / `passAlt` / `stepAlt` describe a possible
  repair (customer rates applied while normalising, after the customer and
  before the rows).  Such a repair was written and rejected (it changes what
  es-verifactu-v1 does to documents that validate today); the definitions stay
  only to state what that order would give.

  Core Lean only.
-/
namespace GoblVerif.CustomerRates

/-- `tax.Extensions` (a Go map from key to code) after `CleanExtensions`: a key that is absent
    and a key with an empty code are the same thing, so the map is its lookup function -/
abbrev Ext := String → String

structure Combo where
  cat : String
  country : String            -- "" = no country
  rate : String               -- "" = no rate key
  ext : Ext

/-- a billable document as far as the tag is concerned -/
structure Doc where
  tagged : Bool                    -- `$tags` contains customer-rates
  customer : Option String         -- customer.tax_id.country; none = no customer or no tax id
  lines : List (List Combo)        -- lines[*].taxes
  discounts : List (List Combo)    -- discounts[*].taxes
  charges : List (List Combo)      -- charges[*].taxes

/-- what the regime and the addons of the document do while normalising -/
structure Norms where
  party : String → String          -- tax.Identity.Normalize on the customer's country (GR ↦ EL)
  combo : Combo → Combo            -- tax.Combo.Normalize: regime normaliser, then the addons

def setCountry (c : String) (t : Combo) : Combo := { t with country := c }

/-- `addCountryToTaxes` -/
def addCountryToTaxes (ts : List Combo) (country : String) : List Combo := ts.map (setCountry country)

/-- every combo of the document through `f` -/
def mapCombos (f : Combo → Combo) (d : Doc) : Doc :=
  { d with lines := d.lines.map (·.map f), discounts := d.discounts.map (·.map f), charges := d.charges.map (·.map f) }

/-- `applyCustomerRates` -/
def applyCustomerRates (d : Doc) : Doc :=
  match d.customer with
  | none => d
  | some country =>
    { d with lines := d.lines.map (addCountryToTaxes · country),
             discounts := d.discounts.map (addCountryToTaxes · country),
             charges := d.charges.map (addCountryToTaxes · country) }

/-- `Invoice.Normalize` (also Order, Delivery): the customer, then lines, discounts and charges;
    nothing about customer rates -/
def normalize (n : Norms) (d : Doc) : Doc :=
  let d := { d with customer := d.customer.map n.party }
  mapCombos n.combo d

/-- `calculate`, as far as countries and extensions go: the customer-rates step, then every
    combo through `Combo.calculate` (`k`, closed over regime country, tags and date) -/
def calculate (k : Combo → Combo) (d : Doc) : Doc :=
  let d := if d.tagged then applyCustomerRates d else d
  mapCombos k d

/-- `Invoice.Calculate`: normalise, then calculate -/
def pass (n : Norms) (k : Combo → Combo) (d : Doc) : Doc := calculate k (normalize n d)

/-- the document with the customer as `Normalize` leaves it -/
def normCustomer (n : Norms) (d : Doc) : Doc := { d with customer := d.customer.map n.party }

/-- the country the combos are given: the normalised customer country when the tag is present -/
def effective (n : Norms) (d : Doc) : Option String := if d.tagged then d.customer.map n.party else none

def withCountry : Option String → Combo → Combo
  | some c, t => setCountry c t
  | none, t => t

/-- one combo through `Invoice.Calculate` when the customer rates are `o`: the normalisers see the
    combo as it was written, then the country is set (calculate), then `Combo.calculate` -/
def step (n : Norms) (k : Combo → Combo) (o : Option String) (t : Combo) : Combo :=
  k (withCountry o (n.combo t))

/-! ## a possible repair (NOT the code): customer rates applied while normalising -/

/-- what `Normalize` would be: customer, customer rates, then lines, discounts, charges -/
def normalizeAlt (n : Norms) (d : Doc) : Doc :=
  let d := { d with customer := d.customer.map n.party }
  let d := if d.tagged then applyCustomerRates d else d
  mapCombos n.combo d

/-- what `Calculate` would be (`calculate` itself unchanged) -/
def passAlt (n : Norms) (k : Combo → Combo) (d : Doc) : Doc := calculate k (normalizeAlt n d)

/-- one combo under that order: country, normalisers, country again, `Combo.calculate` -/
def stepAlt (n : Norms) (k : Combo → Combo) (o : Option String) (t : Combo) : Combo :=
  k (withCountry o (n.combo (withCountry o t)))

/-! ## the shipped instance: regime PT with the pt-saft-v1 addon -/

def extSet (key val : String) (e : Ext) : Ext := fun x => if x = key then val else e x

def foreignTo (own c : String) : Prop := c ≠ "" ∧ c ≠ own

instance (own c : String) : Decidable (foreignTo own c) := by unfold foreignTo; infer_instance

/-- l10n: the ISO code written into `pt-region` for a foreign tax country (`isoCountry`; the three
    tax-only codes have an ISO alternative) -/
def isoCountry (c : String) : String :=
  if c = "EL" then "GR" else if c = "XI" then "GB" else if c = "XU" then "GB" else c

/-- regimes/pt `normalizeTaxCombo` -/
def ptRegimeCombo (t : Combo) : Combo :=
  if t.cat ≠ "VAT" then t else
  let e := if t.ext "pt-region" = "" then extSet "pt-region" "PT" t.ext else t.ext
  let e := if foreignTo "PT" t.country then extSet "pt-region" (isoCountry t.country) e else e
  { t with ext := e }

/-- addons/pt/saft `taxRateMap` -/
def saftRateCode (rate : String) : Option String :=
  if rate = "reduced" then some "RED"
  else if rate = "intermediate" then some "INT"
  else if rate = "standard" then some "NOR"
  else if rate = "exempt" then some "ISE"
  else if rate = "other" then some "OUT"
  else none

/-- addons/pt/saft `normalizeTaxCombo` -/
def saftCombo (t : Combo) : Combo :=
  if t.cat ≠ "VAT" then t else
  if foreignTo "PT" t.country then { t with ext := extSet "pt-saft-tax-rate" "OUT" t.ext } else
  if t.rate = "" then t else
  match saftRateCode t.rate with
  | none => t
  | some code => { t with ext := extSet "pt-saft-tax-rate" code t.ext }

/-- `Combo.calculate` for a document of regime `regime`: the regime's own country is dropped
    (rate resolution changes neither country nor, for PT, the extensions) -/
def comboCalculate (regime : String) (t : Combo) : Combo :=
  if t.country = regime then { t with country := "" } else t

/-- tax identities: only the Greek regime rewrites the country -/
def partyCountry (c : String) : String := if c = "GR" then "EL" else c

/-- regime PT, optionally with pt-saft-v1 -/
def ptNorms (saft : Bool) : Norms :=
  { party := partyCountry, combo := fun t => if saft then saftCombo (ptRegimeCombo t) else ptRegimeCombo t }

/-! ## reading the pinned source order (Generated/CustomerRatesFacts.lean) -/

/-- position of the first call expression equal to `s` -/
def pos (s : String) (calls : List String) : Option Nat :=
  match calls.findIdx? (· == s) with
  | some i => some i
  | none => none

/-- both occur and `a` is written before `b` -/
def before (a b : String) (calls : List String) : Bool :=
  match pos a calls, pos b calls with
  | some i, some j => i < j
  | _, _ => false

/-- in a `Normalize` body with receiver `v`: the customer is normalised before lines, discounts and
    charges, and neither `applyCustomerRates` nor a wrapper of it is called on the document -/
def rowsNormalizedWithoutRates (v : String) (calls : List String) : Bool :=
  before ("tax.Normalize(normalizers, " ++ v ++ ".Customer)") ("tax.Normalize(normalizers, " ++ v ++ ".Lines)") calls
  && before ("tax.Normalize(normalizers, " ++ v ++ ".Customer)") ("tax.Normalize(normalizers, " ++ v ++ ".Discounts)") calls
  && before ("tax.Normalize(normalizers, " ++ v ++ ".Customer)") ("tax.Normalize(normalizers, " ++ v ++ ".Charges)") calls
  && !calls.contains ("applyCustomerRates(" ++ v ++ ")")
  && !calls.contains ("normalizeCustomerRates(" ++ v ++ ")")

end GoblVerif.CustomerRates
