/-
  CalcSrc: what the regenerated translation of /repo/bill and /repo/pay
  (Generated/BillCalcSrc.lean, Generated/PayCalcSrc.lean; configuration in
  harness/cmd/extract/billcalcsrc.go) refers to besides Model/Calc.lean.

  The translated functions take two CONTEXT parameters:
    * `o : Calc.Ops` — the three rounding operations of num.Amount
      (`Multiply`, `Divide`, `Rescale`), exactly the parameter of the model;
    * `sub : String → Nat` — the currency table read through
      `currency.Code.Def()`: the subunits of a currency code (the model takes
      the subunits `c` of the document currency as an input).
  The methods of num.Amount / num.Percentage / currency.Def and
  `tax.ApplyRoundingRule` are PRIMITIVES of the configuration, mapped onto the
  model's own operations (`Calc.up`, `Calc.down`, `Calc.add`, `Calc.sub`,
  `Calc.pctOf`, `Calc.applyRule` …); `ruleOf` below reads a rounding-rule key.

  Core Lean only.
-/
import GoblVerif.Model.Calc

namespace GoblVerif.CalcSrc
open GoblVerif.Calc

/-- the rounding rule a `cbc.Key` stands for in `tax.ApplyRoundingRule`
    (`case RoundingRuleCurrency`, everything else behaves like `precise`) and in
    the comparisons `rr == tax.RoundingRulePrecise` of bill/line_calculate.go -/
def ruleOf (rr : String) : Rule :=
  if rr = "currency" then .currency else if rr = "precise" then .precise else .other

/-- `tax.ApplyRoundingRule(rr, cur, amount)` -/
def applyRoundingRule (o : Ops) (sub : String → Nat) (rr cur : String) (a : Amount) : Amount :=
  applyRule o (ruleOf rr) (sub cur) a

/-- `Amount.MatchPrecision`: `a.RescaleUp(b.exp)` -/
def matchPrecision (a b : Amount) : Amount := up a b.exp

/-! ## errors of the error-returning functions (go2lean_errfn.go) -/

/-- a Go error value as the translation keeps it: the constant format of
    `fmt.Errorf` / `errors.New` (arguments dropped), nested under the keys of
    the `validation.Errors{key: err}` literals it was wrapped in -/
inductive GoErr
  | msg (format : String)
  | at (key : String) (e : GoErr)
deriving Repr, DecidableEq, Inhabited

/-- the innermost message -/
def GoErr.leaf : GoErr → String
  | .msg f => f
  | .at _ e => e.leaf

/-- the keys it is nested under, outermost first -/
def GoErr.path : GoErr → List String
  | .msg _ => []
  | .at k e => k :: e.path

/-- the format of the only error `calculateLineItemPrice` can return inside the model's domain -/
def noRateFormat : String := "no exchange rate found from '%v' to '%v'"

/-- the model's error for a Go error, read off the innermost message.  (The
    other message of bill/line_calculate.go, "invalid currency '%v'", cannot
    occur here: `currency.Code.Def` is total in the translation — a code
    without definition is outside the model.) -/
def errOf (e : GoErr) : CalcErr :=
  if e.leaf = noRateFormat then .noExchangeRate else .retainedIncluded

/-- the result of an error function as the model's result -/
def toModel {α β : Type} (f : α → β) : Except GoErr α → Except CalcErr β
  | .ok a => .ok (f a)
  | .error e => .error (errOf e)

/-- `currency.Convert(rates, from, to, amount)`: the amount itself for equal
    codes, else the first rate `from → to` (`MatchExchangeRate`) applied by
    `ExchangeRate.Convert` at the subunits of ITS destination currency
    (`er.To.Def().Zero().Exp()`), nil when there is none -/
def convertRates (o : Ops) (sub : String → Nat) (rates : List XRate) (f t : String) (a : Amount) : Option Amount :=
  if f = t then some a
  else (findRate rates f t).map (fun r => convert o { r with toSub := sub r.to } a)

end GoblVerif.CalcSrc
