/-
  CalcSrc: what the regenerated translation of /repo/bill and /repo/pay
  (Generated/BillCalcSrc.lean, Generated/PayCalcSrc.lean; configuration in
  harness/cmd/extract/billcalcsrc.go) refers to besides Model/Calc.lean.

  The translated functions take two CONTEXT parameters:
    * `o : Calc.Ops` — the three rounding operations of num.Amount
      (`Multiply`, `Divide`, `Rescale`), exactly the parameter of the model;
    * `sub : String → Nat` — the currency table read through
      `currency.Code.Def()`: the subunits of a currency code (the model takes
      the subunits `c` of the document currency as an input).
  The methods of num.Amount / num.Percentage / currency.Def and
  `tax.ApplyRoundingRule` are PRIMITIVES of the configuration, mapped onto the
  model's own operations (`Calc.up`, `Calc.down`, `Calc.add`, `Calc.sub`,
  `Calc.pctOf`, `Calc.applyRule` …); `ruleOf` below reads a rounding-rule key.

  Core Lean only.
-/
import GoblVerif.Model.Calc

namespace GoblVerif.CalcSrc
open GoblVerif.Calc

/-- the rounding rule a `cbc.Key` stands for in `tax.ApplyRoundingRule`
    (`case RoundingRuleCurrency`, everything else behaves like `precise`) and in
    the comparisons `rr == tax.RoundingRulePrecise` of bill/line_calculate.go -/
def ruleOf (rr : String) : Rule :=
  if rr = "currency" then .currency else if rr = "precise" then .precise else .other

/-- `tax.ApplyRoundingRule(rr, cur, amount)` -/
def applyRoundingRule (o : Ops) (sub : String → Nat) (rr cur : String) (a : Amount) : Amount :=
  applyRule o (ruleOf rr) (sub cur) a

/-- `Amount.MatchPrecision`: `a.RescaleUp(b.exp)` -/
def matchPrecision (a b : Amount) : Amount := up a b.exp

end GoblVerif.CalcSrc
