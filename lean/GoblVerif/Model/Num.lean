/-
  Num: model of /repo/num/amount.go and /repo/num/percentage.go.

  Two layers, both executable, core Lean only:

  * the *faithful* operations (`Amount.multiply`, `divide`, `rescale` …)
    mirror the Go bodies line by line, including the detour through
    `float64` (modelled by `rnd53`) and `math.Round` (`goRound`);
  * the *exact* operations (`mulX`, `divX`, `rescaleX` …) are the same
    functions with the float detour replaced by the integer rounding `rha`.

  `Proofs/Num.lean` shows the two coincide inside the magnitude domain
  (`|intermediate| < 2^52`), `Props/C05.lean` relates the exact layer to
  rational arithmetic.  `int64` overflow is outside the domain; the driver
  reports `undef` when an intermediate leaves the `int64` range.
-/
import GoblVerif.Model.Float53

namespace GoblVerif

structure Amount where
  value : Int
  exp   : Nat
deriving DecidableEq, Repr, Inhabited

def pow10 (e : Nat) : Int := (10 : Int) ^ e

namespace Amount

def toRat (a : Amount) : Rat := (a.value : Rat) / ((pow10 a.exp : Int) : Rat)

/-! ### faithful layer (mirrors the Go code) -/

/-- `Amount.Rescale` -/
def rescale (a : Amount) (exp : Nat) : Amount :=
  if a.exp > exp then
    let e := a.exp - exp
    ⟨goRound (fdiv (ofInt64 a.value) (ofInt64 (pow10 e))), exp⟩
  else if a.exp < exp then
    ⟨a.value * pow10 (exp - a.exp), exp⟩
  else a

def rescaleUp (a : Amount) (exp : Nat) : Amount :=
  if exp > a.exp then a.rescale exp else a

def rescaleDown (a : Amount) (exp : Nat) : Amount :=
  if exp < a.exp then a.rescale exp else a

def rescaleRange (a : Amount) (mn mx : Nat) : Amount :=
  (a.rescaleUp mn).rescaleDown mx

def matchPrecision (a b : Amount) : Amount := a.rescaleUp b.exp

def upscale (a : Amount) (inc : Nat) : Amount := a.rescale (a.exp + inc)

def downscale (a : Amount) (dec : Nat) : Amount :=
  a.rescale (if dec > a.exp then 0 else a.exp - dec)

/-- `Amount.Add` -/
def add (a b : Amount) : Amount :=
  let b' := b.rescale a.exp
  ⟨a.value + b'.value, a.exp⟩

/-- `Amount.Subtract` -/
def sub (a b : Amount) : Amount :=
  let b' := b.rescale a.exp
  ⟨a.value - b'.value, a.exp⟩

/-- `Amount.Multiply`: `(float64(a)*float64(b)) / float64(10^b.exp)` -/
def multiply (a b : Amount) : Amount :=
  ⟨goRound (fdiv (fmul (ofInt64 a.value) (ofInt64 b.value)) (ofInt64 (pow10 b.exp))), a.exp⟩

/-- `Amount.Divide`: `float64(a*10^b.exp) / float64(b)`; `b.value ≠ 0` -/
def divide (a b : Amount) : Amount :=
  ⟨goRound (fdiv (ofInt64 (a.value * pow10 b.exp)) (ofInt64 b.value)), a.exp⟩

def negate (a : Amount) : Amount := ⟨-a.value, a.exp⟩

def abs (a : Amount) : Amount := if a.value < 0 then a.negate else a

/-- `rescaleAmountPair` + comparison -/
def compare (a b : Amount) : Int :=
  let e := if b.exp > a.exp then b.exp else a.exp
  let a' := a.rescale e
  let b' := b.rescale e
  if a'.value < b'.value then -1 else if a'.value > b'.value then 1 else 0

def equals (a b : Amount) : Bool := a.compare b == 0

/-- `Amount.Split` -/
def split (a : Amount) (x : Int) : Amount × Amount :=
  let a2 := a.divide ⟨x, 0⟩
  let a3 := a2.multiply ⟨x - 1, 0⟩
  (a2, a.sub a3)

/-! ### exact layer (integer rounding, no floats) -/

def rescaleX (a : Amount) (exp : Nat) : Amount :=
  if a.exp > exp then ⟨rha a.value (pow10 (a.exp - exp)), exp⟩
  else if a.exp < exp then ⟨a.value * pow10 (exp - a.exp), exp⟩
  else a

def rescaleUpX (a : Amount) (exp : Nat) : Amount :=
  if exp > a.exp then a.rescaleX exp else a

def rescaleDownX (a : Amount) (exp : Nat) : Amount :=
  if exp < a.exp then a.rescaleX exp else a

def matchPrecisionX (a b : Amount) : Amount := a.rescaleUpX b.exp

def addX (a b : Amount) : Amount := ⟨a.value + (b.rescaleX a.exp).value, a.exp⟩
def subX (a b : Amount) : Amount := ⟨a.value - (b.rescaleX a.exp).value, a.exp⟩

def mulX (a b : Amount) : Amount := ⟨rha (a.value * b.value) (pow10 b.exp), a.exp⟩

/-- exact division: sign of the divisor moved to the numerator so that `rha` sees d > 0 -/
def divX (a b : Amount) : Amount :=
  let n := a.value * pow10 b.exp
  if 0 < b.value then ⟨rha n b.value, a.exp⟩ else ⟨rha (-n) (-b.value), a.exp⟩

def compareX (a b : Amount) : Int :=
  let e := if b.exp > a.exp then b.exp else a.exp
  let a' := a.rescaleX e
  let b' := b.rescaleX e
  if a'.value < b'.value then -1 else if a'.value > b'.value then 1 else 0

def splitX (a : Amount) (x : Int) : Amount × Amount :=
  let a2 := a.divX ⟨x, 0⟩
  let a3 := a2.mulX ⟨x - 1, 0⟩
  (a2, a.subX a3)

end Amount

/-! ### Percentage -/

structure Pct where
  amount : Amount
deriving DecidableEq, Repr, Inhabited

def factor1 : Amount := ⟨1, 0⟩

namespace Pct

/-- `PercentageFromAmount`: the same digits with two more decimals (no
    multiplication, no float: as of the fix "PercentageFromAmount keeps the
    digits instead of multiplying and dividing by 100") -/
def ofAmount (a : Amount) : Pct := ⟨⟨a.value, a.exp + 2⟩⟩

/-- `Percentage.Amount`: `RescaleUp(2)` (an integer multiplication when there
    are fewer than two decimals), then two decimals less (as of the fix
    "Percentage.Amount moves the decimal point instead of multiplying through
    float64") -/
def toAmount (p : Pct) : Amount :=
  let a := p.amount.rescaleUp 2
  ⟨a.value, a.exp - 2⟩

def rescale (p : Pct) (e : Nat) : Pct := ⟨p.amount.rescale e⟩

/-- `Percentage.Factor` -/
def factor (p : Pct) : Amount := p.amount.add factor1

/-- `Percentage.Of` -/
def of (p : Pct) (a : Amount) : Amount := a.multiply p.amount

/-- `Percentage.From` -/
def «from» (p : Pct) (a : Amount) : Amount := a.sub (a.divide p.factor)

def equals (p q : Pct) : Bool := p.amount.equals q.amount
def compare (p q : Pct) : Int := p.amount.compare q.amount
def negate (p : Pct) : Pct := ⟨p.amount.negate⟩

/- exact layer -/
def factorX (p : Pct) : Amount := p.amount.addX factor1
def ofX (p : Pct) (a : Amount) : Amount := a.mulX p.amount
def fromX (p : Pct) (a : Amount) : Amount := a.subX (a.divX p.factorX)

end Pct

/-- `Amount.Remove` -/
def Amount.remove (a : Amount) (p : Pct) : Amount := a.divide p.factor
def Amount.removeX (a : Amount) (p : Pct) : Amount := a.divX p.factorX

/-- `ThresholdRule.compare`; operators numbered as the Go `iota` block:
    0 greaterThan, 1 greaterEqualThan, 2 lessThan, 3 lessEqualThan, 4 notZero -/
def thresholdCompare (op : Nat) (threshold value : Amount) : Bool :=
  let c := value.compare threshold
  match op with
  | 0 => c == 1
  | 1 => c == 1 || c == 0
  | 2 => c == -1
  | 3 => c == -1 || c == 0
  | _ => c == -1 || c == 1

end GoblVerif
