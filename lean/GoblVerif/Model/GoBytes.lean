/-
  GoBytes: the primitives the go2lean translator refers to in its BYTE mode
  (harness/cmd/extract/go2lean_buffer.go), used for /repo/c14n.  Core Lean only.
  Part of the trusted base of Generated/C14nSrc.lean.

  REPRESENTATION.  A Go `string`, a `[]byte` and a `bytes.Buffer` are all the
  `List Nat` of their BYTES (every element < 256 for values that come from Go).
  Strings are immutable and slices are translated under the ownership rule of
  go2lean_buffer.go (no two live variables share a backing array that is
  written), so the value of a variable is the list of its bytes and nothing else.

  PARTIALITY.  `s[i]` out of range panics in Go: 0 here; `s[a:b]` out of range
  panics in Go: clamped here.

  RUNES are `Int`.  The three functions of unicode/utf8 and unicode/utf16 that
  /repo/c14n calls are written out from the Go standard library (go1.2x,
  unicode/utf8/utf8.go, unicode/utf16/utf16.go); `utf8.Valid` is the model
  `GoblVerif.C14n.utf8Valid` of Model/C14n.lean (the primitive table of the
  configuration points there).

  FLOATS.  A c14n.Float is represented by the TEXT that
  `strconv.AppendFloat(nil, f, 'E', -1, 64)` writes for it (the digits are
  strconv's business: trusted; their shape is `C14n.strconvE`), so the call is
  `dst ++ text`.

  INTERFACE VALUES.  A c14n.Canonicalable is represented by what can be observed
  of it: whether its dynamic type is c14n.Null and what its MarshalJSON returns.
-/
import GoblVerif.Model.GoStr

namespace GoblVerif.GoBytes

/-- a Go string / []byte / bytes.Buffer: its bytes -/
abbrev Str := List Nat

/-- `error`: nil = none, otherwise a message (only nil-ness is meant to be observed) -/
abbrev Err := Option GoblVerif.GoStr.Str

/-- `s[i]` on a string (out of range: panic in Go, 0 here) -/
def byteAt (s : Str) (i : Nat) : Nat := s.getD i 0

/-- `s[a:b]` on a string, slice or array (out of range: panic in Go, clamped here) -/
def slice {α : Type} (s : List α) (a b : Nat) : List α := (s.take b).drop a

/-- Go's `<` on strings: bytewise lexicographic -/
def ltBytes : Str → Str → Bool
  | [], [] => false
  | [], _ :: _ => true
  | _ :: _, [] => false
  | a :: as, b :: bs => a < b || (a == b && ltBytes as bs)

/-- the contents of `dst` after `copy(dst, src)`: the first min(len dst, len src) elements are replaced -/
def copy {α : Type} (dst src : List α) : List α := src.take dst.length ++ dst.drop src.length

/-- `bytes.IndexByte(b, c)`: index of the first `c`, -1 when there is none -/
def indexByte : Str → Nat → Int
  | [], _ => -1
  | x :: xs, c => if x = c then 0 else
    match indexByte xs c with
    | .negSucc _ => -1
    | .ofNat k => (k : Int) + 1

/-- `strconv.AppendFloat(dst, f, fmt, prec, bitSize)` with the float given by the text
    strconv writes for it under ('E', -1, 64); any other format is outside the model (empty) -/
def appendFloat (dst text : Str) (fmt : Nat) (prec bitSize : Int) : Str :=
  if fmt = 69 ∧ prec = -1 ∧ bitSize = 64 then dst ++ text else []

/-- `a | b` on signed integers, for NON-NEGATIVE operands (a negative one is outside the model) -/
def intOr (a b : Int) : Int := Int.ofNat (a.toNat ||| b.toNat)

/-- `a & b` on signed integers, for NON-NEGATIVE operands -/
def intAnd (a b : Int) : Int := Int.ofNat (a.toNat &&& b.toNat)

/-- utf16.IsSurrogate: `surr1 <= r && r < surr3` -/
def isSurrogate (r : Int) : Bool := decide (0xD800 ≤ r ∧ r < 0xE000)

/-- utf16.DecodeRune: `if surr1 <= r1 && r1 < surr2 && surr2 <= r2 && r2 < surr3
    { return (r1-surr1)<<10 | (r2 - surr2) + surrSelf }; return replacementChar` -/
def decodeRune16 (r1 r2 : Int) : Int :=
  if 0xD800 ≤ r1 ∧ r1 < 0xDC00 ∧ 0xDC00 ≤ r2 ∧ r2 < 0xE000 then
    (r1 - 0xD800) * 1024 + (r2 - 0xDC00) + 0x10000
  else 0xFFFD

/-- a UTF-8 continuation byte (utf8.go: `locb <= b && b <= hicb`) -/
def isCont (b : Nat) : Bool := decide (0x80 ≤ b ∧ b ≤ 0xBF)

/-- utf8.DecodeRuneInString (utf8.go: the `first` table and `acceptRanges`): the rune at the
    start of `s` and its width in bytes; (RuneError, 0) for the empty string, (RuneError, 1)
    where the bytes are not the encoding of a scalar value -/
def decodeRune : Str → Int × Int
  | [] => (0xFFFD, 0)
  | b0 :: rest =>
    if b0 < 0x80 then ((b0 : Int), 1)
    else if 0xC2 ≤ b0 ∧ b0 ≤ 0xDF then
      match rest with
      | b1 :: _ => if isCont b1 then ((((b0 % 32) * 64 + b1 % 64 : Nat) : Int), 2) else (0xFFFD, 1)
      | _ => (0xFFFD, 1)
    else if 0xE0 ≤ b0 ∧ b0 ≤ 0xEF then
      match rest with
      | b1 :: b2 :: _ =>
        if (if b0 = 0xE0 then 0xA0 else 0x80) ≤ b1 ∧ b1 ≤ (if b0 = 0xED then 0x9F else 0xBF) ∧ isCont b2 then
          (((((b0 % 16) * 64 + b1 % 64) * 64 + b2 % 64 : Nat) : Int), 3)
        else (0xFFFD, 1)
      | _ => (0xFFFD, 1)
    else if 0xF0 ≤ b0 ∧ b0 ≤ 0xF4 then
      match rest with
      | b1 :: b2 :: b3 :: _ =>
        if (if b0 = 0xF0 then 0x90 else 0x80) ≤ b1 ∧ b1 ≤ (if b0 = 0xF4 then 0x8F else 0xBF) ∧ isCont b2 ∧ isCont b3 then
          ((((((b0 % 8) * 64 + b1 % 64) * 64 + b2 % 64) * 64 + b3 % 64 : Nat) : Int), 4)
        else (0xFFFD, 1)
      | _ => (0xFFFD, 1)
    else (0xFFFD, 1)

/-- what is observable of a c14n.Canonicalable: `_, ok := v.(Null)` and `v.MarshalJSON()` -/
structure Canon where
  isNull : Bool
  out : Str × Err
deriving Repr, Inhabited

/-- `sort.SliceStable(x, less)` where `less(i, j)` reads the slice only at `i` and `j`:
    the stable sort by `lt a b := less` on a slice holding `a` at `i` and `b` at `j`
    (insertion from the right; any stable sort gives the same list when `lt` is a
    strict weak order) -/
def insertBy {α : Type} (lt : α → α → Bool) (x : α) : List α → List α
  | [] => [x]
  | y :: r => if lt y x then y :: insertBy lt x r else x :: y :: r

def stableSort {α : Type} (lt : α → α → Bool) : List α → List α
  | [] => []
  | x :: r => insertBy lt x (stableSort lt r)

end GoblVerif.GoBytes
