/-
  Normalize: model of `tax.NormalizeIdentity` (tax/identity.go) and of the
  regime normalisers reached through `tax.Identity.Normalize`
  (regimes/*/<cc>.go `Normalize`, case `*tax.Identity`).  Core Lean only.

  Domain: codes whose characters are ASCII (MX: ASCII plus `ñ`/`Ñ`).  Go's
  `strings.ToUpper` is Unicode aware (e.g. U+0131 `ı` ↦ `I`, U+017F `ſ` ↦ `S`);
  outside ASCII the model does not speak (`inDomain`).
-/
import GoblVerif.Model.TaxId

namespace GoblVerif.TaxId.Norm
open GoblVerif.TaxId

def inDomain (s : Str) : Bool := s.all (fun c => decide (c.toNat < 128))
def inDomainMX (s : Str) : Bool := s.all (fun c => decide (c.toNat < 128) || c == 'ñ' || c == 'Ñ')

/-- `strings.ToUpper` on ASCII -/
def upper (s : Str) : Str := s.map Char.toUpper
/-- `IdentityCodeBadCharsRegexp.ReplaceAllString(code, "")` with `[^A-Z0-9]+` -/
def stripBad (s : Str) : Str := s.filter isAZ09
/-- `strings.TrimPrefix` -/
def trimPrefix (p s : Str) : Str := if p.isPrefixOf s then s.drop p.length else s
/-- `strings.HasSuffix` -/
def hasSuffix (suf s : Str) : Bool := suf.reverse.isPrefixOf s.reverse

/-- body of the loop of `tax.NormalizeIdentity`: `TrimPrefix` of the country, then of
    every alternative code in order, once each -/
def trimPass (country : Str) (alts : List Str) (code : Str) : Str :=
  alts.foldl (fun c a => trimPrefix a c) (trimPrefix country code)

/-- `for { prev := code; …; if code == prev { break } }` with fuel: every pass that does
    not leave the loop shortens the code, so `code.length + 1` passes always reach the
    `break` (`trimLoop_stable` in Proofs/Normalize.lean) -/
def trimLoop (country : Str) (alts : List Str) : Nat → Str → Str
  | 0, code => code
  | fuel + 1, code =>
    let next := trimPass country alts code
    if next == code then code else trimLoop country alts fuel next

/-- `tax.NormalizeIdentity(tID, altCodes...)`: the new code -/
def normalizeIdentity (country : Str) (alts : List Str) (code : Str) : Str :=
  let c := stripBad (upper code)
  trimLoop country alts (c.length + 1) c

/-- `^(MWST|TVA|IVA)*$` (the three alternatives begin with different letters: the parse is unique) -/
def chSuffixStar : Str → Bool
  | [] => true
  | 'M' :: 'W' :: 'S' :: 'T' :: r => chSuffixStar r
  | 'T' :: 'V' :: 'A' :: r => chSuffixStar r
  | 'I' :: 'V' :: 'A' :: r => chSuffixStar r
  | _ => false
/-- `^(MWST|TVA|IVA)+$` -/
def chSuffixPlus (s : Str) : Bool := !s.isEmpty && chSuffixStar s

/-- CH: `taxCodeSuffixes.ReplaceAllString(code, "")` with `(MWST|TVA|IVA)+$`: the match
    must reach the end of the text, so there is at most one, and the leftmost-first rule
    makes it start at the first position from which the rest is a run of suffixes -/
def chStripSuffix : Str → Str
  | [] => []
  | c :: cs => if chSuffixPlus (c :: cs) then [] else c :: chStripSuffix cs

/-- FR: SIREN → VAT -/
def frExtend (str : Str) : Str :=
  if str.length == 9 then
    if FR.sirenValid str then FR.calculateVATCheckDigit str ++ str else str
  else str

def mxUpper (c : Char) : Char := if c == 'ñ' then 'Ñ' else c.toUpper
/-- MX: `NormalizeTaxCode` with `[^A-ZÑ\&0-9]+` -/
def mxNormalize (code : Str) : Str :=
  (code.map mxUpper).filter (fun c => isUp c || c == 'Ñ' || c == '&' || isDig c)

/-- alternative country codes passed to `NormalizeIdentity` by the regime -/
def altsOf (cc : String) : List Str :=
  match cc with
  | "GB" => [['X','I'], ['X','U']]
  | "EL" => [['G','R']]
  | "IN" => [['I','N']]
  | _ => []

/-- `Identity.Normalize` for the regime `cc` (the regime's own country code;
    EL for Greece), identity country `country`, code `code`:
    (new country, new code).  Greece overwrites the country with `EL` *before* the code is
    cleaned (library fix `d935db9`; until then the identity's own country was trimmed and the
    country rewritten afterwards, so `EL…` under country `GR` lost its prefix only on the
    second pass); India cleans first and overwrites afterwards (its regime has the single
    country code `IN`, which is also the alternative code it passes).  `registered` says whether the regime's
    `RegimeDef` carries a `Normalizer:` entry (regenerated fact; BR does not
    at the time of writing, `RegimeDef.NormalizeObject` is then a no-op). -/
def normalize (cc : String) (country : Str) (code : Str) (registered : Bool := true) : Str × Str :=
  if !registered then (country, code) else
  match cc with
  | "MX" => (country, mxNormalize code)
  | "CH" => (country, chStripSuffix (normalizeIdentity country [] code))
  | "FR" => (country, if code.isEmpty then code else frExtend (normalizeIdentity country [] code))
  -- regimes/gr: `tID.Country = "EL"` comes first, then `tax.NormalizeIdentity(tID, l10n.GR)`:
  -- the country whose prefix is trimmed is EL whatever the identity said (GR or EL)
  | "EL" => (['E','L'], normalizeIdentity ['E','L'] (altsOf "EL") code)
  | "IN" => (['I','N'], normalizeIdentity country (altsOf "IN") code)
  | "GB" => (country, normalizeIdentity country (altsOf "GB") code)
  | _ => (country, normalizeIdentity country [] code)

end GoblVerif.TaxId.Norm
