/-
  RefsCtx: which regime a reference rule of Model/Refs.lean is applied with, when the
  rules are run over a whole document (C18).

  In the code the regime travels in a `context.Context`:

    (*RegimeDef).WithContext      nil definition → the context as it is; otherwise
                                  `context.WithValue(ctx, keyRegime, r)`: a NEW context
                                  derived from the old one, which stays what it was
    RegimeDefFromContext          the value under `keyRegime`, or nil
    X.validationContext           bill.Invoice / Order / Delivery / Payment: the document's
                                  regime definition (and the addons' validators) into the context
    (*org.Party).validationContext   a party that declares a `$regime` of its own derives a
                                  context FOR ITS OWN MEMBERS; `ValidateWithContext` of the
                                  party returns an error or nil, never a context
    (*Combo).ValidateWithContext  no country on the combo → RegimeDefFromContext(ctx),
                                  otherwise RegimeDefFor(country)

  A context is a value here (`VCtx`), so "a child context is visible to the sub-tree it was
  made for and to nothing else" is how the functions below are written: `validateParty`
  receives the document's context, builds its own, and hands back a verdict only.  That the
  Go functions have this shape is pinned over `Generated/RefsCtxFacts.lean` (Props/C18,
  `Expect.regime_context_as_modelled`); that `context.WithValue` does not change the
  context it is given is Go's (trusted).

  `validateDocShared` is NOT the code: it is the same walk with ONE mutable slot for the
  regime, the shape a "single validation state in the context" would have.  It is here so
  that the difference is a theorem (`Props.C18.shared_context_would_be_unsound`).

  Core Lean only.
-/
import GoblVerif.Model.Refs

namespace GoblVerif.Refs

/-- what the reference rules read from a `context.Context`: the value under `keyRegime` -/
abbrev VCtx := Option Regime

/-- `(*RegimeDef).WithContext`: nil definition → the context unchanged, else a derived one -/
def withRegime (r : Option Regime) (ctx : VCtx) : VCtx :=
  match r with
  | none => ctx
  | some r => some r

/-- `RegimeDefFromContext` -/
def regimeFromContext (ctx : VCtx) : Option Regime := ctx

/-- a party as far as the generic reference rules see it -/
structure Party where
  regime : String                 -- its own `$regime`, "" = none
  ext    : List (String × String)
deriving DecidableEq, Repr, Inhabited

/-- a document as far as the generic reference rules see it; `parties` = every party of the
    document (supplier and customer are validated before the lines, the parties of `ordering`,
    `delivery` and `payment` after them: for the code the order is immaterial, which is what
    `Props.C18.party_regimes_do_not_reach_the_lines` says), `combos` = the tax combos of
    lines, discounts and charges -/
structure Doc where
  schema        : String
  regime        : String
  addons        : List String
  tags          : List String
  pricesInclude : String
  parties       : List Party
  combos        : List Combo
deriving Repr, Inhabited

/-- the context a party validates ITS members with -/
def partyContext (d : Defs) (ctx : VCtx) (p : Party) : VCtx := withRegime (d.regimeFor p.regime) ctx

/-- `(*org.Party).ValidateWithContext`, the reference rules only: the party's own regime
    must be a defined one (`tax.Regime.Validate`), its extensions must resolve.  The derived
    context is used for the party's members; nothing is handed back but the verdict. -/
def validateParty (d : Defs) (pm : PatternMatch) (ctx : VCtx) (p : Party) : Bool :=
  let _own := partyContext d ctx p
  validateRegime d p.regime && validateExt d pm p.ext

/-- `X.validationContext` of the four documents -/
def docContext (d : Defs) (doc : Doc) : VCtx := withRegime (d.regimeFor doc.regime) none

/-- the generic reference rules over a whole document, as the code applies them -/
def validateDoc (d : Defs) (pm : PatternMatch) (doc : Doc) : Bool :=
  let ctx := docContext d doc
  validateRegime d doc.regime &&
  validateAddons d doc.addons &&
  validateDocTags (d.regimeFor doc.regime) (doc.addons.filterMap d.addonFor) doc.schema doc.tags &&
  validatePricesInclude (regimeFromContext ctx) doc.pricesInclude &&
  doc.parties.all (validateParty d pm ctx) &&
  doc.combos.all (validateCombo d pm (regimeFromContext ctx))

/-! ## not the code: one mutable slot for the regime -/

/-- the slot after a party has been validated: the party's regime, when it has one, stays -/
def sharedAfterParties (d : Defs) (ctx : VCtx) (ps : List Party) : VCtx :=
  ps.foldl (fun c p => partyContext d c p) ctx

/-- the same walk with the regime kept in one shared, mutable slot -/
def validateDocShared (d : Defs) (pm : PatternMatch) (doc : Doc) : Bool :=
  let ctx := docContext d doc
  validateRegime d doc.regime &&
  validateAddons d doc.addons &&
  validateDocTags (d.regimeFor doc.regime) (doc.addons.filterMap d.addonFor) doc.schema doc.tags &&
  validatePricesInclude (regimeFromContext ctx) doc.pricesInclude &&
  doc.parties.all (validateParty d pm ctx) &&
  doc.combos.all (validateCombo d pm (regimeFromContext (sharedAfterParties d ctx doc.parties)))

end GoblVerif.Refs
