/-
  SchemaLeaves: small printer / normaliser models for the leaf types whose text
  the published schemas constrain by `pattern` or `format`:

  * `Amount.textCodes`   — /repo/num/amount.go `Amount.String`
                           (Model/Codec.lean of the design is not part of this
                           check; this is its own, minimal printer model)
  * `Pct.textCodes`      — /repo/num/percentage.go `Percentage.String`
  * `dateCodes`          — civil.Date.String, `%04d-%02d-%02d` (cal.Date marshals through it)
  * `uuidCodes`          — google/uuid `UUID.String` (lower-case hex 8-4-4-4-12)
  * `normalizeCode`      — /repo/cbc/code.go `NormalizeCode`

  and validator models for what the schemas constrain through references:

  * `codeValidate`, `requiredCode`, `keyValidate`, `taxCountryValidate`
                         — `cbc.Code.Validate` (alone / behind `validation.Required`),
                           `cbc.Key.Validate`, `l10n.TaxCountryCode.Validate`
  * `extValueValidate`, `extensionsValidate`
                         — /repo/tax/extensions.go `Extensions.Validate`
  * `rateTotalValidate`, `categoryTotalValidate`, `totalValidate`
                         — /repo/tax/totals.go `(*RateTotal|*CategoryTotal|*Total).Validate`
  * `identityCodeGeneric`, `mxNational`
                         — /repo/tax/identity.go `(*Identity).Validate` (generic rules of `code`),
                           /repo/regimes/mx/tax_identity.go `ValidateTaxCode`

  Texts are lists of code points, as in Model/Regex.  Core Lean only.
  Domain of faithfulness: every int64 value (−2^63 included, since the fix of
  `Amount.String`), `exp ≤ 18` (beyond, Go's `intPow` wraps), years 0…9999 and
  non-negative fields for dates; the correspondence run compares each printer
  with the Go function.
-/
import GoblVerif.Model.Num
import GoblVerif.Model.Regex

namespace GoblVerif.Leaves
open GoblVerif

/-- decimal digits of `n`, most significant first (fuel `n` always suffices) -/
def natDigitsF : Nat → Nat → List Nat
  | 0, n => [48 + n % 10]
  | f + 1, n => if n < 10 then [48 + n] else natDigitsF f (n / 10) ++ [48 + n % 10]

def natDigits (n : Nat) : List Nat := natDigitsF n n

/-- `%0*d` for a non-negative number: left-pad with `0` to `w` -/
def padZero (w : Nat) (ds : List Nat) : List Nat := List.replicate (w - ds.length) 48 ++ ds

/-- `Amount.String` -/
def amountCodes (a : Amount) : List Nat :=
  let sign : List Nat := if a.value < 0 then [45] else []
  let v := a.value.natAbs
  if a.exp = 0 then sign ++ natDigits v
  else if a.exp > 1000 then [78, 65]   -- "NA"
  else
    let p := 10 ^ a.exp
    sign ++ natDigits (v / p) ++ [46] ++ padZero a.exp (natDigits (v % p))

/-- `Percentage.String` -/
def pctCodes (p : Pct) : List Nat := amountCodes p.toAmount ++ [37]

/-- `civil.Date.String` for non-negative fields -/
def dateCodes (y m d : Nat) : List Nat :=
  padZero 4 (natDigits y) ++ [45] ++ padZero 2 (natDigits m) ++ [45] ++ padZero 2 (natDigits d)

/-- `civil.Date.IsValid` (through `time.Date` round trip): the day exists -/
def dateValid (y m d : Nat) : Bool :=
  1 ≤ m && m ≤ 12 && 1 ≤ d &&
  d ≤ (if m == 2 then (if (y % 4 == 0 && y % 100 != 0) || y % 400 == 0 then 29 else 28)
       else if m == 4 || m == 6 || m == 9 || m == 11 then 30 else 31)

def hexDigit (n : Nat) : Nat := if n < 10 then 48 + n else 87 + n

def hexByte (b : Nat) : List Nat := [hexDigit (b / 16 % 16), hexDigit (b % 16)]

/-- `uuid.UUID.String` of 16 bytes -/
def uuidCodes (bs : List Nat) : List Nat :=
  let h := fun (xs : List Nat) => xs.flatMap hexByte
  h (bs.take 4) ++ [45] ++ h ((bs.drop 4).take 2) ++ [45] ++ h ((bs.drop 6).take 2) ++ [45] ++
  h ((bs.drop 8).take 2) ++ [45] ++ h ((bs.drop 10).take 6)

/-! ### cbc.NormalizeCode -/

def isAlnum (c : Nat) : Bool := Regex.isAlnum c
/-- `[\.\-\/ _\:]` -/
def isSep (c : Nat) : Bool := c == 46 || c == 45 || c == 47 || c == 32 || c == 95 || c == 58

/-- `unicode.IsSpace` -/
def isSpace (c : Nat) : Bool :=
  (9 ≤ c && c ≤ 13) || c == 32 || c == 0x85 || c == 0xa0 || c == 0x1680 || (0x2000 ≤ c && c ≤ 0x200a) ||
  c == 0x2028 || c == 0x2029 || c == 0x202f || c == 0x205f || c == 0x3000

def trimLeft : List Nat → List Nat
  | c :: r => if isSpace c then trimLeft r else c :: r
  | [] => []

def trimRight : List Nat → List Nat
  | [] => []
  | c :: r =>
    match trimRight r with
    | [] => if isSpace c then [] else [c]
    | t => c :: t

/-- `strings.TrimSpace` -/
def trimSpace (s : List Nat) : List Nat := trimRight (trimLeft s)

/-- `codeSeparatorRegexp.ReplaceAllString(code, "$1")` with
    `([\.\-\/ _\:])[^A-Za-z0-9]+`: a separator followed by a non-empty run of
    non-alphanumerics keeps only the separator.  `skipping` = inside such a run. -/
def collapse : Bool → List Nat → List Nat
  | _, [] => []
  | true, c :: rest => if isAlnum c then c :: collapse false rest else collapse true rest
  | false, c :: rest =>
    if isSep c then
      match rest with
      | d :: _ => if isAlnum d then c :: collapse false rest else c :: collapse true rest
      | [] => [c]
    else c :: collapse false rest

/-- `codeInvalidCharsRegexp.ReplaceAllString(code, "")` with `[^A-Za-z0-9\.\-\/ _\:]` -/
def dropInvalid (s : List Nat) : List Nat := s.filter fun c => isAlnum c || isSep c

/-- `cbc.NormalizeCode` (as of the fix "NormalizeCode is idempotent"): invalid characters are
    removed first, then separator runs are collapsed, then the result is trimmed. -/
def normalizeCode (s : List Nat) : List Nat := trimSpace (collapse false (dropInvalid s))

def text (cs : List Nat) : String := String.ofList (cs.map Char.ofNat)

/-! ### the compiled leaf patterns -/
section Patterns
open Regex

def alnumCls : RE := .cls ⟨[(65, 90), (97, 122), (48, 57)], false⟩
def sepCls : RE := .cls ⟨[(46, 46), (45, 45), (47, 47), (32, 32), (95, 95), (58, 58)], false⟩
/-- one more block: an optional separator and a run of alphanumerics -/
def blockRE : RE := .cat (RE.opt sepCls) (RE.plus alnumCls)
/-- what `^[A-Za-z0-9]+([\.\-\/ _\:]?[A-Za-z0-9]+)*$` (cbc.CodePattern) compiles to -/
def codeRE : RE := .cat (RE.plus alnumCls) (.star blockRE)

def lowerK : CClass := ⟨[(97, 122)], false⟩
def lowerDigitK : CClass := ⟨[(97, 122), (48, 57)], false⟩
def keyBodyK : CClass := ⟨[(97, 122), (48, 57), (45, 45), (43, 43)], false⟩
/-- what `^(?:[a-z]|[a-z0-9][a-z0-9-+]*[a-z0-9])$` (cbc.KeyPattern) compiles to -/
def keyRE : RE := .alt (.cls lowerK) (.cat (.cat (.cls lowerDigitK) (.star (.cls keyBodyK))) (.cls lowerDigitK))

def digitK : CClass := ⟨[(48, 57)], false⟩
def upperDigitK : CClass := ⟨[(65, 90), (48, 57)], false⟩
/-- what `^[A-Z0-9]+$` (tax.IdentityCodePattern, the rule Go applies to identity codes) compiles to -/
def identityRE : RE := RE.plus (.cls upperDigitK)
/-- `[A-Z0-9Ñ&]` -/
def identitySchemaK : CClass := ⟨[(65, 90), (48, 57), (209, 209), (38, 38)], false⟩
/-- what `^[A-Z0-9Ñ&]+$` (tax.IdentityCodeSchemaPattern, published for `tax.Identity.code`) compiles to -/
def identitySchemaRE : RE := RE.plus (.cls identitySchemaK)
/-- `[A-ZÑ\&]` -/
def mxLetterK : CClass := ⟨[(65, 90), (209, 209), (38, 38)], false⟩
/-- what `^([A-ZÑ\&]{n})([0-9]{6})([A-Z0-9]{3})$` compiles to (regimes/mx: n = 4 person, n = 3 company) -/
def mxCodeRE (n : Nat) : RE :=
  .cat (.cat (RE.pow (.cls mxLetterK) n) (RE.pow (.cls digitK) 6)) (RE.pow (.cls upperDigitK) 3)
def mxPersonRE : RE := mxCodeRE 4
def mxCompanyRE : RE := mxCodeRE 3

end Patterns

/-! ### validators (as repaired): codes, keys, extension values, stored tax summaries, identity codes

  `invopop/validation` semantics used below: `Required` fails on the empty text and on an empty
  (or nil) slice; `Length`, `Match` and `In` pass the empty text; a value that implements
  `Validate()` is validated after the rules of its field; `Length` counts bytes (`len(string)`). -/
section Validators
open Regex

/-- bytes of the UTF-8 encoding -/
def utf8Len : List Nat → Nat
  | [] => 0
  | c :: r => (if c < 0x80 then 1 else if c < 0x800 then 2 else if c < 0x10000 then 3 else 4) + utf8Len r

/-- `cbc.Code.Validate`: `Length(1, 32)`, `Match(CodePatternRegexp)` -/
def codeValidate (s : List Nat) : Bool :=
  s.isEmpty || (decide (1 ≤ utf8Len s) && decide (utf8Len s ≤ 32) && codeRE.matchL s)

/-- `validation.Validate(code, validation.Required)`: present, then the code's own `Validate` -/
def requiredCode (s : List Nat) : Bool := !s.isEmpty && codeValidate s

/-- `cbc.Key.Validate`: `Match(KeyValidationRegexp)`, `Length(1, 64)` -/
def keyValidate (s : List Nat) : Bool :=
  s.isEmpty || (keyRE.matchL s && decide (1 ≤ utf8Len s) && decide (utf8Len s ≤ 64))

/-- `l10n.TaxCountryCode.Validate`: `validation.In(validTaxCountryCodes()...)` -/
def taxCountryValidate (countries : List (List Nat)) (s : List Nat) : Bool := s.isEmpty || countries.contains s

/-- what `tax.ExtensionForKey` returns for a key, as far as `Extensions.Validate` looks at it -/
structure ExtKeyDef where
  /-- `values[].code`; empty = no list -/
  codes : List (List Nat)
  /-- the definition's `pattern` as Go's `regexp` reads it (`none` = no pattern; a pattern that does
      not compile rejects everything) -/
  pattern : Option (List Nat → Bool)

/-- one member of `Extensions.Validate` (second loop): `kd = ExtensionForKey(k)`.
    Since the repair every value is first held to `validation.Required` and `cbc.Code.Validate`. -/
def extValueValidate (kd : Option ExtKeyDef) (v : List Nat) : Bool :=
  match kd with
  | none => false
  | some kd =>
    requiredCode v &&
    (kd.codes.isEmpty || kd.codes.contains v) &&
    (match kd.pattern with | none => true | some m => m v)

/-- `Extensions.Validate`: every key well formed, then every member -/
def extensionsValidate (defOf : List Nat → Option ExtKeyDef) (em : List (List Nat × List Nat)) : Bool :=
  em.all (fun kv => keyValidate kv.1) && em.all (fun kv => extValueValidate (defOf kv.1) kv.2)

/-- the members of a `tax.RateTotal` that have rules (`base`, `amount`, `percent`, `surcharge` are
    amounts and percentages: always present, always printed inside their patterns) -/
structure RateTotalV where
  key : List Nat
  country : List Nat
  ext : List (List Nat × List Nat)

/-- `tax.CategoryTotal`: a nil `rates` slice (printed `null`) and an empty one are both `[]` here,
    `validation.Required` refuses both -/
structure CategoryTotalV where
  code : List Nat
  rates : List RateTotalV

/-- `(*RateTotal).Validate`: `Field(&rt.Key)`, `Field(&rt.Country)`, `Field(&rt.Ext)` -/
def rateTotalValidate (countries : List (List Nat)) (defOf : List Nat → Option ExtKeyDef) (rt : RateTotalV) : Bool :=
  keyValidate rt.key && taxCountryValidate countries rt.country && extensionsValidate defOf rt.ext

/-- `(*CategoryTotal).Validate`: `Field(&ct.Code, Required)`, `Field(&ct.Rates, Required)` -/
def categoryTotalValidate (countries : List (List Nat)) (defOf : List Nat → Option ExtKeyDef) (ct : CategoryTotalV) : Bool :=
  requiredCode ct.code && !ct.rates.isEmpty && ct.rates.all (rateTotalValidate countries defOf)

/-- `(*Total).Validate`: `Field(&t.Categories)` -/
def totalValidate (countries : List (List Nat)) (defOf : List Nat → Option ExtKeyDef) (cats : List CategoryTotalV) : Bool :=
  cats.all (categoryTotalValidate countries defOf)

/-- the generic rules of `(*Identity).Validate` for the code of a country that is not in
    `IdentityCodeValidationIgnore`: `Match(IdentityCodePatternRegexp)`, then `cbc.Code.Validate`
    (the regime's own check can only refuse more) -/
def identityCodeGeneric (s : List Nat) : Bool := (s.isEmpty || identityRE.matchL s) && codeValidate s

/-- regimes/mx `ValidateTaxCode`, all that is applied to the code of an MX identity (the generic
    rules are skipped): empty, or one of the two RFC shapes -/
def mxNational (s : List Nat) : Bool := s.isEmpty || mxPersonRE.matchL s || mxCompanyRE.matchL s

end Validators

end GoblVerif.Leaves
