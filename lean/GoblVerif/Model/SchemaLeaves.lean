/-
  SchemaLeaves: small printer / normaliser models for the leaf types whose text
  the published schemas constrain by `pattern` or `format`:

  * `Amount.textCodes`   — /repo/num/amount.go `Amount.String`
                           (Model/Codec.lean of the design is not part of this
                           check; this is its own, minimal printer model)
  * `Pct.textCodes`      — /repo/num/percentage.go `Percentage.String`
  * `dateCodes`          — civil.Date.String, `%04d-%02d-%02d` (cal.Date marshals through it)
  * `uuidCodes`          — google/uuid `UUID.String` (lower-case hex 8-4-4-4-12)
  * `normalizeCode`      — /repo/cbc/code.go `NormalizeCode`

  Texts are lists of code points, as in Model/Regex.  Core Lean only.
  Domain of faithfulness: every int64 value (−2^63 included, since the fix of
  `Amount.String`), `exp ≤ 18` (beyond, Go's `intPow` wraps), years 0…9999 and
  non-negative fields for dates; the correspondence run compares each printer
  with the Go function.
-/
import GoblVerif.Model.Num
import GoblVerif.Model.Regex

namespace GoblVerif.Leaves
open GoblVerif

/-- decimal digits of `n`, most significant first (fuel `n` always suffices) -/
def natDigitsF : Nat → Nat → List Nat
  | 0, n => [48 + n % 10]
  | f + 1, n => if n < 10 then [48 + n] else natDigitsF f (n / 10) ++ [48 + n % 10]

def natDigits (n : Nat) : List Nat := natDigitsF n n

/-- `%0*d` for a non-negative number: left-pad with `0` to `w` -/
def padZero (w : Nat) (ds : List Nat) : List Nat := List.replicate (w - ds.length) 48 ++ ds

/-- `Amount.String` -/
def amountCodes (a : Amount) : List Nat :=
  let sign : List Nat := if a.value < 0 then [45] else []
  let v := a.value.natAbs
  if a.exp = 0 then sign ++ natDigits v
  else if a.exp > 1000 then [78, 65]   -- "NA"
  else
    let p := 10 ^ a.exp
    sign ++ natDigits (v / p) ++ [46] ++ padZero a.exp (natDigits (v % p))

/-- `Percentage.String` -/
def pctCodes (p : Pct) : List Nat := amountCodes p.toAmount ++ [37]

/-- `civil.Date.String` for non-negative fields -/
def dateCodes (y m d : Nat) : List Nat :=
  padZero 4 (natDigits y) ++ [45] ++ padZero 2 (natDigits m) ++ [45] ++ padZero 2 (natDigits d)

/-- `civil.Date.IsValid` (through `time.Date` round trip): the day exists -/
def dateValid (y m d : Nat) : Bool :=
  1 ≤ m && m ≤ 12 && 1 ≤ d &&
  d ≤ (if m == 2 then (if (y % 4 == 0 && y % 100 != 0) || y % 400 == 0 then 29 else 28)
       else if m == 4 || m == 6 || m == 9 || m == 11 then 30 else 31)

def hexDigit (n : Nat) : Nat := if n < 10 then 48 + n else 87 + n

def hexByte (b : Nat) : List Nat := [hexDigit (b / 16 % 16), hexDigit (b % 16)]

/-- `uuid.UUID.String` of 16 bytes -/
def uuidCodes (bs : List Nat) : List Nat :=
  let h := fun (xs : List Nat) => xs.flatMap hexByte
  h (bs.take 4) ++ [45] ++ h ((bs.drop 4).take 2) ++ [45] ++ h ((bs.drop 6).take 2) ++ [45] ++
  h ((bs.drop 8).take 2) ++ [45] ++ h ((bs.drop 10).take 6)

/-! ### cbc.NormalizeCode -/

def isAlnum (c : Nat) : Bool := Regex.isAlnum c
/-- `[\.\-\/ _\:]` -/
def isSep (c : Nat) : Bool := c == 46 || c == 45 || c == 47 || c == 32 || c == 95 || c == 58

/-- `unicode.IsSpace` -/
def isSpace (c : Nat) : Bool :=
  (9 ≤ c && c ≤ 13) || c == 32 || c == 0x85 || c == 0xa0 || c == 0x1680 || (0x2000 ≤ c && c ≤ 0x200a) ||
  c == 0x2028 || c == 0x2029 || c == 0x202f || c == 0x205f || c == 0x3000

def trimLeft : List Nat → List Nat
  | c :: r => if isSpace c then trimLeft r else c :: r
  | [] => []

def trimRight : List Nat → List Nat
  | [] => []
  | c :: r =>
    match trimRight r with
    | [] => if isSpace c then [] else [c]
    | t => c :: t

/-- `strings.TrimSpace` -/
def trimSpace (s : List Nat) : List Nat := trimRight (trimLeft s)

/-- `codeSeparatorRegexp.ReplaceAllString(code, "$1")` with
    `([\.\-\/ _\:])[^A-Za-z0-9]+`: a separator followed by a non-empty run of
    non-alphanumerics keeps only the separator.  `skipping` = inside such a run. -/
def collapse : Bool → List Nat → List Nat
  | _, [] => []
  | true, c :: rest => if isAlnum c then c :: collapse false rest else collapse true rest
  | false, c :: rest =>
    if isSep c then
      match rest with
      | d :: _ => if isAlnum d then c :: collapse false rest else c :: collapse true rest
      | [] => [c]
    else c :: collapse false rest

/-- `codeInvalidCharsRegexp.ReplaceAllString(code, "")` with `[^A-Za-z0-9\.\-\/ _\:]` -/
def dropInvalid (s : List Nat) : List Nat := s.filter fun c => isAlnum c || isSep c

/-- `cbc.NormalizeCode` (as of the fix "NormalizeCode is idempotent"): invalid characters are
    removed first, then separator runs are collapsed, then the result is trimmed. -/
def normalizeCode (s : List Nat) : List Nat := trimSpace (collapse false (dropInvalid s))

def text (cs : List Nat) : String := String.ofList (cs.map Char.ofNat)

end GoblVerif.Leaves
