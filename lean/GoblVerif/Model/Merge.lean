/-
  Merge: model of /repo/tax/totals.go as the code is NOW (after fixes 3aecd1a,
  51a93ed, 60732be, 1b8dc7e):

    Total.Clone, Total.Merge, Total.Negate, RateTotal.Matches, RateTotal.clone,
    Extensions.Equals, and Total.Calculate (calculateFinalSum,
    calculateBaseCategoryTotal, matchRoundingPrecision, round) as needed by
    DocumentRef.Calculate in the payment model.

  All arithmetic uses the *faithful* operations of Model/Num.lean
  (`Amount.add`, `sub`, `multiply`, `rescale` …, float detour included), so the
  driver predicts the Go result also for mixed precisions.  The theorems of
  Props/C20 are stated for summaries at one common precision (what
  `Total.Calculate` produces), where `add` is integer addition.

  A functional model has no pointers: `Clone` is the identity and "operands are
  not altered" is trivial here — the aliasing half of the property is checked on
  the real code by the harness.  `Merge` has no partial step left: since fix
  1b8dc7e a matched row without surcharge receives a copy of the second
  operand's (only exempt rows can match with a surcharge on one side only), so
  `Total.merge` is the result for every pair of summaries.  Core Lean only.
-/
import GoblVerif.Model.Num

namespace GoblVerif.Merge

/-- `tax.RateTotalSurcharge` -/
structure Surcharge where
  percent : Pct
  amount  : Amount
deriving DecidableEq, Repr, Inhabited

/-- `tax.RateTotal`; `ext` is the extension map as a key-sorted association list -/
structure RateTotal where
  key       : String
  country   : String
  ext       : List (String × String)
  base      : Amount
  percent   : Option Pct
  surcharge : Option Surcharge
  amount    : Amount
deriving DecidableEq, Repr, Inhabited

/-- `tax.CategoryTotal`; `amountP` is the unexported precise `amount` -/
structure CategoryTotal where
  code      : String
  retained  : Bool
  rates     : List RateTotal
  amount    : Amount
  surcharge : Option Amount
  amountP   : Amount
deriving DecidableEq, Repr, Inhabited

/-- `tax.Total`; `sumP` is the unexported precise `sum` -/
structure Total where
  categories : List CategoryTotal
  sum        : Amount
  sumP       : Amount
deriving DecidableEq, Repr, Inhabited

/-- `Extensions.Equals` on canonical (key-sorted, duplicate-free) association lists -/
def extEquals (a b : List (String × String)) : Bool := a == b

/-- `RateTotal.Matches`: same extensions, country, and either both exempt, or
    equal percentages and (no surcharges or equal surcharge percentages).  Keys are ignored. -/
def RateTotal.matches (rt rt2 : RateTotal) : Bool :=
  if extEquals rt.ext rt2.ext then
    if rt.country == rt2.country then
      match rt.percent, rt2.percent with
      | none, none => true
      | some p, some p2 =>
        if p.equals p2 then
          match rt.surcharge, rt2.surcharge with
          | none, none => true
          | some s, some s2 => s.percent.equals s2.percent
          | _, _ => false
        else false
      | _, _ => false
    else false
  else false

/-! ### Merge -/

/-- the "Merge the amounts" block for a matched rate: base and amount are added;
    the second row's surcharge amount is added to the matched row's, or — when the
    matched row has none — copied (percentage and amount) -/
def RateTotal.absorb (m rt : RateTotal) : RateTotal :=
  { m with
    base := m.base.add rt.base
    amount := m.amount.add rt.amount
    surcharge :=
      match rt.surcharge with
      | none => m.surcharge
      | some s2 =>
        match m.surcharge with
        | some s => some { s with amount := s.amount.add s2.amount }
        | none => some { percent := s2.percent, amount := s2.amount } }

/-- find the first matching rate and absorb, else append a clone -/
def mergeRate : List RateTotal → RateTotal → List RateTotal
  | [], rt => [rt]
  | m :: rest, rt => if m.matches rt then m.absorb rt :: rest else m :: mergeRate rest rt

def mergeRates (rs rts : List RateTotal) : List RateTotal := rts.foldl mergeRate rs

/-- the `else` branch of `Merge` for an existing category -/
def CategoryTotal.absorb (m ct : CategoryTotal) : CategoryTotal :=
  { m with
    amount := m.amount.add ct.amount
    surcharge :=
      match ct.surcharge with
      | none => m.surcharge
      | some ns => match m.surcharge with
        | some s => some (s.add ns)
        | none => some ns
    rates := mergeRates m.rates ct.rates }

def mergeCategory : List CategoryTotal → CategoryTotal → List CategoryTotal
  | [], ct => [ct]
  | m :: rest, ct => if m.code == ct.code then m.absorb ct :: rest else m :: mergeCategory rest ct

def mergeCategories (cs cts : List CategoryTotal) : List CategoryTotal := cts.foldl mergeCategory cs

/-- `Total.Clone` -/
def Total.clone (t : Total) : Total := t

/-- `Total.Merge` -/
def Total.merge (t t2 : Total) : Total :=
  { categories := mergeCategories t.clone.categories t2.categories
    sum := t.sum.add t2.sum
    sumP := t.sumP.add t2.sumP }

/-! ### Negate -/

def RateTotal.negate (rt : RateTotal) : RateTotal :=
  { rt with
    base := rt.base.negate
    amount := rt.amount.negate
    surcharge := rt.surcharge.map fun s => { s with amount := s.amount.negate } }

def CategoryTotal.negate (ct : CategoryTotal) : CategoryTotal :=
  { ct with
    amount := ct.amount.negate
    amountP := ct.amountP.negate
    surcharge := ct.surcharge.map Amount.negate
    rates := ct.rates.map RateTotal.negate }

/-- `Total.Negate` -/
def Total.negate (t : Total) : Total :=
  { categories := t.clone.categories.map CategoryTotal.negate
    sum := t.sum.negate
    sumP := t.sumP.negate }

/-! ### Calculate (rounding rule: `currency = true` is RoundingRuleCurrency) -/

/-- `matchRoundingPrecision` -/
def matchRoundingPrecision (currency : Bool) (a b : Amount) : Amount :=
  if currency then a else a.matchPrecision b

/-- state of the loop in `calculateBaseCategoryTotal`: (rates done, ct.Amount, ct.Surcharge) -/
def calcRate (currency : Bool) (zero : Amount) (st : List RateTotal × Amount × Option Amount) (rt : RateTotal) :
    List RateTotal × Amount × Option Amount :=
  let (done, ctAmount, ctSur) := st
  match rt.percent with
  | none => (done ++ [{ rt with amount := zero }], ctAmount, ctSur)
  | some pct =>
    let base := rt.base
    let amt := pct.of base
    let ctAmount := (matchRoundingPrecision currency ctAmount amt).add amt
    match rt.surcharge with
    | none => (done ++ [{ rt with amount := amt }], ctAmount, ctSur)
    | some s =>
      let a := s.percent.of base
      let x := ctSur.getD zero
      let x := (matchRoundingPrecision currency x a).add a
      (done ++ [{ rt with amount := amt, surcharge := some { s with amount := a } }], ctAmount, some x)

/-- `calculateBaseCategoryTotal` -/
def calcCategory (currency : Bool) (zero : Amount) (ct : CategoryTotal) : CategoryTotal :=
  let (rates, amount, sur) := ct.rates.foldl (calcRate currency zero) ([], zero, none)
  { ct with rates := rates, amount := amount, surcharge := sur }

/-- one step of the loop in `calculateFinalSum` -/
def calcSumStep (currency : Bool) (zero : Amount) (st : List CategoryTotal × Amount) (ct : CategoryTotal) :
    List CategoryTotal × Amount :=
  let (done, sum) := st
  let ct := calcCategory currency zero ct
  let sum := matchRoundingPrecision currency sum ct.amount
  let sum :=
    if ct.retained then
      let s := sum.sub ct.amount
      match ct.surcharge with | some x => s.sub x | none => s
    else
      let s := sum.add ct.amount
      match ct.surcharge with | some x => s.add x | none => s
  (done ++ [ct], sum)

def roundRate (e : Nat) (rt : RateTotal) : RateTotal :=
  { rt with
    amount := rt.amount.rescale e
    base := rt.base.rescale e
    surcharge := rt.surcharge.map fun s => { s with amount := s.amount.rescale e } }

def roundCategory (e : Nat) (ct : CategoryTotal) : CategoryTotal :=
  { ct with
    rates := ct.rates.map (roundRate e)
    amountP := ct.amount
    amount := ct.amount.rescale e
    surcharge := ct.surcharge.map (·.rescale e) }

/-- `Total.Calculate(cur, rr)` with `e` the currency's number of subunit digits -/
def Total.calculate (t : Total) (e : Nat) (currency : Bool) : Total :=
  let zero : Amount := ⟨0, e⟩
  let (cats, sum) := t.categories.foldl (calcSumStep currency zero) ([], zero)
  { categories := cats.map (roundCategory e), sumP := sum, sum := sum.rescale e }

end GoblVerif.Merge
