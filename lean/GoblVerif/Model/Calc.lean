/-
  Calc: executable model of the document calculation pipeline of /repo
  (bill/calculator.go `calculate`, bill/line_calculate.go, bill/discounts.go,
  bill/charges.go, bill/totals.go, bill/payment_details.go, pay/advance.go,
  pay/terms.go, currency/exchange_rate.go, tax/totals_calculator.go,
  tax/totals.go, tax/rounding_rules.go), one Lean function per Go function.
  DESIGN.md Appendix A is the reading of the code this file follows.

  The pipeline is parametric in the three *rounding* primitives of
  num.Amount (`Multiply`, `Divide`, `Rescale`): `exactOps` (integer rounding
  half away from zero) is what the theorems are about, `floatOps` is the
  faithful float64 model of Model/Num.lean.  Props/C05 proves that the two
  agree operation by operation inside the 2^52 magnitude domain; the driver
  evaluates both and answers `undef` where they differ (outside the domain).

  Tax combos arrive *prepared*: category, country, rate key, percent,
  surcharge, extensions and the retained flag are inputs (rate-key → percent
  resolution is C12's model).  Not modelled: substituted sub-lines (no effect
  on any total), complements, the customer-rates tag.

  Core Lean only.
-/
import GoblVerif.Model.Num

namespace GoblVerif.Calc

/-! ## arithmetic primitives -/

structure Ops where
  mul : Amount → Amount → Amount
  div : Amount → Amount → Amount
  rescale : Amount → Nat → Amount

def exactOps : Ops := ⟨Amount.mulX, Amount.divX, Amount.rescaleX⟩
def inI64 (i : Int) : Bool := -(2:Int)^63 ≤ i && i < (2:Int)^63

/-- outside `int64` (or a zero divisor) the Go code wraps around or converts an
    infinite float: the faithful layer answers with an impossible value so
    that it visibly differs from the exact layer -/
def guardI64 (xs : List Int) (r : Amount) : Amount :=
  if xs.all inI64 && inI64 r.value then r else ⟨(2:Int)^64, r.exp⟩

def floatOps : Ops :=
  ⟨fun a b => guardI64 [a.value, b.value] (a.multiply b),
   fun a b => if b.value == 0 then ⟨(2:Int)^64, a.exp⟩
              else guardI64 [a.value, b.value, a.value * pow10 b.exp] (a.divide b),
   fun a e => guardI64 [a.value] (a.rescale e)⟩

/-- `linePrecisionExtra` of bill/line_calculate.go and the `+ 2` of tax/totals_calculator.go `prepareLines` -/
def E : Nat := 2

/-- `RescaleUp`: never rounds (integer scaling) -/
def up (a : Amount) (e : Nat) : Amount :=
  if e > a.exp then ⟨a.value * pow10 (e - a.exp), e⟩ else a

section
variable (o : Ops)

/-- `RescaleDown` -/
def down (a : Amount) (e : Nat) : Amount := if e < a.exp then o.rescale a e else a

/-- `Add`: the argument is first brought to the receiver's exponent -/
def add (a b : Amount) : Amount := ⟨a.value + (o.rescale b a.exp).value, a.exp⟩
/-- `Subtract` -/
def sub (a b : Amount) : Amount := ⟨a.value - (o.rescale b a.exp).value, a.exp⟩

/-- `acc.MatchPrecision(x).Add(x)` -/
def accum (acc x : Amount) : Amount := add o (up acc x.exp) x

def neg (a : Amount) : Amount := ⟨-a.value, a.exp⟩

/-- `Percentage.Of` -/
def pctOf (p : Pct) (a : Amount) : Amount := o.mul a p.amount

/-- `Percentage.Factor`: 1 + p at p's precision (integer) -/
def factor (p : Pct) : Amount := ⟨p.amount.value + pow10 p.amount.exp, p.amount.exp⟩

/-- `Amount.Remove` -/
def remove (a : Amount) (p : Pct) : Amount := o.div a (factor p)

def pctIsZero (p : Pct) : Bool := p.amount.value == 0

/-- `Percentage.Equals` / `Amount.Equals`: comparison after scaling both up (exact) -/
def amtEq (a b : Amount) : Bool :=
  let e := if b.exp > a.exp then b.exp else a.exp
  (up a e).value == (up b e).value

inductive Rule | precise | currency | other
deriving DecidableEq, Repr, Inhabited

/-- `tax.ApplyRoundingRule` -/
def applyRule (r : Rule) (c : Nat) (a : Amount) : Amount :=
  match r with
  | .currency => o.rescale a c
  | _ => up a c

/-- `matchRoundingPrecision` -/
def mrp (r : Rule) (a b : Amount) : Amount :=
  match r with
  | .currency => a
  | _ => up a b.exp

/-! ## documents -/

structure Combo where
  cat : String
  country : String
  key : String
  percent : Option Pct
  surcharge : Option Pct
  ext : String            -- canonical text of the extension map (sorted k=v;…)
  retained : Bool
deriving Repr, Inhabited, DecidableEq

/-- a line-level discount or charge (`LineDiscount` / `LineCharge`; `rate`, `quantity` only occur on charges) -/
structure LineAdj where
  percent : Option Pct
  base : Option Amount
  amount : Amount
  rate : Option Amount
  quantity : Option Amount
deriving Repr, Inhabited, DecidableEq

structure Item where
  price : Option Amount
  cur : String                       -- "" when not set
  sub : Nat                          -- subunits of the item's currency (of the document's when `cur` is empty)
  alts : List (String × Amount)
deriving Repr, Inhabited, DecidableEq

structure SubLine where
  qty : Amount
  item : Option Item
  discounts : List LineAdj
  charges : List LineAdj
  sum : Option Amount := none
  total : Option Amount := none
deriving Repr, Inhabited, DecidableEq

structure Line where
  qty : Amount
  item : Option Item
  discounts : List LineAdj
  charges : List LineAdj
  breakdown : List SubLine
  taxes : List Combo
  sum : Option Amount := none
  total : Option Amount := none
deriving Repr, Inhabited, DecidableEq

/-- document-level discount or charge -/
structure DocAdj where
  percent : Option Pct
  base : Option Amount
  amount : Amount
  taxes : List Combo
deriving Repr, Inhabited, DecidableEq

structure XRate where
  «from» : String
  to : String
  toSub : Nat
  amount : Amount
deriving Repr, Inhabited, DecidableEq

structure Advance where
  percent : Option Pct
  amount : Amount
deriving Repr, Inhabited, DecidableEq

structure Due where
  percent : Option Pct
  amount : Amount
deriving Repr, Inhabited, DecidableEq

structure Doc where
  cur : String
  c : Nat                             -- subunits of the document currency
  rule : Rule
  includes : Option String            -- `tax.prices_include`
  lines : List Line
  discounts : List DocAdj
  charges : List DocAdj
  rates : List XRate
  rounding : Option Amount            -- externally supplied `totals.rounding`
  hasPayment : Bool
  advances : List Advance
  dues : List Due
deriving Repr, Inhabited

/-! ## tax summary -/

structure RateTotal where
  key : String
  country : String
  ext : String
  base : Amount
  percent : Option Pct
  surcharge : Option (Pct × Amount)
  amount : Amount
deriving Repr, Inhabited, DecidableEq

structure CatTotal where
  code : String
  retained : Bool
  rates : List RateTotal
  amount : Amount                     -- presented (rounded by `round`)
  surcharge : Option Amount
  precise : Amount                    -- the unexported `amount` kept with full precision
deriving Repr, Inhabited, DecidableEq

structure TaxTotal where
  cats : List CatTotal
  sum : Amount
  preciseSum : Amount
deriving Repr, Inhabited, DecidableEq

structure Totals where
  sum : Amount
  discount : Option Amount
  charge : Option Amount
  taxIncluded : Option Amount
  total : Amount
  taxes : Option TaxTotal
  tax : Amount
  totalWithTax : Amount
  rounding : Option Amount
  payable : Amount
  advances : Option Amount
  due : Option Amount
deriving Repr, Inhabited, DecidableEq

structure Out where
  lines : List Line
  discounts : List DocAdj
  charges : List DocAdj
  advances : List Advance
  dues : List Due
  totals : Option Totals
deriving Repr, Inhabited

inductive CalcErr | noExchangeRate | retainedIncluded
deriving Repr, DecidableEq, Inhabited

/-! ## item price (`calculateLineItemPrice`) -/

def findRate (rates : List XRate) (f t : String) : Option XRate :=
  rates.find? (fun r => r.from == f && r.to == t)

/-- `ExchangeRate.Convert` (as repaired by 6f2aa78): one rounding, by `Multiply`,
    at the destination currency's precision.  An amount finer than that hands
    its extra decimals to the rate (`MakeAmount(rate.Value(), rate.Exp()+extra)`,
    `MakeAmount(amount.Value(), exp)`), a coarser one is raised first
    (`RescaleUp`, integer scaling); there is no `Rescale` any more. -/
def convert (r : XRate) (a : Amount) : Amount :=
  let exp := r.toSub
  if a.exp > exp then
    let extra := a.exp - exp
    let rate : Amount := ⟨r.amount.value, r.amount.exp + extra⟩
    let amount : Amount := ⟨a.value, exp⟩
    o.mul (up amount exp) rate
  else
    o.mul (up a exp) r.amount

def itemPrice (cur : String) (c : Nat) (rates : List XRate) (it : Item) (price : Amount) :
    Except CalcErr Item :=
  let p := up price it.sub
  if it.cur == "" || it.cur == cur then
    .ok { it with price := some p }
  else
    let nap : String × Amount := (it.cur, p)
    match it.alts.find? (fun ap => ap.1 == cur) with
    | some ap => .ok { it with cur := cur, sub := c, price := some (up ap.2 c), alts := [nap] }
    | none =>
      match findRate rates it.cur cur with
      | some r => .ok { it with cur := cur, sub := c, price := some (convert o r p), alts := [nap] }
      | none => .error .noExchangeRate

/-! ## line discounts and charges -/

/-- the percentage part shared by `calculateLineDiscounts` and `calculateLineCharges` -/
def adjPct (r : Rule) (c : Nat) (sum : Amount) (d : LineAdj) : LineAdj :=
  match d.percent with
  | some p =>
    if pctIsZero p then d else
    match d.base with
    | some b =>
      let b' := up b c
      { d with base := some b', amount := pctOf o p (applyRule o r c (up b' (c + E))) }
    | none => { d with amount := pctOf o p sum }
  | none => d

/-- charges also support a rate and quantity, which override the percentage -/
def adjRate (qty : Amount) (d : LineAdj) : LineAdj :=
  match d.rate with
  | some rt => { d with amount := o.mul rt (d.quantity.getD qty) }
  | none => d

/-- `cd.RescaleUp(d.Amount)` -/
def adjUp (c : Nat) (d : LineAdj) : LineAdj := { d with amount := up d.amount c }

/-- one step of `calculateLineDiscounts`: the updated row and the new running total -/
def lineDiscountStep (r : Rule) (c : Nat) (sum : Amount) (total : Amount) (d : LineAdj) : LineAdj × Amount :=
  let d2 := adjUp c (adjPct o r c sum d)
  (d2, sub o total d2.amount)

def lineDiscounts (r : Rule) (c : Nat) (sum : Amount) : List LineAdj → Amount → List LineAdj × Amount
  | [], total => ([], total)
  | d :: ds, total =>
    let (d', t') := lineDiscountStep o r c sum total d
    let (ds', t'') := lineDiscounts r c sum ds t'
    (d' :: ds', t'')

def lineChargeStep (r : Rule) (c : Nat) (qty sum : Amount) (total : Amount) (d : LineAdj) : LineAdj × Amount :=
  let d3 := adjUp c (adjRate o qty (adjPct o r c sum d))
  (d3, add o total d3.amount)

def lineCharges (r : Rule) (c : Nat) (qty sum : Amount) : List LineAdj → Amount → List LineAdj × Amount
  | [], total => ([], total)
  | d :: ds, total =>
    let (d', t') := lineChargeStep o r c qty sum total d
    let (ds', t'') := lineCharges r c qty sum ds t'
    (d' :: ds', t'')

/-! ## sub-lines and lines -/

def calcSubLine (cur : String) (c : Nat) (rates : List XRate) (r : Rule) (sl : SubLine) : Except CalcErr SubLine :=
  match sl.item with
  | none => .ok sl
  | some it =>
    match it.price with
    | none => .ok { sl with sum := none, total := none }
    | some p0 =>
      match itemPrice o cur c rates it p0 with
      | .error e => .error e
      | .ok it' =>
        let p := it'.price.getD p0
        let price := if r == .precise then up p (c + E) else p
        let sum := applyRule o r c (o.mul price sl.qty)
        let (ds, t1) := lineDiscounts o r c sum sl.discounts sum
        let (cs, t2) := lineCharges o r c sl.qty sum sl.charges t1
        .ok { sl with item := some it', discounts := ds, charges := cs, sum := some sum, total := some t2 }

def calcSubLines (cur : String) (c : Nat) (rates : List XRate) (r : Rule) : List SubLine → Except CalcErr (List SubLine)
  | [] => .ok []
  | sl :: sls =>
    match calcSubLine o cur c rates r sl with
    | .error e => .error e
    | .ok sl' =>
      match calcSubLines cur c rates r sls with
      | .error e => .error e
      | .ok sls' => .ok (sl' :: sls')

/-- `determineSubLinePrecision` -/
def subLinePrecision (sls : List SubLine) : Nat :=
  sls.foldl (fun e sl =>
    match sl.item with
    | some it => match it.price with
      | some p => if p.exp > e then p.exp else e
      | none => e
    | none => e) 0

def calcLine (cur : String) (c : Nat) (rates : List XRate) (r : Rule) (l : Line) : Except CalcErr Line :=
  match l.item with
  | none => .ok l
  | some it0 =>
    match calcSubLines o cur c rates r l.breakdown with
    | .error e => .error e
    | .ok bd =>
      let totals := bd.filterMap (·.total)
      let it1 : Item :=
        if l.breakdown.isEmpty || totals.isEmpty then it0 else
        let np := totals.foldl (accum o) ⟨0, c⟩
        { it0 with cur := cur, sub := c, price := some (o.rescale np (subLinePrecision bd)), alts := [] }
      match it1.price with
      | none => .ok { l with item := some { it1 with alts := [] }, breakdown := bd, sum := none, total := none }
      | some p0 =>
        match itemPrice o cur c rates it1 p0 with
        | .error e => .error e
        | .ok it2 =>
          let p := it2.price.getD p0
          let exp := if r == .precise then c + E else c
          let price := up p exp
          let sum := applyRule o r c (o.mul price l.qty)
          let (ds, t1) := lineDiscounts o r c sum l.discounts sum
          let (cs, t2) := lineCharges o r c l.qty sum l.charges t1
          .ok { l with item := some it2, breakdown := bd, discounts := ds, charges := cs,
                       sum := some sum, total := some t2 }

def calcLines (cur : String) (c : Nat) (rates : List XRate) (r : Rule) : List Line → Except CalcErr (List Line)
  | [] => .ok []
  | l :: ls =>
    match calcLine o cur c rates r l with
    | .error e => .error e
    | .ok l' =>
      match calcLines cur c rates r ls with
      | .error e => .error e
      | .ok ls' => .ok (l' :: ls')

/-- `calculateLineSum` -/
def lineSum (c : Nat) (ls : List Line) : Amount :=
  (ls.filterMap (·.total)).foldl (accum o) ⟨0, c⟩

/-! ## document discounts / charges -/

def docAdj (r : Rule) (c : Nat) (sum : Amount) (d : DocAdj) : DocAdj :=
  let d1 : DocAdj :=
    match d.percent with
    | some p =>
      if pctIsZero p then d else
      match d.base with
      | some b => { d with amount := pctOf o p (applyRule o r c (up b (c + E))) }
      | none => { d with amount := pctOf o p sum }
    | none => d
  { d1 with amount := applyRule o r c d1.amount }

def adjSum (c : Nat) (ds : List DocAdj) : Option Amount :=
  if ds.isEmpty then none else some ((ds.map (·.amount)).foldl (accum o) ⟨0, c⟩)

/-! ## taxes (`tax.TotalCalculator`, `tax.Total`) -/

structure Row where
  total : Amount
  taxes : List Combo
deriving Repr, Inhabited

def pctEq (p q : Pct) : Bool := amtEq p.amount q.amount

/-- `RateTotal.matches` -/
def rtMatches (rt : RateTotal) (cb : Combo) : Bool :=
  if rt.ext != cb.ext then false
  else if rt.country != cb.country then false
  else match rt.percent, cb.percent with
    | none, none => true
    | none, some _ => false
    | some _, none => false
    | some p, some q =>
      (match rt.surcharge, cb.surcharge with
        | none, none => true
        | some (sp, _), some sq => pctEq sp sq
        | _, _ => false) && pctEq p q

def newRate (c : Nat) (cb : Combo) : RateTotal :=
  { key := cb.key, country := cb.country, ext := cb.ext, base := ⟨0, c⟩, percent := cb.percent,
    surcharge := cb.surcharge.map (fun s => (s, ⟨0, c⟩)), amount := ⟨0, c⟩ }

/-- add `t` to the base of the matching rate group, creating it at the end when absent -/
def addToRates (r : Rule) (c : Nat) (cb : Combo) (t : Amount) : List RateTotal → List RateTotal
  | [] => let rt := newRate c cb; [{ rt with base := add o (mrp r rt.base t) t }]
  | rt :: rts =>
    if rtMatches rt cb then { rt with base := add o (mrp r rt.base t) t } :: rts
    else rt :: addToRates r c cb t rts

/-- `rateTotalFor` + base accumulation -/
def addToCats (r : Rule) (c : Nat) (cb : Combo) (t : Amount) : List CatTotal → List CatTotal
  | [] => [{ code := cb.cat, retained := cb.retained, rates := addToRates o r c cb t [],
             amount := ⟨0, c⟩, surcharge := none, precise := ⟨0, c⟩ }]
  | ct :: cts =>
    if ct.code == cb.cat then { ct with rates := addToRates o r c cb t ct.rates } :: cts
    else ct :: addToCats r c cb t cts

/-- `prepareLines`: rows that carry at least one combo get two extra decimals -/
def prepareRow (c : Nat) (rw : Row) : Row :=
  if rw.taxes.isEmpty then rw else { rw with total := up rw.total (c + E) }

/-- `removeIncludedTaxes` for one row -/
def removeIncludedRow (k : String) (rw : Row) : Except CalcErr Row :=
  match rw.taxes.find? (fun cb => cb.cat == k) with
  | none => .ok rw
  | some cb =>
    if cb.retained then .error .retainedIncluded
    else match cb.percent with
      | none => .ok rw
      | some p => .ok { rw with total := remove o rw.total p }

def removeIncluded (k : String) : List Row → Except CalcErr (List Row)
  | [] => .ok []
  | rw :: rws =>
    match removeIncludedRow o k rw with
    | .error e => .error e
    | .ok rw' =>
      match removeIncluded k rws with
      | .error e => .error e
      | .ok rws' => .ok (rw' :: rws')

/-- `calculateBaseRateTotals` -/
def baseRateTotals (r : Rule) (c : Nat) (rows : List Row) : List CatTotal :=
  rows.foldl (fun cats rw => rw.taxes.foldl (fun cats cb => addToCats o r c cb rw.total cats) cats) []

/-- rate part of `calculateBaseCategoryTotal` -/
def rateAmounts (rt : RateTotal) (c : Nat) : RateTotal :=
  match rt.percent with
  | none => { rt with amount := ⟨0, c⟩ }
  | some p =>
    { rt with amount := pctOf o p rt.base,
              surcharge := rt.surcharge.map (fun (sp, _) => (sp, pctOf o sp rt.base)) }

/-- `calculateBaseCategoryTotal` -/
def catAmounts (r : Rule) (c : Nat) (ct : CatTotal) : CatTotal :=
  let rates := ct.rates.map (rateAmounts o · c)
  let amount := rates.foldl (fun a rt =>
      match rt.percent with
      | none => a
      | some _ => add o (mrp r a rt.amount) rt.amount) ⟨0, c⟩
  let surcharge := rates.foldl (fun (s : Option Amount) rt =>
      match rt.percent, rt.surcharge with
      | some _, some (_, sa) =>
        let x := s.getD ⟨0, c⟩
        some (add o (mrp r x sa) sa)
      | _, _ => s) none
  { ct with rates := rates, amount := amount, surcharge := surcharge }

/-- `calculateFinalSum` -/
def finalSum (r : Rule) (c : Nat) (cats : List CatTotal) : Amount :=
  cats.foldl (fun s ct =>
    let s1 := mrp r s ct.amount
    if ct.retained then
      let s2 := sub o s1 ct.amount
      match ct.surcharge with | some x => sub o s2 x | none => s2
    else
      let s2 := add o s1 ct.amount
      match ct.surcharge with | some x => add o s2 x | none => s2) ⟨0, c⟩

/-- `Total.round` -/
def roundTax (c : Nat) (cats : List CatTotal) (sum : Amount) : TaxTotal :=
  { cats := cats.map (fun ct =>
      { ct with
        rates := ct.rates.map (fun rt =>
          { rt with amount := o.rescale rt.amount c, base := o.rescale rt.base c,
                    surcharge := rt.surcharge.map (fun (sp, sa) => (sp, o.rescale sa c)) }),
        precise := ct.amount,
        amount := o.rescale ct.amount c,
        surcharge := ct.surcharge.map (o.rescale · c) }),
    preciseSum := sum,
    sum := o.rescale sum c }

/-- `TotalCalculator.Calculate` -/
def taxTotal (r : Rule) (c : Nat) (includes : Option String) (rows : List Row) : Except CalcErr TaxTotal :=
  let rows1 := rows.map (prepareRow c)
  let rows2 : Except CalcErr (List Row) :=
    match includes with
    | none => .ok rows1
    | some k => removeIncluded o k rows1
  match rows2 with
  | .error e => .error e
  | .ok rows3 =>
    let cats := (baseRateTotals o r c rows3).map (catAmounts o r c)
    .ok (roundTax o c cats (finalSum o r c cats))

/-- `CategoryTotal.PreciseAmount` -/
def CatTotal.preciseAmount (ct : CatTotal) : Amount := if ct.precise.value != 0 then ct.precise else ct.amount
/-- `Total.PreciseSum` -/
def TaxTotal.precise (t : TaxTotal) : Amount := if t.preciseSum.value != 0 then t.preciseSum else t.sum

/-! ## payment details -/

/-- `calculateAdvances` -/
def calcAdvance (c : Nat) (twt : Amount) (a : Advance) : Advance :=
  let a1 := match a.percent with
    | some p => { a with amount := pctOf o p twt }
    | none => a
  { a1 with amount := up a1.amount c }

/-- `Terms.CalculateDues` -/
def calcDue (c : Nat) (payable : Amount) (d : Due) : Due :=
  let d1 := match d.percent with
    | some p => if pctIsZero p then d else { d with amount := pctOf o p payable }
    | none => d
  { d1 with amount := o.rescale d1.amount c }

/-! ## presentation rounding -/

def roundAdj (e : Nat) (d : LineAdj) : LineAdj := { d with amount := down o d.amount e }

def roundSubLine (e : Nat) (sl : SubLine) : SubLine :=
  { sl with sum := sl.sum.map (down o · e), total := sl.total.map (down o · e) }

/-- `Line.round` -/
def roundLine (l : Line) : Line :=
  match l.item with
  | none => l
  | some it =>
    match it.price with
    | none => l
    | some p =>
      let e := p.exp
      { l with sum := l.sum.map (down o · e), total := l.total.map (down o · e),
               discounts := l.discounts.map (roundAdj o e), charges := l.charges.map (roundAdj o e),
               breakdown := l.breakdown.map (roundSubLine o e) }

/-- `Discount.round` / `Charge.round` -/
def roundDocAdj (c : Nat) (d : DocAdj) : DocAdj :=
  let e := match d.base with | some b => if b.exp > c then b.exp else c | none => c
  { d with amount := down o d.amount e }

/-- `Totals.round` -/
def roundTotals (c : Nat) (t : Totals) : Totals :=
  { t with sum := o.rescale t.sum c, discount := t.discount.map (o.rescale · c),
           charge := t.charge.map (o.rescale · c), taxIncluded := t.taxIncluded.map (o.rescale · c),
           total := o.rescale t.total c, tax := o.rescale t.tax c,
           totalWithTax := o.rescale t.totalWithTax c, payable := o.rescale t.payable c,
           advances := t.advances.map (o.rescale · c), due := t.due.map (o.rescale · c) }

/-! ## `Invoice.Invert` (the sign change it applies before recalculating) -/

/-- amount, explicit base and a charge's own quantity change sign -/
def invertAdj (d : LineAdj) : LineAdj :=
  { d with amount := neg d.amount, base := d.base.map neg, quantity := d.quantity.map neg }

def invertLine (l : Line) : Line :=
  { l with qty := neg l.qty, discounts := l.discounts.map invertAdj, charges := l.charges.map invertAdj }

def invertDocAdj (d : DocAdj) : DocAdj := { d with amount := neg d.amount, base := d.base.map neg }

def invertAdvance (a : Advance) : Advance := { a with amount := neg a.amount }

/-- the document `Invert` recalculates (an externally supplied `totals.rounding` is inverted like every
other amount: /repo d6d7c00; before that it was dropped with the totals and `Invert` failed its own check) -/
def invertDoc (d : Doc) : Doc :=
  { d with lines := d.lines.map invertLine, discounts := d.discounts.map invertDocAdj,
           charges := d.charges.map invertDocAdj, advances := d.advances.map invertAdvance,
           rounding := d.rounding.map neg }

/-- a calculated line with every figure negated -/
def negLineOut (l : Line) : Line :=
  { invertLine l with sum := l.sum.map neg, total := l.total.map neg }

/-! ## the whole calculation (`bill.calculate`) -/

/-- everything `calculate` knows before the tax summary is built -/
structure Pre where
  lines : List Line
  sum : Amount
  discounts : List DocAdj
  charges : List DocAdj
  dsum : Option Amount
  csum : Option Amount
  total2 : Amount              -- sum − discounts + charges
  rows : List Row
deriving Repr, Inhabited

def taxRows (lines : List Line) (discounts charges : List DocAdj) : List Row :=
  (lines.filterMap (fun l => l.total.map (fun t => ({ total := t, taxes := l.taxes } : Row))))
  ++ discounts.map (fun x => { total := neg x.amount, taxes := x.taxes })
  ++ charges.map (fun x => { total := x.amount, taxes := x.taxes })

def pre (d : Doc) : Except CalcErr Pre :=
  match calcLines o d.cur d.c d.rates d.rule d.lines with
  | .error e => .error e
  | .ok lines =>
    let sum := lineSum o d.c lines
    let discounts := d.discounts.map (docAdj o d.rule d.c sum)
    let charges := d.charges.map (docAdj o d.rule d.c sum)
    let dsum := adjSum o d.c discounts
    let csum := adjSum o d.c charges
    let total1 := match dsum with | some x => sub o sum x | none => sum
    let total2 := match csum with | some x => add o total1 x | none => total1
    .ok { lines, sum, discounts, charges, dsum, csum, total2, rows := taxRows lines discounts charges }

/-- `tax_included`: the unrounded amount of the included category -/
def taxIncluded (includes : Option String) (tx : TaxTotal) : Option Amount :=
  match includes with
  | none => none
  | some k => (tx.cats.find? (fun ct => ct.code == k)).map CatTotal.preciseAmount

/-- `totalAdvance` (before the stored amounts are rounded) -/
def advanceTotal (c : Nat) (advs : List Advance) : Option Amount :=
  if advs.isEmpty then none else some ((advs.map (·.amount)).foldl (accum o) ⟨0, c⟩)

/-- the totals before presentation rounding -/
def rawTotals (d : Doc) (p : Pre) (tx : TaxTotal) : Totals :=
  let ti := taxIncluded d.includes tx
  let total3 := match ti with | some x => sub o p.total2 x | none => p.total2
  let tax := tx.precise
  let twt := add o total3 tax
  let payable := match d.rounding with | some x => add o twt x | none => twt
  let advTotal : Option Amount :=
    if d.hasPayment then advanceTotal o d.c (d.advances.map (calcAdvance o d.c twt)) else none
  { sum := p.sum, discount := p.dsum, charge := p.csum, taxIncluded := ti, total := total3,
    taxes := if tx.cats.isEmpty then none else some tx, tax := tax, totalWithTax := twt,
    rounding := d.rounding, payable := payable, advances := advTotal,
    due := advTotal.map (fun x => sub o payable x) }

def finish (d : Doc) (p : Pre) (tx : TaxTotal) : Out :=
  let t := rawTotals o d p tx
  let advs := if d.hasPayment then
      (d.advances.map (calcAdvance o d.c t.totalWithTax)).map (fun a => { a with amount := o.rescale a.amount d.c })
    else d.advances
  let dues := if d.hasPayment then d.dues.map (calcDue o d.c t.payable) else d.dues
  { lines := p.lines.map (roundLine o), discounts := p.discounts.map (roundDocAdj o d.c),
    charges := p.charges.map (roundDocAdj o d.c), advances := advs, dues := dues,
    totals := some (roundTotals o d.c t) }

def calculate (d : Doc) : Except CalcErr Out :=
  match pre o d with
  | .error e => .error e
  | .ok p =>
    if p.rows.isEmpty then
      .ok { lines := p.lines, discounts := p.discounts, charges := p.charges,
            advances := d.advances, dues := d.dues, totals := none }
    else
    match taxTotal o d.rule d.c d.includes p.rows with
    | .error e => .error e
    | .ok tx => .ok (finish o d p tx)

end

end GoblVerif.Calc
