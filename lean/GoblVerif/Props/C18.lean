/-
  C18 — validated documents only reference defined codes, keys and rates.
  PARTIAL: only the generic reference rules of Model/Refs.lean are covered
  (tax combo category / rate / country override, Extensions.Validate, tags,
  addons, currency and country codes).  The ~35 regime and addon validators
  (addon-specific extension requirements etc.) are exercised by the harness,
  not modelled.

  Each theorem has the shape  validateX defs x = true → resolvesX defs x,
  for ANY definitions `defs` and any pattern matcher `pm`.
  `combo_sound` needs the hypothesis that the regime applying to the combo is
  defined; `combo_unchecked_without_regime` states
  what the code does without it (the known findings of this property).
-/
import GoblVerif.Spec.C18
import GoblVerif.Generated.Defs

namespace GoblVerif.Props.C18
open GoblVerif.Refs GoblVerif.Spec.C18

/-! ## lookups -/

theorem regimeFor_some (d : Defs) (code : String) (r : Regime) (h : d.regimeFor code = some r) :
    r ∈ d.liveRegimes ∧ (r.country = code ∨ code ∈ r.alt) := by
  unfold Defs.regimeFor at h
  have hm := List.mem_of_find?_eq_some h
  have hp := List.find?_some h
  refine ⟨hm, ?_⟩
  simp only [Bool.or_eq_true, beq_iff_eq, List.any_eq_true] at hp
  rcases hp with hp | ⟨x, hx, hxe⟩
  · exact Or.inl hp
  · right; rw [← hxe]; exact hx

theorem regimeResolvesB_iff (d : Defs) (code : String) :
    regimeResolvesB d code = true ↔ regimeResolves d code := by
  unfold regimeResolvesB regimeResolves
  constructor
  · intro h
    cases hr : d.regimeFor code with
    | none => rw [hr] at h; cases h
    | some r => exact ⟨r, (regimeFor_some d code r hr).1, (regimeFor_some d code r hr).2⟩
  · rintro ⟨r, hr, hc⟩
    unfold Defs.regimeFor
    rw [List.find?_isSome]
    refine ⟨r, hr, ?_⟩
    simp only [Bool.or_eq_true, beq_iff_eq, List.any_eq_true]
    rcases hc with hc | hc
    · exact Or.inl hc
    · exact Or.inr ⟨code, hc, rfl⟩

theorem addonResolvesB_iff (d : Defs) (key : String) :
    addonResolvesB d key = true ↔ addonResolves d key := by
  unfold addonResolvesB addonResolves Defs.addonFor
  rw [List.find?_isSome]
  constructor
  · rintro ⟨a, ha, hk⟩; exact ⟨a, ha, by simpa using hk⟩
  · rintro ⟨a, ha, hk⟩; exact ⟨a, ha, by simpa using hk⟩

theorem extPairResolvesB_iff (d : Defs) (pm : PatternMatch) (kv : String × String) :
    extPairResolvesB d pm kv = true ↔ extPairResolves d pm kv := by
  unfold extPairResolvesB extPairResolves
  rw [List.any_eq_true]
  constructor
  · rintro ⟨kd, hkd, h⟩
    simp only [Bool.and_eq_true, Bool.or_eq_true, beq_iff_eq, List.isEmpty_iff, List.contains_eq_mem,
      decide_eq_true_eq] at h
    exact ⟨kd, hkd, h.1.1, h.1.2, h.2⟩
  · rintro ⟨kd, hkd, h1, h2, h3⟩
    refine ⟨kd, hkd, ?_⟩
    simp only [Bool.and_eq_true, Bool.or_eq_true, beq_iff_eq, List.isEmpty_iff, List.contains_eq_mem,
      decide_eq_true_eq]
    exact ⟨⟨h1, h2⟩, h3⟩

theorem tagResolvesB_iff (docRegime : Option Regime) (addons : List Addon) (schema tag : String) :
    tagResolvesB docRegime addons schema tag = true ↔ tagResolves docRegime addons schema tag := by
  unfold tagResolvesB tagResolves
  rw [Bool.or_eq_true]
  apply or_congr
  · cases docRegime with
    | none => simp
    | some r =>
      simp only [List.any_eq_true, Bool.and_eq_true, beq_iff_eq, List.contains_eq_mem, decide_eq_true_eq,
        Option.some.injEq]
      constructor
      · rintro ⟨ts, hts, h⟩; exact ⟨r, rfl, ts, hts, h⟩
      · rintro ⟨r', rfl, ts, hts, h⟩; exact ⟨ts, hts, h⟩
  · simp only [List.any_eq_true, Bool.and_eq_true, beq_iff_eq, List.contains_eq_mem, decide_eq_true_eq]

/-! ## soundness of the generic rules -/

/-- **extensions**: `Extensions.Validate` accepts only pairs whose key some regime,
    addon or catalogue defines and whose value is allowed / matches the pattern -/
theorem ext_sound (d : Defs) (pm : PatternMatch) (ext : List (String × String))
    (h : validateExt d pm ext = true) : extResolves d pm ext := by
  unfold validateExt at h
  rw [List.all_eq_true] at h
  intro kv hkv
  have := h kv hkv
  unfold validateExtPair at this
  cases hd : d.extDef kv.1 with
  | none => rw [hd] at this; cases this
  | some kd =>
    rw [hd] at this
    unfold Defs.extDef at hd
    have hm := List.mem_of_find?_eq_some hd
    have hk := List.find?_some hd
    simp only [Bool.and_eq_true, Bool.or_eq_true, beq_iff_eq, List.isEmpty_iff, List.contains_eq_mem,
      decide_eq_true_eq] at this hk
    exact ⟨kd, hm, hk, this.1, this.2⟩

/-- **tax combos**: when the regime that applies to the combo (country override,
    else the document's) is defined, an accepted combo's category belongs to it,
    its rate key names one of the category's rates, and its extensions resolve -/
theorem combo_sound (d : Defs) (pm : PatternMatch) (docCode : String) (c : Combo)
    (h : validateCombo d pm (d.regimeFor docCode) c = true)
    (hr : (comboRegime d (d.regimeFor docCode) c).isSome = true) :
    comboResolves d docCode c ∧ extResolves d pm c.ext := by
  unfold validateCombo at h
  simp only [Bool.and_eq_true] at h
  obtain ⟨⟨⟨_, hcat⟩, hrate⟩, hext⟩ := h
  refine ⟨?_, ext_sound d pm c.ext hext⟩
  have hreg : comboRegime d (d.regimeFor docCode) c = d.regimeFor (if c.country = "" then docCode else c.country) := by
    unfold comboRegime
    by_cases hc : c.country = ""
    · simp [hc]
    · simp [hc]
  rw [hreg] at hr hcat hrate
  cases hrr : d.regimeFor (if c.country = "" then docCode else c.country) with
  | none => rw [hrr] at hr; cases hr
  | some r =>
    rw [hrr] at hcat hrate
    have hmem := regimeFor_some d _ r hrr
    unfold inCategories at hcat
    unfold inCategoryRates at hrate
    simp only at hcat hrate
    cases hcd : r.category c.category with
    | none =>
      exfalso
      unfold Regime.category at hcd
      rw [List.find?_eq_none] at hcd
      rw [List.any_eq_true] at hcat
      obtain ⟨x, hx, hxe⟩ := hcat
      exact hcd x hx hxe
    | some cat =>
      rw [hcd] at hrate
      unfold Regime.category at hcd
      have hcm := List.mem_of_find?_eq_some hcd
      have hce := List.find?_some hcd
      refine ⟨r, ⟨hmem.1, hmem.2⟩, cat, hcm, by simpa using hce, ?_⟩
      simp only [Bool.or_eq_true, beq_iff_eq, List.any_eq_true] at hrate
      rcases hrate with h0 | ⟨k, hk, hkh⟩
      · exact Or.inl h0
      · right
        unfold Category.rateKeys at hk
        rw [List.mem_map] at hk
        obtain ⟨rt, hrt, rfl⟩ := hk
        exact ⟨rt, hrt, hkh⟩

/-- **known finding, as a theorem about the code's rules**: with no regime
    definition (`$regime` undefined and no country override) EVERY non-empty
    category code passes the combo rules -/
theorem combo_unchecked_without_regime (d : Defs) (pm : PatternMatch) (cat : String) (hc : cat ≠ "") :
    validateCombo d pm none { category := cat, country := "", rate := "", ext := [] } = true := by
  unfold validateCombo comboRegime inCategories inCategoryRates validateExt
  simp [hc]

/-- **regime_sound**: an accepted `$regime` is empty or names a defined regime -/
theorem regime_sound (d : Defs) (code : String) (h : validateRegime d code = true) :
    code = "" ∨ (d.regimeFor code).isSome = true := by
  unfold validateRegime at h
  simpa using h

/-- **tags**: an accepted tag is offered, for that document type, by the document's
    regime or by one of the addons in use -/
theorem tags_sound (docRegime : Option Regime) (addons : List Addon) (schema : String) (tags : List String)
    (h : validateTags docRegime addons schema tags = true) :
    ∀ t ∈ tags, tagResolves docRegime addons schema t := by
  unfold validateTags at h
  rw [List.all_eq_true] at h
  intro t ht
  have := h t ht
  simp only [List.contains_eq_mem, decide_eq_true_eq] at this
  unfold supportedTags at this
  rw [List.mem_append] at this
  unfold tagResolves
  rcases this with h1 | h2
  · left
    cases docRegime with
    | none => simp at h1
    | some r =>
      refine ⟨r, rfl, ?_⟩
      unfold tagKeysFor at h1
      simp only [List.mem_flatMap, List.mem_filter, beq_iff_eq] at h1
      obtain ⟨ts, ⟨hts, hs⟩, hk⟩ := h1
      exact ⟨ts, hts, hs, hk⟩
  · right
    simp only [List.mem_flatMap] at h2
    obtain ⟨a, ha, hk⟩ := h2
    unfold tagKeysFor at hk
    simp only [List.mem_flatMap, List.mem_filter, beq_iff_eq] at hk
    obtain ⟨ts, ⟨hts, hs⟩, hk⟩ := hk
    exact ⟨a, ha, ts, hts, hs, hk⟩

/-- **addons**: every accepted addon key is a published addon -/
theorem addons_sound (d : Defs) (keys : List String) (h : validateAddons d keys = true) :
    ∀ k ∈ keys, addonResolves d k := by
  unfold validateAddons at h
  rw [List.all_eq_true] at h
  intro k hk
  exact (addonResolvesB_iff d k).mp (h k hk)

/-- **codes**: accepted currency and country codes are known codes -/
theorem codes_sound (d : Defs) (currencies countries : List String)
    (h : validateCodes d currencies countries = true) :
    (∀ c ∈ currencies, currencyResolves d c) ∧ (∀ c ∈ countries, countryResolves d c) := by
  unfold validateCodes at h
  simp only [Bool.and_eq_true, List.all_eq_true, List.contains_eq_mem, decide_eq_true_eq] at h
  exact ⟨fun c hc => h.1 c hc, fun c hc => h.2 c hc⟩

/-- the executable combo check used by the driver is sound for the relation -/
theorem comboResolvesB_sound (d : Defs) (docCode : String) (c : Combo)
    (h : comboResolvesB d docCode c = true) : comboResolves d docCode c := by
  unfold comboResolvesB at h
  have e : (if (c.country == "") = true then docCode else c.country) = (if c.country = "" then docCode else c.country) := by
    by_cases hc : c.country = "" <;> simp [hc]
  rw [e] at h
  cases hrr : d.regimeFor (if c.country = "" then docCode else c.country) with
  | none => rw [hrr] at h; cases h
  | some r =>
    rw [hrr] at h
    simp only at h
    have hmem := regimeFor_some d _ r hrr
    cases hcd : r.category c.category with
    | none => rw [hcd] at h; cases h
    | some cat =>
      rw [hcd] at h
      simp only at h
      unfold Regime.category at hcd
      have hcm := List.mem_of_find?_eq_some hcd
      have hce := List.find?_some hcd
      refine ⟨r, ⟨hmem.1, hmem.2⟩, cat, hcm, by simpa using hce, ?_⟩
      simp only [Bool.or_eq_true, beq_iff_eq, List.any_eq_true] at h
      rcases h with h0 | ⟨k, hk, hkh⟩
      · exact Or.inl h0
      · right
        unfold Category.rateKeys at hk
        rw [List.mem_map] at hk
        obtain ⟨rt, hrt, rfl⟩ := hk
        exact ⟨rt, hrt, hkh⟩

/-! ## non-vacuity and the findings on the published data -/
namespace Expect
open GoblVerif.Generated.Defs

/-- the hypotheses of `combo_sound` are satisfiable on the published definitions -/
example : validateCombo defs (fun _ _ => true) (defs.regimeFor "ES") ⟨"VAT", "", "standard+eqs", []⟩ = true ∧
    (comboRegime defs (defs.regimeFor "ES") ⟨"VAT", "", "standard+eqs", []⟩).isSome = true := by decide +kernel

/-- per-combo country override: a PT category on an ES document resolves in PT -/
example : comboResolvesB defs "ES" ⟨"VAT", "PT", "reduced", []⟩ = true := by decide +kernel
example : comboResolvesB defs "ES" ⟨"IGIC", "PT", "", []⟩ = false := by decide +kernel

/-- "ZZ" is not a published regime and is rejected as a document `$regime`; a combo
    evaluated without any regime (possible through a country override naming an undefined
    regime) still accepts any category: `combo_unchecked_without_regime` -/
theorem undefined_regime_is_rejected :
    (defs.regimeFor "ZZ").isNone = true ∧ validateRegime defs "ZZ" = false ∧
    validateCombo defs (fun _ _ => true) (defs.regimeFor "ZZ") ⟨"ZZT", "", "", []⟩ = true := by decide +kernel

/-- every published extension key has at most one definition, so the registry
    lookup of the model (first match) and of the code (map) agree -/
theorem extension_registry_is_a_map :
    ((defs.allExtDefs.map (·.key)).eraseDups.length == defs.allExtDefs.length) = true := by decide +kernel

/-- no two published (live) regimes answer for the same country code -/
theorem regime_codes_disjoint :
    (((defs.liveRegimes.flatMap fun r => r.country :: r.alt).eraseDups.length) ==
      (defs.liveRegimes.flatMap fun r => r.country :: r.alt).length) = true := by decide +kernel

end Expect

end GoblVerif.Props.C18
