/-
  C18 — validated documents only reference defined codes, keys and rates.
  PARTIAL: only the generic reference rules of Model/Refs.lean are covered
  (tax combo category / rate / country override, Extensions.Validate — also for
  the rates of stored tax summaries —, tags (the rule is applied by bill.Invoice
  only), `tax.prices_include`, addons, currency and country codes).  The ~35 regime and addon validators
  (addon-specific extension requirements etc.) are exercised by the harness,
  not modelled.

  Each theorem has the shape  validateX defs x = true → resolvesX defs x,
  for ANY definitions `defs` and any pattern matcher `pm`.
  `combo_sound` needs the hypothesis that the regime applying to the combo is
  defined; `combo_unchecked_without_regime` and `prices_include_without_regime`
  state what the code does without it; `doc_tags_unchecked_outside_invoices`
  states the known finding of this property (`$tags` of orders, deliveries and
  payments are not compared with the defined tags).

  Key positions (`means_key_sound`, `note_key_sound`, `terms_key_sound`): payment means keys
  (by their base), payment terms keys and note keys against the key sets the schemas
  publish (`Generated.Defs.keySets`); `Refs.openKeyPositions` lists the positions the code
  leaves open.

  `namespace Src` (before `Expect`) ties the model to the source: the leaf predicates of
  /repo/cbc and /repo/tax that implement the rules are TRANSLATED from Go on every run
  (Generated/RefsSrc.lean, harness/cmd/extract/refssrc.go) and proved equal to the model's
  predicates for all arguments.
-/
import GoblVerif.Spec.C18
import GoblVerif.Generated.Defs
import GoblVerif.Generated.RefsFacts
import GoblVerif.Model.RefsCtx
import GoblVerif.Generated.RefsCtxFacts
import GoblVerif.Generated.RefsSrc
import GoblVerif.Proofs.RefsSrc

namespace GoblVerif.Props.C18
open GoblVerif.Refs GoblVerif.Spec.C18

/-! ## lookups -/

theorem regimeFor_some (d : Defs) (code : String) (r : Regime) (h : d.regimeFor code = some r) :
    r ∈ d.liveRegimes ∧ (r.country = code ∨ code ∈ r.alt) := by
  unfold Defs.regimeFor at h
  have hm := List.mem_of_find?_eq_some h
  have hp := List.find?_some h
  refine ⟨hm, ?_⟩
  simp only [Bool.or_eq_true, beq_iff_eq, List.any_eq_true] at hp
  rcases hp with hp | ⟨x, hx, hxe⟩
  · exact Or.inl hp
  · right; rw [← hxe]; exact hx

theorem regimeResolvesB_iff (d : Defs) (code : String) :
    regimeResolvesB d code = true ↔ regimeResolves d code := by
  unfold regimeResolvesB regimeResolves
  constructor
  · intro h
    cases hr : d.regimeFor code with
    | none => rw [hr] at h; cases h
    | some r => exact ⟨r, (regimeFor_some d code r hr).1, (regimeFor_some d code r hr).2⟩
  · rintro ⟨r, hr, hc⟩
    unfold Defs.regimeFor
    rw [List.find?_isSome]
    refine ⟨r, hr, ?_⟩
    simp only [Bool.or_eq_true, beq_iff_eq, List.any_eq_true]
    rcases hc with hc | hc
    · exact Or.inl hc
    · exact Or.inr ⟨code, hc, rfl⟩

theorem addonResolvesB_iff (d : Defs) (key : String) :
    addonResolvesB d key = true ↔ addonResolves d key := by
  unfold addonResolvesB addonResolves Defs.addonFor
  rw [List.find?_isSome]
  constructor
  · rintro ⟨a, ha, hk⟩; exact ⟨a, ha, by simpa using hk⟩
  · rintro ⟨a, ha, hk⟩; exact ⟨a, ha, by simpa using hk⟩

theorem extPairResolvesB_iff (d : Defs) (pm : PatternMatch) (kv : String × String) :
    extPairResolvesB d pm kv = true ↔ extPairResolves d pm kv := by
  unfold extPairResolvesB extPairResolves
  rw [List.any_eq_true]
  constructor
  · rintro ⟨kd, hkd, h⟩
    simp only [Bool.and_eq_true, Bool.or_eq_true, beq_iff_eq, List.isEmpty_iff, List.contains_eq_mem,
      decide_eq_true_eq] at h
    exact ⟨kd, hkd, h.1.1, h.1.2, h.2⟩
  · rintro ⟨kd, hkd, h1, h2, h3⟩
    refine ⟨kd, hkd, ?_⟩
    simp only [Bool.and_eq_true, Bool.or_eq_true, beq_iff_eq, List.isEmpty_iff, List.contains_eq_mem,
      decide_eq_true_eq]
    exact ⟨⟨h1, h2⟩, h3⟩

theorem tagResolvesB_iff (docRegime : Option Regime) (addons : List Addon) (schema tag : String) :
    tagResolvesB docRegime addons schema tag = true ↔ tagResolves docRegime addons schema tag := by
  unfold tagResolvesB tagResolves
  rw [Bool.or_eq_true]
  apply or_congr
  · cases docRegime with
    | none => simp
    | some r =>
      simp only [List.any_eq_true, Bool.and_eq_true, beq_iff_eq, List.contains_eq_mem, decide_eq_true_eq,
        Option.some.injEq]
      constructor
      · rintro ⟨ts, hts, h⟩; exact ⟨r, rfl, ts, hts, h⟩
      · rintro ⟨r', rfl, ts, hts, h⟩; exact ⟨ts, hts, h⟩
  · simp only [List.any_eq_true, Bool.and_eq_true, beq_iff_eq, List.contains_eq_mem, decide_eq_true_eq]

/-! ## soundness of the generic rules -/

/-- **extensions**: `Extensions.Validate` accepts only pairs whose key some regime,
    addon or catalogue defines and whose value is allowed / matches the pattern -/
theorem ext_sound (d : Defs) (pm : PatternMatch) (ext : List (String × String))
    (h : validateExt d pm ext = true) : extResolves d pm ext := by
  unfold validateExt at h
  rw [List.all_eq_true] at h
  intro kv hkv
  have := h kv hkv
  unfold validateExtPair at this
  cases hd : d.extDef kv.1 with
  | none => rw [hd] at this; cases this
  | some kd =>
    rw [hd] at this
    unfold Defs.extDef at hd
    have hm := List.mem_of_find?_eq_some hd
    have hk := List.find?_some hd
    simp only [Bool.and_eq_true, Bool.or_eq_true, beq_iff_eq, List.isEmpty_iff, List.contains_eq_mem,
      decide_eq_true_eq] at this hk
    exact ⟨kd, hm, hk, this.1.2, this.2⟩

/-- **tax combos**: when the regime that applies to the combo (country override,
    else the document's) is defined, an accepted combo's category belongs to it,
    its rate key names one of the category's rates, and its extensions resolve -/
theorem combo_sound (d : Defs) (pm : PatternMatch) (docCode : String) (c : Combo)
    (h : validateCombo d pm (d.regimeFor docCode) c = true)
    (hr : (comboRegime d (d.regimeFor docCode) c).isSome = true) :
    comboResolves d docCode c ∧ extResolves d pm c.ext := by
  unfold validateCombo at h
  simp only [Bool.and_eq_true] at h
  obtain ⟨⟨⟨_, hcat⟩, hrate⟩, hext⟩ := h
  refine ⟨?_, ext_sound d pm c.ext hext⟩
  have hreg : comboRegime d (d.regimeFor docCode) c = d.regimeFor (if c.country = "" then docCode else c.country) := by
    unfold comboRegime
    by_cases hc : c.country = ""
    · simp [hc]
    · simp [hc]
  rw [hreg] at hr hcat hrate
  cases hrr : d.regimeFor (if c.country = "" then docCode else c.country) with
  | none => rw [hrr] at hr; cases hr
  | some r =>
    rw [hrr] at hcat hrate
    have hmem := regimeFor_some d _ r hrr
    unfold inCategories at hcat
    unfold inCategoryRates at hrate
    simp only at hcat hrate
    cases hcd : r.category c.category with
    | none =>
      exfalso
      unfold Regime.category at hcd
      rw [List.find?_eq_none] at hcd
      rw [List.any_eq_true] at hcat
      obtain ⟨x, hx, hxe⟩ := hcat
      exact hcd x hx hxe
    | some cat =>
      rw [hcd] at hrate
      unfold Regime.category at hcd
      have hcm := List.mem_of_find?_eq_some hcd
      have hce := List.find?_some hcd
      refine ⟨r, ⟨hmem.1, hmem.2⟩, cat, hcm, by simpa using hce, ?_⟩
      simp only [Bool.or_eq_true, beq_iff_eq, List.any_eq_true] at hrate
      rcases hrate with h0 | ⟨k, hk, hkh⟩
      · exact Or.inl h0
      · right
        unfold Category.rateKeys at hk
        rw [List.mem_map] at hk
        obtain ⟨rt, hrt, rfl⟩ := hk
        exact ⟨rt, hrt, hkh⟩

/-- **known finding, as a theorem about the code's rules**: with no regime
    definition (`$regime` undefined and no country override) EVERY non-empty
    category code passes the combo rules -/
theorem combo_unchecked_without_regime (d : Defs) (pm : PatternMatch) (cat : String) (hc : cat ≠ "") :
    validateCombo d pm none { category := cat, country := "", rate := "", ext := [] } = true := by
  unfold validateCombo comboRegime inCategories inCategoryRates validateExt
  simp [hc]

/-- **regime_sound**: an accepted `$regime` is empty or names a defined regime -/
theorem regime_sound (d : Defs) (code : String) (h : validateRegime d code = true) :
    code = "" ∨ (d.regimeFor code).isSome = true := by
  unfold validateRegime at h
  simpa using h

/-- **tags**: an accepted tag is offered, for that document type, by the document's
    regime or by one of the addons in use -/
theorem tags_sound (docRegime : Option Regime) (addons : List Addon) (schema : String) (tags : List String)
    (h : validateTags docRegime addons schema tags = true) :
    ∀ t ∈ tags, tagResolves docRegime addons schema t := by
  unfold validateTags at h
  rw [List.all_eq_true] at h
  intro t ht
  have := h t ht
  simp only [List.contains_eq_mem, decide_eq_true_eq] at this
  unfold supportedTags at this
  rw [List.mem_append] at this
  unfold tagResolves
  rcases this with h1 | h2
  · left
    cases docRegime with
    | none => simp at h1
    | some r =>
      refine ⟨r, rfl, ?_⟩
      unfold tagKeysFor at h1
      simp only [List.mem_flatMap, List.mem_filter, beq_iff_eq] at h1
      obtain ⟨ts, ⟨hts, hs⟩, hk⟩ := h1
      exact ⟨ts, hts, hs, hk⟩
  · right
    simp only [List.mem_flatMap] at h2
    obtain ⟨a, ha, hk⟩ := h2
    unfold tagKeysFor at hk
    simp only [List.mem_flatMap, List.mem_filter, beq_iff_eq] at hk
    obtain ⟨ts, ⟨hts, hs⟩, hk⟩ := hk
    exact ⟨a, ha, ts, hts, hs, hk⟩

/-- the `TagsIn` rule accepts a tag list for a document type for which neither the regime
    nor an addon in use declares a tag set exactly when the list is empty (no tag set is
    published today for any type but bill/invoice: applying the rule to the other
    documents as they stand would refuse every tag, `customer-rates` included) -/
theorem tags_refused_without_tagset (docRegime : Option Regime) (addons : List Addon) (schema : String)
    (tags : List String) (hs : supportedTags docRegime addons schema = []) :
    validateTags docRegime addons schema tags = true ↔ tags = [] := by
  unfold validateTags
  rw [hs]
  cases tags with
  | nil => simp
  | cons t ts => simp

/-- **document tags**: on a document type that applies the rule (bill/invoice) accepted
    tags are offered, for that type, by the regime or by one of the addons in use -/
theorem doc_tags_sound (docRegime : Option Regime) (addons : List Addon) (schema : String) (tags : List String)
    (hs : schema ∈ tagCheckedSchemas)
    (h : validateDocTags docRegime addons schema tags = true) :
    ∀ t ∈ tags, tagResolves docRegime addons schema t := by
  unfold validateDocTags at h
  have hc : tagCheckedSchemas.contains schema = true := by simpa using hs
  rw [if_pos hc] at h
  exact tags_sound docRegime addons schema tags h

/-- **known finding, as a theorem about the code's rules**: on the other tagged document
    types (bill/order, bill/delivery, bill/payment) EVERY tag list passes -/
theorem doc_tags_unchecked_outside_invoices (docRegime : Option Regime) (addons : List Addon) (schema : String)
    (tags : List String) (hs : schema ∉ tagCheckedSchemas) :
    validateDocTags docRegime addons schema tags = true := by
  unfold validateDocTags
  have hc : ¬ (tagCheckedSchemas.contains schema = true) := by simpa using hs
  rw [if_neg hc]

/-- **prices_include**: on a document whose `$regime` was accepted and is not empty, an
    accepted non-empty `tax.prices_include` names a category of that regime -/
theorem prices_include_sound (d : Defs) (docCode cat : String)
    (hreg : validateRegime d docCode = true) (hdoc : docCode ≠ "")
    (h : validatePricesInclude (d.regimeFor docCode) cat = true) (hc : cat ≠ "") :
    includesResolves d docCode cat := by
  rcases regime_sound d docCode hreg with h0 | hsome
  · exact absurd h0 hdoc
  · cases hrr : d.regimeFor docCode with
    | none => rw [hrr] at hsome; cases hsome
    | some r =>
      rw [hrr] at h
      have hmem := regimeFor_some d docCode r hrr
      unfold validatePricesInclude at h
      simp only [Bool.or_eq_true, beq_iff_eq, List.any_eq_true] at h
      rcases h with h0 | ⟨c, hcm, hce⟩
      · exact absurd h0 hc
      · exact ⟨r, hmem.1, hmem.2, c, hcm, hce⟩

/-- what the rule does when the validation context carries no regime (a document
    without `$regime` whose supplier has no tax identity): nothing is compared, any code
    passes the reference rule (its syntax is still checked by `cbc.Code`) -/
theorem prices_include_without_regime (cat : String) : validatePricesInclude none cat = true := rfl

/-- the executable `prices_include` check used by the driver is sound for the relation -/
theorem includesResolvesB_sound (d : Defs) (docCode cat : String)
    (h : includesResolvesB d docCode cat = true) : includesResolves d docCode cat := by
  unfold includesResolvesB at h
  cases hrr : d.regimeFor docCode with
  | none => rw [hrr] at h; cases h
  | some r =>
    rw [hrr] at h
    have hmem := regimeFor_some d docCode r hrr
    simp only [List.any_eq_true, beq_iff_eq] at h
    obtain ⟨c, hcm, hce⟩ := h
    exact ⟨r, hmem.1, hmem.2, c, hcm, hce⟩

/-- **stored tax summaries**: an accepted `tax.Total` (under `preceding[*].tax`, a
    payment's `tax`, `lines[*].document.tax`, `totals.taxes`) carries, in every rate of every
    category, only extension pairs that resolve -/
theorem stored_total_sound (d : Defs) (pm : PatternMatch) (cats : List CategoryTotal)
    (h : validateTotal d pm cats = true) : totalResolves d pm cats := by
  unfold validateTotal at h
  rw [List.all_eq_true] at h
  intro ct hct rt hrt
  have h1 := h ct hct
  unfold validateCategoryTotal at h1
  simp only [Bool.and_eq_true, List.all_eq_true] at h1
  have h2 := h1.2 rt hrt
  unfold validateRateTotal at h2
  simp only [Bool.and_eq_true] at h2
  exact ext_sound d pm rt.ext h2.2

/-- **addons**: every accepted addon key is a published addon -/
theorem addons_sound (d : Defs) (keys : List String) (h : validateAddons d keys = true) :
    ∀ k ∈ keys, addonResolves d k := by
  unfold validateAddons at h
  rw [List.all_eq_true] at h
  intro k hk
  exact (addonResolvesB_iff d k).mp (h k hk)

/-- **codes**: accepted currency and country codes are known codes -/
theorem codes_sound (d : Defs) (currencies countries : List String)
    (h : validateCodes d currencies countries = true) :
    (∀ c ∈ currencies, currencyResolves d c) ∧ (∀ c ∈ countries, countryResolves d c) := by
  unfold validateCodes at h
  simp only [Bool.and_eq_true, List.all_eq_true, List.contains_eq_mem, decide_eq_true_eq] at h
  exact ⟨fun c hc => h.1 c hc, fun c hc => h.2 c hc⟩

/-- the executable combo check used by the driver is sound for the relation -/
theorem comboResolvesB_sound (d : Defs) (docCode : String) (c : Combo)
    (h : comboResolvesB d docCode c = true) : comboResolves d docCode c := by
  unfold comboResolvesB at h
  have e : (if (c.country == "") = true then docCode else c.country) = (if c.country = "" then docCode else c.country) := by
    by_cases hc : c.country = "" <;> simp [hc]
  rw [e] at h
  cases hrr : d.regimeFor (if c.country = "" then docCode else c.country) with
  | none => rw [hrr] at h; cases h
  | some r =>
    rw [hrr] at h
    simp only at h
    have hmem := regimeFor_some d _ r hrr
    cases hcd : r.category c.category with
    | none => rw [hcd] at h; cases h
    | some cat =>
      rw [hcd] at h
      simp only at h
      unfold Regime.category at hcd
      have hcm := List.mem_of_find?_eq_some hcd
      have hce := List.find?_some hcd
      refine ⟨r, ⟨hmem.1, hmem.2⟩, cat, hcm, by simpa using hce, ?_⟩
      simp only [Bool.or_eq_true, beq_iff_eq, List.any_eq_true] at h
      rcases h with h0 | ⟨k, hk, hkh⟩
      · exact Or.inl h0
      · right
        unfold Category.rateKeys at hk
        rw [List.mem_map] at hk
        obtain ⟨rt, hrt, rfl⟩ := hk
        exact ⟨rt, hrt, hkh⟩

/-! ## the rules over a whole document: which regime reaches a combo (Model/RefsCtx.lean) -/

/-- the context of a document carries the document's regime definition (or nothing) -/
theorem docContext_eq (d : Defs) (doc : Doc) : regimeFromContext (docContext d doc) = d.regimeFor doc.regime := by
  unfold regimeFromContext docContext withRegime
  cases d.regimeFor doc.regime <;> rfl

/-- **the regime that applies to a combo is the document's** (unless the combo names a
    country: `comboRegime`): in an accepted document every combo passed the combo rules with
    the DOCUMENT's regime definition, whatever `$regime` the parties declare -/
theorem doc_combos_judged_by_document_regime (d : Defs) (pm : PatternMatch) (doc : Doc)
    (h : validateDoc d pm doc = true) :
    ∀ c ∈ doc.combos, validateCombo d pm (d.regimeFor doc.regime) c = true := by
  unfold validateDoc at h
  simp only [Bool.and_eq_true, List.all_eq_true] at h
  intro c hc
  have := h.2 c hc
  rwa [docContext_eq] at this

/-- **a party's `$regime` concerns that party only**: the verdict on a document is the
    verdict on the document without its parties, and the verdict on each party; in
    particular replacing the parties (their regimes included) cannot make a combo, a tag or
    `prices_include` acceptable that was not -/
theorem party_regimes_do_not_reach_the_lines (d : Defs) (pm : PatternMatch) (doc : Doc) (ps : List Party) :
    validateDoc d pm { doc with parties := ps } =
      (validateDoc d pm { doc with parties := [] } && ps.all (validateParty d pm (docContext d doc))) := by
  unfold validateDoc docContext
  simp only [List.all_nil, Bool.and_true]
  cases validateRegime d doc.regime <;> cases validateAddons d doc.addons <;>
    cases validateDocTags (d.regimeFor doc.regime) (List.filterMap d.addonFor doc.addons) doc.schema doc.tags <;>
    cases validatePricesInclude (regimeFromContext (withRegime (d.regimeFor doc.regime) none)) doc.pricesInclude <;>
    cases List.all ps (validateParty d pm (withRegime (d.regimeFor doc.regime) none)) <;>
    cases List.all doc.combos (validateCombo d pm (regimeFromContext (withRegime (d.regimeFor doc.regime) none))) <;> rfl

/-- **whole-document soundness of the generic rules**: an accepted document with a
    `$regime` names a defined regime and defined addons; every combo whose applicable regime
    (country override, else the DOCUMENT's) is defined resolves in it, with its extensions;
    every party's own `$regime` is empty or defined and its extensions resolve; on the
    document types that apply the rule the tags are offered by the document's regime or an
    addon in use; a non-empty `prices_include` is a category of the document's regime -/
theorem doc_sound (d : Defs) (pm : PatternMatch) (doc : Doc)
    (h : validateDoc d pm doc = true) (hreg : doc.regime ≠ "") :
    regimeResolves d doc.regime ∧
    (∀ k ∈ doc.addons, addonResolves d k) ∧
    (∀ c ∈ doc.combos, (comboRegime d (d.regimeFor doc.regime) c).isSome = true →
        comboResolves d doc.regime c ∧ extResolves d pm c.ext) ∧
    (∀ p ∈ doc.parties, (p.regime = "" ∨ regimeResolves d p.regime) ∧ extResolves d pm p.ext) ∧
    (doc.schema ∈ tagCheckedSchemas →
        ∀ t ∈ doc.tags, tagResolves (d.regimeFor doc.regime) (doc.addons.filterMap d.addonFor) doc.schema t) ∧
    (doc.pricesInclude ≠ "" → includesResolves d doc.regime doc.pricesInclude) := by
  have hcombos := doc_combos_judged_by_document_regime d pm doc h
  unfold validateDoc at h
  simp only [Bool.and_eq_true, List.all_eq_true] at h
  obtain ⟨⟨⟨⟨⟨hr, ha⟩, ht⟩, hpi⟩, hp⟩, _⟩ := h
  have hsome : (d.regimeFor doc.regime).isSome = true := by
    rcases regime_sound d doc.regime hr with h0 | h1
    · exact absurd h0 hreg
    · exact h1
  refine ⟨(regimeResolvesB_iff d doc.regime).mp hsome, addons_sound d doc.addons ha, ?_, ?_, ?_, ?_⟩
  · intro c hc hcr
    exact combo_sound d pm doc.regime c (hcombos c hc) hcr
  · intro p hpm
    have := hp p hpm
    unfold validateParty at this
    simp only [Bool.and_eq_true] at this
    refine ⟨?_, ext_sound d pm p.ext this.2⟩
    rcases regime_sound d p.regime this.1 with h0 | h1
    · exact Or.inl h0
    · exact Or.inr ((regimeResolvesB_iff d p.regime).mp h1)
  · intro hs
    exact doc_tags_sound (d.regimeFor doc.regime) (doc.addons.filterMap d.addonFor) doc.schema doc.tags hs ht
  · intro hne
    rw [docContext_eq] at hpi
    exact prices_include_sound d doc.regime doc.pricesInclude hr hreg hpi hne

/-- one shared slot for the regime gives the code's verdict as long as no party declares a
    defined regime of its own — which is why no shipped example tells the two apart -/
theorem shared_agrees_without_party_regimes (d : Defs) (pm : PatternMatch) (doc : Doc)
    (hp : ∀ p ∈ doc.parties, d.regimeFor p.regime = none) :
    validateDocShared d pm doc = validateDoc d pm doc := by
  have hfold : ∀ (ps : List Party) (ctx : VCtx), (∀ p ∈ ps, d.regimeFor p.regime = none) →
      sharedAfterParties d ctx ps = ctx := by
    intro ps
    induction ps with
    | nil => intro ctx _; rfl
    | cons p ps ih =>
      intro ctx hall
      unfold sharedAfterParties
      rw [List.foldl_cons]
      have hp0 : partyContext d ctx p = ctx := by
        unfold partyContext withRegime
        rw [hall p (List.mem_cons_self)]
      rw [hp0]
      exact ih ctx (fun q hq => hall q (List.mem_cons_of_mem p hq))
  unfold validateDocShared validateDoc
  simp only [hfold doc.parties (docContext d doc) hp]

/-! ## key positions: payment means, payment terms, notes -/

/-- the base of a key, as `keyHasPrefix` reads it, is the first `+`-separated part -/
theorem keyHasPrefix_iff (k ke : String) :
    keyHasPrefix k ke = true ↔ (splitPlus k.toList []).head? = some ke.toList := by
  unfold keyHasPrefix
  have hne : ∀ (s cur : List Char), splitPlus s cur ≠ [] := by
    intro s
    induction s with
    | nil => intro cur; simp [splitPlus]
    | cons c rest ih => intro cur; simp only [splitPlus]; split <;> simp [ih]
  cases h : splitPlus k.toList [] with
  | nil => exact absurd h (hne _ _)
  | cons a l => simp

/-- **payment means keys**: an accepted `payment.instructions.key` / `advances[*].key` is blank
    (advances only) or its base is one of the published means keys -/
theorem means_key_sound (ks : KeySets) (required : Bool) (k : String)
    (h : validateMeansKey ks required k = true) : (k = "" ∧ required = false) ∨ meansKeyResolves ks k := by
  unfold validateMeansKey hasValidKeyIn at h
  simp only [Bool.and_eq_true, Bool.or_eq_true, Bool.not_eq_true', bne_iff_ne, ne_eq, beq_iff_eq, List.any_eq_true] at h
  obtain ⟨hreq, hk⟩ := h
  rcases hk with h0 | ⟨base, hb, hp⟩
  · left
    rcases hreq with hr | hr
    · exact ⟨h0, hr⟩
    · exact absurd h0 hr
  · right
    exact ⟨base, hb, (keyHasPrefix_iff k base).mp hp⟩

/-- **note keys / payment terms keys**: accepted keys are blank or published -/
theorem note_key_sound (ks : KeySets) (k : String) (h : validateNoteKey ks k = true) :
    k = "" ∨ noteKeyResolves ks k := by
  unfold validateNoteKey at h
  simpa [noteKeyResolves] using h

theorem terms_key_sound (ks : KeySets) (k : String) (h : validateTermsKey ks k = true) :
    k = "" ∨ termsKeyResolves ks k := by
  unfold validateTermsKey at h
  simpa [termsKeyResolves] using h

theorem meansKeyResolvesB_iff (ks : KeySets) (k : String) :
    meansKeyResolvesB ks k = true ↔ meansKeyResolves ks k := by
  unfold meansKeyResolvesB meansKeyResolves
  simp [List.any_eq_true]

/-! ## the tie to the source: regenerated definition = model, for all arguments

`Generated/RefsSrc.lean` is regenerated on every run from /repo/cbc and /repo/tax by the
go2lean translator (harness/cmd/extract/refssrc.go, go2lean_refs.go).  Strings are the lists
of their bytes there; the model's `String` arguments enter through `String.toList`
(injective: `String.toList_inj`).  Trusted: the translator's reading of Go and the declared
primitives of Model/RefsSrc.lean (header of the generated file). -/
namespace Src
open GoblVerif.Generated GoblVerif.Refs.Src GoblVerif.GoStr GoblVerif.Proofs.RefsSrc

/-- everything asked for was translated -/
theorem all_translated : RefsSrc.untranslated = [] := by decide

theorem translated_units :
    RefsSrc.Cbc.translated = ["Key.String", "var KeySeparator", "Key.Has", "Key.HasPrefix", "Key.In", "Key.IsEmpty",
      "hasKeyRule.Validate", "Definition.CodeDef", "Definition.HasCode", "Definition.KeyDef", "Definition.HasKey",
      "GetKeyDefinition", "GetCodeDefinition"] ∧
    RefsSrc.Tax.translated = ["inCategoryRatesRule.Validate", "RegimeDef.CategoryDef", "TagSetForSchema",
      "tagValidation.Validate", "addonValidation.Validate", "Regime.Validate", "validateExtCodeValues.Validate",
      "validateExtCodeMap.Validate", "Extensions.Validate"] ∧
    RefsSrc.fuelChecks = [] := by decide

/-- the separator handed to `strings.Split` is "+" (the primitives model non-empty separators) -/
theorem key_separator : RefsSrc.Cbc.KeySeparator = ['+'] ∧ sepOK RefsSrc.Cbc.KeySeparator = true := by decide

/-- the Go declarations the structures stand for, and what was left out of them -/
theorem structs_as_modelled :
    RefsSrc.Cbc.struct_hasKeyRule = [("elements", "[]Key")] ∧
    RefsSrc.Cbc.structLean_Definition = ("GoblVerif.Refs.Src.CDef", ["key", "code", "values", "pattern"]) ∧
    RefsSrc.Cbc.struct_Definition.filter (fun f => f.1 ∈ ["Key", "Code", "Values", "Pattern"]) =
      [("Key", "Key"), ("Code", "Code"), ("Values", "[]*Definition"), ("Pattern", "string")] ∧
    RefsSrc.Tax.struct_inCategoryRatesRule = [("cat", "cbc.Code"), ("keys", "[]cbc.Key")] ∧
    RefsSrc.Tax.struct_tagValidation = [("keys", "[]cbc.Key")] ∧
    RefsSrc.Tax.struct_addonValidation = [] ∧
    RefsSrc.Tax.struct_Regime = [("Country", "l10n.TaxCountryCode")] ∧
    RefsSrc.Tax.struct_validateExtCodeValues = [("key", "cbc.Key"), ("values", "[]cbc.Code")] ∧
    RefsSrc.Tax.struct_validateExtCodeMap = [("keys", "[]cbc.Key"), ("required", "bool"), ("exclude", "bool")] ∧
    RefsSrc.Tax.struct_Tags = [("List", "[]cbc.Key")] ∧
    RefsSrc.Tax.struct_TagSet = [("Schema", "string"), ("List", "[]*cbc.Definition")] ∧
    RefsSrc.Tax.structLean_RegimeDef = ("GoblVerif.Refs.Src.RegimeD", ["categories"]) ∧
    RefsSrc.Tax.structLean_CategoryDef = ("GoblVerif.Refs.Src.CategoryD", ["code", "rates"]) ∧
    RefsSrc.Tax.structLean_RateDef = ("GoblVerif.Refs.Src.RateD", ["key"]) := by decide

/-- the primitives of the translation (what is NOT looked into), and the bookkeeping of maps:
    the ranges over the extension map (their order does not matter: only nil-ness of the
    error is observed, and `List.all` does not depend on the order) and the writes to the
    local `validation.Errors` maps -/
theorem primitives_as_declared :
    RefsSrc.Cbc.primitives = [("errors.New", "GoblVerif.GoStr.errNew {0:lit}"), ("regexp.MustCompile", "{0:lit}"),
      ("strings.Split", "GoblVerif.Refs.Src.split {0} {1}"), ("strings.SplitN", "GoblVerif.Refs.Src.splitN {0} {1} {2}")] ∧
    RefsSrc.Tax.primitives.map (·.1) = ["AddonForKey", "ExtensionForKey", "Regime.RegimeDef", "assert Extensions",
      "assert Tags", "assert []cbc.Key", "assert cbc.Key", "cbc.Code.String", "cbc.Definition.HasCode", "cbc.Key.Has",
      "cbc.Key.In", "cbc.Key.IsEmpty", "cbc.Key.String", "cbc.Key.Validate", "error validation.Errors", "errors.New",
      "l10n.TaxCountryCode.Code", "l10n.TaxCountryCode.Empty", "l10n.TaxCountryCode.String", "regexp.Compile",
      "regexp.Regexp.MatchString", "validation.Validate"] ∧
    RefsSrc.Tax.mapRanges = [("validateExtCodeMap.Validate", "em"), ("Extensions.Validate", "em"), ("Extensions.Validate", "em")] ∧
    RefsSrc.Tax.mapNilTests = [] ∧ RefsSrc.Tax.inOutParams = [] ∧ RefsSrc.Cbc.mapWrites = [] := by decide

/-! ### cbc -/

/-- **`cbc.Key.Has`, regenerated from the source, is the model's `keyHas`**: one of the
    `+`-separated parts equals the argument — for all keys -/
theorem src_Key_Has (k ke : String) : RefsSrc.Cbc.Key_Has k.toList ke.toList = keyHas k ke :=
  src_Key_Has_list k.toList ke.toList

/-- … and for every byte string, not only the valid UTF-8 ones -/
theorem src_Key_Has_bytes (k ke : Str) : RefsSrc.Cbc.Key_Has k ke = (splitPlus k []).any (· == ke) :=
  src_Key_Has_list k ke

/-- `cbc.Key.In` is list membership -/
theorem src_Key_In (k : Str) (set : List Str) : RefsSrc.Cbc.Key_In k set = set.contains k :=
  GoblVerif.Proofs.RefsSrc.src_Key_In k set

/-- **`cbc.Key.HasPrefix` is the model's `keyHasPrefix`** -/
theorem src_Key_HasPrefix (k ke : String) : RefsSrc.Cbc.Key_HasPrefix k.toList ke.toList = keyHasPrefix k ke :=
  GoblVerif.Proofs.RefsSrc.src_Key_HasPrefix k.toList ke.toList

/-- **`hasKeyRule.Validate` (`cbc.HasValidKeyIn`) is the model's `hasValidKeyIn`**: nil exactly
    when the key is blank or its base is one of the rule's keys; a value of another dynamic
    type passes -/
theorem src_hasKeyRule (keys : List String) (k : String) :
    (RefsSrc.Cbc.hasKeyRule_Validate ⟨keys.map String.toList⟩ (some k.toList)).isNone = hasValidKeyIn keys k := by
  unfold RefsSrc.Cbc.hasKeyRule_Validate hasValidKeyIn
  simp only [GoblVerif.GoSem.forIn_list_id, pure_bind]
  simp only [Id.run, GoblVerif.GoSem.id_pure, Option.getD_some, Option.isSome_some, not_true_eq_false, false_or]
  by_cases hk : k = ""
  · subst hk; simp
  · have h1 : ¬ k.toList = [] := by simpa using hk
    have h2 : (k == "") = false := by simpa using hk
    simp only [h1, if_false, h2, Bool.false_or]
    rw [GoblVerif.GoSem.forList_stateless _
      (fun e => if (RefsSrc.Cbc.Key_HasPrefix k.toList e) = true then some none else none)
      (by intro x s; by_cases h : RefsSrc.Cbc.Key_HasPrefix k.toList x = true <;> simp [h])]
    induction keys with
    | nil => simp [errNew]
    | cons a l ih =>
      simp only [List.map_cons, List.findSome?, List.any_cons, src_Key_HasPrefix]
      by_cases h : keyHasPrefix k a = true
      · simp [h]
      · simp only [h]; simpa using ih

theorem src_hasKeyRule_other (r : RefsSrc.Cbc.hasKeyRule) : RefsSrc.Cbc.hasKeyRule_Validate r none = none := by
  unfold RefsSrc.Cbc.hasKeyRule_Validate
  simp [Id.run, GoblVerif.GoSem.id_pure]

/-- `(*cbc.Definition).HasCode`: one of the values carries the code -/
theorem src_Definition_HasCode (d : CDef) (c : Str) :
    RefsSrc.Cbc.Definition_HasCode d c = d.values.any (fun v => v.code == c) :=
  GoblVerif.Proofs.RefsSrc.src_Definition_HasCode d c

/-! ### tax -/

/-- **`inCategoryRatesRule.Validate` is the last branch of the model's `inCategoryRates`**: with
    the keys of the category's rates, nil exactly when the rate key is blank or `Has` one of them -/
theorem src_inCategoryRates (r : Regime) (cat key : String) (c : Category) (hc : r.category cat = some c) :
    (RefsSrc.Tax.inCategoryRatesRule_Validate ⟨cat.toList, c.rateKeys.map String.toList⟩ (.key key.toList)).isNone =
      inCategoryRates (some r) cat key := by
  rw [src_inCategoryRatesRule]
  unfold inCategoryRates
  simp only [hc]
  congr 1
  · rw [Bool.eq_iff_iff]; simp
  · rw [List.any_map]
    congr 1
    funext k
    exact src_Key_Has key k

/-- a value that is no `cbc.Key` passes the rate rule (ozzo hands the field's value on) -/
theorem src_inCategoryRates_other (r : RefsSrc.Tax.inCategoryRatesRule) (v : Dyn) (h : ∀ k, v ≠ .key k) :
    RefsSrc.Tax.inCategoryRatesRule_Validate r v = none := src_inCategoryRatesRule_other r v h

/-- `(*RegimeDef).CategoryDef` is the first category with the code (nil regime: nil) -/
theorem src_CategoryDef (r : Option RegimeD) (code : Str) :
    RefsSrc.Tax.RegimeDef_CategoryDef r code = r.bind (fun r => r.categories.find? (fun c => c.code == code)) :=
  GoblVerif.Proofs.RefsSrc.src_CategoryDef r code

/-- **`tagValidation.Validate` (`tax.TagsIn`) is the model's `validateTags`**, for a `[]cbc.Key`
    and for a `tax.Tags` value alike; any other dynamic type passes -/
theorem src_TagsIn (docRegime : Option Regime) (addons : List Addon) (schema : String) (tags : List String) :
    (RefsSrc.Tax.tagValidation_Validate ⟨(supportedTags docRegime addons schema).map String.toList⟩
        (.keys (tags.map String.toList))).isNone = validateTags docRegime addons schema tags ∧
    (RefsSrc.Tax.tagValidation_Validate ⟨(supportedTags docRegime addons schema).map String.toList⟩
        (.tags ⟨tags.map String.toList⟩)).isNone = validateTags docRegime addons schema tags := by
  have e : ∀ (sup : List String), (tags.map String.toList).all (fun x => (sup.map String.toList).contains x) =
      tags.all (fun t => sup.contains t) := by
    intro sup
    rw [List.all_map]
    congr 1
    funext t
    rw [Bool.eq_iff_iff]; simp [String.toList_inj]
  unfold validateTags
  exact ⟨by rw [src_tagValidation_keys, e], by rw [src_tagValidation_tags, e]⟩

theorem src_TagsIn_other (keys : List Str) (v : Dyn) (h1 : ∀ l, v ≠ .keys l) (h2 : ∀ t, v ≠ .tags t) :
    RefsSrc.Tax.tagValidation_Validate ⟨keys⟩ v = none := src_tagValidation_other keys v h1 h2

/-- with no tag offered the rule accepts the empty list only (seed C18-4) -/
theorem src_TagsIn_without_tagset (tags : List Str) :
    (RefsSrc.Tax.tagValidation_Validate ⟨[]⟩ (.keys tags)).isNone = tags.isEmpty := by
  rw [src_tagValidation_keys]
  cases tags <;> simp

/-- the registry of the published definitions: lookups as the model makes them -/
theorem ofDefs_addonDefined (d : Defs) (k : String) :
    (Registry.ofDefs d).addonDefined k.toList = (d.addonFor k).isSome := by
  unfold Registry.ofDefs Defs.addonFor
  simp only
  rw [Bool.eq_iff_iff]
  simp [List.any_eq_true, String.toList_inj]

theorem ofDefs_regimeDefined (d : Defs) (c : String) :
    (Registry.ofDefs d).regimeDefined c.toList = (d.regimeFor c).isSome := by
  unfold Registry.ofDefs Defs.regimeFor
  simp only
  rw [Bool.eq_iff_iff]
  simp [List.any_eq_true, String.toList_inj]

/-- **`addonValidation.Validate` (`tax.AddonRegistered`) over the published definitions is the
    model's `validateAddons`** for one key -/
theorem src_AddonRegistered (d : Defs) (k : String) :
    (RefsSrc.Tax.addonValidation_Validate (reg := Registry.ofDefs d) ⟨⟩ (.key k.toList)).isNone =
      validateAddons d [k] := by
  rw [@src_addonValidation (Registry.ofDefs d), ofDefs_addonDefined]
  simp [validateAddons]

/-- for any registry: nil exactly when the addon is registered -/
theorem src_AddonRegistered_any [reg : Registry] (k : Str) :
    (RefsSrc.Tax.addonValidation_Validate ⟨⟩ (.key k)).isNone = reg.addonDefined k := src_addonValidation k

/-- **`tax.Regime.Validate` over the published definitions is the model's `validateRegime`** -/
theorem src_Regime_Validate (d : Defs) (code : String) :
    (RefsSrc.Tax.Regime_Validate (reg := Registry.ofDefs d) ⟨code.toList⟩).isNone = validateRegime d code := by
  rw [@GoblVerif.Proofs.RefsSrc.src_Regime_Validate (Registry.ofDefs d), ofDefs_regimeDefined]
  unfold validateRegime
  congr 1
  rw [Bool.eq_iff_iff]; simp

/-- `validateExtCodeValues.Validate` (`tax.ExtensionsHasCodes`): nil exactly when the key is
    absent or its value is one of the codes -/
theorem src_ExtensionsHasCodes (key : Str) (values : List Str) (em : List (Str × Str)) :
    (RefsSrc.Tax.validateExtCodeValues_Validate ⟨key, values⟩ (.ext em)).isNone =
      (match em.lookup key with | none => true | some ev => values.contains ev) := src_ExtCodeValues key values em

/-- **`tax.Extensions.Validate`, regenerated from the source**, for ANY registry, regexp
    matcher and key / code syntax check: nil exactly when every key has the key syntax and
    every pair passes `extPairOK` — the key is registered, the value is present (and a
    well-formed code), listed when the definition lists values, matched when it has a pattern -/
theorem src_Extensions_Validate [reg : Registry] (reMatch : Str → Str → Bool) (keySyntax : Str → Option Str)
    (codeSyntax : Str → Bool) (em : List (Str × Str)) :
    (RefsSrc.Tax.Extensions_Validate reMatch keySyntax codeSyntax em).isNone =
      (em.all (fun x => (keySyntax x.1).isNone) && em.all (extPairOK reMatch codeSyntax)) :=
  GoblVerif.Proofs.RefsSrc.src_Extensions_Validate reMatch keySyntax codeSyntax em

/-- one pair, over the published definitions and with the syntax checks passing (C11's
    business), **is the model's `validateExtPair`** -/
theorem src_extPair (d : Defs) (rm : Str → Str → Bool) (kv : String × String) :
    extPairOK (reg := Registry.ofDefs d) rm (fun _ => true) (kv.1.toList, kv.2.toList) =
      validateExtPair d (fun p v => rm p.toList v.toList) kv := by
  unfold extPairOK validateExtPair Defs.extDef Registry.ofDefs
  simp only
  have ef : (d.allExtDefs.find? fun e => e.key.toList == kv.1.toList) = d.allExtDefs.find? (·.key == kv.1) := by
    congr 1; funext e; rw [Bool.eq_iff_iff]; simp [String.toList_inj]
  rw [ef]
  cases d.allExtDefs.find? (·.key == kv.1) with
  | none => rfl
  | some kd =>
    simp only [Option.map_some, cdefOfExt, validateCode, requiredCode, if_true]
    have e1 : (if kv.2.toList.isEmpty = true then some "cannot be blank".toList else (none : Option Str)).isNone = (kv.2 != "") := by
      by_cases h : kv.2 = ""
      · simp [h]
      · have : ¬ kv.2.toList = [] := by simpa using h
        simp [h, this]
    have e2 : ((kd.codes.map cdefOfCode).isEmpty || (kd.codes.map cdefOfCode).any (fun v => v.code == kv.2.toList)) =
        (kd.codes.isEmpty || kd.codes.contains kv.2) := by
      congr 1
      · cases kd.codes <;> rfl
      · rw [List.any_map, Bool.eq_iff_iff]
        simp only [List.any_eq_true, Function.comp, cdefOfCode, beq_iff_eq, String.toList_inj, List.contains_eq_mem,
          decide_eq_true_eq]
        constructor
        · rintro ⟨x, hx, rfl⟩; exact hx
        · intro h; exact ⟨kv.2, h, rfl⟩
    have e3 : (kd.pattern.toList == []) = (kd.pattern == "") := by rw [Bool.eq_iff_iff]; simp
    rw [e1, e2, e3]

/-- **`Extensions.Validate` over the published definitions is the model's `validateExt`** (with
    the key and code syntax checks passing) -/
theorem src_validateExt (d : Defs) (rm : Str → Str → Bool) (ext : List (String × String)) :
    (RefsSrc.Tax.Extensions_Validate (reg := Registry.ofDefs d) rm (fun _ => none) (fun _ => true)
        (ext.map fun kv => (kv.1.toList, kv.2.toList))).isNone =
      validateExt d (fun p v => rm p.toList v.toList) ext := by
  rw [@src_Extensions_Validate (Registry.ofDefs d)]
  unfold validateExt
  have h1 : (ext.map fun kv => (kv.1.toList, kv.2.toList)).all (fun x => (none : Option Str).isNone) = true := by
    simp
  simp only [h1, Bool.true_and]
  rw [List.all_map]
  congr 1
  funext kv
  exact src_extPair d rm kv

end Src

/-! ## non-vacuity and the findings on the published data -/
namespace Expect
open GoblVerif.Generated.Defs

/-- the hypotheses of `combo_sound` are satisfiable on the published definitions -/
example : validateCombo defs (fun _ _ => true) (defs.regimeFor "ES") ⟨"VAT", "", "standard+eqs", []⟩ = true ∧
    (comboRegime defs (defs.regimeFor "ES") ⟨"VAT", "", "standard+eqs", []⟩).isSome = true := by decide +kernel

/-- per-combo country override: a PT category on an ES document resolves in PT -/
example : comboResolvesB defs "ES" ⟨"VAT", "PT", "reduced", []⟩ = true := by decide +kernel
example : comboResolvesB defs "ES" ⟨"IGIC", "PT", "", []⟩ = false := by decide +kernel

/-- "ZZ" is not a published regime and is rejected as a document `$regime`; a combo
    evaluated without any regime (possible through a country override naming an undefined
    regime) still accepts any category: `combo_unchecked_without_regime` -/
theorem undefined_regime_is_rejected :
    (defs.regimeFor "ZZ").isNone = true ∧ validateRegime defs "ZZ" = false ∧
    validateCombo defs (fun _ _ => true) (defs.regimeFor "ZZ") ⟨"ZZT", "", "", []⟩ = true := by decide +kernel

/-- the hypotheses of `prices_include_sound` are satisfiable on the published definitions -/
example : validateRegime defs "ES" = true ∧ "ES" ≠ "" ∧
    validatePricesInclude (defs.regimeFor "ES") "VAT" = true ∧ "VAT" ≠ "" := by decide +kernel

/-- a category no regime publishes is refused as `prices_include` of a Spanish document,
    a Spanish one is accepted and resolves -/
theorem undefined_prices_include_is_rejected :
    validatePricesInclude (defs.regimeFor "ES") "ZZT" = false ∧
    validatePricesInclude (defs.regimeFor "ES") "IGIC" = true ∧
    includesResolvesB defs "ES" "IGIC" = true ∧ includesResolvesB defs "ES" "ZZT" = false := by decide +kernel

/-- an undefined tag is refused on an invoice and a published invoice tag accepted; on an
    order the same undefined tag passes although nothing offers it (the known finding on
    the published data: no tag set is published for bill/order) -/
theorem undefined_tag_is_rejected_on_invoices :
    validateDocTags (defs.regimeFor "ES") [] "bill/invoice" ["zz-undefined"] = false ∧
    validateDocTags (defs.regimeFor "ES") [] "bill/invoice" ["simplified"] = true ∧
    (taggedSchemas.filter (!tagCheckedSchemas.contains ·)) = ["bill/order", "bill/delivery", "bill/payment"] ∧
    validateDocTags (defs.regimeFor "ES") [] "bill/order" ["zz-undefined"] = true ∧
    tagResolvesB (defs.regimeFor "ES") [] "bill/order" "zz-undefined" = false ∧
    validateTags (defs.regimeFor "ES") [] "bill/order" ["simplified"] = false := by decide +kernel

/-- the hypothesis of `stored_total_sound` is satisfiable, and an undefined value or key
    in a rate of a stored summary is refused, as are a category without code or rates, an
    unknown rate country and an empty extension value -/
theorem undefined_stored_ext_is_rejected :
    validateTotal defs (fun _ _ => true) [⟨"VAT", [⟨"", "", [("es-tbai-exemption", "E1")]⟩]⟩] = true ∧
    validateTotal defs (fun _ _ => true) [⟨"VAT", [⟨"", "", [("es-tbai-exemption", "ZZZ")]⟩]⟩] = false ∧
    validateTotal defs (fun _ _ => true) [⟨"VAT", [⟨"", "", [("zz-undefined-key", "E1")]⟩]⟩] = false ∧
    -- since `CategoryTotal.Validate` requires code and rates, `RateTotal.Validate` checks the
    -- country and `Extensions.Validate` requires the value:
    validateTotal defs (fun _ _ => true) [⟨"", [⟨"", "", []⟩]⟩] = false ∧
    validateTotal defs (fun _ _ => true) [⟨"VAT", []⟩] = false ∧
    validateTotal defs (fun _ _ => true) [⟨"VAT", [⟨"", "ZZ", []⟩]⟩] = false ∧
    validateTotal defs (fun _ _ => true) [⟨"VAT", [⟨"standard", "ES", []⟩]⟩] = true ∧
    validateTotal defs (fun _ _ => true) [⟨"VAT", [⟨"", "", [("mx-cfdi-prod-serv", "")]⟩]⟩] = false ∧
    validateTotal defs (fun _ _ => true) [⟨"VAT", [⟨"", "", [("mx-cfdi-prod-serv", "01010101")]⟩]⟩] = true := by decide +kernel

/-- the key sets the schemas publish: the two places that take a payment means key list the
    same keys; a means key resolves by its base (`card+zz`), an undefined base or a defined
    key in second place does not; the hypotheses of `means_key_sound`, `note_key_sound`,
    `terms_key_sound` are satisfiable -/
theorem key_sets_published :
    KeySets.get keySets "pay/means" = KeySets.get keySets "pay/means-advance" ∧ (KeySets.get keySets "pay/means").length = 14 ∧
    validateMeansKey keySets true "card+zz" = true ∧ validateMeansKey keySets true "cardx" = false ∧
    validateMeansKey keySets true "zz+card" = false ∧ validateMeansKey keySets true "" = false ∧
    validateMeansKey keySets false "" = true ∧ meansKeyResolvesB keySets "credit-transfer+sepa" = true ∧
    meansKeyResolvesB keySets "zz+card" = false ∧
    validateNoteKey keySets "general" = true ∧ validateNoteKey keySets "zz-undefined" = false ∧
    validateNoteKey keySets "general+x" = false ∧
    validateTermsKey keySets "due-date" = true ∧ validateTermsKey keySets "due-date+x" = false := by decide +kernel

/-- seed C18-3 on the regenerated `Key.Has`: a tail of a component is not a component -/
theorem key_has_is_by_component :
    Generated.RefsSrc.Cbc.Key_Has "non-standard".toList "standard".toList = false ∧
    Generated.RefsSrc.Cbc.Key_Has "standard+eqs".toList "eqs".toList = true := by
  rw [Src.src_Key_Has, Src.src_Key_Has]; decide

/-! ### where the rules are applied (regenerated from bill/*.go, tax/*.go, org/document_ref.go) -/
section Applied
open GoblVerif.Generated.RefsFacts

/-- bill.Invoice validates `$tags` with `tax.TagsIn` over its `supportedTags`; Order, Delivery
    and Payment hold the list to the key syntax only (every entry required, nothing else, on `Tags.List`,
    since /repo 6a2cb4a) and never call `TagsIn`: `tagCheckedSchemas` is what the code does -/
theorem tags_rule_applied_by_invoices_only :
    ("Tags.List", ["tax.TagsIn(inv.supportedTags()...)"]) ∈ rules_Invoice_ValidateWithContext ∧
    "TagsIn" ∉ calls_Order_ValidateWithContext ∧ "TagsIn" ∉ calls_Delivery_ValidateWithContext ∧
    "TagsIn" ∉ calls_Payment_ValidateWithContext ∧
    (rules_Order_ValidateWithContext.filter (fun r => r.1 == "Tags" || r.1 == "Tags.List")) = [("Tags.List", ["validation.Each(validation.Required)"])] ∧
    (rules_Payment_ValidateWithContext.filter (fun r => r.1 == "Tags" || r.1 == "Tags.List")) = [("Tags.List", ["validation.Each(validation.Required)"])] ∧
    (rules_Delivery_ValidateWithContext.filter (fun r => r.1 == "Tags" || r.1 == "Tags.List")) = [("Tags.List", ["validation.Each(validation.Required)"])] := by
  decide +kernel

/-- `(*Invoice).supportedTags`: the regime's tag set, then each addon's, merged, then the
    keys, all looked up with the invoice's own short schema -/
theorem supportedTags_shape :
    calls_Invoice_supportedTags =
      ["RegimeDef", "Merge", "TagSetForSchema", "AddonDefs", "Merge", "TagSetForSchema", "Keys"] ∧
    schema_Invoice = ["bill/invoice", "bill/invoice"] ∧
    tagCheckedSchemas = ["bill/invoice"] := by
  decide +kernel

/-- `TagsIn` refuses the first key not `In` the list; `InCategories` is `validation.In`
    over the regime's category codes -/
theorem tag_and_category_rules_shape :
    calls_tagValidation_Validate = ["In", "Itoa", "Errorf"] ∧
    calls_RegimeDef_InCategories = ["make", "len", "In"] := by decide +kernel

/-- `bill.Tax` takes the regime from the context and puts its `InCategories` rule on
    `prices_include` -/
theorem prices_include_rule_applied :
    calls_Tax_ValidateWithContext =
      ["RegimeDefFromContext", "append", "InCategories", "ValidateStructWithContext", "Field", "Field",
       "InKeyDefs", "Field", "Field"] ∧
    ("PricesInclude", ["inCategories..."]) ∈ rules_Tax_ValidateWithContext ∧
    ("Tax", []) ∈ rules_Invoice_ValidateWithContext ∧ ("Tax", []) ∈ rules_Order_ValidateWithContext ∧
    ("Tax", []) ∈ rules_Delivery_ValidateWithContext := by decide +kernel

/-- a stored tax summary is validated down to the `ext` of its rates, and the places that
    store one (document references, payments) validate the field -/
theorem stored_total_rules_applied :
    rules_Total_Validate = [("Categories", [])] ∧
    rules_CategoryTotal_Validate = [("Code", ["validation.Required"]), ("Rates", ["validation.Required"])] ∧
    rules_RateTotal_Validate = [("Key", []), ("Country", []), ("Ext", [])] ∧
    ("Tax", []) ∈ rules_DocumentRef_ValidateWithContext ∧
    ("Tax", []) ∈ rules_Payment_ValidateWithContext := by decide +kernel

end Applied

/-! ### the regime in the validation context, and state beside the content
    (regenerated from tax/*.go, org/party.go, bill/*.go and every struct of the library) -/
section Context
open GoblVerif.Generated.RefsCtxFacts

/-- the hypotheses of `doc_sound` are satisfiable on the published definitions: a Spanish
    invoice whose customer declares the French regime, with a Spanish combo and a combo
    naming Portugal -/
example : validateDoc defs (fun _ _ => true)
      ⟨"bill/invoice", "ES", ["es-facturae-v3"], ["simplified"], "VAT", [⟨"", []⟩, ⟨"FR", []⟩],
        [⟨"VAT", "", "standard+eqs", []⟩, ⟨"VAT", "PT", "intermediate", []⟩]⟩ = true ∧ "ES" ≠ "" := by
  decide +kernel

/-- **what one shared slot would do** (not the code): a Portuguese invoice whose customer
    declares the Mexican regime is refused by the rules as the code applies them when a line
    carries the Mexican category ISR — and accepted once the party's regime stays in a
    shared slot, although ISR is no category of the document's regime -/
theorem shared_context_would_be_unsound :
    validateDoc defs (fun _ _ => true) ⟨"bill/invoice", "PT", [], [], "", [⟨"", []⟩, ⟨"MX", []⟩], [⟨"ISR", "", "", []⟩]⟩ = false ∧
    validateDocShared defs (fun _ _ => true) ⟨"bill/invoice", "PT", [], [], "", [⟨"", []⟩, ⟨"MX", []⟩], [⟨"ISR", "", "", []⟩]⟩ = true ∧
    comboResolvesB defs "PT" ⟨"ISR", "", "", []⟩ = false ∧ comboResolvesB defs "MX" ⟨"ISR", "", "", []⟩ = true := by
  decide +kernel

/-- a regime reaches the context by `context.WithValue` under its own key (a derived
    context; the one handed in is not touched), is read back from that key, and is put there
    by the four documents for themselves and by a party for its own validation only:
    `withRegime`, `regimeFromContext`, `docContext`, `partyContext` are what the code does.
    The combo reads the context when it names no country. -/
theorem regime_context_as_modelled :
    body_RegimeDef_WithContext =
      "{ if r == nil { return ctx } ctx = context.WithValue(ctx, keyRegime, r) ctx = contextWithValidator(ctx, r.Validator) return ctx }" ∧
    body_RegimeDefFromContext = "{ r, ok := ctx.Value(keyRegime).(*RegimeDef) if !ok { return nil } return r }" ∧
    body_contextWithValidator =
      "{ if v == nil { return ctx } prev := Validators(ctx) list := append(prev[:len(prev):len(prev)], v) return context.WithValue(ctx, validtorsKey, list) }" ∧
    body_AddonDef_WithContext = "{ if ad == nil { return ctx } ctx = contextWithValidator(ctx, ad.Validator) return ctx }" ∧
    body_Party_validationContext = "{ if r := p.RegimeDef(); r != nil { ctx = r.WithContext(ctx) } return ctx }" ∧
    calls_Party_ValidateWithContext.take 2 = ["validationContext", "ValidateStructWithContext"] ∧
    calls_Invoice_validationContext = ["RegimeDef", "WithContext", "AddonDefs", "WithContext"] ∧
    calls_Order_validationContext = ["RegimeDef", "WithContext", "AddonDefs", "WithContext"] ∧
    calls_Delivery_validationContext = ["RegimeDef", "WithContext", "AddonDefs", "WithContext"] ∧
    calls_Payment_validationContext = ["RegimeDef", "WithContext", "AddonDefs", "WithContext"] ∧
    calls_Combo_ValidateWithContext.take 4 = ["Empty", "RegimeDefFromContext", "RegimeDefFor", "Code"] ∧
    withContext_sites =
      [("bill", "Delivery.validationContext"), ("bill", "Invoice.validationContext"), ("bill", "Order.validationContext"),
       ("bill", "Payment.validationContext"), ("org", "Party.validationContext"), ("tax", "RegimeDef.ValidateWithContext")] := by
  decide +kernel

/-- the members of serialised structs that `encoding/json` neither writes nor reads: a
    freshly parsed copy of a document does not carry them.  Definitions (`RegimeDef`,
    `AddonDef`, `Scenario`) hold functions; `schema.Object.payload` is the document itself
    (written by `MarshalJSON`); the rest is what a calculation leaves behind in a document -/
theorem hidden_state_as_modelled :
    hidden_fields =
      [("bill", "CorrectionOptions", "data"), ("bill", "Tax", "tags"), ("schema", "Object", "payload"),
       ("tax", "AddonDef", "Normalizer"), ("tax", "AddonDef", "Validator"), ("tax", "CategoryTotal", "amount"),
       ("tax", "Combo", "retained"), ("tax", "RegimeDef", "Normalizer"), ("tax", "RegimeDef", "Validator"),
       ("tax", "Scenario", "Filter"), ("tax", "Total", "sum")] := by
  decide +kernel

/-- **the verdict of validation is a function of the document's content** as far as the
    structs go: of the state a document carries beside its content (`bill.Tax.tags`,
    `bill.CorrectionOptions.data`, `tax.Combo.retained`, `tax.CategoryTotal.amount`,
    `tax.Total.sum`) none is mentioned in a function whose name starts with `validate`, in
    whatever case; they are read by the calculation, by `UnmarshalJSON` and by the
    correction options only.  (Package-level state is not covered by this.) -/
theorem validation_reads_no_hidden_document_state :
    (hidden_readers.filter fun r =>
        (r.1 == "bill" && (r.2.2.2 == "tags" || r.2.2.2 == "data") ||
         r.1 == "tax" && (r.2.2.2 == "retained" || r.2.2.2 == "amount" || r.2.2.2 == "sum")) &&
        r.2.2.1 == "validate") = [] ∧
    (hidden_readers.map (·.2.1)).eraseDups =
      ["Invoice.UnmarshalJSON", "Tax.UnmarshalJSON", "WithData", "prepareCorrectionOptions",
       "Object.Calculate", "Object.Correct", "Object.CorrectionOptionsSchema", "Object.Instance", "Object.IsEmpty",
       "Object.MarshalJSON", "Object.Replicate", "Object.UUID", "Object.UnmarshalJSON", "Object.ValidateWithContext",
       "Object.insert", "AddonDef.WithContext", "CategoryTotal.PreciseAmount", "Combo.calculateForRegime",
       "ExtractNormalizers", "RegimeDef.NormalizeObject", "RegimeDef.ValidateObject", "RegimeDef.WithContext",
       "Scenario.match", "Total.Clone", "Total.Merge", "Total.Negate", "Total.PreciseSum", "Total.round",
       "TotalCalculator.removeIncludedTaxes", "newCategoryTotal"] := by
  decide +kernel

end Context

/-- every published extension key has at most one definition, so the registry
    lookup of the model (first match) and of the code (map) agree -/
theorem extension_registry_is_a_map :
    ((defs.allExtDefs.map (·.key)).eraseDups.length == defs.allExtDefs.length) = true := by decide +kernel

/-- no two published (live) regimes answer for the same country code -/
theorem regime_codes_disjoint :
    (((defs.liveRegimes.flatMap fun r => r.country :: r.alt).eraseDups.length) ==
      (defs.liveRegimes.flatMap fun r => r.country :: r.alt).length) = true := by decide +kernel

end Expect

end GoblVerif.Props.C18
