/-
  C05 — Decimal amount arithmetic is exact with round-half-away-from-zero.

  Only property theorems live here (helper lemmas: Proofs/Float53.lean,
  Proofs/Num.lean).  Every theorem is about the *faithful* model of
  /repo/num (float64 detour included) and relates it to rational
  arithmetic rounded half away from zero (Spec/C05.lean).
-/
import GoblVerif.Spec.C05
import GoblVerif.Generated.NumFacts
import GoblVerif.Proofs.Num
import Mathlib.Tactic.Linarith
import Mathlib.Tactic.FieldSimp

namespace GoblVerif.Props.C05
open GoblVerif GoblVerif.Spec

/-! ## the rounding meant by the specification -/

theorem roundHalfAway_eq_goRound : roundHalfAway = goRound := rfl

/-- `roundHalfAway` is a nearest integer, and at a tie it is the one further from zero. -/
theorem rounding_is_half_away (q : ℚ) :
    |((roundHalfAway q : ℤ) : ℚ) - q| ≤ 1/2 ∧
    (|((roundHalfAway q : ℤ) : ℚ) - q| = 1/2 → |q| < |((roundHalfAway q : ℤ) : ℚ)|) := by
  unfold roundHalfAway
  by_cases h : 0 ≤ q
  · rw [if_pos h]
    have h1 : (((q + 1/2).floor : ℤ) : ℚ) ≤ q + 1/2 := Int.floor_le _
    have h2 : q + 1/2 < (((q + 1/2).floor : ℤ) : ℚ) + 1 := Int.lt_floor_add_one _
    constructor
    · rw [abs_le]; constructor <;> linarith
    · intro he
      have hr : (0:ℚ) ≤ (((q + 1/2).floor : ℤ) : ℚ) := by
        have : (0:ℤ) ≤ (q + 1/2).floor := by
          rw [ratfloor_eq]; exact Int.floor_nonneg.mpr (by linarith)
        exact_mod_cast this
      rw [abs_of_nonneg h, abs_of_nonneg hr]
      rcases abs_eq (by norm_num : (0:ℚ) ≤ 1/2) |>.mp he with e | e <;> linarith
  · rw [if_neg h]
    have hq : q < 0 := lt_of_not_ge h
    have h1 : (((-q + 1/2).floor : ℤ) : ℚ) ≤ -q + 1/2 := Int.floor_le _
    have h2 : -q + 1/2 < (((-q + 1/2).floor : ℤ) : ℚ) + 1 := Int.lt_floor_add_one _
    push_cast
    constructor
    · rw [abs_le]; constructor <;> linarith
    · intro he
      have hr : (0:ℚ) ≤ (((-q + 1/2).floor : ℤ) : ℚ) := by
        have : (0:ℤ) ≤ (-q + 1/2).floor := by
          rw [ratfloor_eq]; exact Int.floor_nonneg.mpr (by linarith)
        exact_mod_cast this
      rw [abs_of_neg hq, abs_neg, abs_of_nonneg hr]
      rcases abs_eq (by norm_num : (0:ℚ) ≤ 1/2) |>.mp he with e | e <;> linarith

theorem small_iff (i : ℤ) : small i ↔ |i| < 2 ^ 52 := by
  unfold small; rw [Int.abs_eq_natAbs]; omega

/-! ## helper facts about `toRat` (local, no model content) -/

private theorem p10q_pos (e : ℕ) : (0 : ℚ) < ((pow10 e : ℤ) : ℚ) := by
  exact_mod_cast pow10_pos e

private theorem p10q_ne (e : ℕ) : ((pow10 e : ℤ) : ℚ) ≠ 0 := ne_of_gt (p10q_pos e)

private theorem pow10_add (a b : ℕ) : pow10 (a + b) = pow10 a * pow10 b := by
  unfold pow10; exact pow_add _ _ _

/-! ## multiply, divide -/

/-- `Amount.Multiply`: exact product rounded half away from zero at the receiver's precision. -/
theorem multiply_spec (a b : Amount) (hm : small (a.value * b.value)) (he : b.exp ≤ 22) :
    (a.multiply b).exp = a.exp ∧
    (a.multiply b).value = roundTo a.exp (a.toRat * b.toRat) := by
  rw [multiply_exact a b ((small_iff _).mp hm) he]
  refine ⟨rfl, ?_⟩
  show rha (a.value * b.value) (pow10 b.exp) = _
  rw [← goRound_div_pos _ _ (pow10_pos _)]
  unfold roundTo Amount.toRat
  rw [roundHalfAway_eq_goRound]
  congr 1
  have := p10q_ne a.exp; have := p10q_ne b.exp
  push_cast; field_simp

/-- `Amount.Divide`: exact quotient rounded half away from zero at the receiver's precision. -/
theorem divide_spec (a b : Amount) (hb : b.value ≠ 0) (hn : small (a.value * pow10 b.exp))
    (hd : b.value.natAbs < 2 ^ 53) :
    (a.divide b).exp = a.exp ∧
    (a.divide b).value = roundTo a.exp (a.toRat / b.toRat) := by
  rw [divide_exact a b hb ((small_iff _).mp hn) (by rw [Int.abs_eq_natAbs]; omega)]
  have hbq : (b.value : ℚ) ≠ 0 := by exact_mod_cast hb
  have h1 := p10q_ne a.exp; have h2 := p10q_ne b.exp
  have key : a.toRat / b.toRat * ((pow10 a.exp : ℤ) : ℚ)
      = ((a.value * pow10 b.exp : ℤ) : ℚ) / (b.value : ℚ) := by
    unfold Amount.toRat; push_cast; field_simp
  unfold Amount.divX roundTo
  rw [roundHalfAway_eq_goRound, key]
  refine ⟨by split <;> rfl, ?_⟩
  by_cases hpos : 0 < b.value
  · simp only [hpos, if_true]
    exact (goRound_div_pos _ _ hpos).symm
  · simp only [hpos, if_false]
    exact (goRound_div_neg _ _ (by omega)).symm

/-! ## rescale -/

/-- lowering the precision rounds the same value half away from zero -/
theorem rescale_down_spec (a : Amount) (e : ℕ) (h : e < a.exp) (hv : small a.value)
    (he : a.exp - e ≤ 22) :
    (a.rescale e).exp = e ∧ (a.rescale e).value = roundTo e a.toRat := by
  rw [rescale_exact a e ((small_iff _).mp hv) he]
  unfold Amount.rescaleX
  rw [if_pos h]
  refine ⟨rfl, ?_⟩
  show rha a.value (pow10 (a.exp - e)) = _
  rw [← goRound_div_pos _ _ (pow10_pos _)]
  unfold roundTo Amount.toRat
  rw [roundHalfAway_eq_goRound]
  congr 1
  have h1 := p10q_ne a.exp; have h2 := p10q_ne e; have h3 := p10q_ne (a.exp - e)
  have : pow10 a.exp = pow10 e * pow10 (a.exp - e) := by
    rw [← pow10_add]; congr 1; omega
  rw [this]; push_cast; field_simp

/-- raising (or keeping) the precision never loses information -/
theorem rescale_up_lossless (a : Amount) (e : ℕ) (h : a.exp ≤ e) :
    (a.rescale e).exp = e ∧ (a.rescale e).toRat = a.toRat := by
  unfold Amount.rescale
  have h0 : ¬ a.exp > e := by omega
  rw [if_neg h0]
  by_cases h1 : a.exp < e
  · rw [if_pos h1]
    refine ⟨rfl, ?_⟩
    show ((a.value * pow10 (e - a.exp) : ℤ) : ℚ) / ((pow10 e : ℤ) : ℚ) = (a.value : ℚ) / ((pow10 a.exp : ℤ) : ℚ)
    have : pow10 e = pow10 a.exp * pow10 (e - a.exp) := by
      rw [← pow10_add]; congr 1; omega
    rw [this]
    have h2 := p10q_ne a.exp; have h3 := p10q_ne (e - a.exp)
    push_cast; field_simp
  · rw [if_neg h1]
    exact ⟨by omega, rfl⟩

/-! ## add, subtract, negate -/

/-- adding an amount of no greater precision is exact -/
theorem add_lossless (a b : Amount) (h : b.exp ≤ a.exp) :
    (a.add b).exp = a.exp ∧ (a.add b).toRat = a.toRat + b.toRat := by
  obtain ⟨he, hr⟩ := rescale_up_lossless b a.exp h
  refine ⟨rfl, ?_⟩
  rw [← hr]
  unfold Amount.add Amount.toRat
  simp only [he]
  push_cast; ring

theorem sub_lossless (a b : Amount) (h : b.exp ≤ a.exp) :
    (a.sub b).exp = a.exp ∧ (a.sub b).toRat = a.toRat - b.toRat := by
  obtain ⟨he, hr⟩ := rescale_up_lossless b a.exp h
  refine ⟨rfl, ?_⟩
  rw [← hr]
  unfold Amount.sub Amount.toRat
  simp only [he]
  push_cast; ring

/-- adding a finer amount first rounds it to the receiver's precision (the documented result precision) -/
theorem add_finer_spec (a b : Amount) (h : a.exp < b.exp) (hv : small b.value) (he : b.exp - a.exp ≤ 22) :
    (a.add b).exp = a.exp ∧ (a.add b).value = a.value + roundTo a.exp b.toRat := by
  obtain ⟨_, hr⟩ := rescale_down_spec b a.exp h hv he
  exact ⟨rfl, by unfold Amount.add; simp only [hr]⟩

theorem negate_spec (a : Amount) : (a.negate).exp = a.exp ∧ (a.negate).toRat = - a.toRat := by
  refine ⟨rfl, ?_⟩
  unfold Amount.negate Amount.toRat
  push_cast; ring

theorem negate_involutive (a : Amount) : a.negate.negate = a := by
  cases a; simp [Amount.negate]

/-- rounding is symmetric: the basis of C17's negation symmetry -/
theorem rha_neg (n d : ℤ) (hd : 0 < d) : rha (-n) d = - rha n d := by
  unfold rha
  by_cases h1 : 0 ≤ n
  · by_cases h2 : 0 ≤ -n
    · have : n = 0 := by omega
      subst this
      have : d / (2 * d) = 0 := Int.ediv_eq_zero_of_lt (by omega) (by omega)
      simp [this]
    · rw [if_neg h2, if_pos h1, neg_neg]
  · have h2 : 0 ≤ -n := by omega
    rw [if_pos h2, if_neg h1, neg_neg]

/-! ## compare / equals -/

theorem compare_spec (a b : Amount) : a.compare b = Spec.cmp a.toRat b.toRat := by
  set e := (if b.exp > a.exp then b.exp else a.exp) with he
  have hae : a.exp ≤ e := by rw [he]; split <;> omega
  have hbe : b.exp ≤ e := by rw [he]; split <;> omega
  obtain ⟨ea, ra⟩ := rescale_up_lossless a e hae
  obtain ⟨eb, rb⟩ := rescale_up_lossless b e hbe
  have hp := p10q_pos e
  have ka : a.toRat = ((a.rescale e).value : ℚ) / ((pow10 e : ℤ) : ℚ) := by
    rw [← ra]; unfold Amount.toRat; rw [ea]
  have kb : b.toRat = ((b.rescale e).value : ℚ) / ((pow10 e : ℤ) : ℚ) := by
    rw [← rb]; unfold Amount.toRat; rw [eb]
  unfold Amount.compare Spec.cmp
  simp only [← he]
  rw [ka, kb]
  simp only [gt_iff_lt, div_lt_div_iff_of_pos_right hp, Int.cast_lt]

theorem equals_spec (a b : Amount) : a.equals b = true ↔ a.toRat = b.toRat := by
  unfold Amount.equals
  rw [compare_spec]
  unfold Spec.cmp
  constructor
  · intro h
    by_cases h1 : a.toRat < b.toRat
    · simp [h1] at h
    · by_cases h2 : a.toRat > b.toRat
      · simp [h1, h2] at h
      · exact le_antisymm (not_lt.mp h2) (not_lt.mp h1)
  · intro h; simp [h]

/-! ## split -/

/-- the parts of a split add back to the original, exactly -/
theorem split_sum (a : Amount) (x : ℤ) (hx : 1 ≤ x) (hv : small a.value) (hx53 : x.natAbs < 2 ^ 53)
    (hp : small ((a.divide ⟨x, 0⟩).value * (x - 1))) :
    (x - 1 : ℚ) * (a.split x).1.toRat + (a.split x).2.toRat = a.toRat := by
  have hdiv := divide_spec a ⟨x, 0⟩ (by simp; omega) (by simpa [pow10] using hv) (by simpa using hx53)
  set p := a.divide ⟨x, 0⟩ with hpdef
  have hmul := multiply_exact p ⟨x - 1, 0⟩ ((small_iff _).mp hp) (by simp)
  have hpe : p.exp = a.exp := hdiv.1
  unfold Amount.split
  simp only [← hpdef]
  rw [hmul]
  have h3 : (p.mulX ⟨x - 1, 0⟩) = ⟨p.value * (x - 1), a.exp⟩ := by
    unfold Amount.mulX
    simp only [pow10, pow_zero, hpe]
    congr 1
    unfold rha
    split <;> simp <;> omega
  rw [h3]
  have h4 := sub_lossless a ⟨p.value * (x - 1), a.exp⟩ (le_refl _)
  rw [h4.2]
  unfold Amount.toRat
  simp only [hpe]
  push_cast; ring

/-! ## percentages -/

/-- `Percentage.Of` -/
theorem pct_of_spec (p : Pct) (a : Amount) (hm : small (a.value * p.amount.value)) (he : p.amount.exp ≤ 22) :
    (p.of a).exp = a.exp ∧ (p.of a).value = roundTo a.exp (a.toRat * p.amount.toRat) :=
  multiply_spec a p.amount hm he

/-- `Percentage.Factor` is exactly 1 + p at p's precision -/
theorem pct_factor_spec (p : Pct) :
    p.factor.exp = p.amount.exp ∧ p.factor.toRat = p.amount.toRat + 1 := by
  have := add_lossless p.amount factor1 (Nat.zero_le _)
  refine ⟨this.1, ?_⟩
  rw [Pct.factor, this.2]
  simp [factor1, Amount.toRat, pow10]

/-- `Amount.Remove` / the division inside `Percentage.From` -/
theorem remove_spec (a : Amount) (p : Pct) (hf : p.factor.value ≠ 0)
    (hn : small (a.value * pow10 p.amount.exp)) (hd : p.factor.value.natAbs < 2 ^ 53) :
    (a.remove p).exp = a.exp ∧ (a.remove p).value = roundTo a.exp (a.toRat / (1 + p.amount.toRat)) := by
  have hfs := pct_factor_spec p
  have := divide_spec a p.factor hf (by rw [hfs.1]; exact hn) hd
  rw [hfs.2, add_comm] at this
  exact this

/-- `Percentage.From`: a − round(a / (1+p)) -/
theorem pct_from_spec (p : Pct) (a : Amount) (hf : p.factor.value ≠ 0)
    (hn : small (a.value * pow10 p.amount.exp)) (hd : p.factor.value.natAbs < 2 ^ 53) :
    (p.from a).exp = a.exp ∧ (p.from a).value = a.value - roundTo a.exp (a.toRat / (1 + p.amount.toRat)) := by
  have h := remove_spec a p hf hn hd
  unfold Amount.remove at h
  refine ⟨rfl, ?_⟩
  unfold Pct.from Amount.sub
  have hx : ((a.divide p.factor).rescale a.exp) = a.divide p.factor := by
    unfold Amount.rescale
    rw [h.1]; simp
  simp only [hx, h.2]

/-- `PercentageFromAmount` keeps the digits and adds two decimals, for every
    amount: since the fix "PercentageFromAmount keeps the digits instead of
    multiplying and dividing by 100" there is no float and no multiplication on
    the way, so the former hypothesis `small (a.value * 100)` is gone. -/
theorem pct_ofAmount_spec (a : Amount) :
    (Pct.ofAmount a).amount = ⟨a.value, a.exp + 2⟩ := rfl

/-- … and that is exactly a hundredth of the amount. -/
theorem pct_ofAmount_value (a : Amount) : (Pct.ofAmount a).amount.toRat = a.toRat / 100 := by
  rw [pct_ofAmount_spec]
  unfold Amount.toRat pow10
  simp only
  push_cast
  rw [pow_add]
  have h10 : ((10 : ℚ)) ^ a.exp ≠ 0 := by positivity
  field_simp
  norm_num

/-- `Percentage.Amount` is a hundred times the value, exactly, with two decimals
    fewer (none below two): integer arithmetic only (`RescaleUp(2)`). -/
theorem pct_amount_spec (p : Pct) :
    p.toAmount = ⟨p.amount.value * 10 ^ (2 - p.amount.exp), p.amount.exp - 2⟩ ∧
    p.toAmount.toRat = p.amount.toRat * 100 := by
  obtain ⟨⟨v, e⟩⟩ := p
  have h : Pct.toAmount ⟨⟨v, e⟩⟩ = ⟨v * 10 ^ (2 - e), e - 2⟩ := by
    unfold Pct.toAmount Amount.rescaleUp Amount.rescale
    by_cases h2 : 2 > e
    · have h3 : ¬ e > 2 := by omega
      have h4 : e < 2 := by omega
      have h5 : 2 - 2 = e - 2 := by omega
      simp only [h2, h3, h4, if_true, if_false, pow10, h5]
    · have h5 : 2 - e = 0 := by omega
      simp only [h2, if_false, h5, pow_zero, mul_one]
  refine ⟨h, ?_⟩
  rw [h]
  unfold Amount.toRat pow10
  simp only
  by_cases h2 : 2 ≤ e
  · obtain ⟨k, rfl⟩ : ∃ k, e = k + 2 := ⟨e - 2, by omega⟩
    have e1 : 2 - (k + 2) = 0 := by omega
    rw [e1]
    simp only [pow_zero, mul_one, Nat.add_sub_cancel]
    push_cast
    rw [pow_add]
    have h10 : ((10 : ℚ)) ^ k ≠ 0 := by positivity
    field_simp
    norm_num
  · have : e = 0 ∨ e = 1 := by omega
    rcases this with rfl | rfl
    · norm_num
    · norm_num
      ring

/-! ## thresholds -/

theorem threshold_spec (op : ℕ) (t v : Amount) :
    thresholdCompare op t v = true ↔
      (match op with
       | 0 => v.toRat > t.toRat
       | 1 => v.toRat ≥ t.toRat
       | 2 => v.toRat < t.toRat
       | 3 => v.toRat ≤ t.toRat
       | _ => v.toRat ≠ t.toRat) := by
  unfold thresholdCompare
  simp only [compare_spec]
  unfold Spec.cmp
  rcases lt_trichotomy v.toRat t.toRat with h | h | h
  · have h' : ¬ v.toRat > t.toRat := not_lt.mpr h.le
    match op with
    | 0 | 1 | 2 | 3 => simp [h, h', h.le, h.ne]
    | n + 4 => simp [h, h.ne]
  · match op with
    | 0 | 1 | 2 | 3 => simp [h]
    | n + 4 => simp [h]
  · have h' : ¬ v.toRat < t.toRat := not_lt.mpr h.le
    match op with
    | 0 | 1 | 2 | 3 => simp [h, h', h.le, h.ne']
    | n + 4 => simp [h, h', h.ne']

/-! ## non-vacuity: concrete operands inside the domain, at ties, negative, mixed exponents -/

example : small ((-25 : ℤ) * 5) ∧ (Amount.multiply ⟨-25, 1⟩ ⟨5, 1⟩) = ⟨-13, 1⟩ := by
  constructor
  · decide
  · rw [multiply_exact _ _ (by decide) (by decide)]; decide
example : roundTo 1 ((-25 : ℚ) / 10 * (5 / 10)) = -13 := by decide +kernel
example : (Amount.divX ⟨1, 0⟩ ⟨-2, 0⟩) = ⟨-1, 0⟩ := by decide
example : (Amount.splitX ⟨1000, 2⟩ 3) = (⟨333, 2⟩, ⟨334, 2⟩) := by decide


/-! ## expectations over facts regenerated from /repo/num on every run

The model was written against these call shapes; if the code stops going
through `math.Round` (e.g. `math.Floor(v+0.5)`, `math.Trunc`, `math.RoundToEven`)
one of these obligations breaks. -/
namespace Expect
open GoblVerif.Generated.Num

theorem multiply_rounds_with_math_Round : math_Amount_Multiply = ["Round"] := by decide
theorem divide_rounds_with_math_Round : math_Amount_Divide = ["Round"] := by decide
theorem rescale_rounds_with_math_Round : math_Amount_Rescale = ["Round"] := by decide
theorem fromFloat_rounds_with_math_Round : math_AmountFromFloat64 = ["Round"] := by decide
theorem add_rescales_argument : calls_Amount_Add = ["Rescale"] := by decide
theorem subtract_rescales_argument : calls_Amount_Subtract = ["Rescale"] := by decide
theorem factor_constants : GoblVerif.Generated.Num.factor1 = (1, 0) := by decide
theorem model_constants : (GoblVerif.factor1.value, GoblVerif.factor1.exp) = GoblVerif.Generated.Num.factor1 := by decide
/-- the two conversions between amounts and percentages only move the decimal
    point: no `Multiply` / `Divide` / `Rescale` through float64 (the model's
    `Pct.ofAmount` / `Pct.toAmount` are written for exactly these bodies) -/
theorem percentage_conversions_shift_the_point :
    calls_PercentageFromAmount = [] ∧ calls_Percentage_Amount = ["RescaleUp"] := by decide

end Expect

end GoblVerif.Props.C05
