/-
  C05 — Decimal amount arithmetic is exact with round-half-away-from-zero.

  Only property theorems live here (helper lemmas: Proofs/Float53.lean,
  Proofs/Num.lean, Proofs/GoSem.lean).  Every theorem is about the *faithful* model of
  /repo/num (float64 detour included) and relates it to rational
  arithmetic rounded half away from zero (Spec/C05.lean).

  `namespace Src` (at the end) ties that faithful model to the source: each of
  its functions is proved equal to the definition that the go2lean translator
  regenerates from /repo/num on every run (Generated/NumSrc.lean).
-/
import GoblVerif.Spec.C05
import GoblVerif.Generated.NumFacts
import GoblVerif.Generated.NumSrc
import GoblVerif.Proofs.GoSem
import GoblVerif.Proofs.Num
import Mathlib.Tactic.Linarith
import Mathlib.Tactic.FieldSimp

namespace GoblVerif.Props.C05
open GoblVerif GoblVerif.Spec

/-! ## the rounding meant by the specification -/

theorem roundHalfAway_eq_goRound : roundHalfAway = goRound := rfl

/-- `roundHalfAway` is a nearest integer, and at a tie it is the one further from zero. -/
theorem rounding_is_half_away (q : ℚ) :
    |((roundHalfAway q : ℤ) : ℚ) - q| ≤ 1/2 ∧
    (|((roundHalfAway q : ℤ) : ℚ) - q| = 1/2 → |q| < |((roundHalfAway q : ℤ) : ℚ)|) := by
  unfold roundHalfAway
  by_cases h : 0 ≤ q
  · rw [if_pos h]
    have h1 : (((q + 1/2).floor : ℤ) : ℚ) ≤ q + 1/2 := Int.floor_le _
    have h2 : q + 1/2 < (((q + 1/2).floor : ℤ) : ℚ) + 1 := Int.lt_floor_add_one _
    constructor
    · rw [abs_le]; constructor <;> linarith
    · intro he
      have hr : (0:ℚ) ≤ (((q + 1/2).floor : ℤ) : ℚ) := by
        have : (0:ℤ) ≤ (q + 1/2).floor := by
          rw [ratfloor_eq]; exact Int.floor_nonneg.mpr (by linarith)
        exact_mod_cast this
      rw [abs_of_nonneg h, abs_of_nonneg hr]
      rcases abs_eq (by norm_num : (0:ℚ) ≤ 1/2) |>.mp he with e | e <;> linarith
  · rw [if_neg h]
    have hq : q < 0 := lt_of_not_ge h
    have h1 : (((-q + 1/2).floor : ℤ) : ℚ) ≤ -q + 1/2 := Int.floor_le _
    have h2 : -q + 1/2 < (((-q + 1/2).floor : ℤ) : ℚ) + 1 := Int.lt_floor_add_one _
    push_cast
    constructor
    · rw [abs_le]; constructor <;> linarith
    · intro he
      have hr : (0:ℚ) ≤ (((-q + 1/2).floor : ℤ) : ℚ) := by
        have : (0:ℤ) ≤ (-q + 1/2).floor := by
          rw [ratfloor_eq]; exact Int.floor_nonneg.mpr (by linarith)
        exact_mod_cast this
      rw [abs_of_neg hq, abs_neg, abs_of_nonneg hr]
      rcases abs_eq (by norm_num : (0:ℚ) ≤ 1/2) |>.mp he with e | e <;> linarith

theorem small_iff (i : ℤ) : small i ↔ |i| < 2 ^ 52 := by
  unfold small; rw [Int.abs_eq_natAbs]; omega

/-! ## helper facts about `toRat` (local, no model content) -/

private theorem p10q_pos (e : ℕ) : (0 : ℚ) < ((pow10 e : ℤ) : ℚ) := by
  exact_mod_cast pow10_pos e

private theorem p10q_ne (e : ℕ) : ((pow10 e : ℤ) : ℚ) ≠ 0 := ne_of_gt (p10q_pos e)

private theorem pow10_add (a b : ℕ) : pow10 (a + b) = pow10 a * pow10 b := by
  unfold pow10; exact pow_add _ _ _

/-! ## multiply, divide -/

/-- `Amount.Multiply`: exact product rounded half away from zero at the receiver's precision. -/
theorem multiply_spec (a b : Amount) (hm : small (a.value * b.value)) (he : b.exp ≤ 22) :
    (a.multiply b).exp = a.exp ∧
    (a.multiply b).value = roundTo a.exp (a.toRat * b.toRat) := by
  rw [multiply_exact a b ((small_iff _).mp hm) he]
  refine ⟨rfl, ?_⟩
  show rha (a.value * b.value) (pow10 b.exp) = _
  rw [← goRound_div_pos _ _ (pow10_pos _)]
  unfold roundTo Amount.toRat
  rw [roundHalfAway_eq_goRound]
  congr 1
  have := p10q_ne a.exp; have := p10q_ne b.exp
  push_cast; field_simp

/-- `Amount.Divide`: exact quotient rounded half away from zero at the receiver's precision. -/
theorem divide_spec (a b : Amount) (hb : b.value ≠ 0) (hn : small (a.value * pow10 b.exp))
    (hd : b.value.natAbs < 2 ^ 53) :
    (a.divide b).exp = a.exp ∧
    (a.divide b).value = roundTo a.exp (a.toRat / b.toRat) := by
  rw [divide_exact a b hb ((small_iff _).mp hn) (by rw [Int.abs_eq_natAbs]; omega)]
  have hbq : (b.value : ℚ) ≠ 0 := by exact_mod_cast hb
  have h1 := p10q_ne a.exp; have h2 := p10q_ne b.exp
  have key : a.toRat / b.toRat * ((pow10 a.exp : ℤ) : ℚ)
      = ((a.value * pow10 b.exp : ℤ) : ℚ) / (b.value : ℚ) := by
    unfold Amount.toRat; push_cast; field_simp
  unfold Amount.divX roundTo
  rw [roundHalfAway_eq_goRound, key]
  refine ⟨by split <;> rfl, ?_⟩
  by_cases hpos : 0 < b.value
  · simp only [hpos, if_true]
    exact (goRound_div_pos _ _ hpos).symm
  · simp only [hpos, if_false]
    exact (goRound_div_neg _ _ (by omega)).symm

/-! ## rescale -/

/-- lowering the precision rounds the same value half away from zero -/
theorem rescale_down_spec (a : Amount) (e : ℕ) (h : e < a.exp) (hv : small a.value)
    (he : a.exp - e ≤ 22) :
    (a.rescale e).exp = e ∧ (a.rescale e).value = roundTo e a.toRat := by
  rw [rescale_exact a e ((small_iff _).mp hv) he]
  unfold Amount.rescaleX
  rw [if_pos h]
  refine ⟨rfl, ?_⟩
  show rha a.value (pow10 (a.exp - e)) = _
  rw [← goRound_div_pos _ _ (pow10_pos _)]
  unfold roundTo Amount.toRat
  rw [roundHalfAway_eq_goRound]
  congr 1
  have h1 := p10q_ne a.exp; have h2 := p10q_ne e; have h3 := p10q_ne (a.exp - e)
  have : pow10 a.exp = pow10 e * pow10 (a.exp - e) := by
    rw [← pow10_add]; congr 1; omega
  rw [this]; push_cast; field_simp

/-- raising (or keeping) the precision never loses information -/
theorem rescale_up_lossless (a : Amount) (e : ℕ) (h : a.exp ≤ e) :
    (a.rescale e).exp = e ∧ (a.rescale e).toRat = a.toRat := by
  unfold Amount.rescale
  have h0 : ¬ a.exp > e := by omega
  rw [if_neg h0]
  by_cases h1 : a.exp < e
  · rw [if_pos h1]
    refine ⟨rfl, ?_⟩
    show ((a.value * pow10 (e - a.exp) : ℤ) : ℚ) / ((pow10 e : ℤ) : ℚ) = (a.value : ℚ) / ((pow10 a.exp : ℤ) : ℚ)
    have : pow10 e = pow10 a.exp * pow10 (e - a.exp) := by
      rw [← pow10_add]; congr 1; omega
    rw [this]
    have h2 := p10q_ne a.exp; have h3 := p10q_ne (e - a.exp)
    push_cast; field_simp
  · rw [if_neg h1]
    exact ⟨by omega, rfl⟩

/-! ## add, subtract, negate -/

/-- adding an amount of no greater precision is exact -/
theorem add_lossless (a b : Amount) (h : b.exp ≤ a.exp) :
    (a.add b).exp = a.exp ∧ (a.add b).toRat = a.toRat + b.toRat := by
  obtain ⟨he, hr⟩ := rescale_up_lossless b a.exp h
  refine ⟨rfl, ?_⟩
  rw [← hr]
  unfold Amount.add Amount.toRat
  simp only [he]
  push_cast; ring

theorem sub_lossless (a b : Amount) (h : b.exp ≤ a.exp) :
    (a.sub b).exp = a.exp ∧ (a.sub b).toRat = a.toRat - b.toRat := by
  obtain ⟨he, hr⟩ := rescale_up_lossless b a.exp h
  refine ⟨rfl, ?_⟩
  rw [← hr]
  unfold Amount.sub Amount.toRat
  simp only [he]
  push_cast; ring

/-- adding a finer amount first rounds it to the receiver's precision (the documented result precision) -/
theorem add_finer_spec (a b : Amount) (h : a.exp < b.exp) (hv : small b.value) (he : b.exp - a.exp ≤ 22) :
    (a.add b).exp = a.exp ∧ (a.add b).value = a.value + roundTo a.exp b.toRat := by
  obtain ⟨_, hr⟩ := rescale_down_spec b a.exp h hv he
  exact ⟨rfl, by unfold Amount.add; simp only [hr]⟩

theorem negate_spec (a : Amount) : (a.negate).exp = a.exp ∧ (a.negate).toRat = - a.toRat := by
  refine ⟨rfl, ?_⟩
  unfold Amount.negate Amount.toRat
  push_cast; ring

theorem negate_involutive (a : Amount) : a.negate.negate = a := by
  cases a; simp [Amount.negate]

/-- rounding is symmetric: the basis of C17's negation symmetry -/
theorem rha_neg (n d : ℤ) (hd : 0 < d) : rha (-n) d = - rha n d := by
  unfold rha
  by_cases h1 : 0 ≤ n
  · by_cases h2 : 0 ≤ -n
    · have : n = 0 := by omega
      subst this
      have : d / (2 * d) = 0 := Int.ediv_eq_zero_of_lt (by omega) (by omega)
      simp [this]
    · rw [if_neg h2, if_pos h1, neg_neg]
  · have h2 : 0 ≤ -n := by omega
    rw [if_pos h2, if_neg h1, neg_neg]

/-! ## compare / equals -/

theorem compare_spec (a b : Amount) : a.compare b = Spec.cmp a.toRat b.toRat := by
  set e := (if b.exp > a.exp then b.exp else a.exp) with he
  have hae : a.exp ≤ e := by rw [he]; split <;> omega
  have hbe : b.exp ≤ e := by rw [he]; split <;> omega
  obtain ⟨ea, ra⟩ := rescale_up_lossless a e hae
  obtain ⟨eb, rb⟩ := rescale_up_lossless b e hbe
  have hp := p10q_pos e
  have ka : a.toRat = ((a.rescale e).value : ℚ) / ((pow10 e : ℤ) : ℚ) := by
    rw [← ra]; unfold Amount.toRat; rw [ea]
  have kb : b.toRat = ((b.rescale e).value : ℚ) / ((pow10 e : ℤ) : ℚ) := by
    rw [← rb]; unfold Amount.toRat; rw [eb]
  unfold Amount.compare Spec.cmp
  simp only [← he]
  rw [ka, kb]
  simp only [gt_iff_lt, div_lt_div_iff_of_pos_right hp, Int.cast_lt]

theorem equals_spec (a b : Amount) : a.equals b = true ↔ a.toRat = b.toRat := by
  unfold Amount.equals
  rw [compare_spec]
  unfold Spec.cmp
  constructor
  · intro h
    by_cases h1 : a.toRat < b.toRat
    · simp [h1] at h
    · by_cases h2 : a.toRat > b.toRat
      · simp [h1, h2] at h
      · exact le_antisymm (not_lt.mp h2) (not_lt.mp h1)
  · intro h; simp [h]

/-! ## split -/

/-- the parts of a split add back to the original, exactly -/
theorem split_sum (a : Amount) (x : ℤ) (hx : 1 ≤ x) (hv : small a.value) (hx53 : x.natAbs < 2 ^ 53)
    (hp : small ((a.divide ⟨x, 0⟩).value * (x - 1))) :
    (x - 1 : ℚ) * (a.split x).1.toRat + (a.split x).2.toRat = a.toRat := by
  have hdiv := divide_spec a ⟨x, 0⟩ (by simp; omega) (by simpa [pow10] using hv) (by simpa using hx53)
  set p := a.divide ⟨x, 0⟩ with hpdef
  have hmul := multiply_exact p ⟨x - 1, 0⟩ ((small_iff _).mp hp) (by simp)
  have hpe : p.exp = a.exp := hdiv.1
  unfold Amount.split
  simp only [← hpdef]
  rw [hmul]
  have h3 : (p.mulX ⟨x - 1, 0⟩) = ⟨p.value * (x - 1), a.exp⟩ := by
    unfold Amount.mulX
    simp only [pow10, pow_zero, hpe]
    congr 1
    unfold rha
    split <;> simp <;> omega
  rw [h3]
  have h4 := sub_lossless a ⟨p.value * (x - 1), a.exp⟩ (le_refl _)
  rw [h4.2]
  unfold Amount.toRat
  simp only [hpe]
  push_cast; ring

/-! ## percentages -/

/-- `Percentage.Of` -/
theorem pct_of_spec (p : Pct) (a : Amount) (hm : small (a.value * p.amount.value)) (he : p.amount.exp ≤ 22) :
    (p.of a).exp = a.exp ∧ (p.of a).value = roundTo a.exp (a.toRat * p.amount.toRat) :=
  multiply_spec a p.amount hm he

/-- `Percentage.Factor` is exactly 1 + p at p's precision -/
theorem pct_factor_spec (p : Pct) :
    p.factor.exp = p.amount.exp ∧ p.factor.toRat = p.amount.toRat + 1 := by
  have := add_lossless p.amount factor1 (Nat.zero_le _)
  refine ⟨this.1, ?_⟩
  rw [Pct.factor, this.2]
  simp [factor1, Amount.toRat, pow10]

/-- `Amount.Remove` / the division inside `Percentage.From` -/
theorem remove_spec (a : Amount) (p : Pct) (hf : p.factor.value ≠ 0)
    (hn : small (a.value * pow10 p.amount.exp)) (hd : p.factor.value.natAbs < 2 ^ 53) :
    (a.remove p).exp = a.exp ∧ (a.remove p).value = roundTo a.exp (a.toRat / (1 + p.amount.toRat)) := by
  have hfs := pct_factor_spec p
  have := divide_spec a p.factor hf (by rw [hfs.1]; exact hn) hd
  rw [hfs.2, add_comm] at this
  exact this

/-- `Percentage.From`: a − round(a / (1+p)) -/
theorem pct_from_spec (p : Pct) (a : Amount) (hf : p.factor.value ≠ 0)
    (hn : small (a.value * pow10 p.amount.exp)) (hd : p.factor.value.natAbs < 2 ^ 53) :
    (p.from a).exp = a.exp ∧ (p.from a).value = a.value - roundTo a.exp (a.toRat / (1 + p.amount.toRat)) := by
  have h := remove_spec a p hf hn hd
  unfold Amount.remove at h
  refine ⟨rfl, ?_⟩
  unfold Pct.from Amount.sub
  have hx : ((a.divide p.factor).rescale a.exp) = a.divide p.factor := by
    unfold Amount.rescale
    rw [h.1]; simp
  simp only [hx, h.2]

/-- `PercentageFromAmount` keeps the digits and adds two decimals, for every
    amount: since the fix "PercentageFromAmount keeps the digits instead of
    multiplying and dividing by 100" there is no float and no multiplication on
    the way, so the former hypothesis `small (a.value * 100)` is gone. -/
theorem pct_ofAmount_spec (a : Amount) :
    (Pct.ofAmount a).amount = ⟨a.value, a.exp + 2⟩ := rfl

/-- … and that is exactly a hundredth of the amount. -/
theorem pct_ofAmount_value (a : Amount) : (Pct.ofAmount a).amount.toRat = a.toRat / 100 := by
  rw [pct_ofAmount_spec]
  unfold Amount.toRat pow10
  simp only
  push_cast
  rw [pow_add]
  have h10 : ((10 : ℚ)) ^ a.exp ≠ 0 := by positivity
  field_simp
  norm_num

/-- `Percentage.Amount` is a hundred times the value, exactly, with two decimals
    fewer (none below two): integer arithmetic only (`RescaleUp(2)`). -/
theorem pct_amount_spec (p : Pct) :
    p.toAmount = ⟨p.amount.value * 10 ^ (2 - p.amount.exp), p.amount.exp - 2⟩ ∧
    p.toAmount.toRat = p.amount.toRat * 100 := by
  obtain ⟨⟨v, e⟩⟩ := p
  have h : Pct.toAmount ⟨⟨v, e⟩⟩ = ⟨v * 10 ^ (2 - e), e - 2⟩ := by
    unfold Pct.toAmount Amount.rescaleUp Amount.rescale
    by_cases h2 : 2 > e
    · have h3 : ¬ e > 2 := by omega
      have h4 : e < 2 := by omega
      have h5 : 2 - 2 = e - 2 := by omega
      simp only [h2, h3, h4, if_true, if_false, pow10, h5]
    · have h5 : 2 - e = 0 := by omega
      simp only [h2, if_false, h5, pow_zero, mul_one]
  refine ⟨h, ?_⟩
  rw [h]
  unfold Amount.toRat pow10
  simp only
  by_cases h2 : 2 ≤ e
  · obtain ⟨k, rfl⟩ : ∃ k, e = k + 2 := ⟨e - 2, by omega⟩
    have e1 : 2 - (k + 2) = 0 := by omega
    rw [e1]
    simp only [pow_zero, mul_one, Nat.add_sub_cancel]
    push_cast
    rw [pow_add]
    have h10 : ((10 : ℚ)) ^ k ≠ 0 := by positivity
    field_simp
    norm_num
  · have : e = 0 ∨ e = 1 := by omega
    rcases this with rfl | rfl
    · norm_num
    · norm_num
      ring

/-! ## thresholds -/

theorem threshold_spec (op : ℕ) (t v : Amount) :
    thresholdCompare op t v = true ↔
      (match op with
       | 0 => v.toRat > t.toRat
       | 1 => v.toRat ≥ t.toRat
       | 2 => v.toRat < t.toRat
       | 3 => v.toRat ≤ t.toRat
       | _ => v.toRat ≠ t.toRat) := by
  unfold thresholdCompare
  simp only [compare_spec]
  unfold Spec.cmp
  rcases lt_trichotomy v.toRat t.toRat with h | h | h
  · have h' : ¬ v.toRat > t.toRat := not_lt.mpr h.le
    match op with
    | 0 | 1 | 2 | 3 => simp [h, h', h.le, h.ne]
    | n + 4 => simp [h, h.ne]
  · match op with
    | 0 | 1 | 2 | 3 => simp [h]
    | n + 4 => simp [h]
  · have h' : ¬ v.toRat < t.toRat := not_lt.mpr h.le
    match op with
    | 0 | 1 | 2 | 3 => simp [h, h', h.le, h.ne']
    | n + 4 => simp [h, h', h.ne']

/-! ## non-vacuity: concrete operands inside the domain, at ties, negative, mixed exponents -/

example : small ((-25 : ℤ) * 5) ∧ (Amount.multiply ⟨-25, 1⟩ ⟨5, 1⟩) = ⟨-13, 1⟩ := by
  constructor
  · decide
  · rw [multiply_exact _ _ (by decide) (by decide)]; decide
example : roundTo 1 ((-25 : ℚ) / 10 * (5 / 10)) = -13 := by decide +kernel
example : (Amount.divX ⟨1, 0⟩ ⟨-2, 0⟩) = ⟨-1, 0⟩ := by decide
example : (Amount.splitX ⟨1000, 2⟩ 3) = (⟨333, 2⟩, ⟨334, 2⟩) := by decide


/-! ## expectations over facts regenerated from /repo/num on every run

The model was written against these call shapes; if the code stops going
through `math.Round` (e.g. `math.Floor(v+0.5)`, `math.Trunc`, `math.RoundToEven`)
one of these obligations breaks. -/
namespace Expect
open GoblVerif.Generated.Num

theorem multiply_rounds_with_math_Round : math_Amount_Multiply = ["Round"] := by decide
theorem divide_rounds_with_math_Round : math_Amount_Divide = ["Round"] := by decide
theorem rescale_rounds_with_math_Round : math_Amount_Rescale = ["Round"] := by decide
theorem fromFloat_rounds_with_math_Round : math_AmountFromFloat64 = ["Round"] := by decide
theorem add_rescales_argument : calls_Amount_Add = ["Rescale"] := by decide
theorem subtract_rescales_argument : calls_Amount_Subtract = ["Rescale"] := by decide
theorem factor_constants : GoblVerif.Generated.Num.factor1 = (1, 0) := by decide
theorem model_constants : (GoblVerif.factor1.value, GoblVerif.factor1.exp) = GoblVerif.Generated.Num.factor1 := by decide
/-- the two conversions between amounts and percentages only move the decimal
    point: no `Multiply` / `Divide` / `Rescale` through float64 (the model's
    `Pct.ofAmount` / `Pct.toAmount` are written for exactly these bodies) -/
theorem percentage_conversions_shift_the_point :
    calls_PercentageFromAmount = [] ∧ calls_Percentage_Amount = ["RescaleUp"] := by decide

end Expect

/-! ## Src — the code as it stands now, translated on this run

`Generated/NumSrc.lean` is written by the go2lean translator
(harness/cmd/extract/go2lean*.go, configuration numsrc.go) from
/repo/num/amount.go, percentage.go and validation.go on EVERY run of the check.
The theorems below prove each regenerated definition equal, for ALL arguments,
to the hand-written faithful-layer function of Model/Num.lean.  With them every
theorem of this file about the faithful layer (and, through Proofs/Num.lean,
about the exact layer, hence the calculation family C01–C04, C17, C20 that is
stated over the exact layer) is a theorem about code regenerated from the
source on this run; `spec_of_the_source_*` spell that out for the main
operations.  An edit of one of these Go functions changes the regenerated
definition and the corresponding `src_*` proof no longer closes.

Trusted: the translator's reading of Go (header of Generated/NumSrc.lean:
int64 → unbounded Int, uint32 → Nat with truncated subtraction — every site is
pinned in `nat_subtractions_as_reviewed` —, float64 through Model/Float53) and
the Float53 model of IEEE-754 binary64 itself (sampled by the differential run). -/
namespace Src
open GoblVerif.Generated GoblVerif.GoSem

/-! ### the translation is complete, and the struct mapping is what the Go declarations say -/

theorem all_translated : NumSrc.untranslated = [] := by decide

theorem struct_Amount_as_mapped :
    NumSrc.struct_Amount = [("value", "int64"), ("exp", "uint32")] ∧
    NumSrc.structLean_Amount = ("GoblVerif.Amount", ["value", "exp"]) ∧
    NumSrc.structOmitted_Amount = [] := by decide

theorem struct_Percentage_as_mapped :
    NumSrc.struct_Percentage = [("amount", "Amount")] ∧
    NumSrc.structLean_Percentage = ("GoblVerif.Pct", ["amount"]) ∧
    NumSrc.structOmitted_Percentage = [] := by decide

/-- `ThresholdRule.err` (a `validation.Error`) is not represented; `compare` does not read it
    (a use would have made the function untranslated) -/
theorem struct_ThresholdRule_as_mapped :
    NumSrc.struct_ThresholdRule = [("threshold", "Amount"), ("operator", "int"), ("err", "validation.Error")] ∧
    NumSrc.structLean_ThresholdRule = ("ThresholdRule", ["threshold", "operator"]) ∧
    NumSrc.structOmitted_ThresholdRule = ["err"] := by decide

/-- every subtraction on `uint32` (truncated in the translation, wrapping in Go),
    with the branch conditions around it: four are guarded syntactically, the
    fifth by `pct_amount_subtraction_guarded` -/
theorem nat_subtractions_as_reviewed :
    NumSrc.natSubs = [
      ("intPow", "exp--", ["exp != 0"]),
      ("Amount.Rescale", "a.exp - exp", ["a.exp > exp"]),
      ("Amount.Rescale", "exp - a.exp", ["a.exp < exp"]),
      ("Amount.Downscale", "a.Exp() - decrease", ["!(decrease > a.Exp())"]),
      ("Percentage.Amount", "a.exp - 2", [])] := by decide

/-- the one loop (in `intPow`) has the fuel `exp`; it never runs out -/
theorem fuel_checks_listed : NumSrc.fuelChecks = ["intPow_fuelOK"] := by decide

theorem src_intPow (base : Int) (e : Nat) : NumSrc.intPow base e = base ^ e := by
  unfold NumSrc.intPow
  simp only [Id.run]
  rw [forIn_range_fuel _ (fun _ _ => rfl)]
  simp only [bind, pure]
  rw [forFuel_countdown _ (fun o => o * base) (by intro s; simp [Id.run]) (by intro k s; simp [Id.run])]
  simp [iter_mul_int]

theorem intPow_fuel_suffices (base : Int) (e : Nat) : NumSrc.intPow_fuelOK base e = true := by
  unfold NumSrc.intPow_fuelOK
  simp only [Id.run]
  rw [forIn_range_fuel _ (fun _ _ => rfl)]
  simp only [bind, pure]
  rw [forFuel_countdown _ (fun o => o * base) (by intro s; simp [Id.run]) (by intro k s; simp [Id.run])]
  simp

theorem src_pow10 (e : Nat) : NumSrc.intPow 10 e = pow10 e := src_intPow 10 e

theorem src_MakeAmount (v : Int) (e : Nat) : NumSrc.MakeAmount v e = ⟨v, e⟩ := rfl

theorem src_Rescale (a : Amount) (e : Nat) : NumSrc.Amount_Rescale a e = a.rescale e := by
  unfold NumSrc.Amount_Rescale Amount.rescale
  simp only [src_pow10]
  rfl

theorem src_Add (a b : Amount) : NumSrc.Amount_Add a b = a.add b := by
  unfold NumSrc.Amount_Add Amount.add
  simp only [src_Rescale]
  rfl

theorem src_Subtract (a b : Amount) : NumSrc.Amount_Subtract a b = a.sub b := by
  unfold NumSrc.Amount_Subtract Amount.sub
  simp only [src_Rescale]
  rfl

theorem src_Multiply (a b : Amount) : NumSrc.Amount_Multiply a b = a.multiply b := by
  unfold NumSrc.Amount_Multiply Amount.multiply
  simp only [src_pow10]
  rfl

theorem src_Divide (a b : Amount) : NumSrc.Amount_Divide a b = a.divide b := by
  unfold NumSrc.Amount_Divide Amount.divide
  simp only [src_pow10]
  rfl

theorem src_Split (a : Amount) (x : Int) : NumSrc.Amount_Split a x = a.split x := by
  unfold NumSrc.Amount_Split Amount.split
  simp only [src_Divide, src_Multiply, src_Subtract, src_MakeAmount]
  rfl

theorem src_rescaleAmountPair (a b : Amount) :
    NumSrc.rescaleAmountPair a b =
      (a.rescale (if b.exp > a.exp then b.exp else a.exp), b.rescale (if b.exp > a.exp then b.exp else a.exp)) := by
  unfold NumSrc.rescaleAmountPair
  simp only [src_Rescale]
  by_cases h : b.exp > a.exp <;> simp [h, Id.run, id_pure]

theorem src_Compare (a b : Amount) : NumSrc.Amount_Compare a b = a.compare b := by
  unfold NumSrc.Amount_Compare Amount.compare
  simp only [src_rescaleAmountPair]
  rfl

theorem src_Equals (a b : Amount) : NumSrc.Amount_Equals a b = a.equals b := by
  unfold NumSrc.Amount_Equals Amount.equals
  rw [src_Compare]
  by_cases h : a.compare b = 0 <;> simp [h]

theorem src_RescaleUp (a : Amount) (e : Nat) : NumSrc.Amount_RescaleUp a e = a.rescaleUp e := by
  unfold NumSrc.Amount_RescaleUp Amount.rescaleUp
  simp only [src_Rescale]
  rfl

theorem src_RescaleDown (a : Amount) (e : Nat) : NumSrc.Amount_RescaleDown a e = a.rescaleDown e := by
  unfold NumSrc.Amount_RescaleDown Amount.rescaleDown
  simp only [src_Rescale]
  rfl

theorem src_RescaleRange (a : Amount) (mn mx : Nat) : NumSrc.Amount_RescaleRange a mn mx = a.rescaleRange mn mx := by
  unfold NumSrc.Amount_RescaleRange Amount.rescaleRange
  rw [src_RescaleUp, src_RescaleDown]

theorem src_MatchPrecision (a b : Amount) : NumSrc.Amount_MatchPrecision a b = a.matchPrecision b := by
  unfold NumSrc.Amount_MatchPrecision Amount.matchPrecision
  rw [src_RescaleUp]

theorem src_Exp (a : Amount) : NumSrc.Amount_Exp a = a.exp := rfl
theorem src_Value (a : Amount) : NumSrc.Amount_Value a = a.value := rfl

theorem src_Upscale (a : Amount) (n : Nat) : NumSrc.Amount_Upscale a n = a.upscale n := by
  unfold NumSrc.Amount_Upscale Amount.upscale
  rw [src_Rescale, src_Exp]

theorem src_Downscale (a : Amount) (n : Nat) : NumSrc.Amount_Downscale a n = a.downscale n := by
  unfold NumSrc.Amount_Downscale Amount.downscale
  simp only [src_Rescale, src_Exp]
  by_cases h : n > a.exp <;> simp [h, Id.run, id_pure]

theorem src_factor1 : NumSrc.factor1 = GoblVerif.factor1 := rfl

theorem src_Factor (p : Pct) : NumSrc.Percentage_Factor p = p.factor := by
  unfold NumSrc.Percentage_Factor Pct.factor
  rw [src_Add, src_factor1]

theorem src_Remove (a : Amount) (p : Pct) : NumSrc.Amount_Remove a p = a.remove p := by
  unfold NumSrc.Amount_Remove Amount.remove
  rw [src_Divide, src_Factor]

theorem src_Negate (a : Amount) : NumSrc.Amount_Negate a = a.negate := rfl
theorem src_Invert (a : Amount) : NumSrc.Amount_Invert a = a.negate := rfl

theorem src_Abs (a : Amount) : NumSrc.Amount_Abs a = a.abs := by
  unfold NumSrc.Amount_Abs Amount.abs
  simp only [src_Invert]
  rfl

theorem src_IsZero (a : Amount) : NumSrc.Amount_IsZero a = decide (a.value = 0) := rfl
theorem src_IsNegative (a : Amount) : NumSrc.Amount_IsNegative a = decide (a.value < 0) := rfl
theorem src_IsPositive (a : Amount) : NumSrc.Amount_IsPositive a = decide (0 < a.value) := rfl

theorem src_Float64 (a : Amount) : NumSrc.Amount_Float64 a = fdiv (ofInt64 a.value) (ofInt64 (pow10 a.exp)) := by
  unfold NumSrc.Amount_Float64; rw [src_pow10]

theorem src_AmountFromFloat64 (v : Rat) (e : Nat) :
    NumSrc.AmountFromFloat64 v e = ⟨goRound (fmul v (ofInt64 (pow10 e))), e⟩ := by
  unfold NumSrc.AmountFromFloat64
  simp only [src_pow10]
  rfl

theorem src_MakePercentage (v : Int) (e : Nat) : NumSrc.MakePercentage v e = ⟨⟨v, e⟩⟩ := rfl
theorem src_PercentageFromAmount (a : Amount) : NumSrc.PercentageFromAmount a = Pct.ofAmount a := rfl
theorem src_Percentage_Value (p : Pct) : NumSrc.Percentage_Value p = p.amount.value := rfl
theorem src_Percentage_Exp (p : Pct) : NumSrc.Percentage_Exp p = p.amount.exp := rfl
theorem src_Percentage_Base (p : Pct) : NumSrc.Percentage_Base p = p.amount := rfl

theorem src_Percentage_Amount (p : Pct) : NumSrc.Percentage_Amount p = p.toAmount := by
  unfold NumSrc.Percentage_Amount Pct.toAmount
  simp only [src_RescaleUp]
  rfl

theorem src_Percentage_Rescale (p : Pct) (e : Nat) : NumSrc.Percentage_Rescale p e = p.rescale e := by
  unfold NumSrc.Percentage_Rescale Pct.rescale
  rw [src_Rescale]

theorem src_Of (p : Pct) (a : Amount) : NumSrc.Percentage_Of p a = p.of a := by
  unfold NumSrc.Percentage_Of Pct.of
  rw [src_Multiply]

theorem src_From (p : Pct) (a : Amount) : NumSrc.Percentage_From p a = p.from a := by
  unfold NumSrc.Percentage_From Pct.from
  simp only [src_Divide, src_Factor, src_Subtract]
  rfl

theorem src_Percentage_Equals (p q : Pct) : NumSrc.Percentage_Equals p q = p.equals q := by
  unfold NumSrc.Percentage_Equals Pct.equals
  rw [src_Equals]

theorem src_Percentage_Compare (p q : Pct) : NumSrc.Percentage_Compare p q = p.compare q := by
  unfold NumSrc.Percentage_Compare Pct.compare
  rw [src_Compare]

theorem src_Percentage_IsZero (p : Pct) : NumSrc.Percentage_IsZero p = decide (p.amount.value = 0) := rfl
theorem src_Percentage_IsPositive (p : Pct) : NumSrc.Percentage_IsPositive p = decide (0 < p.amount.value) := rfl
theorem src_Percentage_IsNegative (p : Pct) : NumSrc.Percentage_IsNegative p = decide (p.amount.value < 0) := rfl
theorem src_Percentage_Negate (p : Pct) : NumSrc.Percentage_Negate p = p.negate := rfl
theorem src_Percentage_Invert (p : Pct) : NumSrc.Percentage_Invert p = p.negate := rfl

/-- operator numbers outside 0..3 (negative ones included) take the `default:` branch -/
theorem src_thresholdCompare (r : NumSrc.ThresholdRule) (v : Amount) :
    NumSrc.ThresholdRule_compare r v =
      thresholdCompare (if 0 ≤ r.operator ∧ r.operator ≤ 3 then r.operator.toNat else 4) r.threshold v := by
  unfold NumSrc.ThresholdRule_compare thresholdCompare
  simp only [src_Compare]
  by_cases h0 : r.operator = 0
  · simp [h0, Id.run, id_pure, beq_eq_decide]
  by_cases h1 : r.operator = 1
  · simp [h1, Id.run, id_pure, beq_eq_decide]
  by_cases h2 : r.operator = 2
  · simp [h2, Id.run, id_pure, beq_eq_decide]
  by_cases h3 : r.operator = 3
  · simp [h3, Id.run, id_pure, beq_eq_decide]
  have : ¬ (0 ≤ r.operator ∧ r.operator ≤ 3) := by omega
  simp [h0, h1, h2, h3, this, Id.run, id_pure, beq_eq_decide]

theorem src_AmountZero : NumSrc.AmountZero = ⟨0, 0⟩ := rfl
theorem src_PercentageZero : NumSrc.PercentageZero = ⟨⟨0, 0⟩⟩ := rfl


/-- the subtraction `a.exp - 2` in `Percentage.Amount` never truncates: `RescaleUp(2)` came first -/
theorem pct_amount_subtraction_guarded (p : Pct) : 2 ≤ (NumSrc.Amount_RescaleUp p.amount 2).exp := by
  rw [src_RescaleUp]
  unfold Amount.rescaleUp Amount.rescale
  by_cases h : 2 > p.amount.exp
  · have h1 : ¬ p.amount.exp > 2 := by omega
    have h2 : p.amount.exp < 2 := by omega
    simp [h, h1]
  · simp only [h, if_false]; omega

/-! ### the specification theorems, read off the regenerated code -/

theorem spec_of_the_source_Multiply (a b : Amount) (hm : small (a.value * b.value)) (he : b.exp ≤ 22) :
    (NumSrc.Amount_Multiply a b).exp = a.exp ∧
    (NumSrc.Amount_Multiply a b).value = roundTo a.exp (a.toRat * b.toRat) := by
  rw [src_Multiply]; exact multiply_spec a b hm he

theorem spec_of_the_source_Divide (a b : Amount) (hb : b.value ≠ 0) (hn : small (a.value * pow10 b.exp))
    (hd : b.value.natAbs < 2 ^ 53) :
    (NumSrc.Amount_Divide a b).exp = a.exp ∧
    (NumSrc.Amount_Divide a b).value = roundTo a.exp (a.toRat / b.toRat) := by
  rw [src_Divide]; exact divide_spec a b hb hn hd

theorem spec_of_the_source_Rescale_down (a : Amount) (e : ℕ) (h : e < a.exp) (hv : small a.value)
    (he : a.exp - e ≤ 22) :
    (NumSrc.Amount_Rescale a e).exp = e ∧ (NumSrc.Amount_Rescale a e).value = roundTo e a.toRat := by
  rw [src_Rescale]; exact rescale_down_spec a e h hv he

theorem spec_of_the_source_Rescale_up (a : Amount) (e : ℕ) (h : a.exp ≤ e) :
    (NumSrc.Amount_Rescale a e).exp = e ∧ (NumSrc.Amount_Rescale a e).toRat = a.toRat := by
  rw [src_Rescale]; exact rescale_up_lossless a e h

theorem spec_of_the_source_Add (a b : Amount) (h : b.exp ≤ a.exp) :
    (NumSrc.Amount_Add a b).exp = a.exp ∧ (NumSrc.Amount_Add a b).toRat = a.toRat + b.toRat := by
  rw [src_Add]; exact add_lossless a b h

theorem spec_of_the_source_Subtract (a b : Amount) (h : b.exp ≤ a.exp) :
    (NumSrc.Amount_Subtract a b).exp = a.exp ∧ (NumSrc.Amount_Subtract a b).toRat = a.toRat - b.toRat := by
  rw [src_Subtract]; exact sub_lossless a b h

theorem spec_of_the_source_Compare (a b : Amount) :
    NumSrc.Amount_Compare a b = Spec.cmp a.toRat b.toRat := by
  rw [src_Compare]; exact compare_spec a b

theorem spec_of_the_source_Equals (a b : Amount) :
    NumSrc.Amount_Equals a b = true ↔ a.toRat = b.toRat := by
  rw [src_Equals]; exact equals_spec a b

theorem spec_of_the_source_Split (a : Amount) (x : ℤ) (hx : 1 ≤ x) (hv : small a.value) (hx53 : x.natAbs < 2 ^ 53)
    (hp : small ((NumSrc.Amount_Divide a ⟨x, 0⟩).value * (x - 1))) :
    (x - 1 : ℚ) * (NumSrc.Amount_Split a x).1.toRat + (NumSrc.Amount_Split a x).2.toRat = a.toRat := by
  rw [src_Divide] at hp
  rw [src_Split]; exact split_sum a x hx hv hx53 hp

theorem spec_of_the_source_Of (p : Pct) (a : Amount) (hm : small (a.value * p.amount.value)) (he : p.amount.exp ≤ 22) :
    (NumSrc.Percentage_Of p a).exp = a.exp ∧
    (NumSrc.Percentage_Of p a).value = roundTo a.exp (a.toRat * p.amount.toRat) := by
  rw [src_Of]; exact pct_of_spec p a hm he

theorem spec_of_the_source_From (p : Pct) (a : Amount) (hf : (NumSrc.Percentage_Factor p).value ≠ 0)
    (hn : small (a.value * pow10 p.amount.exp)) (hd : (NumSrc.Percentage_Factor p).value.natAbs < 2 ^ 53) :
    (NumSrc.Percentage_From p a).exp = a.exp ∧
    (NumSrc.Percentage_From p a).value = a.value - roundTo a.exp (a.toRat / (1 + p.amount.toRat)) := by
  rw [src_Factor] at hf hd
  rw [src_From]; exact pct_from_spec p a hf hn hd

theorem spec_of_the_source_Remove (a : Amount) (p : Pct) (hf : (NumSrc.Percentage_Factor p).value ≠ 0)
    (hn : small (a.value * pow10 p.amount.exp)) (hd : (NumSrc.Percentage_Factor p).value.natAbs < 2 ^ 53) :
    (NumSrc.Amount_Remove a p).exp = a.exp ∧
    (NumSrc.Amount_Remove a p).value = roundTo a.exp (a.toRat / (1 + p.amount.toRat)) := by
  rw [src_Factor] at hf hd
  rw [src_Remove]; exact remove_spec a p hf hn hd

theorem spec_of_the_source_threshold (r : NumSrc.ThresholdRule) (v : Amount) :
    NumSrc.ThresholdRule_compare r v = true ↔
      (if r.operator = 0 then v.toRat > r.threshold.toRat
       else if r.operator = 1 then v.toRat ≥ r.threshold.toRat
       else if r.operator = 2 then v.toRat < r.threshold.toRat
       else if r.operator = 3 then v.toRat ≤ r.threshold.toRat
       else v.toRat ≠ r.threshold.toRat) := by
  rw [src_thresholdCompare, threshold_spec]
  by_cases h0 : r.operator = 0
  · simp [h0]
  by_cases h1 : r.operator = 1
  · simp [h1]
  by_cases h2 : r.operator = 2
  · simp [h2]
  by_cases h3 : r.operator = 3
  · simp [h3]
  have : ¬ (0 ≤ r.operator ∧ r.operator ≤ 3) := by omega
  simp [h0, h1, h2, h3, this]

/-! non-vacuity of the hypotheses above, on the regenerated definitions themselves -/
example : small ((-25 : ℤ) * 5) ∧ (5 : ℕ) ≤ 22 ∧ NumSrc.Amount_Multiply ⟨-25, 1⟩ ⟨5, 1⟩ = ⟨-13, 1⟩ := by
  refine ⟨by decide, by decide, ?_⟩
  rw [src_Multiply, multiply_exact _ _ (by decide) (by decide)]; decide
example : (3 : ℤ) ≠ 0 ∧ small ((1000 : ℤ) * pow10 0) ∧ (3 : ℤ).natAbs < 2 ^ 53 := by decide
example : (1 : ℕ) < 3 ∧ small (12345 : ℤ) ∧ 3 - 1 ≤ 22 := by decide
example : (1 : ℤ) ≤ 3 ∧ small (1000 : ℤ) ∧ (3 : ℤ).natAbs < 2 ^ 53 := by decide
example : (NumSrc.Percentage_Factor ⟨⟨21, 2⟩⟩).value ≠ 0 := by rw [src_Factor]; decide
example : NumSrc.intPow 10 3 = 1000 := by rw [src_intPow]; decide

end Src

end GoblVerif.Props.C05
