/-
  C20 — Tax summaries combine component-wise; payment totals add up.

  Only property theorems live here (helper lemmas: Proofs/Merge.lean,
  Proofs/Payment.lean).  They are about the models of /repo/tax/totals.go
  (Model/Merge.lean) and of the payment calculation (Model/Payment.lean), which
  use the *faithful* `num` operations, and relate them to Spec/C20.lean.

  The merge theorems are stated for summaries at one common precision `e`
  (`uniform e`, what `Total.Calculate` produces): there `Amount.Add` is integer
  addition.  "Neither operation alters its operands" has no content in a
  functional model; it is checked on the real objects by the harness.
-/
import GoblVerif.Spec.C20
import GoblVerif.Proofs.Merge
import GoblVerif.Proofs.Payment
import GoblVerif.Generated.MergeFacts
import Mathlib.Tactic.Linarith

namespace GoblVerif.Props.C20
open GoblVerif GoblVerif.Merge GoblVerif.Spec.C20

private theorem uniform_iff (e : ℕ) (t : Total) :
    uniform e t = true ↔ t.sum.exp = e ∧ ∀ c ∈ t.categories, CInv e c := by
  unfold uniform CInv; simp

private theorem wf_iff (t : Total) :
    wellFormed t = true ↔ ∀ c ∈ t.categories, c.rates.all wellFormedRate = true := by
  unfold wellFormed; simp

/-! ## rate groups -/

/-- `RateTotal.Matches` decides exactly "same rate group" of the specification:
    equal extensions and country, both exempt or percentages of equal *value*
    (20% = 20.0%) with surcharge percentages of equal value; keys are ignored. -/
theorem matches_is_same_group (a b : RateTotal) : a.matches b = sameGroup a b :=
  matches_eq_sameGroup a b

/-- "same rate group" is an equivalence relation -/
theorem same_group_equivalence (a b c : RateTotal) :
    sameGroup a a = true ∧ sameGroup a b = sameGroup b a ∧
    (sameGroup a b = true → sameGroup b c = true → sameGroup a c = true) := by
  refine ⟨sameGroup_refl a, sameGroup_symm a b, ?_⟩
  intro h1 h2
  rw [sameGroup_congr_right a b c h2] at h1
  exact h1

/-! ## merge: every figure is the sum of the operands' -/

private theorem merge_group (e : ℕ) (f : RateTotal → ℤ)
    (hf : ∀ m x, RInv e m → RInv e x → f (m.absorb x) = f m + f x)
    (t1 t2 : Total) (code : String) (k : RateTotal)
    (h1 : uniform e t1 = true) (h2 : uniform e t2 = true) :
    groupFigure f code k (t1.merge t2) = groupFigure f code k t1 + groupFigure f code k t2 := by
  obtain ⟨_, c1⟩ := (uniform_iff e t1).mp h1
  obtain ⟨_, c2⟩ := (uniform_iff e t2).mp h2
  unfold groupFigure Total.merge Total.clone
  apply categories_figure (CInv e) _ code (cat_absorb_uniform e) _ _ _ c1 c2
  intro m c hm hc
  exact rates_figure e f k hf m.rates c.rates ((uniformCategory_iff e m).mp hm).2.2 ((uniformCategory_iff e c).mp hc).2.2

/-- for every category code and rate group, the base of the merged summary is the
    sum of the operands' bases -/
theorem merge_bases (e : ℕ) (t1 t2 : Total) (code : String) (k : RateTotal)
    (h1 : uniform e t1 = true) (h2 : uniform e t2 = true) :
    groupFigure (·.base.value) code k (t1.merge t2) =
      groupFigure (·.base.value) code k t1 + groupFigure (·.base.value) code k t2 :=
  merge_group e _ (absorb_base e) t1 t2 code k h1 h2

/-- … the tax amount is the sum of the operands' amounts -/
theorem merge_amounts (e : ℕ) (t1 t2 : Total) (code : String) (k : RateTotal)
    (h1 : uniform e t1 = true) (h2 : uniform e t2 = true) :
    groupFigure (·.amount.value) code k (t1.merge t2) =
      groupFigure (·.amount.value) code k t1 + groupFigure (·.amount.value) code k t2 :=
  merge_group e _ (absorb_amount e) t1 t2 code k h1 h2

/-- … and the rate surcharge is the sum of the operands' surcharges (absent = 0),
    for well-formed summaries (an exempt group carries no surcharge; without this
    the Go code panics — known finding `merge-exempt-group-with-surcharge`) -/
theorem merge_surcharges (e : ℕ) (t1 t2 : Total) (code : String) (k : RateTotal)
    (h1 : uniform e t1 = true) (h2 : uniform e t2 = true)
    (w1 : wellFormed t1 = true) (w2 : wellFormed t2 = true) :
    groupFigure surchargeValue code k (t1.merge t2) =
      groupFigure surchargeValue code k t1 + groupFigure surchargeValue code k t2 := by
  obtain ⟨_, c1⟩ := (uniform_iff e t1).mp h1
  obtain ⟨_, c2⟩ := (uniform_iff e t2).mp h2
  have d1 : ∀ c ∈ t1.categories, CInvW e c := fun c hc => ⟨c1 c hc, (wf_iff t1).mp w1 c hc⟩
  have d2 : ∀ c ∈ t2.categories, CInvW e c := fun c hc => ⟨c2 c hc, (wf_iff t2).mp w2 c hc⟩
  unfold groupFigure Total.merge Total.clone
  apply categories_figure (CInvW e) _ code (cat_absorb_invW e) _ _ _ d1 d2
  intro m c hm hc
  have m3 := ((uniformCategory_iff e m).mp hm.1).2.2
  have c3 := ((uniformCategory_iff e c).mp hc.1).2.2
  have hmw := hm.2; have hcw := hc.2
  rw [List.all_eq_true] at hmw hcw
  exact rates_surcharge e k m.rates c.rates (fun r hr => ⟨m3 r hr, hmw r hr⟩) (fun r hr => ⟨c3 r hr, hcw r hr⟩)

/-- the amount of every category (by code) is the sum of the operands' -/
theorem merge_category_amounts (e : ℕ) (t1 t2 : Total) (code : String)
    (h1 : uniform e t1 = true) (h2 : uniform e t2 = true) :
    categoryFigure (·.amount.value) code (t1.merge t2) =
      categoryFigure (·.amount.value) code t1 + categoryFigure (·.amount.value) code t2 := by
  obtain ⟨_, c1⟩ := (uniform_iff e t1).mp h1
  obtain ⟨_, c2⟩ := (uniform_iff e t2).mp h2
  unfold categoryFigure Total.merge Total.clone
  exact categories_figure (CInv e) _ code (cat_absorb_uniform e) (cat_absorb_amount e) _ _ c1 c2

/-- the category surcharge (absent = 0) is the sum of the operands', whichever
    side carries one (this is what fix 51a93ed restored) -/
theorem merge_category_surcharges (e : ℕ) (t1 t2 : Total) (code : String)
    (h1 : uniform e t1 = true) (h2 : uniform e t2 = true) :
    categoryFigure catSurchargeValue code (t1.merge t2) =
      categoryFigure catSurchargeValue code t1 + categoryFigure catSurchargeValue code t2 := by
  obtain ⟨_, c1⟩ := (uniform_iff e t1).mp h1
  obtain ⟨_, c2⟩ := (uniform_iff e t2).mp h2
  unfold categoryFigure Total.merge Total.clone
  exact categories_figure (CInv e) _ code (cat_absorb_uniform e) (cat_absorb_surcharge e) _ _ c1 c2

/-- the total is the sum of the totals, at the same precision -/
theorem merge_sum (e : ℕ) (t1 t2 : Total) (h1 : uniform e t1 = true) (h2 : uniform e t2 = true) :
    (t1.merge t2).sum = ⟨t1.sum.value + t2.sum.value, e⟩ := by
  obtain ⟨s1, _⟩ := (uniform_iff e t1).mp h1
  obtain ⟨s2, _⟩ := (uniform_iff e t2).mp h2
  unfold Total.merge
  simp only
  rw [add_same_exp _ _ (by omega), s1]

/-- the merged summary is again at precision `e` -/
theorem merge_uniform (e : ℕ) (t1 t2 : Total) (h1 : uniform e t1 = true) (h2 : uniform e t2 = true) :
    uniform e (t1.merge t2) = true := by
  obtain ⟨s1, c1⟩ := (uniform_iff e t1).mp h1
  obtain ⟨s2, c2⟩ := (uniform_iff e t2).mp h2
  rw [uniform_iff]
  refine ⟨by rw [merge_sum e t1 t2 h1 h2], ?_⟩
  unfold Total.merge Total.clone
  simp only
  rw [mergeCategories_eq]
  exact inv_foldl_mergeOne _ _ (CInv e) (fun m c hm hc _ => cat_absorb_uniform e m c hm hc) _ _ c1 c2

/-! ## the executable oracle holds of the model; order independence -/

/-- the Bool oracle the harness evaluates on Go's output holds of the model's merge -/
theorem merge_figures_add (e : ℕ) (t1 t2 : Total)
    (h1 : uniform e t1 = true) (h2 : uniform e t2 = true)
    (w1 : wellFormed t1 = true) (w2 : wellFormed t2 = true) :
    mergeOracle e t1 t2 (t1.merge t2) = true := by
  unfold mergeOracle figuresAdd
  simp only [Bool.and_eq_true, List.all_eq_true, beq_iff_eq]
  refine ⟨merge_uniform e t1 t2 h1 h2, ?_, ?_⟩
  · rw [merge_sum e t1 t2 h1 h2]
  · intro code _
    refine ⟨⟨merge_category_amounts e t1 t2 code h1 h2, merge_category_surcharges e t1 t2 code h1 h2⟩, ?_⟩
    intro k _
    exact ⟨⟨merge_bases e t1 t2 code k h1 h2, merge_amounts e t1 t2 code k h1 h2⟩,
      merge_surcharges e t1 t2 code k h1 h2 w1 w2⟩

/-- Order independence: for every category code and rate group `t1.Merge(t2)` and
    `t2.Merge(t1)` present the same figures, and the same total. -/
theorem merge_order_independent (e : ℕ) (t1 t2 : Total)
    (h1 : uniform e t1 = true) (h2 : uniform e t2 = true)
    (w1 : wellFormed t1 = true) (w2 : wellFormed t2 = true) :
    sameFigures (t1.merge t2) (t2.merge t1) = true := by
  unfold sameFigures
  simp only [Bool.and_eq_true, List.all_eq_true, beq_iff_eq]
  refine ⟨?_, ?_⟩
  · rw [merge_sum e t1 t2 h1 h2, merge_sum e t2 t1 h2 h1, add_comm]
  · intro code _
    refine ⟨⟨?_, ?_⟩, ?_⟩
    · rw [merge_category_amounts e t1 t2 code h1 h2, merge_category_amounts e t2 t1 code h2 h1, add_comm]
    · rw [merge_category_surcharges e t1 t2 code h1 h2, merge_category_surcharges e t2 t1 code h2 h1, add_comm]
    · intro k _
      refine ⟨⟨?_, ?_⟩, ?_⟩
      · rw [merge_bases e t1 t2 code k h1 h2, merge_bases e t2 t1 code k h2 h1, add_comm]
      · rw [merge_amounts e t1 t2 code k h1 h2, merge_amounts e t2 t1 code k h2 h1, add_comm]
      · rw [merge_surcharges e t1 t2 code k h1 h2 w1 w2, merge_surcharges e t2 t1 code k h2 h1 w2 w1, add_comm]

/-! ## negation -/

private theorem zipAll_map {α : Type} (p : α → α → Bool) (f : α → α) (h : ∀ x, p x (f x) = true) (xs : List α) :
    zipAll p xs (xs.map f) = true := by
  induction xs with
  | nil => rfl
  | cons x xs ih => simp [zipAll, h x, ih]

private theorem rate_negated (r : RateTotal) : rateNegated r r.negate = true := by
  unfold rateNegated RateTotal.negate Amount.negate
  rcases r.surcharge with _ | s <;> simp

private theorem category_negated (c : CategoryTotal) : categoryNegated c c.negate = true := by
  unfold categoryNegated CategoryTotal.negate Amount.negate
  have := zipAll_map rateNegated RateTotal.negate rate_negated c.rates
  rcases c.surcharge with _ | s <;> simp [this]

/-- `Negate` flips the sign of every amount — total, category amounts and
    category surcharges, bases, tax amounts and rate surcharges — and leaves
    codes, keys, percentages, precisions and the order of rows alone. -/
theorem negate_flips_all (t : Total) : isNegationOf t t.negate = true := by
  unfold isNegationOf Total.negate Total.clone Amount.negate
  simp [zipAll_map categoryNegated CategoryTotal.negate category_negated t.categories]

theorem negate_involutive (t : Total) : t.negate.negate = t := by
  obtain ⟨cs, s, sp⟩ := t
  unfold Total.negate Total.clone Amount.negate
  simp only [Total.mk.injEq, neg_neg, List.map_map, and_true]
  rw [List.map_congr_left (g := id)]
  · simp
  · intro c _
    obtain ⟨code, ret, rates, am, su, ap⟩ := c
    simp only [Function.comp, CategoryTotal.negate, Amount.negate, neg_neg, id, List.map_map, CategoryTotal.mk.injEq, true_and, and_true]
    refine ⟨?_, ?_⟩
    · rw [List.map_congr_left (g := id)]
      · simp
      · intro r _
        obtain ⟨k, co, ex, b, p, su, a⟩ := r
        simp only [Function.comp, RateTotal.negate, Amount.negate, neg_neg, id, RateTotal.mk.injEq, true_and, and_true]
        rcases su with _ | s <;> simp
    · rcases su with _ | s <;> simp [Amount.negate]

/-! ## a summary merged with its negation is zero everywhere -/

private theorem nodup_iff (t : Total) :
    noDuplicates t = true ↔
      pairwiseNot (fun (a b : CategoryTotal) => a.code == b.code) t.categories = true ∧
      ∀ c ∈ t.categories, pairwiseNot sameGroup c.rates = true := by
  unfold noDuplicates; simp

/-- For a summary without duplicate categories / rate groups (any precisions, any
    shape), every amount of `t.Merge(t.Negate())` is zero: total, category amounts
    and surcharges, bases, tax amounts and rate surcharges.  (With duplicates the
    Go code leaves non-zero rows: known finding `duplicate-groups-in-summary`.) -/
theorem merge_negate_zero (t : Total) (h : noDuplicates t = true) :
    allZero (t.merge t.negate) = true := by
  obtain ⟨hc, hr⟩ := (nodup_iff t).mp h
  unfold allZero Total.merge Total.negate Total.clone
  simp only [Bool.and_eq_true, beq_iff_eq, List.all_eq_true]
  refine ⟨add_negate_zero t.sum, ?_⟩
  rw [categories_self_negate t.categories hc]
  intro c' hc'
  rw [List.mem_map] at hc'
  obtain ⟨c, hcm, rfl⟩ := hc'
  refine ⟨⟨?_, ?_⟩, ?_⟩
  · exact add_negate_zero c.amount
  · unfold catSurchargeValue CategoryTotal.absorb CategoryTotal.negate
    rcases c.surcharge with _ | s
    · simp
    · simp [add_negate_zero]
  · intro r' hr'
    have : (c.absorb c.negate).rates = mergeRates c.rates (c.rates.map RateTotal.negate) := rfl
    rw [this, rates_self_negate c.rates (hr c hcm), List.mem_map] at hr'
    obtain ⟨r, _, rfl⟩ := hr'
    exact rate_absorb_negate_zero r


/-! ## no panic, no new duplicates -/

/-- For well-formed operands (no exempt group carries a surcharge) `Merge` never
    reaches the nil dereference, so `Total.merge` *is* the result. -/
theorem merge_defined (t1 t2 : Total) (w1 : wellFormed t1 = true) (w2 : wellFormed t2 = true) :
    t1.mergePanics t2 = false := by
  unfold Total.mergePanics
  apply mergeCategoriesPanics_false
  · intro c hc r hr
    have := (wf_iff t1).mp w1 c hc
    rw [List.all_eq_true] at this
    exact this r hr
  · intro c hc r hr
    have := (wf_iff t2).mp w2 c hc
    rw [List.all_eq_true] at this
    exact this r hr

/-- negation keeps a summary well-formed, so `t.Merge(t.Negate())` is defined too -/
theorem merge_negate_defined (t : Total) (w : wellFormed t = true) : t.mergePanics t.negate = false := by
  apply merge_defined t t.negate w
  rw [wf_iff] at w ⊢
  intro c hc
  unfold Total.negate Total.clone at hc
  simp only [List.mem_map] at hc
  obtain ⟨c0, hc0, rfl⟩ := hc
  have := w c0 hc0
  rw [List.all_eq_true] at this ⊢
  intro r hr
  unfold CategoryTotal.negate at hr
  simp only [List.mem_map] at hr
  obtain ⟨r0, hr0, rfl⟩ := hr
  exact negate_wf r0 (this r0 hr0)

/-- the hypothesis is not vacuous and cannot be dropped: the panic of the Go code
    (known finding `merge-exempt-group-with-surcharge`) is predicted by the model -/
theorem merge_panics_on_exempt_surcharge :
    let ex : RateTotal := { key := "", country := "", ext := [], base := ⟨10000, 2⟩, percent := none, surcharge := none, amount := ⟨0, 2⟩ }
    let exS : RateTotal := { ex with surcharge := some ⟨⟨⟨5, 2⟩⟩, ⟨250, 2⟩⟩ }
    let t1 : Total := { categories := [{ code := "VAT", retained := false, rates := [ex], amount := ⟨0, 2⟩, surcharge := none, amountP := ⟨0, 0⟩ }], sum := ⟨0, 2⟩, sumP := ⟨0, 0⟩ }
    let t2 : Total := { categories := [{ code := "VAT", retained := false, rates := [exS], amount := ⟨0, 2⟩, surcharge := none, amountP := ⟨0, 0⟩ }], sum := ⟨0, 2⟩, sumP := ⟨0, 0⟩ }
    t1.mergePanics t2 = true ∧ t2.mergePanics t1 = false := by
  decide +kernel

/-- merging summaries without duplicate categories / rate groups creates none -/
theorem merge_no_duplicates (t1 t2 : Total) (h1 : noDuplicates t1 = true) (h2 : noDuplicates t2 = true) :
    noDuplicates (t1.merge t2) = true := by
  obtain ⟨c1, r1⟩ := (nodup_iff t1).mp h1
  obtain ⟨_, r2⟩ := (nodup_iff t2).mp h2
  rw [nodup_iff]
  unfold Total.merge Total.clone
  exact mergeCategories_nodup t1.categories t2.categories c1 r1 r2

/-- PARTIAL.  Order independence up to row order: the two merge orders present
    the same figures for every category code and rate group, the same total, and
    neither result lists a category or rate group twice — so a row of one result
    corresponds to at most one row of the other, with the same figures.

    Full statement wanted: `sameUpToOrder (t1.merge t2) (t2.merge t1) = true`, i.e.
    additionally *equally many* categories and rows per category (a bijection
    between rows).  Missing: the counting argument that both results contain
    exactly the union of the operands' groups; `sameUpToOrder` (with the counts)
    is evaluated by the harness on the Go outputs of every generated pair. -/
theorem merge_comm_up_to_order_partial (e : ℕ) (t1 t2 : Total)
    (h1 : uniform e t1 = true) (h2 : uniform e t2 = true)
    (w1 : wellFormed t1 = true) (w2 : wellFormed t2 = true)
    (d1 : noDuplicates t1 = true) (d2 : noDuplicates t2 = true) :
    sameFigures (t1.merge t2) (t2.merge t1) = true ∧
    noDuplicates (t1.merge t2) = true ∧ noDuplicates (t2.merge t1) = true :=
  ⟨merge_order_independent e t1 t2 h1 h2 w1 w2, merge_no_duplicates t1 t2 d1 d2, merge_no_duplicates t2 t1 d2 d1⟩

/-! ## payments -/

open GoblVerif.Payment in
/-- The payment total is the sum of the line totals, each line total is
    (debit converted) − (credit converted) at the payment currency's precision;
    a payment without lines keeps the total it had (known finding
    `payment-without-lines-keeps-total`). -/
theorem payment_total (p : Payment) (res : Result) (h : p.calculate = .ok res) :
    ∃ lts : List Amount,
      List.Forall₂ (fun l lt => l.calculate p.currency p.curExp p.rates = .ok lt) p.lines lts ∧
      res.lineTotals = lts ∧
      (∀ lt ∈ lts, lt.exp = p.curExp) ∧
      (p.lines ≠ [] → res.total = ⟨(lts.map (·.value)).sum, p.curExp⟩) ∧
      (p.lines = [] → res.total = p.total) := by
  unfold Payment.calculate at h
  cases hr : runLines p p.lines ⟨[], none, none⟩ with
  | error e => rw [hr] at h; simp at h
  | ok st =>
    rw [hr] at h
    simp only [Except.ok.injEq] at h
    subst h
    obtain ⟨lts, hf, g1, g2, _⟩ := runLines_ok p p.lines _ st hr
    simp only [List.nil_append] at g1
    have hexp : ∀ lt ∈ lts, lt.exp = p.curExp := forall2_exp _ _ _ _ _ hf
    refine ⟨lts, hf, g1, hexp, ?_, ?_⟩
    · intro hne
      simp only
      rw [g2]
      cases lts with
      | nil =>
        have := List.Forall₂.length_eq hf
        simp only [List.length_nil, List.length_eq_zero_iff] at this
        exact absurd this hne
      | cons lt more =>
        simp only [List.foldl_cons]
        have : accTotal none lt = some lt := rfl
        rw [this, foldl_accTotal p.curExp more lt (hexp lt (by simp)) (fun x hx => hexp x (by simp [hx]))]
        simp
    · intro he
      have := List.Forall₂.length_eq hf
      rw [he] at this
      simp only [List.length_nil] at this
      have hl : lts = [] := List.length_eq_zero_iff.mp this.symm
      subst hl
      simp only [List.foldl_nil] at g2
      simp [g2]

open GoblVerif.Payment in
/-- each line total is debit minus credit, converted (`currency.Convert`) and
    brought to the payment currency's precision -/
theorem payment_line_total (pl : PaymentLine) (cur : String) (e : ℕ) (rates : List ExchangeRate) (lt : Amount)
    (h : pl.calculate cur e rates = .ok lt) :
    ∃ d c, lineSide pl cur rates pl.debit = .ok d ∧ lineSide pl cur rates pl.credit = .ok c ∧
      lt = ⟨sideValue e d - sideValue e c, e⟩ :=
  line_total pl cur e rates lt h

open GoblVerif.Payment in
/-- `ExchangeRate.Convert` of an amount written at the destination currency's
    precision is the exact product with the declared rate, rounded half away from
    zero — inside the float-exact domain.  (For amounts at another precision the
    Go code rounds at the amount's precision first: known findings
    `convert-amount-coarser-than-target`, `convert-double-rounding`.) -/
theorem convert_is_exact_rounding (er : ExchangeRate) (a : Amount)
    (hm : |a.value * er.amount.value| < 2 ^ 52) (he : er.amount.exp ≤ 22) (hx : a.exp = er.toExp) :
    er.convert a = convertSpec er.amount.toRat er.toExp a :=
  convert_exact er a hm he hx

open GoblVerif.Payment in
/-- the payment's tax summary is the left-to-right merge of the recalculated
    summaries of its lines' documents (`none` when no line has one) -/
theorem payment_tax (p : Payment) (res : Result) (h : p.calculate = .ok res) :
    res.tax = mergeAll (p.lines.filterMap (lineTax p)) := by
  unfold Payment.calculate at h
  cases hr : runLines p p.lines ⟨[], none, none⟩ with
  | error e => rw [hr] at h; simp at h
  | ok st =>
    rw [hr] at h
    simp only [Except.ok.injEq] at h
    subst h
    obtain ⟨_, _, _, _, g3⟩ := runLines_ok p p.lines _ st hr
    simp only
    rw [g3, foldl_accTax]

/-! ## non-vacuity -/

private def r20 : RateTotal := { key := "standard", country := "", ext := [], base := ⟨10000, 2⟩, percent := some ⟨⟨20, 2⟩⟩, surcharge := none, amount := ⟨2000, 2⟩ }
private def r20' : RateTotal := { key := "other", country := "", ext := [], base := ⟨5000, 2⟩, percent := some ⟨⟨200, 3⟩⟩, surcharge := none, amount := ⟨1000, 2⟩ }
private def r10s : RateTotal := { key := "reduced", country := "", ext := [], base := ⟨3000, 2⟩, percent := some ⟨⟨10, 2⟩⟩, surcharge := some ⟨⟨⟨52, 3⟩⟩, ⟨156, 2⟩⟩, amount := ⟨300, 2⟩ }
private def tA : Total := { categories := [{ code := "VAT", retained := false, rates := [r20, r10s], amount := ⟨2300, 2⟩, surcharge := some ⟨156, 2⟩, amountP := ⟨0, 0⟩ }], sum := ⟨2456, 2⟩, sumP := ⟨0, 0⟩ }
private def tB : Total := { categories := [{ code := "VAT", retained := false, rates := [r20'], amount := ⟨1000, 2⟩, surcharge := none, amountP := ⟨0, 0⟩ }], sum := ⟨1000, 2⟩, sumP := ⟨0, 0⟩ }

example : uniform 2 tA = true ∧ uniform 2 tB = true ∧ wellFormed tA = true ∧ wellFormed tB = true ∧
    noDuplicates tA = true ∧ noDuplicates tB = true := by decide +kernel
example : groupFigure (·.base.value) "VAT" r20 (tA.merge tB) = 15000 ∧
    categoryFigure catSurchargeValue "VAT" (tB.merge tA) = 156 ∧
    sameUpToOrder (tA.merge tB) (tB.merge tA) = true := by decide +kernel
example : allZero (tA.merge tA.negate) = true ∧ isNegationOf tA tA.negate = true := by decide +kernel


/-! ## expectations over facts regenerated from /repo on every run

The records of Model/Merge.lean carry exactly these fields; `Negate` negates
eight amounts (category amount, precise amount and surcharge; base, amount and
surcharge amount of every rate; sum and precise sum), `Merge` adds seven, and
the payment code converts, adds and subtracts in this order.  A new amount field
or a dropped negation / addition breaks an obligation here. -/
namespace Expect
open GoblVerif.Generated.Merge

theorem category_total_fields : fields_CategoryTotal = ["Code", "Retained", "Rates", "Amount", "Surcharge", "amount"] := by decide
theorem rate_total_fields : fields_RateTotal = ["Key", "Country", "Ext", "Base", "Percent", "Surcharge", "Amount"] := by decide
theorem rate_surcharge_fields : fields_RateTotalSurcharge = ["Percent", "Amount"] := by decide
theorem total_fields : fields_Total = ["Categories", "Sum", "sum"] := by decide
theorem negate_negates_eight_amounts : calls_Total_Negate =
    ["Clone", "Negate", "Negate", "Negate", "Negate", "Negate", "Negate", "Negate", "Negate"] := by decide
theorem merge_adds_seven_amounts : calls_Total_Merge =
    ["Clone", "new", "append", "clone", "append", "Add", "Add", "Matches", "append", "clone",
     "Add", "Add", "Add", "Add", "Add"] := by decide
theorem matches_compares_three : calls_RateTotal_Matches = ["Equals", "Equals", "Equals"] := by decide
theorem convert_multiplies_then_rescales : calls_ExchangeRate_Convert = ["Multiply", "Zero", "Def", "Rescale", "Exp"] := by decide
theorem line_adds_debit_subtracts_credit : calls_PaymentLine_calculate =
    ["Zero", "Def", "Convert", "Errorf", "MatchPrecision", "Add", "Convert", "Errorf", "MatchPrecision", "Subtract"] := by decide
theorem payment_recalculates_clones_merges_adds : calls_Payment_calculate =
    ["RegimeDef", "Def", "Def", "Errorf", "calculate", "Itoa", "Def", "Itoa", "Errorf", "Calculate",
     "GetRoundingRule", "Clone", "Merge", "Add"] := by decide
theorem document_ref_recalculates : calls_DocumentRef_Calculate = ["Calculate"] := by decide

end Expect

end GoblVerif.Props.C20
