/-
  C20 — Tax summaries combine component-wise; payment totals add up.

  Only property theorems live here (helper lemmas: Proofs/Merge.lean,
  Proofs/Payment.lean).  They are about the models of /repo/tax/totals.go
  (Model/Merge.lean) and of the payment calculation (Model/Payment.lean), which
  use the *faithful* `num` operations, and relate them to Spec/C20.lean.

  The merge theorems are stated for summaries at one common precision `e`
  (`uniform e`, what `Total.Calculate` produces): there `Amount.Add` is integer
  addition.  "Neither operation alters its operands" has no content in a
  functional model; it is checked on the real objects by the harness.
-/
import GoblVerif.Spec.C20
import GoblVerif.Proofs.Merge
import GoblVerif.Proofs.Payment
import GoblVerif.Generated.MergeFacts
import GoblVerif.Generated.TaxTotalsSrc
import GoblVerif.Proofs.TaxTotalsSrc
import Mathlib.Tactic.Linarith

namespace GoblVerif.Props.C20
open GoblVerif GoblVerif.Merge GoblVerif.Spec.C20

private theorem uniform_iff (e : ℕ) (t : Total) :
    uniform e t = true ↔ t.sum.exp = e ∧ ∀ c ∈ t.categories, CInv e c := by
  unfold uniform CInv; simp

/-! ## rate groups -/

/-- `RateTotal.Matches` decides exactly "same rate group" of the specification:
    equal extensions and country, both exempt or percentages of equal *value*
    (20% = 20.0%) with surcharge percentages of equal value; keys are ignored. -/
theorem matches_is_same_group (a b : RateTotal) : a.matches b = sameGroup a b :=
  matches_eq_sameGroup a b

/-- "same rate group" is an equivalence relation -/
theorem same_group_equivalence (a b c : RateTotal) :
    sameGroup a a = true ∧ sameGroup a b = sameGroup b a ∧
    (sameGroup a b = true → sameGroup b c = true → sameGroup a c = true) := by
  refine ⟨sameGroup_refl a, sameGroup_symm a b, ?_⟩
  intro h1 h2
  rw [sameGroup_congr_right a b c h2] at h1
  exact h1

/-! ## merge: every figure is the sum of the operands' -/

private theorem merge_group (e : ℕ) (f : RateTotal → ℤ)
    (hf : ∀ m x, RInv e m → RInv e x → f (m.absorb x) = f m + f x)
    (t1 t2 : Total) (code : String) (k : RateTotal)
    (h1 : uniform e t1 = true) (h2 : uniform e t2 = true) :
    groupFigure f code k (t1.merge t2) = groupFigure f code k t1 + groupFigure f code k t2 := by
  obtain ⟨_, c1⟩ := (uniform_iff e t1).mp h1
  obtain ⟨_, c2⟩ := (uniform_iff e t2).mp h2
  unfold groupFigure Total.merge Total.clone
  apply categories_figure (CInv e) _ code (cat_absorb_uniform e) _ _ _ c1 c2
  intro m c hm hc
  exact rates_figure e f k hf m.rates c.rates ((uniformCategory_iff e m).mp hm).2.2 ((uniformCategory_iff e c).mp hc).2.2

/-- for every category code and rate group, the base of the merged summary is the
    sum of the operands' bases -/
theorem merge_bases (e : ℕ) (t1 t2 : Total) (code : String) (k : RateTotal)
    (h1 : uniform e t1 = true) (h2 : uniform e t2 = true) :
    groupFigure (·.base.value) code k (t1.merge t2) =
      groupFigure (·.base.value) code k t1 + groupFigure (·.base.value) code k t2 :=
  merge_group e _ (absorb_base e) t1 t2 code k h1 h2

/-- … the tax amount is the sum of the operands' amounts -/
theorem merge_amounts (e : ℕ) (t1 t2 : Total) (code : String) (k : RateTotal)
    (h1 : uniform e t1 = true) (h2 : uniform e t2 = true) :
    groupFigure (·.amount.value) code k (t1.merge t2) =
      groupFigure (·.amount.value) code k t1 + groupFigure (·.amount.value) code k t2 :=
  merge_group e _ (absorb_amount e) t1 t2 code k h1 h2

/-- … and the rate surcharge is the sum of the operands' surcharges (absent = 0),
    whichever operand carries one — also for exempt groups, which match whatever
    their surcharges (this is what fix 1b8dc7e restored: before it `Merge`
    dereferenced nil when only the second operand's exempt group had one) -/
theorem merge_surcharges (e : ℕ) (t1 t2 : Total) (code : String) (k : RateTotal)
    (h1 : uniform e t1 = true) (h2 : uniform e t2 = true) :
    groupFigure surchargeValue code k (t1.merge t2) =
      groupFigure surchargeValue code k t1 + groupFigure surchargeValue code k t2 :=
  merge_group e _ (absorb_surcharge e) t1 t2 code k h1 h2

/-- the amount of every category (by code) is the sum of the operands' -/
theorem merge_category_amounts (e : ℕ) (t1 t2 : Total) (code : String)
    (h1 : uniform e t1 = true) (h2 : uniform e t2 = true) :
    categoryFigure (·.amount.value) code (t1.merge t2) =
      categoryFigure (·.amount.value) code t1 + categoryFigure (·.amount.value) code t2 := by
  obtain ⟨_, c1⟩ := (uniform_iff e t1).mp h1
  obtain ⟨_, c2⟩ := (uniform_iff e t2).mp h2
  unfold categoryFigure Total.merge Total.clone
  exact categories_figure (CInv e) _ code (cat_absorb_uniform e) (cat_absorb_amount e) _ _ c1 c2

/-- the category surcharge (absent = 0) is the sum of the operands', whichever
    side carries one (this is what fix 51a93ed restored) -/
theorem merge_category_surcharges (e : ℕ) (t1 t2 : Total) (code : String)
    (h1 : uniform e t1 = true) (h2 : uniform e t2 = true) :
    categoryFigure catSurchargeValue code (t1.merge t2) =
      categoryFigure catSurchargeValue code t1 + categoryFigure catSurchargeValue code t2 := by
  obtain ⟨_, c1⟩ := (uniform_iff e t1).mp h1
  obtain ⟨_, c2⟩ := (uniform_iff e t2).mp h2
  unfold categoryFigure Total.merge Total.clone
  exact categories_figure (CInv e) _ code (cat_absorb_uniform e) (cat_absorb_surcharge e) _ _ c1 c2

/-- the total is the sum of the totals, at the same precision -/
theorem merge_sum (e : ℕ) (t1 t2 : Total) (h1 : uniform e t1 = true) (h2 : uniform e t2 = true) :
    (t1.merge t2).sum = ⟨t1.sum.value + t2.sum.value, e⟩ := by
  obtain ⟨s1, _⟩ := (uniform_iff e t1).mp h1
  obtain ⟨s2, _⟩ := (uniform_iff e t2).mp h2
  unfold Total.merge
  simp only
  rw [add_same_exp _ _ (by omega), s1]

/-- the merged summary is again at precision `e` -/
theorem merge_uniform (e : ℕ) (t1 t2 : Total) (h1 : uniform e t1 = true) (h2 : uniform e t2 = true) :
    uniform e (t1.merge t2) = true := by
  obtain ⟨s1, c1⟩ := (uniform_iff e t1).mp h1
  obtain ⟨s2, c2⟩ := (uniform_iff e t2).mp h2
  rw [uniform_iff]
  refine ⟨by rw [merge_sum e t1 t2 h1 h2], ?_⟩
  unfold Total.merge Total.clone
  simp only
  rw [mergeCategories_eq]
  exact inv_foldl_mergeOne _ _ (CInv e) (fun m c hm hc _ => cat_absorb_uniform e m c hm hc) _ _ c1 c2

/-! ## the executable oracle holds of the model; order independence -/

/-- the Bool oracle the harness evaluates on Go's output holds of the model's merge,
    for every pair of summaries at one precision (no condition on their shape) -/
theorem merge_figures_add (e : ℕ) (t1 t2 : Total)
    (h1 : uniform e t1 = true) (h2 : uniform e t2 = true) :
    mergeOracle e t1 t2 (t1.merge t2) = true := by
  unfold mergeOracle figuresAdd
  simp only [Bool.and_eq_true, List.all_eq_true, beq_iff_eq]
  refine ⟨merge_uniform e t1 t2 h1 h2, ?_, ?_⟩
  · rw [merge_sum e t1 t2 h1 h2]
  · intro code _
    refine ⟨⟨merge_category_amounts e t1 t2 code h1 h2, merge_category_surcharges e t1 t2 code h1 h2⟩, ?_⟩
    intro k _
    exact ⟨⟨merge_bases e t1 t2 code k h1 h2, merge_amounts e t1 t2 code k h1 h2⟩,
      merge_surcharges e t1 t2 code k h1 h2⟩

/-- Order independence: for every category code and rate group `t1.Merge(t2)` and
    `t2.Merge(t1)` present the same figures, and the same total. -/
theorem merge_order_independent (e : ℕ) (t1 t2 : Total)
    (h1 : uniform e t1 = true) (h2 : uniform e t2 = true) :
    sameFigures (t1.merge t2) (t2.merge t1) = true := by
  unfold sameFigures
  simp only [Bool.and_eq_true, List.all_eq_true, beq_iff_eq]
  refine ⟨?_, ?_⟩
  · rw [merge_sum e t1 t2 h1 h2, merge_sum e t2 t1 h2 h1, add_comm]
  · intro code _
    refine ⟨⟨?_, ?_⟩, ?_⟩
    · rw [merge_category_amounts e t1 t2 code h1 h2, merge_category_amounts e t2 t1 code h2 h1, add_comm]
    · rw [merge_category_surcharges e t1 t2 code h1 h2, merge_category_surcharges e t2 t1 code h2 h1, add_comm]
    · intro k _
      refine ⟨⟨?_, ?_⟩, ?_⟩
      · rw [merge_bases e t1 t2 code k h1 h2, merge_bases e t2 t1 code k h2 h1, add_comm]
      · rw [merge_amounts e t1 t2 code k h1 h2, merge_amounts e t2 t1 code k h2 h1, add_comm]
      · rw [merge_surcharges e t1 t2 code k h1 h2, merge_surcharges e t2 t1 code k h2 h1, add_comm]

/-! ## negation -/

private theorem zipAll_map {α : Type} (p : α → α → Bool) (f : α → α) (h : ∀ x, p x (f x) = true) (xs : List α) :
    zipAll p xs (xs.map f) = true := by
  induction xs with
  | nil => rfl
  | cons x xs ih => simp [zipAll, h x, ih]

private theorem rate_negated (r : RateTotal) : rateNegated r r.negate = true := by
  unfold rateNegated RateTotal.negate Amount.negate
  rcases r.surcharge with _ | s <;> simp

private theorem category_negated (c : CategoryTotal) : categoryNegated c c.negate = true := by
  unfold categoryNegated CategoryTotal.negate Amount.negate
  have := zipAll_map rateNegated RateTotal.negate rate_negated c.rates
  rcases c.surcharge with _ | s <;> simp [this]

/-- `Negate` flips the sign of every amount — total, category amounts and
    category surcharges, bases, tax amounts and rate surcharges — and leaves
    codes, keys, percentages, precisions and the order of rows alone. -/
theorem negate_flips_all (t : Total) : isNegationOf t t.negate = true := by
  unfold isNegationOf Total.negate Total.clone Amount.negate
  simp [zipAll_map categoryNegated CategoryTotal.negate category_negated t.categories]

theorem negate_involutive (t : Total) : t.negate.negate = t := by
  obtain ⟨cs, s, sp⟩ := t
  unfold Total.negate Total.clone Amount.negate
  simp only [Total.mk.injEq, neg_neg, List.map_map, and_true]
  rw [List.map_congr_left (g := id)]
  · simp
  · intro c _
    obtain ⟨code, ret, rates, am, su, ap⟩ := c
    simp only [Function.comp, CategoryTotal.negate, Amount.negate, neg_neg, id, List.map_map, CategoryTotal.mk.injEq, true_and, and_true]
    refine ⟨?_, ?_⟩
    · rw [List.map_congr_left (g := id)]
      · simp
      · intro r _
        obtain ⟨k, co, ex, b, p, su, a⟩ := r
        simp only [Function.comp, RateTotal.negate, Amount.negate, neg_neg, id, RateTotal.mk.injEq, true_and, and_true]
        rcases su with _ | s <;> simp
    · rcases su with _ | s <;> simp [Amount.negate]

/-! ## a summary merged with its negation is zero everywhere -/

private theorem nodup_iff (t : Total) :
    noDuplicates t = true ↔
      pairwiseNot (fun (a b : CategoryTotal) => a.code == b.code) t.categories = true ∧
      ∀ c ∈ t.categories, pairwiseNot sameGroup c.rates = true := by
  unfold noDuplicates; simp

/-- For a summary without duplicate categories / rate groups (any precisions, any
    shape), every amount of `t.Merge(t.Negate())` is zero: total, category amounts
    and surcharges, bases, tax amounts and rate surcharges.  (With duplicates the
    Go code leaves non-zero rows: known finding `duplicate-groups-in-summary`.) -/
theorem merge_negate_zero (t : Total) (h : noDuplicates t = true) :
    allZero (t.merge t.negate) = true := by
  obtain ⟨hc, hr⟩ := (nodup_iff t).mp h
  unfold allZero Total.merge Total.negate Total.clone
  simp only [Bool.and_eq_true, beq_iff_eq, List.all_eq_true]
  refine ⟨add_negate_zero t.sum, ?_⟩
  rw [categories_self_negate t.categories hc]
  intro c' hc'
  rw [List.mem_map] at hc'
  obtain ⟨c, hcm, rfl⟩ := hc'
  refine ⟨⟨?_, ?_⟩, ?_⟩
  · exact add_negate_zero c.amount
  · unfold catSurchargeValue CategoryTotal.absorb CategoryTotal.negate
    rcases c.surcharge with _ | s
    · simp
    · simp [add_negate_zero]
  · intro r' hr'
    have : (c.absorb c.negate).rates = mergeRates c.rates (c.rates.map RateTotal.negate) := rfl
    rw [this, rates_self_negate c.rates (hr c hcm), List.mem_map] at hr'
    obtain ⟨r, _, rfl⟩ := hr'
    exact rate_absorb_negate_zero r


/-! ## matched rows of any shape; no new duplicates -/

/-- The "merge the amounts" step is additive in all three figures for *any* two
    rows at one precision — in particular when only the absorbed row carries a
    surcharge (two exempt rows): it is copied, percentage included.  `Total.merge`
    has no partial step, so it is the result of `Merge` for every pair of
    summaries (the harness reports any panic of the real code as a violation). -/
theorem merge_rows_add_in_any_shape (e : ℕ) (m x : RateTotal)
    (hm : uniformRate e m = true) (hx : uniformRate e x = true) :
    (m.absorb x).base.value = m.base.value + x.base.value ∧
    (m.absorb x).amount.value = m.amount.value + x.amount.value ∧
    surchargeValue (m.absorb x) = surchargeValue m + surchargeValue x ∧
    (m.surcharge = none → (m.absorb x).surcharge = x.surcharge) :=
  ⟨absorb_base e m x hm hx, absorb_amount e m x hm hx, absorb_surcharge e m x hm hx, by
    intro h
    unfold RateTotal.absorb
    rcases hxs : x.surcharge with _ | xs <;> simp [h]⟩

/-- the input of the former known finding `merge-exempt-group-with-surcharge`
    (exempt group, surcharge 2.50 only in the second operand): both orders now give
    base 150.00 and surcharge 2.50, the same summary up to row order -/
theorem merge_exempt_surcharge_either_order :
    let ex : RateTotal := { key := "", country := "", ext := [], base := ⟨10000, 2⟩, percent := none, surcharge := none, amount := ⟨0, 2⟩ }
    let exS : RateTotal := { ex with base := ⟨5000, 2⟩, surcharge := some ⟨⟨⟨5, 2⟩⟩, ⟨250, 2⟩⟩ }
    let t1 : Total := { categories := [{ code := "VAT", retained := false, rates := [ex], amount := ⟨0, 2⟩, surcharge := none, amountP := ⟨0, 0⟩ }], sum := ⟨0, 2⟩, sumP := ⟨0, 0⟩ }
    let t2 : Total := { categories := [{ code := "VAT", retained := false, rates := [exS], amount := ⟨0, 2⟩, surcharge := none, amountP := ⟨0, 0⟩ }], sum := ⟨0, 2⟩, sumP := ⟨0, 0⟩ }
    wellFormed t2 = false ∧
    groupFigure (·.base.value) "VAT" ex (t1.merge t2) = 15000 ∧ groupFigure surchargeValue "VAT" ex (t1.merge t2) = 250 ∧
    groupFigure (·.base.value) "VAT" ex (t2.merge t1) = 15000 ∧ groupFigure surchargeValue "VAT" ex (t2.merge t1) = 250 ∧
    sameUpToOrder (t1.merge t2) (t2.merge t1) = true ∧ allZero (t2.merge t2.negate) = true := by
  decide +kernel

/-- merging summaries without duplicate categories / rate groups creates none -/
theorem merge_no_duplicates (t1 t2 : Total) (h1 : noDuplicates t1 = true) (h2 : noDuplicates t2 = true) :
    noDuplicates (t1.merge t2) = true := by
  obtain ⟨c1, r1⟩ := (nodup_iff t1).mp h1
  obtain ⟨_, r2⟩ := (nodup_iff t2).mp h2
  rw [nodup_iff]
  unfold Total.merge Total.clone
  exact mergeCategories_nodup t1.categories t2.categories c1 r1 r2

/-- PARTIAL.  Order independence up to row order: the two merge orders present
    the same figures for every category code and rate group, the same total, and
    neither result lists a category or rate group twice — so a row of one result
    corresponds to at most one row of the other, with the same figures.

    Full statement wanted: `sameUpToOrder (t1.merge t2) (t2.merge t1) = true`, i.e.
    additionally *equally many* categories and rows per category (a bijection
    between rows).  Missing: the counting argument that both results contain
    exactly the union of the operands' groups; `sameUpToOrder` (with the counts)
    is evaluated by the harness on the Go outputs of every generated pair. -/
theorem merge_comm_up_to_order_partial (e : ℕ) (t1 t2 : Total)
    (h1 : uniform e t1 = true) (h2 : uniform e t2 = true)
    (d1 : noDuplicates t1 = true) (d2 : noDuplicates t2 = true) :
    sameFigures (t1.merge t2) (t2.merge t1) = true ∧
    noDuplicates (t1.merge t2) = true ∧ noDuplicates (t2.merge t1) = true :=
  ⟨merge_order_independent e t1 t2 h1 h2, merge_no_duplicates t1 t2 d1 d2, merge_no_duplicates t2 t1 d2 d1⟩

/-! ## payments -/

open GoblVerif.Payment in
/-- The payment total is the sum of the line totals, each line total is
    (debit converted) − (credit converted) at the payment currency's precision;
    with at least one line the total is at that precision too, and a payment
    without lines gets `num.AmountZero` (the empty sum; fix 99b2945). -/
theorem payment_total (p : Payment) (res : Result) (h : p.calculate = .ok res) :
    ∃ lts : List Amount,
      List.Forall₂ (fun l lt => l.calculate p.currency p.curExp p.rates = .ok lt) p.lines lts ∧
      res.lineTotals = lts ∧
      (∀ lt ∈ lts, lt.exp = p.curExp) ∧
      res.total.value = (lts.map (·.value)).sum ∧
      (p.lines ≠ [] → res.total = ⟨(lts.map (·.value)).sum, p.curExp⟩) ∧
      (p.lines = [] → res.total = ⟨0, 0⟩) := by
  unfold Payment.calculate at h
  cases hr : runLines p p.lines ⟨[], none, none⟩ with
  | error e => rw [hr] at h; simp at h
  | ok st =>
    rw [hr] at h
    simp only [Except.ok.injEq] at h
    subst h
    obtain ⟨lts, hf, g1, g2, _⟩ := runLines_ok p p.lines _ st hr
    simp only [List.nil_append] at g1
    have hexp : ∀ lt ∈ lts, lt.exp = p.curExp := forall2_exp _ _ _ _ _ hf
    have hne : p.lines ≠ [] → ({ lineTotals := st.lineTotals, tax := st.tt, total := st.total.getD amountZero } : Result).total
        = ⟨(lts.map (·.value)).sum, p.curExp⟩ := by
      intro hne
      simp only
      rw [g2]
      cases lts with
      | nil =>
        have := List.Forall₂.length_eq hf
        simp only [List.length_nil, List.length_eq_zero_iff] at this
        exact absurd this hne
      | cons lt more =>
        simp only [List.foldl_cons]
        have : accTotal none lt = some lt := rfl
        rw [this, foldl_accTotal p.curExp more lt (hexp lt (by simp)) (fun x hx => hexp x (by simp [hx]))]
        simp
    have he : p.lines = [] → lts = [] := by
      intro he
      have := List.Forall₂.length_eq hf
      rw [he] at this
      simp only [List.length_nil] at this
      exact List.length_eq_zero_iff.mp this.symm
    refine ⟨lts, hf, g1, hexp, ?_, hne, ?_⟩
    · by_cases hl : p.lines = []
      · have := he hl
        subst this
        simp only [List.foldl_nil] at g2
        simp [g2, amountZero]
      · rw [hne hl]
    · intro hl
      have := he hl
      subst this
      simp only [List.foldl_nil] at g2
      simp [g2, amountZero]

open GoblVerif.Payment in
/-- The total a payment carried before the calculation plays no role in its
    result (before fix 99b2945 a payment without lines kept it). -/
theorem payment_ignores_previous_total (p : Payment) (a : Amount) :
    ({ p with total := a } : Payment).calculate = p.calculate := by
  unfold Payment.calculate
  rw [runLines_total_irrelevant]

open GoblVerif.Payment in
/-- `Payment.calculate` is defined exactly when every line can be converted (an
    exchange rate exists) and every line document's currency is defined: merging
    the documents' summaries cannot fail, whatever their shape. -/
theorem payment_defined (p : Payment) :
    (∃ res, p.calculate = .ok res) ↔
      ∀ l ∈ p.lines, (∃ lt, l.calculate p.currency p.curExp p.rates = .ok lt) ∧
        ∀ dr, l.document = some dr → dr.docValid = true := by
  have hd := runLines_defined p p.lines ⟨[], none, none⟩
  unfold lineOK at hd
  rw [← hd]
  unfold Payment.calculate
  cases hr : runLines p p.lines ⟨[], none, none⟩ with
  | error e => simp
  | ok st => simp

open GoblVerif.Payment in
/-- each line total is debit minus credit, converted (`currency.Convert`) and
    brought to the payment currency's precision -/
theorem payment_line_total (pl : PaymentLine) (cur : String) (e : ℕ) (rates : List ExchangeRate) (lt : Amount)
    (h : pl.calculate cur e rates = .ok lt) :
    ∃ d c, lineSide pl cur rates pl.debit = .ok d ∧ lineSide pl cur rates pl.credit = .ok c ∧
      lt = ⟨sideValue e d - sideValue e c, e⟩ :=
  line_total pl cur e rates lt h

open GoblVerif.Payment in
/-- `ExchangeRate.Convert` of an amount of *any* precision is the exact product
    with the declared rate, rounded half away from zero once, to the destination
    currency's precision — inside the float-exact domain (the product of the
    amount's value, scaled up to the destination precision when it is coarser,
    and the rate's value stays below 2^52; `Multiply` divides by at most 10^22).
    Before fix 7d1829e this held only for `a.exp = er.toExp`: a coarser amount
    lost the decimals of the product, a finer one was rounded twice. -/
theorem convert_is_exact_rounding (er : ExchangeRate) (a : Amount)
    (hm : |a.value * pow10 (er.toExp - a.exp) * er.amount.value| < 2 ^ 52)
    (he : er.amount.exp + (a.exp - er.toExp) ≤ 22) :
    er.convert a = convertSpec er.amount.toRat er.toExp a :=
  convert_exact er a hm he

open GoblVerif.Payment in
/-- the converted amount is at the destination currency's precision, whatever
    the precision of the amount and of the rate (no domain condition) -/
theorem convert_at_destination_precision (er : ExchangeRate) (a : Amount) :
    (er.convert a).exp = er.toExp :=
  convert_exp er a

open GoblVerif.Payment in
/-- how an amount is written plays no role: two spellings of the same value
    (`100` and `100.00`) convert to the same result -/
theorem convert_ignores_spelling (er : ExchangeRate) (a b : Amount) (hab : a.toRat = b.toRat)
    (hma : |a.value * pow10 (er.toExp - a.exp) * er.amount.value| < 2 ^ 52)
    (hea : er.amount.exp + (a.exp - er.toExp) ≤ 22)
    (hmb : |b.value * pow10 (er.toExp - b.exp) * er.amount.value| < 2 ^ 52)
    (heb : er.amount.exp + (b.exp - er.toExp) ≤ 22) :
    er.convert a = er.convert b :=
  convert_precision_irrelevant er a b hab hma hea hmb heb

open GoblVerif.Payment in
/-- A payment line in a foreign currency: its total is, to the unit, the
    specification Σ — debit times rate rounded once to the payment currency,
    minus credit times rate rounded once — for debit and credit of any precision
    (`r` is the first declared rate from the line's currency to the payment's;
    `convDomain`: the float-exact domain of `convert_is_exact_rounding`). -/
theorem payment_line_total_converted (pl : PaymentLine) (cur : String) (e : ℕ) (rates : List ExchangeRate)
    (r : ExchangeRate) (lt : Amount) (hc : pl.currency ≠ "") (hne : pl.currency ≠ cur)
    (hr : matchExchangeRate rates pl.currency cur = some r) (hre : r.toExp = e)
    (hd : convDomain r pl.debit) (hcr : convDomain r pl.credit)
    (h : pl.calculate cur e rates = .ok lt) :
    lt = ⟨specSide r.amount.toRat e pl.debit - specSide r.amount.toRat e pl.credit, e⟩ :=
  converted_line_total pl cur e rates r lt hc hne hr hre hd hcr h

open GoblVerif.Payment in
/-- the payment's tax summary is the left-to-right merge of the recalculated
    summaries of its lines' documents (`none` when no line has one) -/
theorem payment_tax (p : Payment) (res : Result) (h : p.calculate = .ok res) :
    res.tax = mergeAll (p.lines.filterMap (lineTax p)) := by
  unfold Payment.calculate at h
  cases hr : runLines p p.lines ⟨[], none, none⟩ with
  | error e => rw [hr] at h; simp at h
  | ok st =>
    rw [hr] at h
    simp only [Except.ok.injEq] at h
    subst h
    obtain ⟨_, _, _, _, g3⟩ := runLines_ok p p.lines _ st hr
    simp only
    rw [g3, foldl_accTax]

/-! ## non-vacuity -/

private def r20 : RateTotal := { key := "standard", country := "", ext := [], base := ⟨10000, 2⟩, percent := some ⟨⟨20, 2⟩⟩, surcharge := none, amount := ⟨2000, 2⟩ }
private def r20' : RateTotal := { key := "other", country := "", ext := [], base := ⟨5000, 2⟩, percent := some ⟨⟨200, 3⟩⟩, surcharge := none, amount := ⟨1000, 2⟩ }
private def r10s : RateTotal := { key := "reduced", country := "", ext := [], base := ⟨3000, 2⟩, percent := some ⟨⟨10, 2⟩⟩, surcharge := some ⟨⟨⟨52, 3⟩⟩, ⟨156, 2⟩⟩, amount := ⟨300, 2⟩ }
private def tA : Total := { categories := [{ code := "VAT", retained := false, rates := [r20, r10s], amount := ⟨2300, 2⟩, surcharge := some ⟨156, 2⟩, amountP := ⟨0, 0⟩ }], sum := ⟨2456, 2⟩, sumP := ⟨0, 0⟩ }
private def rEx : RateTotal := { key := "exempt", country := "PT", ext := [("pt-exemption", "M01")], base := ⟨700, 2⟩, percent := none, surcharge := none, amount := ⟨0, 2⟩ }
private def tC : Total := { categories := [{ code := "IRPF", retained := true, rates := [r20'], amount := ⟨1000, 2⟩, surcharge := none, amountP := ⟨100000, 4⟩ }, { code := "VAT", retained := false, rates := [rEx, r10s], amount := ⟨300, 2⟩, surcharge := some ⟨156, 2⟩, amountP := ⟨0, 0⟩ }], sum := ⟨-544, 2⟩, sumP := ⟨-54400, 4⟩ }
private def tB : Total := { categories := [{ code := "VAT", retained := false, rates := [r20'], amount := ⟨1000, 2⟩, surcharge := none, amountP := ⟨0, 0⟩ }], sum := ⟨1000, 2⟩, sumP := ⟨0, 0⟩ }

example : uniform 2 tA = true ∧ uniform 2 tB = true ∧
    noDuplicates tA = true ∧ noDuplicates tB = true := by decide +kernel
example : groupFigure (·.base.value) "VAT" r20 (tA.merge tB) = 15000 ∧
    categoryFigure catSurchargeValue "VAT" (tB.merge tA) = 156 ∧
    sameUpToOrder (tA.merge tB) (tB.merge tA) = true := by decide +kernel
example : allZero (tA.merge tA.negate) = true ∧ isNegationOf tA tA.negate = true := by decide +kernel


/- conversion: the two inputs of the former findings lie inside the domain of
   `convert_is_exact_rounding`, and the model gives the specified results
   (1500 JPY at 0.0061 = 9.15 EUR, not 9.00; 0.0010 USD at 4.9995 = 0.00 EUR, not
   0.01; 2.01 EUR at 163.93 = 329 JPY, not 330) -/
private def jpyEur : Payment.ExchangeRate := ⟨"JPY", "EUR", ⟨61, 4⟩, 2⟩
private def usdEur : Payment.ExchangeRate := ⟨"USD", "EUR", ⟨49995, 4⟩, 2⟩
private def eurJpy : Payment.ExchangeRate := ⟨"EUR", "JPY", ⟨16393, 2⟩, 0⟩

example : |(1500 : ℤ) * pow10 (jpyEur.toExp - 0) * jpyEur.amount.value| < 2 ^ 52 ∧ jpyEur.amount.exp + (0 - jpyEur.toExp) ≤ 22 := by decide
example : |(10 : ℤ) * pow10 (usdEur.toExp - 4) * usdEur.amount.value| < 2 ^ 52 ∧ usdEur.amount.exp + (4 - usdEur.toExp) ≤ 22 := by decide
example : jpyEur.convert ⟨1500, 0⟩ = ⟨915, 2⟩ := by
  rw [convert_is_exact_rounding _ _ (by decide) (by decide)]; decide +kernel
example : usdEur.convert ⟨10, 4⟩ = ⟨0, 2⟩ := by
  rw [convert_is_exact_rounding _ _ (by decide) (by decide)]; decide +kernel
example : eurJpy.convert ⟨201, 2⟩ = ⟨329, 0⟩ ∧ eurJpy.convert ⟨-201, 2⟩ = ⟨-329, 0⟩ := by
  rw [convert_is_exact_rounding _ _ (by decide) (by decide), convert_is_exact_rounding _ _ (by decide) (by decide)]
  decide +kernel
example : (⟨100, 0⟩ : Amount).toRat = (⟨10000, 2⟩ : Amount).toRat := by decide +kernel
example : Payment.convDomain jpyEur (some ⟨1500, 0⟩) ∧ Payment.convDomain jpyEur none := by
  constructor
  · intro a h; cases h; decide
  · intro a h; cases h

/-! ## the model and the source (`namespace Src`)

`Generated/TaxTotalsSrc.lean` is the translation (go2lean) of /repo/tax/totals.go
as it stands now; its Go structs are MAPPED onto the records of Model/Merge.lean
and its `num` calls are the fields of the class `TaxTotals.NumOps`, read here
with `faithfulOps` (the operations of Model/Num.lean that Model/Merge.lean is
written with).  Proved for ALL arguments: `Matches`, `clone`,
`matchRoundingPrecision`, and `Clone`, `Negate`, `Merge` for summaries of any
shape (`src_Clone`, `src_Negate`, `src_Merge`): the loops that write in place
through slices of pointers (go2lean_own.go) are handled by the loop principles of
Proofs/TaxTotalsSrc.lean (cursor loop, fill loop, inner loop with write-through,
search loop with a found pointer).  `src_merge_figures_add`,
`src_merge_order_independent`, `src_negate_flips_all` and `src_merge_negate_zero`
restate the headline theorems of this file directly over the regenerated
definitions.  What the translation cannot see — sharing between the operands and
the result — stays with the harness; the shape pins in `Expect` stay (they are
weaker, and cheap). -/
namespace Src
open GoblVerif.Generated GoblVerif.TaxTotals GoblVerif.Proofs.TaxTotalsSrc

theorem all_translated : TaxTotalsSrc.untranslated = [] := by decide

theorem translated_as_listed :
    TaxTotalsSrc.translated = ["RateTotal.matches", "RateTotal.Matches", "RateTotal.clone", "newCategoryTotal",
      "newRateTotal", "matchRoundingPrecision", "CategoryTotal.PreciseAmount", "Total.PreciseSum", "Total.Category",
      "Total.Clone", "Total.Negate", "Total.Merge", "Total.calculateBaseCategoryTotal", "Total.calculateFinalSum",
      "Total.round", "Total.rateTotalFor", "TotalCalculator.calculateBaseRateTotals"] := by decide

theorem struct_Total_as_mapped :
    TaxTotalsSrc.struct_Total = [("Categories", "[]*CategoryTotal"), ("Sum", "num.Amount"), ("sum", "num.Amount")] ∧
    TaxTotalsSrc.structLean_Total = ("GoblVerif.Merge.Total", ["categories", "sum", "sumP"]) ∧
    TaxTotalsSrc.structOmitted_Total = [] := by decide

theorem struct_CategoryTotal_as_mapped :
    TaxTotalsSrc.struct_CategoryTotal = [("Code", "cbc.Code"), ("Retained", "bool"), ("Rates", "[]*RateTotal"),
      ("Amount", "num.Amount"), ("Surcharge", "*num.Amount"), ("amount", "num.Amount")] ∧
    TaxTotalsSrc.structLean_CategoryTotal =
      ("GoblVerif.Merge.CategoryTotal", ["code", "retained", "rates", "amount", "surcharge", "amountP"]) ∧
    TaxTotalsSrc.structOmitted_CategoryTotal = [] := by decide

theorem struct_RateTotal_as_mapped :
    TaxTotalsSrc.struct_RateTotal = [("Key", "cbc.Key"), ("Country", "l10n.TaxCountryCode"), ("Ext", "Extensions"),
      ("Base", "num.Amount"), ("Percent", "*num.Percentage"), ("Surcharge", "*RateTotalSurcharge"), ("Amount", "num.Amount")] ∧
    TaxTotalsSrc.structLean_RateTotal =
      ("GoblVerif.Merge.RateTotal", ["key", "country", "ext", "base", "percent", "surcharge", "amount"]) ∧
    TaxTotalsSrc.structOmitted_RateTotal = [] := by decide

theorem struct_RateTotalSurcharge_as_mapped :
    TaxTotalsSrc.struct_RateTotalSurcharge = [("Percent", "num.Percentage"), ("Amount", "num.Amount")] ∧
    TaxTotalsSrc.structLean_RateTotalSurcharge = ("GoblVerif.Merge.Surcharge", ["percent", "amount"]) ∧
    TaxTotalsSrc.structOmitted_RateTotalSurcharge = [] := by decide

theorem struct_Combo_as_mapped :
    TaxTotalsSrc.struct_Combo = [("Category", "cbc.Code"), ("Country", "l10n.TaxCountryCode"), ("Rate", "cbc.Key"),
      ("Percent", "*num.Percentage"), ("Surcharge", "*num.Percentage"), ("Ext", "Extensions"), ("retained", "bool")] ∧
    TaxTotalsSrc.structLean_Combo =
      ("GoblVerif.TaxTotals.Combo", ["category", "country", "rate", "percent", "surcharge", "ext", "retained"]) ∧
    TaxTotalsSrc.structOmitted_Combo = [] := by decide

/-- what the translation assumes beyond its general reading of Go (see the
    header of go2lean_own.go): which slices hold no nil; which locals own a fresh
    object; which loops write through their range variable and which pointers
    are found by a search loop (all with write-back into the slice); the three
    `make` calls whose nil elements are overwritten before they are read
    (`newCategoryTotal`: length 0; `Clone`: `nt.Categories[i] = new(…)` and
    `…Rates[j] = rt.clone()` are the first statements of the loops over the same
    lengths); the one shared pointer (`clone` copies `Percent`, which nothing
    writes through); `&ns`, `&x` taken after the last assignment; no unsigned
    subtraction, no condition-controlled loop -/
theorem assumptions_as_reviewed :
    TaxTotalsSrc.nonNilElems = ["[]*CategoryTotal", "[]*Combo", "[]*RateTotal", "[]*taxLine"] ∧
    TaxTotalsSrc.inOutParams = [("Total.calculateBaseCategoryTotal", "ct"), ("Total.calculateFinalSum", "t"),
      ("Total.round", "t"), ("Total.rateTotalFor", "t"), ("TotalCalculator.calculateBaseRateTotals", "t")] ∧
    TaxTotalsSrc.ownedLocals = [("RateTotal.clone", "nrt"), ("newCategoryTotal", "ct"), ("newRateTotal", "rt"),
      ("Total.Clone", "nt"), ("Total.Negate", "nt"), ("Total.Merge", "nt")] ∧
    TaxTotalsSrc.elemCursors = [("Total.Negate", "ct := range nt.Categories"), ("Total.Negate", "rt := range ct.Rates"),
      ("Total.calculateBaseCategoryTotal", "rt := range ct.Rates"), ("Total.calculateFinalSum", "ct := range t.Categories"),
      ("Total.round", "ct := range t.Categories"), ("Total.round", "rt := range ct.Rates")] ∧
    TaxTotalsSrc.foundCursors = [("Total.Merge", "catTotal in nt.Categories"), ("Total.Merge", "rateTotal in catTotal.Rates"),
      ("Total.rateTotalFor", "catTotal in t.Categories"), ("Total.rateTotalFor", "rateTotal in catTotal.Rates")] ∧
    TaxTotalsSrc.nilFreeMakes = [("newCategoryTotal", "make([]*RateTotal, 0)"),
      ("Total.Clone", "make([]*CategoryTotal, len(t.Categories))"), ("Total.Clone", "make([]*RateTotal, len(ct.Rates))")] ∧
    TaxTotalsSrc.ptrCopies = [("RateTotal.clone", "nrt.Percent = rt.Percent")] ∧
    TaxTotalsSrc.lateAddr = [("Total.Merge", "&ns"), ("Total.calculateBaseCategoryTotal", "&x")] ∧
    TaxTotalsSrc.mapRanges = [] ∧ TaxTotalsSrc.mapWrites = [] ∧ TaxTotalsSrc.mapNilTests = [] ∧
    TaxTotalsSrc.natSubs = [] ∧ TaxTotalsSrc.fuelChecks = [] := by decide

/-- the opaque types and their zero values: Go's zero `num.Amount` is `0` with exponent 0, a nil `Extensions` is empty -/
theorem opaque_types_as_reviewed :
    TaxTotalsSrc.namedTypes = [("Extensions", "map[cbc.Key]cbc.Code", "List (String × String)"),
      ("Set", "[]*Combo", "List GoblVerif.TaxTotals.Combo"),
      ("TaxableLine", "interface{GetTaxes() Set; GetTotal() num.Amount}", "GoblVerif.TaxTotals.TaxLine"),
      ("cal.Date", "struct{invalid type}", "GoblVerif.TaxTotals.CalDate"),
      ("cbc.Code", "string", "String"), ("cbc.Key", "string", "String"), ("currency.Code", "string", "String"),
      ("l10n.TaxCountryCode", "string", "String"),
      ("num.Amount", "struct{value int64; exp uint32}", "GoblVerif.Amount"),
      ("num.Percentage", "struct{amount num.Amount}", "GoblVerif.Pct")] ∧
    TaxTotalsSrc.opaqueZeros = [("Extensions", "(default : List (String × String))"), ("num.Amount", "(default : GoblVerif.Amount)")] ∧
    (default : Amount) = ⟨0, 0⟩ ∧ (default : List (String × String)) = [] := by
  refine ⟨by decide, by decide, rfl, rfl⟩

/-- every `num` call is a field of `NumOps` (or the exponent), `Extensions.Equals` is the model's `extEquals` -/
theorem primitives_as_reviewed :
    TaxTotalsSrc.primitives = [("Extensions.Equals", "GoblVerif.Merge.extEquals {0} {1}"),
      ("num.Amount.Add", "NumOps.add {0} {1}"), ("num.Amount.Exp", "GoblVerif.Amount.exp {0}"),
      ("num.Amount.IsZero", "NumOps.isZero {0}"), ("num.Amount.MatchPrecision", "NumOps.matchPrecision {0} {1}"),
      ("num.Amount.Negate", "NumOps.negate {0}"), ("num.Amount.Remove", "NumOps.remove {0} {1}"),
      ("num.Amount.Rescale", "NumOps.rescale {0} {1}"), ("num.Amount.RescaleUp", "NumOps.rescaleUp {0} {1}"),
      ("num.Amount.Subtract", "NumOps.sub {0} {1}"), ("num.Percentage.Equals", "NumOps.pctEquals {0} {1}"),
      ("num.Percentage.Of", "NumOps.pctOf {0} {1}")] := by decide

/-- the reading of the primitives this file uses is the one Model/Merge.lean is written with -/
theorem faithful_reading (a b : Amount) (p q : Pct) (e : ℕ) :
    @NumOps.add faithfulOps a b = a.add b ∧ @NumOps.sub faithfulOps a b = a.sub b ∧
    @NumOps.negate faithfulOps a = a.negate ∧ @NumOps.rescale faithfulOps a e = a.rescale e ∧
    @NumOps.matchPrecision faithfulOps a b = a.matchPrecision b ∧ @NumOps.pctOf faithfulOps p a = p.of a ∧
    @NumOps.pctEquals faithfulOps p q = p.equals q :=
  ⟨rfl, rfl, rfl, rfl, rfl, rfl, rfl⟩

/-! ### regenerated definition = model, for all arguments -/

/-- **the regenerated `(*RateTotal).Matches` is `RateTotal.matches`** -/
theorem src_Matches (rt rt2 : RateTotal) :
    @TaxTotalsSrc.RateTotal_Matches faithfulOps rt rt2 = rt.matches rt2 := Matches_eq rt rt2

/-- … hence it decides "same rate group" of the specification -/
theorem spec_of_the_source_Matches (a b : RateTotal) :
    @TaxTotalsSrc.RateTotal_Matches faithfulOps a b = sameGroup a b := by
  rw [src_Matches]; exact matches_is_same_group a b

/-- **the regenerated `(*RateTotal).clone` returns a copy of its receiver** (it calls no primitive) -/
theorem src_clone (rt : RateTotal) : TaxTotalsSrc.RateTotal_clone rt = some rt := clone_eq rt

/-- **the regenerated `matchRoundingPrecision` is the model's**, with `currency` = "the rule key is `currency`" -/
theorem src_matchRoundingPrecision (rr : String) (a b : Amount) :
    @TaxTotalsSrc.matchRoundingPrecision faithfulOps rr a b = Merge.matchRoundingPrecision (rr == "currency") a b :=
  mrp_faithful rr a b

/-! ### `Clone`, `Negate`, `Merge`: summaries of any shape -/

theorem src_Clone_nil : TaxTotalsSrc.Total_Clone none = none := Clone_none
theorem src_Negate_nil [NumOps] : TaxTotalsSrc.Total_Negate none = none := Negate_none

/-- **the regenerated `(*Total).Clone` returns a copy of its receiver**, whatever the numbers of
    categories and rate groups (it calls no primitive; "a copy that shares nothing" is not visible in
    the value reading and stays with the harness) -/
theorem src_Clone (t : Total) : TaxTotalsSrc.Total_Clone (some t) = some t.clone := Clone_eq t

/-- **the regenerated `(*Total).Negate` is `Total.negate`**, for every summary: all eight amounts
    (category amount, precise amount, surcharge; base, amount, surcharge amount of every rate group;
    sum, precise sum) in every category and every rate group -/
theorem src_Negate (t : Total) : @TaxTotalsSrc.Total_Negate faithfulOps (some t) = some t.negate := Negate_eq t

/-- **the regenerated `(*Total).Merge` is `Total.merge`**, for every pair of summaries: the search
    for the category by code, the new category with cloned rates, the `else` branch with the category
    surcharge added or copied, the search for the rate group by `Matches`, the appended clone and the
    "merge the amounts" block with the rate surcharge added or copied -/
theorem src_Merge (t t2 : Total) :
    @TaxTotalsSrc.Total_Merge faithfulOps (some t) t2 = some (t.merge t2) := Merge_eq t t2

/-- the shapes the earlier partial theorems covered, now corollaries: the empty summary and every
    summary with one category and one rate group -/
theorem src_Clone_one_row (cd : String) (ret : Bool) (r : RateTotal) (am : Amount) (su : Option Amount)
    (ap s sp : Amount) :
    TaxTotalsSrc.Total_Clone (some ⟨[], s, sp⟩) = some (Total.clone ⟨[], s, sp⟩) ∧
    TaxTotalsSrc.Total_Clone (some (oneRow cd ret r am su ap s sp)) = some (oneRow cd ret r am su ap s sp).clone :=
  ⟨src_Clone _, src_Clone _⟩

theorem src_Negate_one_row (cd : String) (ret : Bool) (r : RateTotal) (am : Amount) (su : Option Amount)
    (ap s sp : Amount) :
    @TaxTotalsSrc.Total_Negate faithfulOps (some (oneRow cd ret r am su ap s sp)) =
      some (oneRow cd ret r am su ap s sp).negate :=
  src_Negate _

/-- … and the sample summaries (one and two categories, a retained one, a category surcharge on one
    side, a rate-group surcharge, an exempt row, different spellings of 20%), both orders -/
theorem src_Clone_Negate_Merge_on_samples :
    TaxTotalsSrc.Total_Clone (some tA) = some tA.clone ∧
    @TaxTotalsSrc.Total_Negate faithfulOps (some tA) = some tA.negate ∧
    @TaxTotalsSrc.Total_Merge faithfulOps (some tA) tB = some (tA.merge tB) ∧
    @TaxTotalsSrc.Total_Merge faithfulOps (some tB) tA = some (tB.merge tA) ∧
    @TaxTotalsSrc.Total_Merge faithfulOps (some tA) tA.negate = some (tA.merge tA.negate) ∧
    @TaxTotalsSrc.Total_Merge faithfulOps (some tB) tC = some (tB.merge tC) ∧
    @TaxTotalsSrc.Total_Merge faithfulOps (some tC) tA = some (tC.merge tA) :=
  ⟨src_Clone _, src_Negate _, src_Merge _ _, src_Merge _ _, src_Merge _ _, src_Merge _ _, src_Merge _ _⟩

/-- the kernel also evaluates the regenerated definitions themselves on a sample (this does not go
    through the theorems above: a check of the reading, and of the non-triviality of the samples) -/
example : @TaxTotalsSrc.Total_Merge faithfulOps (some tC) tA = some (tC.merge tA) ∧
    (tC.merge tA).categories.map (·.rates.length) = [1, 3] := by
  refine ⟨by decide +kernel, by decide +kernel⟩

example : (oneRow "VAT" false r10s ⟨300, 2⟩ (some ⟨156, 2⟩) ⟨0, 0⟩ ⟨456, 2⟩ ⟨0, 0⟩).negate.categories.map (·.surcharge) =
    [some ⟨-156, 2⟩] := by decide +kernel

/-! ### `Total.Calculate` (as `DocumentRef.Calculate` uses it): the regenerated pieces are `Merge.calc*` -/

/-- **the regenerated `calculateBaseCategoryTotal` is `calcCategory`**, for any number of rate groups -/
theorem src_calculateBaseCategoryTotal (t : Total) (ct : CategoryTotal) (zero : Amount) (rr : String) :
    (@TaxTotalsSrc.Total_calculateBaseCategoryTotal faithfulOps t ct zero rr).2 =
      calcCategory (rr == "currency") zero ct := by
  rw [@calcBase_eq faithfulOps]; exact calcCatG_faithful zero rr ct

/-- **the regenerated `calculateFinalSum`** is the fold of `calcSumStep` from the empty list and zero -/
theorem src_calculateFinalSum (t : Total) (zero : Amount) (rr : String) :
    (@TaxTotalsSrc.Total_calculateFinalSum faithfulOps t zero rr).2 =
      ⟨(t.categories.foldl (calcSumStep (rr == "currency") zero) ([], zero)).1,
       (t.categories.foldl (calcSumStep (rr == "currency") zero) ([], zero)).2, t.sumP⟩ := by
  rw [@calcFinalSum_eq faithfulOps, sumStep_fold]; simp

/-- **the regenerated `round`** is `roundCategory` on every category, the sum kept as the precise sum -/
theorem src_round (t : Total) (zero : Amount) :
    (@TaxTotalsSrc.Total_round faithfulOps t zero).2 =
      ⟨t.categories.map (roundCategory zero.exp), t.sum.rescale zero.exp, t.sum⟩ := by
  rw [@round_eq faithfulOps]; rfl

/-- **`calculateFinalSum` then `round` is `Total.calculate`** of Model/Merge.lean (the body of the Go
    `Total.Calculate` after its nil test; `e` = the currency's subunit digits, `currency` = "the rule
    key is `currency`"), for summaries of any shape -/
theorem src_Calculate_body (t : Total) (e : ℕ) (rr : String) :
    (@TaxTotalsSrc.Total_round faithfulOps (@TaxTotalsSrc.Total_calculateFinalSum faithfulOps t ⟨0, e⟩ rr).2 ⟨0, e⟩).2 =
      t.calculate e (rr == "currency") := Calculate_body_faithful t e rr

/-! ### the headline theorems, stated over the regenerated definitions

The same statements as `merge_figures_add`, `merge_order_independent`,
`negate_flips_all`, `merge_negate_zero` above, with the translated Go functions
in the place of the model: the result of the regenerated `Merge` / `Negate` is
never nil on a non-nil receiver (`∃ r, … = some r`), and it satisfies the
specification. -/

/-- **merge is component-wise**: for every pair of summaries at one precision the result of the
    regenerated `Merge` passes the oracle of Spec/C20 — the total, every category amount and category
    surcharge, and base, tax and surcharge of every rate group are the sums of the operands' figures -/
theorem src_merge_figures_add (e : ℕ) (t1 t2 : Total) (h1 : uniform e t1 = true) (h2 : uniform e t2 = true) :
    ∃ r, @TaxTotalsSrc.Total_Merge faithfulOps (some t1) t2 = some r ∧ mergeOracle e t1 t2 r = true :=
  ⟨t1.merge t2, src_Merge t1 t2, merge_figures_add e t1 t2 h1 h2⟩

/-- **order independence** of the regenerated `Merge`: both orders present the same figures -/
theorem src_merge_order_independent (e : ℕ) (t1 t2 : Total) (h1 : uniform e t1 = true) (h2 : uniform e t2 = true) :
    ∃ r r', @TaxTotalsSrc.Total_Merge faithfulOps (some t1) t2 = some r ∧
      @TaxTotalsSrc.Total_Merge faithfulOps (some t2) t1 = some r' ∧ sameFigures r r' = true :=
  ⟨t1.merge t2, t2.merge t1, src_Merge t1 t2, src_Merge t2 t1, merge_order_independent e t1 t2 h1 h2⟩

/-- **negate flips all**: the result of the regenerated `Negate` is the negation of its receiver in
    the sense of Spec/C20 (every amount, nothing else) -/
theorem src_negate_flips_all (t : Total) :
    ∃ r, @TaxTotalsSrc.Total_Negate faithfulOps (some t) = some r ∧ isNegationOf t r = true :=
  ⟨t.negate, src_Negate t, negate_flips_all t⟩

/-- **merge-negate-zero**: the regenerated `t.Merge(t.Negate())` has every amount zero, for every
    summary without duplicate categories / rate groups (any precisions, any shape) -/
theorem src_merge_negate_zero (t : Total) (h : noDuplicates t = true) :
    ∃ n r, @TaxTotalsSrc.Total_Negate faithfulOps (some t) = some n ∧
      @TaxTotalsSrc.Total_Merge faithfulOps (some t) n = some r ∧ allZero r = true :=
  ⟨t.negate, t.merge t.negate, src_Negate t, src_Merge t t.negate, merge_negate_zero t h⟩

/-- the hypotheses are satisfiable by non-trivial summaries -/
example : uniform 2 tA = true ∧ uniform 2 tB = true ∧ noDuplicates tC = true ∧ tC.categories.length = 2 := by
  decide +kernel

end Src

/-! ## expectations over facts regenerated from /repo on every run

The records of Model/Merge.lean carry exactly these fields; `Negate` negates
eight amounts (category amount, precise amount and surcharge; base, amount and
surcharge amount of every rate; sum and precise sum), `Merge` adds seven, and
the payment code converts, adds and subtracts in this order.  A new amount field
or a dropped negation / addition breaks an obligation here. -/
namespace Expect
open GoblVerif.Generated.Merge

theorem category_total_fields : fields_CategoryTotal = ["Code", "Retained", "Rates", "Amount", "Surcharge", "amount"] := by decide
theorem rate_total_fields : fields_RateTotal = ["Key", "Country", "Ext", "Base", "Percent", "Surcharge", "Amount"] := by decide
theorem rate_surcharge_fields : fields_RateTotalSurcharge = ["Percent", "Amount"] := by decide
theorem total_fields : fields_Total = ["Categories", "Sum", "sum"] := by decide
theorem negate_negates_eight_amounts : calls_Total_Negate =
    ["Clone", "Negate", "Negate", "Negate", "Negate", "Negate", "Negate", "Negate", "Negate"] := by decide
theorem merge_adds_seven_amounts : calls_Total_Merge =
    ["Clone", "new", "append", "clone", "append", "Add", "Add", "Matches", "append", "clone",
     "Add", "Add", "Add", "Add", "Add"] := by decide
theorem matches_compares_three : calls_RateTotal_Matches = ["Equals", "Equals", "Equals"] := by decide
theorem convert_raises_then_multiplies_once : calls_ExchangeRate_Convert =
    ["Exp", "Zero", "Def", "Exp", "Exp", "MakeAmount", "Value", "Exp", "MakeAmount", "Value", "Multiply", "RescaleUp"] := by decide
theorem line_adds_debit_subtracts_credit : calls_PaymentLine_calculate =
    ["Zero", "Def", "Convert", "Errorf", "MatchPrecision", "Add", "Convert", "Errorf", "MatchPrecision", "Subtract"] := by decide
theorem payment_recalculates_clones_merges_adds : calls_Payment_calculate =
    ["RegimeDef", "Def", "Def", "Errorf", "calculate", "Itoa", "Def", "Itoa", "Errorf", "Calculate",
     "GetRoundingRule", "Clone", "Merge", "Add"] := by decide
theorem document_ref_recalculates : calls_DocumentRef_Calculate = ["Calculate"] := by decide

end Expect

end GoblVerif.Props.C20
