/-
  C09 — Signature verification accepts exactly what was signed, on every path.

  Only property theorems live here (helper lemmas: Proofs/Header.lean,
  Proofs/Envelope.lean).  They are about the model of head.Header.Contains,
  Envelope.Verify / verifySignature / Sign and internal/cli.Verify
  (Model/Header.lean, Model/Envelope.lean), with ideal signatures
  (`jwsValid k s ↔ s.signer = k`) and the digest an explicit function `H` of
  the document's canonical content, injective where stated.

  `namespace Src` (at the end) ties the containment model to the source:
  `Header.contains` is proved equal, for all headers, to the definition that the
  go2lean translator regenerates from /repo/head/header.go on every run
  (Generated/HeaderSrc.lean).
-/
import GoblVerif.Spec.C09
import GoblVerif.Proofs.Envelope
import GoblVerif.Proofs.C09
import GoblVerif.Generated.HeaderFacts
import GoblVerif.Generated.EnvelopeFacts
import GoblVerif.Generated.HeaderSrc
import GoblVerif.Proofs.GoSemList

namespace GoblVerif.Props.C09
open GoblVerif GoblVerif.Spec.C09

/-! ## the containment relation -/

/-- exact characterisation of `Header.Contains`: identifier equal; the digest
    equal (as `alg;val` text) when the signed header carried one; every signed
    stamp present with the same provider *and* value, every signed link with
    the same key *and* URL, every signed tag, every signed meta pair; the
    notes equal when the signed ones were not empty -/
theorem contains_iff (h p : Header) : h.contains p = true ↔
    h.uuid = p.uuid ∧
    (∀ d2, p.dig = some d2 → ∃ d, h.dig = some d ∧ d.str = d2.str) ∧
    (∀ s2 ∈ p.stamps, ∃ s ∈ h.stamps, s.prv = s2.prv ∧ s.val = s2.val) ∧
    (∀ l2 ∈ p.links, ∃ l ∈ h.links, l.key = l2.key ∧ l.url = l2.url) ∧
    (∀ t ∈ p.tags, t ∈ h.tags) ∧
    (∀ kv ∈ p.metas, h.metas.lookup kv.1 = some kv.2) ∧
    (p.notes = "" ∨ p.notes = h.notes) :=
  Header.contains_iff h p

/-- a header (with a Go map for meta: distinct keys) contains itself -/
theorem contains_refl (h : Header) (hwf : h.WF) : h.contains h = true :=
  Header.contains_refl h hwf

/-- containment only looks at `p` through what it *covers*, so it is monotone
    in what the envelope header presents -/
theorem contains_mono_addStamp (h p : Header) (s : Stamp) (hfresh : ∀ x ∈ h.stamps, x.prv ≠ s.prv)
    (hc : h.contains p = true) : (h.addStamp s).contains p = true := by
  rw [contains_iff] at hc ⊢
  obtain ⟨h1, h2, h3, h4, h5, h6, h7⟩ := hc
  refine ⟨h1, h2, ?_, h4, h5, h6, h7⟩
  intro s2 hs2
  obtain ⟨x, hx, hxe⟩ := h3 s2 hs2
  refine ⟨x, ?_, hxe⟩
  show x ∈ addStampL h.stamps s
  rw [addStampL_fresh _ _ hfresh]
  exact List.mem_append_left _ hx

theorem contains_mono_addLink (h p : Header) (l : Link) (hfresh : ∀ x ∈ h.links, x.key ≠ l.key)
    (hc : h.contains p = true) : (h.addLink l).contains p = true := by
  rw [contains_iff] at hc ⊢
  obtain ⟨h1, h2, h3, h4, h5, h6, h7⟩ := hc
  refine ⟨h1, h2, h3, ?_, h5, h6, h7⟩
  intro l2 hl2
  obtain ⟨x, hx, hxe⟩ := h4 l2 hl2
  refine ⟨x, ?_, hxe⟩
  show x ∈ addLinkL h.links l
  rw [addLinkL_fresh _ _ hfresh]
  exact List.mem_append_left _ hx

theorem contains_mono_addTag (h p : Header) (t : String)
    (hc : h.contains p = true) : (h.addTag t).contains p = true := by
  rw [contains_iff] at hc ⊢
  obtain ⟨h1, h2, h3, h4, h5, h6, h7⟩ := hc
  exact ⟨h1, h2, h3, h4, fun t' ht' => List.mem_append_left _ (h5 t' ht'), h6, h7⟩

theorem contains_mono_setMeta (h p : Header) (k v : String) (hfresh : h.metas.lookup k = none)
    (hc : h.contains p = true) : (h.setMeta k v).contains p = true := by
  rw [contains_iff] at hc ⊢
  obtain ⟨h1, h2, h3, h4, h5, h6, h7⟩ := hc
  refine ⟨h1, h2, h3, h4, h5, ?_, h7⟩
  intro kv hkv
  show (metaSet h.metas k v).lookup kv.1 = some kv.2
  rw [lookup_metaSet]
  have := h6 kv hkv
  by_cases hk : kv.1 = k
  · rw [hk, hfresh] at this; cases this
  · simp [hk, this]

/-- the adding operations keep the meta map a map -/
theorem wf_setMeta (h : Header) (k v : String) (hwf : h.WF) : (h.setMeta k v).WF :=
  nodup_metaSet h.metas k v hwf

/-! ### every covered component is looked at -/

theorem detects_uuid (h p : Header) (hne : h.uuid ≠ p.uuid) : h.contains p = false := by
  have : ¬ h.contains p = true := fun hc => hne ((contains_iff h p).mp hc).1
  simpa using this

theorem detects_digest (h p : Header) (d d2 : Digest) (hd : h.dig = some d) (hp : p.dig = some d2)
    (hne : d.str ≠ d2.str) : h.contains p = false := by
  have : ¬ h.contains p = true := by
    intro hc
    obtain ⟨x, hx, hxe⟩ := ((contains_iff h p).mp hc).2.1 d2 hp
    rw [hd] at hx; cases hx; exact hne hxe
  simpa using this

/-- with the same algorithm, a different digest value is a different digest text -/
theorem digest_str_ne (d d2 : Digest) (ha : d.alg = d2.alg) (hv : d.val ≠ d2.val) : d.str ≠ d2.str := by
  intro h
  simp only [Digest.str, ha] at h
  rw [String.ext_iff] at h
  simp only [String.toList_append] at h
  rw [List.append_assoc, List.append_assoc] at h
  have := List.append_cancel_left (List.append_cancel_left h)
  exact hv (String.ext_iff.mpr this)

theorem detects_stamp (h p : Header) (s2 : Stamp) (hs : s2 ∈ p.stamps)
    (hne : ∀ s ∈ h.stamps, s.prv = s2.prv → s.val ≠ s2.val) : h.contains p = false := by
  have : ¬ h.contains p = true := by
    intro hc
    obtain ⟨x, hx, hp, hv⟩ := ((contains_iff h p).mp hc).2.2.1 s2 hs
    exact hne x hx hp hv
  simpa using this

theorem detects_link (h p : Header) (l2 : Link) (hl : l2 ∈ p.links)
    (hne : ∀ l ∈ h.links, l.key = l2.key → l.url ≠ l2.url) : h.contains p = false := by
  have : ¬ h.contains p = true := by
    intro hc
    obtain ⟨x, hx, hk, hu⟩ := ((contains_iff h p).mp hc).2.2.2.1 l2 hl
    exact hne x hx hk hu
  simpa using this

theorem detects_tag (h p : Header) (t : String) (ht : t ∈ p.tags) (hne : t ∉ h.tags) :
    h.contains p = false := by
  have : ¬ h.contains p = true := fun hc => hne (((contains_iff h p).mp hc).2.2.2.2.1 t ht)
  simpa using this

theorem detects_meta (h p : Header) (k v : String) (hm : (k, v) ∈ p.metas)
    (hne : h.metas.lookup k ≠ some v) : h.contains p = false := by
  have : ¬ h.contains p = true := fun hc => hne (((contains_iff h p).mp hc).2.2.2.2.2.1 (k, v) hm)
  simpa using this

theorem detects_notes (h p : Header) (hn : p.notes ≠ "") (hne : p.notes ≠ h.notes) :
    h.contains p = false := by
  have : ¬ h.contains p = true := by
    intro hc
    rcases ((contains_iff h p).mp hc).2.2.2.2.2.2 with e | e
    · exact hn e
    · exact hne e
  simpa using this

/-! ## `Envelope.Verify` and `cli.Verify` -/

section
variable (H : Nat → String)

/-- `Envelope.Verify(keys…)` succeeds exactly when there is at least one
    signature and each entry is a real signature, made by one of the keys
    (if any are given) and still contained in the header -/
theorem verify_ok_iff (e : Env) (ks : List Key) :
    e.verify ks = .ok ↔ e.sigs ≠ [] ∧
      ∀ s ∈ e.sigs, ∃ sg, s = some sg ∧ (ks = [] ∨ sg.signer ∈ ks) ∧ e.head.contains sg.payload = true := by
  rw [Env.verify_ok_iff]
  constructor
  · rintro ⟨h0, h⟩; exact ⟨h0, fun s hs => (verifySignature_ok_iff _ _ _).mp (h s hs)⟩
  · rintro ⟨h0, h⟩; exact ⟨h0, fun s hs => (verifySignature_ok_iff _ _ _).mpr (h s hs)⟩

/-- **the paths agree**: the verdict function behind `gobl verify`, the bulk
    `verify` action and `POST /verify` accepts exactly when the library accepts
    (`Validate` then `Verify` with that single key), for every envelope state -/
theorem paths_agree (e : Env) (k : Key) :
    Env.cliVerify H e (some k) = .ok ↔ (Env.validate H e = .ok ∧ e.verify [k] = .ok) := by
  unfold Env.cliVerify
  cases hv : Env.validate H e <;> simp only [reduceCtorEq, false_and, true_and]
  rw [verify_ok_iff]
  by_cases h0 : e.sigs = []
  · simp [h0]
  · have : e.sigs.isEmpty = false := by cases hs : e.sigs <;> simp_all
    simp only [this, Bool.false_eq_true, if_false, cliSigs_ok_iff, ne_eq, h0, not_false_eq_true, true_and]
    constructor
    · intro h s hs
      obtain ⟨sg, h1, h2, h3⟩ := h s hs
      exact ⟨sg, h1, Or.inr (by simp [h2]), h3⟩
    · intro h s hs
      obtain ⟨sg, h1, h2, h3⟩ := h s hs
      refine ⟨sg, h1, ?_, h3⟩
      rcases h2 with h2 | h2
      · cases h2
      · simpa using h2

/-- without a key no CLI / bulk / HTTP verification succeeds -/
theorem cli_needs_key (e : Env) : Env.cliVerify H e none ≠ .ok := by
  unfold Env.cliVerify
  cases Env.validate H e <;> simp

/-- signing an unsigned envelope, when it succeeds, yields an envelope that
    verifies with the signer's key on the library and on the CLI path, and with
    no keys (content only) -/
theorem sign_then_verify (e e' : Env) (k : Key) (hwf : e.head.WF) (h0 : e.sigs = [])
    (hs : Env.sign H e k = (e', .ok)) :
    e'.verify [k] = .ok ∧ e'.verify [] = .ok ∧ Env.cliVerify H e' (some k) = .ok := by
  unfold Env.sign at hs
  simp only [h0, List.nil_append] at hs
  split at hs
  · rename_i hval
    simp only [Prod.mk.injEq, and_true] at hs
    subst hs
    have hv : ∀ ks : List Key, (ks = [] ∨ k ∈ ks) →
        ({ e with sigs := [some ⟨k, e.head⟩] } : Env).verify ks = .ok := by
      intro ks hks
      rw [verify_ok_iff]
      refine ⟨by simp, ?_⟩
      intro s hs
      simp only [List.mem_singleton] at hs
      exact ⟨⟨k, e.head⟩, hs, hks, contains_refl e.head hwf⟩
    refine ⟨hv [k] (Or.inr (by simp)), hv [] (Or.inl rfl), ?_⟩
    rw [paths_agree]
    exact ⟨hval, hv [k] (Or.inr (by simp))⟩
  · rename_i hno
    simp only [Prod.mk.injEq] at hs
    exact absurd hs.2 hno

/-- verification keeps succeeding under any change of the header that keeps
    every signed header contained (in particular the four `contains_mono_*`) -/
theorem verify_mono (e : Env) (h' : Header) (ks : List Key)
    (hm : ∀ p, e.head.contains p = true → h'.contains p = true)
    (hv : e.verify ks = .ok) : (e.setHead h').verify ks = .ok := by
  rw [verify_ok_iff] at hv ⊢
  refine ⟨hv.1, fun s hs => ?_⟩
  obtain ⟨sg, h1, h2, h3⟩ := hv.2 s hs
  exact ⟨sg, h1, h2, hm _ h3⟩

/-- a signature made by a key that is not among the (non-empty) trusted keys
    makes verification fail -/
theorem verify_wrong_key_fails (e : Env) (sg : Sig) (ks : List Key) (hs : some sg ∈ e.sigs)
    (hne : ks ≠ []) (hk : sg.signer ∉ ks) : e.verify ks ≠ .ok := by
  intro hv
  rw [verify_ok_iff] at hv
  obtain ⟨sg', h1, h2, _⟩ := hv.2 _ hs
  cases h1
  rcases h2 with h2 | h2
  · exact hne h2
  · exact hk h2

theorem cli_wrong_key_fails (e : Env) (sg : Sig) (k : Key) (hs : some sg ∈ e.sigs)
    (hk : sg.signer ≠ k) : Env.cliVerify H e (some k) ≠ .ok := by
  intro hc
  rw [paths_agree] at hc
  exact verify_wrong_key_fails e sg [k] hs (by simp) (by simpa using hk) hc.2

/-- **detection**: if any signature on the envelope is over a header that the
    current header no longer contains — by `detects_*`: another identifier,
    another digest, a signed stamp value, link URL, tag, meta value or
    (non-empty) notes changed or removed — verification fails with every key
    set, on the library path and on the CLI path -/
theorem verify_detects (e : Env) (sg : Sig) (hs : some sg ∈ e.sigs)
    (hc : e.head.contains sg.payload = false) :
    (∀ ks, e.verify ks ≠ .ok) ∧ (∀ k, Env.cliVerify H e k ≠ .ok) := by
  have h1 : ∀ ks, e.verify ks ≠ .ok := by
    intro ks hv
    rw [verify_ok_iff] at hv
    obtain ⟨sg', h1, _, h3⟩ := hv.2 _ hs
    cases h1
    rw [hc] at h3; cases h3
  refine ⟨h1, fun k => ?_⟩
  cases k with
  | none => exact cli_needs_key H e
  | some k => intro hcl; rw [paths_agree] at hcl; exact h1 [k] hcl.2

/-- the seven ways a signed header can stop being contained, in one statement:
    another identifier; another digest; a signed stamp whose value is no longer
    there under its provider; a signed link whose URL is no longer there under
    its key; a signed tag, or a signed meta value, missing or changed; the
    signed (non-empty) notes changed — each makes every verification fail, on
    the library path and on the CLI path -/
theorem verify_detects_components (e : Env) (sg : Sig) (hs : some sg ∈ e.sigs)
    (h : e.head.uuid ≠ sg.payload.uuid ∨
      (∃ d d2, e.head.dig = some d ∧ sg.payload.dig = some d2 ∧ d.str ≠ d2.str) ∨
      (∃ s2 ∈ sg.payload.stamps, ∀ s ∈ e.head.stamps, s.prv = s2.prv → s.val ≠ s2.val) ∨
      (∃ l2 ∈ sg.payload.links, ∀ l ∈ e.head.links, l.key = l2.key → l.url ≠ l2.url) ∨
      (∃ t ∈ sg.payload.tags, t ∉ e.head.tags) ∨
      (∃ kv ∈ sg.payload.metas, e.head.metas.lookup kv.1 ≠ some kv.2) ∨
      (sg.payload.notes ≠ "" ∧ sg.payload.notes ≠ e.head.notes)) :
    (∀ ks, e.verify ks ≠ .ok) ∧ (∀ k, Env.cliVerify H e k ≠ .ok) := by
  apply verify_detects H e sg hs
  rcases h with h | ⟨d, d2, h1, h2, h3⟩ | ⟨s2, h1, h2⟩ | ⟨l2, h1, h2⟩ | ⟨t, h1, h2⟩ | ⟨kv, h1, h2⟩ | ⟨h1, h2⟩
  · exact detects_uuid _ _ h
  · exact detects_digest _ _ d d2 h1 h2 h3
  · exact detects_stamp _ _ s2 h1 h2
  · exact detects_link _ _ l2 h1 h2
  · exact detects_tag _ _ t h1 h2
  · exact detects_meta _ _ kv.1 kv.2 h1 h2
  · exact detects_notes _ _ h1 h2

/-- **modify + recalculate**: a signature over the digest of document `d`
    does not survive a recalculation of the envelope around a document with a
    different canonical content (digest-injectivity is the hypothesis `hH`) -/
theorem tamper_recalc_fails_verify (hH : Function.Injective H) (e : Env) (sg : Sig) (d d' : Doc)
    (hs : some sg ∈ e.sigs) (hp : sg.payload.dig = some (digestOf H d))
    (hd : e.doc = some d') (hcalc : d'.calcOk = true) (hne : d'.content ≠ d.content) :
    (Env.calculate H e).2 = .ok ∧
    (∀ ks, (Env.calculate H e).1.verify ks ≠ .ok) ∧
    (∀ k, Env.cliVerify H (Env.calculate H e).1 k ≠ .ok) := by
  have hcalcE : Env.calculate H e =
      ({ e with head := { e.head with dig := some (digestOf H d') } }, .ok) := by
    simp [Env.calculate, hd, hcalc]
  rw [hcalcE]
  refine ⟨rfl, ?_⟩
  apply verify_detects H { e with head := { e.head with dig := some (digestOf H d') } } sg hs
  apply detects_digest _ _ (digestOf H d') (digestOf H d) rfl hp
  intro he
  exact hne (hH (digest_str_inj H d' d he))

end

/-! ## model = specification -/

/-- the model of `Header.Contains` accepts exactly when every item the
    signature covers is still presented unchanged (Spec/C09.lean), for headers
    whose meta is a map and whose digest algorithm names contain no `;` -/
theorem contains_eq_spec (h p : Header) (hwf : h.WF) (hd : digNice h.dig) (hp : digNice p.dig) :
    h.contains p = accepts h p := by
  rw [Bool.eq_iff_iff, contains_iff]
  simp only [accepts, List.all_eq_true, List.contains_iff_mem]
  constructor
  · rintro ⟨h1, h2, h3, h4, h5, h6, h7⟩ i hi
    simp only [covered, List.mem_append, List.mem_singleton, List.mem_map, mem_digItems] at hi
    simp only [present, List.mem_append, List.mem_singleton, List.mem_map, mem_digItems]
    rcases hi with ((((((hi | ⟨x, hx, rfl⟩) | ⟨s, hs, rfl⟩) | ⟨l, hl, rfl⟩) | ⟨t, ht, rfl⟩) | ⟨kv, hkv, rfl⟩) | hi)
    · subst hi; simp [h1]
    · obtain ⟨y, hy, hye⟩ := h2 x hx
      have hy' : ';' ∉ y.alg.toList := by simpa [digNice, hy] using hd
      have hx' : ';' ∉ x.alg.toList := by simpa [digNice, hx] using hp
      have := (digest_str_eq_iff y x hy' hx').mp hye
      exact Or.inl (Or.inl (Or.inl (Or.inl (Or.inl (Or.inr ⟨y, hy, by rw [this.1, this.2]⟩)))))
    · obtain ⟨y, hy, e1, e2⟩ := h3 s hs
      exact Or.inl (Or.inl (Or.inl (Or.inl (Or.inr ⟨y, hy, by rw [e1, e2]⟩))))
    · obtain ⟨y, hy, e1, e2⟩ := h4 l hl
      exact Or.inl (Or.inl (Or.inl (Or.inr ⟨y, hy, by rw [e1, e2]⟩)))
    · exact Or.inl (Or.inl (Or.inr ⟨t, h5 t ht, rfl⟩))
    · exact Or.inl (Or.inr ⟨kv, mem_of_lookup _ _ _ (h6 kv hkv), rfl⟩)
    · split at hi
      · cases hi
      · rename_i hn
        simp only [List.mem_singleton] at hi
        subst hi
        rcases h7 with e | e
        · exact absurd e hn
        · exact Or.inr (by rw [e])
  · intro hall
    have cov : ∀ i, i ∈ covered p → i ∈ present h := hall
    simp only [covered, present, List.mem_append, List.mem_singleton, List.mem_map, mem_digItems] at cov
    refine ⟨?_, ?_, ?_, ?_, ?_, ?_, ?_⟩
    · have := cov (.uuid p.uuid) (by simp)
      simp only [reduceCtorEq, Item.uuid.injEq, false_or, or_false, and_false, exists_false] at this
      exact this.symm
    · intro d2 hd2
      have := cov (.dig d2.alg d2.val) (by simp [hd2])
      simp only [reduceCtorEq, Item.dig.injEq, false_or, or_false, and_false, exists_false] at this
      obtain ⟨y, hy, e1, e2⟩ := this
      exact ⟨y, hy, by simp [Digest.str, e1, e2]⟩
    · intro s hs
      have := cov (.stamp s.prv s.val) (Or.inl (Or.inl (Or.inl (Or.inl (Or.inr ⟨s, hs, rfl⟩)))))
      simp only [reduceCtorEq, Item.stamp.injEq, false_or, or_false, and_false, exists_false] at this
      obtain ⟨y, hy, e1, e2⟩ := this
      exact ⟨y, hy, e1, e2⟩
    · intro l hl
      have := cov (.link l.key l.url) (Or.inl (Or.inl (Or.inl (Or.inr ⟨l, hl, rfl⟩))))
      simp only [reduceCtorEq, Item.link.injEq, false_or, or_false, and_false, exists_false] at this
      obtain ⟨y, hy, e1, e2⟩ := this
      exact ⟨y, hy, e1, e2⟩
    · intro t ht
      have := cov (.tag t) (Or.inl (Or.inl (Or.inr ⟨t, ht, rfl⟩)))
      simp only [reduceCtorEq, Item.tag.injEq, false_or, or_false, and_false, exists_false, exists_eq_right] at this
      exact this
    · intro kv hkv
      have := cov (.metaKV kv.1 kv.2) (Or.inl (Or.inr ⟨kv, hkv, rfl⟩))
      simp only [reduceCtorEq, Item.metaKV.injEq, false_or, or_false, and_false, exists_false] at this
      obtain ⟨y, hy, e1, e2⟩ := this
      have := lookup_of_mem_nodup h.metas hwf y hy
      rw [e1, e2] at this
      exact this
    · by_cases hn : p.notes = ""
      · exact Or.inl hn
      · have := cov (.notes p.notes) (Or.inr (by simp [hn]))
        simp only [reduceCtorEq, Item.notes.injEq, false_or, and_false, exists_false] at this
        exact Or.inr this

/-- for envelopes whose entries are all real signatures the model of
    `Envelope.Verify` gives exactly the verdict the property asks for -/
theorem verify_eq_expected (e : Env) (sigs : List Sig) (ks : List Key) (hs : e.sigs = sigs.map some)
    (hwf : e.head.WF) (hd : digNice e.head.dig) (hp : ∀ s ∈ sigs, digNice s.payload.dig) :
    e.verify ks = .ok ↔ expected e.head sigs ks = true := by
  rw [verify_ok_iff, hs]
  simp only [expected, Bool.and_eq_true, Bool.not_eq_true', List.all_eq_true, Bool.or_eq_true,
    List.isEmpty_iff, List.contains_iff_mem, ne_eq, List.map_eq_nil_iff, List.mem_map]
  constructor
  · rintro ⟨h0, h⟩
    refine ⟨by cases sigs <;> simp_all, fun s hsin => ?_⟩
    obtain ⟨sg, h1, h2, h3⟩ := h (some s) ⟨s, hsin, rfl⟩
    cases h1
    exact ⟨h2, by rw [← contains_eq_spec _ _ hwf hd (hp s hsin)]; exact h3⟩
  · rintro ⟨h0, h⟩
    refine ⟨by cases sigs <;> simp_all, ?_⟩
    rintro _ ⟨s, hsin, rfl⟩
    obtain ⟨h2, h3⟩ := h s hsin
    exact ⟨s, rfl, h2, by rw [contains_eq_spec _ _ hwf hd (hp s hsin)]; exact h3⟩

/-! ## non-vacuity: the hypotheses above are satisfiable by non-trivial values -/

section Examples

-- signing succeeds, and the result verifies with the signer's key only
example : (Env.sign exH exEnv 1).2 = .ok := by decide
example : (Env.sign exH exEnv 1).1.verify [1] = .ok ∧ (Env.sign exH exEnv 1).1.verify [2] ≠ .ok ∧
    Env.cliVerify exH (Env.sign exH exEnv 1).1 (some 1) = .ok ∧
    Env.cliVerify exH (Env.sign exH exEnv 1).1 (some 2) = .keyMismatch := by decide
-- adding a fresh stamp keeps it verifying; altering the signed stamp does not
example : ((Env.sign exH exEnv 1).1.setHead (exHead.addStamp ⟨"prv-b", "v2"⟩)).verify [1] = .ok := by decide
example : ((Env.sign exH exEnv 1).1.setHead (exHead.addStamp ⟨"prv-a", "v2"⟩)).verify [1] ≠ .ok := by decide
-- modify + recalculate with the old signature: rejected on both paths
example : (Env.calculate exH { (Env.sign exH exEnv 1).1 with doc := some ⟨4, true, true, true, true⟩ }).1.verify [1]
    = .failed [.mismatch] := by decide
example : Env.cliVerify exH (Env.calculate exH { (Env.sign exH exEnv 1).1 with doc := some ⟨4, true, true, true, true⟩ }).1 (some 1)
    = .headerMismatch := by decide
-- the header of the example is a map and has a nice digest
example : exHead.WF ∧ digNice exHead.dig := by decide

end Examples

/-! ## expectations over facts regenerated from /repo on every run

The model of `Header.Contains`, `Envelope.Verify`, `verifySignature` and
`cli.Verify` was written against these fields, conditions and loops.  If a
field is no longer compared (or a new header field is not), a loop no longer
ranges over every signature, or `cli.Verify` stops calling `Contains` /
`Validate`, one of these obligations breaks. -/
namespace Expect
open GoblVerif.Generated

theorem contains_compares_these_fields : Head.containsFields = GoblVerif.containsFields := by decide
theorem contains_reads_them_from_the_signed_header : Head.containsParamFields = GoblVerif.containsFields := by decide
theorem every_header_field_is_compared : Head.headerFields = GoblVerif.containsFields := by decide
theorem stamp_components : Head.stampCompared = GoblVerif.stampCompared ∧ Head.stampFields = GoblVerif.stampCompared := by decide
theorem link_components : Head.linkCompared = GoblVerif.linkCompared := by decide
theorem contains_conditions : Head.containsConds = WrittenAgainst.containsConds := by decide
theorem contains_loops : Head.containsRanges = WrittenAgainst.containsRanges := by decide
theorem contains_returns : Head.containsReturns = WrittenAgainst.containsReturns := by decide
theorem digest_string : Envelope.returns_dig_Digest_String = WrittenAgainst.digestStringReturns := by decide

theorem verify_loops_over_all_signatures : Envelope.ranges_Envelope_Verify = WrittenAgainst.verifyRanges := by decide
theorem verify_conditions : Envelope.conds_Envelope_Verify = WrittenAgainst.verifyConds := by decide
theorem verifySignature_conditions : Envelope.conds_Envelope_verifySignature = WrittenAgainst.verifySignatureConds := by decide
theorem verifySignature_returns : Envelope.returns_Envelope_verifySignature = WrittenAgainst.verifySignatureReturns := by decide
theorem verifySignature_loops_over_keys : Envelope.ranges_Envelope_verifySignature = WrittenAgainst.verifySignatureRanges := by decide
theorem signature_verify_conditions : Envelope.conds_sig_Signature_Verify = WrittenAgainst.sigVerifyConds := by decide

theorem cli_verify_loops_over_all_signatures : Envelope.ranges_cli_Verify = WrittenAgainst.cliVerifyRanges := by decide
theorem cli_verify_conditions : Envelope.conds_cli_Verify = WrittenAgainst.cliVerifyConds := by decide
theorem cli_verify_returns : Envelope.returns_cli_Verify = WrittenAgainst.cliVerifyReturns := by decide
theorem cli_verify_validates_and_compares :
    "Validate" ∈ Envelope.calls_cli_Verify ∧ "VerifyPayload" ∈ Envelope.calls_cli_Verify ∧
    "Contains" ∈ Envelope.calls_cli_Verify := by decide
theorem bulk_and_http_and_command_use_cli_verify :
    "Verify" ∈ Envelope.bulk_verify_calls ∧ "cli.Verify" ∈ Envelope.serve_verify_calls ∧
    "cli.Verify(ctx, input, key)" ∈ Envelope.cmd_verify_returns := by decide

end Expect

/-! ## the model is the source

`Generated/HeaderSrc.lean` is regenerated on every run from
/repo/head/header.go by the go2lean translator (harness/cmd/extract/go2lean*.go,
configuration headersrc.go): `(*Header).Contains` as one Lean definition, its
seven loops, the flag-and-break searches and the comma-ok map lookup included.
`Header`, `Stamp`, `Link` and `dsig.Digest` are mapped onto the records of
Model/Header.lean (`struct_*_as_mapped` pins the Go declarations, the generated
`example`s check the field types).  `src_Contains` proves, for ALL pairs of
headers, that the regenerated definition equals `Header.contains`; the
containment theorems of this file (characterisation, monotonicity, detection)
and, through `Env.verify`, the verification theorems are therefore statements
about the code as it stands on this run.  An edit of `Contains` changes the
regenerated definition and `src_Contains` no longer closes; a helper it might
call that is outside the translated subset makes `all_translated` fail.

Trusted: the translator's reading of Go (header of Generated/HeaderSrc.lean);
the assumptions `assumptions_as_reviewed` pins — `[]*Stamp` / `[]*Link` hold no
nil (a nil entry makes the Go code panic: C14), `cbc.Meta` is an association
list with distinct keys (the `range` over `h2.Meta` is shown order-independent
in `src_Contains_map_order`, the lookups in `h.Meta` in `map_lookup_order`),
`uuid.UUID.String` is the identity and `(*dsig.Digest).String` is `Digest.str`
(its source text is pinned by `Expect.digest_string`). -/
namespace Src
open GoblVerif.Generated GoblVerif.GoSem

theorem all_translated : HeaderSrc.untranslated = [] := by decide

theorem translated_as_listed : HeaderSrc.translated = ["Header.Contains"] := by decide

theorem struct_Header_as_mapped :
    HeaderSrc.struct_Header = [("UUID", "uuid.UUID"), ("Digest", "*dsig.Digest"), ("Stamps", "[]*Stamp"),
      ("Links", "[]*Link"), ("Tags", "[]string"), ("Meta", "cbc.Meta"), ("Notes", "string")] ∧
    HeaderSrc.structLean_Header = ("GoblVerif.Header", ["uuid", "dig", "stamps", "links", "tags", "metas", "notes"]) ∧
    HeaderSrc.structOmitted_Header = [] := by decide

theorem struct_Stamp_as_mapped :
    HeaderSrc.struct_Stamp = [("Provider", "cbc.Key"), ("Value", "string")] ∧
    HeaderSrc.structLean_Stamp = ("GoblVerif.Stamp", ["prv", "val"]) ∧
    HeaderSrc.structOmitted_Stamp = [] := by decide

theorem struct_Link_as_mapped :
    HeaderSrc.struct_Link = [("Key", "cbc.Key"), ("Title", "string"), ("Description", "string"),
      ("MIME", "string"), ("URL", "string")] ∧
    HeaderSrc.structLean_Link = ("GoblVerif.Link", ["key", "title", "description", "mime", "url"]) ∧
    HeaderSrc.structOmitted_Link = [] := by decide

theorem struct_Digest_as_mapped :
    HeaderSrc.struct_dsig_Digest = [("Algorithm", "dsig.DigestAlgorithm"), ("Value", "string")] ∧
    HeaderSrc.structLean_dsig_Digest = ("GoblVerif.Digest", ["alg", "val"]) ∧
    HeaderSrc.structOmitted_dsig_Digest = [] := by decide

/-- what the translation assumes beyond its general reading of Go -/
theorem assumptions_as_reviewed :
    HeaderSrc.nonNilElems = ["[]*Link", "[]*Stamp"] ∧
    HeaderSrc.mapRanges = [("Header.Contains", "h2.Meta")] ∧
    HeaderSrc.namedTypes = [] ∧
    HeaderSrc.primitives = [("dsig.Digest.String", "GoblVerif.Digest.str ({0}.get!)"), ("uuid.UUID.String", "{0}")] ∧
    HeaderSrc.natSubs = [] ∧ HeaderSrc.fuelChecks = [] := by decide

/-- **`(*Header).Contains`, regenerated from the source, is the model's
    `Header.contains`** — for every pair of headers -/
theorem src_Contains (h h2 : Header) : HeaderSrc.Header_Contains h h2 = h.contains h2 := by
  unfold HeaderSrc.Header_Contains
  simp only [forIn_list_id, pure_bind]
  simp only [Id.run, id_pure, forList_flag, forList_any, Bool.false_or]
  rw [any_not_eq_not_all h2.stamps _ (fun s2 => h.stamps.any fun s => stampMatch s s2)
        (by
          intro x; unfold stampMatch; congr 1; funext s
          by_cases h1 : s.prv = x.prv <;> by_cases h2 : s.val = x.val <;> simp [h1, h2]),
      any_not_eq_not_all h2.links _ (fun l2 => h.links.any fun l => linkMatch l l2)
        (by
          intro x; unfold linkMatch; congr 1; funext s
          by_cases h1 : s.key = x.key <;> by_cases h2 : s.url = x.url <;> simp [h1, h2]),
      any_not_eq_not_all h2.tags _ (fun t2 => h.tags.any fun t => t == t2)
        (by intro x; congr 1)]
  have hm : (List.any h2.metas fun x => decide
      (¬(List.lookup x.fst h.metas).isSome = true ∨ (List.lookup x.fst h.metas).getD "" ≠ x.snd))
      = !(h2.metas.all fun kv => metaMatch h.metas kv) := by
    generalize h2.metas = m
    induction m with
    | nil => rfl
    | cons a l ih =>
      simp only [List.any_cons, List.all_cons, ih, metaMatch]
      cases hl : List.lookup a.1 h.metas with
      | none => simp
      | some v => by_cases hv : v = a.2 <;> simp [hv]
  rw [hm]
  unfold Header.contains digContains
  generalize (h2.stamps.all fun s2 => h.stamps.any fun s => stampMatch s s2) = b1
  generalize (h2.links.all fun l2 => h.links.any fun l => linkMatch l l2) = b2
  generalize (h2.tags.all fun t2 => h.tags.any fun t => t == t2) = b3
  generalize (List.all h2.metas fun kv => metaMatch h.metas kv) = b4
  by_cases hu : h.uuid = h2.uuid
  · simp only [hu, ne_eq, not_true_eq_false, if_false, beq_self_eq_true, Bool.true_and]
    cases hd2 : h2.dig with
    | none =>
      simp only [Option.isSome_none, Bool.false_eq_true, false_and, if_false, Bool.true_and]
      cases b1 <;> cases b2 <;> cases b3 <;> cases b4 <;> by_cases hn : h2.notes = "" <;>
        by_cases hn2 : h2.notes = h.notes <;> simp [hn, hn2]
    | some x2 =>
      cases hd : h.dig with
      | none => simp
      | some x =>
        by_cases hs : x.str = x2.str
        · simp only [Option.isSome_some, Option.isNone_some, Bool.false_eq_true, Option.get!_some, hs,
            not_true_eq_false, or_self, and_false, if_false, beq_self_eq_true, Bool.true_and]
          cases b1 <;> cases b2 <;> cases b3 <;> cases b4 <;> by_cases hn : h2.notes = "" <;>
            by_cases hn2 : h2.notes = h.notes <;> simp [hn, hn2]
        · simp [hs]
  · simp [hu]

/-- the obligation of `mapRanges`: Go ranges over `h2.Meta` in an unspecified
    order, the translation in list order — the answer is the same for every order -/
theorem src_Contains_map_order (h h2 : Header) (m' : Meta) (hp : h2.metas.Perm m') :
    HeaderSrc.Header_Contains h { h2 with metas := m' } = HeaderSrc.Header_Contains h h2 := by
  rw [src_Contains, src_Contains]
  unfold Header.contains
  simp only
  rw [hp.all_eq]

/-- … and the lookups in `h.Meta` do not depend on how its association list is
    ordered (distinct keys: `Header.WF`, the invariant of a Go map) -/
theorem map_lookup_order (h h2 : Header) (m' : Meta) (hp : h.metas.Perm m') (hwf : h.WF) :
    HeaderSrc.Header_Contains { h with metas := m' } h2 = HeaderSrc.Header_Contains h h2 := by
  rw [src_Contains, src_Contains]
  unfold Header.contains metaMatch
  simp only
  congr 3
  funext kv
  rw [lookup_perm hp hwf]

/-! ### the theorems of this file, read off the regenerated code -/

/-- the exact characterisation of containment, for the regenerated `Contains` -/
theorem spec_of_the_source_Contains (h p : Header) : HeaderSrc.Header_Contains h p = true ↔
    h.uuid = p.uuid ∧
    (∀ d2, p.dig = some d2 → ∃ d, h.dig = some d ∧ d.str = d2.str) ∧
    (∀ s2 ∈ p.stamps, ∃ s ∈ h.stamps, s.prv = s2.prv ∧ s.val = s2.val) ∧
    (∀ l2 ∈ p.links, ∃ l ∈ h.links, l.key = l2.key ∧ l.url = l2.url) ∧
    (∀ t ∈ p.tags, t ∈ h.tags) ∧
    (∀ kv ∈ p.metas, h.metas.lookup kv.1 = some kv.2) ∧
    (p.notes = "" ∨ p.notes = h.notes) := by
  rw [src_Contains]; exact contains_iff h p

/-- a header with a Go map for meta contains itself, in the regenerated code -/
theorem spec_of_the_source_refl (h : Header) (hwf : h.WF) : HeaderSrc.Header_Contains h h = true := by
  rw [src_Contains]; exact contains_refl h hwf

/-- a stamp of the signed header that is missing or altered is detected by the regenerated code -/
theorem spec_of_the_source_detects_stamp (h p : Header) (s2 : Stamp) (hs : s2 ∈ p.stamps)
    (hne : ∀ s ∈ h.stamps, s.prv = s2.prv → s.val ≠ s2.val) : HeaderSrc.Header_Contains h p = false := by
  rw [src_Contains]; exact detects_stamp h p s2 hs hne

/-- … and so is a link -/
theorem spec_of_the_source_detects_link (h p : Header) (l2 : Link) (hl : l2 ∈ p.links)
    (hne : ∀ l ∈ h.links, l.key = l2.key → l.url ≠ l2.url) : HeaderSrc.Header_Contains h p = false := by
  rw [src_Contains]; exact detects_link h p l2 hl hne

/-- … and changed notes -/
theorem spec_of_the_source_detects_notes (h p : Header) (hn : p.notes ≠ "") (hne : p.notes ≠ h.notes) :
    HeaderSrc.Header_Contains h p = false := by
  rw [src_Contains]; exact detects_notes h p hn hne

example : HeaderSrc.Header_Contains (exHead.addStamp ⟨"prv-b", "v2"⟩) exHead = true ∧
    HeaderSrc.Header_Contains exHead (exHead.addStamp ⟨"prv-b", "v2"⟩) = false ∧
    HeaderSrc.Header_Contains (exHead.setNotes "other") (exHead.setNotes "signed") = false := by decide

end Src

end GoblVerif.Props.C09
