/-
  C01 — Document totals equal exact decimal arithmetic over the inputs,
  rounded half away from zero only at the documented points.

  The statements are about `Calc.calculate exactOps` (Model/Calc.lean), which
  the correspondence run compares with the real `Invoice.Calculate` on every
  generated document.  Helper lemmas: Proofs/NumX.lean, Proofs/CalcBasics.lean.

  Proved here:
    * every rounding primitive the pipeline uses is the exact rational result
      rounded half away from zero at the stated precision (the three `*_point`
      theorems; `convert_point` for a foreign item price: one rounding of
      price × rate at the document currency's precision), and the non-rounding
      primitives are lossless;
    * accumulations (line sum, discount sum, charge sum, advances) never round;
    * under `precise` a line sum is computed with at least currency + 2
      decimals and is the exact product price × quantity rounded once;
    * every presented total has exactly the currency's decimals and is the
      half-away rounding of the working-precision value.
    * against the rational no-rounding pipeline `Spec.C01.exactQ` (helper lemmas
      in Proofs/CalcErrorMore.lean), for the document class `DocC` (precise rule,
      prices not including tax, lines in the document currency without breakdown,
      line and document discounts and charges that are percentages (≤ 100 %) of the
      sum or of an explicit base or fixed amounts (≤ currency + 2 decimals), tax
      combos with or without surcharge, retained categories,
      percentage or fixed advances): `calc_eq_spec` — every presented total is the
      half-away rounding at currency precision of a working value whose distance
      from `exactQ d` is at most (number of contributing rounding points) × half a
      unit of the working precision — and `precise_error_lt_unit` (weight < 100 ⇒
      every presented total less than one minor unit from the exact value); the
      intermediate statements `adj_line_error`, `presented_sum_adj_within_one_unit`,
      `presented_total_adj_within_one_unit`, `presented_tax_within_one_unit`,
      `presented_payment_within_one_unit` need only the part of the class they use.
    * prices including one tax category (`prices_include`; Proofs/CalcErrorInc.lean):
      class `DocCI` ⊇ `DocC` (the included category not retained, its percentages ≥ 0):
      `calc_eq_spec_included` — all ten totals, `tax_included` among them, with one
      more rounding point per row that carries the included category (the division
      of `removeIncludedTaxes`) and the rate groups of the included category;
      `included_explicit_bound`, `precise_error_lt_unit_included`;
    * the rows of the tax summary as presented figures (`calc_tax_category_rows_spec`:
      category amount and surcharge; `calc_tax_group_rows_spec`: group base, amount,
      surcharge — Proofs/CalcErrorInc.lean, Proofs/CalcErrorGroups.lean);
    * tighter, rational weights with the actual percentages instead of their bound
      100 % (Proofs/CalcErrorTight.lean): `calc_eq_spec_tight`, `tight_explicit_bound`,
      `precise_error_lt_unit_tight`.
  Not proved (exercised by the correspondence and the error-bound oracle only):
    the same bound outside `DocCI`: lines with a breakdown, foreign-currency items and
    rate × quantity charges (for these it is false: the three known findings), bases,
    fixed amounts and roundings finer than currency + 2 decimals, an included category
    with a negative percentage, the `currency` rule.  Of the presented rows the line
    sums and the line discount / charge rows are not stated.
  The classes are decidable: `Spec.C01.inDocC` (sound by `inDocC_sound`) and
  `Spec.C01.inDocI` (`inDocI_sound`), evaluated by the driver; the harness holds the
  real output of every in-class document to `decided_class_bound`,
  `decided_class_bound_included` and the tighter `decided_class_bound_tight`.
-/
import GoblVerif.Proofs.CalcErrorMore
import GoblVerif.Proofs.CalcErrorInc
import GoblVerif.Proofs.CalcErrorGroups
import GoblVerif.Proofs.CalcErrorTight
import GoblVerif.Spec.C01
import GoblVerif.Generated.CalcFacts
import GoblVerif.Proofs.CalcError
import GoblVerif.Proofs.NumX
import GoblVerif.Proofs.CalcCurrency
import GoblVerif.Proofs.BillCalcSrc

namespace GoblVerif.Props.C01
open GoblVerif GoblVerif.Calc GoblVerif.Calc.Err GoblVerif.Spec GoblVerif.Spec.C01

/-! ## the rounding points -/

/-- multiplication (line sums, percentages, exchange rates, rate × quantity):
    one rounding, half away from zero, at the receiver's precision -/
theorem multiply_point (a b : Amount) :
    (exactOps.mul a b).exp = a.exp ∧ (exactOps.mul a b).value = roundTo a.exp (a.toRat * b.toRat) :=
  ⟨rfl, mulX_spec a b⟩

/-- division (removal of an included tax): one rounding at the receiver's precision -/
theorem divide_point (a b : Amount) (hb : b.value ≠ 0) :
    (exactOps.div a b).exp = a.exp ∧ (exactOps.div a b).value = roundTo a.exp (a.toRat / b.toRat) :=
  ⟨divX_exp a b, divX_spec a b hb⟩

/-- lowering precision (currency rule, presentation): one rounding at the target precision -/
theorem rescale_point (a : Amount) (e : ℕ) (h : e < a.exp) :
    (exactOps.rescale a e).exp = e ∧ (exactOps.rescale a e).value = roundTo e a.toRat :=
  ⟨rescaleX_exp a e, rescaleX_down_spec a e h⟩

/-- raising precision, and the precise rule's `RescaleUp`, never change the value -/
theorem raise_lossless (a : Amount) (e : ℕ) : (up a e).toRat = a.toRat ∧ a.exp ≤ (up a e).exp := by
  refine ⟨up_toRat a e, ?_⟩
  rw [up_exp]; omega

/-- currency conversion of a foreign item price (`ExchangeRate.Convert`, as
    repaired by 7d1829e): one rounding of the exact product price × rate, at the
    document currency's precision, whatever the precision the price is written
    at (before the repair a price with fewer decimals than the document currency
    lost the decimals of the product, one with more was rounded twice) -/
theorem convert_point (r : XRate) (a : Amount) :
    (convert exactOps r a).exp = r.toSub ∧
    (convert exactOps r a).value = roundTo r.toSub (a.toRat * r.amount.toRat) := by
  unfold convert
  by_cases h : a.exp > r.toSub
  · simp only [h, if_true, exact_mul, mulX_exp]
    have hu : up (⟨a.value, r.toSub⟩ : Amount) r.toSub = ⟨a.value, r.toSub⟩ := up_self _ _ (Nat.le_refl _)
    rw [hu]
    refine ⟨rfl, ?_⟩
    rw [mulX_spec]
    congr 1
    obtain ⟨d, hd⟩ : ∃ d, a.exp = r.toSub + d := ⟨a.exp - r.toSub, by omega⟩
    have hd' : r.toSub + d - r.toSub = d := by omega
    have h1 : ((10 : ℚ) ^ r.toSub) ≠ 0 := by positivity
    have h2 : ((10 : ℚ) ^ d) ≠ 0 := by positivity
    have h3 : ((10 : ℚ) ^ r.amount.exp) ≠ 0 := by positivity
    unfold Amount.toRat pow10
    simp only [hd, hd']
    push_cast
    rw [pow_add, pow_add]
    field_simp
  · simp only [h, if_false, exact_mul, mulX_exp]
    have he : (up a r.toSub).exp = r.toSub := by rw [up_exp]; omega
    refine ⟨he, ?_⟩
    rw [mulX_spec, he, up_toRat]

example : convert exactOps ⟨"JPY", "EUR", 2, ⟨61, 4⟩⟩ ⟨1500, 0⟩ = ⟨915, 2⟩ ∧
    convert exactOps ⟨"USD", "EUR", 2, ⟨49995, 4⟩⟩ ⟨10, 4⟩ = ⟨0, 2⟩ ∧
    convert exactOps ⟨"EUR", "JPY", 0, ⟨16393, 2⟩⟩ ⟨201, 2⟩ = ⟨329, 0⟩ := by decide +kernel

/-! ## sums never round -/

/-- the document sum is exactly the sum of the line totals (any exponents) -/
theorem sums_exact_lines (c : ℕ) (ls : List Line) :
    (lineSum exactOps c ls).toRat = ((ls.filterMap (·.total)).map Amount.toRat).sum ∧
    c ≤ (lineSum exactOps c ls).exp := by
  unfold lineSum
  refine ⟨?_, ?_⟩
  · rw [foldl_accum_toRat]; simp [Amount.toRat]
  · exact foldl_accum_exp_ge _ ⟨0, c⟩

/-- the discount / charge totals are exactly the sums of their rows -/
theorem sums_exact_adjustments (c : ℕ) (ds : List DocAdj) (s : Amount) (h : adjSum exactOps c ds = some s) :
    s.toRat = (ds.map (·.amount.toRat)).sum := by
  unfold adjSum at h
  split at h
  · simp at h
  · injection h with h
    rw [← h, foldl_accum_toRat]
    simp [Amount.toRat, List.map_map, Function.comp_def]

/-- the advances total is exactly the sum of the advances -/
theorem sums_exact_advances (c : ℕ) (as : List Advance) (s : Amount) (h : advanceTotal exactOps c as = some s) :
    s.toRat = (as.map (·.amount.toRat)).sum := by
  unfold advanceTotal at h
  split at h
  · simp at h
  · injection h with h
    rw [← h, foldl_accum_toRat]
    simp [Amount.toRat, List.map_map, Function.comp_def]

/-! ## working precision under `precise` -/

/-- a plain line (item priced in the document currency, no breakdown): under
    `precise` the sum carries at least currency + 2 decimals and is the exact
    product price × quantity rounded half away from zero exactly once. -/
theorem line_sum_precise (cur : String) (c : ℕ) (rates : List XRate) (l l' : Line) (it : Item) (p : Amount)
    (hit : l.item = some it) (hcur : it.cur = "") (hp : it.price = some p) (hbd : l.breakdown = [])
    (h : calcLine exactOps cur c rates .precise l = .ok l') :
    ∃ s, l'.sum = some s ∧ c + 2 ≤ s.exp ∧ s.value = roundTo s.exp (p.toRat * l.qty.toRat) := by
  unfold calcLine at h
  simp only [hit, hbd, calcSubLines, List.isEmpty_nil, Bool.true_or, if_true, hp] at h
  unfold itemPrice at h
  simp only [hcur, BEq.rfl, Bool.true_or, if_true] at h
  simp only [show (Rule.precise == Rule.precise) = true from rfl, if_true, Option.getD_some] at h
  injection h with h
  subst h
  refine ⟨_, rfl, ?_, ?_⟩
  · simp only [applyRule, up_exp, exact_mul, mulX_exp, E]
    omega
  · simp only [applyRule]
    have hexp : c ≤ (exactOps.mul (up (up p it.sub) (c + E)) l.qty).exp := by
      simp only [exact_mul, mulX_exp, up_exp, E]; omega
    rw [up_self _ _ hexp]
    rw [exact_mul, mulX_spec, mulX_exp, up_toRat, up_toRat]

/-! ## presentation -/

/-- every presented total has exactly the currency's number of decimals -/
theorem presented_precision (c : ℕ) (t : Totals) :
    let r := roundTotals exactOps c t
    r.sum.exp = c ∧ r.total.exp = c ∧ r.tax.exp = c ∧ r.totalWithTax.exp = c ∧ r.payable.exp = c ∧
    (∀ x, r.discount = some x → x.exp = c) ∧ (∀ x, r.charge = some x → x.exp = c) ∧
    (∀ x, r.taxIncluded = some x → x.exp = c) ∧ (∀ x, r.advances = some x → x.exp = c) ∧
    (∀ x, r.due = some x → x.exp = c) := by
  simp only [roundTotals, exact_rescale, rescaleX_exp, true_and]
  refine ⟨?_, ?_, ?_, ?_, ?_⟩ <;>
  · intro x hx
    simp only [Option.map_eq_some_iff] at hx
    obtain ⟨y, _, rfl⟩ := hx
    exact rescaleX_exp y c

/-- a presented total is the working-precision value rounded half away from
    zero to the currency (or that very value when it is not finer) -/
theorem presented_is_rounding (c : ℕ) (a : Amount) :
    (c < a.exp → presents c (exactOps.rescale a c) a.toRat) ∧
    (a.exp ≤ c → (exactOps.rescale a c).toRat = a.toRat) :=
  ⟨fun h => ⟨rescaleX_exp a c, rescaleX_down_spec a c h⟩, fun h => rescaleX_up_toRat a c h⟩

/-! ## error bounds under `precise` -/

/-- one rounding step is off by at most half a unit of its precision -/
theorem rounding_step_error (a b : Amount) (e : ℕ) :
    |(a.mulX b).toRat - a.toRat * b.toRat| ≤ halfUlp a.exp ∧ |(a.rescaleX e).toRat - a.toRat| ≤ halfUlp e :=
  ⟨mulX_err a b, rescaleX_err a e⟩

/-- a simple line (priced in the document currency, no breakdown, discounts or charges): its total
is within half a unit of the working precision (currency + 2 decimals) of price × quantity -/
theorem simple_line_error (cur : String) (c : ℕ) (rates : List XRate) (l l' : Line) (hs : SimpleLine l)
    (h : calcLine exactOps cur c rates .precise l = .ok l') :
    ∃ t, l'.total = some t ∧ |t.toRat - lineExact l| ≤ halfUlp (c + 2) :=
  simpleLine_total cur c rates l l' hs h

/-- **no presented sum is a full minor unit off** (precise rule, any number n < 100 of simple lines
of any quantities and prices): the presented document sum differs from the exact Σ price × quantity
by at most ½·10⁻ᶜ + n·½·10⁻⁽ᶜ⁺²⁾, which is less than one minor currency unit. -/
theorem presented_sum_within_one_unit (d : Doc) (out : Out) (t : Totals) (hrule : d.rule = .precise)
    (hs : ∀ l ∈ d.lines, SimpleLine l) (hn : d.lines.length < 100)
    (hcalc : calculate exactOps d = .ok out) (ht : out.totals = some t) :
    |t.sum.toRat - (d.lines.map lineExact).sum| < 1 / ((pow10 d.c : ℤ) : ℚ) := by
  unfold calculate at hcalc
  cases hpre : pre exactOps d with
  | error e => simp [hpre] at hcalc
  | ok p =>
    simp only [hpre] at hcalc
    -- what `pre` computed
    unfold pre at hpre
    cases hl : calcLines exactOps d.cur d.c d.rates d.rule d.lines with
    | error e => simp [hl] at hpre
    | ok lines =>
      simp only [hl] at hpre
      injection hpre with hpre
      have hsum : p.sum = lineSum exactOps d.c lines := by rw [← hpre]
      split at hcalc
      · injection hcalc with hcalc
        rw [← hcalc] at ht
        simp at ht
      · cases htx : taxTotal exactOps d.rule d.c d.includes p.rows with
        | error e => simp [htx] at hcalc
        | ok tx =>
          simp only [htx] at hcalc
          injection hcalc with hcalc
          rw [← hcalc] at ht
          simp only [finish, Option.some.injEq] at ht
          have hts : t.sum = (lineSum exactOps d.c lines).rescaleX d.c := by
            rw [← ht]; simp [roundTotals, rawTotals, hsum]
          rw [hts]
          have h1 := rescaleX_err (lineSum exactOps d.c lines) d.c
          have h2 := (sums_exact_lines d.c lines).1
          rw [hrule] at hl
          have h3 := simpleLines_sum d.cur d.c d.rates d.lines lines hs hl
          rw [← h2] at h3
          have hp := p10q_pos d.c
          have hp2 : ((pow10 (d.c + 2) : ℤ) : ℚ) = ((pow10 d.c : ℤ) : ℚ) * 100 := by
            unfold pow10; push_cast; ring
          have hn' : (d.lines.length : ℚ) ≤ 99 := by exact_mod_cast Nat.le_of_lt_succ hn
          have hu2 : halfUlp (d.c + 2) = 1 / (200 * ((pow10 d.c : ℤ) : ℚ)) := by
            unfold halfUlp; rw [hp2]; ring
          have hu : halfUlp d.c = 1 / (2 * ((pow10 d.c : ℤ) : ℚ)) := rfl
          have hpos : (0 : ℚ) < 1 / (200 * ((pow10 d.c : ℤ) : ℚ)) := by positivity
          calc |((lineSum exactOps d.c lines).rescaleX d.c).toRat - (d.lines.map lineExact).sum|
              = |(((lineSum exactOps d.c lines).rescaleX d.c).toRat - (lineSum exactOps d.c lines).toRat) +
                  ((lineSum exactOps d.c lines).toRat - (d.lines.map lineExact).sum)| := by ring_nf
            _ ≤ halfUlp d.c + d.lines.length * halfUlp (d.c + 2) := le_trans (abs_add_le _ _) (add_le_add h1 h3)
            _ ≤ 1 / (2 * ((pow10 d.c : ℤ) : ℚ)) + 99 * (1 / (200 * ((pow10 d.c : ℤ) : ℚ))) := by
                rw [hu, hu2]; nlinarith
            _ < 1 / ((pow10 d.c : ℤ) : ℚ) := by
                rw [div_add' _ _ _ (by positivity), ← sub_pos]
                field_simp
                ring_nf
                positivity

/-- **no presented total is a full minor unit off** (precise rule; n simple lines; k document discounts
and charges given as percentages of the sum, each at most 100 %; no included tax; n·(1+k)+k < 100):
the presented `total` differs from the exact value S·(1 − Σ discount % + Σ charge %), S = Σ price ×
quantity, by less than one minor currency unit. -/
theorem presented_total_within_one_unit (d : Doc) (out : Out) (t : Totals) (hrule : d.rule = .precise)
    (hinc : d.includes = none) (hne : d.lines ≠ [])
    (hs : ∀ l ∈ d.lines, SimpleLine l) (hd : ∀ x ∈ d.discounts, PctOnly x) (hc : ∀ x ∈ d.charges, PctOnly x)
    (hn : d.lines.length * (1 + d.discounts.length + d.charges.length) + d.discounts.length + d.charges.length < 100)
    (hcalc : calculate exactOps d = .ok out) (ht : out.totals = some t) :
    |t.total.toRat - (d.lines.map lineExact).sum * (1 - (d.discounts.map pctQ).sum + (d.charges.map pctQ).sum)|
      < 1 / ((pow10 d.c : ℤ) : ℚ) := by
  unfold calculate at hcalc
  cases hpre : pre exactOps d with
  | error e => simp [hpre] at hcalc
  | ok p =>
    simp only [hpre] at hcalc
    unfold pre at hpre
    cases hl : calcLines exactOps d.cur d.c d.rates d.rule d.lines with
    | error e => simp [hl] at hpre
    | ok lines =>
      simp only [hl] at hpre
      injection hpre with hpre
      split at hcalc
      · injection hcalc with hcalc
        rw [← hcalc] at ht
        simp at ht
      · cases htx : taxTotal exactOps d.rule d.c d.includes p.rows with
        | error e => simp [htx] at hcalc
        | ok tx =>
          simp only [htx] at hcalc
          injection hcalc with hcalc
          rw [← hcalc] at ht
          simp only [finish, Option.some.injEq] at ht
          -- the figures `pre` computed
          set sum := lineSum exactOps d.c lines with hsum
          rw [hrule] at hl hpre
          have hsexp : d.c + 2 ≤ sum.exp := simpleLines_sum_exp d.cur d.c d.rates d.lines lines hs hne hl
          have hcs : d.c ≤ sum.exp := by omega
          have hS := simpleLines_sum d.cur d.c d.rates d.lines lines hs hl
          rw [← (sums_exact_lines d.c lines).1] at hS
          obtain ⟨hde, hdq⟩ := adjSum_pct d.c sum d.discounts hd hcs
          obtain ⟨hce, hcq⟩ := adjSum_pct d.c sum d.charges hc hcs
          -- total = sum − discounts + charges, exactly
          have htot : t.total = p.total2.rescaleX d.c := by
            rw [← ht]; simp [roundTotals, rawTotals, taxIncluded, hinc]
          have ht2 : p.total2.toRat = sum.toRat
              - optQ (adjSum exactOps d.c (d.discounts.map (docAdj exactOps .precise d.c sum)))
              + optQ (adjSum exactOps d.c (d.charges.map (docAdj exactOps .precise d.c sum))) := by
            rw [← hpre]
            simp only
            cases hds : adjSum exactOps d.c (d.discounts.map (docAdj exactOps .precise d.c sum)) with
            | none =>
              cases hcsm : adjSum exactOps d.c (d.charges.map (docAdj exactOps .precise d.c sum)) with
              | none => simp [optQ]
              | some y =>
                simp only [optQ, Option.map_none, Option.getD_none, Option.map_some, Option.getD_some]
                rw [add_toRat _ _ (hce y hcsm)]; ring
            | some x =>
              have hx1 : (sub exactOps sum x).exp = sum.exp := rfl
              cases hcsm : adjSum exactOps d.c (d.charges.map (docAdj exactOps .precise d.c sum)) with
              | none =>
                simp only [optQ, Option.map_none, Option.getD_none, Option.map_some, Option.getD_some]
                rw [sub_toRat _ _ (hde x hds)]; ring
              | some y =>
                simp only [optQ, Option.map_some, Option.getD_some]
                rw [add_toRat _ _ (by rw [hx1]; exact hce y hcsm), sub_toRat _ _ (hde x hds)]
          -- assemble the bound
          have h1 := rescaleX_err p.total2 d.c
          have hp := p10q_pos d.c
          have hh : halfUlp sum.exp ≤ halfUlp (d.c + 2) := halfUlp_mono _ _ hsexp
          have hp2 : ((pow10 (d.c + 2) : ℤ) : ℚ) = ((pow10 d.c : ℤ) : ℚ) * 100 := by
            unfold pow10; push_cast; ring
          have hu2 : halfUlp (d.c + 2) = 1 / (200 * ((pow10 d.c : ℤ) : ℚ)) := by
            unfold halfUlp; rw [hp2]; ring
          have hu : halfUlp d.c = 1 / (2 * ((pow10 d.c : ℤ) : ℚ)) := rfl
          have hpd := pctQ_sum_abs d.discounts hd
          have hpc := pctQ_sum_abs d.charges hc
          set S := (d.lines.map lineExact).sum
          set P := (d.discounts.map pctQ).sum
          set Q := (d.charges.map pctQ).sum
          set n : ℚ := (d.lines.length : ℚ)
          set kd : ℚ := (d.discounts.length : ℚ)
          set kc : ℚ := (d.charges.length : ℚ)
          set h := halfUlp (d.c + 2) with hhdef
          have hhpos : 0 ≤ h := by rw [hu2]; positivity
          have hkd : 0 ≤ kd := by positivity
          have hkc : 0 ≤ kc := by positivity
          have hn0 : 0 ≤ n := by positivity
          -- |total2 − E| ≤ (n(1+kd+kc) + kd + kc)·h
          have hfac : |1 - P + Q| ≤ 1 + kd + kc := by
            have : |1 - P + Q| ≤ |(1 : ℚ)| + |P| + |Q| := by
              have a1 := abs_add_le (1 - P) Q
              have a2 := abs_sub (1 : ℚ) P
              linarith
            simp only [abs_one] at this
            linarith
          have hS' : |sum.toRat - S| ≤ n * h := hS
          have hdq' : |optQ (adjSum exactOps d.c (d.discounts.map (docAdj exactOps .precise d.c sum))) - sum.toRat * P| ≤ kd * h :=
            le_trans hdq (mul_le_mul_of_nonneg_left hh hkd)
          have hcq' : |optQ (adjSum exactOps d.c (d.charges.map (docAdj exactOps .precise d.c sum))) - sum.toRat * Q| ≤ kc * h :=
            le_trans hcq (mul_le_mul_of_nonneg_left hh hkc)
          have hmid : |p.total2.toRat - S * (1 - P + Q)| ≤ (n * (1 + kd + kc) + kd + kc) * h := by
            rw [ht2]
            have e : sum.toRat - optQ (adjSum exactOps d.c (d.discounts.map (docAdj exactOps .precise d.c sum)))
                + optQ (adjSum exactOps d.c (d.charges.map (docAdj exactOps .precise d.c sum))) - S * (1 - P + Q) =
                (sum.toRat - S) * (1 - P + Q)
                - (optQ (adjSum exactOps d.c (d.discounts.map (docAdj exactOps .precise d.c sum))) - sum.toRat * P)
                + (optQ (adjSum exactOps d.c (d.charges.map (docAdj exactOps .precise d.c sum))) - sum.toRat * Q) := by ring
            rw [e]
            have b1 : |(sum.toRat - S) * (1 - P + Q)| ≤ (n * h) * (1 + kd + kc) := by
              rw [abs_mul]
              exact mul_le_mul hS' hfac (abs_nonneg _) (by positivity)
            have t1 := abs_add_le ((sum.toRat - S) * (1 - P + Q)
                - (optQ (adjSum exactOps d.c (d.discounts.map (docAdj exactOps .precise d.c sum))) - sum.toRat * P))
                (optQ (adjSum exactOps d.c (d.charges.map (docAdj exactOps .precise d.c sum))) - sum.toRat * Q)
            have t2 := abs_sub ((sum.toRat - S) * (1 - P + Q))
                (optQ (adjSum exactOps d.c (d.discounts.map (docAdj exactOps .precise d.c sum))) - sum.toRat * P)
            nlinarith
          have hcount : n * (1 + kd + kc) + kd + kc ≤ 99 := by
            have : (d.lines.length * (1 + d.discounts.length + d.charges.length) + d.discounts.length + d.charges.length : ℕ) ≤ 99 :=
              Nat.le_of_lt_succ hn
            have hq : ((d.lines.length * (1 + d.discounts.length + d.charges.length) + d.discounts.length + d.charges.length : ℕ) : ℚ) ≤ 99 := by
              exact_mod_cast this
            simpa [n, kd, kc] using hq
          rw [htot]
          calc |(p.total2.rescaleX d.c).toRat - S * (1 - P + Q)|
              = |((p.total2.rescaleX d.c).toRat - p.total2.toRat) + (p.total2.toRat - S * (1 - P + Q))| := by ring_nf
            _ ≤ halfUlp d.c + (n * (1 + kd + kc) + kd + kc) * h := le_trans (abs_add_le _ _) (add_le_add h1 hmid)
            _ ≤ 1 / (2 * ((pow10 d.c : ℤ) : ℚ)) + 99 * (1 / (200 * ((pow10 d.c : ℤ) : ℚ))) := by
                rw [hu2]
                have hpos200 : (0 : ℚ) ≤ 1 / (200 * ((pow10 d.c : ℤ) : ℚ)) := by positivity
                have := mul_le_mul_of_nonneg_right hcount hpos200
                linarith
            _ < 1 / ((pow10 d.c : ℤ) : ℚ) := by
                rw [div_add' _ _ _ (by positivity), ← sub_pos]
                field_simp
                ring_nf
                positivity

/-! ## non-vacuity -/

/-- a two-line document meeting every hypothesis of `presented_sum_within_one_unit`; exact sum
30.015 + 2.6664 = 32.6814, presented 32.68 -/
def twoLines : Doc :=
  { cur := "EUR", c := 2, rule := .precise, includes := none,
    lines := [{ qty := ⟨3, 0⟩, item := some { price := some ⟨10005, 3⟩, cur := "", sub := 2, alts := [] },
                discounts := [], charges := [], breakdown := [],
                taxes := [{ cat := "VAT", country := "", key := "standard", percent := some ⟨⟨21, 2⟩⟩,
                            surcharge := none, ext := "", retained := false }] },
              { qty := ⟨12, 1⟩, item := some { price := some ⟨2222, 3⟩, cur := "", sub := 2, alts := [] },
                discounts := [], charges := [], breakdown := [], taxes := [] }],
    discounts := [], charges := [], rates := [], rounding := none, hasPayment := false, advances := [], dues := [] }

/-- the same two lines with a 10 % document discount and a 2 % charge: meets every hypothesis of
`presented_total_within_one_unit` (n = 2, k = 2: 2·3+2 = 8 < 100); exact total 32.6814 × 0.92 =
30.066888, presented 30.07 -/
def twoLinesAdj : Doc :=
  { twoLines with
    discounts := [{ percent := some ⟨⟨10, 2⟩⟩, base := none, amount := ⟨0, 0⟩, taxes := [] }],
    charges := [{ percent := some ⟨⟨2, 2⟩⟩, base := none, amount := ⟨0, 0⟩, taxes := [] }] }

example : (∀ x ∈ twoLinesAdj.discounts, PctOnly x) ∧ (∀ x ∈ twoLinesAdj.charges, PctOnly x) ∧
    twoLinesAdj.includes = none ∧ twoLinesAdj.lines ≠ [] ∧
    ((calculate exactOps twoLinesAdj).toOption.bind (·.totals)).map (·.total) = some ⟨3007, 2⟩ := by
  refine ⟨?_, ?_, rfl, by decide, by decide⟩
  · intro x hx
    simp only [twoLinesAdj, List.mem_singleton] at hx
    subst hx
    refine ⟨⟨⟨10, 2⟩⟩, rfl, rfl, rfl, ?_⟩
    norm_num [Amount.toRat, pow10]
  · intro x hx
    simp only [twoLinesAdj, List.mem_singleton] at hx
    subst hx
    refine ⟨⟨⟨2, 2⟩⟩, rfl, rfl, rfl, ?_⟩
    norm_num [Amount.toRat, pow10]

example : twoLines.rule = .precise ∧ (∀ l ∈ twoLines.lines, SimpleLine l) ∧ twoLines.lines.length < 100 ∧
    ((calculate exactOps twoLines).toOption.bind (·.totals)).map (·.sum) = some ⟨3268, 2⟩ := by
  refine ⟨rfl, ?_, by decide, by decide⟩
  intro l hl
  simp only [twoLines, List.mem_cons, List.mem_nil_iff, or_false] at hl
  rcases hl with rfl | rfl <;> exact ⟨_, _, rfl, rfl, rfl, rfl, rfl, rfl⟩


example : (calcLine exactOps "EUR" 2 [] .precise
    { qty := ⟨3, 0⟩, item := some { price := some ⟨10005, 3⟩, cur := "", sub := 2, alts := [] },
      discounts := [], charges := [], breakdown := [], taxes := [] }).toOption.map (·.sum) = some (some ⟨300150, 4⟩) := by
  decide

/-! ## error bounds against `Spec.C01.exactQ` for lines with discounts and charges

`exactQ d` is the rational pipeline with no rounding anywhere (Spec/C01.lean).  Weights count the
rounding points in half-units of the working precision (currency + 2 decimals):
`lineW l = 1 + 2·(#discounts + #charges)`, `sumW = Σ lineW`,
`totalW d = sumW·(1 + kd + kc) + kd + kc` (kd, kc document discounts / charges). -/

/-- (1) a line of the class `AdjLine` (priced in the document currency, no breakdown; each
line discount / charge is a non-zero percentage of at most 100 % of the line sum or of an explicit
base with at most currency + 2 decimals, or a fixed amount with at most currency + 2 decimals; no
rate × quantity charges): the line total is within
`lineW l` half-units of the working precision of the exact rational line total -/
theorem adj_line_error (cur : String) (c : ℕ) (rates : List XRate) (l l' : Line) (hs : AdjLine c l)
    (h : calcLine exactOps cur c rates .precise l = .ok l') :
    ∃ t q, l'.total = some t ∧ c + 2 ≤ t.exp ∧ lineTotalQ cur rates l = some q ∧
      |t.toRat - q| ≤ (lineW l : ℚ) * halfUlp (c + 2) := by
  obtain ⟨t, q, h1, _, h3, h4, h5⟩ := adjLine_total cur c rates l l' hs h
  exact ⟨t, q, h1, h3, h4, h5⟩

/-- (1) lifted to the document sum: under the precise rule, with every line of the class `AdjLine`
and `sumW d.lines < 100`, the presented sum is less than one minor unit from the exact sum -/
theorem presented_sum_adj_within_one_unit (d : Doc) (out : Out) (t : Totals) (hrule : d.rule = .precise)
    (hs : ∀ l ∈ d.lines, AdjLine d.c l) (hn : sumW d.lines < 100)
    (hcalc : calculate exactOps d = .ok out) (ht : out.totals = some t) :
    |t.sum.toRat - (exactQ d).sum| < 1 / ((pow10 d.c : ℤ) : ℚ) := by
  obtain ⟨p, tx, hpre, _, _, htr⟩ := calculate_unpack d out t hcalc ht
  have hts : t.sum = p.sum.rescaleX d.c := by rw [htr]; rfl
  rw [hts]
  refine within_unit d.c p.sum _ (sumW d.lines : ℚ) ?_ (pre_sum_spec d p hrule hs hpre)
  exact_mod_cast Nat.le_of_lt_succ hn

/-- (1) lifted to the presented total: class `DocA` (precise rule, at least one line, lines of the
class `AdjLine`, document discounts and charges of the class `DocAdjOk`: percentages of at most
100 % of the sum or of an explicit base, or fixed amounts, bases and fixed amounts with at most
currency + 2 decimals), no included tax, `totalW d < 100`: the presented total is less than one minor unit from the exact
total -/
theorem presented_total_adj_within_one_unit (d : Doc) (out : Out) (t : Totals) (hd : DocA d)
    (hinc : d.includes = none) (hn : totalW d < 100)
    (hcalc : calculate exactOps d = .ok out) (ht : out.totals = some t) :
    |t.total.toRat - (exactQ d).total| < 1 / ((pow10 d.c : ℤ) : ℚ) := by
  obtain ⟨p, tx, hpre, _, _, htr⟩ := calculate_unpack d out t hcalc ht
  have hts : t.total = p.total2.rescaleX d.c := by
    rw [htr]; simp [roundTotals, rawTotals, taxIncluded, hinc]
  obtain ⟨_, _, _, _, _, _, _, _, hb⟩ := pre_spec d p hd hpre
  rw [hts, exactQ_total, exactQ_inc_none d hinc, sub_zero]
  refine within_unit d.c p.total2 _ (totalW d : ℚ) ?_ hb
  exact_mod_cast Nat.le_of_lt_succ hn

/-- one line 3 × 10.005 with a 12.5 % discount and a charge of 5 % of an explicit base of 20.00,
one line 1.2 × 2.222 with a fixed charge of 1.25 (10.5 % VAT and a retained tax of 15 %); a fixed document discount of 0.50 (carrying 21 %
VAT) and a 2 % document charge -/
def adjDoc : Doc :=
  { cur := "EUR", c := 2, rule := .precise, includes := none,
    lines := [{ qty := ⟨3, 0⟩, item := some { price := some ⟨10005, 3⟩, cur := "", sub := 2, alts := [] },
                discounts := [{ percent := some ⟨⟨125, 3⟩⟩, base := none, amount := ⟨0, 0⟩, rate := none, quantity := none }],
                charges := [{ percent := some ⟨⟨5, 2⟩⟩, base := some ⟨2000, 2⟩, amount := ⟨0, 0⟩, rate := none, quantity := none }],
                breakdown := [],
                taxes := [{ cat := "VAT", country := "", key := "standard", percent := some ⟨⟨21, 2⟩⟩,
                            surcharge := none, ext := "", retained := false }] },
              { qty := ⟨12, 1⟩, item := some { price := some ⟨2222, 3⟩, cur := "", sub := 2, alts := [] },
                discounts := [],
                charges := [{ percent := none, base := none, amount := ⟨125, 2⟩, rate := none, quantity := none }],
                breakdown := [],
                taxes := [{ cat := "VAT", country := "", key := "reduced", percent := some ⟨⟨105, 3⟩⟩,
                            surcharge := none, ext := "", retained := false },
                          { cat := "IRPF", country := "", key := "pro", percent := some ⟨⟨15, 2⟩⟩,
                            surcharge := none, ext := "", retained := true }] }],
    discounts := [{ percent := none, base := none, amount := ⟨50, 2⟩,
                    taxes := [{ cat := "VAT", country := "", key := "standard", percent := some ⟨⟨21, 2⟩⟩,
                                surcharge := none, ext := "", retained := false }] }],
    charges := [{ percent := some ⟨⟨2, 2⟩⟩, base := none, amount := ⟨0, 0⟩, taxes := [] }],
    rates := [], rounding := none, hasPayment := false, advances := [], dues := [] }

theorem adjDoc_lines : ∀ l ∈ adjDoc.lines, AdjLine adjDoc.c l := by
  intro l hl
  simp only [adjDoc, List.mem_cons, List.mem_nil_iff, or_false] at hl
  rcases hl with rfl | rfl
  · refine ⟨_, _, rfl, rfl, rfl, rfl, ?_, ?_⟩
    · intro x hx
      simp only [List.mem_cons, List.mem_nil_iff, or_false] at hx
      subst hx
      exact ⟨rfl, Or.inl ⟨_, rfl, rfl, by norm_num [Amount.toRat, pow10], Or.inl rfl⟩⟩
    · intro x hx
      simp only [List.mem_cons, List.mem_nil_iff, or_false] at hx
      subst hx
      exact ⟨rfl, Or.inl ⟨_, rfl, rfl, by norm_num [Amount.toRat, pow10], Or.inr ⟨_, rfl, by decide⟩⟩⟩
  · refine ⟨_, _, rfl, rfl, rfl, rfl, ?_, ?_⟩
    · intro x hx; simp at hx
    · intro x hx
      simp only [List.mem_cons, List.mem_nil_iff, or_false] at hx
      subst hx
      exact ⟨rfl, Or.inr ⟨Or.inl rfl, by decide⟩⟩

theorem adjDoc_class : DocA adjDoc := by
  refine ⟨rfl, by decide, adjDoc_lines, ?_, ?_⟩
  · intro x hx
    simp only [adjDoc, List.mem_singleton] at hx
    subst hx
    exact Or.inr ⟨Or.inl rfl, by decide⟩
  · intro x hx
    simp only [adjDoc, List.mem_singleton] at hx
    subst hx
    exact Or.inl ⟨⟨⟨2, 2⟩⟩, rfl, rfl, by norm_num [Amount.toRat, pow10], Or.inl rfl⟩

/-- non-vacuity of (1): the class holds, weights 5 + 3 = 8 and 8·3 + 2 = 26; exact line totals
27.263125 and 3.9164, exact sum 31.179525 (presented 31.18), exact total 31.179525 − 0.50 + 0.6235905 =
31.3031155 (presented 31.30) -/
example : DocA adjDoc ∧ adjDoc.includes = none ∧ sumW adjDoc.lines = 8 ∧ totalW adjDoc = 26 ∧
    ((calculate exactOps adjDoc).toOption.bind (·.totals)).map (fun t => (t.sum, t.total)) =
      some (⟨3118, 2⟩, ⟨3130, 2⟩) :=
  ⟨adjDoc_class, rfl, by decide, by decide, by decide⟩

/-! ## the tax clause (precise rule, prices not including tax)

`taxW d G = G + Σ_lines lineW l·comboW l + Σ_{document discounts, charges} (1 + sumW)·comboW`:
one rounding per rate group and one more per group surcharge (`G = groupsT t`, counted on the
presented tax summary; without surcharges the number of rate groups) plus the error the row totals
carry into the tax (`comboW` = number of combos, a combo with a surcharge counting twice; every
percentage and surcharge ≤ 100 %). -/

/-- (2) class `DocT` (class `DocA`; no included tax; every tax combo on a line or on a document
discount / charge is exempt or a percentage of magnitude ≤ 100 %, with or without a surcharge ≤ 100 %,
and whether it is retained is a function `ret` of its category alone):
with `G` rounding points in the tax summary, if `taxW d G < 100` the presented tax, and if
`totalW d + taxW d G < 100` the presented total with tax, are less than one minor unit from the exact
rational values of `Spec.C01.exactQ` -/
theorem presented_tax_within_one_unit (ret : String → Bool) (d : Doc) (out : Out) (t : Totals) (hd : DocT ret d)
    (hcalc : calculate exactOps d = .ok out) (ht : out.totals = some t) :
    (taxW d (groupsT t) < 100 → |t.tax.toRat - (exactQ d).tax| < 1 / ((pow10 d.c : ℤ) : ℚ)) ∧
    (twtW d (groupsT t) < 100 →
      |t.totalWithTax.toRat - (exactQ d).totalWithTax| < 1 / ((pow10 d.c : ℤ) : ℚ)) := by
  obtain ⟨p, tx, hpre, htx, _, htr⟩ := calculate_unpack d out t hcalc ht
  obtain ⟨_, _, _, _, _, w5, w6⟩ := working_tax d p tx hd hpre htx
  have hG : groupsT t = groupsOf tx.cats := by rw [htr]; exact groupsT_round d p tx
  have h1 : t.tax = (rawTotals exactOps d p tx).tax.rescaleX d.c := by rw [htr]; rfl
  have h2 : t.totalWithTax = (rawTotals exactOps d p tx).totalWithTax.rescaleX d.c := by rw [htr]; rfl
  rw [hG, h1, h2]
  exact ⟨fun hn => within_unit d.c _ _ _ (by exact_mod_cast Nat.le_of_lt_succ hn) w5,
    fun hn => within_unit d.c _ _ _ (by exact_mod_cast Nat.le_of_lt_succ hn) w6⟩

/-- which categories are retained in the examples -/
def retEx : String → Bool := fun k => k == "IRPF"

theorem adjDoc_tax_class : DocT retEx adjDoc := by
  have hcb : ∀ (cat k : String) (v : ℤ) (e : ℕ) (r : Bool), r = retEx cat → |(⟨v, e⟩ : Amount).toRat| ≤ 1 →
      ComboOk retEx { cat := cat, country := "", key := k, percent := some ⟨⟨v, e⟩⟩, surcharge := none, ext := "", retained := r } := by
    intro cat k v e r hr h
    refine ⟨hr, ?_, fun sp hs => by cases hs⟩
    intro p hp
    simp only [Option.some.injEq] at hp
    subst hp
    exact h
  refine ⟨adjDoc_class, rfl, ?_, ?_, ?_⟩
  · intro l hl cb hcbm
    simp only [adjDoc, List.mem_cons, List.mem_nil_iff, or_false] at hl
    rcases hl with rfl | rfl
    · simp only [List.mem_singleton] at hcbm
      subst hcbm
      exact hcb _ _ _ _ _ (by decide) (by norm_num [Amount.toRat, pow10])
    · simp only [List.mem_cons, List.mem_nil_iff, or_false] at hcbm
      rcases hcbm with rfl | rfl
      · exact hcb _ _ _ _ _ (by decide) (by norm_num [Amount.toRat, pow10])
      · exact hcb _ _ _ _ _ (by decide) (by norm_num [Amount.toRat, pow10])
  · intro x hx cb hcbm
    simp only [adjDoc, List.mem_singleton] at hx
    subst hx
    simp only [List.mem_singleton] at hcbm
    subst hcbm
    exact hcb _ _ _ _ _ (by decide) (by norm_num [Amount.toRat, pow10])
  · intro x hx cb hcbm
    simp only [adjDoc, List.mem_singleton] at hx
    subst hx
    simp at hcbm

/-- non-vacuity of (2): three rate groups (VAT 21 % and 10.5 %, retained 15 %),
`taxW = 3 + (5·1 + 3·2) + (1 + 8)·1 = 23`, `twtW = 26 + 23 = 49`; exact tax
(27.263125 − 0.50) × 0.21 + 3.9164 × (0.105 − 0.15) = 5.44401825 (presented 5.44), exact total with tax
31.3031155 + 5.44401825 = 36.74713375 (presented 36.75) -/
example : DocT retEx adjDoc ∧
    ((calculate exactOps adjDoc).toOption.bind (·.totals)).map
      (fun t => (groupsT t, taxW adjDoc (groupsT t), twtW adjDoc (groupsT t), t.tax, t.totalWithTax)) =
      some (3, 23, 49, ⟨544, 2⟩, ⟨3675, 2⟩) :=
  ⟨adjDoc_tax_class, by decide⟩

/-- one line 7 × 3.333 carrying 21 % VAT with an equivalence surcharge of 5.2 % -/
def surDoc : Doc :=
  { cur := "EUR", c := 2, rule := .precise, includes := none,
    lines := [{ qty := ⟨7, 0⟩, item := some { price := some ⟨3333, 3⟩, cur := "", sub := 2, alts := [] },
                discounts := [], charges := [], breakdown := [],
                taxes := [{ cat := "VAT", country := "", key := "standard", percent := some ⟨⟨21, 2⟩⟩,
                            surcharge := some ⟨⟨52, 3⟩⟩, ext := "", retained := false }] }],
    discounts := [], charges := [], rates := [], rounding := none, hasPayment := false, advances := [], dues := [] }

/-- non-vacuity of (2) with a surcharge: one rate group with a surcharge (two rounding points),
`taxW = 2 + 1·2 = 4`; exact tax 23.331 × (0.21 + 0.052) = 6.112722 (presented 6.11), exact total with
tax 29.443722 (presented 29.44) -/
example : DocT retEx surDoc ∧
    ((calculate exactOps surDoc).toOption.bind (·.totals)).map
      (fun t => (groupsT t, taxW surDoc (groupsT t), twtW surDoc (groupsT t), t.tax, t.totalWithTax)) =
      some (2, 4, 5, ⟨611, 2⟩, ⟨2944, 2⟩) := by
  refine ⟨⟨⟨rfl, by decide, ?_, by simp [surDoc], by simp [surDoc]⟩, rfl, ?_, by simp [surDoc], by simp [surDoc]⟩, by decide⟩
  · intro l hl
    simp only [surDoc, List.mem_singleton] at hl
    subst hl
    exact ⟨_, _, rfl, rfl, rfl, rfl, by simp, by simp⟩
  · intro l hl cb hcb
    simp only [surDoc, List.mem_singleton] at hl
    subst hl
    simp only [List.mem_singleton] at hcb
    subst hcb
    refine ⟨by decide, ?_, ?_⟩
    · intro p hp
      simp only [Option.some.injEq] at hp
      subst hp
      norm_num [Amount.toRat, pow10]
    · intro sp hs
      simp only [Option.some.injEq] at hs
      subst hs
      norm_num [Amount.toRat, pow10]

/-! ## payable, advances, due

`twtW d G = totalW d + taxW d G` (total with tax, payable), `advW d G = #advances·(1 + twtW d G)`,
`dueW d G = twtW d G + advW d G`. -/

/-- (3) class `DocC` (class `DocT`; an externally supplied `totals.rounding` with at most
currency + 2 decimals; every advance a percentage ≤ 100 % of the total with tax or a fixed amount with
at most currency + 2 decimals): the presented payable, advances total and amount due are less than
one minor unit from the exact rational values whenever their weight is below 100 -/
theorem presented_payment_within_one_unit (ret : String → Bool) (d : Doc) (out : Out) (t : Totals) (hd : DocC ret d)
    (hcalc : calculate exactOps d = .ok out) (ht : out.totals = some t) :
    (twtW d (groupsT t) < 100 → |t.payable.toRat - (exactQ d).payable| < 1 / ((pow10 d.c : ℤ) : ℚ)) ∧
    (advW d (groupsT t) < 100 → ∀ x, t.advances = some x →
      |x.toRat - (exactQ d).advances| < 1 / ((pow10 d.c : ℤ) : ℚ)) ∧
    (dueW d (groupsT t) < 100 → ∀ x, t.due = some x →
      |x.toRat - (exactQ d).due| < 1 / ((pow10 d.c : ℤ) : ℚ)) := by
  obtain ⟨p, tx, hpre, htx, _, htr⟩ := calculate_unpack d out t hcalc ht
  obtain ⟨_, _, _, _, _, _, w7, w8, w9⟩ := working_spec d p tx hd hpre htx
  have hG : groupsT t = groupsOf tx.cats := by rw [htr]; exact groupsT_round d p tx
  have h1 : t.payable = (rawTotals exactOps d p tx).payable.rescaleX d.c := by rw [htr]; rfl
  have h2 : t.advances = (rawTotals exactOps d p tx).advances.map (·.rescaleX d.c) := by rw [htr]; rfl
  have h3 : t.due = (rawTotals exactOps d p tx).due.map (·.rescaleX d.c) := by rw [htr]; rfl
  rw [hG, h1, h2, h3]
  refine ⟨fun hn => within_unit d.c _ _ _ (by exact_mod_cast Nat.le_of_lt_succ hn) w7, ?_, ?_⟩
  · intro hn x hx
    simp only [Option.map_eq_some_iff] at hx
    obtain ⟨y, hy, rfl⟩ := hx
    rw [hy] at w8
    exact within_unit d.c _ _ _ (by exact_mod_cast Nat.le_of_lt_succ hn) w8
  · intro hn x hx
    simp only [Option.map_eq_some_iff] at hx
    obtain ⟨y, hy, rfl⟩ := hx
    exact within_unit d.c _ _ _ (by exact_mod_cast Nat.le_of_lt_succ hn) (w9 y hy)

/-- `adjDoc` with a payment section: an advance of 30 % and an externally supplied rounding of −0.02 -/
def payDoc : Doc :=
  { adjDoc with hasPayment := true, rounding := some ⟨-2, 2⟩,
                advances := [{ percent := some ⟨⟨30, 2⟩⟩, amount := ⟨0, 0⟩ }] }

theorem payDoc_class : DocC retEx payDoc := by
  refine ⟨⟨⟨adjDoc_class.rule, adjDoc_class.ne, adjDoc_class.lines, adjDoc_class.discounts, adjDoc_class.charges⟩,
    rfl, adjDoc_tax_class.lineTaxes, adjDoc_tax_class.discTaxes, adjDoc_tax_class.chTaxes⟩, ?_, ?_⟩
  · intro x hx
    simp only [payDoc, Option.some.injEq] at hx
    subst hx
    decide
  · intro a ha
    simp only [payDoc, List.mem_singleton] at ha
    subst ha
    exact Or.inl ⟨_, rfl, by norm_num [Amount.toRat, pow10]⟩

/-- non-vacuity of (3): weights 49, 50 and 99; exact payable 36.74713375 − 0.02 = 36.72713375
(presented 36.73), exact advance 30 % × 36.74713375 = 11.024140125 (presented 11.02), exact due
25.702993625 (presented 25.70) -/
example : DocC retEx payDoc ∧
    ((calculate exactOps payDoc).toOption.bind (·.totals)).map
      (fun t => (twtW payDoc (groupsT t), advW payDoc (groupsT t), dueW payDoc (groupsT t))) = some (49, 50, 99) ∧
    ((calculate exactOps payDoc).toOption.bind (·.totals)).map (fun t => (t.payable, t.advances, t.due)) =
      some (⟨3673, 2⟩, some ⟨1102, 2⟩, some ⟨2570, 2⟩) :=
  ⟨payDoc_class, by decide, by decide⟩

/-! ## the first clause as one theorem -/

/-- **calc_eq_spec** — for every document of the class `DocC` (precise rule; prices not including
tax; at least one line; lines priced in the document currency without breakdown whose discounts and
charges are percentages ≤ 100 % of the line sum or of an explicit base, or fixed amounts (bases and
fixed amounts with ≤ currency + 2 decimals);
document discounts and charges percentages ≤ 100 % of the sum or of an explicit base, or fixed
amounts (bases and fixed amounts with ≤ currency + 2 decimals); ordinary tax combos; `totals.rounding`
and fixed advances with ≤ currency + 2 decimals, percentage advances ≤ 100 %):

every presented figure of `Calc.calculate exactOps d` is the half-away rounding at the currency's
precision of a working value (the fields of `w`; `w` itself is never rounded again: `t = roundTotals w`),
and the working value differs from `Spec.C01.exactQ d` by at most the number of contributing rounding
points, each worth half a unit of the working precision (currency + 2 decimals).  The rounding points
are named by the weights: price × quantity of each line and each percentage line discount / charge
(`lineW`, `sumW`), each document discount / charge (`adjW`, `totalW`), each rate group of the tax
summary (`G = groupsT t`, `taxW`), each percentage advance (`advW`); sums, differences, the precise
rule's `RescaleUp`, fixed amounts and the externally supplied rounding contribute nothing. -/
theorem calc_eq_spec (ret : String → Bool) (d : Doc) (out : Out) (t : Totals) (hd : DocC ret d)
    (hcalc : calculate exactOps d = .ok out) (ht : out.totals = some t) :
    ∃ w : Totals, t = roundTotals exactOps d.c w ∧
      -- presentation: one rounding, half away from zero, at the currency's precision
      (presents d.c t.sum w.sum.toRat ∧ presents d.c t.total w.total.toRat ∧
       presents d.c t.tax w.tax.toRat ∧ presents d.c t.totalWithTax w.totalWithTax.toRat ∧
       presents d.c t.payable w.payable.toRat ∧ t.taxIncluded = none ∧
       (∀ x, t.discount = some x → ∃ y, w.discount = some y ∧ presents d.c x y.toRat) ∧
       (∀ x, t.charge = some x → ∃ y, w.charge = some y ∧ presents d.c x y.toRat) ∧
       (∀ x, t.advances = some x → ∃ y, w.advances = some y ∧ presents d.c x y.toRat) ∧
       (∀ x, t.due = some x → ∃ y, w.due = some y ∧ presents d.c x y.toRat)) ∧
      -- distance of the working values from the exact rational pipeline
      (|w.sum.toRat - (exactQ d).sum| ≤ (sumW d.lines : ℚ) * halfUlp (d.c + 2) ∧
       |optQ w.discount - (exactQ d).discount| ≤ (adjW (sumW d.lines) d.discounts.length : ℚ) * halfUlp (d.c + 2) ∧
       |optQ w.charge - (exactQ d).charge| ≤ (adjW (sumW d.lines) d.charges.length : ℚ) * halfUlp (d.c + 2) ∧
       |w.total.toRat - (exactQ d).total| ≤ (totalW d : ℚ) * halfUlp (d.c + 2) ∧
       |w.tax.toRat - (exactQ d).tax| ≤ (taxW d (groupsT t) : ℚ) * halfUlp (d.c + 2) ∧
       |w.totalWithTax.toRat - (exactQ d).totalWithTax| ≤ (twtW d (groupsT t) : ℚ) * halfUlp (d.c + 2) ∧
       |w.payable.toRat - (exactQ d).payable| ≤ (twtW d (groupsT t) : ℚ) * halfUlp (d.c + 2) ∧
       |optQ w.advances - (exactQ d).advances| ≤ (advW d (groupsT t) : ℚ) * halfUlp (d.c + 2) ∧
       (∀ y, w.due = some y → |y.toRat - (exactQ d).due| ≤ (dueW d (groupsT t) : ℚ) * halfUlp (d.c + 2))) := by
  obtain ⟨p, tx, hpre, htx, _, htr⟩ := calculate_unpack d out t hcalc ht
  have hG : groupsT t = groupsOf tx.cats := by rw [htr]; exact groupsT_round d p tx
  have hw := working_spec d p tx hd hpre htx
  have hti : (rawTotals exactOps d p tx).taxIncluded = none := (rawTotals_fields d p tx hd.tax.inc).2.2.2.1
  have hopt : ∀ (o : Option Amount) (x : Amount), o.map (exactOps.rescale · d.c) = some x →
      ∃ y, o = some y ∧ presents d.c x y.toRat := by
    intro o x hx
    simp only [Option.map_eq_some_iff] at hx
    obtain ⟨y, hy, rfl⟩ := hx
    exact ⟨y, hy, presents_rescale d.c y⟩
  refine ⟨rawTotals exactOps d p tx, htr, ?_, ?_⟩
  · rw [htr]
    refine ⟨presents_rescale _ _, presents_rescale _ _, presents_rescale _ _, presents_rescale _ _,
      presents_rescale _ _, ?_, hopt _, hopt _, hopt _, hopt _⟩
    simp [roundTotals, hti]
  · rw [hG]; exact hw

/-- **precise_error_lt_unit** — for a document of the class `DocC` whose largest weight
`dueW d G` (G rate groups) is below 100, every presented total is less than one minor currency unit
from the exact rational value -/
theorem precise_error_lt_unit (ret : String → Bool) (d : Doc) (out : Out) (t : Totals) (hd : DocC ret d)
    (hn : dueW d (groupsT t) < 100)
    (hcalc : calculate exactOps d = .ok out) (ht : out.totals = some t) :
    |t.sum.toRat - (exactQ d).sum| < 1 / ((pow10 d.c : ℤ) : ℚ) ∧
    |t.total.toRat - (exactQ d).total| < 1 / ((pow10 d.c : ℤ) : ℚ) ∧
    |t.tax.toRat - (exactQ d).tax| < 1 / ((pow10 d.c : ℤ) : ℚ) ∧
    |t.totalWithTax.toRat - (exactQ d).totalWithTax| < 1 / ((pow10 d.c : ℤ) : ℚ) ∧
    |t.payable.toRat - (exactQ d).payable| < 1 / ((pow10 d.c : ℤ) : ℚ) ∧
    (∀ x, t.discount = some x → |x.toRat - (exactQ d).discount| < 1 / ((pow10 d.c : ℤ) : ℚ)) ∧
    (∀ x, t.charge = some x → |x.toRat - (exactQ d).charge| < 1 / ((pow10 d.c : ℤ) : ℚ)) ∧
    (∀ x, t.advances = some x → |x.toRat - (exactQ d).advances| < 1 / ((pow10 d.c : ℤ) : ℚ)) ∧
    (∀ x, t.due = some x → |x.toRat - (exactQ d).due| < 1 / ((pow10 d.c : ℤ) : ℚ)) := by
  obtain ⟨w, htr, _, b1, b2, b3, b4, b5, b6, b7, b8, b9⟩ := calc_eq_spec ret d out t hd hcalc ht
  set G := groupsT t
  -- every weight is at most the weight of the amount due
  have m1 : twtW d G ≤ dueW d G := Nat.le_add_right _ _
  have m2 : advW d G ≤ dueW d G := Nat.le_add_left _ _
  have m3 : totalW d ≤ twtW d G := Nat.le_add_right _ _
  have m4 : taxW d G ≤ twtW d G := Nat.le_add_left _ _
  have m5 : sumW d.lines ≤ totalW d := by
    unfold totalW
    have : sumW d.lines ≤ sumW d.lines * (1 + d.discounts.length + d.charges.length) :=
      Nat.le_mul_of_pos_right _ (by omega)
    omega
  have m6 : adjW (sumW d.lines) d.discounts.length ≤ totalW d := by
    unfold totalW adjW
    have : sumW d.lines * (1 + d.discounts.length + d.charges.length) =
        sumW d.lines + d.discounts.length * sumW d.lines + sumW d.lines * d.charges.length := by ring
    rw [this, Nat.mul_add, Nat.mul_one]
    omega
  have m7 : adjW (sumW d.lines) d.charges.length ≤ totalW d := by
    unfold totalW adjW
    have : sumW d.lines * (1 + d.discounts.length + d.charges.length) =
        sumW d.lines + sumW d.lines * d.discounts.length + d.charges.length * sumW d.lines := by ring
    rw [this, Nat.mul_add, Nat.mul_one]
    omega
  have c99 : ∀ n : ℕ, n ≤ dueW d G → ((n : ℕ) : ℚ) ≤ 99 := by
    intro n hle
    have : n ≤ 99 := by omega
    exact_mod_cast this
  have hs : ∀ (a : Amount) (q : ℚ) (n : ℕ), n ≤ dueW d G → |a.toRat - q| ≤ (n : ℚ) * halfUlp (d.c + 2) →
      |(a.rescaleX d.c).toRat - q| < 1 / ((pow10 d.c : ℤ) : ℚ) :=
    fun a q n hle h => within_unit d.c a q n (c99 n hle) h
  have ho : ∀ (o : Option Amount) (q : ℚ) (n : ℕ), n ≤ dueW d G → |optQ o - q| ≤ (n : ℚ) * halfUlp (d.c + 2) →
      ∀ x, o.map (exactOps.rescale · d.c) = some x → |x.toRat - q| < 1 / ((pow10 d.c : ℤ) : ℚ) := by
    intro o q n hle h x hx
    simp only [Option.map_eq_some_iff] at hx
    obtain ⟨y, hy, rfl⟩ := hx
    rw [hy] at h
    exact hs y q n hle h
  rw [htr]
  refine ⟨hs _ _ _ (by omega) b1, hs _ _ _ (by omega) b4, hs _ _ _ (by omega) b5, hs _ _ _ (by omega) b6,
    hs _ _ _ (by omega) b7, ho _ _ _ (by omega) b2, ho _ _ _ (by omega) b3, ho _ _ _ (by omega) b8, ?_⟩
  intro x hx
  have hx' : w.due.map (exactOps.rescale · d.c) = some x := hx
  simp only [Option.map_eq_some_iff] at hx'
  obtain ⟨y, hy, rfl⟩ := hx'
  exact hs y _ _ (Nat.le_refl _) (b9 y hy)

/-- non-vacuity of `calc_eq_spec` / `precise_error_lt_unit`: `payDoc` is of the class and its largest
weight is 99 < 100; the presented figures against the exact values 31.179525, 0.50, 0.6235905,
31.3031155, 5.44401825, 36.74713375, 36.72713375, 11.024140125, 25.702993625 -/
example : DocC retEx payDoc ∧
    ((calculate exactOps payDoc).toOption.bind (·.totals)).map (fun t => dueW payDoc (groupsT t)) = some 99 ∧
    ((calculate exactOps payDoc).toOption.bind (·.totals)).map (fun t => (t.sum, t.discount, t.charge, t.total)) =
      some (⟨3118, 2⟩, some ⟨50, 2⟩, some ⟨62, 2⟩, ⟨3130, 2⟩) ∧
    ((calculate exactOps payDoc).toOption.bind (·.totals)).map (fun t => (t.tax, t.totalWithTax, t.payable)) =
      some (⟨544, 2⟩, ⟨3675, 2⟩, ⟨3673, 2⟩) ∧
    ((calculate exactOps payDoc).toOption.bind (·.totals)).map (fun t => (t.advances, t.due)) =
      some (some ⟨1102, 2⟩, some ⟨2570, 2⟩) :=
  ⟨payDoc_class, by decide, by decide, by decide, by decide⟩

/-- **the explicit bound** — for a document of the class `DocC`, every presented total is within
half a minor unit (the presentation rounding) plus `dueW d G` half-units of the working precision
(all other rounding points; `dueW d G` is the largest of the weights) of the exact rational value -/
theorem presented_explicit_bound (ret : String → Bool) (d : Doc) (out : Out) (t : Totals) (hd : DocC ret d)
    (hcalc : calculate exactOps d = .ok out) (ht : out.totals = some t) :
    |t.sum.toRat - (exactQ d).sum| ≤ halfUlp d.c + (dueW d (groupsT t) : ℚ) * halfUlp (d.c + 2) ∧
    |t.total.toRat - (exactQ d).total| ≤ halfUlp d.c + (dueW d (groupsT t) : ℚ) * halfUlp (d.c + 2) ∧
    |t.tax.toRat - (exactQ d).tax| ≤ halfUlp d.c + (dueW d (groupsT t) : ℚ) * halfUlp (d.c + 2) ∧
    |t.totalWithTax.toRat - (exactQ d).totalWithTax| ≤ halfUlp d.c + (dueW d (groupsT t) : ℚ) * halfUlp (d.c + 2) ∧
    |t.payable.toRat - (exactQ d).payable| ≤ halfUlp d.c + (dueW d (groupsT t) : ℚ) * halfUlp (d.c + 2) ∧
    (∀ x, t.discount = some x →
      |x.toRat - (exactQ d).discount| ≤ halfUlp d.c + (dueW d (groupsT t) : ℚ) * halfUlp (d.c + 2)) ∧
    (∀ x, t.charge = some x →
      |x.toRat - (exactQ d).charge| ≤ halfUlp d.c + (dueW d (groupsT t) : ℚ) * halfUlp (d.c + 2)) ∧
    (∀ x, t.advances = some x →
      |x.toRat - (exactQ d).advances| ≤ halfUlp d.c + (dueW d (groupsT t) : ℚ) * halfUlp (d.c + 2)) ∧
    (∀ x, t.due = some x →
      |x.toRat - (exactQ d).due| ≤ halfUlp d.c + (dueW d (groupsT t) : ℚ) * halfUlp (d.c + 2)) := by
  obtain ⟨w, htr, _, b1, b2, b3, b4, b5, b6, b7, b8, b9⟩ := calc_eq_spec ret d out t hd hcalc ht
  set G := groupsT t
  have m1 : twtW d G ≤ dueW d G := Nat.le_add_right _ _
  have m2 : advW d G ≤ dueW d G := Nat.le_add_left _ _
  have m3 : totalW d ≤ twtW d G := Nat.le_add_right _ _
  have m4 : taxW d G ≤ twtW d G := Nat.le_add_left _ _
  have m5 : sumW d.lines ≤ totalW d := by
    unfold totalW
    have : sumW d.lines ≤ sumW d.lines * (1 + d.discounts.length + d.charges.length) :=
      Nat.le_mul_of_pos_right _ (by omega)
    omega
  have m6 : adjW (sumW d.lines) d.discounts.length ≤ totalW d := by
    unfold totalW adjW
    have : sumW d.lines * (1 + d.discounts.length + d.charges.length) =
        sumW d.lines + d.discounts.length * sumW d.lines + sumW d.lines * d.charges.length := by ring
    rw [this, Nat.mul_add, Nat.mul_one]
    omega
  have m7 : adjW (sumW d.lines) d.charges.length ≤ totalW d := by
    unfold totalW adjW
    have : sumW d.lines * (1 + d.discounts.length + d.charges.length) =
        sumW d.lines + sumW d.lines * d.discounts.length + d.charges.length * sumW d.lines := by ring
    rw [this, Nat.mul_add, Nat.mul_one]
    omega
  have h0 := halfUlp_nonneg (d.c + 2)
  have hs : ∀ (a : Amount) (q : ℚ) (n : ℕ), n ≤ dueW d G → |a.toRat - q| ≤ (n : ℚ) * halfUlp (d.c + 2) →
      |(a.rescaleX d.c).toRat - q| ≤ halfUlp d.c + (dueW d G : ℚ) * halfUlp (d.c + 2) := by
    intro a q n hle h
    have h1 := rescaleX_err a d.c
    have hn : (n : ℚ) ≤ (dueW d G : ℚ) := by exact_mod_cast hle
    have h2 := mul_le_mul_of_nonneg_right hn h0
    have e : (a.rescaleX d.c).toRat - q = ((a.rescaleX d.c).toRat - a.toRat) + (a.toRat - q) := by ring
    rw [e]
    refine le_trans (abs_add_le _ _) ?_
    linarith
  have ho : ∀ (o : Option Amount) (q : ℚ) (n : ℕ), n ≤ dueW d G → |optQ o - q| ≤ (n : ℚ) * halfUlp (d.c + 2) →
      ∀ x, o.map (exactOps.rescale · d.c) = some x →
        |x.toRat - q| ≤ halfUlp d.c + (dueW d G : ℚ) * halfUlp (d.c + 2) := by
    intro o q n hle h x hx
    simp only [Option.map_eq_some_iff] at hx
    obtain ⟨y, hy, rfl⟩ := hx
    rw [hy] at h
    exact hs y q n hle h
  rw [htr]
  refine ⟨hs _ _ _ (by omega) b1, hs _ _ _ (by omega) b4, hs _ _ _ (by omega) b5, hs _ _ _ (by omega) b6,
    hs _ _ _ (by omega) b7, ho _ _ _ (by omega) b2, ho _ _ _ (by omega) b3, ho _ _ _ (by omega) b8, ?_⟩
  intro x hx
  have hx' : w.due.map (exactOps.rescale · d.c) = some x := hx
  simp only [Option.map_eq_some_iff] at hx'
  obtain ⟨y, hy, rfl⟩ := hx'
  exact hs y _ _ (Nat.le_refl _) (b9 y hy)

/-- the same with hypotheses the model driver evaluates (`Spec.C01`: `inDocC`, `docWeight`): this is
the statement the check also tests on the real library's output for every generated document that
falls in the class (`harness/props/c01`, counters `error-bound:in-proved-class…`) -/
theorem decided_class_bound (d : Doc) (out : Out) (t : Totals) (hcls : inDocC d = true)
    (hcalc : calculate exactOps d = .ok out) (ht : out.totals = some t) :
    |t.sum.toRat - (exactQ d).sum| ≤ halfUlp d.c + (docWeight d : ℚ) * halfUlp (d.c + 2) ∧
    |t.total.toRat - (exactQ d).total| ≤ halfUlp d.c + (docWeight d : ℚ) * halfUlp (d.c + 2) ∧
    |t.tax.toRat - (exactQ d).tax| ≤ halfUlp d.c + (docWeight d : ℚ) * halfUlp (d.c + 2) ∧
    |t.totalWithTax.toRat - (exactQ d).totalWithTax| ≤ halfUlp d.c + (docWeight d : ℚ) * halfUlp (d.c + 2) ∧
    |t.payable.toRat - (exactQ d).payable| ≤ halfUlp d.c + (docWeight d : ℚ) * halfUlp (d.c + 2) ∧
    (∀ x, t.discount = some x →
      |x.toRat - (exactQ d).discount| ≤ halfUlp d.c + (docWeight d : ℚ) * halfUlp (d.c + 2)) ∧
    (∀ x, t.charge = some x →
      |x.toRat - (exactQ d).charge| ≤ halfUlp d.c + (docWeight d : ℚ) * halfUlp (d.c + 2)) ∧
    (∀ x, t.advances = some x →
      |x.toRat - (exactQ d).advances| ≤ halfUlp d.c + (docWeight d : ℚ) * halfUlp (d.c + 2)) ∧
    (∀ x, t.due = some x →
      |x.toRat - (exactQ d).due| ≤ halfUlp d.c + (docWeight d : ℚ) * halfUlp (d.c + 2)) := by
  rw [docWeight_eq d out t hcalc ht]
  exact presented_explicit_bound (retOf d) d out t (inDocC_sound d hcls) hcalc ht

/-- non-vacuity: the examples are in the decided class, with the weights computed above -/
example : inDocC adjDoc = true ∧ inDocC payDoc = true ∧ inDocC surDoc = true ∧
    docWeight adjDoc = 49 ∧ docWeight payDoc = 99 ∧ docWeight surDoc = 5 := by decide

/-! ## the presented rows -/

/-- every line of a document of the class `DocA` is shown (`Shows`: unchanged, or rounded half away
from zero once, to the decimals of the item price) from a working line total that carries at least
currency + 2 decimals and is within `lineW l` half-units of the working precision of the exact
rational line total -/
theorem calc_lines_spec (d : Doc) (out : Out) (hd : DocA d) (hcalc : calculate exactOps d = .ok out) :
    List.Forall₂ (fun l lo => ∃ w q a, lo.total = some a ∧ Shows a w ∧ d.c + 2 ≤ w.exp ∧
        lineTotalQ d.cur d.rates l = some q ∧ |w.toRat - q| ≤ (lineW l : ℚ) * halfUlp (d.c + 2))
      d.lines out.lines :=
  lines_shown d out hd hcalc

/-- the advance rows and the due-date rows (`DueOk`: a non-zero percentage ≤ 100 % of the payable
amount, or a fixed amount) of a document of the class `DocC` with a payment section: each amount is
the half-away rounding at currency precision of a working value (for a percentage: the product at the
working precision, the second rounding point of that row) within `1 + twtW` half-units of the exact
percentage of the exact total with tax / payable amount -/
theorem calc_payment_rows_spec (ret : String → Bool) (d : Doc) (out : Out) (t : Totals) (hd : DocC ret d)
    (hp : d.hasPayment = true) (hdues : ∀ x ∈ d.dues, DueOk x)
    (hcalc : calculate exactOps d = .ok out) (ht : out.totals = some t) :
    List.Forall₂ (fun a ao => ∃ w : Amount, presents d.c ao.amount w.toRat ∧
        |w.toRat - advQ (exactQ d).totalWithTax a| ≤ (1 + (twtW d (groupsT t) : ℚ)) * halfUlp (d.c + 2))
      d.advances out.advances ∧
    List.Forall₂ (fun x xo => ∃ w : Amount, presents d.c xo.amount w.toRat ∧
        |w.toRat - dueQ (exactQ d).payable x| ≤ (1 + (twtW d (groupsT t) : ℚ)) * halfUlp (d.c + 2))
      d.dues out.dues :=
  payment_rows_shown d out t hd hp hdues hcalc ht

/-- the document discount and charge rows of a document of the class `DocA`: each shown amount
`Shows` (unchanged or rounded once, `Discount.round` / `Charge.round`) a working amount within
`1 + sumW` half-units of the working precision of its exact value on the exact sum -/
theorem calc_adj_rows_spec (d : Doc) (out : Out) (t : Totals) (hd : DocA d)
    (hcalc : calculate exactOps d = .ok out) (ht : out.totals = some t) :
    List.Forall₂ (fun x xo => ∃ w : Amount, Shows xo.amount w ∧
        |w.toRat - docAdjQ (exactQ d).sum x| ≤ (1 + (sumW d.lines : ℚ)) * halfUlp (d.c + 2))
      d.discounts out.discounts ∧
    List.Forall₂ (fun x xo => ∃ w : Amount, Shows xo.amount w ∧
        |w.toRat - docAdjQ (exactQ d).sum x| ≤ (1 + (sumW d.lines : ℚ)) * halfUlp (d.c + 2))
      d.charges out.charges :=
  adj_rows_shown d out t hd hcalc ht

/-- `payDoc` with two due dates: 40 % of the payable amount and a fixed 10.00 -/
def dueDoc : Doc :=
  { payDoc with dues := [{ percent := some ⟨⟨40, 2⟩⟩, amount := ⟨0, 0⟩ }, { percent := none, amount := ⟨1000, 2⟩ }] }

/-- non-vacuity: the classes hold; line totals 27.263125 and 3.9164 shown with the three decimals
of the prices, the advance 11.024140125 as 11.02, the due dates 40 % × 36.72713375 = 14.6908535 as
14.69 and 10.00 -/
example : DocC retEx dueDoc ∧ dueDoc.hasPayment = true ∧ (∀ x ∈ dueDoc.dues, DueOk x) ∧
    (calculate exactOps dueDoc).toOption.map (fun o => o.lines.map (·.total)) =
      some [some ⟨27263, 3⟩, some ⟨3916, 3⟩] ∧
    (calculate exactOps dueDoc).toOption.map (fun o => (o.advances.map (·.amount), o.dues.map (·.amount))) =
      some ([⟨1102, 2⟩], [⟨1469, 2⟩, ⟨1000, 2⟩]) := by
  have h := payDoc_class
  refine ⟨⟨⟨⟨h.tax.base.rule, h.tax.base.ne, h.tax.base.lines, h.tax.base.discounts, h.tax.base.charges⟩,
    h.tax.inc, h.tax.lineTaxes, h.tax.discTaxes, h.tax.chTaxes⟩, h.rounding, h.advances⟩, rfl, ?_,
    by decide, by decide⟩
  intro x hx
  simp only [dueDoc, List.mem_cons, List.mem_nil_iff, or_false] at hx
  rcases hx with rfl | rfl
  · exact Or.inl ⟨_, rfl, rfl, by norm_num [Amount.toRat, pow10]⟩
  · exact Or.inr (Or.inl rfl)

/-! ## prices that include one tax category (`prices_include`)

`removeIncludedTaxes` divides the prepared total (currency + 2 decimals at least) of every row that
carries a combo of the included category with a percentage by 1 + that percentage: one more rounding
point for that row (`incB`), and a contraction of the error it already carried (percentage ≥ 0).
`tax_included` is the unrounded amount of the included category: its rounding points are the rate
groups of that category (`Gk = incGroupsT d.includes t`) and it carries the rows' errors once per combo
of the category on the row (`kN`); it is subtracted from `total`.

Weights (`Spec/C01.lean`): `rowsWL L inc d = Σ_lines (lineW l + incB)·L l.taxes + Σ_{document
discounts, charges} (1 + sumW + incB)·L x.taxes`; `taxWI d G = G + rowsWL comboW`,
`incWI d Gk = Gk + rowsWL kN`, `totalWI = totalW + incWI`, `twtWI = totalWI + taxWI`,
`advWI = #advances·(1 + twtWI)`, `dueWI = twtWI + advWI`.  Without an included category `incB = kN = 0`
and these are the weights of `calc_eq_spec`. -/

/-- **calc_eq_spec_included** — the statement of `calc_eq_spec` for the class `DocCI`: as `DocC`, but
`d.includes` may name a tax category, which must not be retained (the calculation fails otherwise:
`CalcErr.retainedIncluded`, no `out`) and whose percentages must not be negative.  Every presented
total, `tax_included` among them, is the half-away rounding at currency precision of a working value
within weight × half a unit of the working precision of `Spec.C01.exactQ d` (whose row totals have
the included tax taken out by an exact division). -/
theorem calc_eq_spec_included (ret : String → Bool) (d : Doc) (out : Out) (t : Totals) (hd : DocCI ret d)
    (hcalc : calculate exactOps d = .ok out) (ht : out.totals = some t) :
    ∃ w : Totals, t = roundTotals exactOps d.c w ∧
      (presents d.c t.sum w.sum.toRat ∧ presents d.c t.total w.total.toRat ∧
       presents d.c t.tax w.tax.toRat ∧ presents d.c t.totalWithTax w.totalWithTax.toRat ∧
       presents d.c t.payable w.payable.toRat ∧
       (∀ x, t.taxIncluded = some x → ∃ y, w.taxIncluded = some y ∧ presents d.c x y.toRat) ∧
       (∀ x, t.discount = some x → ∃ y, w.discount = some y ∧ presents d.c x y.toRat) ∧
       (∀ x, t.charge = some x → ∃ y, w.charge = some y ∧ presents d.c x y.toRat) ∧
       (∀ x, t.advances = some x → ∃ y, w.advances = some y ∧ presents d.c x y.toRat) ∧
       (∀ x, t.due = some x → ∃ y, w.due = some y ∧ presents d.c x y.toRat)) ∧
      (|w.sum.toRat - (exactQ d).sum| ≤ (sumW d.lines : ℚ) * halfUlp (d.c + 2) ∧
       |optQ w.discount - (exactQ d).discount| ≤ (adjW (sumW d.lines) d.discounts.length : ℚ) * halfUlp (d.c + 2) ∧
       |optQ w.charge - (exactQ d).charge| ≤ (adjW (sumW d.lines) d.charges.length : ℚ) * halfUlp (d.c + 2) ∧
       |optQ w.taxIncluded - (exactQ d).taxIncluded| ≤
         (incWI d (incGroupsT d.includes t) : ℚ) * halfUlp (d.c + 2) ∧
       |w.total.toRat - (exactQ d).total| ≤ (totalWI d (incGroupsT d.includes t) : ℚ) * halfUlp (d.c + 2) ∧
       |w.tax.toRat - (exactQ d).tax| ≤ (taxWI d (groupsT t) : ℚ) * halfUlp (d.c + 2) ∧
       |w.totalWithTax.toRat - (exactQ d).totalWithTax| ≤
         (twtWI d (groupsT t) (incGroupsT d.includes t) : ℚ) * halfUlp (d.c + 2) ∧
       |w.payable.toRat - (exactQ d).payable| ≤
         (twtWI d (groupsT t) (incGroupsT d.includes t) : ℚ) * halfUlp (d.c + 2) ∧
       |optQ w.advances - (exactQ d).advances| ≤
         (advWI d (groupsT t) (incGroupsT d.includes t) : ℚ) * halfUlp (d.c + 2) ∧
       (∀ y, w.due = some y → |y.toRat - (exactQ d).due| ≤
         (dueWI d (groupsT t) (incGroupsT d.includes t) : ℚ) * halfUlp (d.c + 2))) := by
  obtain ⟨p, tx, hpre, htx, _, htr⟩ := calculate_unpack d out t hcalc ht
  have hG : groupsT t = groupsOf tx.cats := by rw [htr]; exact groupsT_round d p tx
  have hGk : incGroupsT d.includes t = incGroupsOf d.includes tx.cats := by rw [htr]; exact groupsT_round_inc d p tx
  have hw := working_spec_inc d p tx hd hpre htx
  have hopt : ∀ (o : Option Amount) (x : Amount), o.map (exactOps.rescale · d.c) = some x →
      ∃ y, o = some y ∧ presents d.c x y.toRat := by
    intro o x hx
    simp only [Option.map_eq_some_iff] at hx
    obtain ⟨y, hy, rfl⟩ := hx
    exact ⟨y, hy, presents_rescale d.c y⟩
  refine ⟨rawTotals exactOps d p tx, htr, ?_, ?_⟩
  · rw [htr]
    exact ⟨presents_rescale _ _, presents_rescale _ _, presents_rescale _ _, presents_rescale _ _,
      presents_rescale _ _, hopt _, hopt _, hopt _, hopt _, hopt _⟩
  · rw [hG, hGk]; exact hw

/-- **the explicit bound with an included category** — for a document of the class `DocCI`, every
presented total (`tax_included` too) is within half a minor unit plus `dueWI` half-units of the
working precision of the exact rational value; in particular (`N = 99`) less than one minor unit
when `dueWI d G Gk < 100` -/
theorem included_explicit_bound (ret : String → Bool) (d : Doc) (out : Out) (t : Totals) (hd : DocCI ret d)
    (hcalc : calculate exactOps d = .ok out) (ht : out.totals = some t) :
    let B := halfUlp d.c + (dueWI d (groupsT t) (incGroupsT d.includes t) : ℚ) * halfUlp (d.c + 2)
    |t.sum.toRat - (exactQ d).sum| ≤ B ∧ |t.total.toRat - (exactQ d).total| ≤ B ∧
    |t.tax.toRat - (exactQ d).tax| ≤ B ∧ |t.totalWithTax.toRat - (exactQ d).totalWithTax| ≤ B ∧
    |t.payable.toRat - (exactQ d).payable| ≤ B ∧
    (∀ x, t.taxIncluded = some x → |x.toRat - (exactQ d).taxIncluded| ≤ B) ∧
    (∀ x, t.discount = some x → |x.toRat - (exactQ d).discount| ≤ B) ∧
    (∀ x, t.charge = some x → |x.toRat - (exactQ d).charge| ≤ B) ∧
    (∀ x, t.advances = some x → |x.toRat - (exactQ d).advances| ≤ B) ∧
    (∀ x, t.due = some x → |x.toRat - (exactQ d).due| ≤ B) := by
  intro B
  obtain ⟨w, htr, _, b1, b2, b3, bi, b4, b5, b6, b7, b8, b9⟩ := calc_eq_spec_included ret d out t hd hcalc ht
  set G := groupsT t
  set Gk := incGroupsT d.includes t
  have m1 : twtWI d G Gk ≤ dueWI d G Gk := Nat.le_add_right _ _
  have m2 : advWI d G Gk ≤ dueWI d G Gk := Nat.le_add_left _ _
  have m3 : totalWI d Gk ≤ twtWI d G Gk := Nat.le_add_right _ _
  have m4 : taxWI d G ≤ twtWI d G Gk := Nat.le_add_left _ _
  have m3' : totalW d ≤ totalWI d Gk := Nat.le_add_right _ _
  have m8 : incWI d Gk ≤ totalWI d Gk := Nat.le_add_left _ _
  have m5 : sumW d.lines ≤ totalW d := by
    unfold totalW
    have : sumW d.lines ≤ sumW d.lines * (1 + d.discounts.length + d.charges.length) :=
      Nat.le_mul_of_pos_right _ (by omega)
    omega
  have m6 : adjW (sumW d.lines) d.discounts.length ≤ totalW d := by
    unfold totalW adjW
    have : sumW d.lines * (1 + d.discounts.length + d.charges.length) =
        sumW d.lines + d.discounts.length * sumW d.lines + sumW d.lines * d.charges.length := by ring
    rw [this, Nat.mul_add, Nat.mul_one]
    omega
  have m7 : adjW (sumW d.lines) d.charges.length ≤ totalW d := by
    unfold totalW adjW
    have : sumW d.lines * (1 + d.discounts.length + d.charges.length) =
        sumW d.lines + sumW d.lines * d.discounts.length + d.charges.length * sumW d.lines := by ring
    rw [this, Nat.mul_add, Nat.mul_one]
    omega
  have h0 := halfUlp_nonneg (d.c + 2)
  have hs : ∀ (a : Amount) (q : ℚ) (n : ℕ), n ≤ dueWI d G Gk → |a.toRat - q| ≤ (n : ℚ) * halfUlp (d.c + 2) →
      |(a.rescaleX d.c).toRat - q| ≤ B := by
    intro a q n hle h
    have h1 := rescaleX_err a d.c
    have hn : (n : ℚ) ≤ (dueWI d G Gk : ℚ) := by exact_mod_cast hle
    have h2 := mul_le_mul_of_nonneg_right hn h0
    have e : (a.rescaleX d.c).toRat - q = ((a.rescaleX d.c).toRat - a.toRat) + (a.toRat - q) := by ring
    rw [e]
    refine le_trans (abs_add_le _ _) ?_
    show _ ≤ halfUlp d.c + (dueWI d G Gk : ℚ) * halfUlp (d.c + 2)
    linarith
  have ho : ∀ (o : Option Amount) (q : ℚ) (n : ℕ), n ≤ dueWI d G Gk → |optQ o - q| ≤ (n : ℚ) * halfUlp (d.c + 2) →
      ∀ x, o.map (exactOps.rescale · d.c) = some x → |x.toRat - q| ≤ B := by
    intro o q n hle h x hx
    simp only [Option.map_eq_some_iff] at hx
    obtain ⟨y, hy, rfl⟩ := hx
    rw [hy] at h
    exact hs y q n hle h
  rw [htr]
  refine ⟨hs _ _ _ (by omega) b1, hs _ _ _ (by omega) b4, hs _ _ _ (by omega) b5, hs _ _ _ (by omega) b6,
    hs _ _ _ (by omega) b7, ho _ _ _ (by omega) bi, ho _ _ _ (by omega) b2, ho _ _ _ (by omega) b3,
    ho _ _ _ (by omega) b8, ?_⟩
  intro x hx
  have hx' : w.due.map (exactOps.rescale · d.c) = some x := hx
  simp only [Option.map_eq_some_iff] at hx'
  obtain ⟨y, hy, rfl⟩ := hx'
  exact hs y _ _ (Nat.le_refl _) (b9 y hy)

/-- the same with the hypotheses the model driver evaluates (`Spec.C01`: `inDocI`, `docWeightI`);
the check holds the real library's output of every generated document of this class to it (counter
`error-bound:in-proved-class-included`) -/
theorem decided_class_bound_included (d : Doc) (out : Out) (t : Totals) (hcls : inDocI d = true)
    (hcalc : calculate exactOps d = .ok out) (ht : out.totals = some t) :
    let B := halfUlp d.c + (docWeightI d : ℚ) * halfUlp (d.c + 2)
    |t.sum.toRat - (exactQ d).sum| ≤ B ∧ |t.total.toRat - (exactQ d).total| ≤ B ∧
    |t.tax.toRat - (exactQ d).tax| ≤ B ∧ |t.totalWithTax.toRat - (exactQ d).totalWithTax| ≤ B ∧
    |t.payable.toRat - (exactQ d).payable| ≤ B ∧
    (∀ x, t.taxIncluded = some x → |x.toRat - (exactQ d).taxIncluded| ≤ B) ∧
    (∀ x, t.discount = some x → |x.toRat - (exactQ d).discount| ≤ B) ∧
    (∀ x, t.charge = some x → |x.toRat - (exactQ d).charge| ≤ B) ∧
    (∀ x, t.advances = some x → |x.toRat - (exactQ d).advances| ≤ B) ∧
    (∀ x, t.due = some x → |x.toRat - (exactQ d).due| ≤ B) := by
  rw [docWeightI_eq d out t hcalc ht]
  exact included_explicit_bound (retOf d) d out t (inDocI_sound d hcls) hcalc ht

/-- **precise_error_lt_unit_included** — class `DocCI`, largest weight below 100: every presented
total, `tax_included` too, is less than one minor currency unit from the exact rational value -/
theorem precise_error_lt_unit_included (ret : String → Bool) (d : Doc) (out : Out) (t : Totals) (hd : DocCI ret d)
    (hn : dueWI d (groupsT t) (incGroupsT d.includes t) < 100)
    (hcalc : calculate exactOps d = .ok out) (ht : out.totals = some t) :
    let U := 1 / ((pow10 d.c : ℤ) : ℚ)
    |t.sum.toRat - (exactQ d).sum| < U ∧ |t.total.toRat - (exactQ d).total| < U ∧
    |t.tax.toRat - (exactQ d).tax| < U ∧ |t.totalWithTax.toRat - (exactQ d).totalWithTax| < U ∧
    |t.payable.toRat - (exactQ d).payable| < U ∧
    (∀ x, t.taxIncluded = some x → |x.toRat - (exactQ d).taxIncluded| < U) ∧
    (∀ x, t.discount = some x → |x.toRat - (exactQ d).discount| < U) ∧
    (∀ x, t.charge = some x → |x.toRat - (exactQ d).charge| < U) ∧
    (∀ x, t.advances = some x → |x.toRat - (exactQ d).advances| < U) ∧
    (∀ x, t.due = some x → |x.toRat - (exactQ d).due| < U) := by
  intro U
  have hb := included_explicit_bound ret d out t hd hcalc ht
  simp only at hb
  have hp := p10q_pos d.c
  have hp2 : ((pow10 (d.c + 2) : ℤ) : ℚ) = ((pow10 d.c : ℤ) : ℚ) * 100 := by
    unfold pow10; push_cast; ring
  have hu2 : halfUlp (d.c + 2) = 1 / (200 * ((pow10 d.c : ℤ) : ℚ)) := by
    unfold halfUlp; rw [hp2]; ring
  have hu : halfUlp d.c = 1 / (2 * ((pow10 d.c : ℤ) : ℚ)) := rfl
  have hlt : halfUlp d.c + (dueWI d (groupsT t) (incGroupsT d.includes t) : ℚ) * halfUlp (d.c + 2) < U := by
    have hN : (dueWI d (groupsT t) (incGroupsT d.includes t) : ℚ) ≤ 99 := by
      have : dueWI d (groupsT t) (incGroupsT d.includes t) ≤ 99 := by omega
      exact_mod_cast this
    have hpos200 : (0 : ℚ) ≤ 1 / (200 * ((pow10 d.c : ℤ) : ℚ)) := by positivity
    have h1 := mul_le_mul_of_nonneg_right hN hpos200
    rw [hu, hu2]
    have : 1 / (2 * ((pow10 d.c : ℤ) : ℚ)) + 99 * (1 / (200 * ((pow10 d.c : ℤ) : ℚ))) < U := by
      show _ < 1 / ((pow10 d.c : ℤ) : ℚ)
      rw [div_add' _ _ _ (by positivity), ← sub_pos]
      field_simp
      ring_nf
      positivity
    linarith
  obtain ⟨a1, a2, a3, a4, a5, a6, a7, a8, a9, a10⟩ := hb
  exact ⟨lt_of_le_of_lt a1 hlt, lt_of_le_of_lt a2 hlt, lt_of_le_of_lt a3 hlt, lt_of_le_of_lt a4 hlt,
    lt_of_le_of_lt a5 hlt, fun x hx => lt_of_le_of_lt (a6 x hx) hlt, fun x hx => lt_of_le_of_lt (a7 x hx) hlt,
    fun x hx => lt_of_le_of_lt (a8 x hx) hlt, fun x hx => lt_of_le_of_lt (a9 x hx) hlt,
    fun x hx => lt_of_le_of_lt (a10 x hx) hlt⟩

/-- prices including VAT: 3 × 12.10 gross at 21 % with a 12.5 % line discount, 1.2 × 2.222 gross at
10.5 % (and a retained 15 %), an exempt line 2 × 0.335, a fixed document discount of 0.50 gross at
21 %; an advance of 30 % -/
def incDoc : Doc :=
  { cur := "EUR", c := 2, rule := .precise, includes := some "VAT",
    lines := [{ qty := ⟨3, 0⟩, item := some { price := some ⟨1210, 2⟩, cur := "", sub := 2, alts := [] },
                discounts := [{ percent := some ⟨⟨125, 3⟩⟩, base := none, amount := ⟨0, 0⟩, rate := none, quantity := none }],
                charges := [], breakdown := [],
                taxes := [{ cat := "VAT", country := "", key := "standard", percent := some ⟨⟨21, 2⟩⟩,
                            surcharge := none, ext := "", retained := false }] },
              { qty := ⟨12, 1⟩, item := some { price := some ⟨2222, 3⟩, cur := "", sub := 2, alts := [] },
                discounts := [], charges := [], breakdown := [],
                taxes := [{ cat := "VAT", country := "", key := "reduced", percent := some ⟨⟨105, 3⟩⟩,
                            surcharge := none, ext := "", retained := false },
                          { cat := "IRPF", country := "", key := "pro", percent := some ⟨⟨15, 2⟩⟩,
                            surcharge := none, ext := "", retained := true }] },
              { qty := ⟨2, 0⟩, item := some { price := some ⟨335, 3⟩, cur := "", sub := 2, alts := [] },
                discounts := [], charges := [], breakdown := [],
                taxes := [{ cat := "VAT", country := "", key := "exempt", percent := none,
                            surcharge := none, ext := "", retained := false }] }],
    discounts := [{ percent := none, base := none, amount := ⟨50, 2⟩,
                    taxes := [{ cat := "VAT", country := "", key := "standard", percent := some ⟨⟨21, 2⟩⟩,
                                surcharge := none, ext := "", retained := false }] }],
    charges := [], rates := [], rounding := none, hasPayment := true,
    advances := [{ percent := some ⟨⟨30, 2⟩⟩, amount := ⟨0, 0⟩ }], dues := [] }

/-- non-vacuity of the included-tax theorems: `incDoc` is in the decided class (so `DocCI (retOf incDoc)
incDoc` holds by `inDocI_sound`), two VAT groups with a percentage and one exempt (`G = 4` with the
retained group, `Gk = 3`), largest weight 97 < 100 (`taxWI` = 4 + 16 = 20, `incWI` = 3 + 14 = 17,
`totalW` = 11).  Exact values: sum 31.7625 + 2.6664 + 0.67 =
35.0989 (presented 35.10), discount 0.50, included VAT (31.7625 − 0.50)·0.21/1.21 + 2.6664·0.105/1.105 =
5.67912… (presented 5.68), total 28.91978… (28.92), tax 5.67912… − 2.6664/1.105·0.15 = 5.31717… (5.32),
total with tax 34.23695… (34.24), advance 10.27108… (10.27), due 23.96586… (23.97) -/
example : inDocI incDoc = true ∧ inDocC incDoc = false ∧
    ((calculate exactOps incDoc).toOption.bind (·.totals)).map
      (fun t => (groupsT t, incGroupsT incDoc.includes t, dueWI incDoc (groupsT t) (incGroupsT incDoc.includes t))) =
      some (4, 3, 97) ∧
    ((calculate exactOps incDoc).toOption.bind (·.totals)).map (fun t => (t.sum, t.discount, t.taxIncluded, t.total)) =
      some (⟨3510, 2⟩, some ⟨50, 2⟩, some ⟨568, 2⟩, ⟨2892, 2⟩) ∧
    ((calculate exactOps incDoc).toOption.bind (·.totals)).map (fun t => (t.tax, t.totalWithTax, t.advances, t.due)) =
      some (⟨532, 2⟩, ⟨3424, 2⟩, some ⟨1027, 2⟩, some ⟨2397, 2⟩) := by
  refine ⟨by decide, by decide, by decide, by decide, by decide⟩

/-! ## the rows of the tax summary as presented figures

For a document of the class `DocTI` (`DocCI` without the conditions on rounding and advances; with or
without an included category).  The exact quantities are built from the exact rows of
`Spec.C01.exactQ` (`exactRowsW`: exact line totals, exact document discounts negated, exact document
charges, each with its combos; the included tax taken out by an exact division, `remQ`):
`catExactQ selP d k` = Σ rows Σ combos of category `k`, row × percentage (for the included category
this is `(exactQ d).taxIncluded`: `catExactQ_included`), `catExactQ selS d k` the same with the
surcharge percentages, `grpExactQ d k key` = Σ rows, once per combo of category `k` and group key
`key` (extensions, country, percentage, surcharge percentage: `Spec.C02.keyOfRate`). -/

/-- every category row: `amount` is the half-away rounding at currency precision of the working
amount (kept as `precise`), which is within (number of rate groups of the category + the rows'
carried weight `rowsWL kN`) half-units of the working precision of the exact category amount; the
category surcharge likewise against the exact surcharge -/
theorem calc_tax_category_rows_spec (ret : String → Bool) (d : Doc) (out : Out) (t : Totals) (hd : DocTI ret d)
    (hcalc : calculate exactOps d = .ok out) (ht : out.totals = some t)
    (tx : TaxTotal) (htx : t.taxes = some tx) (k : String) (ct : CatTotal)
    (hf : tx.cats.find? (fun ct => ct.code == k) = some ct) :
    presents d.c ct.amount ct.precise.toRat ∧
    |ct.precise.toRat - catExactQ selP d k| ≤
      ((ct.rates.length + rowsWL (kN (some k)) d.includes d : ℕ) : ℚ) * halfUlp (d.c + 2) ∧
    ∃ ws : Option Amount, ct.surcharge = ws.map (·.rescaleX d.c) ∧
      |optQ ws - catExactQ selS d k| ≤
        ((ct.rates.length + rowsWL (kN (some k)) d.includes d : ℕ) : ℚ) * halfUlp (d.c + 2) :=
  cat_rows_shown d out t hd hcalc ht tx htx k ct hf

/-- every rate-group row: the base is the rounding of a working base within `Wb = rowsWL gN`
half-units of the exact base of the group (sums add no rounding point); the amount is the rounding
of a working amount within `1 + |percentage|·Wb` half-units of exact base × percentage; the
surcharge within `1 + |surcharge percentage|·Wb` of exact base × surcharge percentage — with the
actual percentages, not their bound of 100 % -/
theorem calc_tax_group_rows_spec (ret : String → Bool) (d : Doc) (out : Out) (t : Totals) (hd : DocTI ret d)
    (hcalc : calculate exactOps d = .ok out) (ht : out.totals = some t)
    (tx : TaxTotal) (htx : t.taxes = some tx) (ct : CatTotal) (hct : ct ∈ tx.cats)
    (rt : RateTotal) (hrt : rt ∈ ct.rates) :
    ∃ bw : Amount, presents d.c rt.base bw.toRat ∧
      |bw.toRat - grpExactQ d ct.code (Spec.C02.keyOfRate rt)| ≤
        (rowsWL (gN ct.code (Spec.C02.keyOfRate rt)) d.includes d : ℚ) * halfUlp (d.c + 2) ∧
      (∀ p, rt.percent = some p → ∃ aw : Amount, presents d.c rt.amount aw.toRat ∧
        |aw.toRat - grpExactQ d ct.code (Spec.C02.keyOfRate rt) * p.amount.toRat| ≤
          (1 + |p.amount.toRat| * (rowsWL (gN ct.code (Spec.C02.keyOfRate rt)) d.includes d : ℚ)) * halfUlp (d.c + 2)) ∧
      (∀ p sp sa, rt.percent = some p → rt.surcharge = some (sp, sa) →
        ∃ sw : Amount, presents d.c sa sw.toRat ∧
        |sw.toRat - grpExactQ d ct.code (Spec.C02.keyOfRate rt) * sp.amount.toRat| ≤
          (1 + |sp.amount.toRat| * (rowsWL (gN ct.code (Spec.C02.keyOfRate rt)) d.includes d : ℚ)) * halfUlp (d.c + 2)) :=
  group_rows_shown d out t hd hcalc ht tx htx ct hct rt hrt

/-- non-vacuity of the two row theorems: `incDoc` (prices including VAT) and `surDoc` (a surcharge)
are of the class.  `incDoc`: VAT shows 5.68 from the working amount 5.6791 (exact 5.67909147…, weight
3 groups + 14 carried); its groups: standard base 25.84 (exact (31.7625 − 0.50)/1.21 = 25.83677…),
amount 5.43 (exact 5.42572…); reduced base 2.41 (exact 2.6664/1.105 = 2.41303…), amount 0.25 (exact
0.25336…); exempt base 0.67; retained IRPF base 2.41, amount 0.36 (exact 0.36195…).  `surDoc`: base
23.33 (exact 23.331), amount 4.90 (exact 4.89951), surcharge 1.21 (exact 1.213212) -/
example : DocTI (retOf incDoc) incDoc ∧ DocTI (retOf surDoc) surDoc ∧
    rowsWL (kN (some "VAT")) incDoc.includes incDoc = 14 ∧
    (((calculate exactOps incDoc).toOption.bind (·.totals)).bind (·.taxes)).map
      (fun tx => tx.cats.map (fun ct => (ct.code, ct.amount, ct.precise))) =
      some [("VAT", ⟨568, 2⟩, ⟨56791, 4⟩), ("IRPF", ⟨36, 2⟩, ⟨3620, 4⟩)] ∧
    (((calculate exactOps incDoc).toOption.bind (·.totals)).bind (·.taxes)).map
      (fun tx => tx.cats.map (fun ct => ct.rates.map (·.base))) =
      some [[⟨2584, 2⟩, ⟨241, 2⟩, ⟨67, 2⟩], [⟨241, 2⟩]] ∧
    (((calculate exactOps incDoc).toOption.bind (·.totals)).bind (·.taxes)).map
      (fun tx => tx.cats.map (fun ct => ct.rates.map (·.amount))) =
      some [[⟨543, 2⟩, ⟨25, 2⟩, ⟨0, 2⟩], [⟨36, 2⟩]] ∧
    (((calculate exactOps surDoc).toOption.bind (·.totals)).bind (·.taxes)).map
      (fun tx => tx.cats.map (fun ct => (ct.amount, ct.surcharge, ct.rates.map (·.base)))) =
      some [(⟨490, 2⟩, some ⟨121, 2⟩, [⟨2333, 2⟩])] ∧
    (((calculate exactOps surDoc).toOption.bind (·.totals)).bind (·.taxes)).map
      (fun tx => tx.cats.map (fun ct => (ct.rates.map (·.amount), ct.rates.map (fun rt => rt.surcharge.map (·.2))))) =
      some [([⟨490, 2⟩], [some ⟨121, 2⟩])] :=
  ⟨(inDocI_sound incDoc (by decide)).tax, (inDocI_sound surDoc (by decide)).tax, by decide, by decide, by decide,
    by decide, by decide, by decide⟩

/-- the two row theorems with the hypothesis and the exact quantities the model driver evaluates
(`Spec/C01.lean`: `inDocI`; `catAmountQ`, `catSurchargeQ`, `groupBaseQ` over `exactTaxRows`, written
there without reference to the proof files): every category amount / surcharge and every group base /
amount / surcharge of the presented summary is within half a minor unit plus its weight × half a unit
of the working precision of the exact value.  The check holds the real library's tax summary of every
generated document of the class to these bounds (driver request `taxrows`, counters
`tax-rows:…`). -/
theorem tax_rows_decided (d : Doc) (out : Out) (t : Totals) (hcls : inDocI d = true)
    (hcalc : calculate exactOps d = .ok out) (ht : out.totals = some t)
    (tx : TaxTotal) (htx : t.taxes = some tx) :
    (∀ k ct, tx.cats.find? (fun ct => ct.code == k) = some ct →
      |ct.amount.toRat - catAmountQ d k| ≤
        halfUlp d.c + ((ct.rates.length + rowsWL (kN (some k)) d.includes d : ℕ) : ℚ) * halfUlp (d.c + 2) ∧
      ∀ s, ct.surcharge = some s → |s.toRat - catSurchargeQ d k| ≤
        halfUlp d.c + ((ct.rates.length + rowsWL (kN (some k)) d.includes d : ℕ) : ℚ) * halfUlp (d.c + 2)) ∧
    (∀ ct ∈ tx.cats, ∀ rt ∈ ct.rates,
      |rt.base.toRat - groupBaseQ d ct.code (Spec.C02.keyOfRate rt)| ≤
        halfUlp d.c + (rowsWL (gN ct.code (Spec.C02.keyOfRate rt)) d.includes d : ℚ) * halfUlp (d.c + 2) ∧
      (∀ p, rt.percent = some p →
        |rt.amount.toRat - groupBaseQ d ct.code (Spec.C02.keyOfRate rt) * p.amount.toRat| ≤
          halfUlp d.c + (1 + |p.amount.toRat| * (rowsWL (gN ct.code (Spec.C02.keyOfRate rt)) d.includes d : ℚ)) * halfUlp (d.c + 2)) ∧
      (∀ p sp sa, rt.percent = some p → rt.surcharge = some (sp, sa) →
        |sa.toRat - groupBaseQ d ct.code (Spec.C02.keyOfRate rt) * sp.amount.toRat| ≤
          halfUlp d.c + (1 + |sp.amount.toRat| * (rowsWL (gN ct.code (Spec.C02.keyOfRate rt)) d.includes d : ℚ)) * halfUlp (d.c + 2))) := by
  have hd := (inDocI_sound d hcls).tax
  have tri : ∀ (a : Amount) (w q B : ℚ), presents d.c a w → |w - q| ≤ B → |a.toRat - q| ≤ halfUlp d.c + B := by
    intro a w q B hp hw
    have h1 := presents_err d.c a w hp
    have e : a.toRat - q = (a.toRat - w) + (w - q) := by ring
    rw [e]
    exact le_trans (abs_add_le _ _) (add_le_add h1 hw)
  refine ⟨?_, ?_⟩
  · intro k ct hf
    obtain ⟨h1, h2, ws, h3, h4⟩ := calc_tax_category_rows_spec (retOf d) d out t hd hcalc ht tx htx k ct hf
    rw [catExactQ_selP] at h2
    rw [catExactQ_selS] at h4
    refine ⟨tri _ _ _ _ h1 h2, ?_⟩
    intro s hs
    rw [h3] at hs
    simp only [Option.map_eq_some_iff] at hs
    obtain ⟨y, hy, rfl⟩ := hs
    rw [hy] at h4
    exact tri _ _ _ _ (presents_rescale d.c y) h4
  · intro ct hct rt hrt
    obtain ⟨bw, g1, g2, g3, g4⟩ := calc_tax_group_rows_spec (retOf d) d out t hd hcalc ht tx htx ct hct rt hrt
    rw [grpExactQ_eq] at g2 g3 g4
    refine ⟨tri _ _ _ _ g1 g2, ?_, ?_⟩
    · intro p hp
      obtain ⟨aw, a1, a2⟩ := g3 p hp
      exact tri _ _ _ _ a1 a2
    · intro p sp sa hp hs
      obtain ⟨sw, a1, a2⟩ := g4 p sp sa hp hs
      exact tri _ _ _ _ a1 a2

/-! ## tighter weights: the actual percentages

The weights of `calc_eq_spec` / `calc_eq_spec_included` bound every percentage by 100 %.  With the
actual percentages (`Spec/C01.lean`, rational weights): a document discount / charge that is `p` % of
the sum weighs `1 + |p|·sumW` (not `1 + sumW`), one that is a percentage of an explicit base weighs 1,
a fixed amount 0 (`adjRowWQ`); a tax combo carries `|percentage| + |surcharge percentage|` of its
row's error (`comboWQ`, not the number of combos), the included category `Σ |percentage|` (`kNQ`); an
advance of `p` % weighs `1 + |p|·twtWQ`, a fixed advance 0 (`advRowWQ`).  The line weights `lineW` and
the rounding points of the tax summary (`G`, `Gk`) are unchanged. -/

/-- **calc_eq_spec_tight** — `calc_eq_spec_included` with the tight weights (same class `DocCI`,
which contains `DocC`: `d.includes` may be `none`) -/
theorem calc_eq_spec_tight (ret : String → Bool) (d : Doc) (out : Out) (t : Totals) (hd : DocCI ret d)
    (hcalc : calculate exactOps d = .ok out) (ht : out.totals = some t) :
    ∃ w : Totals, t = roundTotals exactOps d.c w ∧
      (|w.sum.toRat - (exactQ d).sum| ≤ (sumW d.lines : ℚ) * halfUlp (d.c + 2) ∧
       |optQ w.discount - (exactQ d).discount| ≤ adjWQ (sumW d.lines) d.discounts * halfUlp (d.c + 2) ∧
       |optQ w.charge - (exactQ d).charge| ≤ adjWQ (sumW d.lines) d.charges * halfUlp (d.c + 2) ∧
       |optQ w.taxIncluded - (exactQ d).taxIncluded| ≤ incWQ d (incGroupsT d.includes t) * halfUlp (d.c + 2) ∧
       |w.total.toRat - (exactQ d).total| ≤ totalWQ d (incGroupsT d.includes t) * halfUlp (d.c + 2) ∧
       |w.tax.toRat - (exactQ d).tax| ≤ taxWQ d (groupsT t) * halfUlp (d.c + 2) ∧
       |w.totalWithTax.toRat - (exactQ d).totalWithTax| ≤
         twtWQ d (groupsT t) (incGroupsT d.includes t) * halfUlp (d.c + 2) ∧
       |w.payable.toRat - (exactQ d).payable| ≤
         twtWQ d (groupsT t) (incGroupsT d.includes t) * halfUlp (d.c + 2) ∧
       |optQ w.advances - (exactQ d).advances| ≤
         advWQ d (groupsT t) (incGroupsT d.includes t) * halfUlp (d.c + 2) ∧
       (∀ y, w.due = some y → |y.toRat - (exactQ d).due| ≤
         dueWQ d (groupsT t) (incGroupsT d.includes t) * halfUlp (d.c + 2))) := by
  obtain ⟨p, tx, hpre, htx, _, htr⟩ := calculate_unpack d out t hcalc ht
  have hG : groupsT t = groupsOf tx.cats := by rw [htr]; exact groupsT_round d p tx
  have hGk : incGroupsT d.includes t = incGroupsOf d.includes tx.cats := by rw [htr]; exact groupsT_round_inc d p tx
  obtain ⟨w1, w2, w3, w4, w5, w6, w7, w8, w9, w10, _⟩ := working_spec_incQ d p tx hd hpre htx
  refine ⟨rawTotals exactOps d p tx, htr, ?_⟩
  rw [hG, hGk]
  exact ⟨w1, w2, w3, w4, w5, w6, w7, w8, w9, w10⟩

/-- **the explicit bound with the tight weights** — class `DocCI`: every presented total is within
half a minor unit plus `dueWQ` half-units of the working precision of the exact rational value -/
theorem tight_explicit_bound (ret : String → Bool) (d : Doc) (out : Out) (t : Totals) (hd : DocCI ret d)
    (hcalc : calculate exactOps d = .ok out) (ht : out.totals = some t) :
    let B := halfUlp d.c + dueWQ d (groupsT t) (incGroupsT d.includes t) * halfUlp (d.c + 2)
    |t.sum.toRat - (exactQ d).sum| ≤ B ∧ |t.total.toRat - (exactQ d).total| ≤ B ∧
    |t.tax.toRat - (exactQ d).tax| ≤ B ∧ |t.totalWithTax.toRat - (exactQ d).totalWithTax| ≤ B ∧
    |t.payable.toRat - (exactQ d).payable| ≤ B ∧
    (∀ x, t.taxIncluded = some x → |x.toRat - (exactQ d).taxIncluded| ≤ B) ∧
    (∀ x, t.discount = some x → |x.toRat - (exactQ d).discount| ≤ B) ∧
    (∀ x, t.charge = some x → |x.toRat - (exactQ d).charge| ≤ B) ∧
    (∀ x, t.advances = some x → |x.toRat - (exactQ d).advances| ≤ B) ∧
    (∀ x, t.due = some x → |x.toRat - (exactQ d).due| ≤ B) := by
  intro B
  obtain ⟨w, htr, b1, b2, b3, bi, b4, b5, b6, b7, b8, b9⟩ := calc_eq_spec_tight ret d out t hd hcalc ht
  obtain ⟨m1, m2, m3, m4, m5, m6, m7, m8, m9⟩ := weightsQ_le d (groupsT t) (incGroupsT d.includes t)
  set D := dueWQ d (groupsT t) (incGroupsT d.includes t)
  have h0 := halfUlp_nonneg (d.c + 2)
  have hs : ∀ (a : Amount) (q n : ℚ), n ≤ D → |a.toRat - q| ≤ n * halfUlp (d.c + 2) →
      |(a.rescaleX d.c).toRat - q| ≤ B := by
    intro a q n hle h
    have h1 := rescaleX_err a d.c
    have h2 := mul_le_mul_of_nonneg_right hle h0
    have e : (a.rescaleX d.c).toRat - q = ((a.rescaleX d.c).toRat - a.toRat) + (a.toRat - q) := by ring
    rw [e]
    refine le_trans (abs_add_le _ _) ?_
    show _ ≤ halfUlp d.c + D * halfUlp (d.c + 2)
    linarith
  have ho : ∀ (o : Option Amount) (q n : ℚ), n ≤ D → |optQ o - q| ≤ n * halfUlp (d.c + 2) →
      ∀ x, o.map (exactOps.rescale · d.c) = some x → |x.toRat - q| ≤ B := by
    intro o q n hle h x hx
    simp only [Option.map_eq_some_iff] at hx
    obtain ⟨y, hy, rfl⟩ := hx
    rw [hy] at h
    exact hs y q n hle h
  rw [htr]
  refine ⟨hs _ _ _ m1 b1, hs _ _ _ m5 b4, hs _ _ _ m6 b5, hs _ _ _ m7 b6, hs _ _ _ m7 b7,
    ho _ _ _ m4 bi, ho _ _ _ m2 b2, ho _ _ _ m3 b3, ho _ _ _ m8 b8, ?_⟩
  intro x hx
  have hx' : w.due.map (exactOps.rescale · d.c) = some x := hx
  simp only [Option.map_eq_some_iff] at hx'
  obtain ⟨y, hy, rfl⟩ := hx'
  exact hs y _ _ (le_refl _) (b9 y hy)

/-- the same with the hypotheses the model driver evaluates (`inDocI`, `docWeightQ`): the bound the
check holds the real library's output to, for every generated document of the class -/
theorem decided_class_bound_tight (d : Doc) (out : Out) (t : Totals) (hcls : inDocI d = true)
    (hcalc : calculate exactOps d = .ok out) (ht : out.totals = some t) :
    let B := halfUlp d.c + docWeightQ d * halfUlp (d.c + 2)
    |t.sum.toRat - (exactQ d).sum| ≤ B ∧ |t.total.toRat - (exactQ d).total| ≤ B ∧
    |t.tax.toRat - (exactQ d).tax| ≤ B ∧ |t.totalWithTax.toRat - (exactQ d).totalWithTax| ≤ B ∧
    |t.payable.toRat - (exactQ d).payable| ≤ B ∧
    (∀ x, t.taxIncluded = some x → |x.toRat - (exactQ d).taxIncluded| ≤ B) ∧
    (∀ x, t.discount = some x → |x.toRat - (exactQ d).discount| ≤ B) ∧
    (∀ x, t.charge = some x → |x.toRat - (exactQ d).charge| ≤ B) ∧
    (∀ x, t.advances = some x → |x.toRat - (exactQ d).advances| ≤ B) ∧
    (∀ x, t.due = some x → |x.toRat - (exactQ d).due| ≤ B) := by
  rw [docWeightQ_eq d out t hcalc ht]
  exact tight_explicit_bound (retOf d) d out t (inDocI_sound d hcls) hcalc ht

/-- **precise_error_lt_unit_tight** — class `DocCI`, tight weight of the amount due below 100:
every presented total is less than one minor currency unit from the exact rational value -/
theorem precise_error_lt_unit_tight (ret : String → Bool) (d : Doc) (out : Out) (t : Totals) (hd : DocCI ret d)
    (hn : dueWQ d (groupsT t) (incGroupsT d.includes t) < 100)
    (hcalc : calculate exactOps d = .ok out) (ht : out.totals = some t) :
    let U := 1 / ((pow10 d.c : ℤ) : ℚ)
    |t.sum.toRat - (exactQ d).sum| < U ∧ |t.total.toRat - (exactQ d).total| < U ∧
    |t.tax.toRat - (exactQ d).tax| < U ∧ |t.totalWithTax.toRat - (exactQ d).totalWithTax| < U ∧
    |t.payable.toRat - (exactQ d).payable| < U ∧
    (∀ x, t.taxIncluded = some x → |x.toRat - (exactQ d).taxIncluded| < U) ∧
    (∀ x, t.discount = some x → |x.toRat - (exactQ d).discount| < U) ∧
    (∀ x, t.charge = some x → |x.toRat - (exactQ d).charge| < U) ∧
    (∀ x, t.advances = some x → |x.toRat - (exactQ d).advances| < U) ∧
    (∀ x, t.due = some x → |x.toRat - (exactQ d).due| < U) := by
  intro U
  have hb := tight_explicit_bound ret d out t hd hcalc ht
  simp only at hb
  have hp := p10q_pos d.c
  have hp2 : ((pow10 (d.c + 2) : ℤ) : ℚ) = ((pow10 d.c : ℤ) : ℚ) * 100 := by
    unfold pow10; push_cast; ring
  have hu2 : halfUlp (d.c + 2) = 1 / (200 * ((pow10 d.c : ℤ) : ℚ)) := by
    unfold halfUlp; rw [hp2]; ring
  have hu : halfUlp d.c = 1 / (2 * ((pow10 d.c : ℤ) : ℚ)) := rfl
  have hlt : halfUlp d.c + dueWQ d (groupsT t) (incGroupsT d.includes t) * halfUlp (d.c + 2) < U := by
    have hpos200 : (0 : ℚ) < 1 / (200 * ((pow10 d.c : ℤ) : ℚ)) := by positivity
    have h1 := mul_lt_mul_of_pos_right hn hpos200
    rw [hu, hu2]
    have : 1 / (2 * ((pow10 d.c : ℤ) : ℚ)) + 100 * (1 / (200 * ((pow10 d.c : ℤ) : ℚ))) = U := by
      show _ = 1 / ((pow10 d.c : ℤ) : ℚ)
      field_simp
      ring
    linarith
  obtain ⟨a1, a2, a3, a4, a5, a6, a7, a8, a9, a10⟩ := hb
  exact ⟨lt_of_le_of_lt a1 hlt, lt_of_le_of_lt a2 hlt, lt_of_le_of_lt a3 hlt, lt_of_le_of_lt a4 hlt,
    lt_of_le_of_lt a5 hlt, fun x hx => lt_of_le_of_lt (a6 x hx) hlt, fun x hx => lt_of_le_of_lt (a7 x hx) hlt,
    fun x hx => lt_of_le_of_lt (a8 x hx) hlt, fun x hx => lt_of_le_of_lt (a9 x hx) hlt,
    fun x hx => lt_of_le_of_lt (a10 x hx) hlt⟩

/-- non-vacuity of the tight theorems, and how much tighter: `incDoc` 20.266 instead of 97 (tax
5.56 instead of 20, included tax 4.26 instead of 17), `payDoc` 19.1675 instead of 99, `adjDoc` 13.975
instead of 49, `surDoc` 3.262 instead of 5 -/
example : inDocI incDoc = true ∧ inDocI payDoc = true ∧ inDocI adjDoc = true ∧ inDocI surDoc = true ∧
    docWeightQ incDoc = 10133 / 500 ∧ docWeightI incDoc = 97 ∧ docWeightQ payDoc = 7667 / 400 ∧
    docWeight payDoc = 99 ∧ docWeightQ adjDoc = 559 / 40 ∧ docWeightQ surDoc = 1631 / 500 ∧
    ((calculate exactOps incDoc).toOption.bind (·.totals)).map
      (fun t => (taxWQ incDoc (groupsT t), incWQ incDoc (incGroupsT incDoc.includes t))) =
      some (139 / 25, 213 / 50) := by
  refine ⟨by decide, by decide, by decide, by decide, by decide +kernel, by decide, by decide +kernel, by decide,
    by decide +kernel, by decide +kernel, by decide +kernel⟩

/-! ## pinned source shapes (regenerated facts; tools/pin_calc_expect.py) -/

namespace ExpectCalc
open GoblVerif.Generated.Calc

theorem calls_calculateLines_as_modelled : calls_calculateLines =
    ["calculateLine", "Itoa"] := rfl
theorem conds_calculateLines_as_modelled : conds_calculateLines =
    ["err := calculateLine(l, cur, rates, rr); err != nil"] := rfl
theorem stmts_calculateLines_as_modelled : stmts_calculateLines =
    ["l.Index = i + 1", "err := calculateLine(l, cur, rates, rr)", "return validation.Errors{strconv.Itoa(i): err}", "return nil"] := rfl
theorem calls_calculateLine_as_modelled : calls_calculateLine =
    ["Zero", "Def", "len", "calculateSubLine", "Itoa", "len", "calculateSubLine", "Itoa", "Add", "MatchPrecision", "Rescale", "determineSubLinePrecision", "calculateLineItemPrice", "Exp", "RescaleUp", "Multiply", "ApplyRoundingRule", "calculateLineDiscounts", "calculateLineCharges"] := rfl
theorem conds_calculateLine_as_modelled : conds_calculateLine =
    ["l.Item == nil", "len(l.Substituted) > 0", "err := calculateSubLine(sl, cur, rates, rr); err != nil", "len(l.Breakdown) > 0", "err := calculateSubLine(sl, cur, rates, rr); err != nil", "sl.Total != nil", "hasPrice", "l.Item.Price == nil", "err := calculateLineItemPrice(l.Item, cur, rates); err != nil", "rr == tax.RoundingRulePrecise"] := rfl
theorem stmts_calculateLine_as_modelled : stmts_calculateLine =
    ["return nil", "zero := cur.Def().Zero()", "sl.Index = i + 1", "err := calculateSubLine(sl, cur, rates, rr)", "return validation.Errors{ \"substituted\": validation.Errors{strconv.Itoa(i): err}, }", "np := zero", "hasPrice := false", "sl.Index = i + 1", "err := calculateSubLine(sl, cur, rates, rr)", "return validation.Errors{ \"breakdown\": validation.Errors{strconv.Itoa(i): err}, }", "hasPrice = true", "np = np.MatchPrecision(*sl.Total).Add(*sl.Total)", "np = np.Rescale(determineSubLinePrecision(l.Breakdown))", "l.Item.Currency = cur", "l.Item.Price = &np", "l.Item.AltPrices = nil", "l.Item.AltPrices = nil", "l.Sum = nil", "l.Total = nil", "return nil", "err := calculateLineItemPrice(l.Item, cur, rates)", "return validation.Errors{ \"item\": err, }", "exp := zero.Exp()", "exp += linePrecisionExtra", "price := l.Item.Price.RescaleUp(exp)", "sum := price.Multiply(l.Quantity)", "sum = tax.ApplyRoundingRule(rr, cur, sum)", "total := sum", "total = calculateLineDiscounts(l.Discounts, sum, total, cur, rr)", "total = calculateLineCharges(l.Charges, l.Quantity, sum, total, cur, rr)", "l.Sum = &sum", "l.Total = &total", "return nil"] := rfl
theorem calls_calculateSubLine_as_modelled : calls_calculateSubLine =
    ["calculateLineItemPrice", "Zero", "Def", "RescaleUp", "Exp", "Multiply", "ApplyRoundingRule", "calculateLineDiscounts", "calculateLineCharges"] := rfl
theorem conds_calculateSubLine_as_modelled : conds_calculateSubLine =
    ["sl.Item == nil", "sl.Item.Price == nil", "err := calculateLineItemPrice(sl.Item, cur, rates); err != nil", "rr == tax.RoundingRulePrecise"] := rfl
theorem stmts_calculateSubLine_as_modelled : stmts_calculateSubLine =
    ["return nil", "sl.Sum = nil", "sl.Total = nil", "return nil", "err := calculateLineItemPrice(sl.Item, cur, rates)", "return err", "zero := cur.Def().Zero()", "price := *sl.Item.Price", "price = price.RescaleUp(zero.Exp() + linePrecisionExtra)", "sum := price.Multiply(sl.Quantity)", "sum = tax.ApplyRoundingRule(rr, cur, sum)", "total := sum", "total = calculateLineDiscounts(sl.Discounts, sum, total, cur, rr)", "total = calculateLineCharges(sl.Charges, sl.Quantity, sum, total, cur, rr)", "sl.Sum = &sum", "sl.Total = &total", "return nil"] := rfl
theorem calls_calculateLineItemPrice_as_modelled : calls_calculateLineItemPrice =
    ["Def", "Errorf", "MatchPrecision", "Zero", "Def", "MatchPrecision", "Zero", "Def", "Convert", "Errorf"] := rfl
theorem conds_calculateLineItemPrice_as_modelled : conds_calculateLineItemPrice =
    ["icur == currency.CodeEmpty", "icur.Def() == nil", "item.Currency == currency.CodeEmpty || item.Currency == cur", "ap.Currency == cur", "np == nil"] := rfl
theorem stmts_calculateLineItemPrice_as_modelled : stmts_calculateLineItemPrice =
    ["icur := item.Currency", "icur = cur", "return fmt.Errorf(\"invalid currency '%v'\", icur)", "price := item.Price.MatchPrecision(icur.Def().Zero())", "item.Price = &price", "return nil", "nap := &currency.Amount{ Currency: item.Currency, Value: price, }", "item.Currency = ap.Currency", "price = ap.Value.MatchPrecision(ap.Currency.Def().Zero())", "item.Price = &price", "item.AltPrices = []*currency.Amount{nap}", "return nil", "np := currency.Convert(rates, item.Currency, cur, price)", "return fmt.Errorf(\"no exchange rate found from '%v' to '%v'\", item.Currency, cur)", "item.Price = np", "item.Currency = cur", "item.AltPrices = []*currency.Amount{nap}", "return nil"] := rfl
theorem calls_calculateLineDiscounts_as_modelled : calls_calculateLineDiscounts =
    ["Def", "IsZero", "RescaleUp", "RescaleUp", "ApplyRoundingRule", "Of", "RescaleUp", "Subtract"] := rfl
theorem conds_calculateLineDiscounts_as_modelled : conds_calculateLineDiscounts =
    ["d.Percent != nil && !d.Percent.IsZero()", "d.Base != nil"] := rfl
theorem stmts_calculateLineDiscounts_as_modelled : stmts_calculateLineDiscounts =
    ["cd := cur.Def()", "base := sum", "b := d.Base.RescaleUp(cd.Subunits)", "d.Base = &b", "base = d.Base.RescaleUp(cd.Subunits + linePrecisionExtra)", "base = tax.ApplyRoundingRule(rr, cur, base)", "d.Amount = d.Percent.Of(base)", "d.Amount = cd.RescaleUp(d.Amount)", "total = total.Subtract(d.Amount)", "return total"] := rfl
theorem calls_calculateLineCharges_as_modelled : calls_calculateLineCharges =
    ["Def", "IsZero", "RescaleUp", "RescaleUp", "ApplyRoundingRule", "Of", "Multiply", "RescaleUp", "Add"] := rfl
theorem conds_calculateLineCharges_as_modelled : conds_calculateLineCharges =
    ["c.Percent != nil && !c.Percent.IsZero()", "c.Base != nil", "c.Rate != nil", "c.Quantity != nil"] := rfl
theorem stmts_calculateLineCharges_as_modelled : stmts_calculateLineCharges =
    ["cd := cur.Def()", "base := sum", "b := c.Base.RescaleUp(cd.Subunits)", "c.Base = &b", "base = c.Base.RescaleUp(cd.Subunits + linePrecisionExtra)", "base = tax.ApplyRoundingRule(rr, cur, base)", "c.Amount = c.Percent.Of(base)", "q := quantity", "q = *c.Quantity", "c.Amount = c.Rate.Multiply(q)", "c.Amount = cd.RescaleUp(c.Amount)", "total = total.Add(c.Amount)", "return total"] := rfl
theorem calls_calculateLineSum_as_modelled : calls_calculateLineSum =
    ["Zero", "Def", "MatchPrecision", "Add"] := rfl
theorem conds_calculateLineSum_as_modelled : conds_calculateLineSum =
    ["l.Total != nil"] := rfl
theorem stmts_calculateLineSum_as_modelled : stmts_calculateLineSum =
    ["sum := cur.Def().Zero()", "sum = sum.MatchPrecision(*l.Total)", "sum = sum.Add(*l.Total)", "return sum"] := rfl
theorem calls_determineSubLinePrecision_as_modelled : calls_determineSubLinePrecision =
    ["uint32", "Exp"] := rfl
theorem conds_determineSubLinePrecision_as_modelled : conds_determineSubLinePrecision =
    ["sl.Item == nil || sl.Item.Price == nil", "x > e"] := rfl
theorem stmts_determineSubLinePrecision_as_modelled : stmts_determineSubLinePrecision =
    ["e := uint32(0)", "x := sl.Item.Price.Exp()", "e = x", "return e"] := rfl
theorem calls_ApplyRoundingRule_as_modelled : calls_ApplyRoundingRule =
    ["Def", "Rescale", "RescaleUp"] := rfl
theorem conds_ApplyRoundingRule_as_modelled : conds_ApplyRoundingRule =
    [] := rfl
theorem stmts_ApplyRoundingRule_as_modelled : stmts_ApplyRoundingRule =
    ["exp := cur.Def().Subunits", "return amount.Rescale(exp)", "return amount.RescaleUp(exp)"] := rfl
theorem calls_Amount_RescaleUp_as_modelled : calls_Amount_RescaleUp =
    ["Rescale"] := rfl
theorem conds_Amount_RescaleUp_as_modelled : conds_Amount_RescaleUp =
    ["exp > a.exp"] := rfl
theorem stmts_Amount_RescaleUp_as_modelled : stmts_Amount_RescaleUp =
    ["return a.Rescale(exp)", "return a"] := rfl
theorem calls_Amount_RescaleDown_as_modelled : calls_Amount_RescaleDown =
    ["Rescale"] := rfl
theorem conds_Amount_RescaleDown_as_modelled : conds_Amount_RescaleDown =
    ["exp < a.exp"] := rfl
theorem stmts_Amount_RescaleDown_as_modelled : stmts_Amount_RescaleDown =
    ["return a.Rescale(exp)", "return a"] := rfl
theorem calls_Amount_MatchPrecision_as_modelled : calls_Amount_MatchPrecision =
    ["RescaleUp"] := rfl
theorem conds_Amount_MatchPrecision_as_modelled : conds_Amount_MatchPrecision =
    [] := rfl
theorem stmts_Amount_MatchPrecision_as_modelled : stmts_Amount_MatchPrecision =
    ["return a.RescaleUp(a2.exp)"] := rfl
theorem calls_Amount_Upscale_as_modelled : calls_Amount_Upscale =
    ["Rescale", "Exp"] := rfl
theorem conds_Amount_Upscale_as_modelled : conds_Amount_Upscale =
    [] := rfl
theorem stmts_Amount_Upscale_as_modelled : stmts_Amount_Upscale =
    ["return a.Rescale(a.Exp() + increase)"] := rfl
theorem calls_Percentage_Of_as_modelled : calls_Percentage_Of =
    ["Multiply"] := rfl
theorem conds_Percentage_Of_as_modelled : conds_Percentage_Of =
    [] := rfl
theorem stmts_Percentage_Of_as_modelled : stmts_Percentage_Of =
    ["return a.Multiply(p.amount)"] := rfl
theorem calls_Percentage_From_as_modelled : calls_Percentage_From =
    ["Divide", "Factor", "Subtract"] := rfl
theorem conds_Percentage_From_as_modelled : conds_Percentage_From =
    [] := rfl
theorem stmts_Percentage_From_as_modelled : stmts_Percentage_From =
    ["x := a.Divide(p.Factor())", "return a.Subtract(x)"] := rfl
theorem calls_Percentage_Factor_as_modelled : calls_Percentage_Factor =
    ["Add"] := rfl
theorem conds_Percentage_Factor_as_modelled : conds_Percentage_Factor =
    [] := rfl
theorem stmts_Percentage_Factor_as_modelled : stmts_Percentage_Factor =
    ["return p.amount.Add(factor1)"] := rfl

end ExpectCalc

/-! ## the tie to the source: regenerated definitions of /repo/bill and /repo/pay

  `Generated/BillCalcSrc.lean` and `Generated/PayCalcSrc.lean` are the go2lean
  translations (harness/cmd/extract/billcalcsrc.go, go2lean_effects.go) of the
  calculation functions of bill/line_calculate.go, discounts.go, charges.go,
  totals.go, payment_details.go, pay/advance.go and pay/terms.go AS THEY STAND
  NOW.  Every definition is proved equal to the function of Model/Calc.lean it
  corresponds to, for all arguments and for every `Ops` (so for `exactOps`, which
  the theorems are about, and for `floatOps`, which the differential run uses);
  `sub` is the currency table (`currency.Code.Def().Subunits`).  The four
  error-returning functions (calculateLineItemPrice, calculateSubLine,
  calculateLine, calculateLines) are Except-valued (B20) and proved equal to the
  model too (B20, B22; the two line functions for lines without substituted
  sub-lines, which the model does not have).  Not translated (it stays on the
  shape pins of `ExpectCalc` and the differential run): bill.calculate itself. -/
namespace Src
open GoblVerif.Generated GoblVerif.CalcSrc GoblVerif.Proofs.BillCalcSrc

/-! ### the translation is complete; struct declarations, assumptions and primitives as reviewed -/

theorem all_translated : BillCalcSrc.untranslated = [] ∧ PayCalcSrc.untranslated = [] := by decide

theorem struct_BillCalcSrc_Charge_as_mapped :
    BillCalcSrc.struct_Charge = [("Identify", "uuid.Identify"), ("Index", "int"), ("Key", "cbc.Key"), ("Code", "cbc.Code"), ("Reason", "string"), ("Base", "*num.Amount"), ("Percent", "*num.Percentage"), ("Amount", "num.Amount"), ("Taxes", "tax.Set"), ("Ext", "tax.Extensions"), ("Meta", "cbc.Meta")] ∧
    BillCalcSrc.structLean_Charge = ("GoblVerif.Calc.DocAdj", ["base", "percent", "amount", "taxes"]) ∧
    BillCalcSrc.structOmitted_Charge = ["Identify", "Index", "Key", "Code", "Reason", "Ext", "Meta"] := by decide

theorem struct_BillCalcSrc_Discount_as_mapped :
    BillCalcSrc.struct_Discount = [("Identify", "uuid.Identify"), ("Index", "int"), ("Key", "cbc.Key"), ("Code", "cbc.Code"), ("Reason", "string"), ("Base", "*num.Amount"), ("Percent", "*num.Percentage"), ("Amount", "num.Amount"), ("Taxes", "tax.Set"), ("Ext", "tax.Extensions"), ("Meta", "cbc.Meta")] ∧
    BillCalcSrc.structLean_Discount = ("GoblVerif.Calc.DocAdj", ["base", "percent", "amount", "taxes"]) ∧
    BillCalcSrc.structOmitted_Discount = ["Identify", "Index", "Key", "Code", "Reason", "Ext", "Meta"] := by decide

theorem struct_BillCalcSrc_LineCharge_as_mapped :
    BillCalcSrc.struct_LineCharge = [("Key", "cbc.Key"), ("Code", "cbc.Code"), ("Reason", "string"), ("Base", "*num.Amount"), ("Percent", "*num.Percentage"), ("Quantity", "*num.Amount"), ("Unit", "org.Unit"), ("Rate", "*num.Amount"), ("Amount", "num.Amount"), ("Ext", "tax.Extensions")] ∧
    BillCalcSrc.structLean_LineCharge = ("GoblVerif.Calc.LineAdj", ["base", "percent", "quantity", "rate", "amount"]) ∧
    BillCalcSrc.structOmitted_LineCharge = ["Key", "Code", "Reason", "Unit", "Ext"] := by decide

theorem struct_BillCalcSrc_LineDiscount_as_mapped :
    BillCalcSrc.struct_LineDiscount = [("Key", "cbc.Key"), ("Code", "cbc.Code"), ("Reason", "string"), ("Base", "*num.Amount"), ("Percent", "*num.Percentage"), ("Amount", "num.Amount"), ("Ext", "tax.Extensions")] ∧
    BillCalcSrc.structLean_LineDiscount = ("LineDiscount", ["Base", "Percent", "Amount"]) ∧
    BillCalcSrc.structOmitted_LineDiscount = ["Key", "Code", "Reason", "Ext"] := by decide

theorem struct_BillCalcSrc_org_Item_as_mapped :
    BillCalcSrc.struct_org_Item = [("Identify", "uuid.Identify"), ("Ref", "cbc.Code"), ("Key", "cbc.Key"), ("Name", "string"), ("Identities", "[]*org.Identity"), ("Description", "string"), ("Currency", "currency.Code"), ("Price", "*num.Amount"), ("AltPrices", "[]*currency.Amount"), ("Unit", "org.Unit"), ("Origin", "l10n.ISOCountryCode"), ("Ext", "tax.Extensions"), ("Meta", "cbc.Meta")] ∧
    BillCalcSrc.structLean_org_Item = ("Item", ["Currency", "Price", "AltPrices"]) ∧
    BillCalcSrc.structOmitted_org_Item = ["Identify", "Ref", "Key", "Name", "Identities", "Description", "Unit", "Origin", "Ext", "Meta"] := by decide

theorem struct_BillCalcSrc_currency_Amount_as_mapped :
    BillCalcSrc.struct_currency_Amount = [("Label", "string"), ("Currency", "currency.Code"), ("Value", "num.Amount")] ∧
    BillCalcSrc.structLean_currency_Amount = ("CurAmount", ["Currency", "Value"]) ∧
    BillCalcSrc.structOmitted_currency_Amount = ["Label"] := by decide

theorem struct_BillCalcSrc_SubLine_as_mapped :
    BillCalcSrc.struct_SubLine = [("Identify", "uuid.Identify"), ("Index", "int"), ("Quantity", "num.Amount"), ("Identifier", "*org.Identity"), ("Period", "*cal.Period"), ("Order", "cbc.Code"), ("Cost", "cbc.Code"), ("Item", "*org.Item"), ("Sum", "*num.Amount"), ("Discounts", "[]*LineDiscount"), ("Charges", "[]*LineCharge"), ("Total", "*num.Amount"), ("Notes", "[]*org.Note")] ∧
    BillCalcSrc.structLean_SubLine = ("SubLine", ["Quantity", "Item", "Sum", "Discounts", "Charges", "Total"]) ∧
    BillCalcSrc.structOmitted_SubLine = ["Identify", "Index", "Identifier", "Period", "Order", "Cost", "Notes"] := by decide

theorem struct_BillCalcSrc_Line_as_mapped :
    BillCalcSrc.struct_Line = [("Identify", "uuid.Identify"), ("Index", "int"), ("Quantity", "num.Amount"), ("Identifier", "*org.Identity"), ("Period", "*cal.Period"), ("Order", "cbc.Code"), ("Cost", "cbc.Code"), ("Item", "*org.Item"), ("Breakdown", "[]*SubLine"), ("Sum", "*num.Amount"), ("Discounts", "[]*LineDiscount"), ("Charges", "[]*LineCharge"), ("Taxes", "tax.Set"), ("Total", "*num.Amount"), ("Substituted", "[]*SubLine"), ("Notes", "[]*org.Note")] ∧
    BillCalcSrc.structLean_Line = ("Line", ["Quantity", "Item", "Breakdown", "Sum", "Discounts", "Charges", "Taxes", "Total", "Substituted"]) ∧
    BillCalcSrc.structOmitted_Line = ["Identify", "Index", "Identifier", "Period", "Order", "Cost", "Notes"] := by decide

theorem struct_BillCalcSrc_pay_Advance_as_mapped :
    BillCalcSrc.struct_pay_Advance = [("Identify", "uuid.Identify"), ("Date", "*cal.Date"), ("Key", "cbc.Key"), ("Ref", "string"), ("Grant", "bool"), ("Description", "string"), ("Percent", "*num.Percentage"), ("Amount", "num.Amount"), ("Currency", "currency.Code"), ("Card", "*pay.Card"), ("CreditTransfer", "*pay.CreditTransfer"), ("Ext", "tax.Extensions"), ("Meta", "cbc.Meta")] ∧
    BillCalcSrc.structLean_pay_Advance = ("GoblVerif.Calc.Advance", ["percent", "amount"]) ∧
    BillCalcSrc.structOmitted_pay_Advance = ["Identify", "Date", "Key", "Ref", "Grant", "Description", "Currency", "Card", "CreditTransfer", "Ext", "Meta"] := by decide

theorem struct_BillCalcSrc_PaymentDetails_as_mapped :
    BillCalcSrc.struct_PaymentDetails = [("Payee", "*org.Party"), ("Terms", "*pay.Terms"), ("Advances", "[]*pay.Advance"), ("Instructions", "*pay.Instructions")] ∧
    BillCalcSrc.structLean_PaymentDetails = ("PaymentDetails", ["Advances"]) ∧
    BillCalcSrc.structOmitted_PaymentDetails = ["Payee", "Terms", "Instructions"] := by decide

theorem struct_BillCalcSrc_Totals_as_mapped :
    BillCalcSrc.struct_Totals = [("Sum", "num.Amount"), ("Discount", "*num.Amount"), ("Charge", "*num.Amount"), ("TaxIncluded", "*num.Amount"), ("Total", "num.Amount"), ("Taxes", "*tax.Total"), ("Tax", "num.Amount"), ("TotalWithTax", "num.Amount"), ("Rounding", "*num.Amount"), ("Payable", "num.Amount"), ("Advances", "*num.Amount"), ("Due", "*num.Amount")] ∧
    BillCalcSrc.structLean_Totals = ("GoblVerif.Calc.Totals", ["sum", "discount", "charge", "taxIncluded", "total", "taxes", "tax", "totalWithTax", "rounding", "payable", "advances", "due"]) ∧
    BillCalcSrc.structOmitted_Totals = [] := by decide

theorem struct_PayCalcSrc_Advance_as_mapped :
    PayCalcSrc.struct_Advance = [("Identify", "uuid.Identify"), ("Date", "*cal.Date"), ("Key", "cbc.Key"), ("Ref", "string"), ("Grant", "bool"), ("Description", "string"), ("Percent", "*num.Percentage"), ("Amount", "num.Amount"), ("Currency", "currency.Code"), ("Card", "*Card"), ("CreditTransfer", "*CreditTransfer"), ("Ext", "tax.Extensions"), ("Meta", "cbc.Meta")] ∧
    PayCalcSrc.structLean_Advance = ("GoblVerif.Calc.Advance", ["percent", "amount"]) ∧
    PayCalcSrc.structOmitted_Advance = ["Identify", "Date", "Key", "Ref", "Grant", "Description", "Currency", "Card", "CreditTransfer", "Ext", "Meta"] := by decide

theorem struct_PayCalcSrc_DueDate_as_mapped :
    PayCalcSrc.struct_DueDate = [("Date", "*cal.Date"), ("Notes", "string"), ("Amount", "num.Amount"), ("Percent", "*num.Percentage"), ("Currency", "currency.Code")] ∧
    PayCalcSrc.structLean_DueDate = ("GoblVerif.Calc.Due", ["amount", "percent"]) ∧
    PayCalcSrc.structOmitted_DueDate = ["Date", "Notes", "Currency"] := by decide

theorem struct_PayCalcSrc_Terms_as_mapped :
    PayCalcSrc.struct_Terms = [("Key", "cbc.Key"), ("Detail", "string"), ("DueDates", "[]*DueDate"), ("Notes", "string"), ("Ext", "tax.Extensions")] ∧
    PayCalcSrc.structLean_Terms = ("Terms", ["DueDates"]) ∧
    PayCalcSrc.structOmitted_Terms = ["Key", "Detail", "Notes", "Ext"] := by decide

/-- what the translation assumes beyond its general reading of Go: nil-free
    slices, which parameters are returned, the effect loops (distinct pointees that
    nobody else holds), the `*t.X = v` writes of `Totals.round`, the dropped writes
    to `Index` (not represented), the calls whose results are stored back, `&x`
    of locals assigned only before, the primitives (methods of num.Amount,
    num.Percentage, currency.Def and tax.ApplyRoundingRule as the operations of
    Model/Calc.lean); no unsigned subtraction, no condition-controlled loop, no map -/
theorem assumptions_BillCalcSrc_as_reviewed :
    BillCalcSrc.translated = ["calculateLineSum", "calculateLineDiscounts", "calculateLineCharges", "determineSubLinePrecision", "LineDiscount.round", "LineCharge.round", "SubLine.round", "Line.round", "roundLines", "calculateDiscounts", "calculateDiscountSum", "Discount.round", "roundDiscounts", "calculateCharges", "calculateChargeSum", "Charge.round", "roundCharges", "Totals.reset", "Totals.round", "PaymentDetails.calculateAdvances", "PaymentDetails.totalAdvance", "calculateLineItemPrice", "calculateSubLine", "calculateLine", "calculateLines"] ∧
    BillCalcSrc.nonNilElems = ["[]*Charge", "[]*Discount", "[]*Line", "[]*LineCharge", "[]*LineDiscount", "[]*SubLine", "[]*currency.Amount", "[]*currency.ExchangeRate", "[]*pay.Advance"] ∧
    BillCalcSrc.inOutParams = [("calculateLineDiscounts", "discounts"), ("calculateLineCharges", "charges"), ("LineDiscount.round", "d"), ("LineCharge.round", "c"), ("SubLine.round", "sl"), ("Line.round", "l"), ("roundLines", "lines"), ("calculateDiscounts", "lines"), ("Discount.round", "m"), ("roundDiscounts", "lines"), ("calculateCharges", "lines"), ("Charge.round", "m"), ("roundCharges", "lines"), ("Totals.reset", "t"), ("Totals.round", "t"), ("PaymentDetails.calculateAdvances", "p"), ("PaymentDetails.totalAdvance", "p"), ("calculateLineItemPrice", "item"), ("calculateSubLine", "sl"), ("calculateLine", "l"), ("calculateLines", "lines")] ∧
    BillCalcSrc.effectPrimitives = [("pay.Advance.CalculateFrom", "GoblVerif.Generated.PayCalcSrc.Advance_CalculateFrom o sub {0} {1}")] ∧
    BillCalcSrc.contextParams = [("o", "GoblVerif.Calc.Ops"), ("sub", "String → Nat")] ∧
    BillCalcSrc.effectLoops = [("calculateLineDiscounts", "discounts"), ("calculateLineCharges", "charges"), ("Line.round", "l.Discounts"), ("Line.round", "l.Charges"), ("Line.round", "l.Breakdown"), ("Line.round", "l.Substituted"), ("roundLines", "lines"), ("calculateDiscounts", "lines"), ("roundDiscounts", "lines"), ("calculateCharges", "lines"), ("roundCharges", "lines"), ("PaymentDetails.calculateAdvances", "p.Advances"), ("PaymentDetails.totalAdvance", "p.Advances"), ("calculateLine", "l.Substituted"), ("calculateLine", "l.Breakdown"), ("calculateLines", "lines")] ∧
    BillCalcSrc.ptrWrites = [("Totals.round", "*t.Discount"), ("Totals.round", "*t.Charge"), ("Totals.round", "*t.TaxIncluded"), ("Totals.round", "*t.Advances"), ("Totals.round", "*t.Due"), ("calculateLine", "l.Item.Currency"), ("calculateLine", "l.Item.Price"), ("calculateLine", "l.Item.AltPrices")] ∧
    BillCalcSrc.droppedWrites = [("calculateDiscounts", "l.Index"), ("calculateCharges", "l.Index"), ("calculateLine", "sl.Index"), ("calculateLines", "l.Index")] ∧
    BillCalcSrc.inOutCalls = [("Line.round", "d.round(e)"), ("Line.round", "c.round(e)"), ("Line.round", "sl.round(e)"), ("roundLines", "l.round()"), ("roundDiscounts", "l.round(cur)"), ("roundCharges", "l.round(cur)"), ("PaymentDetails.calculateAdvances", "a.CalculateFrom(totalWithTax)"), ("calculateSubLine", "calculateLineItemPrice(sl.Item, cur, rates)"), ("calculateSubLine", "calculateLineDiscounts(sl.Discounts, sum, total, cur, rr)"), ("calculateSubLine", "calculateLineCharges(sl.Charges, sl.Quantity, sum, total, cur, rr)"), ("calculateLine", "calculateSubLine(sl, cur, rates, rr)"), ("calculateLine", "calculateLineItemPrice(l.Item, cur, rates)"), ("calculateLine", "calculateLineDiscounts(l.Discounts, sum, total, cur, rr)"), ("calculateLine", "calculateLineCharges(l.Charges, l.Quantity, sum, total, cur, rr)"), ("calculateLines", "calculateLine(l, cur, rates, rr)")] ∧
    BillCalcSrc.addrOfAssigned = [("calculateDiscountSum", "&total"), ("calculateChargeSum", "&total"), ("PaymentDetails.totalAdvance", "&sum"), ("calculateLineItemPrice", "&price"), ("calculateSubLine", "&sum"), ("calculateSubLine", "&total"), ("calculateLine", "&np"), ("calculateLine", "&sum"), ("calculateLine", "&total")] ∧
    BillCalcSrc.primitives = [ ("currency.Code.Def", "(some (sub {0}) : Option Nat)"), ("currency.Convert", "GoblVerif.CalcSrc.convertRates o sub {0} {1} {2} {3}"), ("currency.Def.RescaleUp", "GoblVerif.Calc.up {1} ({0}.get!)"), ("currency.Def.Subunits", "{0}"), ("currency.Def.Zero", "(GoblVerif.Amount.mk 0 ({0}.get!))"), ("num.Amount.Add", "GoblVerif.Calc.add o {0} {1}"), ("num.Amount.Exp", "{0}.exp"), ("num.Amount.MatchPrecision", "GoblVerif.CalcSrc.matchPrecision {0} {1}"), ("num.Amount.Multiply", "o.mul {0} {1}"), ("num.Amount.Rescale", "o.rescale {0} {1}"), ("num.Amount.RescaleDown", "GoblVerif.Calc.down o {0} {1}"), ("num.Amount.RescaleUp", "GoblVerif.Calc.up {0} {1}"), ("num.Amount.Subtract", "GoblVerif.Calc.sub o {0} {1}"), ("num.Percentage.IsZero", "GoblVerif.Calc.pctIsZero {0}"), ("num.Percentage.Of", "GoblVerif.Calc.pctOf o {0} {1}"), ("strconv.Itoa", "(toString {0})"), ("tax.ApplyRoundingRule", "GoblVerif.CalcSrc.applyRoundingRule o sub {0} {1} {2}")] ∧
    BillCalcSrc.natSubs = [] ∧
    BillCalcSrc.fuelChecks = [] ∧
    BillCalcSrc.mapRanges = [] ∧
    BillCalcSrc.mapWrites = [] ∧
    BillCalcSrc.mapNilTests = [] := by decide

theorem namedTypes_BillCalcSrc_as_reviewed :
    BillCalcSrc.namedTypes.map (fun t => (t.1, t.2.2)) = [("cbc.Key", "String"), ("currency.Code", "String"), ("currency.Def", "Nat"), ("currency.ExchangeRate", "GoblVerif.Calc.XRate"), ("num.Amount", "GoblVerif.Amount"), ("num.Percentage", "GoblVerif.Pct"), ("tax.Set", "List GoblVerif.Calc.Combo"), ("tax.Total", "GoblVerif.Calc.TaxTotal")] := by decide

/-- the error-returning functions (go2lean_errfn.go): which they are (Except-valued; what
    they wrote before a non-nil error return is forgotten), every error value built from a
    constant format (arguments dropped), every call of an error function with what is
    returned on error, and the Lean error type with its two constructors -/
theorem errors_BillCalcSrc_as_reviewed :
    BillCalcSrc.errorFunctions = ["calculateLineItemPrice", "calculateSubLine", "calculateLine", "calculateLines"] ∧
    BillCalcSrc.errorMessages = [("calculateLineItemPrice", "fmt.Errorf(\"invalid currency '%v'\", icur)"), ("calculateLineItemPrice", "fmt.Errorf(\"no exchange rate found from '%v' to '%v'\", item.Currency, cur)")] ∧
    BillCalcSrc.errorCalls = [("calculateSubLine", "err := calculateLineItemPrice(sl.Item, cur, rates); err != nil { return err }"), ("calculateLine", "err := calculateSubLine(sl, cur, rates, rr); err != nil { return validation.Errors{ \"substituted\": validation.Errors{strconv.Itoa(i): err}, } }"), ("calculateLine", "err := calculateSubLine(sl, cur, rates, rr); err != nil { return validation.Errors{ \"breakdown\": validation.Errors{strconv.Itoa(i): err}, } }"), ("calculateLine", "err := calculateLineItemPrice(l.Item, cur, rates); err != nil { return validation.Errors{ \"item\": err, } }"), ("calculateLines", "err := calculateLine(l, cur, rates, rr); err != nil { return validation.Errors{strconv.Itoa(i): err} }")] ∧
    BillCalcSrc.errorType = ("GoblVerif.CalcSrc.GoErr", "GoblVerif.CalcSrc.GoErr.msg {0}", "GoblVerif.CalcSrc.GoErr.at {0} {1}") := ⟨rfl, rfl, rfl, rfl⟩

theorem assumptions_PayCalcSrc_as_reviewed :
    PayCalcSrc.translated = ["Advance.CalculateFrom", "Terms.CalculateDues"] ∧
    PayCalcSrc.nonNilElems = ["[]*DueDate"] ∧
    PayCalcSrc.inOutParams = [("Advance.CalculateFrom", "a"), ("Terms.CalculateDues", "t")] ∧
    PayCalcSrc.effectPrimitives = [] ∧
    PayCalcSrc.contextParams = [("o", "GoblVerif.Calc.Ops"), ("sub", "String → Nat")] ∧
    PayCalcSrc.effectLoops = [("Terms.CalculateDues", "t.DueDates")] ∧
    PayCalcSrc.ptrWrites = [] ∧
    PayCalcSrc.droppedWrites = [] ∧
    PayCalcSrc.inOutCalls = [] ∧
    PayCalcSrc.addrOfAssigned = [] ∧
    PayCalcSrc.primitives = [ ("currency.Code.Def", "(some (sub {0}) : Option Nat)"), ("currency.Def.RescaleUp", "GoblVerif.Calc.up {1} ({0}.get!)"), ("currency.Def.Subunits", "{0}"), ("currency.Def.Zero", "(GoblVerif.Amount.mk 0 ({0}.get!))"), ("num.Amount.Add", "GoblVerif.Calc.add o {0} {1}"), ("num.Amount.Exp", "{0}.exp"), ("num.Amount.MatchPrecision", "GoblVerif.CalcSrc.matchPrecision {0} {1}"), ("num.Amount.Multiply", "o.mul {0} {1}"), ("num.Amount.Rescale", "o.rescale {0} {1}"), ("num.Amount.RescaleDown", "GoblVerif.Calc.down o {0} {1}"), ("num.Amount.RescaleUp", "GoblVerif.Calc.up {0} {1}"), ("num.Amount.Subtract", "GoblVerif.Calc.sub o {0} {1}"), ("num.Percentage.IsZero", "GoblVerif.Calc.pctIsZero {0}"), ("num.Percentage.Of", "GoblVerif.Calc.pctOf o {0} {1}"), ("tax.ApplyRoundingRule", "GoblVerif.CalcSrc.applyRoundingRule o sub {0} {1} {2}")] ∧
    PayCalcSrc.natSubs = [] ∧
    PayCalcSrc.fuelChecks = [] ∧
    PayCalcSrc.mapRanges = [] ∧
    PayCalcSrc.mapWrites = [] ∧
    PayCalcSrc.mapNilTests = [] := by decide

theorem namedTypes_PayCalcSrc_as_reviewed :
    PayCalcSrc.namedTypes.map (fun t => (t.1, t.2.2)) = [("cbc.Key", "String"), ("currency.Code", "String"), ("num.Amount", "GoblVerif.Amount"), ("num.Percentage", "GoblVerif.Pct")] := by decide

/-! ### regenerated definition = model, for all arguments -/

/-- `calculateLineSum`: the lines enter only through their totals -/
theorem src_calculateLineSum (o : Ops) (sub : String → Nat) (ls : List BillCalcSrc.Line) (ms : List Line) (cur : String)
    (h : ls.map (·.Total) = ms.map (·.total)) :
    BillCalcSrc.calculateLineSum o sub ls cur = lineSum o (sub cur) ms := by
  rw [calculateLineSum_eq]
  unfold lineSum
  have : ls.filterMap (·.Total) = ms.filterMap (·.total) := by
    have h1 : ls.filterMap (·.Total) = (ls.map (·.Total)).filterMap id := by rw [List.filterMap_map]; rfl
    have h2 : ms.filterMap (·.total) = (ms.map (·.total)).filterMap id := by rw [List.filterMap_map]; rfl
    rw [h1, h2, h]
  rw [this]

/-- with the conversion `toLine` (any conversion of the item) -/
theorem src_calculateLineSum_toLine (o : Ops) (sub : String → Nat) (fI : BillCalcSrc.Item → Item) (ls : List BillCalcSrc.Line) (cur : String) :
    BillCalcSrc.calculateLineSum o sub ls cur = lineSum o (sub cur) (ls.map (toLine fI)) :=
  src_calculateLineSum o sub ls _ cur (by rw [List.map_map]; rfl)

/-- `calculateLineDiscounts`: the rows written back and the new running total -/
theorem src_calculateLineDiscounts (o : Ops) (sub : String → Nat) (ds : List BillCalcSrc.LineDiscount)
    (sum total : Amount) (cur rr : String) :
    let r := BillCalcSrc.calculateLineDiscounts o sub ds sum total cur rr
    (r.2.map toAdj, r.1) = lineDiscounts o (ruleOf rr) (sub cur) sum (ds.map toAdj) total :=
  calculateLineDiscounts_eq o sub ds sum total cur rr

/-- `calculateLineCharges` -/
theorem src_calculateLineCharges (o : Ops) (sub : String → Nat) (cs : List LineAdj) (q sum total : Amount) (cur rr : String) :
    let r := BillCalcSrc.calculateLineCharges o sub cs q sum total cur rr
    (r.2, r.1) = lineCharges o (ruleOf rr) (sub cur) q sum cs total :=
  calculateLineCharges_eq o sub cs q sum total cur rr

/-- `determineSubLinePrecision` -/
theorem src_determineSubLinePrecision (o : Ops) (sub : String → Nat) (fI : BillCalcSrc.Item → Item)
    (hfI : ∀ it, (fI it).price = it.Price) (sls : List BillCalcSrc.SubLine) :
    BillCalcSrc.determineSubLinePrecision o sub sls = subLinePrecision (sls.map (toSubLine fI)) :=
  determineSubLinePrecision_model o sub fI hfI sls

/-- `(*LineDiscount).round`, `(*LineCharge).round`, `(*SubLine).round` -/
theorem src_adj_rounds (o : Ops) (sub : String → Nat) (fI : BillCalcSrc.Item → Item) (e : ℕ) :
    (∀ d, toAdj (BillCalcSrc.LineDiscount_round o sub d e) = roundAdj o e (toAdj d)) ∧
    (∀ c, BillCalcSrc.LineCharge_round o sub c e = roundAdj o e c) ∧
    (∀ sl, toSubLine fI (BillCalcSrc.SubLine_round o sub sl e) = roundSubLine o e (toSubLine fI sl)) :=
  ⟨fun d => LineDiscount_round_eq o sub d e, fun c => LineCharge_round_eq o sub c e,
   fun sl => SubLine_round_eq o sub fI sl e⟩

/-- `(*Line).round` -/
theorem src_Line_round (o : Ops) (sub : String → Nat) (fI : BillCalcSrc.Item → Item)
    (hfI : ∀ it, (fI it).price = it.Price) (l : BillCalcSrc.Line) :
    toLine fI (BillCalcSrc.Line_round o sub l) = roundLine o (toLine fI l) :=
  Line_round_eq o sub fI hfI l

/-- `roundLines` -/
theorem src_roundLines (o : Ops) (sub : String → Nat) (fI : BillCalcSrc.Item → Item)
    (hfI : ∀ it, (fI it).price = it.Price) (ls : List BillCalcSrc.Line) :
    (BillCalcSrc.roundLines o sub ls).map (toLine fI) = (ls.map (toLine fI)).map (roundLine o) :=
  roundLines_eq o sub fI hfI ls

/-- `calculateDiscounts` and `calculateCharges` -/
theorem src_calculateDiscounts_Charges (o : Ops) (sub : String → Nat) (ds : List DocAdj) (cur : String) (sum : Amount) (rr : String) :
    BillCalcSrc.calculateDiscounts o sub ds cur sum rr = ds.map (docAdj o (ruleOf rr) (sub cur) sum) ∧
    BillCalcSrc.calculateCharges o sub ds cur sum rr = ds.map (docAdj o (ruleOf rr) (sub cur) sum) :=
  ⟨calculateDiscounts_eq o sub ds cur sum rr, calculateCharges_eq o sub ds cur sum rr⟩

/-- `calculateDiscountSum` and `calculateChargeSum` -/
theorem src_adjustment_sums (o : Ops) (sub : String → Nat) (ds : List DocAdj) (cur : String) :
    BillCalcSrc.calculateDiscountSum o sub ds cur = adjSum o (sub cur) ds ∧
    BillCalcSrc.calculateChargeSum o sub ds cur = adjSum o (sub cur) ds :=
  ⟨calculateDiscountSum_eq o sub ds cur, calculateChargeSum_eq o sub ds cur⟩

/-- `(*Discount).round`, `(*Charge).round`, `roundDiscounts`, `roundCharges` -/
theorem src_docAdj_rounds (o : Ops) (sub : String → Nat) (cur : String) :
    (∀ m, BillCalcSrc.Discount_round o sub m cur = roundDocAdj o (sub cur) m) ∧
    (∀ m, BillCalcSrc.Charge_round o sub m cur = roundDocAdj o (sub cur) m) ∧
    (∀ ds, BillCalcSrc.roundDiscounts o sub ds cur = ds.map (roundDocAdj o (sub cur))) ∧
    (∀ ds, BillCalcSrc.roundCharges o sub ds cur = ds.map (roundDocAdj o (sub cur))) :=
  ⟨fun m => Discount_round_eq o sub m cur, fun m => Charge_round_eq o sub m cur,
   fun ds => roundDiscounts_eq o sub ds cur, fun ds => roundCharges_eq o sub ds cur⟩

/-- `(*Totals).round` -/
theorem src_Totals_round (o : Ops) (sub : String → Nat) (t : Totals) (zero : Amount) :
    BillCalcSrc.Totals_round o sub t zero = roundTotals o zero.exp t :=
  Totals_round_eq o sub t zero

/-- `(*Totals).reset`: every figure is cleared, the externally supplied rounding stays
    (the model builds the totals from scratch in `rawTotals`, keeping `rounding`) -/
theorem src_Totals_reset (o : Ops) (sub : String → Nat) (t : Totals) (zero : Amount) :
    BillCalcSrc.Totals_reset o sub t zero =
      { sum := zero, discount := none, charge := none, taxIncluded := none, total := zero, taxes := none, tax := zero,
        totalWithTax := zero, rounding := t.rounding, payable := zero, advances := none, due := none } :=
  Totals_reset_eq o sub t zero

/-- `(*pay.Advance).CalculateFrom` and `(*PaymentDetails).calculateAdvances` -/
theorem src_calculateAdvances (o : Ops) (sub : String → Nat) (p : BillCalcSrc.PaymentDetails) (zero twt : Amount) :
    (∀ a : Advance, PayCalcSrc.Advance_CalculateFrom o sub a twt =
      (match a.percent with | some pc => { a with amount := pctOf o pc twt } | none => a)) ∧
    BillCalcSrc.PaymentDetails_calculateAdvances o sub p zero twt =
      { p with Advances := p.Advances.map (calcAdvance o zero.exp twt) } :=
  ⟨fun a => Advance_CalculateFrom_eq o sub a twt, calculateAdvances_eq o sub p zero twt⟩

/-- `(*PaymentDetails).totalAdvance` at the currency's zero: the total of the
    model, and the stored amounts rounded as in `finish`; nil gives nil -/
theorem src_totalAdvance (o : Ops) (sub : String → Nat) (p : BillCalcSrc.PaymentDetails) (c : ℕ) :
    BillCalcSrc.PaymentDetails_totalAdvance o sub (some p) ⟨0, c⟩ =
      (advanceTotal o c p.Advances,
       some { p with Advances := p.Advances.map (fun a => { a with amount := o.rescale a.amount c }) }) ∧
    BillCalcSrc.PaymentDetails_totalAdvance o sub none ⟨0, c⟩ = (none, none) := by
  refine ⟨?_, totalAdvance_none o sub _⟩
  rw [totalAdvance_eq]
  unfold advanceTotal
  by_cases h : p.Advances.isEmpty = true
  · obtain ⟨advs⟩ := p
    have : advs = [] := by simpa using h
    subst this
    simp
  · simp [h]

/-- `(*pay.Terms).CalculateDues` -/
theorem src_CalculateDues (o : Ops) (sub : String → Nat) (t : PayCalcSrc.Terms) (zero sum : Amount) :
    PayCalcSrc.Terms_CalculateDues o sub (some t) zero sum =
      some { t with DueDates := t.DueDates.map (calcDue o zero.exp sum) } ∧
    PayCalcSrc.Terms_CalculateDues o sub none zero sum = none :=
  ⟨CalculateDues_eq o sub t zero sum, CalculateDues_none o sub zero sum⟩

/-! ### the error-returning functions of bill/line_calculate.go (B20)

`toModel f` reads the result of an error function as the model's: `.ok a ↦ .ok (f a)`,
`.error e ↦ .error (errOf e)` (the model's error by the innermost message).  `toItem sub cur`
adds what the model's item carries besides the Go fields: the subunits of the item's currency
(of the document's when it names none).  `hr` says that the model's exchange rates carry the
subunits of their destination currency (`XRate.toSub`, an input of the model; Go reads
`er.To.Def()`).  What the Go functions have written through `item` / `sl` before returning an
error is not part of these statements: see `errors_BillCalcSrc_as_reviewed`. -/

/-- `calculateLineItemPrice` (for an item that has a price: the only way it is called) = `Calc.itemPrice`:
    own currency, alternative price in the document's currency, exchange rate, "no exchange rate" -/
theorem src_calculateLineItemPrice (o : Ops) (sub : String → Nat) (it : BillCalcSrc.Item) (p0 : Amount)
    (hp : it.Price = some p0) (cur : String) (rates : List XRate) (hr : ∀ r ∈ rates, r.toSub = sub r.to) :
    toModel (toItem sub cur) (BillCalcSrc.calculateLineItemPrice o sub it cur rates)
      = itemPrice o cur (sub cur) rates (toItem sub cur it) p0 :=
  calculateLineItemPrice_eq o sub it p0 hp cur rates hr

example : ∃ it : BillCalcSrc.Item, ∃ p0, it.Price = some p0 ∧ it.Currency ≠ "" ∧ it.AltPrices ≠ [] :=
  ⟨⟨"USD", some ⟨100, 2⟩, [⟨"EUR", ⟨90, 2⟩⟩]⟩, _, rfl, by decide, by decide⟩

/-- `currency.Convert` as the configuration reads it = the model's rate lookup and conversion -/
theorem src_convertRates (o : Ops) (sub : String → Nat) (rates : List XRate) (hr : ∀ r ∈ rates, r.toSub = sub r.to)
    (f t : String) (h : f ≠ t) (a : Amount) :
    convertRates o sub rates f t a = (findRate rates f t).map (fun r => convert o r a) :=
  convertRates_eq o sub rates hr f t h a

example : ∃ (sub : String → Nat) (rates : List XRate), rates ≠ [] ∧ ∀ r ∈ rates, r.toSub = sub r.to :=
  ⟨fun _ => 2, [⟨"USD", "EUR", 2, ⟨9, 1⟩⟩], by decide, by simp⟩

/-- `calculateSubLine` = `Calc.calcSubLine`, for every sub-line -/
theorem src_calculateSubLine (o : Ops) (sub : String → Nat) (sl : BillCalcSrc.SubLine) (cur : String)
    (rates : List XRate) (rr : String) (hr : ∀ r ∈ rates, r.toSub = sub r.to) :
    toModel (toSubLine (toItem sub cur)) (BillCalcSrc.calculateSubLine o sub sl cur rates rr)
      = calcSubLine o cur (sub cur) rates (ruleOf rr) (toSubLine (toItem sub cur) sl) :=
  calculateSubLine_eq o sub sl cur rates rr hr

/-- `calculateLine` = `Calc.calcLine`, for every operation set, currency table, document currency,
    rates and rounding-rule key, and every line WITHOUT SUBSTITUTED SUB-LINES (`hs`): no item /
    breakdown (each sub-line through `calculateSubLine`, the first error ends everything; the item
    price replaced by the re-scaled sum of the sub-line totals when one exists) / no price / item-price
    error / price raised to the currency's decimals (+2 under `precise`), sum rounded by the rule,
    discounts, charges.  The hypothesis is needed: the model has no substituted sub-lines, and an
    exchange-rate error inside one makes Go fail (`substituted: (i: …)`) where the model goes on.
    With it the loop over `l.Substituted` does not run; what it writes otherwise (normalised
    sub-lines, not read by any total) is outside every statement here. -/
theorem src_calculateLine (o : Ops) (sub : String → Nat) (l : BillCalcSrc.Line) (cur : String)
    (rates : List XRate) (rr : String) (hr : ∀ r ∈ rates, r.toSub = sub r.to) (hs : l.Substituted = []) :
    toModel (toLine (toItem sub cur)) (BillCalcSrc.calculateLine o sub l cur rates rr)
      = calcLine o cur (sub cur) rates (ruleOf rr) (toLine (toItem sub cur) l) :=
  calculateLine_eq o sub l cur rates rr hr hs

/-- the regenerated `calculateLine` splits exactly as the proof reads it: without breakdown it is
    the finishing part, with one it is the breakdown loop followed by the finishing part on the
    line `afterBd` describes (item price replaced when a sub-line has a total) -/
theorem src_calculateLine_shape (o : Ops) (sub : String → Nat) (l : BillCalcSrc.Line) (it : BillCalcSrc.Item) (cur : String)
    (rates : List XRate) (rr : String) (hi : l.Item = some it) (hs : l.Substituted = []) :
    (l.Breakdown = [] → BillCalcSrc.calculateLine o sub l cur rates rr = lineFinish o sub l cur rates rr) ∧
    (l.Breakdown ≠ [] → BillCalcSrc.calculateLine o sub l cur rates rr = (do
      let s ← forIn l.Breakdown.zipIdx ((⟨0, sub cur⟩ : Amount), false, ([] : List BillCalcSrc.SubLine)) (bdBody o sub cur rates rr)
      lineFinish o sub (afterBd o sub cur l s) cur rates rr)) :=
  ⟨calculateLine_nil o sub l it cur rates rr hi hs, calculateLine_cons o sub l it cur rates rr hi hs⟩

/-- `hs` and `hr` are satisfiable by a line that exercises the interesting branches: a USD item
    on a EUR document with a two-row breakdown (one row converted by a rate), a discount and a
    charge; and the regenerated definition computes on it: 2 × (1.00 EUR + 0.90 EUR) − 10 % + 0.50 -/
def srcExampleLine : BillCalcSrc.Line :=
  { Quantity := ⟨2, 0⟩, Item := some ⟨"USD", some ⟨500, 2⟩, []⟩,
    Breakdown := [⟨⟨1, 0⟩, some ⟨"", some ⟨100, 2⟩, []⟩, none, [], [], none⟩,
                  ⟨⟨1, 0⟩, some ⟨"USD", some ⟨100, 2⟩, []⟩, none, [], [], none⟩],
    Sum := none, Discounts := [⟨none, some ⟨⟨10, 2⟩⟩, ⟨0, 0⟩⟩], Charges := [⟨none, none, ⟨50, 2⟩, none, none⟩],
    Taxes := [], Total := none, Substituted := [] }

example : srcExampleLine.Substituted = [] ∧ srcExampleLine.Breakdown ≠ [] ∧
    (∀ r ∈ [(⟨"USD", "EUR", 2, ⟨9, 1⟩⟩ : XRate)], r.toSub = (fun _ => 2) r.to) ∧
    ((BillCalcSrc.calculateLine exactOps (fun _ => 2) srcExampleLine "EUR" [⟨"USD", "EUR", 2, ⟨9, 1⟩⟩] "currency").toOption.map
      (fun l => (l.Item.bind (·.Price), l.Item.map (·.Currency), l.Sum, l.Total))) =
      some (some ⟨190, 2⟩, some "EUR", some ⟨380, 2⟩, some ⟨392, 2⟩) ∧
    -- a missing rate inside the breakdown: the error, nested under its place
    BillCalcSrc.calculateLine exactOps (fun _ => 2) srcExampleLine "EUR" [] "currency" =
      .error (.at "breakdown" (.at "1" (.msg noRateFormat))) := by
  decide +kernel

/-- `calculateLines` = `Calc.calcLines` for lines without substituted sub-lines: every line through
    `calculateLine` in order, the first error ends everything.  (`l.Index = i + 1` is a dropped
    write: `Index` is not represented, see `assumptions_BillCalcSrc_as_reviewed`.) -/
theorem src_calculateLines (o : Ops) (sub : String → Nat) (ls : List BillCalcSrc.Line) (cur : String)
    (rates : List XRate) (rr : String) (hr : ∀ r ∈ rates, r.toSub = sub r.to) (hs : ∀ l ∈ ls, l.Substituted = []) :
    toModel (List.map (toLine (toItem sub cur))) (BillCalcSrc.calculateLines o sub ls cur rates rr)
      = calcLines o cur (sub cur) rates (ruleOf rr) (ls.map (toLine (toItem sub cur))) :=
  calculateLines_eq o sub ls cur rates rr hr hs

example : (∀ l ∈ [srcExampleLine, srcExampleLine], l.Substituted = []) ∧
    ((BillCalcSrc.calculateLines exactOps (fun _ => 2) [srcExampleLine, srcExampleLine] "EUR" [⟨"USD", "EUR", 2, ⟨9, 1⟩⟩] "precise").toOption.map
      (fun ls => ls.map (·.Total))) = some [some ⟨39200, 4⟩, some ⟨39200, 4⟩] ∧
    BillCalcSrc.calculateLines exactOps (fun _ => 2) [{ srcExampleLine with Breakdown := [] }, srcExampleLine] "EUR" [] "precise" =
      .error (.at "0" (.at "item" (.msg noRateFormat))) := by
  decide +kernel

/-! ### headline statements of C01 / C03 over the regenerated definitions -/

/-- C01 "sums never round", about the code: the regenerated `calculateLineSum` is
    exactly the sum of the line totals, at no less than the currency's precision -/
theorem spec_of_the_source_line_sum (sub : String → Nat) (ls : List BillCalcSrc.Line) (cur : String) :
    (BillCalcSrc.calculateLineSum exactOps sub ls cur).toRat = ((ls.filterMap (·.Total)).map Amount.toRat).sum ∧
    sub cur ≤ (BillCalcSrc.calculateLineSum exactOps sub ls cur).exp := by
  rw [calculateLineSum_eq]
  refine ⟨?_, ?_⟩
  · rw [foldl_accum_toRat]; simp [Amount.toRat]
  · exact foldl_accum_exp_ge _ ⟨0, sub cur⟩

/-- what an `.ok` result of the regenerated `calculateLine` says about the model (from `src_calculateLine`) -/
theorem src_calculateLine_ok (o : Ops) (sub : String → Nat) (l l' : BillCalcSrc.Line) (cur : String)
    (rates : List XRate) (rr : String) (hr : ∀ r ∈ rates, r.toSub = sub r.to) (hs : l.Substituted = [])
    (h : BillCalcSrc.calculateLine o sub l cur rates rr = .ok l') :
    calcLine o cur (sub cur) rates (ruleOf rr) (toLine (toItem sub cur) l) = .ok (toLine (toItem sub cur) l') := by
  rw [← src_calculateLine o sub l cur rates rr hr hs, h]; rfl

/-- C01 headline "the line sum is ONE rounding of price × quantity", about the code: for a plain
    line (item priced in the document currency, no breakdown, no substituted sub-lines) the
    regenerated `calculateLine` under `precise` leaves a sum with at least currency + 2 decimals
    whose value is the exact product price × quantity rounded half away from zero exactly once -/
theorem spec_of_the_source_line_sum_precise (sub : String → Nat) (l l' : BillCalcSrc.Line) (it : BillCalcSrc.Item)
    (p : Amount) (cur : String) (rates : List XRate) (hr : ∀ r ∈ rates, r.toSub = sub r.to)
    (hit : l.Item = some it) (hcur : it.Currency = "") (hp : it.Price = some p) (hbd : l.Breakdown = [])
    (hs : l.Substituted = []) (h : BillCalcSrc.calculateLine exactOps sub l cur rates "precise" = .ok l') :
    ∃ s, l'.Sum = some s ∧ sub cur + 2 ≤ s.exp ∧ s.value = roundTo s.exp (p.toRat * l.Quantity.toRat) := by
  have hm := src_calculateLine_ok exactOps sub l l' cur rates "precise" hr hs h
  have hrule : ruleOf "precise" = .precise := by decide
  rw [hrule] at hm
  exact line_sum_precise cur (sub cur) rates (toLine (toItem sub cur) l) (toLine (toItem sub cur) l')
    (toItem sub cur it) p (by simp [toLine, hit]) hcur hp (by simp [toLine, hbd]) hm

/-- the hypotheses are satisfiable and the code computes: 3 × 33.335 EUR under `precise` is 100.0050
    (four decimals, no rounding yet), under `currency` 100.01 (rounded once, half away from zero) -/
def srcPlainLine : BillCalcSrc.Line :=
  { Quantity := ⟨3, 0⟩, Item := some ⟨"", some ⟨33335, 3⟩, []⟩, Breakdown := [], Sum := none,
    Discounts := [], Charges := [], Taxes := [], Total := none, Substituted := [] }

example :
    ((BillCalcSrc.calculateLine exactOps (fun _ => 2) srcPlainLine "EUR" [] "precise").toOption.map (·.Sum)) = some (some ⟨1000050, 4⟩) ∧
    ((BillCalcSrc.calculateLine exactOps (fun _ => 2) srcPlainLine "EUR" [] "currency").toOption.map (·.Sum)) = some (some ⟨10001, 2⟩) := by
  decide +kernel

/-- C01 "presentation", about the code: after the regenerated `(*Totals).round`
    every presented total has exactly the currency's number of decimals -/
theorem spec_of_the_source_presented_precision (sub : String → Nat) (t : Totals) (zero : Amount) :
    let r := BillCalcSrc.Totals_round exactOps sub t zero
    r.sum.exp = zero.exp ∧ r.total.exp = zero.exp ∧ r.tax.exp = zero.exp ∧ r.totalWithTax.exp = zero.exp ∧
    r.payable.exp = zero.exp ∧
    (∀ x, r.discount = some x → x.exp = zero.exp) ∧ (∀ x, r.charge = some x → x.exp = zero.exp) ∧
    (∀ x, r.taxIncluded = some x → x.exp = zero.exp) ∧ (∀ x, r.advances = some x → x.exp = zero.exp) ∧
    (∀ x, r.due = some x → x.exp = zero.exp) := by
  rw [Totals_round_eq]
  exact presented_precision zero.exp t

/-- C03 "document rows re-add", about the code: under the currency rule every
    amount the regenerated `calculateDiscounts` / `calculateCharges` leaves has
    exactly the currency's decimals, and the regenerated discount / charge sum is
    exactly the sum of its rows -/
theorem spec_of_the_source_document_rows (sub : String → Nat) (ds : List DocAdj) (cur : String) (sum : Amount) :
    (∀ d ∈ BillCalcSrc.calculateDiscounts exactOps sub ds cur sum "currency", d.amount.exp = sub cur) ∧
    (∀ d ∈ BillCalcSrc.calculateCharges exactOps sub ds cur sum "currency", d.amount.exp = sub cur) ∧
    (∀ s, BillCalcSrc.calculateDiscountSum exactOps sub ds cur = some s → s.toRat = (ds.map (·.amount.toRat)).sum) ∧
    (∀ s, BillCalcSrc.calculateChargeSum exactOps sub ds cur = some s → s.toRat = (ds.map (·.amount.toRat)).sum) := by
  rw [calculateDiscounts_eq, calculateCharges_eq, calculateDiscountSum_eq, calculateChargeSum_eq]
  have hr : ruleOf "currency" = .currency := by decide
  rw [hr]
  refine ⟨?_, ?_, ?_, ?_⟩
  · intro d hd
    obtain ⟨x, _, rfl⟩ := List.mem_map.mp hd
    exact GoblVerif.Calc.docAdj_currency_exp (sub cur) sum x
  · intro d hd
    obtain ⟨x, _, rfl⟩ := List.mem_map.mp hd
    exact GoblVerif.Calc.docAdj_currency_exp (sub cur) sum x
  · intro s h; exact sums_exact_adjustments (sub cur) ds s h
  · intro s h; exact sums_exact_adjustments (sub cur) ds s h

/-- the hypotheses above are satisfiable and the definitions compute: a 10 %
    discount on 100.00 EUR under the currency rule, through the regenerated code -/
example :
    BillCalcSrc.calculateDiscounts exactOps (fun _ => 2) [⟨some ⟨⟨10, 2⟩⟩, none, ⟨0, 0⟩, []⟩] "EUR" ⟨10000, 2⟩ "currency" =
      [⟨some ⟨⟨10, 2⟩⟩, none, ⟨1000, 2⟩, []⟩] ∧
    BillCalcSrc.calculateDiscountSum exactOps (fun _ => 2) [⟨some ⟨⟨10, 2⟩⟩, none, ⟨1000, 2⟩, []⟩] "EUR" = some ⟨1000, 2⟩ ∧
    (BillCalcSrc.Totals_round exactOps (fun _ => 2)
      { sum := ⟨100005, 3⟩, discount := none, charge := none, taxIncluded := none, total := ⟨100005, 3⟩, taxes := none,
        tax := ⟨0, 2⟩, totalWithTax := ⟨100005, 3⟩, rounding := none, payable := ⟨100005, 3⟩, advances := none,
        due := none } ⟨0, 2⟩).sum = ⟨10001, 2⟩ := by
  decide +kernel

end Src

end GoblVerif.Props.C01
