/-
  C19 (b) — the published definition files are coherent.

  `Generated/Defs.lean` is regenerated from /repo/data/** on every run; the
  theorems below are re-proved by kernel evaluation (`decide +kernel`) over
  that data.  Part (a) of C19 (generated output = committed files = what
  data.Content and the bulk `schema` / `regime` actions serve) is a direct
  byte comparison done by the harness: Lean adds nothing to byte equality.
  Part (c) (RegimeDef.Validate, AddonDef.Validate, time.LoadLocation) is run
  by the harness on the real definitions.
-/
import GoblVerif.Spec.C19
import GoblVerif.Generated.Defs

namespace GoblVerif.Props.C19
open GoblVerif.Refs GoblVerif.Spec.C19

/-! ## what "no issues" means (for ANY definitions, not only the shipped ones) -/

/-- a regime without issues names an existing currency -/
theorem no_issues_currency (d : Defs) (r : Regime) (h : regimeIssues d r = []) :
    d.currencies.contains r.currency = true := by
  unfold regimeIssues at h
  simp only [List.append_eq_nil_iff] at h
  have h1 := h.1.1.1.1
  split at h1
  · assumption
  · cases h1

/-- … every extension key a category lists is defined by the regime, an addon or a catalogue -/
theorem no_issues_category_ext (d : Defs) (r : Regime) (h : regimeIssues d r = [])
    (c : Category) (hc : c ∈ r.categories) (k : String) (hk : k ∈ c.extKeys) :
    (visibleExt d r.extensions).any (·.key == k) = true := by
  unfold regimeIssues at h
  simp only [List.append_eq_nil_iff, List.flatMap_eq_nil_iff] at h
  have h1 := (h.1.1.2 c hc).1.1 k hk
  unfold keyIssue at h1
  split at h1
  · assumption
  · cases h1

/-- … every correction type is a published invoice type, every correction
    extension key is defined -/
theorem no_issues_corrections (d : Defs) (r : Regime) (h : regimeIssues d r = [])
    (c : Correction) (hc : c ∈ r.corrections) :
    d.schemas.contains c.schema = true ∧
    (c.schema = "bill/invoice" → ∀ t ∈ c.types, d.invoiceTypes.contains t = true) ∧
    ∀ k ∈ c.extensions, (visibleExt d r.extensions).any (·.key == k) = true := by
  unfold regimeIssues at h
  simp only [List.append_eq_nil_iff] at h
  have h1 := h.2
  unfold correctionIssues at h1
  simp only [List.flatMap_eq_nil_iff, List.append_eq_nil_iff] at h1
  obtain ⟨⟨hs, ht⟩, he⟩ := h1 c hc
  refine ⟨?_, ?_, ?_⟩
  · split at hs
    · assumption
    · cases hs
  · intro hsch t htm
    have hb : (c.schema == "bill/invoice") = true := by simp [hsch]
    rw [if_pos hb, List.flatMap_eq_nil_iff] at ht
    have := ht t htm
    split at this
    · assumption
    · cases this
  · intro k hk
    have := he k hk
    unfold keyIssue at this
    split at this
    · assumption
    · cases this

/-- … every scenario tag is offered for that document type by the regime or an addon,
    every extension pair a scenario writes has a defined key and an allowed code -/
theorem no_issues_scenarios (d : Defs) (r : Regime) (h : regimeIssues d r = [])
    (ss : ScenarioSet) (hss : ss ∈ r.scenarios) (s : Scenario) (hs : s ∈ ss.list) :
    (∀ t ∈ s.tags, (tagKeysFor r.tags ss.schema ++ d.addons.flatMap (fun a => tagKeysFor a.tags ss.schema)).contains t = true) ∧
    (∀ kv ∈ s.ext, ∃ kd, (visibleExt d r.extensions).find? (·.key == kv.1) = some kd ∧
        (kd.codes.isEmpty || kd.codes.contains kv.2) = true) := by
  unfold regimeIssues at h
  simp only [List.append_eq_nil_iff] at h
  have h1 := h.1.2
  unfold scenarioIssues at h1
  simp only [List.flatMap_eq_nil_iff, List.append_eq_nil_iff] at h1
  obtain ⟨⟨⟨htags, _⟩, _⟩, hext⟩ := (h1 ss hss).2 s hs
  constructor
  · intro t ht
    have := htags t ht
    split at this
    · assumption
    · cases this
  · intro kv hkv
    have := hext kv hkv
    unfold pairIssue at this
    split at this
    · cases this
    · rename_i kd hkd
      refine ⟨kd, hkd, ?_⟩
      split at this
      · assumption
      · cases this

/-! ## obligations over the published files, regenerated on every run -/
namespace Expect
open GoblVerif.Generated.Defs

/-- **every published regime and addon definition is coherent**: it names an
    existing currency, and every reference to a tag, extension key (with its
    code), invoice / correction type, schema or required addon resolves to
    something defined in the file itself, an addon or a catalogue.  Left out:
    files no registered regime stands behind (known finding
    `published_file_not_generated`) and, inside a regime, scenario tags for a
    document type for which the regime publishes no tag set at all (known
    finding `scenario_tag_without_tag_set`). -/
theorem all_coherent :
    (defs.liveRegimes.all (regimeCoherent defs) && defs.addons.all (addonCoherent defs)) = true := by
  decide +kernel

/-- the second exclusion is narrow: every regime that publishes a tag set for
    invoices has no unresolved reference whatsoever -/
theorem regimes_with_tag_sets_have_no_issues :
    defs.liveRegimes.all (fun r => (tagKeysFor r.tags "bill/invoice").isEmpty || (regimeIssues defs r).isEmpty) = true := by
  decide +kernel

/-- every published regime file carries a country code of the published code list,
    (and so do its alternative codes) -/
theorem regime_countries_known :
    defs.liveRegimes.all (fun r => defs.countries.contains r.country && r.alt.all (defs.countries.contains ·)) = true := by
  decide +kernel

/-- every published addon key is unique and every `requires` entry names a published addon -/
theorem addon_keys_unique_and_required_exist :
    ((defs.addons.map (·.key)).eraseDups.length == defs.addons.length &&
     defs.addons.all (fun a => a.requires.all fun k => (defs.addonFor k).isSome)) = true := by
  decide +kernel

/-- no extension key is defined twice across the published regimes, addons and catalogues
    (the registry is a map: a second definition would silently replace the first) -/
theorem extension_keys_unique :
    ((defs.allExtDefs.map (·.key)).eraseDups.length == defs.allExtDefs.length) = true := by
  decide +kernel

end Expect

end GoblVerif.Props.C19
