/-
  C12 — the tax rate applied on a date is the one in force on that date.

  Model: Model/Rates.lean (RateDef.Value, CategoryDef.RateDef, Combo.prepareRate,
  the tax-date choice).  Specification: Spec/C12.lean (`inForce`, `IsInForce`,
  `strictDesc`).  Helper lemmas: Proofs/Rates.lean.

  General theorems hold for ALL tables, dates, tag lists and extension maps.
  The `Expect` namespace re-proves, on every run, the obligations over the
  tables regenerated from /repo (registry and data/regimes/*.json).

  `namespace Src` (at the end) ties the model to the source: `value`,
  `hasAnyTag`, `extContains`, `rateDef` and `categoryDef` are proved equal to
  the definitions that the go2lean translator regenerates from /repo/tax on
  every run (Generated/RatesSrc.lean), for all arguments; `prepareRate` is
  proved to agree with the regenerated `(*Combo).prepareRate` (same error, same
  percent and surcharge, the same extension map).
-/
import GoblVerif.Spec.C12
import GoblVerif.Proofs.Rates
import GoblVerif.Generated.RateTables
import GoblVerif.Generated.RatesSrc
import GoblVerif.Proofs.GoSemList
import GoblVerif.Proofs.RatesSrc

namespace GoblVerif.Props.C12
open GoblVerif.Rates GoblVerif.Spec.C12 GoblVerif.Proofs.Rates

/-! ## `inForce` meets its relational description -/

/-- what `inForce` returns applies, has taken effect, and nothing else that
    applies and has taken effect starts later -/
theorem inForce_isInForce (vals : List RateValue) (d : Date) (tags : List String) (ext : Ext) (r : RateValue)
    (h : inForce vals d tags ext = some r) : IsInForce vals d tags ext r := by
  unfold inForce at h
  have hm := latest_mem h
  unfold candidates at hm
  rw [List.mem_filter, Bool.and_eq_true] at hm
  refine ⟨hm.1, hm.2.1, hm.2.2, ?_⟩
  intro r' hr' ha hb
  apply latest_ge h
  unfold candidates
  rw [List.mem_filter, Bool.and_eq_true]
  exact ⟨hr', ha, hb⟩

/-- `inForce` answers `none` only when nothing applies that has taken effect -/
theorem inForce_none_iff (vals : List RateValue) (d : Date) (tags : List String) (ext : Ext) :
    inForce vals d tags ext = none ↔ ∀ v ∈ vals, applies v tags ext = true → onOrBefore v d = false := by
  unfold inForce
  constructor
  · intro h v hv ha
    cases hb : onOrBefore v d
    · rfl
    · exfalso
      have hc : v ∈ candidates vals d tags ext := by
        unfold candidates; rw [List.mem_filter, Bool.and_eq_true]; exact ⟨hv, ha, hb⟩
      cases hl : candidates vals d tags ext with
      | nil => rw [hl] at hc; cases hc
      | cons a t =>
        rw [hl] at h
        unfold latest at h
        cases h2 : latest t <;> simp [h2] at h
        split at h <;> cases h
  · intro h
    have : candidates vals d tags ext = [] := by
      unfold candidates
      rw [List.filter_eq_nil_iff]
      intro v hv
      cases ha : applies v tags ext
      · simp
      · simp [h v hv ha]
    rw [this]; rfl

/-- in a table that is strictly descending under the filter, two values in
    force are the same value: the choice is unambiguous -/
theorem isInForce_unique (vals : List RateValue) (d : Date) (tags : List String) (ext : Ext)
    (hdesc : descendingFor vals tags ext = true) (r r' : RateValue)
    (h : IsInForce vals d tags ext r) (h' : IsInForce vals d tags ext r') : r = r' := by
  have hs : r.since = r'.since :=
    startLe_antisymm (h'.2.2.2 r h.1 h.2.1 h.2.2.1) (h.2.2.2 r' h'.1 h'.2.1 h'.2.2.1)
  unfold descendingFor startsFor at hdesc
  have hr : r ∈ vals.filter (fun v => applies v tags ext) := List.mem_filter.mpr ⟨h.1, h.2.1⟩
  have hr' : r' ∈ vals.filter (fun v => applies v tags ext) := List.mem_filter.mpr ⟨h'.1, h'.2.1⟩
  generalize vals.filter (fun v => applies v tags ext) = A at hdesc hr hr'
  induction A with
  | nil => cases hr
  | cons x rest ih =>
    have hgt := strictDesc_head_gt (by simpa using hdesc)
    have htl : strictDesc (rest.map (·.since)) = true := strictDesc_tail (by simpa using hdesc)
    rcases List.mem_cons.mp hr with rfl | hr1 <;> rcases List.mem_cons.mp hr' with rfl | hr1'
    · rfl
    · have := hgt r'.since (List.mem_map.mpr ⟨r', hr1', rfl⟩)
      rw [← hs, startLt_irrefl] at this; cases this
    · have := hgt r.since (List.mem_map.mpr ⟨r, hr1, rfl⟩)
      rw [hs, startLt_irrefl] at this; cases this
    · exact ih htl hr1 hr1'

/-! ## the code's first-match lookup is the value in force -/

/-- **RateDef.Value = the value in force**, for every table whose applicable
    rows are in strictly descending date order, every date, tag list and
    extension map.  (`hreal`: the start dates are real calendar days — the Go
    code treats an impossible date such as 2021-02-30 as "undated".) -/
theorem value_eq_inForce (vals : List RateValue) (d : Date) (tags : List String) (ext : Ext)
    (hreal : ∀ v ∈ vals, sinceReal v = true)
    (hdesc : descendingFor vals tags ext = true) :
    value vals d tags ext = inForce vals d tags ext := by
  rw [value_eq_find]
  unfold inForce candidates
  have hf : (vals.filter fun v => applicable v tags ext) = vals.filter fun v => applies v tags ext := by
    congr 1; funext v; exact applicable_eq_applies v tags ext
  have hff : (vals.filter fun v => applies v tags ext && onOrBefore v d)
      = (vals.filter fun v => applies v tags ext).filter fun v => onOrBefore v d := by
    rw [List.filter_filter]; congr 1; funext v; exact Bool.and_comm _ _
  rw [hf, hff]
  unfold descendingFor startsFor at hdesc
  rw [latest_filter_eq_find _ _ (weakDesc_of_strictDesc hdesc)]
  apply find_congr
  intro v hv
  exact started_eq_onOrBefore v d (hreal v (List.mem_filter.mp hv).1)

/-- the same with equal neighbours allowed: the code then returns *a* value in
    force (the first listed of those sharing the latest start date) -/
theorem value_isInForce_of_weaklyDescending (vals : List RateValue) (d : Date) (tags : List String) (ext : Ext)
    (hreal : ∀ v ∈ vals, sinceReal v = true)
    (hdesc : weakDesc (startsFor vals tags ext) = true) (r : RateValue)
    (h : value vals d tags ext = some r) : IsInForce vals d tags ext r := by
  apply inForce_isInForce
  rw [← h, value_eq_find]
  unfold inForce candidates
  have hf : (vals.filter fun v => applicable v tags ext) = vals.filter fun v => applies v tags ext := by
    congr 1; funext v; exact applicable_eq_applies v tags ext
  have hff : (vals.filter fun v => applies v tags ext && onOrBefore v d)
      = (vals.filter fun v => applies v tags ext).filter fun v => onOrBefore v d := by
    rw [List.filter_filter]; congr 1; funext v; exact Bool.and_comm _ _
  rw [hf, hff]
  unfold startsFor at hdesc
  rw [latest_filter_eq_find _ _ hdesc]
  symm
  apply find_congr
  intro v hv
  exact started_eq_onOrBefore v d (hreal v (List.mem_filter.mp hv).1)

/-- **a value takes effect on its start date itself** -/
theorem value_on_start_date (vals : List RateValue) (d : Date) (tags : List String) (ext : Ext)
    (hreal : ∀ v ∈ vals, sinceReal v = true)
    (hdesc : descendingFor vals tags ext = true)
    (v : RateValue) (hv : v ∈ vals) (ha : applies v tags ext = true) (hs : v.since = some d) :
    value vals d tags ext = some v := by
  rw [value_eq_inForce vals d tags ext hreal hdesc]
  have hvb : onOrBefore v d = true := by unfold onOrBefore; rw [hs]; exact dateLe_refl d
  cases hi : inForce vals d tags ext with
  | none =>
    have := (inForce_none_iff vals d tags ext).mp hi v hv ha
    rw [hvb] at this; cases this
  | some r =>
    have hr := inForce_isInForce vals d tags ext r hi
    have hvI : IsInForce vals d tags ext v := by
      refine ⟨hv, ha, hvb, ?_⟩
      intro r' _ _ hb'
      rw [hs]
      unfold onOrBefore at hb'
      cases hrs : r'.since with
      | none => rfl
      | some s => rw [hrs] at hb'; exact hb'
    rw [isInForce_unique vals d tags ext hdesc r v hr hvI]

/-- **a date before the first value gives no value** (no ordering needed) -/
theorem value_before_first (vals : List RateValue) (d : Date) (tags : List String) (ext : Ext)
    (hbefore : ∀ v ∈ vals, applies v tags ext = true → ∃ s, v.since = some s ∧ realDay s = true ∧ dateLt d s = true) :
    value vals d tags ext = none := by
  rw [value_eq_find, List.find?_eq_none]
  intro v hv
  rw [List.mem_filter, applicable_eq_applies] at hv
  obtain ⟨s, hs, hr, hlt⟩ := hbefore v hv.1 hv.2
  unfold started
  rw [hs]
  simp only
  rw [isValid_eq_realDay, hr, not_after_eq_dateLe, not_dateLe_of_lt hlt]
  simp

/-- … and only then: `none` is never answered while some applicable value has
    already taken effect -/
theorem value_none_only_before_first (vals : List RateValue) (d : Date) (tags : List String) (ext : Ext)
    (hreal : ∀ v ∈ vals, sinceReal v = true)
    (h : value vals d tags ext = none) :
    ∀ v ∈ vals, applies v tags ext = true → ∃ s, v.since = some s ∧ dateLt d s = true := by
  rw [value_eq_find, List.find?_eq_none] at h
  intro v hv ha
  have hst := h v (List.mem_filter.mpr ⟨hv, by rw [applicable_eq_applies]; exact ha⟩)
  rw [started_eq_onOrBefore v d (hreal v hv)] at hst
  unfold onOrBefore at hst
  cases hs : v.since with
  | none => rw [hs] at hst; simp at hst
  | some s =>
    refine ⟨s, rfl, ?_⟩
    rw [hs] at hst
    simp only [Bool.not_eq_true] at hst
    cases hlt : dateLt d s
    · rw [dateLe_of_not_lt hlt] at hst; cases hst
    · rfl

/-! ## what the combo receives -/

/-- **exempt keys yield no percentage** (and no surcharge), whatever the date -/
theorem exempt_no_percent (cat : CategoryDef) (c : Combo) (tags : List String) (date : Date) (rate : RateDef)
    (hk : c.rate ≠ "") (hr : rateDef cat.rates c.rate = some rate) (hx : rate.exempt = true) :
    ∃ c', prepareRate cat c tags date = .ok c' ∧ c'.percent = none ∧ c'.surcharge = none := by
  unfold prepareRate
  have : (c.rate == "") = false := by simpa using hk
  simp only [this, hr, hx]
  exact ⟨_, rfl, rfl, rfl⟩

/-- a non-exempt rate with values: the combo receives exactly the percent and
    surcharge of the row `RateDef.Value` picks (looked up with the combo's
    extensions after the rate's own have been copied in) -/
theorem prepareRate_uses_value (cat : CategoryDef) (c : Combo) (tags : List String) (date : Date)
    (rate : RateDef) (v : RateValue)
    (hk : c.rate ≠ "") (hr : rateDef cat.rates c.rate = some rate) (hx : rate.exempt = false)
    (hval : value rate.values date tags (mergedExt c rate) = some v) :
    ∃ c', prepareRate cat c tags date = .ok c' ∧ c'.percent = some v.percent ∧ c'.surcharge = v.surcharge := by
  have hk' : (c.rate == "") = false := by simpa using hk
  have hv' : rate.values.isEmpty = false := by
    cases h : rate.values with
    | nil => rw [h] at hval; simp [value] at hval
    | cons _ _ => rfl
  unfold prepareRate
  simp only [hk', hr, hx, hv', hval]
  exact ⟨_, rfl, rfl, rfl⟩

/-- **no value for the date is an error, not a guess** -/
theorem prepareRate_before_first_is_error (cat : CategoryDef) (c : Combo) (tags : List String) (date : Date)
    (rate : RateDef)
    (hk : c.rate ≠ "") (hr : rateDef cat.rates c.rate = some rate) (hx : rate.exempt = false)
    (hv : rate.values ≠ [])
    (hval : value rate.values date tags (mergedExt c rate) = none) :
    prepareRate cat c tags date = .error .invalidDate := by
  have hk' : (c.rate == "") = false := by simpa using hk
  have hv' : rate.values.isEmpty = false := by
    cases h : rate.values with
    | nil => exact absurd h hv
    | cons _ _ => rfl
  unfold prepareRate
  simp only [hk', hr, hx, hv', hval]
  rfl

/-- the tax date is the value date when the document has one, else the issue date -/
theorem taxDate_value (v i : Date) : taxDate (some v) i = v := rfl
theorem taxDate_issue (i : Date) : taxDate none i = i := rfl

/-! ## non-vacuity: a strictly descending table with a qualified row -/

private def ex : List RateValue :=
  [ { tags := [], ext := [("r", "A")], since := some ⟨2024, 10, 1⟩, percent := (4, 2), surcharge := none, disabled := false },
    { tags := [], ext := [], since := some ⟨2012, 9, 1⟩, percent := (21, 2), surcharge := some (52, 3), disabled := false },
    { tags := [], ext := [], since := some ⟨2010, 7, 1⟩, percent := (18, 2), surcharge := none, disabled := false } ]

example : (∀ v ∈ ex, sinceReal v = true) ∧ descendingFor ex [] [("r", "A")] = true ∧ descendingFor ex [] [] = true := by decide
example : (value ex ⟨2012, 9, 1⟩ [] []).map (·.percent) = some (21, 2) := by decide
example : (value ex ⟨2012, 8, 31⟩ [] []).map (·.percent) = some (18, 2) := by decide
example : value ex ⟨2010, 6, 30⟩ [] [] = none := by decide
example : (value ex ⟨2024, 10, 1⟩ [] [("r", "A")]).map (·.percent) = some (4, 2) := by decide
example : (inForce ex ⟨2024, 9, 30⟩ [] [("r", "A")]).map (·.percent) = some (21, 2) := by decide

/-! ## obligations over the tables regenerated from /repo on every run -/
namespace Expect
open GoblVerif.Generated.Rates

/-- every start date of every shipped table is a real calendar day -/
theorem all_dates_real : (allRates registry).all (fun r => r.values.all sinceReal) = true := by
  decide +kernel

/-- **every shipped rate's values, restricted to each tag/extension filter that
    occurs in it, are strictly descending in date with an undated value last** —
    stronger than `checkRateValuesOrder`, which skips qualified rows.  The only
    tables left out are those of the shape `qualifiedTie` (a qualified row with
    the very start date of the unqualified fall-back row: known finding
    `qualified_row_shares_start_with_fallback`); see the next theorem for them. -/
theorem all_tables_descending :
    (allRates registry).all (fun r => qualifiedTie r.values || tableDescending r.values) = true := by
  decide +kernel

/-- the left-out tables are still in (non-strictly) descending order under every
    filter, so `value_isInForce_of_weaklyDescending` applies to them: the code
    returns the first listed of the values sharing the latest start date -/
theorem tied_tables_weakly_descending :
    (allRates registry).all (fun r => !qualifiedTie r.values || tableWeaklyDescending r.values) = true := by
  decide +kernel

/-- the table published under `data/regimes/<name>.json` for a registered regime -/
def jsonFor (name : String) : Option RegimeTable :=
  ((jsonFiles.zip json).find? (fun p => p.1 == name)).map (·.2)

/-- **data/regimes JSON tables = in-code tables**: every registered regime is
    published under its file name with exactly the categories, rate keys, values,
    tags, extensions, start dates, percentages and surcharges the code holds.
    (Published files that no registered regime produces are C19's business.) -/
theorem json_equals_registry :
    (registryFiles.zip registry).all (fun p => jsonFor p.1 == some p.2) = true ∧
    registryFiles.length = registry.length ∧ jsonFiles.length = json.length := by
  decide +kernel

/-- the end-to-end statement for the shipped tables: for every registered rate
    (outside the known-finding shape), every filter occurring in it and EVERY
    date, `RateDef.Value` is the value in force -/
theorem shipped_value_eq_inForce (r : RateDef) (hr : r ∈ allRates registry)
    (hq : qualifiedTie r.values = false) (f : List String × Ext) (hf : f ∈ filtersOf r.values) (d : Date) :
    value r.values d f.1 f.2 = inForce r.values d f.1 f.2 := by
  have h1 := List.all_eq_true.mp all_dates_real r hr
  have h2 := List.all_eq_true.mp all_tables_descending r hr
  rw [hq, Bool.false_or] at h2
  apply value_eq_inForce
  · exact fun v hv => List.all_eq_true.mp h1 v hv
  · exact List.all_eq_true.mp h2 f hf

/-- … and a table without qualified rows answers the value in force for ANY
    tag list and extension map, not only the occurring filters -/
theorem shipped_unqualified_value_eq_inForce (r : RateDef) (hr : r ∈ allRates registry)
    (hu : r.values.all (fun v => !isQualified v) = true)
    (d : Date) (tags : List String) (ext : Ext) :
    value r.values d tags ext = inForce r.values d tags ext := by
  have h1 := List.all_eq_true.mp all_dates_real r hr
  have h2 := List.all_eq_true.mp all_tables_descending r hr
  have happ : ∀ t e, ∀ v ∈ r.values, applies v t e = true := by
    intro t e v hv
    have := List.all_eq_true.mp hu v hv
    unfold isQualified at this
    unfold applies tagsApply extApply
    cases h1 : v.tags.isEmpty <;> cases h2 : v.ext.isEmpty <;> simp_all
  have hnt : qualifiedTie r.values = false := by
    unfold qualifiedTie
    rw [List.any_eq_false]
    intro v hv
    have := List.all_eq_true.mp hu v hv
    simp only [Bool.not_eq_true'] at this
    simp [this]
  rw [hnt, Bool.false_or] at h2
  have hmem : (([] : List String), ([] : Ext)) ∈ filtersOf r.values := by
    unfold filtersOf
    simp
  have h3 := List.all_eq_true.mp h2 _ hmem
  apply value_eq_inForce
  · exact fun v hv => List.all_eq_true.mp h1 v hv
  · unfold descendingFor startsFor at h3 ⊢
    have e1 : (r.values.filter fun v => applies v tags ext) = r.values :=
      List.filter_eq_self.mpr (happ tags ext)
    have e2 : (r.values.filter fun v => applies v [] []) = r.values :=
      List.filter_eq_self.mpr (happ [] [])
    rw [e1]; rw [e2] at h3; exact h3

end Expect

/-! ## the model is the source

`Generated/RatesSrc.lean` is regenerated on every run from /repo/tax
(regime_def.go, regimes.go, extensions.go) by the go2lean translator
(harness/cmd/extract/go2lean*.go, configuration ratessrc.go): one Lean
definition per Go function, loops, early returns and `continue` included.  The
Go structs are mapped onto the records of Model/Rates.lean (`struct_*_as_mapped`
pins the Go declarations, the generated `example`s check the field types).
The theorems `src_*` below prove, for ALL arguments, that each regenerated
definition equals the hand-written model function the theorems of this file
are about; `spec_of_the_source_*` restate the main ones over the regenerated
code.  An edit of one of these Go functions changes the regenerated definition
and the corresponding `src_*` proof no longer closes.

Trusted: the translator's reading of Go (header of Generated/RatesSrc.lean);
the assumptions it lists and `assumptions_as_reviewed` pins — the slices of
pointers hold no nil (a nil row makes the Go code panic: C14), maps are
association lists with distinct keys (the one `range` over a map is shown
order-independent in `src_Contains_map_order`, lookups in `map_lookup_order`),
`cal.Date` / `civil.Date` are the model's `Date` and `IsValid` / `After` /
`Before` / `Key.Has` mean `Date.isValid` / `after` / `before` / `keyHas` (the
differential run samples these four against the real library). -/
namespace Src
open GoblVerif.Generated GoblVerif.GoSem GoblVerif.Proofs.RatesSrc

/-! ### the translation is complete, and the struct mapping is what the Go declarations say -/

theorem all_translated : RatesSrc.untranslated = [] := by decide

theorem translated_as_listed :
    RatesSrc.translated = ["RateValueDef.hasAnyTag", "Extensions.Contains", "RateDef.Value",
      "CategoryDef.RateDef", "RegimeDef.CategoryDef", "Combo.prepareRate"] := by decide

theorem struct_RateValueDef_as_mapped :
    RatesSrc.struct_RateValueDef = [("Tags", "[]cbc.Key"), ("Ext", "Extensions"), ("Since", "*cal.Date"),
      ("Percent", "num.Percentage"), ("Surcharge", "*num.Percentage"), ("Disabled", "bool")] ∧
    RatesSrc.structLean_RateValueDef = ("GoblVerif.Rates.RateValue", ["tags", "ext", "since", "percent", "surcharge", "disabled"]) ∧
    RatesSrc.structOmitted_RateValueDef = [] := by decide

/-- `Name`, `Description` (translations) and `Meta` are not represented; no translated function reads them -/
theorem struct_RateDef_as_mapped :
    RatesSrc.struct_RateDef = [("Key", "cbc.Key"), ("Name", "i18n.String"), ("Description", "i18n.String"),
      ("Exempt", "bool"), ("Values", "[]*RateValueDef"), ("Ext", "Extensions"), ("Meta", "cbc.Meta")] ∧
    RatesSrc.structLean_RateDef = ("GoblVerif.Rates.RateDef", ["key", "exempt", "values", "ext"]) ∧
    RatesSrc.structOmitted_RateDef = ["Name", "Description", "Meta"] := by decide

theorem struct_CategoryDef_as_mapped :
    RatesSrc.struct_CategoryDef = [("Code", "cbc.Code"), ("Name", "i18n.String"), ("Title", "i18n.String"),
      ("Description", "*i18n.String"), ("Retained", "bool"), ("Rates", "[]*RateDef"), ("Extensions", "[]cbc.Key"),
      ("Map", "cbc.CodeMap"), ("Sources", "[]*cbc.Source"), ("Ext", "Extensions"), ("Meta", "cbc.Meta")] ∧
    RatesSrc.structLean_CategoryDef = ("GoblVerif.Rates.CategoryDef", ["code", "retained", "rates"]) ∧
    RatesSrc.structOmitted_CategoryDef = ["Name", "Title", "Description", "Extensions", "Map", "Sources", "Ext", "Meta"] := by
  decide

theorem struct_RegimeDef_as_mapped :
    RatesSrc.structLean_RegimeDef = ("GoblVerif.Rates.RegimeTable", ["country", "alt", "zone", "categories"]) ∧
    RatesSrc.struct_RegimeDef.filter (fun f => f.1 ∈ ["Country", "AltCountryCodes", "Zone", "Categories"]) =
      [("Country", "l10n.TaxCountryCode"), ("AltCountryCodes", "[]l10n.Code"), ("Zone", "l10n.Code"),
       ("Categories", "[]*CategoryDef")] ∧
    RatesSrc.structOmitted_RegimeDef.length + 4 = RatesSrc.struct_RegimeDef.length := by decide

/-- the unexported `retained` flag is not part of C12 and is not represented -/
theorem struct_Combo_as_mapped :
    RatesSrc.struct_Combo = [("Category", "cbc.Code"), ("Country", "l10n.TaxCountryCode"), ("Rate", "cbc.Key"),
      ("Percent", "*num.Percentage"), ("Surcharge", "*num.Percentage"), ("Ext", "Extensions"), ("retained", "bool")] ∧
    RatesSrc.structLean_Combo = ("GoblVerif.Rates.Combo", ["category", "country", "rate", "percent", "surcharge", "ext"]) ∧
    RatesSrc.structOmitted_Combo = ["retained"] := by decide

/-- what the translation assumes beyond its general reading of Go: which slices
    hold no nil, which loops range over a map (`src_Contains_map_order`,
    `src_prepareRate_map_order`), where a map is written (`c.Ext`, the combo's
    own map: `prepareRate` is the only holder the model knows) and nil-tested
    (`if c.Ext == nil { c.Ext = make(Extensions) }`: the same for an empty map),
    that `prepareRate` returns its receiver, which types are opaque and what the
    primitives mean; no unsigned subtraction, no condition-controlled loop -/
theorem assumptions_as_reviewed :
    RatesSrc.nonNilElems = ["[]*CategoryDef", "[]*RateDef", "[]*RateValueDef"] ∧
    RatesSrc.mapRanges = [("Extensions.Contains", "other"), ("Combo.prepareRate", "rate.Ext")] ∧
    RatesSrc.mapWrites = [("Combo.prepareRate", "c.Ext[k]")] ∧
    RatesSrc.mapNilTests = [("Combo.prepareRate", "c.Ext == nil")] ∧
    RatesSrc.inOutParams = [("Combo.prepareRate", "c")] ∧
    RatesSrc.namedTypes = [("cal.Date", "struct{civil.Date}", "GoblVerif.Rates.Date"),
      ("error", "interface{Error() string}", "Option String"),
      ("num.Percentage", "struct{amount num.Amount}", "GoblVerif.Rates.Pct")] ∧
    RatesSrc.primitives = [("Error.WithMessage", "(some {0} : Option String)"),
      ("cal.Date.Date", "{0}"),
      ("cbc.Key.Has", "GoblVerif.Rates.keyHas {0} {1}"),
      ("civil.Date.After", "GoblVerif.Rates.Date.after {0} {1}"),
      ("civil.Date.Before", "GoblVerif.Rates.Date.before {0} {1}"),
      ("civil.Date.IsValid", "GoblVerif.Rates.Date.isValid {0}")] ∧
    RatesSrc.natSubs = [] ∧ RatesSrc.fuelChecks = [] := by decide

/-! ### regenerated definition = model, for all arguments -/

/-- `(*RateValueDef).hasAnyTag` -/
theorem src_hasAnyTag (rv : RateValue) (tags : List String) :
    RatesSrc.RateValueDef_hasAnyTag rv tags = hasAnyTag rv.tags tags := by
  unfold RatesSrc.RateValueDef_hasAnyTag hasAnyTag
  simp only [forIn_list_id, pure_bind]
  simp only [Id.run, id_pure, forList_any]
  rw [forList_stateless _ (fun t => if (tags.any fun tag => t == tag) = true then some true else none)
    (by intro x s; by_cases h : (tags.any fun tag => x == tag) = true <;> simp_all)]
  rw [any_findSome rv.tags (fun t => tags.any fun tag => t == tag)]
  cases (rv.tags.any fun t => tags.any fun tag => t == tag) <;> rfl

/-- `tax.Extensions.Contains` -/
theorem src_Contains (em other : Ext) : RatesSrc.Extensions_Contains em other = extContains em other := by
  unfold RatesSrc.Extensions_Contains extContains
  simp only [forIn_list_id, pure_bind]
  simp only [Id.run, id_pure]
  by_cases he : em = []
  · subst he; simp
  · have hl : ¬ ((em.length : Int) = 0) := by
      intro h; apply he; exact List.length_eq_zero_iff.mp (by omega)
    have hi : em.isEmpty = false := by simpa using he
    simp only [hl, hi, if_false]
    rw [forList_stateless _ (fun kv => if (extLookup em kv.1 == some kv.2) = true then none else some false)
      (by
        intro x s
        rw [extLookup_eq_lookup]
        cases hlk : List.lookup x.1 em with
        | none => simp
        | some v => by_cases hv : v = x.2 <;> simp [hv])]
    rw [all_findSome other (fun kv => extLookup em kv.1 == some kv.2)]
    cases (other.all fun kv => extLookup em kv.1 == some kv.2) <;> rfl

/-- the obligation of `mapRanges`: Go ranges over `other` in an unspecified
    order, the translation in list order — the answer is the same for every order -/
theorem src_Contains_map_order (em other other' : Ext) (hp : other.Perm other') :
    RatesSrc.Extensions_Contains em other' = RatesSrc.Extensions_Contains em other := by
  rw [src_Contains, src_Contains]
  unfold extContains
  rw [hp.all_eq]

/-- … and reading the receiver does not depend on how its association list is
    ordered either (distinct keys: the invariant of a Go map) -/
theorem map_lookup_order (em em' other : Ext) (hp : em.Perm em') (hn : (em.map Prod.fst).Nodup) :
    RatesSrc.Extensions_Contains em' other = RatesSrc.Extensions_Contains em other := by
  rw [src_Contains, src_Contains]
  unfold extContains
  rw [hp.isEmpty_eq]
  congr 2
  funext kv
  rw [extLookup_eq_lookup, extLookup_eq_lookup, lookup_perm hp hn]

/-- `RateDef.Value` = the first row that is applicable and has started -/
theorem value_eq_find_first (vals : List RateValue) (date : Date) (tags : List String) (ext : Ext) :
    value vals date tags ext = vals.find? (fun rv => applicable rv tags ext && started rv date) := by
  induction vals with
  | nil => rfl
  | cons rv rest ih =>
    simp only [value, List.find?, applicable, ih]
    by_cases h1 : rv.tags.isEmpty = true <;> by_cases h2 : hasAnyTag rv.tags tags = true <;>
      by_cases h3 : rv.ext.isEmpty = true <;> by_cases h4 : extContains ext rv.ext = true <;>
      by_cases h5 : started rv date = true <;> simp [h1, h2, h3, h4, h5]

/-- **`(*RateDef).Value`, regenerated from the source, is the model's `value`**
    — for every table, date, tag list and extension map -/
theorem src_Value (r : RateDef) (date : Date) (tags : List String) (ext : Ext) :
    RatesSrc.RateDef_Value r date tags ext = value r.values date tags ext := by
  unfold RatesSrc.RateDef_Value
  simp only [forIn_list_id, pure_bind]
  simp only [Id.run, id_pure, src_hasAnyTag, src_Contains]
  rw [forList_stateless _ (fun rv => if (applicable rv tags ext && started rv date) = true then some (some rv) else none)
    (by
      intro x s
      have e1 : ((x.tags.length : Int) > 0) ↔ x.tags.isEmpty = false := by
        cases x.tags <;> simp
      have e2 : ((x.ext.length : Int) > 0) ↔ x.ext.isEmpty = false := by
        cases x.ext <;> simp
      have e3 : ((x.since.isNone = true ∨ ¬x.since.get!.isValid = true) ∨ ¬x.since.get!.after date = true)
          ↔ started x date = true := by
        unfold started
        cases x.since <;> simp
      simp only [e1, e2, e3, applicable]
      by_cases h1 : x.tags.isEmpty = true <;> by_cases h2 : hasAnyTag x.tags tags = true <;>
        by_cases h3 : x.ext.isEmpty = true <;> by_cases h4 : extContains ext x.ext = true <;>
        by_cases h5 : started x date = true <;> simp [h1, h2, h3, h4, h5])]
  rw [value_eq_find_first]
  generalize r.values = vals
  induction vals with
  | nil => rfl
  | cons a l ih =>
    simp only [List.findSome?, List.find?]
    cases h : (applicable a tags ext && started a date)
    · simpa using ih
    · simp

/-- `(*CategoryDef).RateDef`: exact key first, then `key.Has` -/
theorem src_RateDef (c : CategoryDef) (key : String) :
    RatesSrc.CategoryDef_RateDef c key = rateDef c.rates key := by
  unfold RatesSrc.CategoryDef_RateDef rateDef
  simp only [forIn_list_id, pure_bind]
  simp only [Id.run, id_pure]
  have find1 : ∀ (l : List RateDef) (p : RateDef → Bool),
      (l.findSome? fun r => if p r = true then some (some r) else none) = (l.find? p).map some := by
    intro l p
    induction l with
    | nil => rfl
    | cons a l ih => simp only [List.findSome?, List.find?]; cases h : p a <;> simp [ih]
  rw [forList_stateless _ (fun r => if (r.key == key) = true then some (some r) else none)
      (by intro x s; by_cases h : x.key = key <;> simp [h]),
    forList_stateless _ (fun r => if keyHas key r.key = true then some (some r) else none)
      (by intro x s; by_cases h : keyHas key x.key = true <;> simp [h]),
    find1, find1]
  cases List.find? (fun r => r.key == key) c.rates with
  | some r => rfl
  | none => cases List.find? (fun r => keyHas key r.key) c.rates <;> rfl

/-- `(*RegimeDef).CategoryDef` (a nil regime has no categories) -/
theorem src_CategoryDef (r : RegimeTable) (code : String) :
    RatesSrc.RegimeDef_CategoryDef (some r) code = categoryDef r.categories code ∧
    RatesSrc.RegimeDef_CategoryDef none code = none := by
  constructor
  · unfold RatesSrc.RegimeDef_CategoryDef categoryDef
    simp only [forIn_list_id, pure_bind]
    simp only [Id.run, id_pure]
    have find1 : ∀ (l : List CategoryDef) (p : CategoryDef → Bool),
        (l.findSome? fun r => if p r = true then some (some r) else none) = (l.find? p).map some := by
      intro l p
      induction l with
      | nil => rfl
      | cons a l ih => simp only [List.findSome?, List.find?]; cases h : p a <;> simp [ih]
    simp only [Option.isNone_some, Bool.false_eq_true, if_false, Option.get!_some]
    rw [forList_stateless _ (fun c => if (c.code == code) = true then some (some c) else none)
        (by intro x s; by_cases h : x.code = code <;> simp [h]), find1]
    cases List.find? (fun c => c.code == code) r.categories <;> rfl
  · rfl


/-! ### `(*Combo).prepareRate` -/

/-- `for k, v := range rate.Ext { c.Ext[k] = v }` is the merge `mergeM` -/
theorem src_merge_loop (l : Ext) (c0 : Combo) :
    forList (fun (x : String × String) (s : Combo) => ForInStep.yield { s with ext := mapSet s.ext x.1 x.2 }) l c0
      = { c0 with ext := mergeM c0.ext l } := by
  rw [forList_fold (fun (s : Combo) (x : String × String) => { s with ext := mapSet s.ext x.1 x.2 })]
  unfold mergeM
  induction l generalizing c0 with
  | nil => rfl
  | cons a l ih => simp only [List.foldl_cons]; rw [ih]

/-- the part of `prepareRate` after the extensions have been merged (used three times below) -/
local macro "prepare_tail " rate:ident ", " date:ident ", " tags:ident ", " E:term : tactic => `(tactic| (
  by_cases hx : ($rate).exempt = true
  · simp only [hx, if_true]
  · simp only [hx]
    have hl : ((($rate).values.length : Int) = 0) ↔ ($rate).values.isEmpty = true := by
      cases ($rate).values <;> simp <;> omega
    simp only [hl]
    by_cases hv : ($rate).values.isEmpty = true
    · simp only [hv, if_true]
    · simp only [hv, if_false, Bool.false_eq_true]
      cases value ($rate).values $date $tags $E with
      | none => rfl
      | some v =>
        simp only [Option.isNone_some, Bool.false_eq_true, if_false, Option.get!_some]
        cases v with
        | mk t e s p sur d => cases sur <;> rfl))

/-- **`(*Combo).prepareRate`, regenerated from the source** (the receiver as an
    in-out parameter: the result is the error key and the combo as the call
    leaves it) **is `prepareRateM`**, the same function written as one
    expression — for every combo, category, tag list and date -/
theorem src_prepareRate (c : Combo) (cat : CategoryDef) (tags : List String) (date : Date) :
    RatesSrc.Combo_prepareRate c cat tags date = prepareRateM cat c tags date := by
  unfold RatesSrc.Combo_prepareRate prepareRateM prepareWith
  simp only [forIn_list_id, pure_bind]
  simp only [Id.run, id_pure, src_merge_loop, src_RateDef, src_Value]
  by_cases hk : c.rate = ""
  · simp [hk]
  · have hk' : (c.rate == "") = false := by simpa using hk
    simp only [hk, hk', if_false, Bool.false_eq_true]
    obtain hr | ⟨rate, hr⟩ : rateDef cat.rates c.rate = none ∨ ∃ r, rateDef cat.rates c.rate = some r := by
      cases rateDef cat.rates c.rate <;> simp
    · simp [hr]
    · have h1 : (rateDef cat.rates c.rate).isNone = false := by rw [hr]; rfl
      have h2 : (rateDef cat.rates c.rate).get! = rate := by rw [hr]; rfl
      simp only [h1, h2, Bool.false_eq_true, if_false]
      simp only [hr]
      unfold mergedExtM
      by_cases hcond : c.country = "" ∧ (rate.ext.length : Int) > 0
      · have hM : (c.country == "" && !rate.ext.isEmpty) = true := by
          obtain ⟨h1, h2⟩ := hcond
          have : rate.ext.isEmpty = false := by
            cases hre : rate.ext with
            | nil => rw [hre] at h2; simp at h2
            | cons _ _ => rfl
          simp [h1, this]
        simp only [hM, ↓reduceIte]
        simp only [hcond, and_self, ↓reduceIte]
        by_cases he : c.ext.isEmpty = true
        · have hce : c.ext = [] := List.isEmpty_iff.mp he
          rw [if_pos he]
          rw [hce]
          prepare_tail rate, date, tags, (mergeM [] rate.ext)
        · rw [if_neg he]
          prepare_tail rate, date, tags, (mergeM c.ext rate.ext)
      · have hM : (c.country == "" && !rate.ext.isEmpty) = false := by
          by_cases h1 : c.country = ""
          · have h2 : ¬ ((rate.ext.length : Int) > 0) := fun h => hcond ⟨h1, h⟩
            have : rate.ext = [] := by
              cases hre : rate.ext with
              | nil => rfl
              | cons _ _ => rw [hre] at h2; simp at h2
            simp [this]
          · simp [h1]
        simp only [hM, Bool.false_eq_true, ↓reduceIte]
        simp only [hcond, ↓reduceIte]
        prepare_tail rate, date, tags, c.ext

/-- **the regenerated `prepareRate` agrees with the model's `prepareRate`**: it
    fails exactly when the model does and with the same error; otherwise the
    combo it leaves has the model's category, country, rate key, percent and
    surcharge and the same extension map (`MapEq`: the model keeps the
    association list sorted, the code appends) -/
theorem src_prepareRate_model (c : Combo) (cat : CategoryDef) (tags : List String) (date : Date) :
    match prepareRate cat c tags date with
    | .error e => (RatesSrc.Combo_prepareRate c cat tags date).1 = some (errKey e)
    | .ok c' =>
      (RatesSrc.Combo_prepareRate c cat tags date).1 = none ∧
      (RatesSrc.Combo_prepareRate c cat tags date).2.category = c'.category ∧
      (RatesSrc.Combo_prepareRate c cat tags date).2.country = c'.country ∧
      (RatesSrc.Combo_prepareRate c cat tags date).2.rate = c'.rate ∧
      (RatesSrc.Combo_prepareRate c cat tags date).2.percent = c'.percent ∧
      (RatesSrc.Combo_prepareRate c cat tags date).2.surcharge = c'.surcharge ∧
      MapEq (RatesSrc.Combo_prepareRate c cat tags date).2.ext c'.ext := by
  rw [src_prepareRate]; exact prepareRateM_agrees cat c tags date

/-- the obligation of `mapRanges` for `range rate.Ext`: whatever the order in
    which Go visits the rate's extensions (distinct keys), the part of
    `prepareRate` after the lookup of the rate gives the same error, percent,
    surcharge and extension map -/
theorem src_prepareRate_map_order (rate : RateDef) (e' : Ext) (hp : rate.ext.Perm e')
    (hn : (rate.ext.map Prod.fst).Nodup) (c : Combo) (tags : List String) (date : Date) :
    (prepareWith { rate with ext := e' } c tags date).1 = (prepareWith rate c tags date).1 ∧
    (prepareWith { rate with ext := e' } c tags date).2.percent = (prepareWith rate c tags date).2.percent ∧
    (prepareWith { rate with ext := e' } c tags date).2.surcharge = (prepareWith rate c tags date).2.surcharge ∧
    MapEq (prepareWith { rate with ext := e' } c tags date).2.ext (prepareWith rate c tags date).2.ext := by
  have h := prepareWith_order rate e' hp hn c tags date
  exact ⟨h.1, h.2.2.2.2.1, h.2.2.2.2.2.1, h.2.2.2.2.2.2⟩

example : ([("a", "1"), ("b", "2")] : Ext).Perm [("b", "2"), ("a", "1")] ∧
    (([("a", "1"), ("b", "2")] : Ext).map Prod.fst).Nodup := by decide

/-- … and everything that reads the combo's extensions afterwards reads them as a map -/
theorem src_Value_reads_ext_as_map (r : RateDef) (date : Date) (tags : List String) (a b : Ext) (h : MapEq a b) :
    RatesSrc.RateDef_Value r date tags a = RatesSrc.RateDef_Value r date tags b := by
  rw [src_Value, src_Value]; exact value_mapEq h r.values date tags

example : MapEq [("a", "1"), ("b", "2")] [("b", "2"), ("a", "1")] := by
  intro k
  rw [lookup_cons_ite, lookup_cons_ite, lookup_cons_ite, lookup_cons_ite]
  by_cases h1 : k = "a"
  · subst h1; decide
  · by_cases h2 : k = "b"
    · subst h2; decide
    · simp [h1, h2]

/-! ### the theorems of this file, read off the regenerated code -/

/-- **the regenerated `RateDef.Value` returns the value in force** (see `value_eq_inForce`) -/
theorem spec_of_the_source_Value (r : RateDef) (d : Date) (tags : List String) (ext : Ext)
    (hreal : ∀ v ∈ r.values, sinceReal v = true)
    (hdesc : descendingFor r.values tags ext = true) :
    RatesSrc.RateDef_Value r d tags ext = inForce r.values d tags ext := by
  rw [src_Value]; exact value_eq_inForce r.values d tags ext hreal hdesc

example : (∀ v ∈ ex, sinceReal v = true) ∧ descendingFor ex [] [] = true ∧
    (RatesSrc.RateDef_Value ⟨"standard", false, [], ex⟩ ⟨2012, 9, 1⟩ [] []).map (·.percent) = some (21, 2) := by decide

/-- a value takes effect on its start date itself, in the regenerated code -/
theorem spec_of_the_source_start_date (r : RateDef) (d : Date) (tags : List String) (ext : Ext)
    (hreal : ∀ v ∈ r.values, sinceReal v = true)
    (hdesc : descendingFor r.values tags ext = true)
    (v : RateValue) (hv : v ∈ r.values) (ha : applies v tags ext = true) (hs : v.since = some d) :
    RatesSrc.RateDef_Value r d tags ext = some v := by
  rw [src_Value]; exact value_on_start_date r.values d tags ext hreal hdesc v hv ha hs

/-- a date before the first value gives no value, in the regenerated code -/
theorem spec_of_the_source_before_first (r : RateDef) (d : Date) (tags : List String) (ext : Ext)
    (hbefore : ∀ v ∈ r.values, applies v tags ext = true →
      ∃ s, v.since = some s ∧ realDay s = true ∧ dateLt d s = true) :
    RatesSrc.RateDef_Value r d tags ext = none := by
  rw [src_Value]; exact value_before_first r.values d tags ext hbefore

example : RatesSrc.RateDef_Value ⟨"standard", false, [], ex⟩ ⟨2010, 6, 30⟩ [] [] = none := by decide

/-- for every shipped rate (outside the known-finding shape), every filter that
    occurs in it and EVERY date, the regenerated `RateDef.Value` is the value in force -/
theorem spec_of_the_source_shipped (r : RateDef) (hr : r ∈ allRates Generated.Rates.registry)
    (hq : qualifiedTie r.values = false) (f : List String × Ext) (hf : f ∈ filtersOf r.values) (d : Date) :
    RatesSrc.RateDef_Value r d f.1 f.2 = inForce r.values d f.1 f.2 := by
  rw [src_Value]; exact Expect.shipped_value_eq_inForce r hr hq f hf d

/-- exempt keys yield no percentage and no surcharge, in the regenerated code -/
theorem spec_of_the_source_exempt (cat : CategoryDef) (c : Combo) (tags : List String) (date : Date) (rate : RateDef)
    (hk : c.rate ≠ "") (hr : rateDef cat.rates c.rate = some rate) (hx : rate.exempt = true) :
    (RatesSrc.Combo_prepareRate c cat tags date).1 = none ∧
    (RatesSrc.Combo_prepareRate c cat tags date).2.percent = none ∧
    (RatesSrc.Combo_prepareRate c cat tags date).2.surcharge = none := by
  obtain ⟨c', h1, h2, h3⟩ := exempt_no_percent cat c tags date rate hk hr hx
  have h := src_prepareRate_model c cat tags date
  rw [h1] at h
  exact ⟨h.1, by rw [h.2.2.2.2.1, h2], by rw [h.2.2.2.2.2.1, h3]⟩

/-- the combo receives the percent and surcharge of the row `RateDef.Value`
    picks, in the regenerated code -/
theorem spec_of_the_source_uses_value (cat : CategoryDef) (c : Combo) (tags : List String) (date : Date)
    (rate : RateDef) (v : RateValue)
    (hk : c.rate ≠ "") (hr : rateDef cat.rates c.rate = some rate) (hx : rate.exempt = false)
    (hval : value rate.values date tags (mergedExt c rate) = some v) :
    (RatesSrc.Combo_prepareRate c cat tags date).1 = none ∧
    (RatesSrc.Combo_prepareRate c cat tags date).2.percent = some v.percent ∧
    (RatesSrc.Combo_prepareRate c cat tags date).2.surcharge = v.surcharge := by
  obtain ⟨c', h1, h2, h3⟩ := prepareRate_uses_value cat c tags date rate v hk hr hx hval
  have h := src_prepareRate_model c cat tags date
  rw [h1] at h
  exact ⟨h.1, by rw [h.2.2.2.2.1, h2], by rw [h.2.2.2.2.2.1, h3]⟩

/-- no value for the date is the error `invalid-date`, not a guess, in the regenerated code -/
theorem spec_of_the_source_before_first_is_error (cat : CategoryDef) (c : Combo) (tags : List String) (date : Date)
    (rate : RateDef)
    (hk : c.rate ≠ "") (hr : rateDef cat.rates c.rate = some rate) (hx : rate.exempt = false)
    (hv : rate.values ≠ [])
    (hval : value rate.values date tags (mergedExt c rate) = none) :
    (RatesSrc.Combo_prepareRate c cat tags date).1 = some "invalid-date" := by
  have h1 := prepareRate_before_first_is_error cat c tags date rate hk hr hx hv hval
  have h := src_prepareRate_model c cat tags date
  rw [h1] at h
  exact h

example : (RatesSrc.Combo_prepareRate ⟨"VAT", "", "standard", none, none, []⟩
      ⟨"VAT", false, [⟨"exempt", true, [], []⟩, ⟨"standard", false, [("k", "v")], ex⟩]⟩ [] ⟨2012, 9, 1⟩)
    = (none, ⟨"VAT", "", "standard", some (21, 2), some (52, 3), [("k", "v")]⟩) ∧
    (RatesSrc.Combo_prepareRate ⟨"VAT", "", "standard", none, none, []⟩
      ⟨"VAT", false, [⟨"standard", false, [], ex⟩]⟩ [] ⟨2010, 6, 30⟩).1 = some "invalid-date" ∧
    (RatesSrc.Combo_prepareRate ⟨"VAT", "", "exempt", some (21, 2), none, []⟩
      ⟨"VAT", false, [⟨"exempt", true, [], ex⟩]⟩ [] ⟨2012, 9, 1⟩).2.percent = none := by decide

end Src

end GoblVerif.Props.C12
