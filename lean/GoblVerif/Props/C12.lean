/-
  C12 — the tax rate applied on a date is the one in force on that date.

  Model: Model/Rates.lean (RateDef.Value, CategoryDef.RateDef, Combo.prepareRate,
  the tax-date choice).  Specification: Spec/C12.lean (`inForce`, `IsInForce`,
  `strictDesc`).  Helper lemmas: Proofs/Rates.lean.

  General theorems hold for ALL tables, dates, tag lists and extension maps.
  The `Expect` namespace re-proves, on every run, the obligations over the
  tables regenerated from /repo (registry and data/regimes/*.json).
-/
import GoblVerif.Spec.C12
import GoblVerif.Proofs.Rates
import GoblVerif.Generated.RateTables

namespace GoblVerif.Props.C12
open GoblVerif.Rates GoblVerif.Spec.C12 GoblVerif.Proofs.Rates

/-! ## `inForce` meets its relational description -/

/-- what `inForce` returns applies, has taken effect, and nothing else that
    applies and has taken effect starts later -/
theorem inForce_isInForce (vals : List RateValue) (d : Date) (tags : List String) (ext : Ext) (r : RateValue)
    (h : inForce vals d tags ext = some r) : IsInForce vals d tags ext r := by
  unfold inForce at h
  have hm := latest_mem h
  unfold candidates at hm
  rw [List.mem_filter, Bool.and_eq_true] at hm
  refine ⟨hm.1, hm.2.1, hm.2.2, ?_⟩
  intro r' hr' ha hb
  apply latest_ge h
  unfold candidates
  rw [List.mem_filter, Bool.and_eq_true]
  exact ⟨hr', ha, hb⟩

/-- `inForce` answers `none` only when nothing applies that has taken effect -/
theorem inForce_none_iff (vals : List RateValue) (d : Date) (tags : List String) (ext : Ext) :
    inForce vals d tags ext = none ↔ ∀ v ∈ vals, applies v tags ext = true → onOrBefore v d = false := by
  unfold inForce
  constructor
  · intro h v hv ha
    cases hb : onOrBefore v d
    · rfl
    · exfalso
      have hc : v ∈ candidates vals d tags ext := by
        unfold candidates; rw [List.mem_filter, Bool.and_eq_true]; exact ⟨hv, ha, hb⟩
      cases hl : candidates vals d tags ext with
      | nil => rw [hl] at hc; cases hc
      | cons a t =>
        rw [hl] at h
        unfold latest at h
        cases h2 : latest t <;> simp [h2] at h
        split at h <;> cases h
  · intro h
    have : candidates vals d tags ext = [] := by
      unfold candidates
      rw [List.filter_eq_nil_iff]
      intro v hv
      cases ha : applies v tags ext
      · simp
      · simp [h v hv ha]
    rw [this]; rfl

/-- in a table that is strictly descending under the filter, two values in
    force are the same value: the choice is unambiguous -/
theorem isInForce_unique (vals : List RateValue) (d : Date) (tags : List String) (ext : Ext)
    (hdesc : descendingFor vals tags ext = true) (r r' : RateValue)
    (h : IsInForce vals d tags ext r) (h' : IsInForce vals d tags ext r') : r = r' := by
  have hs : r.since = r'.since :=
    startLe_antisymm (h'.2.2.2 r h.1 h.2.1 h.2.2.1) (h.2.2.2 r' h'.1 h'.2.1 h'.2.2.1)
  unfold descendingFor startsFor at hdesc
  have hr : r ∈ vals.filter (fun v => applies v tags ext) := List.mem_filter.mpr ⟨h.1, h.2.1⟩
  have hr' : r' ∈ vals.filter (fun v => applies v tags ext) := List.mem_filter.mpr ⟨h'.1, h'.2.1⟩
  generalize vals.filter (fun v => applies v tags ext) = A at hdesc hr hr'
  induction A with
  | nil => cases hr
  | cons x rest ih =>
    have hgt := strictDesc_head_gt (by simpa using hdesc)
    have htl : strictDesc (rest.map (·.since)) = true := strictDesc_tail (by simpa using hdesc)
    rcases List.mem_cons.mp hr with rfl | hr1 <;> rcases List.mem_cons.mp hr' with rfl | hr1'
    · rfl
    · have := hgt r'.since (List.mem_map.mpr ⟨r', hr1', rfl⟩)
      rw [← hs, startLt_irrefl] at this; cases this
    · have := hgt r.since (List.mem_map.mpr ⟨r, hr1, rfl⟩)
      rw [hs, startLt_irrefl] at this; cases this
    · exact ih htl hr1 hr1'

/-! ## the code's first-match lookup is the value in force -/

/-- **RateDef.Value = the value in force**, for every table whose applicable
    rows are in strictly descending date order, every date, tag list and
    extension map.  (`hreal`: the start dates are real calendar days — the Go
    code treats an impossible date such as 2021-02-30 as "undated".) -/
theorem value_eq_inForce (vals : List RateValue) (d : Date) (tags : List String) (ext : Ext)
    (hreal : ∀ v ∈ vals, sinceReal v = true)
    (hdesc : descendingFor vals tags ext = true) :
    value vals d tags ext = inForce vals d tags ext := by
  rw [value_eq_find]
  unfold inForce candidates
  have hf : (vals.filter fun v => applicable v tags ext) = vals.filter fun v => applies v tags ext := by
    congr 1; funext v; exact applicable_eq_applies v tags ext
  have hff : (vals.filter fun v => applies v tags ext && onOrBefore v d)
      = (vals.filter fun v => applies v tags ext).filter fun v => onOrBefore v d := by
    rw [List.filter_filter]; congr 1; funext v; exact Bool.and_comm _ _
  rw [hf, hff]
  unfold descendingFor startsFor at hdesc
  rw [latest_filter_eq_find _ _ (weakDesc_of_strictDesc hdesc)]
  apply find_congr
  intro v hv
  exact started_eq_onOrBefore v d (hreal v (List.mem_filter.mp hv).1)

/-- the same with equal neighbours allowed: the code then returns *a* value in
    force (the first listed of those sharing the latest start date) -/
theorem value_isInForce_of_weaklyDescending (vals : List RateValue) (d : Date) (tags : List String) (ext : Ext)
    (hreal : ∀ v ∈ vals, sinceReal v = true)
    (hdesc : weakDesc (startsFor vals tags ext) = true) (r : RateValue)
    (h : value vals d tags ext = some r) : IsInForce vals d tags ext r := by
  apply inForce_isInForce
  rw [← h, value_eq_find]
  unfold inForce candidates
  have hf : (vals.filter fun v => applicable v tags ext) = vals.filter fun v => applies v tags ext := by
    congr 1; funext v; exact applicable_eq_applies v tags ext
  have hff : (vals.filter fun v => applies v tags ext && onOrBefore v d)
      = (vals.filter fun v => applies v tags ext).filter fun v => onOrBefore v d := by
    rw [List.filter_filter]; congr 1; funext v; exact Bool.and_comm _ _
  rw [hf, hff]
  unfold startsFor at hdesc
  rw [latest_filter_eq_find _ _ hdesc]
  symm
  apply find_congr
  intro v hv
  exact started_eq_onOrBefore v d (hreal v (List.mem_filter.mp hv).1)

/-- **a value takes effect on its start date itself** -/
theorem value_on_start_date (vals : List RateValue) (d : Date) (tags : List String) (ext : Ext)
    (hreal : ∀ v ∈ vals, sinceReal v = true)
    (hdesc : descendingFor vals tags ext = true)
    (v : RateValue) (hv : v ∈ vals) (ha : applies v tags ext = true) (hs : v.since = some d) :
    value vals d tags ext = some v := by
  rw [value_eq_inForce vals d tags ext hreal hdesc]
  have hvb : onOrBefore v d = true := by unfold onOrBefore; rw [hs]; exact dateLe_refl d
  cases hi : inForce vals d tags ext with
  | none =>
    have := (inForce_none_iff vals d tags ext).mp hi v hv ha
    rw [hvb] at this; cases this
  | some r =>
    have hr := inForce_isInForce vals d tags ext r hi
    have hvI : IsInForce vals d tags ext v := by
      refine ⟨hv, ha, hvb, ?_⟩
      intro r' _ _ hb'
      rw [hs]
      unfold onOrBefore at hb'
      cases hrs : r'.since with
      | none => rfl
      | some s => rw [hrs] at hb'; exact hb'
    rw [isInForce_unique vals d tags ext hdesc r v hr hvI]

/-- **a date before the first value gives no value** (no ordering needed) -/
theorem value_before_first (vals : List RateValue) (d : Date) (tags : List String) (ext : Ext)
    (hbefore : ∀ v ∈ vals, applies v tags ext = true → ∃ s, v.since = some s ∧ realDay s = true ∧ dateLt d s = true) :
    value vals d tags ext = none := by
  rw [value_eq_find, List.find?_eq_none]
  intro v hv
  rw [List.mem_filter, applicable_eq_applies] at hv
  obtain ⟨s, hs, hr, hlt⟩ := hbefore v hv.1 hv.2
  unfold started
  rw [hs]
  simp only
  rw [isValid_eq_realDay, hr, not_after_eq_dateLe, not_dateLe_of_lt hlt]
  simp

/-- … and only then: `none` is never answered while some applicable value has
    already taken effect -/
theorem value_none_only_before_first (vals : List RateValue) (d : Date) (tags : List String) (ext : Ext)
    (hreal : ∀ v ∈ vals, sinceReal v = true)
    (h : value vals d tags ext = none) :
    ∀ v ∈ vals, applies v tags ext = true → ∃ s, v.since = some s ∧ dateLt d s = true := by
  rw [value_eq_find, List.find?_eq_none] at h
  intro v hv ha
  have hst := h v (List.mem_filter.mpr ⟨hv, by rw [applicable_eq_applies]; exact ha⟩)
  rw [started_eq_onOrBefore v d (hreal v hv)] at hst
  unfold onOrBefore at hst
  cases hs : v.since with
  | none => rw [hs] at hst; simp at hst
  | some s =>
    refine ⟨s, rfl, ?_⟩
    rw [hs] at hst
    simp only [Bool.not_eq_true] at hst
    cases hlt : dateLt d s
    · rw [dateLe_of_not_lt hlt] at hst; cases hst
    · rfl

/-! ## what the combo receives -/

/-- **exempt keys yield no percentage** (and no surcharge), whatever the date -/
theorem exempt_no_percent (cat : CategoryDef) (c : Combo) (tags : List String) (date : Date) (rate : RateDef)
    (hk : c.rate ≠ "") (hr : rateDef cat.rates c.rate = some rate) (hx : rate.exempt = true) :
    ∃ c', prepareRate cat c tags date = .ok c' ∧ c'.percent = none ∧ c'.surcharge = none := by
  unfold prepareRate
  have : (c.rate == "") = false := by simpa using hk
  simp only [this, hr, hx]
  exact ⟨_, rfl, rfl, rfl⟩

/-- a non-exempt rate with values: the combo receives exactly the percent and
    surcharge of the row `RateDef.Value` picks (looked up with the combo's
    extensions after the rate's own have been copied in) -/
theorem prepareRate_uses_value (cat : CategoryDef) (c : Combo) (tags : List String) (date : Date)
    (rate : RateDef) (v : RateValue)
    (hk : c.rate ≠ "") (hr : rateDef cat.rates c.rate = some rate) (hx : rate.exempt = false)
    (hval : value rate.values date tags (mergedExt c rate) = some v) :
    ∃ c', prepareRate cat c tags date = .ok c' ∧ c'.percent = some v.percent ∧ c'.surcharge = v.surcharge := by
  have hk' : (c.rate == "") = false := by simpa using hk
  have hv' : rate.values.isEmpty = false := by
    cases h : rate.values with
    | nil => rw [h] at hval; simp [value] at hval
    | cons _ _ => rfl
  unfold prepareRate
  simp only [hk', hr, hx, hv', hval]
  exact ⟨_, rfl, rfl, rfl⟩

/-- **no value for the date is an error, not a guess** -/
theorem prepareRate_before_first_is_error (cat : CategoryDef) (c : Combo) (tags : List String) (date : Date)
    (rate : RateDef)
    (hk : c.rate ≠ "") (hr : rateDef cat.rates c.rate = some rate) (hx : rate.exempt = false)
    (hv : rate.values ≠ [])
    (hval : value rate.values date tags (mergedExt c rate) = none) :
    prepareRate cat c tags date = .error .invalidDate := by
  have hk' : (c.rate == "") = false := by simpa using hk
  have hv' : rate.values.isEmpty = false := by
    cases h : rate.values with
    | nil => exact absurd h hv
    | cons _ _ => rfl
  unfold prepareRate
  simp only [hk', hr, hx, hv', hval]
  rfl

/-- the tax date is the value date when the document has one, else the issue date -/
theorem taxDate_value (v i : Date) : taxDate (some v) i = v := rfl
theorem taxDate_issue (i : Date) : taxDate none i = i := rfl

/-! ## non-vacuity: a strictly descending table with a qualified row -/

private def ex : List RateValue :=
  [ { tags := [], ext := [("r", "A")], since := some ⟨2024, 10, 1⟩, percent := (4, 2), surcharge := none, disabled := false },
    { tags := [], ext := [], since := some ⟨2012, 9, 1⟩, percent := (21, 2), surcharge := some (52, 3), disabled := false },
    { tags := [], ext := [], since := some ⟨2010, 7, 1⟩, percent := (18, 2), surcharge := none, disabled := false } ]

example : (∀ v ∈ ex, sinceReal v = true) ∧ descendingFor ex [] [("r", "A")] = true ∧ descendingFor ex [] [] = true := by decide
example : (value ex ⟨2012, 9, 1⟩ [] []).map (·.percent) = some (21, 2) := by decide
example : (value ex ⟨2012, 8, 31⟩ [] []).map (·.percent) = some (18, 2) := by decide
example : value ex ⟨2010, 6, 30⟩ [] [] = none := by decide
example : (value ex ⟨2024, 10, 1⟩ [] [("r", "A")]).map (·.percent) = some (4, 2) := by decide
example : (inForce ex ⟨2024, 9, 30⟩ [] [("r", "A")]).map (·.percent) = some (21, 2) := by decide

/-! ## obligations over the tables regenerated from /repo on every run -/
namespace Expect
open GoblVerif.Generated.Rates

/-- every start date of every shipped table is a real calendar day -/
theorem all_dates_real : (allRates registry).all (fun r => r.values.all sinceReal) = true := by
  decide +kernel

/-- **every shipped rate's values, restricted to each tag/extension filter that
    occurs in it, are strictly descending in date with an undated value last** —
    stronger than `checkRateValuesOrder`, which skips qualified rows.  The only
    tables left out are those of the shape `qualifiedTie` (a qualified row with
    the very start date of the unqualified fall-back row: known finding
    `qualified_row_shares_start_with_fallback`); see the next theorem for them. -/
theorem all_tables_descending :
    (allRates registry).all (fun r => qualifiedTie r.values || tableDescending r.values) = true := by
  decide +kernel

/-- the left-out tables are still in (non-strictly) descending order under every
    filter, so `value_isInForce_of_weaklyDescending` applies to them: the code
    returns the first listed of the values sharing the latest start date -/
theorem tied_tables_weakly_descending :
    (allRates registry).all (fun r => !qualifiedTie r.values || tableWeaklyDescending r.values) = true := by
  decide +kernel

/-- the table published under `data/regimes/<name>.json` for a registered regime -/
def jsonFor (name : String) : Option RegimeTable :=
  ((jsonFiles.zip json).find? (fun p => p.1 == name)).map (·.2)

/-- **data/regimes JSON tables = in-code tables**: every registered regime is
    published under its file name with exactly the categories, rate keys, values,
    tags, extensions, start dates, percentages and surcharges the code holds.
    (Published files that no registered regime produces are C19's business.) -/
theorem json_equals_registry :
    (registryFiles.zip registry).all (fun p => jsonFor p.1 == some p.2) = true ∧
    registryFiles.length = registry.length ∧ jsonFiles.length = json.length := by
  decide +kernel

/-- the end-to-end statement for the shipped tables: for every registered rate
    (outside the known-finding shape), every filter occurring in it and EVERY
    date, `RateDef.Value` is the value in force -/
theorem shipped_value_eq_inForce (r : RateDef) (hr : r ∈ allRates registry)
    (hq : qualifiedTie r.values = false) (f : List String × Ext) (hf : f ∈ filtersOf r.values) (d : Date) :
    value r.values d f.1 f.2 = inForce r.values d f.1 f.2 := by
  have h1 := List.all_eq_true.mp all_dates_real r hr
  have h2 := List.all_eq_true.mp all_tables_descending r hr
  rw [hq, Bool.false_or] at h2
  apply value_eq_inForce
  · exact fun v hv => List.all_eq_true.mp h1 v hv
  · exact List.all_eq_true.mp h2 f hf

/-- … and a table without qualified rows answers the value in force for ANY
    tag list and extension map, not only the occurring filters -/
theorem shipped_unqualified_value_eq_inForce (r : RateDef) (hr : r ∈ allRates registry)
    (hu : r.values.all (fun v => !isQualified v) = true)
    (d : Date) (tags : List String) (ext : Ext) :
    value r.values d tags ext = inForce r.values d tags ext := by
  have h1 := List.all_eq_true.mp all_dates_real r hr
  have h2 := List.all_eq_true.mp all_tables_descending r hr
  have happ : ∀ t e, ∀ v ∈ r.values, applies v t e = true := by
    intro t e v hv
    have := List.all_eq_true.mp hu v hv
    unfold isQualified at this
    unfold applies tagsApply extApply
    cases h1 : v.tags.isEmpty <;> cases h2 : v.ext.isEmpty <;> simp_all
  have hnt : qualifiedTie r.values = false := by
    unfold qualifiedTie
    rw [List.any_eq_false]
    intro v hv
    have := List.all_eq_true.mp hu v hv
    simp only [Bool.not_eq_true'] at this
    simp [this]
  rw [hnt, Bool.false_or] at h2
  have hmem : (([] : List String), ([] : Ext)) ∈ filtersOf r.values := by
    unfold filtersOf
    simp
  have h3 := List.all_eq_true.mp h2 _ hmem
  apply value_eq_inForce
  · exact fun v hv => List.all_eq_true.mp h1 v hv
  · unfold descendingFor startsFor at h3 ⊢
    have e1 : (r.values.filter fun v => applies v tags ext) = r.values :=
      List.filter_eq_self.mpr (happ tags ext)
    have e2 : (r.values.filter fun v => applies v [] []) = r.values :=
      List.filter_eq_self.mpr (happ [] [])
    rw [e1]; rw [e2] at h3; exact h3

end Expect

end GoblVerif.Props.C12
